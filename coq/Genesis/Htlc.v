(** * HTLC: export / validate / import / prepare-for-zero-height
      (modules/htlc/genesis.go, types/genesis.go, types/htlc.go, types/params.go,
       keeper/{htlc,asset,params}.go)

    Identifiers (contract ids, hash locks, secrets, denoms) are interned by the harness with
    numbers that respect the byte order of the real strings, so "store iteration order" is
    ascending order of these numbers.  Addresses are actor indices (-1: not an address).
    Strings whose only role in this code is a length check are represented by their length. *)
From Irismod Require Export Genesis.Store.

Definition coin := (Z * Z)%type.                 (* denom, amount *)

Record htlc := mkHtlc {
  h_id : Z;
  h_sender : Z; h_to : Z;
  h_recv_other : Z; h_send_other : Z;             (* lengths of the other-chain address strings *)
  h_amount : list coin;
  h_hashlock : Z;
  h_secret : Z;                                   (* 0: empty; otherwise an interned 64-hex secret *)
  h_timestamp : Z;
  h_expiry : Z;
  h_state : Z;                                    (* 0 open, 1 completed, 2 refunded *)
  h_closed : Z;
  h_transfer : bool;
  h_dir : Z                                       (* 0 none, 1 incoming, 2 outgoing *)
}.

Record asset := mkAsset {
  a_denom : Z;
  a_limit : Z; a_time_limited : bool; a_time_period : Z; a_time_based_limit : Z;
  a_active : bool;
  a_deputy : Z;                                   (* actor index, -1: not an address *)
  a_fixed_fee : Z; a_min_swap : Z; a_max_swap : Z; a_min_lock : Z; a_max_lock : Z
}.

Record supply := mkSupply {
  s_incoming : coin; s_outgoing : coin; s_current : coin; s_tl_current : coin; s_elapsed : Z
}.

#[export] Instance EqDec_htlc : EqDec htlc.
Proof. intros x y. decide equality; apply eq_dec. Defined.
#[export] Instance EqDec_asset : EqDec asset.
Proof. intros x y. decide equality; apply eq_dec. Defined.
#[export] Instance EqDec_supply : EqDec supply.
Proof. intros x y. decide equality; apply eq_dec. Defined.

(** the module store *)
Record state := mkState {
  params : list asset;                            (* Params.AssetParams, in list order *)
  htlcs : list (Z * htlc);                        (* id -> contract, ascending id *)
  queue : list ((Z * Z) * unit);                  (* expiration queue: (height, id), ascending *)
  supplies : list (Z * supply);                   (* denom -> asset supply, ascending denom *)
  prev_time : option Z                            (* previous block time (unix), if stored *)
}.

Record genesis := mkGenesis {
  g_params : list asset;
  g_htlcs : list htlc;
  g_supplies : list supply;
  g_prev : option Z                               (* None: the [time.Now()] placeholder, never compared *)
}.

#[export] Instance EqDec_state : EqDec state.
Proof. intros x y. decide equality; apply eq_dec. Defined.
#[export] Instance EqDec_genesis : EqDec genesis.
Proof. intros x y. decide equality; apply eq_dec. Defined.

(** ** ExportGenesis: open contracts in store order, all supplies, previous block time *)
Definition is_open (h : htlc) : bool := h_state h =? 0.
Definition export (s : state) : genesis :=
  mkGenesis (params s) (filter is_open (map snd (htlcs s))) (map snd (supplies s)) (prev_time s).

(** ** Validation *)
Definition min_time_lock : Z := 50.
Definition max_time_lock : Z := 34560.
Definition max_other_len : Z := 128.

(** types.validateAssetParams (denominations come from a fixed valid universe; their syntactic
    checks are not modelled) *)
Fixpoint validate_assets (seen : list Z) (l : list asset) : bool :=
  match l with
  | [] => true
  | a :: l' =>
      (0 <=? a_limit a) && (0 <=? a_time_based_limit a) && (a_time_based_limit a <=? a_limit a)
      && negb (existsb (Z.eqb (a_denom a)) seen)
      && (0 <=? a_deputy a) && (0 <=? a_fixed_fee a)
      && (min_time_lock <=? a_min_lock a) && (a_max_lock a <=? max_time_lock)
      && (a_min_lock a <=? a_max_lock a)
      && (0 <? a_min_swap a) && (0 <? a_max_swap a) && (a_min_swap a <=? a_max_swap a)
      && validate_assets (a_denom a :: seen) l'
  end.
Definition validate_params (p : list asset) : bool := validate_assets [] p.

(** sdk.Coins.IsValid && IsAllPositive: non-empty, strictly ascending denoms, positive amounts *)
Fixpoint coins_sorted (l : list coin) : bool :=
  match l with
  | a :: (b :: _) as t => (fst a <? fst b) && coins_sorted t
  | _ => true
  end.
Definition coins_valid_positive (l : list coin) : bool :=
  match l with [] => false | _ => coins_sorted l && forallb (fun c => 0 <? snd c) l end.

(** types.ValidateAmount *)
Definition validate_amount (transfer : bool) (l : list coin) : bool :=
  (negb transfer || (Z.of_nat (length l) =? 1)) && coins_valid_positive l.

(** [fix_ts0]: the repaired code (commit "fix: htlc genesis validation accepts timestamp 0 for
    plain contracts") rejects a zero timestamp only for cross-chain transfers, as the message
    path does; the unchanged code rejects it always.  The model follows the code in the tree. *)
Definition timestamp_ok (fix_ts0 : bool) (h : htlc) : bool :=
  if fix_ts0 then negb (h_transfer h) || negb (h_timestamp h =? 0)
  else negb (h_timestamp h =? 0).

(** HTLC.Validate (types/htlc.go), clause by clause; ids and hash locks are 64-hex by
    construction of the projection *)
Definition validate_htlc (fix_ts0 : bool) (h : htlc) : bool :=
  (0 <=? h_sender h) && (0 <=? h_to h)
  && (h_recv_other h <=? max_other_len) && (h_send_other h <=? max_other_len)
  && negb (h_expiry h =? 0)
  && timestamp_ok fix_ts0 h
  && validate_amount (h_transfer h) (h_amount h)
  && (h_state h <=? 2)
  && negb ((h_state h =? 1) && (h_closed h =? 0))
  && negb (negb (h_transfer h) && negb (h_dir h =? 0))
  && negb (h_transfer h && ((h_dir h <? 1) || (2 <? h_dir h)))
  && negb (negb (h_state h =? 1) && negb (h_secret h =? 0))
  && negb ((h_state h =? 1) && (h_secret h =? 0)).

Fixpoint validate_htlcs (fix_ts0 : bool) (seen : list Z) (l : list htlc) : bool :=
  match l with
  | [] => true
  | h :: l' =>
      negb (existsb (Z.eqb (h_id h)) seen) && (h_state h =? 0) && validate_htlc fix_ts0 h
      && validate_htlcs fix_ts0 (h_id h :: seen) l'
  end.

(** AssetSupply.Validate: the four coins are valid (non-negative) and of one denomination *)
Definition validate_supply (s : supply) : bool :=
  (0 <=? snd (s_incoming s)) && (0 <=? snd (s_outgoing s)) && (0 <=? snd (s_current s))
  && (0 <=? snd (s_tl_current s))
  && (fst (s_incoming s) =? fst (s_current s)) && (fst (s_outgoing s) =? fst (s_current s))
  && (fst (s_tl_current s) =? fst (s_current s)).

Fixpoint validate_supplies (seen : list Z) (l : list supply) : bool :=
  match l with
  | [] => true
  | s :: l' =>
      validate_supply s && negb (existsb (Z.eqb (fst (s_current s))) seen)
      && validate_supplies (fst (s_current s) :: seen) l'
  end.

(** types.ValidateGenesis *)
Definition validate (fix_ts0 : bool) (g : genesis) : bool :=
  validate_params (g_params g) && validate_htlcs fix_ts0 [] (g_htlcs g) && validate_supplies [] (g_supplies g).

(** ** InitGenesis *)
Definition find_asset (p : list asset) (d : Z) : option asset :=
  find (fun a => a_denom a =? d) p.

(** Keeper.ValidateLiveAsset *)
Definition live_asset (p : list asset) (d : Z) : bool :=
  match find_asset p d with Some a => a_active a | None => false end.

(** amount of one denomination in a list of coins added up (sdk.Coins.Add / AmountOf) *)
Definition amount_of (d : Z) (l : list coin) : Z :=
  zsum (map snd (filter (fun c => fst c =? d) l)).

Definition first_denom (h : htlc) : Z := match h_amount h with c :: _ => fst c | [] => -1 end.

(** the loop over [data.Htlcs]: None = panic *)
Fixpoint import_htlcs (p : list asset) (l : list htlc)
    (hs : list (Z * htlc)) (q : list ((Z * Z) * unit)) (inc out : list coin)
    : option (list (Z * htlc) * list ((Z * Z) * unit) * list coin * list coin) :=
  match l with
  | [] => Some (hs, q, inc, out)
  | h :: l' =>
      if negb (h_state h =? 0) then None
      else
        let hs' := oins lt1 (h_id h) h hs in
        let q' := oins lt2 (h_expiry h, h_id h) tt q in
        if negb (h_transfer h) then import_htlcs p l' hs' q' inc out
        else if negb (live_asset p (first_denom h)) then None
        else if h_dir h =? 1 then import_htlcs p l' hs' q' (inc ++ h_amount h) out
        else if h_dir h =? 2 then import_htlcs p l' hs' q' inc (out ++ h_amount h)
        else None
  end.

(** the final loop over the stored supplies *)
Definition supply_ok (p : list asset) (inc out : list coin) (s : supply) : bool :=
  let d := fst (s_current s) in
  (snd (s_incoming s) =? amount_of d inc) && (snd (s_outgoing s) =? amount_of d out)
  && match find_asset p d with
     | None => false
     | Some a =>
         (snd (s_current s) <=? a_limit a) && (snd (s_incoming s) <=? a_limit a)
         && (snd (s_incoming s) + snd (s_current s) <=? a_limit a)
         && (snd (s_outgoing s) <=? a_limit a)
     end.

Definition import (fix_ts0 : bool) (g : genesis) : option state :=
  if negb (validate fix_ts0 g) then None
  else
    let sups := fold_left (fun m s => oins lt1 (fst (s_current s)) s m) (g_supplies g) [] in
    match import_htlcs (g_params g) (g_htlcs g) [] [] [] [] with
    | None => None
    | Some (hs, q, inc, out) =>
        if forallb (supply_ok (g_params g) inc out) (map snd sups)
        then Some (mkState (g_params g) hs q sups (g_prev g))
        else None
    end.

(** ** PrepForZeroHeightGenesis at block height [height]: every open contract's expiration
    height becomes the number of blocks left plus one (uint64 arithmetic); the expiration queue,
    the supplies and the previous block time are left as they are (the TODO in the Go code) *)
Definition two64 : Z := 18446744073709551616.
Definition prep_htlc (height : Z) (h : htlc) : htlc :=
  if is_open h then
    mkHtlc (h_id h) (h_sender h) (h_to h) (h_recv_other h) (h_send_other h) (h_amount h) (h_hashlock h)
           (h_secret h) (h_timestamp h) ((h_expiry h - height + 1) mod two64) (h_state h) (h_closed h)
           (h_transfer h) (h_dir h)
  else h.
Definition prep (height : Z) (s : state) : state :=
  mkState (params s) (map (fun e => (fst e, prep_htlc height (snd e))) (htlcs s)) (queue s) (supplies s) (prev_time s).

(** ** Queries: contract by id, asset supplies, parameters *)
Definition query_htlc (s : state) (id : Z) : option htlc := get id (htlcs s).
Definition view := (list (Z * htlc) * list (Z * supply) * list asset)%type.
(** the durable user-visible objects: OPEN contracts (closed ones are documented as dropped:
    ExportGenesis filters them and InitGenesis refuses them), supplies, parameters *)
Definition queries (s : state) : view :=
  (filter (fun e => is_open (snd e)) (htlcs s), supplies s, params s).

(** ** What reachable states look like (decidable form; the Prop form is in the proofs) *)
Definition key_ok_h (e : Z * htlc) : bool := fst e =? h_id (snd e).
Definition key_ok_s (e : Z * supply) : bool := fst e =? fst (s_current (snd e)).
Definition open_amounts (dir : Z) (s : state) : list coin :=
  flat_map (fun e => if is_open (snd e) && h_transfer (snd e) && (h_dir (snd e) =? dir) then h_amount (snd e) else [])
           (htlcs s).
(** the expiration queue holds exactly the open contracts, under their expiration heights *)
Definition queue_of (hs : list (Z * htlc)) : list ((Z * Z) * unit) :=
  fold_left (fun q e => if is_open (snd e) then oins lt2 (h_expiry (snd e), fst e) tt q else q) hs [].

Definition invb (fix_ts0 : bool) (s : state) : bool :=
  sortedb lt1 (htlcs s) && forallb key_ok_h (htlcs s)
  && sortedb lt1 (supplies s) && forallb key_ok_s (supplies s)
  && validate_params (params s)
  && forallb (fun e => validate_htlc true (snd e)) (htlcs s)
  && forallb (fun e => validate_supply (snd e)) (supplies s)
  (* open transfers refer to live assets; supplies equal the open transfers and respect the limits *)
  && forallb (fun e => negb (is_open (snd e) && h_transfer (snd e)) || live_asset (params s) (first_denom (snd e))) (htlcs s)
  && forallb (fun e => supply_ok (params s) (open_amounts 1 s) (open_amounts 2 s) (snd e)) (supplies s).

(** the two parameter-dependent clauses of [invb]: they hold as long as the asset parameters are not
    changed (Htlc/Proofs.v, [Inv]), and a MsgUpdateParams can break each of them (known finding, clause 7) *)
Definition params_cover (s : state) : bool :=
  forallb (fun e => negb (is_open (snd e) && h_transfer (snd e)) || live_asset (params s) (first_denom (snd e))) (htlcs s)
  && forallb (fun e => supply_ok (params s) (open_amounts 1 s) (open_amounts 2 s) (snd e)) (supplies s).
Definition invb_core (s : state) : bool :=
  sortedb lt1 (htlcs s) && forallb key_ok_h (htlcs s)
  && sortedb lt1 (supplies s) && forallb key_ok_s (supplies s)
  && validate_params (params s)
  && forallb (fun e => validate_htlc true (snd e)) (htlcs s)
  && forallb (fun e => validate_supply (snd e)) (supplies s).
Lemma invb_split fx s : invb fx s = invb_core s && params_cover s.
Proof. unfold invb, invb_core, params_cover. rewrite !andb_assoc. reflexivity. Qed.

(** ** Correspondence and the C12 predicate on the implementation's observations *)
Record run := mkRun {
  r_sA : state; r_gA : genesis; r_val : bool; r_imp : Z; r_sB : option state; r_gB : option genesis
}.
Record case := mkCase {
  c_height : Z;                   (* height of A at export *)
  c_runs : list run               (* as-is; after prep *)
}.

Definition genesis_eq_mod_prev (a b : genesis) : bool :=
  eqb (g_params a) (g_params b) && eqb (g_htlcs a) (g_htlcs b) && eqb (g_supplies a) (g_supplies b)
  && match g_prev a with None => true | Some _ => eqb (g_prev a) (g_prev b) end.

Definition corr_run (fx : bool) (r : run) : bool :=
  eqb (export (r_sA r)) (r_gA r)
  && eqb (validate fx (r_gA r)) (r_val r)
  && match import fx (r_gA r) with
     | None => negb (r_imp r =? 0)
     | Some b => (r_imp r =? 0) && eqb (r_sB r) (Some b) && eqb (r_gB r) (Some (export b))
     end.

(** clause codes: 1 export does not validate; 2 import panics; 3 second export differs;
    4 an open contract / supply / parameter reads differently on B; 5 B's expiration queue is not
    the set of open contracts under their expiration heights; 7 import panics and the asset
    parameters of A do not cover A's stored supplies / open transfers (only possible after a
    parameter change: an asset dropped or deactivated, a limit cut below the usage) — reported
    before 2, so that 2 stands for every OTHER import panic *)
Definition prop_run (r : run) : Z :=
  first_code
    [ (1, r_val r);
      (7, (r_imp r =? 0) || params_cover (r_sA r));
      (2, r_imp r =? 0);
      (3, match r_gB r with Some g => genesis_eq_mod_prev (r_gA r) g | None => true end);
      (4, match r_sB r with Some b => eqb (queries b) (queries (r_sA r)) | None => true end);
      (5, match r_sB r with Some b => eqb (queue b) (queue_of (htlcs b)) | None => true end) ].

Fixpoint check_runs (fx : bool) (rs : list run) (i : Z) (corr prop code : Z) : Z * Z * Z :=
  match rs with
  | [] => (corr, prop, code)
  | r :: rest =>
      let corr' := if (corr <? 0) && negb (corr_run fx r) then i else corr in
      let c := prop_run r in
      let '(prop', code') := if (prop <? 0) && negb (c =? 0) then (i, c) else (prop, code) in
      check_runs fx rest (i + 1) corr' prop' code'
  end.

(** the tree under check contains the timestamp fix *)
Definition fixed : bool := true.

Definition check_htlc (c : case) : Z * Z * Z :=
  (* the state of A satisfies the parameter-independent part of the reachability invariant (the
     parameter-dependent part is clause 7 when it matters), and the state after the Go
     PrepForZeroHeightGenesis is the model's [prep] of the state before *)
  let pre_ok :=
    match c_runs c with
    | r0 :: rest =>
        invb_core (r_sA r0)
        && match rest with r1 :: _ => eqb (r_sA r1) (prep (c_height c) (r_sA r0)) | [] => true end
    | [] => true
    end in
  let '(corr, prop, code) := check_runs fixed (c_runs c) 0 (-1) (-1) 0 in
  (if pre_ok then corr else 0, prop, code).
