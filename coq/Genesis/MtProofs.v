(** * MT: proofs about export / validate / import (C12) *)
From Irismod Require Import Genesis.Mt.
From Coq Require Import ZifyBool.

Ltac split_andb H :=
  repeat match type of H with
         | (_ && _) = true => let H1 := fresh "Hi" in apply andb_true_iff in H; destruct H as [H H1]
         end.

(** ** sums of the balances of one (class, MT) *)
Definition sumk (k : Z * Z) (bs : list ((Z * Z * Z) * Z)) : Z := zsum (map snd (filter (fun b => eqb (bkey b) k) bs)).

Lemma sumk_cons_same b bs : sumk (bkey b) (b :: bs) = snd b + sumk (bkey b) bs.
Proof. unfold sumk. simpl. rewrite Prelude.eqb_refl. reflexivity. Qed.
Lemma sumk_cons_other k b bs : bkey b <> k -> sumk k (b :: bs) = sumk k bs.
Proof.
  intros Hne. unfold sumk. simpl. destruct (eqb (bkey b) k) eqn:E; [|reflexivity].
  assert (Heq : bkey b = k) by (apply Prelude.eqb_true_iff; exact E). contradiction.
Qed.
Lemma sumk_nonneg k bs : (forall b, In b bs -> 0 <= snd b) -> 0 <= sumk k bs.
Proof.
  induction bs as [|b bs IH]; intros Hall; [unfold sumk; simpl; lia|].
  destruct (eq_dec (bkey b) k) as [<-|Hne].
  - rewrite sumk_cons_same. pose proof (Hall b (or_introl eq_refl)). 
    assert (0 <= sumk (bkey b) bs) by (apply IH; intros b' Hin; apply Hall; right; exact Hin). lia.
  - rewrite (sumk_cons_other k b bs Hne). apply IH. intros b' Hin. apply Hall. right. exact Hin.
Qed.

(** the supply store built by insertion: value = old value + sum, keys = old keys + balance keys *)
Lemma getz_oins_same {K} `{EqDec K} (ltb : K -> K -> bool) k v m : getz k (oins ltb k v m) = v.
Proof. unfold getz. rewrite get_oins_same. reflexivity. Qed.
Lemma getz_oins_other {K} `{EqDec K} (ltb : K -> K -> bool) k k0 v m : k0 <> k -> getz k0 (oins ltb k v m) = getz k0 m.
Proof. intros Hne. unfold getz. rewrite get_oins_other by exact Hne. reflexivity. Qed.

Lemma getz_fold_insS bs : forall m k, getz k (fold_left insS bs m) = getz k m + sumk k bs.
Proof.
  induction bs as [|b bs IH]; intros m k; simpl; [unfold sumk; simpl; lia|].
  rewrite IH. unfold insS at 1. destruct (eq_dec (bkey b) k) as [<-|Hne].
  - rewrite getz_oins_same, sumk_cons_same. lia.
  - rewrite getz_oins_other by congruence. rewrite (sumk_cons_other k b bs Hne). reflexivity.
Qed.

Lemma In_keys_oins {K V} `{EqDec K} (ltb : K -> K -> bool) k' k (v : V) m :
  In k' (map fst (oins ltb k v m)) <-> k' = k \/ In k' (map fst m).
Proof.
  split; [apply keys_oins_inv|]. intros [->|Hin].
  - apply (in_map fst _ (k, v)). apply In_oins_same.
  - destruct (eq_dec k' k) as [->|Hne]; [apply (in_map fst _ (k, v)); apply In_oins_same|].
    apply in_map_iff in Hin. destruct Hin as (e & <- & He). apply in_map. apply In_oins_other; [exact He|exact Hne].
Qed.

Lemma keys_fold_insS bs : forall m k,
  In k (map fst (fold_left insS bs m)) <-> In k (map fst m) \/ In k (map bkey bs).
Proof.
  induction bs as [|b bs IH]; intros m k; simpl; [tauto|].
  rewrite IH. unfold insS at 1. rewrite In_keys_oins. intuition congruence.
Qed.

(** ** the Go-map of ValidateGenesis (association list with [set]) *)
Lemma In_keys_set {K V} `{EqDec K} k' k (v : V) m : In k' (keys (set k v m)) <-> k' = k \/ In k' (keys m).
Proof.
  unfold keys. induction m as [|[k0 v0] m IH]; simpl; [intuition congruence|].
  destruct (eq_dec k k0) as [->|Hne]; simpl; [intuition congruence|]. rewrite IH. intuition congruence.
Qed.

Lemma getz_set_same {K} `{EqDec K} k v (m : list (K * Z)) : getz k (set k v m) = v.
Proof. unfold getz. rewrite get_set_same. reflexivity. Qed.
Lemma getz_set_other {K} `{EqDec K} k k0 v (m : list (K * Z)) : k0 <> k -> getz k0 (set k v m) = getz k0 m.
Proof. intros Hne. unfold getz. rewrite get_set_other by exact Hne. reflexivity. Qed.

Lemma keys_fold_step2 bs : forall m k,
  In k (keys (fold_left step2 bs m)) <-> In k (keys m) \/ In k (map bkey bs).
Proof.
  induction bs as [|b bs IH]; intros m k; simpl; [tauto|].
  rewrite IH. unfold step2 at 1. rewrite In_keys_set. intuition congruence.
Qed.

Lemma NoDup_fold_step2 bs : forall m, NoDup (keys m) -> NoDup (keys (fold_left step2 bs m)).
Proof. induction bs as [|b bs IH]; intros m Hnd; simpl; [exact Hnd|]. apply IH. apply keys_set_NoDup. exact Hnd. Qed.

(** as long as no sum reaches 2^64 the wrapping addition is the plain sum *)
Lemma getz_fold_step2 bs : forall m k,
  (forall b, In b bs -> 0 <= snd b) -> 0 <= getz k m -> getz k m + sumk k bs < two64 ->
  getz k (fold_left step2 bs m) = getz k m + sumk k bs.
Proof.
  induction bs as [|b bs IH]; intros m k Hnn H0 Hlt; simpl; [unfold sumk; simpl; lia|].
  assert (Hnn' : forall b', In b' bs -> 0 <= snd b') by (intros b' Hin; apply Hnn; right; exact Hin).
  pose proof (Hnn b (or_introl eq_refl)) as Hb.
  destruct (eq_dec (bkey b) k) as [Heq|Hne].
  - subst k. rewrite sumk_cons_same in *. pose proof (sumk_nonneg (bkey b) bs Hnn') as Hs.
    assert (Hm' : getz (bkey b) (step2 m b) = getz (bkey b) m + snd b).
    { unfold step2. rewrite getz_set_same. apply Z.mod_small. lia. }
    rewrite IH; [rewrite Hm'; lia|exact Hnn'|rewrite Hm'; lia|rewrite Hm'; lia].
  - rewrite (sumk_cons_other k b bs Hne) in *.
    assert (Hm' : getz k (step2 m b) = getz k m) by (unfold step2; apply getz_set_other; congruence).
    rewrite IH; [rewrite Hm'; reflexivity|exact Hnn'|rewrite Hm'; exact H0|rewrite Hm'; exact Hlt].
Qed.

(** when no sum reaches 2^64 the repaired (checked) loop computes the same map as the wrapping one *)
Lemma mt_map2c_ok bs : forall m,
  (forall b, In b bs -> 0 <= snd b) ->
  (forall k, 0 <= getz k m /\ getz k m + sumk k bs < two64) ->
  mt_map2c bs m = Some (fold_left step2 bs m).
Proof.
  induction bs as [|b bs IH]; intros m Hnn Hk; cbn [mt_map2c fold_left]; [reflexivity|].
  assert (Hnn' : forall b', In b' bs -> 0 <= snd b') by (intros b' Hin; apply Hnn; right; exact Hin).
  pose proof (Hnn b (or_introl eq_refl)) as Hb. destruct (Hk (bkey b)) as [H0 H1]. rewrite sumk_cons_same in H1.
  pose proof (sumk_nonneg (bkey b) bs Hnn') as Hs.
  assert (Hchk : (two64 - 1 - getz (bkey b) m <? snd b) = false) by lia. rewrite Hchk.
  unfold step2 at 2. rewrite (Z.mod_small (getz (bkey b) m + snd b)) by lia.
  apply IH; [exact Hnn'|]. intros k. destruct (eq_dec (bkey b) k) as [<-|Hne].
  - rewrite getz_set_same. lia.
  - rewrite getz_set_other by congruence. destruct (Hk k) as [A B]. rewrite (sumk_cons_other k b bs Hne) in B. lia.
Qed.

(** ** mtMap1 of an export is the list of the exported (class, MT) -> supply pairs *)
Definition setkv {K V} `{EqDec K} (m : list (K * V)) (kv : K * V) := set (fst kv) (snd kv) m.

Lemma set_fresh {K V} `{EqDec K} k (v : V) m : ~ In k (keys m) -> set k v m = m ++ [(k, v)].
Proof.
  unfold keys. induction m as [|[k0 v0] m IH]; simpl; intros Hn; [reflexivity|].
  destruct (eq_dec k k0) as [->|Hne]; [exfalso; apply Hn; left; reflexivity|].
  rewrite IH; [reflexivity|]. intros Hin. apply Hn. right. exact Hin.
Qed.

Lemma fold_set_fresh {K V} `{EqDec K} (l : list (K * V)) : forall m,
  NoDup (keys m ++ map fst l) -> fold_left setkv l m = m ++ l.
Proof.
  induction l as [|[k v] l IH]; intros m Hnd; simpl; [rewrite app_nil_r; reflexivity|].
  simpl in Hnd. pose proof (NoDup_remove_2 _ _ _ Hnd) as Hk.
  unfold setkv at 2. simpl. rewrite set_fresh by (intros Hin; apply Hk; apply in_or_app; left; exact Hin).
  rewrite IH; [rewrite <- app_assoc; reflexivity|].
  unfold keys. rewrite map_app. simpl. rewrite <- app_assoc. simpl. exact Hnd.
Qed.

Lemma fold_left_flat_map {A B C} (f : A -> B -> A) (g : C -> list B) l : forall a,
  fold_left f (flat_map g l) a = fold_left (fun a x => fold_left f (g x) a) l a.
Proof. induction l as [|x l IH]; intros a; simpl; [reflexivity|]. rewrite fold_left_app. apply IH. Qed.

Lemma fold_left_map3 {A B C} (f : A -> B -> A) (g : C -> B) l : forall a,
  fold_left f (map g l) a = fold_left (fun a x => f a (g x)) l a.
Proof. induction l as [|x l IH]; intros a; simpl; [reflexivity|apply IH]. Qed.

Lemma fold_left_ext_in0 {A B} (f g : A -> B -> A) l : forall a,
  (forall a x, f a x = g a x) -> fold_left f l a = fold_left g l a.
Proof. induction l as [|x l IH]; intros a Hfg; simpl; [reflexivity|]. rewrite Hfg. apply IH. exact Hfg. Qed.

Definition expc (sup : list ((Z * Z) * Z)) (c : col) : (Z * dinfo) * list (Z * minfo) :=
  ((fst c, fst (snd c)), exp_mts sup (fst c) (snd (snd c))).
Definition pairs_of (sup : list ((Z * Z) * Z)) (c : col) : list ((Z * Z) * Z) :=
  map (fun t => ((fst c, fst t), getz (fst c, fst t) sup)) (snd (snd c)).
Definition L1 (sup : list ((Z * Z) * Z)) (cs : list col) : list ((Z * Z) * Z) := flat_map (pairs_of sup) cs.

Lemma keys_L1 sup cs : map fst (L1 sup cs) = flat_keys cs.
Proof.
  unfold L1, flat_keys. induction cs as [|c cs IH]; simpl; [reflexivity|].
  rewrite map_app, IH. f_equal. unfold pairs_of. rewrite map_map. reflexivity.
Qed.

Lemma mt_map1_export sup cs : NoDup (flat_keys cs) -> mt_map1 (map (expc sup) cs) = L1 sup cs.
Proof.
  intros Hnd. unfold mt_map1. rewrite fold_left_map3.
  assert (Hin : forall m (c : col),
    fold_left (fun m' t => set (fst (fst (expc sup c)), fst t) (snd (snd t)) m') (snd (expc sup c)) m
    = fold_left setkv (pairs_of sup c) m).
  { intros m c. unfold expc, exp_mts, pairs_of. simpl. rewrite !fold_left_map3. reflexivity. }
  rewrite (fold_left_ext_in0 _ (fun m c => fold_left setkv (pairs_of sup c) m)) by (intros; apply Hin).
  rewrite <- (fold_left_flat_map setkv (pairs_of sup) cs []). fold (L1 sup cs).
  rewrite fold_set_fresh; [reflexivity|]. simpl. rewrite keys_L1. exact Hnd.
Qed.

(** ** the exported genesis of a reachable state validates *)
Lemma NoDup_get {K V} `{EqDec K} (m : list (K * V)) k v : NoDup (map fst m) -> In (k, v) m -> get k m = Some v.
Proof.
  induction m as [|[k0 v0] m IH]; simpl; intros Hnd Hin; [contradiction|].
  inversion Hnd as [|? ? Hn Hnd']; subst. destruct (eq_dec k k0) as [->|Hne].
  - destruct Hin as [Heq|Hin]; [congruence|]. exfalso. apply Hn. apply (in_map fst _ (k0, v)). exact Hin.
  - destruct Hin as [Heq|Hin]; [congruence|]. apply IH; assumption.
Qed.

Lemma flat_keys_class cs d t : In (d, t) (flat_keys cs) -> In d (map fst cs).
Proof.
  unfold flat_keys. intros Hin. apply in_flat_map in Hin. destruct Hin as (c & Hc & Hin).
  apply in_map_iff in Hin. destruct Hin as (x & Hx & _). inversion Hx; subst. apply in_map. exact Hc.
Qed.

Lemma existsb_Zeqb_In d l : In d l -> existsb (Z.eqb d) l = true.
Proof. intros Hin. apply existsb_exists. exists d. split; [exact Hin|apply Z.eqb_refl]. Qed.

Section Inv.
  Variable s : state.
  Hypothesis Hinv : invb s = true.

  Let Hparts := Hinv.

  Lemma inv_parts :
    sortedb lt1 (cols s) = true /\ forallb (fun c => sortedb lt1 (snd (snd c))) (cols s) = true
    /\ sortedb lt2 (msupply s) = true /\ map fst (msupply s) = flat_keys (cols s)
    /\ msupply s = sup_of (bals s) /\ forallb (fun e => snd e <? two64) (msupply s) = true
    /\ sortedb lt3 (bals s) = true
    /\ forallb (fun b => (0 <=? snd b) && (snd b <? two64) && (0 <=? fst (fst (fst b)))) (bals s) = true
    /\ dsupply s = dsupply_of (cols s) /\ dseq s = Z.of_nat (length (cols s)) + 1 /\ mseq s = count_mts (cols s) + 1.
  Proof.
    pose proof Hinv as H. unfold invb in H. split_andb H.
    repeat split; try assumption; try (apply Prelude.eqb_true_iff; assumption); lia.
  Qed.

  Lemma nodup_sup_keys : NoDup (map fst (msupply s)).
  Proof.
    destruct inv_parts as (_ & _ & Hs & _). apply (sorted_keys_NoDup lt2 lt2_irrefl).
    apply (sortedb_sorted lt2 lt2_trans). exact Hs.
  Qed.

  Lemma sup_key_iff k : In k (map fst (msupply s)) <-> In k (map bkey (bals s)).
  Proof.
    destruct inv_parts as (_ & _ & _ & _ & Hsup & _). rewrite Hsup. unfold sup_of.
    rewrite keys_fold_insS. simpl. tauto.
  Qed.

  Lemma bal_nonneg : forall b, In b (bals s) -> 0 <= snd b.
  Proof.
    destruct inv_parts as (_ & _ & _ & _ & _ & _ & _ & Hb & _). intros b Hin.
    rewrite forallb_forall in Hb. specialize (Hb b Hin). lia.
  Qed.

  Lemma getz_sup k : getz k (msupply s) = sumk k (bals s).
  Proof.
    destruct inv_parts as (_ & _ & _ & _ & Hsup & _). rewrite Hsup at 1. unfold sup_of.
    rewrite getz_fold_insS. unfold getz. simpl. lia.
  Qed.

  Lemma getz_sup_bound k : getz k (msupply s) < two64.
  Proof.
    destruct inv_parts as (_ & _ & _ & _ & _ & Hlt & _). unfold getz.
    destruct (get k (msupply s)) as [v|] eqn:E; [|unfold two64; lia].
    apply get_In in E. rewrite forallb_forall in Hlt. specialize (Hlt _ E). simpl in Hlt. lia.
  Qed.

  Lemma getz_m2 k : getz k (mt_map2 (bals s)) = sumk k (bals s).
  Proof.
    unfold mt_map2. rewrite getz_fold_step2.
    - unfold getz. simpl. lia.
    - exact bal_nonneg.
    - unfold getz. simpl. lia.
    - unfold getz at 1. simpl. rewrite <- getz_sup. pose proof (getz_sup_bound k). lia.
  Qed.

  Lemma mt_validate_export fx : validate fx (export s) = true.
  Proof.
    destruct inv_parts as (Hcs & Hin & Hss & Hkeys & Hsup & Hlt & Hbs & Hb & _).
    assert (Hexp : export s = mkGenesis (map (expc (msupply s)) (cols s)) (bals s)) by reflexivity.
    rewrite Hexp. unfold validate. cbn [g_cols g_bals]. cbv zeta.
    assert (Hm2 : (if fx then mt_map2c (bals s) [] else Some (mt_map2 (bals s))) = Some (mt_map2 (bals s))).
    { destruct fx; [|reflexivity]. unfold mt_map2. apply mt_map2c_ok; [exact bal_nonneg|].
      intros k. unfold getz at 1 2. simpl. rewrite <- getz_sup. pose proof (getz_sup_bound k). lia. }
    rewrite Hm2.
    rewrite mt_map1_export by (rewrite <- Hkeys; exact nodup_sup_keys).
    apply andb_true_iff. split; [apply andb_true_iff; split; [apply andb_true_iff; split|]|].
    - destruct fx; [|reflexivity]. rewrite forallb_forall in *. intros b Hbin. specialize (Hb b Hbin). lia.
    - (* every balance's class is a collection *)
      rewrite forallb_forall. intros b Hbin. rewrite map_map. cbn [expc fst snd].
      apply existsb_Zeqb_In. change (map (fun x : col => fst x) (cols s)) with (map fst (cols s)).
      assert (Hk : In (bkey b) (flat_keys (cols s))).
      { rewrite <- Hkeys. apply sup_key_iff. apply in_map. exact Hbin. }
      unfold bkey in Hk. apply flat_keys_class in Hk. exact Hk.
    - (* as many (class, MT) pairs on both sides *)
      apply Z.eqb_eq. f_equal.
      assert (Hl1 : length (L1 (msupply s) (cols s)) = length (map fst (msupply s))).
      { rewrite <- (map_length fst (L1 (msupply s) (cols s))). rewrite keys_L1, Hkeys. reflexivity. }
      rewrite Hl1. rewrite <- (map_length fst (mt_map2 (bals s))). fold (keys (mt_map2 (bals s))).
      assert (Hnd2 : NoDup (keys (mt_map2 (bals s)))) by (apply NoDup_fold_step2; constructor).
      assert (Hincl1 : incl (map fst (msupply s)) (keys (mt_map2 (bals s)))).
      { intros k Hk. unfold mt_map2. apply keys_fold_step2. right. apply sup_key_iff. exact Hk. }
      assert (Hincl2 : incl (keys (mt_map2 (bals s))) (map fst (msupply s))).
      { intros k Hk. unfold mt_map2 in Hk. apply keys_fold_step2 in Hk. destruct Hk as [[]|Hk]. apply sup_key_iff. exact Hk. }
      pose proof (NoDup_incl_length nodup_sup_keys Hincl1). pose proof (NoDup_incl_length Hnd2 Hincl2). lia.
    - (* the exported supply of every MT is the sum of its balances *)
      rewrite forallb_forall. intros e He. unfold L1 in He. apply in_flat_map in He. destruct He as (c & _ & He).
      unfold pairs_of in He. apply in_map_iff in He. destruct He as (t & <- & _). simpl.
      rewrite getz_m2, getz_sup. apply Z.eqb_refl.
  Qed.
End Inv.

(** ** the import loops *)
From Irismod Require Genesis.RandomProofs.

Lemma get_none_all_ltb {K V} `{EqDec K} (ltb : K -> K -> bool) (ltb_irrefl : forall k, ltb k k = false)
      k (m : list (K * V)) : Forall (fun a => ltb (fst a) k = true) m -> get k m = None.
Proof.
  induction m as [|[k' v'] m IH]; simpl; intros Hall; [reflexivity|].
  inversion Hall as [|? ? Hk Hall']; subst. simpl in Hk.
  destruct (eq_dec k k') as [->|Hne]; [rewrite ltb_irrefl in Hk; discriminate|]. apply IH. exact Hall'.
Qed.

Lemma sortedb_map_key {V W} (g : Z * V -> W) (m : list (Z * V)) :
  sortedb lt1 m = true -> sortedb lt1 (map (fun t => (fst t, g t)) m) = true.
Proof.
  induction m as [|a m IH]; simpl; intros Hs; [reflexivity|].
  destruct m as [|b m']; [reflexivity|]. simpl in *. apply andb_true_iff in Hs. destruct Hs as [Hab Ht].
  rewrite Hab. simpl. apply IH. exact Ht.
Qed.

Lemma pair_eq3 {A B C} (a a' : A) (b b' : B) (c c' : C) : a = a' -> b = b' -> c = c' -> (a, b, c) = (a', b', c').
Proof. intros; subst; reflexivity. Qed.

Definition curc (sup : list ((Z * Z) * Z)) (c : col) : col := (fst c, (fst (snd c), exp_mts sup (fst c) (snd (snd c)))).

(** counting the MTs of one class: n increments of a fresh counter *)
Lemma inc_fold {A} d (l : list A) : forall v ds0,
  fold_left (fun ds (_ : A) => oins lt1 d (getz d ds + 1) ds) l (oins lt1 d v ds0) = oins lt1 d (v + Z.of_nat (length l)) ds0.
Proof.
  induction l as [|x l IH]; intros v ds0; simpl fold_left.
  - simpl. rewrite Z.add_0_r. reflexivity.
  - rewrite getz_oins_same. rewrite Genesis.RandomProofs.oins_oins_same. rewrite IH. f_equal.
    change (length (x :: l)) with (S (length l)). lia.
Qed.

Lemma count_fold {A} d (l : list A) ds :
  Forall (fun a => lt1 (fst a) d = true) ds ->
  fold_left (fun ds (_ : A) => oins lt1 d (getz d ds + 1) ds) l ds
  = match l with [] => ds | _ => ds ++ [(d, Z.of_nat (length l))] end.
Proof.
  intros Hall. destruct l as [|x l]; [reflexivity|]. simpl fold_left.
  assert (Hg : getz d ds = 0) by (unfold getz; rewrite (get_none_all_ltb lt1 lt1_irrefl d ds Hall); reflexivity).
  rewrite Hg. rewrite inc_fold. rewrite (oins_last lt1 lt1_irrefl lt1_asym _ _ _ Hall). f_equal. f_equal. f_equal.
  change (length (x :: l)) with (S (length l)). lia.
Qed.

Lemma dsupply_of_lt acc d : Forall (fun a : col => lt1 (fst a) d = true) acc ->
  Forall (fun a : Z * Z => lt1 (fst a) d = true) (dsupply_of acc).
Proof.
  intros Hall. apply Forall_forall. intros e He. unfold dsupply_of in He. apply in_flat_map in He.
  destruct He as (c & Hc & He). rewrite Forall_forall in Hall. specialize (Hall c Hc).
  destruct (snd (snd c)); [destruct He|]. destruct He as [<-|[]]. exact Hall.
Qed.

Lemma add_col_fold sup l : forall acc seq,
  sorted lt1 (acc ++ l) -> forallb (fun c : col => sortedb lt1 (snd (snd c))) l = true ->
  fold_left add_col (map (expc sup) l) (map (curc sup) acc, dsupply_of acc, seq)
  = (map (curc sup) (acc ++ l), dsupply_of (acc ++ l), seq + count_mts l).
Proof.
  induction l as [|c l IH]; intros acc seq Hs Hin; simpl fold_left.
  - rewrite app_nil_r. unfold count_mts. simpl. rewrite Z.add_0_r. reflexivity.
  - simpl in Hin. apply andb_true_iff in Hin. destruct Hin as [Hc Hl].
    assert (Hall : Forall (fun a : col => lt1 (fst a) (fst c) = true) acc) by (apply sorted_app_inv in Hs; exact Hs).
    assert (HallN : Forall (fun a : col => lt1 (fst a) (fst c) = true) (map (curc sup) acc)).
    { apply Forall_forall. intros a Ha. apply in_map_iff in Ha. destruct Ha as (a0 & <- & Ha0).
      rewrite Forall_forall in Hall. exact (Hall a0 Ha0). }
    idtac.
    unfold old_mts. rewrite (get_none_all_ltb lt1 lt1_irrefl (fst c) _ HallN).
    change (fold_left (fun m t => oins lt1 (fst t) (snd t) m) (exp_mts sup (fst c) (snd (snd c))) [])
      with (oof_list lt1 (exp_mts sup (fst c) (snd (snd c)))).
    rewrite (oof_list_sorted lt1 lt1_irrefl lt1_asym)
      by (apply (sortedb_sorted lt1 lt1_trans); unfold exp_mts; apply sortedb_map_key; exact Hc).
    rewrite (oins_last lt1 lt1_irrefl lt1_asym _ _ _ HallN).
    rewrite (count_fold (fst c) (exp_mts sup (fst c) (snd (snd c))) (dsupply_of acc) (dsupply_of_lt acc (fst c) Hall)).
    match goal with |- fold_left add_col _ ?a = _ =>
      replace a with (map (curc sup) (acc ++ [c]), dsupply_of (acc ++ [c]), seq + Z.of_nat (length (snd (snd c)))) end.
    2: { symmetry. apply pair_eq3.
         - rewrite map_app. reflexivity.
         - unfold dsupply_of. rewrite flat_map_app. simpl. rewrite app_nil_r. unfold exp_mts. rewrite map_length.
           destruct (snd (snd c)); simpl; [rewrite app_nil_r; reflexivity|reflexivity].
         - unfold exp_mts. rewrite map_length. reflexivity. }
    rewrite (IH (acc ++ [c])); [|rewrite <- app_assoc; exact Hs|exact Hl].
    rewrite <- app_assoc. simpl. f_equal. unfold count_mts. simpl. lia.
Qed.

Lemma add_bals_ok bs : forall sup bal,
  (forall b, In b bs -> 0 <= snd b < two64 /\ 0 <= fst (fst (fst b))) ->
  (forall k, 0 <= getz k sup /\ getz k sup + sumk k bs < two64) ->
  sorted lt3 (bal ++ bs) ->
  add_bals bs sup bal = Some (fold_left insS bs sup, bal ++ bs).
Proof.
  induction bs as [|b bs IH]; intros sup bal Hb Hk Hs; simpl.
  - rewrite app_nil_r. reflexivity.
  - destruct (Hb b (or_introl eq_refl)) as [Hx Ho].
    assert (Hb' : forall b', In b' bs -> 0 <= snd b' < two64 /\ 0 <= fst (fst (fst b')))
      by (intros b' Hin; apply Hb; right; exact Hin).
    assert (Hnn : forall b', In b' bs -> 0 <= snd b') by (intros b' Hin; destruct (Hb' b' Hin); lia).
    assert (Ho' : (fst (fst (fst b)) <? 0) = false) by lia. rewrite Ho'.
    destruct (Hk (bkey b)) as [Hc0 Hc1]. rewrite sumk_cons_same in Hc1.
    pose proof (sumk_nonneg (bkey b) bs Hnn) as Hsn.
    unfold add_u64 at 1. assert (Hchk : (two64 - 1 - getz (bkey b) sup <? snd b) = false) by lia. rewrite Hchk.
    assert (Hall : Forall (fun a => lt3 (fst a) (fst b) = true) bal) by (apply sorted_app_inv in Hs; exact Hs).
    assert (Hg0 : getz (fst b) bal = 0) by (unfold getz; rewrite (get_none_all_ltb lt3 lt3_irrefl (fst b) bal Hall); reflexivity).
    unfold add_u64. rewrite Hg0.
    assert (Hchk2 : (two64 - 1 - 0 <? snd b) = false) by lia. rewrite Hchk2. rewrite Z.add_0_l.
    rewrite (oins_last lt3 lt3_irrefl lt3_asym _ _ _ Hall).
    change (oins lt2 (bkey b) (getz (bkey b) sup + snd b) sup) with (insS sup b).
    assert (Hbb : (fst b, snd b) = b) by (destruct b; reflexivity). rewrite Hbb.
    rewrite IH; [rewrite <- app_assoc; reflexivity|exact Hb'| |rewrite <- app_assoc; exact Hs].
    intros k. unfold insS. destruct (eq_dec (bkey b) k) as [<-|Hne].
    + rewrite getz_oins_same. lia.
    + rewrite getz_oins_other by congruence. destruct (Hk k) as [A B]. rewrite (sumk_cons_other k b bs Hne) in B. lia.
Qed.

(** ** the round trip *)
Definition norm (s : state) : state :=
  mkState (map (curc (msupply s)) (cols s)) (msupply s) (dsupply s) (bals s) (dseq s) (mseq s).

Lemma mt_roundtrip fx s : invb s = true -> import fx (export s) = Some (norm s).
Proof.
  intros Hinv. pose proof (mt_validate_export s Hinv fx) as Hval.
  destruct (inv_parts s Hinv) as (Hcs & Hin & Hss & Hkeys & Hsup & Hlt & Hbs & Hb & Hds & Hdq & Hmq).
  assert (Hexp : export s = mkGenesis (map (expc (msupply s)) (cols s)) (bals s)) by reflexivity.
  unfold import. rewrite Hval. cbn [negb]. rewrite Hexp. cbn [g_cols g_bals].
  pose proof (add_col_fold (msupply s) (cols s) [] 1) as Hfold.
  change (map (curc (msupply s)) []) with (@nil col) in Hfold. change (dsupply_of []) with (@nil (Z * Z)) in Hfold.
  cbn [app] in Hfold.
  rewrite Hfold; [|apply (sortedb_sorted lt1 lt1_trans); exact Hcs|exact Hin].
  rewrite (add_bals_ok (bals s) [] []).
  - unfold norm. rewrite map_length. fold (sup_of (bals s)). rewrite <- Hsup, <- Hds. f_equal. f_equal; lia.
  - intros b Hbin. rewrite forallb_forall in Hb. specialize (Hb b Hbin). lia.
  - intros k. unfold getz at 1 2. simpl. rewrite <- (getz_sup s Hinv k). pose proof (getz_sup_bound s Hinv k). lia.
  - simpl. apply (sortedb_sorted lt3 lt3_trans). exact Hbs.
Qed.

Lemma exp_mts_idem sup d ms : exp_mts sup d (exp_mts sup d ms) = exp_mts sup d ms.
Proof. unfold exp_mts. rewrite map_map. reflexivity. Qed.

Lemma export_norm s : export (norm s) = export s.
Proof.
  unfold export, norm. simpl. f_equal. rewrite map_map. apply map_ext. intros c. unfold curc. simpl.
  rewrite exp_mts_idem. reflexivity.
Qed.

Lemma queries_norm s : queries (norm s) = queries s.
Proof.
  unfold queries, cur_cols, norm. simpl. f_equal. f_equal. rewrite map_map. apply map_ext. intros c. unfold curc. simpl.
  rewrite exp_mts_idem. reflexivity.
Qed.

Lemma mt_export_validates_lemma s : invb s = true -> validate false (export s) = true.
Proof. intros Hinv. exact (mt_validate_export s Hinv false). Qed.

(** ... and also the stricter variant (owners are addresses, no sum exceeds uint64) that InitGenesis relies on *)
Lemma mt_export_wellformed_lemma s : invb s = true -> validate true (export s) = true.
Proof. intros Hinv. exact (mt_validate_export s Hinv true). Qed.

Lemma mt_import_total_lemma s : invb s = true -> import false (export s) <> None.
Proof. intros Hinv. rewrite (mt_roundtrip false s Hinv). discriminate. Qed.

Lemma mt_export_fixpoint_lemma s :
  invb s = true -> exists s', import false (export s) = Some s' /\ export s' = export s.
Proof. intros Hinv. exists (norm s). split; [apply mt_roundtrip; exact Hinv|apply export_norm]. Qed.

(** classes, MTs with their current supply, supplies, balances; and the two sequences *)
Lemma mt_queries_preserved_lemma s :
  invb s = true ->
  exists s', import false (export s) = Some s' /\ queries s' = queries s /\ dseq s' = dseq s /\ mseq s' = mseq s.
Proof.
  intros Hinv. exists (norm s). split; [apply mt_roundtrip; exact Hinv|split; [apply queries_norm|split; reflexivity]].
Qed.

(** Remark (outside C12): ValidateGenesis adds the balances in uint64 arithmetic (the sum wraps), InitGenesis
    refuses the overflow: a hand-made genesis with two balances of 2^63 of an MT listed with supply 0 validates
    and makes the import panic *)
Lemma mt_handmade_genesis_can_panic_lemma : exists g, validate false g = true /\ import false g = None.
Proof.
  exists (mkGenesis [((1, (0, 0, 0)), [(1, (0, 0))])]
                    [((0, 1, 1), 9223372036854775808); ((1, 1, 1), 9223372036854775808)]).
  split; vm_compute; reflexivity.
Qed.

(** ... which the stricter variant rejects *)
Lemma mt_overflow_rejected_lemma :
  validate true (mkGenesis [((1, (0, 0, 0)), [(1, (0, 0))])]
                           [((0, 1, 1), 9223372036854775808); ((1, 1, 1), 9223372036854775808)]) = false.
Proof. vm_compute. reflexivity. Qed.

Definition wit_s : state :=
  mkState [(1, ((0, 0, 0), [(1, (0, 7)); (2, (1, 0))])); (2, ((1, 1, 0), []))]
          [((1, 1), 12); ((1, 2), 0)] [(1, 2)]
          [((0, 1, 1), 5); ((0, 1, 2), 0); ((1, 1, 1), 7)] 3 3.
