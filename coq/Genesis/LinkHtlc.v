(** * HTLC: the C12 invariant derived from the message-level model (Htlc/Model.v, Htlc/Proofs.v).

    The histories are those of the htlc group's theorems: any operations from genesis WITHOUT parameter
    changes ([wf0]; a MsgUpdateParams can make the exported genesis un-importable: known finding, clause 7
    of Genesis/Htlc.v).  From their [Inv] (contracts well-formed, the three supply counters = the sums over
    the open transfers, limits respected, queue <-> open contracts) and [Strict], plus a small invariant [J]
    proved here over their step function (height >= 1; a stored contract has valid coins; a transfer is on an
    ACTIVE asset), the genesis-level [invb] follows for the abstraction of the state.

    What the message model lacks and [abs] takes as parameters: the numbering [rk] of the contract ids
    (injective), the numbers [hl] / [rs] of hash locks and secrets, the lengths [oth] of the two other-chain
    address strings (MsgCreateHTLC.ValidateBasic bounds them by 128).  The asset-supply store is read
    through the parameters (one record per supported asset, [get] at its denom): that the store holds no
    record of an unsupported denom is NOT derived (the message model's [Inv] does not say it; the harness
    compares the real store with the genesis-level state in every case).
    One hypothesis on the history beyond [wf0]: a transfer's timestamp is not 0 ([ts_ok]); the code rejects
    a timestamp more than 15 minutes before the block time, and block times are far from the epoch. *)
From Irismod Require Import Genesis.Sort.
From Irismod Require Htlc.Model Htlc.Proofs Genesis.Htlc Genesis.HtlcProofs.
From Coq Require Import Sorting.Sorted Permutation ZifyBool.

Module M := Irismod.Htlc.Model.
Module MP := Irismod.Htlc.Proofs.
Module G := Irismod.Genesis.Htlc.
Module GP := Irismod.Genesis.HtlcProofs.

(** ** Part 1: the extra invariant over the message-level steps *)
Definition ts_ok (o : M.op) : Prop :=
  match o with M.Create m => M.m_transfer m = true -> M.m_ts m <> 0 | _ => True end.

(** the histories of this file: NO parameter change (a [SetParams] step, accepted or not, is excluded — this implies
    the htlc group's run-dependent [wf_run], which allows compatible changes); the signer of a create message is
    not a module account *)
Definition wf0 (o : M.op) : Prop :=
  match o with
  | M.Create m => M.m_sender m <> M.ESC /\ M.m_sender m <> M.BLK
  | M.SetParams _ _ => False
  | _ => True
  end.

Lemma wf0_wf s o : wf0 o -> MP.wf_op s o.
Proof. destruct o; simpl; tauto. Qed.

Lemma wf0_params s o : wf0 o -> MP.params_after s o = M.st_params s.
Proof. destruct o; simpl; tauto. Qed.

Lemma wf0_run ops : forall s, Forall wf0 ops -> MP.wf_run s ops.
Proof.
  induction ops as [|o ops IH]; intros s W; simpl; [exact Logic.I|]. inversion W as [|? ? Wo Wops]; subst.
  split; [apply wf0_wf; exact Wo|apply IH; exact Wops].
Qed.

Lemma run0 : forall ops s, MP.Inv s -> MP.Strict s -> Forall wf0 ops ->
  MP.Inv (M.run s ops) /\ MP.Strict (M.run s ops) /\ M.st_params (M.run s ops) = M.st_params s.
Proof.
  unfold M.run. induction ops as [|o ops IH]; intros s I S W; simpl; [auto|].
  inversion W as [|? ? Wo Wops]; subst. destruct (MP.step_inv s o I S (wf0_wf s o Wo)) as (I1 & S1 & P1).
  destruct (IH _ I1 S1 Wops) as (I2 & S2 & P2). rewrite P2, P1, (wf0_params s o Wo). auto.
Qed.

Lemma reach0 P b t0 ops : MP.params_ok P -> MP.escrow_empty b -> Forall wf0 ops ->
  MP.Inv (MP.reachable P b t0 ops) /\ MP.Strict (MP.reachable P b t0 ops) /\ M.st_params (MP.reachable P b t0 ops) = P.
Proof.
  intros HP HE W. destruct (MP.init_inv P b t0 HP HE) as [I S]. exact (run0 ops _ I S W).
Qed.

Definition good (P : list M.aparam) (c : M.contract) : Prop :=
  M.coins_valid (M.c_amount c) = true
  /\ (M.c_transfer c = true ->
        M.c_ts c <> 0 /\ exists d x p, M.c_amount c = [(d, x)] /\ M.get_param P d = Some p /\ M.ap_active p = true).

Definition J (P : list M.aparam) (s : M.state) : Prop :=
  1 <= M.st_height s /\ forall id c, get id (M.st_contracts s) = Some c -> good P c.

Lemma create_htlt_active s m r : M.create_htlt s m = Some r ->
  exists d x p, M.m_amount m = [(d, x)] /\ M.get_param (M.st_params s) d = Some p /\ M.ap_active p = true.
Proof.
  unfold M.create_htlt. destruct (M.m_amount m) as [|[d x] [|c2 cs]] eqn:Ham; try discriminate.
  destruct (M.get_param (M.st_params s) d) as [p|] eqn:Hp; [|discriminate].
  destruct (M.ap_active p) eqn:Ha; cbn [negb]; [|discriminate].
  intros _. exists d, x, p. auto.
Qed.

Lemma create_facts s m s' : M.create s m = Some s' ->
  M.create_basic m = true
  /\ (M.m_transfer m = true ->
      exists d x p, M.m_amount m = [(d, x)] /\ M.get_param (M.st_params s) d = Some p /\ M.ap_active p = true).
Proof.
  unfold M.create. destruct (M.create_basic m) eqn:Hb; cbn [negb]; [|discriminate].
  destruct (M.blocked (M.m_to m)); [discriminate|]. destruct (M.m_to m =? M.ESC); [discriminate|].
  cbv zeta. destruct (has (M.id_of m) (M.st_contracts s)); [discriminate|].
  destruct (M.m_transfer m) eqn:Ht.
  - destruct (M.create_htlt s m) as [r|] eqn:Hc; [|discriminate]. intros _. split; [reflexivity|].
    intros _. exact (create_htlt_active s m r Hc).
  - intros _. split; [reflexivity|discriminate].
Qed.

Lemma create_basic_coins m : M.create_basic m = true -> M.coins_valid (M.m_amount m) = true.
Proof.
  unfold M.create_basic. intros H.
  apply andb_true_iff in H. destruct H as [H _]. apply andb_true_iff in H. destruct H as [H _].
  apply andb_true_iff in H. destruct H as [_ H]. exact H.
Qed.

Lemma adv_height : forall dts s, MP.Inv s -> MP.Strict s -> M.st_height s <= M.st_height (fold_left M.begin_block dts s).
Proof.
  induction dts as [|dt dts IH]; intros s I S; simpl; [lia|].
  destruct (MP.begin_block_spec s dt I S) as (I1 & S1 & Hh & _). specialize (IH _ I1 S1). lia.
Qed.

Lemma height_step s o : MP.Inv s -> MP.Strict s -> wf0 o -> M.st_height s <= M.st_height (M.step s o).
Proof.
  intros I S W0. pose proof (wf0_wf s o W0) as W. unfold M.step. destruct o as [m|who id secret|dts|gw gP]; simpl.
  - destruct (M.create s m) as [s'|] eqn:Hc; [|lia]. destruct (MP.create_open_rel s m s' I W Hc) as (dr & R).
    rewrite (MP.or_height _ _ _ _ R). lia.
  - pose proof (MP.claim_spec s who id secret I) as Hs. destruct (M.claim s who id secret) as [s'|]; [|lia].
    destruct Hs as (_ & c0 & _ & _ & _ & R). rewrite (MP.cr_height _ _ _ _ _ R). lia.
  - apply adv_height; assumption.
  - destruct W0.
Qed.

Lemma J_step P s o : MP.Inv s -> MP.Strict s -> wf0 o -> ts_ok o -> M.st_params s = P -> J P s -> J P (M.step s o).
Proof.
  intros I S W0 T HP [Hh Hc]. pose proof (wf0_wf s o W0) as W. split; [pose proof (height_step s o I S W0); lia|].
  intros id c Hg. destruct (get id (M.st_contracts s)) as [c0|] eqn:Hg0.
  - destruct (MP.step_contract s o I S W id c0 Hg0) as (c' & Hg' & Hor). rewrite Hg in Hg'. inversion Hg'; subst c'.
    destruct Hor as [->|(_ & st & h & _ & ->)]; exact (Hc id c0 Hg0).
  - destruct (MP.created_open_lemma s o id c I S W Hg0 Hg) as (_ & _ & _ & m & -> & ->).
    unfold M.step, M.exec in Hg. destruct (M.create s m) as [s'|] eqn:Hcr; [|rewrite Hg0 in Hg; discriminate].
    destruct (MP.create_open_rel s m s' I W Hcr) as (dr & R).
    rewrite (MP.or_contracts _ _ _ _ R), get_set_same in Hg. inversion Hg; subst c.
    destruct (create_facts s m s' Hcr) as [Hb Ht]. unfold good, MP.new_contract. cbn [M.c_amount M.c_transfer M.c_ts].
    split; [exact (create_basic_coins m Hb)|]. intros Htr. split; [exact (T Htr)|]. rewrite <- HP. exact (Ht Htr).
Qed.

Lemma J_run P : forall ops s, MP.Inv s -> MP.Strict s -> Forall wf0 ops -> Forall ts_ok ops ->
  M.st_params s = P -> J P s -> J P (M.run s ops).
Proof.
  unfold M.run. induction ops as [|o ops IH]; intros s I S W T HP Hj; simpl; [exact Hj|].
  inversion W as [|? ? Wo Wops]; subst. inversion T as [|? ? To Tops]; subst.
  destruct (MP.step_inv s o I S (wf0_wf s o Wo)) as (I1 & S1 & P1). rewrite (wf0_params s o Wo) in P1.
  apply IH; first [assumption | congruence | (apply J_step; first [assumption | congruence])].
Qed.

Lemma J_reach P b t0 ops : MP.params_ok P -> MP.escrow_empty b -> Forall wf0 ops -> Forall ts_ok ops ->
  J P (MP.reachable P b t0 ops).
Proof.
  intros HP HE W T. destruct (MP.init_inv P b t0 HP HE) as [I S]. unfold MP.reachable.
  apply J_run; try assumption; [reflexivity|]. split; [simpl; lia|]. intros id c Hg. discriminate.
Qed.

(** ** Part 2: the abstraction *)
Definition st_num (st : M.cstate) : Z := match st with M.Open => 0 | M.Completed => 1 | M.Refunded => 2 end.
Definition dir_num (d : M.dir) : Z := match d with M.DNone => 0 | M.Incoming => 1 | M.Outgoing => 2 end.

Definition abs_asset (p : M.aparam) : G.asset :=
  G.mkAsset (M.ap_denom p) (M.ap_limit p) (M.ap_tl p) (M.ap_period p) (M.ap_tbl p) (M.ap_active p) (M.ap_deputy p)
            (M.ap_fee p) (M.ap_min p) (M.ap_max p) (M.ap_minlock p) (M.ap_maxlock p).
Definition abs_supply (d : Z) (a : M.asup) : G.supply :=
  G.mkSupply (d, M.as_in a) (d, M.as_out a) (d, M.as_cur a) (d, M.as_tlc a) (M.as_el a).
Definition asup_at (s : M.state) (d : Z) : M.asup :=
  match get d (M.st_assets s) with Some a => a | None => M.zero_sup end.
Definition sup_entry (s : M.state) (p : M.aparam) : Z * G.supply :=
  (M.ap_denom p, abs_supply (M.ap_denom p) (asup_at s (M.ap_denom p))).
Definition abs_supplies (s : M.state) : list (Z * G.supply) := osort lt1 (map (sup_entry s) (M.st_params s)).

Section Abs.
  Variable rk : M.cid -> Z.
  Variable hl : M.hlock -> Z.
  Variable rs : Z -> Z.
  Variable oth : M.cid -> Z * Z.

  Definition abs_htlc (id : M.cid) (c : M.contract) : G.htlc :=
    G.mkHtlc (rk id) (M.c_sender c) (M.c_to c) (fst (oth id)) (snd (oth id)) (M.c_amount c) (hl (M.c_hl c))
      (match M.c_state c with M.Completed => rs (fst (M.c_hl c)) | _ => 0 end)
      (M.c_ts c) (M.c_exp c) (st_num (M.c_state c)) (M.c_closed c) (M.c_transfer c) (dir_num (M.c_dir c)).
  Definition abs_entry (e : M.cid * M.contract) : Z * G.htlc := (rk (fst e), abs_htlc (fst e) (snd e)).
  Definition q_entry (e : Z * M.cid) : (Z * Z) * unit := ((fst e, rk (snd e)), tt).

  Definition abs_with (cs : list (M.cid * M.contract)) (s : M.state) : G.state :=
    G.mkState (map abs_asset (M.st_params s)) (osort lt1 (map abs_entry cs)) (osort lt2 (map q_entry (M.st_queue s)))
              (abs_supplies s) (Some (M.unix (M.st_prev s))).
  Definition is_openc (e : M.cid * M.contract) : bool := MP.openb (snd e).
  (** the whole store, and the store without the closed contracts *)
  Definition abs (s : M.state) : G.state := abs_with (M.st_contracts s) s.
  Definition abs_o (s : M.state) : G.state := abs_with (filter is_openc (M.st_contracts s)) s.
End Abs.

(** ** generic helpers *)
Lemma sorted1 {V} (m : list (Z * V)) : sorted lt1 (osort lt1 m).
Proof. apply osort_sorted; [exact lt1_trans|apply lt1_total_on]. Qed.

Lemma In_osort1 {V} (m : list (Z * V)) e : In e (osort lt1 m) -> In e m.
Proof. unfold osort, oof_list. intros H. apply In_fold_oins_inv in H. destruct H as [[]|H]. exact H. Qed.

Lemma nodupb_NoDup l : M.nodupb l = true -> NoDup l.
Proof.
  induction l as [|x l IH]; simpl; intros H; [constructor|]. apply andb_true_iff in H. destruct H as [H1 H2].
  constructor; [|exact (IH H2)]. intros Hin. apply negb_true_iff in H1.
  assert (existsb (Z.eqb x) l = true) by (apply existsb_exists; exists x; split; [exact Hin|apply Z.eqb_refl]). congruence.
Qed.

Lemma coins_sorted_eq l : G.coins_sorted l = M.coins_sorted l.
Proof.
  induction l as [|[d x] l IH]; [reflexivity|]. destruct l as [|[d' x'] l']; [reflexivity|].
  change (G.coins_sorted ((d, x) :: (d', x') :: l')) with ((d <? d') && G.coins_sorted ((d', x') :: l')).
  change (M.coins_sorted ((d, x) :: (d', x') :: l')) with ((d <? d') && M.coins_sorted ((d', x') :: l')).
  f_equal. exact IH.
Qed.

Lemma coins_valid_eq l : M.coins_valid l = true -> G.coins_valid_positive l = true.
Proof.
  unfold M.coins_valid, G.coins_valid_positive. destruct l as [|c l]; [discriminate|].
  rewrite coins_sorted_eq. intros H. apply andb_true_iff in H. destruct H as [H1 H2].
  apply andb_true_iff. split; [exact H2|exact H1].
Qed.

Lemma amount_of_app d a b : G.amount_of d (a ++ b) = G.amount_of d a + G.amount_of d b.
Proof. unfold G.amount_of. rewrite filter_app, map_app, zsum_app. reflexivity. Qed.

Lemma amount_of_amt d cs : G.amount_of d cs = M.amt_of cs d.
Proof.
  unfold G.amount_of. induction cs as [|[d' x] cs IH]; [reflexivity|].
  cbn [filter fst M.amt_of]. destruct (d' =? d); cbn [map snd zsum]; rewrite IH; lia.
Qed.

Lemma find_abs P d : G.find_asset (map abs_asset P) d = option_map abs_asset (M.get_param P d).
Proof.
  unfold G.find_asset, M.get_param. induction P as [|p P IH]; [reflexivity|]. cbn [map find].
  change (G.a_denom (abs_asset p)) with (M.ap_denom p). destruct (M.ap_denom p =? d); [reflexivity|exact IH].
Qed.

(** types.validateAssetParams on the abstraction of a parameter set that Keeper.SetParams accepts *)
Lemma validate_assets_abs P : forall seen,
  forallb M.param_valid P = true -> NoDup (map M.ap_denom P) -> (forall d, In d seen -> ~ In d (map M.ap_denom P)) ->
  G.validate_assets seen (map abs_asset P) = true.
Proof.
  induction P as [|p P IH]; intros seen Hv Hnd Hseen; [reflexivity|].
  cbn [forallb] in Hv. apply andb_true_iff in Hv. destruct Hv as [Hp Hv].
  cbn [map] in Hnd. inversion Hnd as [|? ? Hn Hnd']; subst.
  cbn [map G.validate_assets]. rewrite IH; [|exact Hv|exact Hnd'|].
  - assert (He : existsb (Z.eqb (M.ap_denom p)) seen = false).
    { destruct (existsb (Z.eqb (M.ap_denom p)) seen) eqn:E; [|reflexivity]. apply existsb_exists in E.
      destruct E as (x & Hx & Hxe). apply Z.eqb_eq in Hxe. subst x. exfalso. apply (Hseen _ Hx). left. reflexivity. }
    unfold abs_asset. cbn [G.a_limit G.a_time_based_limit G.a_denom G.a_deputy G.a_fixed_fee G.a_min_lock G.a_max_lock G.a_min_swap G.a_max_swap].
    rewrite He. unfold M.param_valid, M.addr_ok, M.MinTimeLock, M.MaxTimeLock in Hp. unfold G.min_time_lock, G.max_time_lock.
    cbn [negb]. lia.
  - intros d [<-|Hd]; [exact Hn|]. intros Hin. apply (Hseen d Hd). right. exact Hin.
Qed.

Lemma validate_params_abs P : M.params_valid P = true -> G.validate_params (map abs_asset P) = true.
Proof.
  unfold M.params_valid, G.validate_params. intros H. apply andb_true_iff in H. destruct H as [H1 H2].
  apply validate_assets_abs; [exact H1|exact (nodupb_NoDup _ H2)|intros d []].
Qed.

(** the numbering of the ids only has to be injective on the ids of the state *)
Definition inj_on {A B} (f : A -> B) (l : list A) : Prop := forall a b, In a l -> In b l -> f a = f b -> a = b.

Lemma NoDup_map_inj_on {A B} (f : A -> B) (l : list A) : inj_on f l -> NoDup l -> NoDup (map f l).
Proof.
  unfold inj_on. induction l as [|a l IH]; simpl; intros Hinj Hnd; [constructor|]. inversion Hnd as [|? ? Hn Hnd']; subst. constructor.
  - intros Hin. apply in_map_iff in Hin. destruct Hin as (b & Hfb & Hb). assert (b = a) by (apply Hinj; auto). subst. contradiction.
  - apply IH; [|exact Hnd']. intros x y Hx Hy. apply Hinj; auto.
Qed.

Lemma inj_on_filter {A B C} (f : A -> B) (g : C -> A) (p : C -> bool) (l : list C) :
  inj_on f (map g l) -> inj_on f (map g (filter p l)).
Proof.
  intros Hinj a b Ha Hb. apply Hinj.
  - apply in_map_iff in Ha. destruct Ha as (x & <- & Hx). apply filter_In in Hx. apply in_map. tauto.
  - apply in_map_iff in Hb. destruct Hb as (x & <- & Hx). apply filter_In in Hx. apply in_map. tauto.
Qed.

(** ** Part 3: [invb] of the abstraction, from [Inv], [Strict] and [J] *)
Section Reach.
  Variable rk : M.cid -> Z.
  Variable hl : M.hlock -> Z.
  Variable rs : Z -> Z.
  Variable oth : M.cid -> Z * Z.
  Hypothesis oth_ok : forall id, fst (oth id) <= 128 /\ snd (oth id) <= 128.
  Variable P : list M.aparam.
  Variable s : M.state.
  Hypothesis rk_inj : inj_on rk (map fst (M.st_contracts s)).
  Hypothesis I : MP.Inv s.
  Hypothesis S : MP.Strict s.
  Hypothesis HJ : J P s.
  Hypothesis HP : M.st_params s = P.
  Hypothesis HPv : M.params_valid P = true.

  Notation AE := (abs_entry rk hl rs oth).
  Notation cso := (filter is_openc (M.st_contracts s)).

  Lemma nd_keys_o : NoDup (map fst (map AE cso)).
  Proof.
    replace (map fst (map AE cso)) with (map rk (map fst cso)) by (rewrite !map_map; reflexivity).
    apply NoDup_map_inj_on; [apply inj_on_filter; exact rk_inj|]. apply GP.NoDup_map_filter. exact (MP.inv_keys _ I).
  Qed.

  Lemma in_o e : In e (osort lt1 (map AE cso)) ->
    exists id c, e = AE (id, c) /\ In (id, c) (M.st_contracts s) /\ get id (M.st_contracts s) = Some c /\ M.c_state c = M.Open.
  Proof.
    intros He. apply In_osort1 in He. apply in_map_iff in He. destruct He as ([id c] & <- & Hin).
    apply filter_In in Hin. destruct Hin as [Hin Ho]. exists id, c. split; [reflexivity|]. split; [exact Hin|].
    split; [apply NoDup_get_some; [exact (MP.inv_keys _ I)|exact Hin]|].
    unfold is_openc, MP.openb in Ho. cbn [snd] in Ho. destruct (M.c_state c); try discriminate. reflexivity.
  Qed.

  Lemma htlc_valid id c : In (id, c) (M.st_contracts s) -> get id (M.st_contracts s) = Some c -> M.c_state c = M.Open ->
    G.validate_htlc true (abs_htlc rk hl rs oth id c) = true.
  Proof.
    intros Hin Hg Ho.
    destruct (MP.inv_wfc _ I _ _ Hin) as (_ & _ & _ & _ & _ & _ & (Hs0 & Ht0) & Hdir).
    pose proof (S id c Hg Ho) as Hexp. pose proof HJ as HJ'. destruct HJ' as (Hh & Hgood). destruct (Hgood id c Hg) as (Hcv & Htr).
    destruct (oth_ok id) as [Ho1 Ho2]. pose proof (coins_valid_eq _ Hcv) as Hcv'.
    unfold G.validate_htlc, abs_htlc, G.timestamp_ok, G.validate_amount, G.max_other_len.
    cbn [G.h_sender G.h_to G.h_recv_other G.h_send_other G.h_expiry G.h_transfer G.h_timestamp G.h_amount G.h_state G.h_closed G.h_dir G.h_secret].
    rewrite Ho. cbn [st_num]. rewrite Hcv'.
    destruct (M.c_transfer c) eqn:Etr.
    - destruct (Htr eq_refl) as (Hts & d & x & p & Ha & _). destruct Hdir as [_ Hdn]. rewrite Ha.
      destruct (M.c_dir c); [exfalso; apply Hdn; reflexivity| |]; cbn [dir_num length negb andb orb];
        repeat (apply andb_true_intro; split); try reflexivity; lia.
    - rewrite Hdir. cbn [dir_num length negb andb orb]. repeat (apply andb_true_intro; split); try reflexivity; lia.
  Qed.

  Lemma asset_facts p : In p P ->
    exists p' a, M.get_param P (M.ap_denom p) = Some p' /\ asup_at s (M.ap_denom p) = a
      /\ M.as_in a = MP.wsum (MP.w_in (M.ap_denom p)) (M.st_contracts s)
      /\ M.as_out a = MP.wsum (MP.w_out (M.ap_denom p)) (M.st_contracts s)
      /\ 0 <= M.as_in a /\ 0 <= M.as_out a /\ M.as_out a <= M.as_cur a /\ 0 <= M.as_tlc a
      /\ M.as_cur a + M.as_in a <= M.ap_limit p'.
  Proof.
    intros Hin. destruct (MP.get_param_of_In P p Hin) as (p' & Hp'). exists p'.
    assert (Hp'' : M.get_param (M.st_params s) (M.ap_denom p) = Some p') by (rewrite HP; exact Hp').
    destruct (MP.inv_asset _ I _ _ Hp'') as (a & Ha & Hi & Hout & _ & _ & (L1 & L2 & L3 & _) & _). exists a.
    split; [exact Hp'|]. split; [exact (f_equal (fun o : option M.asup => match o with Some a0 => a0 | None => M.zero_sup end) Ha)|]. split; [exact Hi|]. split; [exact Hout|].
    assert (0 <= M.as_in a) by (rewrite Hi; apply MP.wsum_nonneg; intros k v Hkv; apply (MP.w_nonneg _ I (M.ap_denom p) k v Hkv)).
    assert (0 <= M.as_out a) by (rewrite Hout; apply MP.wsum_nonneg; intros k v Hkv; apply (MP.w_nonneg _ I (M.ap_denom p) k v Hkv)).
    auto 10.
  Qed.

  (** the coins of the open incoming (1) / outgoing (2) transfers add up to the message model's sums *)
  Definition gsel (k : Z) (e : Z * G.htlc) : list G.coin :=
    if G.is_open (snd e) && G.h_transfer (snd e) && (G.h_dir (snd e) =? k) then G.h_amount (snd e) else [].
  Definition wk (k : Z) (d : Z) (c : M.contract) : Z := if k =? 1 then MP.w_in d c else MP.w_out d c.

  Lemma sum_list k d : k = 1 \/ k = 2 -> forall cs : list (M.cid * M.contract),
    G.amount_of d (flat_map (gsel k) (map AE (filter is_openc cs))) = MP.wsum (wk k d) cs.
  Proof.
    intros Hk. induction cs as [|[id c] cs IH]; [reflexivity|].
    unfold MP.wsum in *. cbn [filter map zsum snd]. unfold is_openc at 1. cbn [snd].
    destruct (MP.openb c) eqn:Eo.
    - cbn [map flat_map]. rewrite amount_of_app, IH. f_equal.
      unfold gsel, abs_entry, abs_htlc, G.is_open. cbn [snd G.h_state G.h_transfer G.h_dir G.h_amount].
      unfold wk, MP.w_in, MP.w_out, MP.is_in, MP.is_out, MP.amt. rewrite Eo. unfold MP.openb in Eo.
      destruct (M.c_state c); try discriminate. cbn [st_num].
      destruct Hk as [-> | ->]; destruct (M.c_transfer c), (M.c_dir c); cbn; try reflexivity; apply amount_of_amt.
    - rewrite IH. unfold wk, MP.w_in, MP.w_out. rewrite Eo. destruct (k =? 1); cbn [andb]; lia.
  Qed.

  Lemma open_amounts_sum k d : k = 1 \/ k = 2 ->
    G.amount_of d (G.open_amounts k (abs_o rk hl rs oth s)) = MP.wsum (wk k d) (M.st_contracts s).
  Proof.
    intros Hk. rewrite <- (sum_list k d Hk). unfold G.open_amounts, abs_o, abs_with. cbn [G.htlcs].
    change (fun e : Z * G.htlc => if G.is_open (snd e) && G.h_transfer (snd e) && (G.h_dir (snd e) =? k) then G.h_amount (snd e) else [])
      with (gsel k).
    unfold G.amount_of. apply zsum_perm. apply Permutation_map. apply filter_perm.
    apply (Permutation_flat_map (gsel k)).
    apply (osort_perm lt1 lt1_irrefl lt1_trans); [apply lt1_total_on|exact nd_keys_o].
  Qed.

  Lemma nd_keys_all : NoDup (map fst (map AE (M.st_contracts s))).
  Proof.
    replace (map fst (map AE (M.st_contracts s))) with (map rk (map fst (M.st_contracts s))) by (rewrite !map_map; reflexivity).
    apply NoDup_map_inj_on; [exact rk_inj|exact (MP.inv_keys _ I)].
  Qed.

  Lemma is_open_abs e : G.is_open (snd (AE e)) = is_openc e.
  Proof. destruct e as [id c]. unfold is_openc, MP.openb, G.is_open, abs_entry, abs_htlc. cbn. destruct (M.c_state c); reflexivity. Qed.

  (** the open contracts of the abstraction are the abstraction of the open contracts *)
  Lemma open_filter_abs :
    filter (fun e : Z * G.htlc => G.is_open (snd e)) (G.htlcs (abs rk hl rs oth s)) = G.htlcs (abs_o rk hl rs oth s).
  Proof.
    unfold abs, abs_o, abs_with. cbn [G.htlcs]. apply (sorted_ext lt1 lt1_irrefl lt1_asym).
    - apply GP.sorted_filter. apply sorted1.
    - apply sorted1.
    - intros x. rewrite filter_In, (In_osort lt1 _ x nd_keys_all), (In_osort lt1 _ x nd_keys_o), !in_map_iff. split.
      + intros [(e & <- & He) Ho]. exists e. split; [reflexivity|]. apply filter_In. split; [exact He|]. rewrite <- is_open_abs. exact Ho.
      + intros (e & <- & He). apply filter_In in He. destruct He as [He Ho]. split; [exists e; auto|]. rewrite is_open_abs. exact Ho.
  Qed.

  Lemma export_abs : G.export (abs rk hl rs oth s) = G.export (abs_o rk hl rs oth s).
  Proof.
    unfold G.export. rewrite <- !GP.map_snd_filter. rewrite <- open_filter_abs. rewrite GP.filter_idem. reflexivity.
  Qed.

  Lemma norm_abs : GP.norm (abs rk hl rs oth s) = GP.norm (abs_o rk hl rs oth s).
  Proof.
    unfold GP.norm, GP.open_entries. rewrite <- open_filter_abs. rewrite GP.filter_idem. reflexivity.
  Qed.

  Theorem reachable_htlc_o : G.invb true (abs_o rk hl rs oth s) = true.
  Proof.
    assert (H1 : sortedb lt1 (osort lt1 (map AE cso)) = true) by (apply (sorted_sortedb lt1); apply sorted1).
    assert (H2 : forallb G.key_ok_h (osort lt1 (map AE cso)) = true).
    { apply forallb_forall. intros e He. destruct (in_o e He) as (id & c & -> & _). unfold G.key_ok_h. cbn. apply Z.eqb_refl. }
    assert (H3 : sortedb lt1 (abs_supplies s) = true) by (apply (sorted_sortedb lt1); apply sorted1).
    assert (Hsup : forall e, In e (abs_supplies s) -> exists p, In p P /\ e = sup_entry s p).
    { intros e He. apply In_osort1 in He. apply in_map_iff in He. destruct He as (p & <- & Hp). rewrite HP in Hp. eauto. }
    assert (H4 : forallb G.key_ok_s (abs_supplies s) = true).
    { apply forallb_forall. intros e He. destruct (Hsup e He) as (p & _ & ->). unfold G.key_ok_s. cbn. apply Z.eqb_refl. }
    assert (H5 : G.validate_params (map abs_asset (M.st_params s)) = true) by (rewrite HP; exact (validate_params_abs P HPv)).
    assert (H6 : forallb (fun e : Z * G.htlc => G.validate_htlc true (snd e)) (osort lt1 (map AE cso)) = true).
    { apply forallb_forall. intros e He. destruct (in_o e He) as (id & c & -> & Hin & Hg & Ho). exact (htlc_valid id c Hin Hg Ho). }
    assert (H7 : forallb (fun e : Z * G.supply => G.validate_supply (snd e)) (abs_supplies s) = true).
    { apply forallb_forall. intros e He. destruct (Hsup e He) as (p & Hp & ->).
      destruct (asset_facts p Hp) as (p' & a & _ & Ha & _ & _ & F1 & F2 & F3 & F4 & _).
      unfold sup_entry, G.validate_supply, abs_supply. rewrite Ha. cbn [snd fst G.s_incoming G.s_outgoing G.s_current G.s_tl_current]. lia. }
    assert (H8 : forallb (fun e : Z * G.htlc => negb (G.is_open (snd e) && G.h_transfer (snd e))
                    || G.live_asset (map abs_asset (M.st_params s)) (G.first_denom (snd e))) (osort lt1 (map AE cso)) = true).
    { apply forallb_forall. intros e He. destruct (in_o e He) as (id & c & -> & Hin & Hg & Ho).
      pose proof HJ as HJ'. destruct HJ' as (_ & Hgood). destruct (Hgood id c Hg) as (_ & Htr).
      unfold abs_entry, abs_htlc, G.is_open, G.first_denom, G.live_asset. cbn [snd G.h_state G.h_transfer G.h_amount].
      destruct (M.c_transfer c); [|rewrite andb_false_r; reflexivity].
      destruct (Htr eq_refl) as (_ & d & x & p & Ha & Hp & Hact). rewrite Ha. cbn [fst].
      rewrite HP, find_abs, Hp. cbn [option_map]. change (G.a_active (abs_asset p)) with (M.ap_active p). rewrite Hact. apply orb_true_r. }
    assert (H9 : forallb (fun e : Z * G.supply => G.supply_ok (map abs_asset (M.st_params s))
                     (G.open_amounts 1 (abs_o rk hl rs oth s)) (G.open_amounts 2 (abs_o rk hl rs oth s)) (snd e)) (abs_supplies s) = true).
    { apply forallb_forall. intros e He. destruct (Hsup e He) as (p & Hp & ->).
      destruct (asset_facts p Hp) as (p' & a & Hp' & Ha & Hi & Hout & F1 & F2 & F3 & F4 & F5).
      unfold sup_entry, G.supply_ok, abs_supply. rewrite Ha. cbn [snd fst G.s_incoming G.s_outgoing G.s_current].
      rewrite (open_amounts_sum 1 _ (or_introl eq_refl)), (open_amounts_sum 2 _ (or_intror eq_refl)).
      change (MP.wsum (wk 1 (M.ap_denom p)) (M.st_contracts s)) with (MP.wsum (MP.w_in (M.ap_denom p)) (M.st_contracts s)).
      change (MP.wsum (wk 2 (M.ap_denom p)) (M.st_contracts s)) with (MP.wsum (MP.w_out (M.ap_denom p)) (M.st_contracts s)).
      rewrite <- Hi, <- Hout. rewrite HP, find_abs, Hp'. cbn [option_map].
      change (G.a_limit (abs_asset p')) with (M.ap_limit p'). lia. }
    unfold G.invb. repeat (apply andb_true_intro; split); assumption.
  Qed.
End Reach.

(** ** Part 4: C12 over histories of the HTLC model (no free-standing invariant) *)
Lemma params_valid_ok P : M.params_valid P = true -> MP.params_ok P.
Proof.
  unfold M.params_valid, MP.params_ok. intros H. apply andb_true_iff in H. destruct H as [H _].
  rewrite forallb_forall in H. apply Forall_forall. intros p Hp. specialize (H p Hp).
  unfold M.param_valid in H. lia.
Qed.

Section Hist.
  Variable rk : M.cid -> Z.
  Variable hl : M.hlock -> Z.
  Variable rs : Z -> Z.
  Variable oth : M.cid -> Z * Z.
  Hypothesis oth_ok : forall id, fst (oth id) <= 128 /\ snd (oth id) <= 128.
  (** genesis: a parameter set that Keeper.SetParams accepts, an empty escrow account; then any operations
      without parameter changes whose transfers carry a timestamp *)
  Variable P : list M.aparam.
  Variable b : Irismod.Base.Bank.ledger.
  Variable t0 : Z.
  Variable ops : list M.op.
  Hypothesis HPv : M.params_valid P = true.
  Hypothesis HE : MP.escrow_empty b.
  Hypothesis HW : Forall wf0 ops.
  Hypothesis HT : Forall ts_ok ops.
  Let s := MP.reachable P b t0 ops.
  Hypothesis rk_inj : inj_on rk (map fst (M.st_contracts s)).

  Theorem reachable_htlc : G.invb true (abs_o rk hl rs oth s) = true.
  Proof.
    destruct (reach0 P b t0 ops (params_valid_ok P HPv) HE HW) as (I & S & HPs).
    exact (reachable_htlc_o rk hl rs oth oth_ok P s rk_inj I S (J_reach P b t0 ops (params_valid_ok P HPv) HE HW HT) HPs HPv).
  Qed.

  Theorem htlc_history_export_validates : G.validate true (G.export (abs rk hl rs oth s)) = true.
  Proof.
    destruct (reach0 P b t0 ops (params_valid_ok P HPv) HE HW) as (I & _ & _).
    rewrite (export_abs rk hl rs oth s rk_inj I). apply GP.htlc_export_validates_lemma. exact reachable_htlc.
  Qed.

  Theorem htlc_history_roundtrip :
    G.import true (G.export (abs rk hl rs oth s)) = Some (GP.norm (abs rk hl rs oth s)).
  Proof.
    destruct (reach0 P b t0 ops (params_valid_ok P HPv) HE HW) as (I & _ & _).
    rewrite (export_abs rk hl rs oth s rk_inj I), (norm_abs rk hl rs oth s rk_inj I). apply GP.htlc_roundtrip. exact reachable_htlc.
  Qed.

  (** the second export is the first; the open contracts, the supplies and the parameters read the same on the
      new chain; its expiration queue holds exactly its open contracts under their expiration heights *)
  Theorem htlc_history_fixpoint_and_queries :
    exists s', G.import true (G.export (abs rk hl rs oth s)) = Some s'
      /\ G.export s' = G.export (abs rk hl rs oth s) /\ G.queries s' = G.queries (abs rk hl rs oth s)
      /\ G.queue s' = G.queue_of (G.htlcs s').
  Proof.
    exists (GP.norm (abs rk hl rs oth s)). split; [exact htlc_history_roundtrip|].
    split; [apply GP.export_norm|]. split; [apply GP.queries_norm|reflexivity].
  Qed.
End Hist.

(** ** non-vacuity: the first nine operations of the history of Htlc/Examples.v — an ordinary contract claimed
    (after a wrong secret), an incoming transfer claimed (200 minted), an outgoing transfer of 50 open (its
    duplicate refused), an ordinary contract with timestamp 0 open — satisfy every hypothesis; the abstraction
    holds four contracts, two of them open, and goes through export and import as the theorems say *)
Definition ex_ops : list M.op :=
  [ M.Create (M.mkCreate 0 1 [(4, 100)] (7, 1700000000) 1700000000 50 false);
    M.Claim 2 ((7, 1700000000), 0, 1, [(4, 100)]) 6;
    M.Claim 2 ((7, 1700000000), 0, 1, [(4, 100)]) 7;
    M.Create (M.mkCreate 3 0 [(0, 200)] (8, 1700000000) 1700000000 50 true);
    M.Claim 0 ((8, 1700000000), 3, 0, [(0, 200)]) 8;
    M.Create (M.mkCreate 0 3 [(0, 50)] (9, 1700000000) 1700000000 50 true);
    M.Create (M.mkCreate 0 3 [(0, 50)] (9, 1700000000) 1700000000 60 true);
    M.Create (M.mkCreate 1 0 [(4, 30)] (10, 0) 0 50 false);
    M.Adv [M.ns; M.ns] ].
Definition ex_P : list M.aparam := [M.mkAP 0 1000 true 500 (60 * M.ns) true 3 1 1 400 50 100].
Definition ex_B : Irismod.Base.Bank.ledger := [((0, 4), 1000); ((1, 4), 1000)].
Definition ex_rk (id : M.cid) : Z :=
  if eqb id ((7, 1700000000), 0, 1, [(4, 100)]) then 1
  else if eqb id ((8, 1700000000), 3, 0, [(0, 200)]) then 2
  else if eqb id ((9, 1700000000), 0, 3, [(0, 50)]) then 3
  else if eqb id ((10, 0), 1, 0, [(4, 30)]) then 4 else 0.
Definition ex_abs := abs ex_rk (fun h => fst h) (fun x => x + 1) (fun _ => (0, 0)).

Example link_htlc_nonvacuous :
  let s := MP.reachable ex_P ex_B (1700000000 * M.ns) ex_ops in
  M.params_valid ex_P = true /\ MP.escrow_empty ex_B /\ Forall wf0 ex_ops /\ Forall ts_ok ex_ops
  /\ inj_on ex_rk (map fst (M.st_contracts s))
  /\ length (G.htlcs (ex_abs s)) = 4%nat /\ length (G.g_htlcs (G.export (ex_abs s))) = 2%nat
  /\ map (fun e => G.s_current (snd e)) (G.supplies (ex_abs s)) = [(0, 200)]
  /\ map (fun e => G.s_outgoing (snd e)) (G.supplies (ex_abs s)) = [(0, 50)]
  /\ G.import true (G.export (ex_abs s)) = Some (GP.norm (ex_abs s)).
Proof.
  cbv zeta. split; [vm_compute; reflexivity|]. split; [intros d; reflexivity|].
  split; [repeat constructor; simpl; try discriminate|].
  split; [repeat constructor; simpl; try (intros H; first [discriminate H | discriminate])|].
  split.
  { intros a b Ha Hb. vm_compute in Ha, Hb.
    repeat (destruct Ha as [<-|Ha]; [repeat (destruct Hb as [<-|Hb]; [intros H; first [reflexivity | vm_compute in H; discriminate H]|]); destruct Hb|]).
    destruct Ha. }
  vm_compute. repeat split; reflexivity.
Qed.

(** ** Part 5: the expiration queue of a reachable state IS the set of its open contracts, so export -> import
    gives back the state itself without its closed contracts *)
Lemma sorted2 {V} (m : list ((Z * Z) * V)) : sorted lt2 (osort lt2 m).
Proof. apply osort_sorted; [exact lt2_trans|apply lt2_total_on]. Qed.

Definition qe' (e : Z * G.htlc) : (Z * Z) * unit := ((G.h_expiry (snd e), fst e), tt).

Lemma queue_of_osort hs : forall acc,
  fold_left (fun q (e : Z * G.htlc) => if G.is_open (snd e) then oins lt2 (G.h_expiry (snd e), fst e) tt q else q) hs acc
  = fold_left (fun m (kv : (Z * Z) * unit) => oins lt2 (fst kv) (snd kv) m) (map qe' (filter (fun e => G.is_open (snd e)) hs)) acc.
Proof.
  induction hs as [|e hs IH]; intros acc; [reflexivity|]. cbn [fold_left filter].
  destruct (G.is_open (snd e)); [cbn [map fold_left]; exact (IH _)|exact (IH _)].
Qed.

Lemma in_unit {K} (l : list (K * unit)) k : In (k, tt) l <-> In k (map fst l).
Proof.
  split; [intros H; apply (in_map fst) in H; exact H|].
  intros H. apply in_map_iff in H. destruct H as ([k' []] & <- & H). exact H.
Qed.

Lemma osort_unit_ext (m1 m2 : list ((Z * Z) * unit)) :
  (forall k, In k (map fst m1) <-> In k (map fst m2)) -> osort lt2 m1 = osort lt2 m2.
Proof.
  intros H. apply (sorted_ext lt2 lt2_irrefl lt2_asym); [apply sorted2|apply sorted2|].
  intros [k []]. rewrite !in_unit, !keys_osort. apply H.
Qed.

Section Queue.
  Variable rk : M.cid -> Z.
  Variable hl : M.hlock -> Z.
  Variable rs : Z -> Z.
  Variable oth : M.cid -> Z * Z.
  Variable s : M.state.
  Hypothesis rk_inj : inj_on rk (map fst (M.st_contracts s)).
  Hypothesis I : MP.Inv s.

  Lemma queue_abs : G.queue_of (G.htlcs (abs_o rk hl rs oth s)) = G.queue (abs rk hl rs oth s).
  Proof.
    unfold G.queue_of. rewrite queue_of_osort.
    change (osort lt2 (map qe' (filter (fun e : Z * G.htlc => G.is_open (snd e)) (G.htlcs (abs_o rk hl rs oth s))))
            = osort lt2 (map (q_entry rk) (M.st_queue s))).
    apply osort_unit_ext. intros k. rewrite !map_map, !in_map_iff. unfold abs_o, abs_with. cbn [G.htlcs]. split.
    - intros (e & <- & He). apply filter_In in He. destruct He as [He _].
      destruct (in_o rk hl rs oth s I e He) as (id & c & -> & Hin & Hg & Ho).
      exists (M.c_exp c, id). split; [reflexivity|]. exact (proj1 (MP.inv_openq _ I id c Hg Ho)).
    - intros ([h id] & <- & Hq). destruct (MP.inv_qopen _ I h id Hq) as (c & Hg & Ho & <-).
      exists (abs_entry rk hl rs oth (id, c)). split; [reflexivity|]. apply filter_In. split.
      + apply (In_osort lt1 _ _ (nd_keys_o rk hl rs oth s rk_inj I)). apply in_map. apply filter_In.
        split; [exact (get_In _ _ _ Hg)|]. unfold is_openc, MP.openb. cbn [snd]. rewrite Ho. reflexivity.
      + rewrite is_open_abs. unfold is_openc, MP.openb. cbn [snd]. rewrite Ho. reflexivity.
  Qed.

  Lemma norm_abs_o : GP.norm (abs rk hl rs oth s) = abs_o rk hl rs oth s.
  Proof.
    rewrite (norm_abs rk hl rs oth s rk_inj I). unfold GP.norm, GP.open_entries.
    assert (Hf : filter (fun e : Z * G.htlc => G.is_open (snd e)) (G.htlcs (abs_o rk hl rs oth s)) = G.htlcs (abs_o rk hl rs oth s)).
    { rewrite <- (open_filter_abs rk hl rs oth s rk_inj I). apply GP.filter_idem. }
    rewrite Hf, queue_abs. reflexivity.
  Qed.
End Queue.

(** the history-level round trip in its final form: the new chain's state is the old one's without the closed
    contracts (ExportGenesis drops them, documented), queue included *)
Theorem htlc_history_import_is_open_part rk hl rs oth :
  (forall id, fst (oth id) <= 128 /\ snd (oth id) <= 128) ->
  forall P b t0 ops, M.params_valid P = true -> MP.escrow_empty b -> Forall wf0 ops -> Forall ts_ok ops ->
  inj_on rk (map fst (M.st_contracts (MP.reachable P b t0 ops))) ->
  G.import true (G.export (abs rk hl rs oth (MP.reachable P b t0 ops))) = Some (abs_o rk hl rs oth (MP.reachable P b t0 ops)).
Proof.
  intros Hoth P b t0 ops HPv HE HW HT Hinj.
  destruct (reach0 P b t0 ops (params_valid_ok P HPv) HE HW) as (I & _ & _).
  rewrite (htlc_history_roundtrip rk hl rs oth Hoth P b t0 ops HPv HE HW HT Hinj).
  rewrite (norm_abs_o rk hl rs oth _ Hinj I). reflexivity.
Qed.

(** ** Part 6: after PrepForZeroHeightGenesis at the height of the state (expiration heights become the number of
    blocks left plus one) the invariant still holds, hence so do the four C12 statements of Props/C12.v for
    the prepared state; the extra hypothesis is the uint64 range of the expiration heights *)
Theorem htlc_history_prep rk hl rs oth :
  (forall id, fst (oth id) <= 128 /\ snd (oth id) <= 128) ->
  forall P b t0 ops, M.params_valid P = true -> MP.escrow_empty b -> Forall wf0 ops -> Forall ts_ok ops ->
  let s := MP.reachable P b t0 ops in
  inj_on rk (map fst (M.st_contracts s)) ->
  (forall id c, In (id, c) (M.st_contracts s) -> M.c_exp c < G.two64) ->
  G.invb true (G.prep (M.st_height s) (abs_o rk hl rs oth s)) = true
  /\ G.import true (G.export (G.prep (M.st_height s) (abs_o rk hl rs oth s))) <> None.
Proof.
  intros Hoth P b t0 ops HPv HE HW HT s Hinj Hexp.
  destruct (reach0 P b t0 ops (params_valid_ok P HPv) HE HW) as (I & S & _).
  destruct (J_reach P b t0 ops (params_valid_ok P HPv) HE HW HT) as (Hh & _).
  assert (Hp : G.invb true (G.prep (M.st_height s) (abs_o rk hl rs oth s)) = true).
  { apply GP.htlc_prep_inv_lemma.
    - exact (reachable_htlc rk hl rs oth Hoth P b t0 ops HPv HE HW HT Hinj).
    - fold s in Hh. lia.
    - apply forallb_forall. intros e He. unfold abs_o, abs_with in He. cbn [G.htlcs] in He.
      destruct (in_o rk hl rs oth s I e He) as (id & c & -> & Hin & Hg & Ho).
      pose proof (S id c Hg Ho) as Hs. pose proof (Hexp id c Hin) as He2.
      unfold abs_entry, abs_htlc. cbn [snd G.h_expiry]. fold s in Hs. apply orb_true_iff. right. lia. }
  split; [exact Hp|]. apply GP.htlc_import_total_lemma. exact Hp.
Qed.

(** ** the known finding at the message level: WITH a parameter change in the history the statement fails.  An
    incoming transfer of 200 is opened, then the authority deactivates the asset (the model's [SetParams]
    accepts the set, as Keeper.SetParams does): the export of the abstraction validates and its import panics
    (ValidateLiveAsset).  This is why the theorems above are stated for [wf0] histories. *)
Definition ex_P_inactive : list M.aparam := [M.mkAP 0 1000 true 500 (60 * M.ns) false 3 1 1 400 50 100].
Theorem htlc_history_param_change_refuted :
  let ops := [ M.Create (M.mkCreate 3 0 [(0, 200)] (8, 1700000000) 1700000000 50 true); M.SetParams M.GOV ex_P_inactive ] in
  let s := MP.reachable ex_P ex_B (1700000000 * M.ns) ops in
  M.params_valid ex_P_inactive = true /\ M.st_params s = ex_P_inactive
  /\ length (G.g_htlcs (G.export (ex_abs s))) = 1%nat
  /\ G.validate true (G.export (ex_abs s)) = true /\ G.import true (G.export (ex_abs s)) = None.
Proof. cbv zeta. vm_compute. repeat split; reflexivity. Qed.
