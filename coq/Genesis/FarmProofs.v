(** * Farm: proofs about export / validate / import (C12) *)
From Irismod Require Import Genesis.Farm.

Ltac split_andb H :=
  repeat match type of H with
         | (_ && _) = true => let H1 := fresh "Hi" in apply andb_true_iff in H; destruct H as [H H1]
         end.

Lemma fold_left_ext_in {A B} (f g : A -> B -> A) l : forall a,
  (forall a x, In x l -> f a x = g a x) -> fold_left f l a = fold_left g l a.
Proof.
  induction l as [|x l IH]; intros a Hfg; simpl; [reflexivity|].
  rewrite (Hfg a x (or_introl eq_refl)). apply IH. intros a' x' Hin. apply Hfg. right. exact Hin.
Qed.

Lemma fold_left_map' {A B C} (f : A -> B -> A) (g : C -> B) l : forall a,
  fold_left f (map g l) a = fold_left (fun a x => f a (g x)) l a.
Proof. induction l as [|x l IH]; intros a; simpl; [reflexivity|apply IH]. Qed.

Lemma zmax_list_le l b : 0 <= b -> (forall x, In x l -> x <= b) -> zmax_list l <= b.
Proof.
  intros Hb. induction l as [|x l IH]; simpl; intros Hall; [exact Hb|].
  apply Z.max_lub; [apply Hall; left; reflexivity|apply IH; intros y Hy; apply Hall; right; exact Hy].
Qed.

Section H.
  Variable h : Z.

  Definition insP (ps : pstore) (pr : pool * list rule) : pstore :=
    oins lt1 (p_id (fst pr))
         (fst pr, fold_left (fun m r => oins lt1 (u_denom r) r m) (snd pr) (snd (getd (p_id (fst pr)) ps (fst pr, [])))) ps.
  Definition insQ (q : list ((Z * Z) * unit)) (pr : pool * list rule) :=
    if h <=? p_end (fst pr) then oins lt2 (p_end (fst pr), p_id (fst pr)) tt q else q.

  (** with the repaired enqueue rule the import loop is two independent loops *)
  Lemma imp_pool_fold l : forall ps q,
    fold_left (imp_pool true h) l (ps, q) = (fold_left insP l ps, fold_left insQ l q).
  Proof. induction l as [|pr l IH]; intros ps q; simpl; [reflexivity|]. apply IH. Qed.

  Definition proj (e : Z * (pool * list (Z * rule))) : pool * list rule := (fst (snd e), map snd (snd (snd e))).

  Lemma insP_fold l : forall acc s0,
    sorted lt1 (acc ++ l) -> forallb (pentry_ok s0) l = true ->
    fold_left insP (map proj l) acc = acc ++ l.
  Proof.
    induction l as [|[id [p inner]] l IH]; intros acc s0 Hs Hok; simpl.
    - rewrite app_nil_r. reflexivity.
    - apply andb_true_iff in Hok. destruct Hok as [He Hl]. unfold pentry_ok in He. simpl in He. split_andb He.
      assert (Hid : p_id p = id) by lia.
      assert (Hall : Forall (fun a => lt1 (fst a) id = true) acc) by (apply sorted_app_inv in Hs; exact Hs).
      unfold insP at 2. unfold proj at 2. simpl. rewrite Hid. unfold getd. rewrite (get_none_all_lt id acc Hall). simpl.
      change (fold_left (fun m r => oins lt1 (u_denom r) r m) (map snd inner) []) with (okeyed lt1 u_denom (map snd inner)).
      assert (Hk : forallb (fun e => fst e =? u_denom (snd e)) inner = true).
      { rewrite forallb_forall in *. intros x Hx. specialize (Hi x Hx). apply andb_true_iff in Hi. tauto. }
      rewrite (okeyed_roundtrip1 u_denom inner Hi0 Hk).
      rewrite (oins_last lt1 lt1_irrefl lt1_asym id (p, inner) acc Hall).
      rewrite (IH _ s0); [rewrite <- app_assoc; reflexivity|rewrite <- app_assoc; exact Hs|exact Hl].
  Qed.

  Lemma insQ_fold (ps : pstore) s0 : forallb (pentry_ok s0) ps = true ->
    fold_left insQ (map proj ps) [] = queue_at h ps.
  Proof.
    intros Hok. rewrite fold_left_map'. unfold queue_at. apply fold_left_ext_in.
    intros q e Hin. rewrite forallb_forall in Hok. specialize (Hok e Hin). unfold pentry_ok in Hok. split_andb Hok.
    unfold insQ, proj. simpl. assert (Hid : p_id (fst (snd e)) = fst e) by lia. rewrite Hid. reflexivity.
  Qed.

  Lemma imp_farmers_ok ps l : forall fs,
    (forall f, In f l -> has (f_pool f) ps = true) ->
    imp_farmers ps l fs = Some (fold_left (fun m f => oins lt2 (f_addr f, f_pool f) f m) l fs).
  Proof.
    induction l as [|f l IH]; intros fs Hall; simpl; [reflexivity|].
    rewrite (Hall f (or_introl eq_refl)). apply IH. intros f' Hin. apply Hall. right. exact Hin.
  Qed.

  Lemma farm_roundtrip fv s : invb true h s = true -> import true true fv h (export s) = Some s.
  Proof.
    intros Hinv. unfold invb in Hinv. split_andb Hinv.
    rename Hinv into Hps, Hi5 into Hpok, Hi4 into Hfs, Hi3 into Hfok, Hi2 into Hq, Hi1 into Hfee, Hi0 into Hfv, Hi into Hseq.
    assert (Hpv : params_valid (prm s) = true) by exact Hfv.
    assert (Hval : validate true fv (export s) = true).
    { unfold validate, export. simpl. rewrite Hfee. rewrite !andb_true_r.
      apply andb_true_iff. split; [apply andb_true_iff; split; [apply andb_true_iff; split|]|].
      - rewrite forallb_forall. intros pr Hin. apply in_map_iff in Hin. destruct Hin as (e & <- & Hin).
        rewrite forallb_forall in Hpok. specialize (Hpok e Hin). unfold pentry_ok in Hpok. split_andb Hpok.
        unfold pool_ok. simpl. unfold pool_fields_ok in Hi1. rewrite Hi1. simpl.
        rewrite forallb_forall. intros r Hr. apply in_map_iff in Hr. destruct Hr as (x & <- & Hx).
        rewrite forallb_forall in Hi. specialize (Hi x Hx). apply andb_true_iff in Hi. destruct Hi as [_ Hr].
        exact Hr.
      - apply Z.leb_le. apply zmax_list_le; [lia|]. intros x Hx. apply in_map_iff in Hx. destruct Hx as (pr & <- & Hpr).
        apply in_map_iff in Hpr. destruct Hpr as (e & <- & Hin). simpl.
        rewrite forallb_forall in Hpok. specialize (Hpok e Hin). unfold pentry_ok in Hpok. split_andb Hpok. lia.
      - rewrite forallb_forall. intros f Hin. apply in_map_iff in Hin. destruct Hin as (e & <- & Hin).
        rewrite forallb_forall in Hfok. specialize (Hfok e Hin). split_andb Hfok. exact Hi.
      - (* every farmer's pool is exported *)
        destruct fv; [|reflexivity]. unfold wf. simpl. rewrite Hpv, andb_true_r.
        rewrite forallb_forall. intros f Hin. apply in_map_iff in Hin. destruct Hin as (e & <- & Hin).
        rewrite forallb_forall in Hfok. specialize (Hfok e Hin). split_andb Hfok.
        apply existsb_exists. exists (f_pool (snd e)). split; [|apply Z.eqb_refl].
        rewrite map_map. simpl.
        assert (Hk : In (f_pool (snd e)) (map fst (pools s))).
        { unfold has in Hi0. destruct (get (f_pool (snd e)) (pools s)) as [v|] eqn:E; [|discriminate].
          apply get_In in E. apply (in_map fst _ (f_pool (snd e), v)). exact E. }
        apply in_map_iff in Hk. destruct Hk as (pe & Hpe & Hpin). apply in_map_iff. exists pe. split; [|exact Hpin].
        rewrite forallb_forall in Hpok. specialize (Hpok pe Hpin). unfold pentry_ok in Hpok. split_andb Hpok. lia. }
    unfold import. rewrite Hval. simpl.
    change (map (fun e => (fst (snd e), map snd (snd (snd e)))) (pools s)) with (map proj (pools s)).
    rewrite imp_pool_fold.
    rewrite (insP_fold (pools s) [] s); [|simpl; apply (sortedb_sorted lt1 lt1_trans); exact Hps|exact Hpok].
    rewrite (insQ_fold (pools s) s Hpok). simpl.
    rewrite imp_farmers_ok.
    - change (fold_left (fun m f => oins lt2 (f_addr f, f_pool f) f m) (map snd (farmers s)) [])
        with (okeyed lt2 (fun f => (f_addr f, f_pool f)) (map snd (farmers s))).
      rewrite (okeyed_sorted lt2 lt2_irrefl lt2_asym (fun f => (f_addr f, f_pool f)) (farmers s)).
      + rewrite Hpv.
        assert (Hq' : queue s = queue_at h (pools s)) by (apply Prelude.eqb_true_iff; exact Hq).
        rewrite <- Hq'. destruct s; reflexivity.
      + apply (sortedb_sorted lt2 lt2_trans). exact Hfs.
      + apply Forall_forall. intros e Hin. rewrite forallb_forall in Hfok. specialize (Hfok e Hin). split_andb Hfok.
        symmetry. apply Prelude.eqb_true_iff. exact Hfok.
    - intros f Hin. apply in_map_iff in Hin. destruct Hin as (e & <- & Hin).
      rewrite forallb_forall in Hfok. specialize (Hfok e Hin). split_andb Hfok. exact Hi0.
  Qed.
End H.

Lemma validate_split g : validate true true g = validate true false g && wf g.
Proof.
  unfold validate.
  destruct (forallb (pool_ok true) (g_pools g) && (zmax_list (map (fun pr => p_id (fst pr)) (g_pools g)) <=? g_seq g)
            && forallb farmer_ok (g_farmers g) && coins_valid [m_fee (g_prm g)]); simpl; reflexivity.
Qed.

Lemma farm_export_validates_lemma h s : invb true h s = true -> validate true false (export s) = true.
Proof.
  intros Hinv. pose proof (farm_roundtrip h false s Hinv) as Hr. unfold import in Hr.
  destruct (validate true false (export s)); [reflexivity|discriminate].
Qed.

Lemma farm_export_wellformed_lemma h s : invb true h s = true -> wf (export s) = true.
Proof.
  intros Hinv. pose proof (farm_roundtrip h true s Hinv) as Hr. unfold import in Hr.
  destruct (validate true true (export s)) eqn:E; [|discriminate]. rewrite validate_split in E.
  apply andb_true_iff in E. tauto.
Qed.

Lemma farm_import_total_lemma h s : invb true h s = true -> import true true false h (export s) <> None.
Proof. intros Hinv. rewrite (farm_roundtrip h false s Hinv). discriminate. Qed.

Lemma farm_export_fixpoint_lemma h s :
  invb true h s = true -> exists s', import true true false h (export s) = Some s' /\ export s' = export s.
Proof. intros Hinv. exists s. split; [apply farm_roundtrip; exact Hinv|reflexivity]. Qed.

Lemma farm_queries_preserved_lemma h s :
  invb true h s = true ->
  exists s', import true true false h (export s) = Some s' /\ queries s' = queries s /\ queue s' = queue_at h (pools s').
Proof.
  intros Hinv. exists s. split; [apply farm_roundtrip; exact Hinv|split; [reflexivity|]].
  unfold invb in Hinv. split_andb Hinv. apply Prelude.eqb_true_iff. exact Hi2.
Qed.

(** ** The code before the three repairs *)
Definition wit_prm : params := mkParams (11, 5000) 2 400000000000000000.
(** (a) a zero stake registered a farmer with nothing locked: the export does not validate *)
Definition wit_zero : state :=
  mkState wit_prm 1 [(1, (mkPool 1 0 0 1 2 11 2 true (3, 0), [(11, mkRule 11 27 27 3 0)]))]
          [((1, 1), mkFarmer 1 1 0 [])] [((11, 1), tt)].
(** (b) a huge stake made one block's reward per share truncate to zero: 3 of 27 released, per share 0 *)
Definition wit_rps : state :=
  mkState wit_prm 1 [(1, (mkPool 1 0 0 1 2 11 3 true (3, 20000000000000000007), [(11, mkRule 11 27 24 3 0)]))]
          [((0, 1), mkFarmer 1 0 20000000000000000000 []); ((1, 1), mkFarmer 1 1 7 [])] [((11, 1), tt)].
(** (c) a running pool that ends at the height the new chain starts with is not re-enqueued *)
Definition wit_q : state :=
  mkState wit_prm 1 [(1, (mkPool 1 0 0 1 2 5 2 true (3, 50), [(11, mkRule 11 6 6 2 0)]))]
          [((1, 1), mkFarmer 1 1 50 [])] [((5, 1), tt)].

Lemma farm_export_validates_refuted_lemma :
  (exists h s, invb false h s = true /\ validate false false (export s) = false)
  /\ (exists h s, invb true h s = true /\ validate false false (export s) = false).
Proof.
  split; [exists 3, wit_zero|exists 4, wit_rps]; split; vm_compute; reflexivity.
Qed.

Lemma farm_queue_rebuilt_refuted_lemma :
  exists h s s', invb true h s = true /\ import true false false h (export s) = Some s'
                 /\ queue s' <> queue_at h (pools s').
Proof. exists 5, wit_q, (mkState wit_prm 1 (pools wit_q) (farmers wit_q) []). repeat split; vm_compute; try reflexivity. discriminate. Qed.

(** Remark (outside C12): a hand-made genesis with a farmer of a pool that is not in it passes ValidateGenesis
    and makes InitGenesis panic — the well-formedness is not validated by the code *)
Lemma farm_handmade_genesis_can_panic_lemma :
  exists h g, validate true false g = true /\ wf g = false /\ import true true false h g = None.
Proof. exists 2, (mkGenesis wit_prm [] [mkFarmer 1 0 5 []] 0). repeat split; vm_compute; reflexivity. Qed.

(** ... and any validated AND well-formed genesis imports *)
Lemma farm_import_total_wf_lemma h g : validate true false g = true -> wf g = true -> import true true false h g <> None.
Proof.
  intros Hv Hw. unfold import. rewrite Hv. simpl. rewrite imp_pool_fold.
  unfold wf in Hw. apply andb_true_iff in Hw. destruct Hw as [Hf Hp].
  rewrite imp_farmers_ok; [rewrite Hp; discriminate|].
  intros f Hin. rewrite forallb_forall in Hf. specialize (Hf f Hin).
  apply existsb_exists in Hf. destruct Hf as (x & Hx & Hxe). apply Z.eqb_eq in Hxe. subst x.
  assert (Hgen : forall l ps k, (In k (map (fun pr => p_id (fst pr)) l) \/ has k ps = true) -> has k (fold_left insP l ps) = true).
  { induction l as [|pr l IH]; intros ps k Hk; simpl.
    - destruct Hk as [[]|Hk]. exact Hk.
    - apply IH. destruct Hk as [[Heq|Hin']|Hacc].
      + right. unfold has, insP. rewrite Heq. rewrite get_oins_same. reflexivity.
      + left. exact Hin'.
      + right. unfold has, insP in *. destruct (eq_dec k (p_id (fst pr))) as [->|Hne].
        * rewrite get_oins_same. reflexivity.
        * rewrite get_oins_other by exact Hne. exact Hacc. }
  apply Hgen. left. exact Hx.
Qed.

Definition wit_s : state :=
  mkState wit_prm 2 [(1, (mkPool 1 0 0 1 2 11 3 true (3, 57), [(11, mkRule 11 27 24 3 52631578947368421)]));
                     (2, (mkPool 2 1 1 0 1 3 3 true (2, 0), [(5, mkRule 5 8 0 2 0); (11, mkRule 11 24 0 4 0)]))]
          [((0, 1), mkFarmer 1 0 50 [(11, 0)]); ((1, 1), mkFarmer 1 1 7 [(11, 1)])] [((11, 1), tt)].
