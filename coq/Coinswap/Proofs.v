(** * Coinswap: proofs of the C02 statements (settlement) from the effect specifications. *)
From Irismod Require Import Coinswap.Model Coinswap.Check Coinswap.ProofsArith Coinswap.ProofsSpec.
From Coq Require Import Lia.

Local Open Scope Z_scope.

Lemma failed_step_changes_nothing s m o : exec s m = Fail o -> step s m = s.
Proof. intros H. unfold step. rewrite H. reflexivity. Qed.

Lemma step_Ret s m s' r : exec s m = Ret (s', r) -> step s m = s'.
Proof. intros H. unfold step. rewrite H. reflexivity. Qed.

(** ** swaps *)

(** the balance sheet of a routed swap: the intermediate standard coin nets to zero for the sender *)
Definition sheet2 (sender rcpt p1 p2 din dout sold mid bought : Z) : Z -> Z -> Z := fun a d =>
  ind (at_ sender din a d) (- sold) + ind (at_ rcpt dout a d) bought
  + ind (at_ p1 din a d) sold + ind (at_ p1 std a d) (- mid)
  + ind (at_ p2 std a d) mid + ind (at_ p2 dout a d) (- bought).

Definition bounds_ok (buy : bool) (sold bought ain aout : Z) : Prop :=
  if buy then bought = aout /\ sold <= ain else sold = ain /\ aout <= bought.

Definition ledger_delta (s s' : state) (f : Z -> Z -> Z) : Prop :=
  forall a d, bal (led s') a d = bal (led s) a d + f a d.

Lemma swap_balance_sheet_lemma s buy sender rcpt din ain dout aout deadline s' r :
  exec_swap s buy sender rcpt din ain dout aout deadline = Ret (s', r) ->
  exists sold bought,
    bounds_ok buy sold bought ain aout
    /\ ((exists n, lpt_of_denoms s din dout = Ret n
                   /\ ledger_delta s s' (sheet1 sender rcpt (pool_acct n) din dout sold bought))
        \/ (exists n1 n2 mid, din <> std /\ dout <> std
                   /\ lpt_of_denoms s din std = Ret n1 /\ lpt_of_denoms s std dout = Ret n2
                   /\ ledger_delta s s' (sheet2 sender rcpt (pool_acct n1) (pool_acct n2) din dout sold mid bought)))
    /\ (forall d, supply s' d = supply s d)
    /\ pools s' = pools s /\ seq s' = seq s.
Proof.
  intros H. destruct (exec_swap_spec _ _ _ _ _ _ _ _ _ _ _ H) as (_ & _ & _ & _ & _ & _ & sold & bought & SE & B).
  exists sold, bought. split; [exact B|].
  destruct SE as [n Hd Hn Hp M R | n1 n2 s1 mid Hdi Hdo Hn1 Hn2 Hp1 Hp2 M1 R1 M2 R2].
  - split; [left; exists n; split; [exact Hn|exact (proj1 M)]|].
    split; [intros d; destruct M as (_ & MS & _); rewrite MS; unfold zero1; lia|exact R].
  - pose proof (moves_trans _ _ _ _ _ _ _ M1 M2) as M.
    split; [right; exists n1, n2, mid; repeat (split; [assumption|])|].
    + intros a d. destruct M as (ML & _). rewrite ML. unfold sheet1, sheet2. rewrite !ind_neg. lia.
    + split; [intros d; destruct M as (_ & MS & _); rewrite MS; unfold zero1; lia|].
      exact (same_reg_trans _ _ _ R1 R2).
Qed.

Lemma swap_guards_lemma s buy sender rcpt din ain dout aout deadline s' r :
  exec_swap s buy sender rcpt din ain dout aout deadline = Ret (s', r) ->
  now s <= deadline /\ rcpt <> acct_feecol /\ 0 < ain /\ 0 < aout /\ din <> dout.
Proof.
  intros H. destruct (exec_swap_spec _ _ _ _ _ _ _ _ _ _ _ H) as (_ & A & B & C & D & E & _). tauto.
Qed.

(** accounts that are neither party nor pool of the swap keep every balance *)
Lemma sheet1_bystander sender rcpt pool din dout sold bought a d :
  a <> sender -> a <> rcpt -> a <> pool -> sheet1 sender rcpt pool din dout sold bought a d = 0.
Proof.
  intros. unfold sheet1, ind, at_.
  destruct (Z.eqb_spec sender a); [congruence|].
  destruct (Z.eqb_spec rcpt a); [congruence|].
  destruct (Z.eqb_spec pool a); [congruence|]. simpl. lia.
Qed.

Lemma sheet2_bystander sender rcpt p1 p2 din dout sold mid bought a d :
  a <> sender -> a <> rcpt -> a <> p1 -> a <> p2 -> sheet2 sender rcpt p1 p2 din dout sold mid bought a d = 0.
Proof.
  intros. unfold sheet2, ind, at_.
  destruct (Z.eqb_spec sender a); [congruence|].
  destruct (Z.eqb_spec rcpt a); [congruence|].
  destruct (Z.eqb_spec p1 a); [congruence|].
  destruct (Z.eqb_spec p2 a); [congruence|]. simpl. lia.
Qed.

(** what the two parties see, when neither is a pool escrow address: single hop *)
Lemma sheet1_parties sender rcpt pool din dout sold bought :
  sender <> pool -> rcpt <> pool -> din <> dout ->
  sheet1 sender rcpt pool din dout sold bought sender din = - sold
  /\ sheet1 sender rcpt pool din dout sold bought rcpt dout = bought
  /\ (sender <> rcpt -> sheet1 sender rcpt pool din dout sold bought sender dout = 0
                        /\ sheet1 sender rcpt pool din dout sold bought rcpt din = 0).
Proof.
  intros H1 H2 H3. unfold sheet1, ind, at_. rewrite !Z.eqb_refl.
  destruct (Z.eqb_spec rcpt sender), (Z.eqb_spec sender rcpt), (Z.eqb_spec pool sender), (Z.eqb_spec pool rcpt),
    (Z.eqb_spec dout din), (Z.eqb_spec din dout); try congruence; simpl; repeat split; intros; try lia; congruence.
Qed.

(** routed swap: the sender's standard coin nets to zero; the recipient receives no standard coin *)
Lemma sheet2_parties sender rcpt p1 p2 din dout sold mid bought :
  sender <> p1 -> sender <> p2 -> rcpt <> p1 -> rcpt <> p2 -> din <> dout -> din <> std -> dout <> std ->
  sheet2 sender rcpt p1 p2 din dout sold mid bought sender din = - sold
  /\ sheet2 sender rcpt p1 p2 din dout sold mid bought rcpt dout = bought
  /\ sheet2 sender rcpt p1 p2 din dout sold mid bought sender std = 0
  /\ sheet2 sender rcpt p1 p2 din dout sold mid bought rcpt std = 0.
Proof.
  intros H1 H2 H3 H4 H5 H6 H7. unfold sheet2, ind, at_. rewrite !Z.eqb_refl.
  destruct (Z.eqb_spec rcpt sender), (Z.eqb_spec sender rcpt), (Z.eqb_spec p1 sender), (Z.eqb_spec p1 rcpt),
    (Z.eqb_spec p2 sender), (Z.eqb_spec p2 rcpt),
    (Z.eqb_spec dout din), (Z.eqb_spec din dout), (Z.eqb_spec din std), (Z.eqb_spec dout std); try congruence; simpl; repeat split; lia.
Qed.

(** ** supplies *)
Lemma cp_of_list_In l n cp : cp_of_list l n = Some cp -> In (cp, n) l.
Proof.
  induction l as [|[c n'] l IH]; simpl; [discriminate|].
  destruct (Z.eqb_spec n n') as [->|Hne]; intros H.
  - inversion H; subst. left; reflexivity.
  - right. auto.
Qed.

Lemma pool_of_In s cp n : pool_of s cp = Some n -> In (cp, n) (pools s).
Proof. unfold pool_of. apply get_In. Qed.

Lemma lpt_delta_nz n x d : lpt_delta n x d <> 0 -> d = lpt n.
Proof. unfold lpt_delta, ind. destruct (Z.eqb_spec d (lpt n)); [auto|congruence]. Qed.

Definition creates_pool (s : state) (m : msg) : Prop :=
  exists sender dtok max_tok exact min_liq deadline,
    m = MAdd sender dtok max_tok exact min_liq deadline /\ pool_of s dtok = None.

(** a step changes the total supply of a denom only if it is the LPT denom of a registered pool,
    or the creation-fee denom while a pool is being created (the burned part of the fee) *)
Lemma supply_frame_lemma s m d :
  supply (step s m) d <> supply s d ->
  (exists cp n, d = lpt n /\ In (cp, n) (pools (step s m)))
  \/ (d = p_cdenom (par s) /\ creates_pool s m).
Proof.
  unfold step. destruct (exec s m) as [[s' r]|o] eqn:E; [|congruence].
  intros Hne. destruct m; simpl in E.
  - destruct (swap_balance_sheet_lemma _ _ _ _ _ _ _ _ _ _ _ E) as (_ & _ & _ & _ & HS & _).
    rewrite HS in Hne. congruence.
  - destruct (exec_add_spec _ _ _ _ _ _ _ _ _ E) as (_ & _ & _ & _ & _ & mint & _ & _ & AE).
    destruct AE as [tax Hp _ _ _ _ M Hps _ | n Hp _ _ _ M R | n dep Hp _ _ _ _ _ _ _ _ M R].
    + destruct M as (_ & MS & _). rewrite MS in Hne.
      destruct (Z.eqb_spec d (p_cdenom (par s))) as [Hd|Hd].
      * right. split; [exact Hd|]. do 6 eexists. split; [reflexivity|exact Hp].
      * left. exists dtok, (seq s). split.
        { apply (lpt_delta_nz _ exact_std). unfold ind in Hne. simpl in Hne. lia. }
        { rewrite Hps. apply in_or_app. right. left. reflexivity. }
    + destruct M as (_ & MS & _). rewrite MS in Hne. left. exists dtok, n. split.
      * apply (lpt_delta_nz _ exact_std). lia.
      * destruct R as [R _]. rewrite R. apply pool_of_In. exact Hp.
    + destruct M as (_ & MS & _). rewrite MS in Hne. left. exists dtok, n. split.
      * apply (lpt_delta_nz _ mint). lia.
      * destruct R as [R _]. rewrite R. apply pool_of_In. exact Hp.
  - destruct (exec_remove_spec _ _ _ _ _ _ _ _ _ E) as (cp & a1 & a2 & Hc & _ & _ & _ & _ & _ & _ & _ & _ & _ & M & R).
    destruct M as (_ & MS & _). rewrite MS in Hne. left. exists cp, (dlpt - 1000). split.
    + apply (lpt_delta_nz _ (- w)). lia.
    + destruct R as [R _]. rewrite R. apply cp_of_list_In. exact Hc.
  - destruct (exec_add_uni_spec _ _ _ _ _ _ _ _ _ E) as (n & mint & Hp & _ & _ & _ & _ & _ & _ & _ & _ & M & R).
    destruct M as (_ & MS & _). rewrite MS in Hne. left. exists cp, n. split.
    + apply (lpt_delta_nz _ mint). lia.
    + destruct R as [R _]. rewrite R. apply pool_of_In. exact Hp.
  - destruct (exec_remove_uni_spec _ _ _ _ _ _ _ _ _ E) as (n & target & Hp & _ & _ & _ & _ & _ & _ & _ & M & R).
    destruct M as (_ & MS & _). rewrite MS in Hne. left. exists cp, n. split.
    + apply (lpt_delta_nz _ (- exact_liq)). lia.
    + destruct R as [R _]. rewrite R. apply pool_of_In. exact Hp.
  - destruct (exec_send_spec _ _ _ _ _ _ _ E) as (_ & _ & _ & M & _).
    destruct M as (_ & MS & _). rewrite MS in Hne. unfold zero1 in Hne. lia.
  - inversion E; subst. unfold supply in Hne. simpl in Hne. congruence.
  - destruct (exec_update_params_spec _ _ _ _ _ E) as (_ & _ & _ & _ & HS & _).
    unfold supply in Hne. rewrite HS in Hne. congruence.
Qed.

(** the registry only grows; the parameters change only by a valid MsgUpdateParams of the authority *)
Lemma step_registry_grows s m p : In p (pools s) -> In p (pools (step s m)).
Proof.
  unfold step. destruct (exec s m) as [[s' r]|o] eqn:E; [|auto].
  intros Hin. destruct m; simpl in E.
  - destruct (swap_balance_sheet_lemma _ _ _ _ _ _ _ _ _ _ _ E) as (_ & _ & _ & _ & _ & R & _). rewrite R. exact Hin.
  - destruct (exec_add_spec _ _ _ _ _ _ _ _ _ E) as (_ & _ & _ & _ & _ & mint & _ & _ & AE).
    destruct AE as [tax Hp _ _ _ _ M Hps _ | n Hp _ _ _ M R | n dep Hp _ _ _ _ _ _ _ _ M R].
    + rewrite Hps. apply in_or_app. left. exact Hin.
    + destruct R as [R _]. rewrite R. exact Hin.
    + destruct R as [R _]. rewrite R. exact Hin.
  - destruct (exec_remove_spec _ _ _ _ _ _ _ _ _ E) as (cp & a1 & a2 & _ & _ & _ & _ & _ & _ & _ & _ & _ & _ & _ & R).
    destruct R as [R _]. rewrite R. exact Hin.
  - destruct (exec_add_uni_spec _ _ _ _ _ _ _ _ _ E) as (n & mint & _ & _ & _ & _ & _ & _ & _ & _ & _ & _ & R).
    destruct R as [R _]. rewrite R. exact Hin.
  - destruct (exec_remove_uni_spec _ _ _ _ _ _ _ _ _ E) as (n & target & _ & _ & _ & _ & _ & _ & _ & _ & _ & R).
    destruct R as [R _]. rewrite R. exact Hin.
  - destruct (exec_send_spec _ _ _ _ _ _ _ E) as (_ & _ & _ & _ & R). destruct R as [R _]. rewrite R. exact Hin.
  - inversion E; subst. exact Hin.
  - destruct (exec_update_params_spec _ _ _ _ _ E) as (_ & _ & _ & _ & _ & R & _). destruct R as [R _]. rewrite R. exact Hin.
Qed.

Lemma step_par s m :
  par (step s m) = par s
  \/ (exists p, m = MUpdateParams acct_gov p /\ params_valid p = true /\ par (step s m) = p).
Proof.
  unfold step. destruct (exec s m) as [[s' r]|o] eqn:E; [|left; reflexivity].
  destruct m; simpl in E.
  - left. destruct (exec_swap_spec _ _ _ _ _ _ _ _ _ _ _ E) as (_ & _ & _ & _ & _ & _ & sold & bought & SE & _).
    destruct SE as [n _ _ _ M _ | n1 n2 s1 mid _ _ _ _ _ _ M1 _ M2 _].
    + apply M.
    + destruct M1 as (_ & _ & (_ & P1) & _). destruct M2 as (_ & _ & (_ & P2) & _). congruence.
  - left. destruct (exec_add_spec _ _ _ _ _ _ _ _ _ E) as (_ & _ & _ & _ & _ & mint & _ & _ & AE).
    destruct AE as [tax Hp _ _ _ _ M Hps _ | n Hp _ _ _ M R | n dep Hp _ _ _ _ _ _ _ _ M R]; apply M.
  - left. destruct (exec_remove_spec _ _ _ _ _ _ _ _ _ E) as (cp & a1 & a2 & _ & _ & _ & _ & _ & _ & _ & _ & _ & _ & M & _). apply M.
  - left. destruct (exec_add_uni_spec _ _ _ _ _ _ _ _ _ E) as (n & mint & _ & _ & _ & _ & _ & _ & _ & _ & _ & M & _). apply M.
  - left. destruct (exec_remove_uni_spec _ _ _ _ _ _ _ _ _ E) as (n & target & _ & _ & _ & _ & _ & _ & _ & _ & M & _). apply M.
  - left. destruct (exec_send_spec _ _ _ _ _ _ _ E) as (_ & _ & _ & M & _). apply M.
  - left. inversion E; subst. reflexivity.
  - right. destruct (exec_update_params_spec _ _ _ _ _ E) as (_ & -> & Hv & _ & _ & _ & _ & Hp).
    exists p. auto.
Qed.

Lemma run_registry_grows ms : forall s p, In p (pools s) -> In p (pools (run s ms)).
Proof.
  induction ms as [|m ms IH]; intros s p Hin; simpl; [exact Hin|].
  apply IH. apply step_registry_grows. exact Hin.
Qed.

(** a predicate on every state a history passes through, both ends included *)
Fixpoint all_states (P : state -> Prop) (s : state) (ms : list msg) : Prop :=
  P s /\ match ms with [] => True | m :: ms' => all_states P (step s m) ms' end.

(** over a whole history (parameter changes included): a denom that is never the creation-fee denom
    and is not the LPT denom of a pool registered at the end keeps its supply *)
Lemma history_supply_frame_lemma ms : forall s d,
  all_states (fun s' => d <> p_cdenom (par s')) s ms ->
  (forall cp n, In (cp, n) (pools (run s ms)) -> d <> lpt n) ->
  supply (run s ms) d = supply s d.
Proof.
  induction ms as [|m ms IH]; intros s d Hc Hl; simpl; [reflexivity|].
  simpl in Hl. simpl in Hc. destruct Hc as (Hc0 & Hc).
  rewrite IH; [|exact Hc|exact Hl].
  destruct (Z.eq_dec (supply (step s m) d) (supply s d)) as [e|Hne]; [exact e|exfalso].
  destruct (supply_frame_lemma _ _ _ Hne) as [(cp & n & Hd & Hin)|[Hd _]]; [|congruence].
  apply (Hl cp n); [|exact Hd].
  apply run_registry_grows. exact Hin.
Qed.
