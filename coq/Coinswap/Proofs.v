(** * Coinswap: proofs (first part: facts true by construction of [step]) *)
From Irismod Require Import Coinswap.Model.

Lemma failed_step_changes_nothing s m o : exec s m = Fail o -> step s m = s.
Proof. intros H. unfold step. rewrite H. reflexivity. Qed.
