(** * Coinswap: executable model of modules/coinswap (keeper/{swap,keeper,pool,fees,msg_server}.go,
    types/{msgs,validation,params}.go).

    The pool reserves are what the code reads them from: the bank balances of the pool's escrow
    account (so coins sent there directly count), the liquidity is the bank supply of the pool's
    LPT denom.  [sdkmath.Int] results above 256 bits and divisions by zero are [Abort] (the Go code
    panics, the transaction is rolled back), ordinary errors are [Rej].

    Vocabulary.  Accounts and denoms are integers:
      accounts  0..999 ordinary addresses (a negative number = not a bech32 address),
                [acct_module] the coinswap module account, [acct_feecol] the fee collector,
                [acct_gov] the governance module account,
                [pool_acct n] = escrow address of the pool whose LPT denom is "lpt-n";
      denoms    [std] = the standard denom, 1..999 other bank denoms, [lpt n] = "lpt-n". *)
From Irismod Require Export Base.Prelude Base.Dec Base.Bank.

Definition acct_module : Z := 100.
Definition acct_feecol : Z := 101.
Definition acct_gov : Z := 102.      (* x/gov module account = the authority of MsgUpdateParams (depinject.go) *)
Definition pool_acct (n : Z) : Z := 1000 + n.
Definition is_pool_acct (a : Z) : bool := 1000 <? a.
Definition std : Z := 0.
Definition lpt (n : Z) : Z := 1000 + n.
Definition is_lpt (d : Z) : bool := 1000 <? d.

(** types/params.go: decimals as integers scaled by 10^18 *)
Record params := mkParams {
  p_fee : Z;          (* Fee, in (0,1) *)
  p_ufee : Z;         (* UnilateralLiquidityFee, in [0,1) *)
  p_tax : Z;          (* TaxRate, in (0,1) *)
  p_cdenom : Z;       (* PoolCreationFee.Denom *)
  p_camt : Z          (* PoolCreationFee.Amount *)
}.

Record state := mkState {
  led : ledger;                (* bank balances *)
  sup : amap Z Z;              (* bank supply per denom *)
  pools : list (Z * Z);        (* registry: counterparty denom |-> n of "lpt-n" (keeper/pool.go) *)
  seq : Z;                     (* next pool sequence *)
  now : Z;                     (* block time, seconds *)
  par : params
}.

Definition with_led (s : state) (l : ledger) : state := mkState l (sup s) (pools s) (seq s) (now s) (par s).
Definition supply (s : state) (d : Z) : Z := match get d (sup s) with Some x => x | None => 0 end.
Definition with_sup (s : state) (d x : Z) : state :=
  mkState (led s) (set d x (sup s)) (pools s) (seq s) (now s) (par s).

(** ** result monad *)
Inductive res (A : Type) := Ret (a : A) | Fail (o : outcome).
Arguments Ret {A} a.
Arguments Fail {A} o.
Definition bind {A B} (m : res A) (f : A -> res B) : res B :=
  match m with Ret a => f a | Fail o => Fail o end.
Notation "'do' x <- m ; f" := (bind m (fun x => f)) (at level 200, x pattern, m at level 100, f at level 200).
Definition lift {A} (o : option A) : res A := match o with Some a => Ret a | None => Fail Rej end.
Definition guard (b : bool) : res unit := if b then Ret tt else Fail Rej.

(** [sdkmath.Int]: every operation result is checked against 256 bits *)
Definition chk (x : Z) : res Z := if int_ok x then Ret x else Fail Abort.
(** [Int.Quo]: truncated division, panics on a zero divisor *)
Definition quo (a b : Z) : res Z := if b =? 0 then Fail Abort else Ret (Z.quot a b).

(** ** pricing kernels (keeper/swap.go) *)

(** [GetInputPrice(inputAmt, inputReserve, outputReserve, fee)] with [phi = (1 - fee) * 10^18] *)
Definition input_price (a x y phi : Z) : res Z :=
  do awf <- chk (a * phi);
  do num <- chk (awf * y);
  do xs <- chk (x * P18);
  do den <- chk (xs + awf);
  quo num den.

(** [GetOutputPrice(outputAmt, inputReserve, outputReserve, fee)] *)
Definition output_price (b x y phi : Z) : res Z :=
  do xb <- chk (x * b);
  do num <- chk (xb * P18);
  do yb <- chk (y - b);
  do den <- chk (yb * phi);
  do q <- quo num den;
  chk (q + 1).

Definition phi (s : state) : Z := P18 - p_fee (par s).
Definition phi_u (s : state) : Z := P18 - p_ufee (par s).

(** ** bank operations used by the keeper *)
Definition bsend (s : state) (from to d x : Z) : res state :=
  do l <- lift (send (led s) from to d x); Ret (with_led s l).

(** [MintCoins(module, x d)] then [SendCoinsFromModuleToAccount(module, a, x d)]: the passage
    through the module account nets to zero *)
Definition mint_to (s : state) (a d x : Z) : res state :=
  if x <? 0 then Fail Abort   (* sdk.NewCoin panics on a negative amount *)
  else Ret (with_sup (with_led s (credit (led s) a d x)) d (supply s d + x)).

(** [SendCoinsFromAccountToModule(a, module, x d)] then [BurnCoins(module, x d)] *)
Definition burn_from (s : state) (a d x : Z) : res state :=
  do l <- lift (debit (led s) a d x);
  Ret (with_sup (with_led s l) d (supply s d - x)).

(** ** pool registry (keeper/pool.go) *)
Definition pool_of (s : state) (cp : Z) : option Z := get cp (pools s).
Fixpoint cp_of_list (l : list (Z * Z)) (n : Z) : option Z :=
  match l with
  | [] => None
  | (cp, n') :: l' => if n =? n' then Some cp else cp_of_list l' n
  end.
(** [GetPoolByLptDenom] *)
Definition cp_of (s : state) (n : Z) : option Z := cp_of_list (pools s) n.

(** [GetLptDenomFromDenoms] *)
Definition lpt_of_denoms (s : state) (d1 d2 : Z) : res Z :=
  if d1 =? d2 then Fail Rej
  else if negb (d1 =? std) && negb (d2 =? std) then Fail Rej
  else lift (pool_of s (if d1 =? std then d2 else d1)).

(** [GetPoolBalances(..).IsZero()]: no coin of any denom at the escrow address *)
Definition acct_empty (l : ledger) (a : Z) : bool :=
  forallb (fun e : (Z * Z) * Z => negb (fst (fst e) =? a) || (snd e =? 0)) l.

(** ** swaps (keeper/swap.go) *)

(** [swapCoins]: sender -> pool, then pool -> recipient *)
Definition swap_coins (s : state) (sender rcpt dsold asold dbought abought : Z) : res state :=
  do n <- lpt_of_denoms s dsold dbought;
  do s1 <- bsend s sender (pool_acct n) dsold asold;
  bsend s1 (pool_acct n) rcpt dbought abought.

(** [calculateWithExactInput] *)
Definition calc_in (s : state) (dsold asold dbought : Z) : res Z :=
  do n <- lpt_of_denoms s dsold dbought;
  let x := bal (led s) (pool_acct n) dsold in
  let y := bal (led s) (pool_acct n) dbought in
  do _ <- guard (0 <? x);
  do _ <- guard (0 <? y);
  input_price asold x y (phi s).

(** [calculateWithExactOutput] *)
Definition calc_out (s : state) (dbought abought dsold : Z) : res Z :=
  do n <- lpt_of_denoms s dbought dsold;
  let y := bal (led s) (pool_acct n) dbought in
  let x := bal (led s) (pool_acct n) dsold in
  do _ <- guard (0 <? x);
  do _ <- guard (0 <? y);
  do _ <- guard (abought <? y);
  output_price abought x y (phi s).

(** [TradeExactInputForOutput] *)
Definition trade_in (s : state) (sender rcpt din ain dout aout : Z) : res state :=
  do b <- calc_in s din ain dout;
  do _ <- guard (aout <=? b);
  swap_coins s sender rcpt din ain dout b.

(** [TradeInputForExactOutput] *)
Definition trade_out (s : state) (sender rcpt din ain dout aout : Z) : res state :=
  do t <- calc_out s dout aout din;
  do _ <- guard (t <=? ain);
  swap_coins s sender rcpt din t dout aout.

(** The party that receives the intermediate standard coin of the first leg of a routed
    (token-to-token) swap: the sender, who pays it into the second leg.  (Before the fix commit
    "coinswap routed swaps return the intermediate standard coin to the sender" the code named
    the final recipient here; corpus/C02/double-hop-other-recipient.jsonl is the witness.) *)
Definition leg1_rcpt (sender rcpt : Z) : Z := sender.

(** [doubleTradeExactInputForOutput] *)
Definition dtrade_in (s : state) (sender rcpt din ain dout aout : Z) : res state :=
  do m <- calc_in s din ain std;
  do s1 <- swap_coins s sender (leg1_rcpt sender rcpt) din ain std m;
  do b <- calc_in s1 std m dout;
  do _ <- guard (aout <=? b);
  swap_coins s1 sender rcpt std m dout b.

(** [doubleTradeInputForExactOutput] *)
Definition dtrade_out (s : state) (sender rcpt din ain dout aout : Z) : res state :=
  do m <- calc_out s dout aout std;
  do t <- calc_out s std m din;
  do _ <- guard (t <=? ain);
  do s1 <- swap_coins s sender (leg1_rcpt sender rcpt) din t std m;
  swap_coins s1 sender rcpt std m dout aout.

(** [bk.GetBlockedAddresses()] restricted to the accounts of the model: the fee collector is
    blocked, the coinswap module account is not (e2e/app_config.go blockAccAddrs) *)
Definition blocked (a : Z) : bool := a =? acct_feecol.

Inductive msg :=
| MSwap (buy : bool) (sender rcpt din ain dout aout deadline : Z)
| MAdd (sender dtok max_tok exact_std min_liq deadline : Z)
| MRemove (sender dlpt w min_std min_tok deadline : Z)
| MAddUni (sender cp dtok exact min_liq deadline : Z)
| MRemoveUni (sender cp dtok min_tok exact_liq deadline : Z)
| MSend (from to d amt : Z)          (* bank MsgSend: donations and plain transfers *)
| MBlock (dt : Z)                    (* next block, [dt] seconds later *)
| MUpdateParams (auth : Z) (p : params).   (* MsgUpdateParams *)

(** [Keeper.Swap] behind [msgServer.SwapCoin] and [MsgSwapOrder.ValidateBasic] *)
Definition exec_swap (s : state) (buy : bool) (sender rcpt din ain dout aout deadline : Z) : res (state * list Z) :=
  do _ <- guard ((0 <? ain) && negb (is_lpt din) && (0 <=? din) && (0 <=? sender)
                 && (0 <? aout) && negb (is_lpt dout) && (0 <=? dout) && (0 <=? rcpt)
                 && negb (din =? dout) && (0 <? deadline));
  do _ <- guard (now s <=? deadline);
  do _ <- guard (negb (blocked rcpt));
  let double := negb (din =? std) && negb (dout =? std) in
  do s' <- (if buy then (if double then dtrade_out else trade_out)
            else (if double then dtrade_in else trade_in)) s sender rcpt din ain dout aout;
  Ret (s', []).

(** keeper/fees.go [DeductPoolCreationFee] *)
Definition deduct_fee (s : state) (creator : Z) : res state :=
  let d := p_cdenom (par s) in
  let fee := p_camt (par s) in
  let tax := dec_truncate_int (dec_mul (dec_of_int fee) (p_tax (par s))) in
  do s1 <- bsend s creator acct_module d fee;
  do s2 <- bsend s1 acct_module acct_feecol d tax;
  burn_from s2 acct_module d (fee - tax).

(** [Keeper.addLiquidity]: deposit both coins, mint LPT to the sender *)
Definition add_liq (s : state) (sender n dtok astd atok mint : Z) : res (state * list Z) :=
  do s1 <- bsend s sender (pool_acct n) std astd;
  do s2 <- bsend s1 sender (pool_acct n) dtok atok;
  do s3 <- mint_to s2 sender (lpt n) mint;
  Ret (s3, [mint]).

(** [Keeper.AddLiquidity] behind [msgServer.AddLiquidity] and [MsgAddLiquidity.ValidateBasic] *)
Definition exec_add (s : state) (sender dtok max_tok exact_std min_liq deadline : Z) : res (state * list Z) :=
  do _ <- guard ((0 <? max_tok) && negb (is_lpt dtok) && (0 <=? dtok) && (0 <? exact_std)
                 && (0 <=? min_liq) && (0 <? deadline) && (0 <=? sender));
  do _ <- guard (now s <=? deadline);
  do _ <- guard (negb (dtok =? std));
  match pool_of s dtok with
  | None =>
      do s1 <- deduct_fee s sender;
      do _ <- guard (min_liq <=? exact_std);
      (* CreatePool *)
      let n := seq s in
      let s2 := mkState (led s1) (sup s1) (pools s1 ++ [(dtok, n)]) (n + 1) (now s1) (par s1) in
      add_liq s2 sender n dtok exact_std max_tok exact_std
  | Some n =>
      if acct_empty (led s) (pool_acct n) then
        do _ <- guard (min_liq <=? exact_std);
        add_liq s sender n dtok exact_std max_tok exact_std
      else
        let S := bal (led s) (pool_acct n) std in
        let T := bal (led s) (pool_acct n) dtok in
        let L := supply s (lpt n) in
        do _ <- guard (negb ((S =? 0) || (T =? 0) || (L =? 0)));
        do le <- chk (L * exact_std);
        do mint <- quo le S;
        do _ <- guard (min_liq <=? mint);
        do te <- chk (T * exact_std);
        do q <- quo te S;
        do dep <- chk (q + 1);
        do _ <- guard (dep <=? max_tok);
        add_liq s sender n dtok exact_std dep mint
  end.

(** [Keeper.RemoveLiquidity] *)
Definition exec_remove (s : state) (sender dlpt w min_std min_tok deadline : Z) : res (state * list Z) :=
  do _ <- guard ((0 <=? min_tok) && (0 <? w) && is_lpt dlpt && (0 <=? min_std) && (0 <? deadline) && (0 <=? sender));
  do _ <- guard (now s <=? deadline);
  let n := dlpt - 1000 in
  do cp <- lift (cp_of s n);
  let S := bal (led s) (pool_acct n) std in
  let T := bal (led s) (pool_acct n) cp in
  let L := supply s (lpt n) in
  do _ <- guard (min_std <=? S);
  do _ <- guard (min_tok <=? T);
  do _ <- guard (w <=? L);
  do ws <- chk (w * S);
  do a_std <- quo ws L;
  do wt <- chk (w * T);
  do a_tok <- quo wt L;
  do _ <- guard (min_std <=? a_std);
  do _ <- guard (min_tok <=? a_tok);
  do s1 <- burn_from s sender (lpt n) w;
  do s2 <- bsend s1 (pool_acct n) sender std a_std;
  do s3 <- bsend s2 (pool_acct n) sender cp a_tok;
  Ret (s3, [a_std; a_tok]).

(** [Keeper.AddUnilateralLiquidity] *)
Definition exec_add_uni (s : state) (sender cp dtok exact min_liq deadline : Z) : res (state * list Z) :=
  do _ <- guard ((0 <=? cp) && (0 <? exact) && negb (is_lpt dtok) && (0 <=? dtok) && (0 <=? min_liq)
                 && (0 <? deadline) && (0 <=? sender));
  do _ <- guard (now s <=? deadline);
  do n <- lift (pool_of s cp);
  do _ <- guard ((dtok =? cp) || (dtok =? std));
  do _ <- guard (negb (acct_empty (led s) (pool_acct n)));
  let T := bal (led s) (pool_acct n) dtok in
  let L := supply s (lpt n) in
  do pt <- chk (P18 * T);
  do nx <- chk (phi_u s * exact);
  do a1 <- chk (pt + nx);
  do a2 <- chk (a1 * L);
  do a3 <- chk (a2 * L);
  do sq <- quo a3 pt;
  do mint <- chk (Z.sqrt sq - L);
  do _ <- guard (min_liq <=? mint);
  do s1 <- bsend s sender (pool_acct n) dtok exact;
  do s2 <- mint_to s1 sender (lpt n) mint;
  Ret (s2, [mint]).

(** [Keeper.RemoveUnilateralLiquidity] *)
Definition exec_remove_uni (s : state) (sender cp dtok min_tok exact_liq deadline : Z) : res (state * list Z) :=
  do _ <- guard ((0 <=? cp) && (0 <? min_tok) && negb (is_lpt dtok) && (0 <=? dtok) && (0 <=? exact_liq)
                 && (0 <? deadline) && (0 <=? sender));
  do _ <- guard (now s <=? deadline);
  do n <- lift (pool_of s cp);
  do _ <- guard ((dtok =? cp) || (dtok =? std));
  let T := bal (led s) (pool_acct n) dtok in
  let L := supply s (lpt n) in
  do _ <- guard (exact_liq <=? L);
  do _ <- guard (negb (L =? exact_liq));
  do _ <- guard (min_tok <=? T);
  do b1 <- chk (L + L);
  do b2 <- chk (b1 - exact_liq);
  do b3 <- chk (b2 * exact_liq);
  do b4 <- chk (b3 * T);
  do num <- chk (b4 * phi_u s);
  do c1 <- chk (L * L);
  do den <- chk (c1 * P18);
  do target <- quo num den;
  do _ <- guard (min_tok <=? target);
  do s1 <- burn_from s sender (lpt n) exact_liq;
  do s2 <- bsend s1 (pool_acct n) sender dtok target;
  Ret (s2, [target]).

(** x/bank [MsgSend] of one coin *)
Definition exec_send (s : state) (from to d amt : Z) : res (state * list Z) :=
  do _ <- guard ((0 <=? from) && (0 <=? to) && (0 <=? d) && (0 <? amt));
  do _ <- guard (negb (blocked to));
  do s1 <- bsend s from to d amt;
  Ret (s1, []).

(** types/params.go [Params.Validate]: fee in (0,1), creation fee a valid positive coin of at most
    255 bits (fix "coinswap Params.Validate rejects a pool creation fee amount of more than 255 bits"),
    tax rate in (0,1), unilateral fee in [0,1) *)
Definition params_valid (p : params) : bool :=
  (0 <? p_fee p) && (p_fee p <? P18)
  && (0 <=? p_cdenom p) && (0 <? p_camt p) && (p_camt p <? 2 ^ 255)
  && (0 <? p_tax p) && (p_tax p <? P18)
  && (0 <=? p_ufee p) && (p_ufee p <? P18).

(** [msgServer.UpdateParams] behind [MsgUpdateParams.ValidateBasic]: only the authority, only valid
    parameters; [Keeper.SetParams] replaces the stored parameters *)
Definition exec_update_params (s : state) (auth : Z) (p : params) : res (state * list Z) :=
  do _ <- guard (0 <=? auth);
  do _ <- guard (params_valid p);
  do _ <- guard (auth =? acct_gov);
  Ret (mkState (led s) (sup s) (pools s) (seq s) (now s) p, []).

Definition exec (s : state) (m : msg) : res (state * list Z) :=
  match m with
  | MSwap buy sender rcpt din ain dout aout deadline => exec_swap s buy sender rcpt din ain dout aout deadline
  | MAdd sender dtok max_tok exact_std min_liq deadline => exec_add s sender dtok max_tok exact_std min_liq deadline
  | MRemove sender dlpt w min_std min_tok deadline => exec_remove s sender dlpt w min_std min_tok deadline
  | MAddUni sender cp dtok exact min_liq deadline => exec_add_uni s sender cp dtok exact min_liq deadline
  | MRemoveUni sender cp dtok min_tok exact_liq deadline => exec_remove_uni s sender cp dtok min_tok exact_liq deadline
  | MSend from to d amt => exec_send s from to d amt
  | MBlock dt => Ret (mkState (led s) (sup s) (pools s) (seq s) (now s + dt) (par s), [])
  | MUpdateParams auth p => exec_update_params s auth p
  end.

(** a message that fails changes nothing (the transaction's cache context is dropped) *)
Definition step (s : state) (m : msg) : state :=
  match exec s m with Ret (s', _) => s' | Fail _ => s end.

Definition code_of (s : state) (m : msg) : Z :=
  match exec s m with Ret _ => 0 | Fail o => outcome_code o end.

Definition resp_of (s : state) (m : msg) : list Z :=
  match exec s m with Ret (_, r) => r | Fail _ => [] end.

Definition run (s : state) (ms : list msg) : state := fold_left step ms s.

(** what C01 speaks about: the pool whose LPT denom is "lpt-n", counterparty [cp] *)
Definition reserve_std (s : state) (n : Z) : Z := bal (led s) (pool_acct n) std.
Definition reserve_tok (s : state) (cp n : Z) : Z := bal (led s) (pool_acct n) cp.
Definition liquidity (s : state) (n : Z) : Z := supply s (lpt n).
