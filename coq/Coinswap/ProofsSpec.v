(** * Coinswap: what a successful message does, as equations on the ledger and the supplies.

    Every lemma here has the shape [exec_xxx s args = Ret (s', r) -> ...]: it inverts the monadic
    definition of Model.v and states the effect pointwise ([moves]): for EVERY account and denom
    the new balance is the old one plus an explicit sum of indicator terms. *)
From Irismod Require Import Coinswap.Model Coinswap.Check Coinswap.ProofsArith.
From Coq Require Import Lia.

Local Open Scope Z_scope.

(** ** inversion of the result monad *)
Lemma bind_Ret {A B} (m : res A) (f : A -> res B) (b : B) :
  bind m f = Ret b -> exists a, m = Ret a /\ f a = Ret b.
Proof. destruct m as [a|o]; simpl; intros H; [exists a; auto|discriminate]. Qed.

Lemma guard_Ret (b : bool) (u : unit) : guard b = Ret u -> b = true.
Proof. destruct b; simpl; [reflexivity|discriminate]. Qed.

Lemma chk_Ret x y : chk x = Ret y -> y = x.
Proof. unfold chk. destruct (int_ok x); intros H; inversion H; reflexivity. Qed.

Lemma quo_Ret a b q : quo a b = Ret q -> b <> 0 /\ q = Z.quot a b.
Proof.
  unfold quo. destruct (Z.eqb_spec b 0) as [->|Hb]; intros H; inversion H. split; [exact Hb|reflexivity].
Qed.

Lemma lift_Ret {A} (o : option A) a : lift o = Ret a -> o = Some a.
Proof. destruct o; simpl; intros H; inversion H; reflexivity. Qed.

(** one step of inversion of [H : bind m f = Ret _] *)
Ltac mstep H :=
  lazymatch type of H with
  | bind (guard _) _ = Ret _ =>
      let G := fresh "G" in let u := fresh "u" in
      apply bind_Ret in H; destruct H as (u & G & H); apply guard_Ret in G; cbv beta zeta in H
  | bind (chk _) _ = Ret _ =>
      let v := fresh "v" in let E := fresh "E" in
      apply bind_Ret in H; destruct H as (v & E & H); apply chk_Ret in E; subst v; cbv beta zeta in H
  | bind (quo _ _) _ = Ret _ =>
      let v := fresh "v" in let E := fresh "E" in let Q := fresh "Q" in
      apply bind_Ret in H; destruct H as (v & E & H); apply quo_Ret in E; destruct E as (Q & E);
      subst v; cbv beta zeta in H
  | bind (lift _) _ = Ret _ =>
      let v := fresh "v" in let E := fresh "E" in
      apply bind_Ret in H; destruct H as (v & E & H); apply lift_Ret in E; cbv beta zeta in H
  | bind _ _ = Ret _ =>
      let v := fresh "v" in let E := fresh "E" in
      apply bind_Ret in H; destruct H as (v & E & H); cbv beta zeta in H
  end.

Ltac b2p H :=
  repeat rewrite ?andb_true_iff, ?orb_true_iff, ?negb_true_iff, ?orb_false_iff, ?andb_false_iff,
         ?negb_false_iff, ?Z.ltb_lt, ?Z.leb_le, ?Z.eqb_eq, ?Z.eqb_neq, ?Z.ltb_ge, ?Z.leb_gt in H.

(** ** indicator sums *)
Lemma ind_neg b x : ind b (- x) = - ind b x.
Proof. destruct b; simpl; lia. Qed.

Lemma at_true a d a' d' : at_ a d a' d' = true <-> a = a' /\ d = d'.
Proof. unfold at_. rewrite andb_true_iff, !Z.eqb_eq. tauto. Qed.

Lemma ind_at_same a d x : ind (at_ a d a d) x = x.
Proof. unfold ind, at_. rewrite !Z.eqb_refl. reflexivity. Qed.

Lemma ind_at_diff a d a' d' x : (a, d) <> (a', d') -> ind (at_ a d a' d') x = 0.
Proof.
  intros Hne. unfold ind. destruct (at_ a d a' d') eqn:E; [|reflexivity].
  apply at_true in E. destruct E; subst. congruence.
Qed.

Ltac npair :=
  let Hc := fresh "Hc" in
  intros Hc; inversion Hc; subst;
  try congruence; try lia;
  match goal with N : _ <> _ |- _ => solve [apply N; reflexivity] end.

(** ** the effect of a step on ledger and supplies *)
Definition frame (s s' : state) : Prop := now s' = now s /\ par s' = par s.
Definition same_reg (s s' : state) : Prop := pools s' = pools s /\ seq s' = seq s.

Definition nn (s : state) : Prop := forall a d, 0 <= bal (led s) a d.

Definition moves (s s' : state) (f : Z -> Z -> Z) (g : Z -> Z) : Prop :=
  (forall a d, bal (led s') a d = bal (led s) a d + f a d)
  /\ (forall d, supply s' d = supply s d + g d)
  /\ frame s s'
  /\ (nn s -> nn s').

Definition zero2 : Z -> Z -> Z := fun _ _ => 0.
Definition zero1 : Z -> Z := fun _ => 0.

Lemma moves_refl s : moves s s zero2 zero1.
Proof. unfold moves, frame, zero2, zero1. repeat split; intros; try lia. assumption. Qed.

Lemma moves_trans s s1 s2 f1 g1 f2 g2 :
  moves s s1 f1 g1 -> moves s1 s2 f2 g2 ->
  moves s s2 (fun a d => f1 a d + f2 a d) (fun d => g1 d + g2 d).
Proof.
  intros (L1 & S1 & (N1 & P1) & K1) (L2 & S2 & (N2 & P2) & K2). split; [|split; [|split; [split|]]].
  - intros a d. rewrite L2, L1. lia.
  - intros d. rewrite S2, S1. lia.
  - congruence.
  - congruence.
  - auto.
Qed.

Lemma moves_ext s s' f g f' g' :
  moves s s' f g -> (forall a d, f a d = f' a d) -> (forall d, g d = g' d) -> moves s s' f' g'.
Proof.
  intros (L & S & F) Hf Hg. split; [|split; [|exact F]].
  - intros a d. rewrite L, Hf. reflexivity.
  - intros d. rewrite S, Hg. reflexivity.
Qed.

(** ** bank primitives *)
Lemma bsend_moves s from to d x s' : bsend s from to d x = Ret s' ->
  0 <= x <= bal (led s) from d
  /\ moves s s' (fun a' d' => ind (at_ from d a' d') (- x) + ind (at_ to d a' d') x) zero1
  /\ same_reg s s'.
Proof.
  unfold bsend. intros H. mstep H. inversion H; subst s'; clear H.
  destruct (send_Some _ _ _ _ _ _ E) as (Hx & Hne & Heq & Hoth).
  split; [exact Hx|]. split; [|split; reflexivity].
  assert (ML : forall a' d', bal v a' d' = bal (led s) a' d' + (ind (at_ from d a' d') (- x) + ind (at_ to d a' d') x)); cycle 1.
  { split; [exact ML|]. split; [intros; unfold zero1; simpl; unfold supply; simpl; lia|]. split; [split; reflexivity|].
    intros Hnn a' d'. simpl. rewrite ML. pose proof (Hnn a' d').
    assert (0 <= ind (at_ to d a' d') x) by (unfold ind; destruct (at_ to d a' d'); lia).
    unfold ind at 1. destruct (at_ from d a' d') eqn:Ea; [|lia].
    apply at_true in Ea. destruct Ea; subst. lia. }
  intros a' d'.
  destruct (eq_dec (a', d') (from, d)) as [E1|N1]; destruct (eq_dec (a', d') (to, d)) as [E2|N2].
  - inversion E1; inversion E2; subst. rewrite !ind_at_same. rewrite Heq by reflexivity. lia.
  - inversion E1; subst. rewrite ind_at_same, ind_at_diff by npair.
    assert (H : from <> to) by (intros ->; exact (N2 eq_refl)). destruct (Hne H) as [-> _]. lia.
  - inversion E2; subst. rewrite ind_at_same, ind_at_diff by npair.
    assert (H : from <> to) by (intros ->; exact (N1 eq_refl)). destruct (Hne H) as [_ ->]. lia.
  - rewrite !ind_at_diff by npair. rewrite Hoth by assumption. lia.
Qed.

Lemma supply_with_sup s d x d' : supply (with_sup s d x) d' = if d' =? d then x else supply s d'.
Proof.
  unfold supply, with_sup. simpl. destruct (Z.eqb_spec d' d) as [->|Hne].
  - rewrite get_set_same. reflexivity.
  - rewrite get_set_other by exact Hne. reflexivity.
Qed.

Lemma mint_to_moves s a d x s' : mint_to s a d x = Ret s' ->
  0 <= x
  /\ moves s s' (fun a' d' => ind (at_ a d a' d') x) (fun d' => ind (d' =? d) x)
  /\ same_reg s s'.
Proof.
  unfold mint_to. destruct (Z.ltb_spec x 0) as [Hlt|Hge]; intros H; inversion H; subst s'; clear H.
  split; [exact Hge|]. split; [|split; reflexivity].
  assert (ML : forall a' d', bal (credit (led s) a d x) a' d' = bal (led s) a' d' + ind (at_ a d a' d') x).
  { intros a' d'.
    destruct (eq_dec (a', d') (a, d)) as [E1|N1].
    + inversion E1; subst. rewrite ind_at_same, bal_credit_same. reflexivity.
    + rewrite ind_at_diff by npair. rewrite bal_credit_other by exact N1. lia. }
  split; [exact ML|split; [|split; [split; reflexivity|]]]; cycle 1.
  - intros Hnn a' d'. simpl. rewrite ML. pose proof (Hnn a' d'). unfold ind. destruct (at_ a d a' d'); lia.
  - intros d'. rewrite supply_with_sup. unfold ind. destruct (d' =? d) eqn:E.
    + apply Z.eqb_eq in E. subst. unfold supply. simpl. reflexivity.
    + unfold supply. simpl. lia.
Qed.

Lemma burn_from_moves s a d x s' : burn_from s a d x = Ret s' ->
  0 <= x <= bal (led s) a d
  /\ moves s s' (fun a' d' => ind (at_ a d a' d') (- x)) (fun d' => ind (d' =? d) (- x))
  /\ same_reg s s'.
Proof.
  unfold burn_from. intros H. mstep H. inversion H; subst s'; clear H.
  destruct (debit_Some _ _ _ _ _ E) as (Hx & Hsame & Hoth).
  split; [exact Hx|]. split; [|split; reflexivity].
  assert (ML : forall a' d', bal v a' d' = bal (led s) a' d' + ind (at_ a d a' d') (- x)).
  { intros a' d'.
    destruct (eq_dec (a', d') (a, d)) as [E1|N1].
    + inversion E1; subst. rewrite ind_at_same, Hsame. lia.
    + rewrite ind_at_diff by npair. rewrite Hoth by exact N1. lia. }
  split; [exact ML|split; [|split; [split; reflexivity|]]]; cycle 1.
  - intros Hnn a' d'. simpl. rewrite ML. pose proof (Hnn a' d'). unfold ind. destruct (at_ a d a' d') eqn:Ea; [|lia].
    apply at_true in Ea. destruct Ea; subst. lia.
  - intros d'. rewrite supply_with_sup. unfold ind. destruct (d' =? d) eqn:E1.
    + apply Z.eqb_eq in E1. subst. unfold supply. simpl. lia.
    + unfold supply. simpl. lia.
Qed.

Lemma same_reg_refl s : same_reg s s.
Proof. split; reflexivity. Qed.
Lemma same_reg_trans s s1 s2 : same_reg s s1 -> same_reg s1 s2 -> same_reg s s2.
Proof. intros [A B] [C D]. split; congruence. Qed.

(** ** pricing kernels *)
Lemma input_price_Ret a x y ph out : input_price a x y ph = Ret out ->
  x * P18 + a * ph <> 0 /\ out = Z.quot (a * ph * y) (x * P18 + a * ph).
Proof.
  unfold input_price. intros H. do 4 mstep H. apply quo_Ret in H. exact H.
Qed.

Lemma output_price_Ret b x y ph paid : output_price b x y ph = Ret paid ->
  (y - b) * ph <> 0 /\ paid = Z.quot (x * b * P18) ((y - b) * ph) + 1.
Proof.
  unfold output_price. intros H. do 5 mstep H. apply chk_Ret in H. split; assumption.
Qed.

(** the price of a leg on pool [n] as the code computes it from the reserves in [s]:
    [din] goes in, [dout] comes out *)
Definition priced (buy : bool) (s : state) (n din dout paid recv : Z) : Prop :=
  let x := bal (led s) (pool_acct n) din in
  let y := bal (led s) (pool_acct n) dout in
  0 < x /\ 0 < y /\
  if buy then recv < y /\ output_price recv x y (phi s) = Ret paid
  else input_price paid x y (phi s) = Ret recv.

Lemma lpt_of_denoms_sym s d1 d2 : lpt_of_denoms s d1 d2 = lpt_of_denoms s d2 d1.
Proof.
  unfold lpt_of_denoms.
  destruct (Z.eqb_spec d1 d2) as [->|N12].
  - rewrite Z.eqb_refl. reflexivity.
  - destruct (Z.eqb_spec d2 d1) as [E|_]; [congruence|].
    destruct (Z.eqb_spec d1 std) as [E1|N1]; destruct (Z.eqb_spec d2 std) as [E2|N2]; simpl; try reflexivity.
    congruence.
Qed.

Lemma lpt_of_denoms_reg s s' d1 d2 : pools s' = pools s -> lpt_of_denoms s' d1 d2 = lpt_of_denoms s d1 d2.
Proof. intros E. unfold lpt_of_denoms, pool_of. rewrite E. reflexivity. Qed.

Lemma calc_in_spec s dsold asold dbought b : calc_in s dsold asold dbought = Ret b ->
  exists n, lpt_of_denoms s dsold dbought = Ret n /\ priced false s n dsold dbought asold b.
Proof.
  unfold calc_in. intros H. mstep H. do 2 mstep H. b2p G. b2p G0.
  exists v. split; [exact E|]. unfold priced. auto.
Qed.

Lemma calc_out_spec s dbought abought dsold t : calc_out s dbought abought dsold = Ret t ->
  exists n, lpt_of_denoms s dsold dbought = Ret n /\ priced true s n dsold dbought t abought.
Proof.
  unfold calc_out. intros H. mstep H. do 3 mstep H. b2p G. b2p G0. b2p G1.
  exists v. split; [rewrite lpt_of_denoms_sym; exact E|]. unfold priced. auto.
Qed.

(** ** swaps *)
Definition sheet1 (sender rcpt pool din dout sold bought : Z) : Z -> Z -> Z := fun a d =>
  ind (at_ sender din a d) (- sold) + ind (at_ rcpt dout a d) bought
  + ind (at_ pool din a d) sold + ind (at_ pool dout a d) (- bought).

Lemma swap_coins_spec s sender rcpt dsold asold dbought abought s' :
  swap_coins s sender rcpt dsold asold dbought abought = Ret s' ->
  exists n, lpt_of_denoms s dsold dbought = Ret n
    /\ moves s s' (sheet1 sender rcpt (pool_acct n) dsold dbought asold abought) zero1
    /\ same_reg s s' /\ 0 <= asold /\ 0 <= abought.
Proof.
  unfold swap_coins. intros H. do 2 mstep H.
  destruct (bsend_moves _ _ _ _ _ _ E0) as (X1 & M1 & R1).
  destruct (bsend_moves _ _ _ _ _ _ H) as (X2 & M2 & R2).
  exists v. split; [exact E|]. split; [|split; [eapply same_reg_trans; eassumption|lia]].
  eapply moves_ext; [exact (moves_trans _ _ _ _ _ _ _ M1 M2)| |].
  - intros a d. unfold sheet1. lia.
  - intros d. unfold zero1. lia.
Qed.

(** what a successful swap order did: one leg, or two legs through the standard coin *)
Inductive swap_effect (buy : bool) (s s' : state) (sender rcpt din dout sold bought : Z) : Prop :=
| SE_single (n : Z) :
    negb (din =? std) && negb (dout =? std) = false ->
    lpt_of_denoms s din dout = Ret n ->
    priced buy s n din dout sold bought ->
    moves s s' (sheet1 sender rcpt (pool_acct n) din dout sold bought) zero1 ->
    same_reg s s' ->
    swap_effect buy s s' sender rcpt din dout sold bought
| SE_double (n1 n2 : Z) (s1 : state) (mid : Z) :
    din <> std -> dout <> std ->
    lpt_of_denoms s din std = Ret n1 ->
    lpt_of_denoms s std dout = Ret n2 ->
    priced buy s n1 din std sold mid ->
    priced buy (if buy then s else s1) n2 std dout mid bought ->
    moves s s1 (sheet1 sender sender (pool_acct n1) din std sold mid) zero1 -> same_reg s s1 ->
    moves s1 s' (sheet1 sender rcpt (pool_acct n2) std dout mid bought) zero1 -> same_reg s1 s' ->
    swap_effect buy s s' sender rcpt din dout sold bought.

Lemma ret_inj {A} (a b : A) : Ret a = Ret b -> a = b.
Proof. intros H; inversion H; reflexivity. Qed.

Lemma trade_in_spec s sender rcpt din ain dout aout s' :
  negb (din =? std) && negb (dout =? std) = false ->
  trade_in s sender rcpt din ain dout aout = Ret s' ->
  exists bought, swap_effect false s s' sender rcpt din dout ain bought /\ aout <= bought.
Proof.
  intros Hd. unfold trade_in. intros H. do 2 mstep H. b2p G.
  destruct (calc_in_spec _ _ _ _ _ E) as (n & Hn & Hp).
  destruct (swap_coins_spec _ _ _ _ _ _ _ _ H) as (n' & Hn' & M & R & _).
  rewrite Hn in Hn'. apply ret_inj in Hn'. subst n'.
  exists v. split; [|exact G]. eapply SE_single; eassumption.
Qed.

Lemma trade_out_spec s sender rcpt din ain dout aout s' :
  negb (din =? std) && negb (dout =? std) = false ->
  trade_out s sender rcpt din ain dout aout = Ret s' ->
  exists sold, swap_effect true s s' sender rcpt din dout sold aout /\ sold <= ain.
Proof.
  intros Hd. unfold trade_out. intros H. do 2 mstep H. b2p G.
  destruct (calc_out_spec _ _ _ _ _ E) as (n & Hn & Hp).
  destruct (swap_coins_spec _ _ _ _ _ _ _ _ H) as (n' & Hn' & M & R & _).
  rewrite Hn in Hn'. apply ret_inj in Hn'. subst n'.
  exists v. split; [|exact G]. eapply SE_single; eassumption.
Qed.

Lemma dtrade_in_spec s sender rcpt din ain dout aout s' :
  din <> std -> dout <> std ->
  dtrade_in s sender rcpt din ain dout aout = Ret s' ->
  exists bought, swap_effect false s s' sender rcpt din dout ain bought /\ aout <= bought.
Proof.
  intros Hdi Hdo. unfold dtrade_in, leg1_rcpt. intros H. do 4 mstep H. b2p G.
  destruct (calc_in_spec _ _ _ _ _ E) as (n1 & Hn1 & Hp1).
  destruct (swap_coins_spec _ _ _ _ _ _ _ _ E0) as (n1' & Hn1' & M1 & R1 & _).
  rewrite Hn1 in Hn1'. apply ret_inj in Hn1'. subst n1'.
  destruct (calc_in_spec _ _ _ _ _ E1) as (n2 & Hn2 & Hp2).
  destruct (swap_coins_spec _ _ _ _ _ _ _ _ H) as (n2' & Hn2' & M2 & R2 & _).
  rewrite Hn2 in Hn2'. apply ret_inj in Hn2'. subst n2'.
  rewrite (lpt_of_denoms_reg s v0) in Hn2 by (apply R1).
  exists v1. split; [|exact G].
  eapply (SE_double false s s' sender rcpt din dout ain v1 n1 n2 v0 v); eassumption.
Qed.

Lemma dtrade_out_spec s sender rcpt din ain dout aout s' :
  din <> std -> dout <> std ->
  dtrade_out s sender rcpt din ain dout aout = Ret s' ->
  exists sold, swap_effect true s s' sender rcpt din dout sold aout /\ sold <= ain.
Proof.
  intros Hdi Hdo. unfold dtrade_out, leg1_rcpt. intros H. do 4 mstep H. b2p G.
  destruct (calc_out_spec _ _ _ _ _ E) as (n2 & Hn2 & Hp2).
  destruct (calc_out_spec _ _ _ _ _ E0) as (n1 & Hn1 & Hp1).
  destruct (swap_coins_spec _ _ _ _ _ _ _ _ E1) as (n1' & Hn1' & M1 & R1 & _).
  rewrite Hn1 in Hn1'. apply ret_inj in Hn1'. subst n1'.
  destruct (swap_coins_spec _ _ _ _ _ _ _ _ H) as (n2' & Hn2' & M2 & R2 & _).
  rewrite (lpt_of_denoms_reg s v1) in Hn2' by (apply R1).
  rewrite Hn2 in Hn2'. apply ret_inj in Hn2'. subst n2'.
  exists v0. split; [|exact G].
  eapply (SE_double true s s' sender rcpt din dout v0 aout n1 n2 v1 v); eassumption.
Qed.

Lemma exec_swap_spec s buy sender rcpt din ain dout aout deadline s' r :
  exec_swap s buy sender rcpt din ain dout aout deadline = Ret (s', r) ->
  r = [] /\ now s <= deadline /\ rcpt <> acct_feecol /\ 0 < ain /\ 0 < aout /\ din <> dout
  /\ exists sold bought, swap_effect buy s s' sender rcpt din dout sold bought
       /\ (if buy then bought = aout /\ sold <= ain else sold = ain /\ aout <= bought).
Proof.
  unfold exec_swap. intros H. do 4 mstep H. apply ret_inj in H. inversion H; subst v r; clear H.
  b2p G. b2p G0. unfold blocked in G1. b2p G1.
  destruct G as (((((((((A1 & A2) & A3) & A4) & A5) & A6) & A7) & A8) & A9) & A10).
  split; [reflexivity|]. split; [exact G0|]. split; [exact G1|]. split; [exact A1|]. split; [exact A5|].
  split; [exact A9|].
  destruct (negb (din =? std) && negb (dout =? std)) eqn:Hd.
  - assert (Hdd : din <> std /\ dout <> std) by (b2p Hd; exact Hd). destruct Hdd as [Hdi Hdo].
    destruct buy.
    + destruct (dtrade_out_spec _ _ _ _ _ _ _ _ Hdi Hdo E) as (sold & SE & B).
      exists sold, aout. split; [exact SE|]. split; [reflexivity|exact B].
    + destruct (dtrade_in_spec _ _ _ _ _ _ _ _ Hdi Hdo E) as (bought & SE & B).
      exists ain, bought. split; [exact SE|]. split; [reflexivity|exact B].
  - destruct buy.
    + destruct (trade_out_spec _ _ _ _ _ _ _ _ Hd E) as (sold & SE & B).
      exists sold, aout. split; [exact SE|]. split; [reflexivity|exact B].
    + destruct (trade_in_spec _ _ _ _ _ _ _ _ Hd E) as (bought & SE & B).
      exists ain, bought. split; [exact SE|]. split; [reflexivity|exact B].
Qed.

(** ** liquidity *)
Definition add_sheet (sender n dtok astd atok mint : Z) : Z -> Z -> Z := fun a d =>
  ind (at_ sender std a d) (- astd) + ind (at_ (pool_acct n) std a d) astd
  + ind (at_ sender dtok a d) (- atok) + ind (at_ (pool_acct n) dtok a d) atok
  + ind (at_ sender (lpt n) a d) mint.

Definition lpt_delta (n x : Z) : Z -> Z := fun d => ind (d =? lpt n) x.

Lemma add_liq_spec s sender n dtok astd atok mint s' r :
  add_liq s sender n dtok astd atok mint = Ret (s', r) ->
  r = [mint] /\ 0 <= astd /\ 0 <= atok /\ 0 <= mint
  /\ moves s s' (add_sheet sender n dtok astd atok mint) (lpt_delta n mint)
  /\ same_reg s s'.
Proof.
  unfold add_liq. intros H. do 3 mstep H. apply ret_inj in H. inversion H; subst v1 r; clear H.
  destruct (bsend_moves _ _ _ _ _ _ E) as (X1 & M1 & R1).
  destruct (bsend_moves _ _ _ _ _ _ E0) as (X2 & M2 & R2).
  destruct (mint_to_moves _ _ _ _ _ E1) as (X3 & M3 & R3).
  split; [reflexivity|]. split; [lia|]. split; [lia|]. split; [lia|].
  split; [|eapply same_reg_trans; [eapply same_reg_trans|]; eassumption].
  eapply moves_ext; [exact (moves_trans _ _ _ _ _ _ _ (moves_trans _ _ _ _ _ _ _ M1 M2) M3)| |].
  - intros a d. unfold add_sheet. lia.
  - intros d. unfold zero1, lpt_delta. lia.
Qed.

(** the creation fee: the creator pays [fee], [tax] of it reaches the fee collector, the rest is burned *)
Definition fee_sheet (creator cd fee tax : Z) : Z -> Z -> Z := fun a d =>
  ind (at_ creator cd a d) (- fee) + ind (at_ acct_feecol cd a d) tax.

Lemma ind_add b x y : ind b x + ind b y = ind b (x + y).
Proof. destruct b; simpl; lia. Qed.
Lemma ind_zero b : ind b 0 = 0.
Proof. destruct b; reflexivity. Qed.

Lemma deduct_fee_spec s creator s' : deduct_fee s creator = Ret s' ->
  exists tax, 0 <= tax <= p_camt (par s)
    /\ tax = dec_truncate_int (dec_mul (dec_of_int (p_camt (par s))) (p_tax (par s)))
    /\ moves s s' (fee_sheet creator (p_cdenom (par s)) (p_camt (par s)) tax)
                  (fun d => ind (d =? p_cdenom (par s)) (- (p_camt (par s) - tax)))
    /\ same_reg s s'.
Proof.
  unfold deduct_fee. intros H. do 2 mstep H.
  destruct (bsend_moves _ _ _ _ _ _ E) as (X1 & M1 & R1).
  destruct (bsend_moves _ _ _ _ _ _ E0) as (X2 & M2 & R2).
  destruct (burn_from_moves _ _ _ _ _ H) as (X3 & M3 & R3).
  eexists. split; [|split; [reflexivity|]].
  - lia.
  - split; [|eapply same_reg_trans; [eapply same_reg_trans|]; eassumption].
    eapply moves_ext; [exact (moves_trans _ _ _ _ _ _ _ (moves_trans _ _ _ _ _ _ _ M1 M2) M3)| |].
    + intros a d. unfold fee_sheet.
      set (tx := dec_truncate_int (dec_mul (dec_of_int (p_camt (par s))) (p_tax (par s)))).
      rewrite !ind_neg.
      assert (Z0 : ind (at_ acct_module (p_cdenom (par s)) a d) (p_camt (par s))
                   - ind (at_ acct_module (p_cdenom (par s)) a d) tx
                   - ind (at_ acct_module (p_cdenom (par s)) a d) (p_camt (par s) - tx) = 0).
      { destruct (at_ acct_module (p_cdenom (par s)) a d); simpl; lia. }
      lia.
    + intros d. unfold zero1. lia.
Qed.

Inductive add_effect (s s' : state) (sender dtok max_tok exact min_liq : Z) (mint : Z) : Prop :=
| AE_create (tax : Z) :
    pool_of s dtok = None ->
    0 <= tax <= p_camt (par s) ->
    tax = dec_truncate_int (dec_mul (dec_of_int (p_camt (par s))) (p_tax (par s))) ->
    mint = exact -> min_liq <= exact ->
    moves s s' (fun a d => fee_sheet sender (p_cdenom (par s)) (p_camt (par s)) tax a d
                           + add_sheet sender (seq s) dtok exact max_tok exact a d)
               (fun d => ind (d =? p_cdenom (par s)) (- (p_camt (par s) - tax)) + lpt_delta (seq s) exact d) ->
    pools s' = pools s ++ [(dtok, seq s)] -> seq s' = seq s + 1 ->
    add_effect s s' sender dtok max_tok exact min_liq mint
| AE_first (n : Z) :
    pool_of s dtok = Some n -> acct_empty (led s) (pool_acct n) = true ->
    mint = exact -> min_liq <= exact ->
    moves s s' (add_sheet sender n dtok exact max_tok exact) (lpt_delta n exact) ->
    same_reg s s' ->
    add_effect s s' sender dtok max_tok exact min_liq mint
| AE_more (n dep : Z) :
    pool_of s dtok = Some n -> acct_empty (led s) (pool_acct n) = false ->
    reserve_std s n <> 0 -> reserve_tok s dtok n <> 0 -> liquidity s n <> 0 ->
    mint = Z.quot (liquidity s n * exact) (reserve_std s n) ->
    dep = Z.quot (reserve_tok s dtok n * exact) (reserve_std s n) + 1 ->
    min_liq <= mint -> dep <= max_tok ->
    moves s s' (add_sheet sender n dtok exact dep mint) (lpt_delta n mint) ->
    same_reg s s' ->
    add_effect s s' sender dtok max_tok exact min_liq mint.

Lemma exec_add_spec s sender dtok max_tok exact min_liq deadline s' r :
  exec_add s sender dtok max_tok exact min_liq deadline = Ret (s', r) ->
  now s <= deadline /\ 0 < max_tok /\ 0 < exact /\ dtok <> std /\ is_lpt dtok = false
  /\ exists mint, r = [mint] /\ 0 <= mint /\ add_effect s s' sender dtok max_tok exact min_liq mint.
Proof.
  unfold exec_add. intros H. do 3 mstep H. b2p G. b2p G0. b2p G1.
  destruct G as ((((((A1 & A2) & A3) & A4) & A5) & A6) & A7).
  split; [exact G0|]. split; [exact A1|]. split; [exact A4|]. split; [exact G1|]. split; [exact A2|].
  destruct (pool_of s dtok) as [n|] eqn:Hp.
  - destruct (acct_empty (led s) (pool_acct n)) eqn:He.
    + mstep H. b2p G.
      destruct (add_liq_spec _ _ _ _ _ _ _ _ _ H) as (-> & X1 & X2 & X3 & M & R).
      exists exact. split; [reflexivity|]. split; [exact X3|].
      eapply AE_first; eauto.
    + mstep H. do 2 mstep H. mstep H. do 3 mstep H. mstep H. b2p G. b2p G2. b2p G3.
      destruct (add_liq_spec _ _ _ _ _ _ _ _ _ H) as (-> & X1 & X2 & X3 & M & R).
      eexists. split; [reflexivity|]. split; [exact X3|].
      eapply AE_more; eauto; unfold reserve_std, reserve_tok, liquidity; tauto.
  - do 2 mstep H. b2p G.
    destruct (deduct_fee_spec _ _ _ E) as (tax & T1 & T2 & M1 & R1).
    match type of H with add_liq ?st _ _ _ _ _ _ = _ => set (s2 := st) in * end.
    destruct (add_liq_spec _ _ _ _ _ _ _ _ _ H) as (-> & X1 & X2 & X3 & M2 & R2).
    exists exact. split; [reflexivity|]. split; [exact X3|].
    assert (M12 : moves v s2 zero2 zero1).
    { unfold s2, moves, frame, zero2, zero1, supply, nn; simpl. repeat split; intros; try lia. auto. }
    eapply AE_create with (tax := tax); eauto.
    + eapply moves_ext; [exact (moves_trans _ _ _ _ _ _ _ (moves_trans _ _ _ _ _ _ _ M1 M12) M2)| |].
      * intros a d. unfold zero2. lia.
      * intros d. unfold zero1. lia.
    + destruct R2 as [R2 _]. rewrite R2. unfold s2; simpl. destruct R1 as [R1 _]. rewrite R1. reflexivity.
    + destruct R2 as [_ R2]. rewrite R2. unfold s2; simpl. reflexivity.
Qed.

Definition remove_sheet (sender n cp w a_std a_tok : Z) : Z -> Z -> Z := fun a d =>
  ind (at_ sender (lpt n) a d) (- w)
  + ind (at_ (pool_acct n) std a d) (- a_std) + ind (at_ sender std a d) a_std
  + ind (at_ (pool_acct n) cp a d) (- a_tok) + ind (at_ sender cp a d) a_tok.

Lemma exec_remove_spec s sender dlpt w min_std min_tok deadline s' r :
  exec_remove s sender dlpt w min_std min_tok deadline = Ret (s', r) ->
  let n := dlpt - 1000 in
  exists cp a_std a_tok,
    cp_of s n = Some cp /\ now s <= deadline /\ 0 < w <= liquidity s n
    /\ a_std = Z.quot (w * reserve_std s n) (liquidity s n)
    /\ a_tok = Z.quot (w * reserve_tok s cp n) (liquidity s n)
    /\ min_std <= a_std /\ min_tok <= a_tok /\ 0 <= a_std /\ 0 <= a_tok
    /\ r = [a_std; a_tok]
    /\ moves s s' (remove_sheet sender n cp w a_std a_tok) (lpt_delta n (- w))
    /\ same_reg s s'.
Proof.
  intros H n. unfold exec_remove in H. fold n in H. do 3 mstep H. do 3 mstep H. do 4 mstep H. do 2 mstep H. do 3 mstep H.
  apply ret_inj in H. inversion H; subst v2 r; clear H.
  b2p G. b2p G0. b2p G1. b2p G2. b2p G3. b2p G4. b2p G5.
  destruct (burn_from_moves _ _ _ _ _ E0) as (X1 & M1 & R1).
  destruct (bsend_moves _ _ _ _ _ _ E1) as (X2 & M2 & R2).
  destruct (bsend_moves _ _ _ _ _ _ E2) as (X3 & M3 & R3).
  exists v. eexists. eexists. split; [exact E|]. split; [exact G0|].
  split; [unfold liquidity; fold n; lia|].
  split; [reflexivity|]. split; [reflexivity|].
  unfold reserve_std, reserve_tok, liquidity. fold n.
  split; [exact G4|]. split; [exact G5|]. split; [lia|]. split; [lia|]. split; [reflexivity|].
  split; [|eapply same_reg_trans; [eapply same_reg_trans|]; eassumption].
  eapply moves_ext; [exact (moves_trans _ _ _ _ _ _ _ (moves_trans _ _ _ _ _ _ _ M1 M2) M3)| |].
  - intros a d. unfold remove_sheet. fold n. lia.
  - intros d. unfold zero1, lpt_delta. fold n. lia.
Qed.

Definition uni_add_sheet (sender n dtok exact mint : Z) : Z -> Z -> Z := fun a d =>
  ind (at_ sender dtok a d) (- exact) + ind (at_ (pool_acct n) dtok a d) exact
  + ind (at_ sender (lpt n) a d) mint.

Lemma exec_add_uni_spec s sender cp dtok exact min_liq deadline s' r :
  exec_add_uni s sender cp dtok exact min_liq deadline = Ret (s', r) ->
  exists n mint,
    pool_of s cp = Some n /\ (dtok = cp \/ dtok = std) /\ now s <= deadline /\ 0 < exact
    /\ P18 * bal (led s) (pool_acct n) dtok <> 0
    /\ mint = Z.sqrt (Z.quot ((P18 * bal (led s) (pool_acct n) dtok + phi_u s * exact) * liquidity s n * liquidity s n)
                             (P18 * bal (led s) (pool_acct n) dtok)) - liquidity s n
    /\ min_liq <= mint /\ 0 <= mint /\ r = [mint]
    /\ moves s s' (uni_add_sheet sender n dtok exact mint) (lpt_delta n mint)
    /\ same_reg s s'.
Proof.
  unfold exec_add_uni. intros H. do 5 mstep H. do 5 mstep H. do 3 mstep H. do 2 mstep H.
  apply ret_inj in H. inversion H; subst v1 r; clear H.
  b2p G. b2p G0. b2p G1. b2p G3.
  destruct (bsend_moves _ _ _ _ _ _ E0) as (X1 & M1 & R1).
  destruct (mint_to_moves _ _ _ _ _ E1) as (X2 & M2 & R2).
  exists v. eexists. split; [exact E|]. split; [exact G1|]. split; [exact G0|].
  split; [tauto|]. split; [exact Q|]. split; [reflexivity|].
  unfold liquidity. split; [exact G3|]. split; [exact X2|]. split; [reflexivity|].
  split; [|eapply same_reg_trans; eassumption].
  eapply moves_ext; [exact (moves_trans _ _ _ _ _ _ _ M1 M2)| |].
  - intros a d. unfold uni_add_sheet. lia.
  - intros d. unfold zero1, lpt_delta. lia.
Qed.

Definition uni_remove_sheet (sender n dtok w target : Z) : Z -> Z -> Z := fun a d =>
  ind (at_ sender (lpt n) a d) (- w)
  + ind (at_ (pool_acct n) dtok a d) (- target) + ind (at_ sender dtok a d) target.

Lemma exec_remove_uni_spec s sender cp dtok min_tok w deadline s' r :
  exec_remove_uni s sender cp dtok min_tok w deadline = Ret (s', r) ->
  exists n target,
    pool_of s cp = Some n /\ (dtok = cp \/ dtok = std) /\ now s <= deadline
    /\ 0 <= w < liquidity s n
    /\ target = Z.quot ((liquidity s n + liquidity s n - w) * w * bal (led s) (pool_acct n) dtok * phi_u s)
                       (liquidity s n * liquidity s n * P18)
    /\ min_tok <= target /\ 0 < min_tok /\ r = [target]
    /\ moves s s' (uni_remove_sheet sender n dtok w target) (lpt_delta n (- w))
    /\ same_reg s s'.
Proof.
  unfold exec_remove_uni. intros H. do 4 mstep H. do 3 mstep H. do 8 mstep H. do 3 mstep H.
  apply ret_inj in H. inversion H; subst v1 r; clear H.
  b2p G. b2p G0. b2p G1. b2p G2. b2p G3. b2p G4. b2p G5.
  destruct (burn_from_moves _ _ _ _ _ E0) as (X1 & M1 & R1).
  destruct (bsend_moves _ _ _ _ _ _ E1) as (X2 & M2 & R2).
  exists v. eexists. split; [exact E|]. split; [exact G1|]. split; [exact G0|].
  unfold liquidity. split; [lia|]. split; [reflexivity|]. split; [exact G5|]. split; [tauto|].
  split; [reflexivity|].
  split; [|eapply same_reg_trans; eassumption].
  eapply moves_ext; [exact (moves_trans _ _ _ _ _ _ _ M1 M2)| |].
  - intros a d. unfold uni_remove_sheet. lia.
  - intros d. unfold zero1, lpt_delta. lia.
Qed.

Lemma exec_send_spec s from to d amt s' r : exec_send s from to d amt = Ret (s', r) ->
  r = [] /\ 0 < amt /\ to <> acct_feecol
  /\ moves s s' (fun a' d' => ind (at_ from d a' d') (- amt) + ind (at_ to d a' d') amt) zero1
  /\ same_reg s s'.
Proof.
  unfold exec_send. intros H. do 3 mstep H. apply ret_inj in H. inversion H; subst v r; clear H.
  b2p G. unfold blocked in G0. b2p G0.
  destruct (bsend_moves _ _ _ _ _ _ E) as (X1 & M1 & R1).
  split; [reflexivity|]. split; [tauto|]. split; [exact G0|]. split; assumption.
Qed.

(** ** MsgUpdateParams: only the authority, only valid parameters; nothing but the parameters changes *)
Lemma exec_update_params_spec s auth p s' r : exec_update_params s auth p = Ret (s', r) ->
  r = [] /\ auth = acct_gov /\ params_valid p = true
  /\ led s' = led s /\ sup s' = sup s /\ same_reg s s' /\ now s' = now s /\ par s' = p.
Proof.
  unfold exec_update_params. intros H. do 3 mstep H. apply ret_inj in H. inversion H; subst s' r; clear H.
  b2p G1. simpl. repeat split; auto.
Qed.

Lemma params_valid_range p : params_valid p = true ->
  0 < p_fee p < P18 /\ 0 <= p_cdenom p /\ 0 < p_camt p < 2 ^ 255 /\ 0 < p_tax p < P18 /\ 0 <= p_ufee p < P18.
Proof. unfold params_valid. intros H. b2p H. lia. Qed.
