(** * Coinswap: what a successful message does, as equations on the ledger and the supplies.

    Every lemma here has the shape [exec_xxx s args = Ret (s', r) -> ...]: it inverts the monadic
    definition of Model.v and states the effect pointwise ([moves]): for EVERY account and denom
    the new balance is the old one plus an explicit sum of indicator terms. *)
From Irismod Require Import Coinswap.Model Coinswap.Check Coinswap.ProofsArith.
From Coq Require Import Lia.

Local Open Scope Z_scope.

(** ** inversion of the result monad *)
Lemma bind_Ret {A B} (m : res A) (f : A -> res B) (b : B) :
  bind m f = Ret b -> exists a, m = Ret a /\ f a = Ret b.
Proof. destruct m as [a|o]; simpl; intros H; [exists a; auto|discriminate]. Qed.

Lemma guard_Ret (b : bool) (u : unit) : guard b = Ret u -> b = true.
Proof. destruct b; simpl; [reflexivity|discriminate]. Qed.

Lemma chk_Ret x y : chk x = Ret y -> y = x.
Proof. unfold chk. destruct (int_ok x); intros H; inversion H; reflexivity. Qed.

Lemma quo_Ret a b q : quo a b = Ret q -> b <> 0 /\ q = Z.quot a b.
Proof.
  unfold quo. destruct (Z.eqb_spec b 0) as [->|Hb]; intros H; inversion H. split; [exact Hb|reflexivity].
Qed.

Lemma lift_Ret {A} (o : option A) a : lift o = Ret a -> o = Some a.
Proof. destruct o; simpl; intros H; inversion H; reflexivity. Qed.

(** one step of inversion of [H : bind m f = Ret _] *)
Ltac mstep H :=
  lazymatch type of H with
  | bind (guard _) _ = Ret _ =>
      let G := fresh "G" in let u := fresh "u" in
      apply bind_Ret in H; destruct H as (u & G & H); apply guard_Ret in G; cbv beta in H
  | bind (chk _) _ = Ret _ =>
      let v := fresh "v" in let E := fresh "E" in
      apply bind_Ret in H; destruct H as (v & E & H); apply chk_Ret in E; subst v; cbv beta in H
  | bind (quo _ _) _ = Ret _ =>
      let v := fresh "v" in let E := fresh "E" in let Q := fresh "Q" in
      apply bind_Ret in H; destruct H as (v & E & H); apply quo_Ret in E; destruct E as (Q & E);
      subst v; cbv beta in H
  | bind (lift _) _ = Ret _ =>
      let v := fresh "v" in let E := fresh "E" in
      apply bind_Ret in H; destruct H as (v & E & H); apply lift_Ret in E; cbv beta in H
  | bind _ _ = Ret _ =>
      let v := fresh "v" in let E := fresh "E" in
      apply bind_Ret in H; destruct H as (v & E & H); cbv beta in H
  end.

Ltac b2p H :=
  repeat rewrite ?andb_true_iff, ?orb_true_iff, ?negb_true_iff, ?orb_false_iff, ?andb_false_iff,
         ?negb_false_iff, ?Z.ltb_lt, ?Z.leb_le, ?Z.eqb_eq, ?Z.eqb_neq, ?Z.ltb_ge, ?Z.leb_gt in H.

(** ** indicator sums *)
Lemma ind_neg b x : ind b (- x) = - ind b x.
Proof. destruct b; simpl; lia. Qed.

Lemma at_true a d a' d' : at_ a d a' d' = true <-> a = a' /\ d = d'.
Proof. unfold at_. rewrite andb_true_iff, !Z.eqb_eq. tauto. Qed.

Lemma ind_at_same a d x : ind (at_ a d a d) x = x.
Proof. unfold ind, at_. rewrite !Z.eqb_refl. reflexivity. Qed.

Lemma ind_at_diff a d a' d' x : (a, d) <> (a', d') -> ind (at_ a d a' d') x = 0.
Proof.
  intros Hne. unfold ind. destruct (at_ a d a' d') eqn:E; [|reflexivity].
  apply at_true in E. destruct E; subst. congruence.
Qed.

Ltac npair :=
  let Hc := fresh "Hc" in
  intros Hc; inversion Hc; subst;
  try congruence; try lia;
  match goal with N : _ <> _ |- _ => solve [apply N; reflexivity] end.

(** ** the effect of a step on ledger and supplies *)
Definition frame (s s' : state) : Prop := now s' = now s /\ par s' = par s.
Definition same_reg (s s' : state) : Prop := pools s' = pools s /\ seq s' = seq s.

Definition moves (s s' : state) (f : Z -> Z -> Z) (g : Z -> Z) : Prop :=
  (forall a d, bal (led s') a d = bal (led s) a d + f a d)
  /\ (forall d, supply s' d = supply s d + g d)
  /\ frame s s'.

Definition zero2 : Z -> Z -> Z := fun _ _ => 0.
Definition zero1 : Z -> Z := fun _ => 0.

Lemma moves_refl s : moves s s zero2 zero1.
Proof. unfold moves, frame, zero2, zero1. repeat split; intros; lia. Qed.

Lemma moves_trans s s1 s2 f1 g1 f2 g2 :
  moves s s1 f1 g1 -> moves s1 s2 f2 g2 ->
  moves s s2 (fun a d => f1 a d + f2 a d) (fun d => g1 d + g2 d).
Proof.
  intros (L1 & S1 & N1 & P1) (L2 & S2 & N2 & P2). split; [|split; [|split]].
  - intros a d. rewrite L2, L1. lia.
  - intros d. rewrite S2, S1. lia.
  - congruence.
  - congruence.
Qed.

Lemma moves_ext s s' f g f' g' :
  moves s s' f g -> (forall a d, f a d = f' a d) -> (forall d, g d = g' d) -> moves s s' f' g'.
Proof.
  intros (L & S & F) Hf Hg. split; [|split; [|exact F]].
  - intros a d. rewrite L, Hf. reflexivity.
  - intros d. rewrite S, Hg. reflexivity.
Qed.

(** ** bank primitives *)
Lemma bsend_moves s from to d x s' : bsend s from to d x = Ret s' ->
  0 <= x <= bal (led s) from d
  /\ moves s s' (fun a' d' => ind (at_ from d a' d') (- x) + ind (at_ to d a' d') x) zero1
  /\ same_reg s s'.
Proof.
  unfold bsend. intros H. mstep H. inversion H; subst s'; clear H.
  destruct (send_Some _ _ _ _ _ _ E) as (Hx & Hne & Heq & Hoth).
  split; [exact Hx|]. split; [|split; reflexivity].
  split; [|split; [intros; unfold zero1; simpl; unfold supply; simpl; lia|split; reflexivity]].
  intros a' d'. simpl.
  destruct (eq_dec (a', d') (from, d)) as [E1|N1]; destruct (eq_dec (a', d') (to, d)) as [E2|N2].
  - inversion E1; inversion E2; subst. rewrite !ind_at_same. rewrite Heq by reflexivity. lia.
  - inversion E1; subst. rewrite ind_at_same, ind_at_diff by npair.
    assert (H : from <> to) by (intros ->; exact (N2 eq_refl)). destruct (Hne H) as [-> _]. lia.
  - inversion E2; subst. rewrite ind_at_same, ind_at_diff by npair.
    assert (H : from <> to) by (intros ->; exact (N1 eq_refl)). destruct (Hne H) as [_ ->]. lia.
  - rewrite !ind_at_diff by npair. rewrite Hoth by assumption. lia.
Qed.

Lemma supply_with_sup s d x d' : supply (with_sup s d x) d' = if d' =? d then x else supply s d'.
Proof.
  unfold supply, with_sup. simpl. destruct (Z.eqb_spec d' d) as [->|Hne].
  - rewrite get_set_same. reflexivity.
  - rewrite get_set_other by exact Hne. reflexivity.
Qed.

Lemma mint_to_moves s a d x s' : mint_to s a d x = Ret s' ->
  0 <= x
  /\ moves s s' (fun a' d' => ind (at_ a d a' d') x) (fun d' => ind (d' =? d) x)
  /\ same_reg s s'.
Proof.
  unfold mint_to. destruct (Z.ltb_spec x 0) as [Hlt|Hge]; intros H; inversion H; subst s'; clear H.
  split; [exact Hge|]. split; [|split; reflexivity].
  split; [|split; [|split; reflexivity]].
  - intros a' d'. simpl.
    destruct (eq_dec (a', d') (a, d)) as [E1|N1].
    + inversion E1; subst. rewrite ind_at_same, bal_credit_same. reflexivity.
    + rewrite ind_at_diff by npair. rewrite bal_credit_other by exact N1. lia.
  - intros d'. rewrite supply_with_sup. unfold ind. destruct (d' =? d) eqn:E.
    + apply Z.eqb_eq in E. subst. unfold supply. simpl. reflexivity.
    + unfold supply. simpl. lia.
Qed.

Lemma burn_from_moves s a d x s' : burn_from s a d x = Ret s' ->
  0 <= x <= bal (led s) a d
  /\ moves s s' (fun a' d' => ind (at_ a d a' d') (- x)) (fun d' => ind (d' =? d) (- x))
  /\ same_reg s s'.
Proof.
  unfold burn_from. intros H. mstep H. inversion H; subst s'; clear H.
  destruct (debit_Some _ _ _ _ _ E) as (Hx & Hsame & Hoth).
  split; [exact Hx|]. split; [|split; reflexivity].
  split; [|split; [|split; reflexivity]].
  - intros a' d'. simpl.
    destruct (eq_dec (a', d') (a, d)) as [E1|N1].
    + inversion E1; subst. rewrite ind_at_same, Hsame. lia.
    + rewrite ind_at_diff by npair. rewrite Hoth by exact N1. lia.
  - intros d'. rewrite supply_with_sup. unfold ind. destruct (d' =? d) eqn:E1.
    + apply Z.eqb_eq in E1. subst. unfold supply. simpl. lia.
    + unfold supply. simpl. lia.
Qed.
