(** * Coinswap: the checker, fed the MODEL's own observations in the driver's encoding, answers (-1,-1,0).

    The driver prints, per step, the outcome code, the response, every ledger entry of the observed
    universe whose value changed (as a signed difference), every supply that changed, the registry
    and the parameters.  [encode_obs] is that encoding computed from the model ([U] = the observed
    (account, denom) keys in the driver's fixed order, [D] = the observed denoms).  [next_world]
    (Check.v) rebuilds the observed world from those differences; here it is proved to rebuild a world
    that shows exactly the model's next state, and the whole checker is proved to answer
    (-1, -1, 0) for both properties on every encoded model history. *)
From Irismod Require Import Coinswap.Model Coinswap.Check Coinswap.ProofsArith Coinswap.ProofsSpec
  Coinswap.Proofs Coinswap.ProofsValue Coinswap.ProofsSound.
From Coq Require Import Lia.

Local Open Scope Z_scope.

(** ** the encoder (mirrors harness/cmd/coinswap/main.go [exec]) *)
Definition enc_led (U : list (Z * Z)) (l l' : ledger) : list ((Z * Z) * Z) :=
  map (fun k : Z * Z => (k, bal l' (fst k) (snd k) - bal l (fst k) (snd k)))
      (filter (fun k : Z * Z => negb (bal l' (fst k) (snd k) =? bal l (fst k) (snd k))) U).

Definition enc_sup (D : list Z) (sp sp' : amap Z Z) : list (Z * Z) :=
  map (fun d : Z => (d, supv sp' d - supv sp d))
      (filter (fun d : Z => negb (supv sp' d =? supv sp d)) D).

Definition encode_obs (U : list (Z * Z)) (D : list Z) (s : state) (m : msg) : obs :=
  let s' := step s m in
  mkObs (code_of s m) (resp_of s m) (enc_led U (led s) (led s')) (enc_sup D (sup s) (sup s')) (pools s') (par s').

Fixpoint encode_steps (U : list (Z * Z)) (D : list Z) (s : state) (ms : list msg) : list (msg * obs) :=
  match ms with
  | [] => []
  | m :: ms' => (m, encode_obs U D s m) :: encode_steps U D (step s m) ms'
  end.

(** every entry that a step changes is observed *)
Definition step_covered (U : list (Z * Z)) (D : list Z) (s : state) (m : msg) : Prop :=
  (forall a d, bal (led (step s m)) a d <> bal (led s) a d -> In (a, d) U)
  /\ (forall d, supply (step s m) d <> supply s d -> In d D).

Fixpoint covered (U : list (Z * Z)) (D : list Z) (s : state) (ms : list msg) : Prop :=
  match ms with
  | [] => True
  | m :: ms' => step_covered U D s m /\ covered U D (step s m) ms'
  end.

(** ** [delta_led] / [delta_sup] add the differences *)
Lemma bal_set_same (l : ledger) a d x : bal (set (a, d) x l) a d = x.
Proof. unfold bal. rewrite get_set_same. reflexivity. Qed.

Lemma bal_set_other (l : ledger) a d x a' d' : (a', d') <> (a, d) -> bal (set (a, d) x l) a' d' = bal l a' d'.
Proof. intros H. unfold bal. rewrite get_set_other by exact H. reflexivity. Qed.

Fixpoint dsum (ch : list ((Z * Z) * Z)) (a d : Z) : Z :=
  match ch with
  | [] => 0
  | (k, v) :: ch' => (if (fst k =? a) && (snd k =? d) then v else 0) + dsum ch' a d
  end.

Lemma bal_delta_led ch : forall (l : ledger) a d, bal (delta_led l ch) a d = bal l a d + dsum ch a d.
Proof.
  unfold delta_led. induction ch as [|[[a0 d0] v] ch IH]; intros l a d; simpl; [lia|].
  rewrite IH. destruct (Z.eqb_spec a0 a) as [->|Ha]; [destruct (Z.eqb_spec d0 d) as [->|Hd]|]; simpl.
  - rewrite bal_set_same. lia.
  - rewrite bal_set_other; [lia|]. intros Hc; inversion Hc; congruence.
  - rewrite bal_set_other; [lia|]. intros Hc; inversion Hc; congruence.
Qed.

Lemma dsum_enc_notin U (l l' : ledger) a d : ~ In (a, d) U -> dsum (enc_led U l l') a d = 0.
Proof.
  unfold enc_led. induction U as [|[a0 d0] U IH]; simpl; intros Hn; [reflexivity|].
  assert (Hne : (a0 =? a) && (d0 =? d) = false).
  { destruct (Z.eqb_spec a0 a) as [->|]; [|reflexivity]. destruct (Z.eqb_spec d0 d) as [->|]; [|reflexivity].
    exfalso. apply Hn. left. reflexivity. }
  destruct (negb (bal l' a0 d0 =? bal l a0 d0)); simpl; [rewrite Hne|]; rewrite IH by tauto; reflexivity.
Qed.

Lemma dsum_enc_in U (l l' : ledger) a d : NoDup U -> In (a, d) U ->
  dsum (enc_led U l l') a d = bal l' a d - bal l a d.
Proof.
  unfold enc_led. induction U as [|[a0 d0] U IH]; simpl; intros Hnd Hin; [tauto|].
  inversion Hnd as [|? ? Hnot Hnd']; subst.
  destruct Hin as [Heq|Hin].
  - inversion Heq; subst. pose proof (dsum_enc_notin U l l' a d Hnot) as Hz. unfold enc_led in Hz.
    destruct (Z.eqb_spec (bal l' a d) (bal l a d)) as [E|E]; simpl.
    + rewrite Hz. lia.
    + rewrite !Z.eqb_refl. simpl. rewrite Hz. lia.
  - assert (Hne : (a0 =? a) && (d0 =? d) = false).
    { destruct (Z.eqb_spec a0 a) as [->|]; [|reflexivity]. destruct (Z.eqb_spec d0 d) as [->|]; [|reflexivity].
      exfalso. apply Hnot. exact Hin. }
    destruct (negb (bal l' a0 d0 =? bal l a0 d0)); simpl; [rewrite Hne|]; rewrite IH by assumption; lia.
Qed.

Lemma supv_set_same (sp : amap Z Z) d x : supv (set d x sp) d = x.
Proof. unfold supv. rewrite get_set_same. reflexivity. Qed.
Lemma supv_set_other (sp : amap Z Z) d x d' : d' <> d -> supv (set d x sp) d' = supv sp d'.
Proof. intros H. unfold supv. rewrite get_set_other by exact H. reflexivity. Qed.

Fixpoint ssum (ch : list (Z * Z)) (d : Z) : Z :=
  match ch with [] => 0 | (k, v) :: ch' => (if k =? d then v else 0) + ssum ch' d end.

Lemma supv_delta_sup ch : forall (sp : amap Z Z) d, supv (delta_sup sp ch) d = supv sp d + ssum ch d.
Proof.
  unfold delta_sup. induction ch as [|[d0 v] ch IH]; intros sp d; simpl; [lia|].
  rewrite IH. destruct (Z.eqb_spec d0 d) as [->|Hd].
  - rewrite supv_set_same. lia.
  - rewrite supv_set_other by congruence. lia.
Qed.

Lemma ssum_enc_notin D (sp sp' : amap Z Z) d : ~ In d D -> ssum (enc_sup D sp sp') d = 0.
Proof.
  unfold enc_sup. induction D as [|d0 D IH]; simpl; intros Hn; [reflexivity|].
  assert (Hne : (d0 =? d) = false) by (apply Z.eqb_neq; intros ->; apply Hn; left; reflexivity).
  destruct (negb (supv sp' d0 =? supv sp d0)); simpl; [rewrite Hne|]; rewrite IH by tauto; reflexivity.
Qed.

Lemma ssum_enc_in D (sp sp' : amap Z Z) d : NoDup D -> In d D ->
  ssum (enc_sup D sp sp') d = supv sp' d - supv sp d.
Proof.
  unfold enc_sup. induction D as [|d0 D IH]; simpl; intros Hnd Hin; [tauto|].
  inversion Hnd as [|? ? Hnot Hnd']; subst.
  destruct Hin as [->|Hin].
  - pose proof (ssum_enc_notin D sp sp' d Hnot) as Hz. unfold enc_sup in Hz.
    destruct (Z.eqb_spec (supv sp' d) (supv sp d)) as [E|E]; simpl.
    + rewrite Hz, E. ring.
    + rewrite Z.eqb_refl. rewrite Hz. ring.
  - assert (Hne : (d0 =? d) = false) by (apply Z.eqb_neq; intros ->; apply Hnot; exact Hin).
    destruct (negb (supv sp' d0 =? supv sp d0)); simpl; [rewrite Hne|]; rewrite IH by assumption; ring.
Qed.

(** ** the block time *)
Lemma step_now s m : now (step s m) = match m with MBlock dt => now s + dt | _ => now s end.
Proof.
  unfold step. destruct (exec s m) as [[s' r]|o] eqn:E.
  - destruct m; simpl in E.
    + destruct (exec_swap_spec _ _ _ _ _ _ _ _ _ _ _ E) as (_ & _ & _ & _ & _ & _ & sold & bought & SE & _).
      destruct SE as [n _ _ _ M _ | n1 n2 s1 mid _ _ _ _ _ _ M1 _ M2 _].
      * apply M.
      * destruct M1 as (_ & _ & (N1 & _) & _). destruct M2 as (_ & _ & (N2 & _) & _). congruence.
    + destruct (exec_add_spec _ _ _ _ _ _ _ _ _ E) as (_ & _ & _ & _ & _ & mint & _ & _ & AE).
      destruct AE as [tax Hp _ _ _ _ M Hps _ | n Hp _ _ _ M R | n dep Hp _ _ _ _ _ _ _ _ M R]; apply M.
    + destruct (exec_remove_spec _ _ _ _ _ _ _ _ _ E) as (cp & a1 & a2 & _ & _ & _ & _ & _ & _ & _ & _ & _ & _ & M & _). apply M.
    + destruct (exec_add_uni_spec _ _ _ _ _ _ _ _ _ E) as (n & mint & _ & _ & _ & _ & _ & _ & _ & _ & _ & M & _). apply M.
    + destruct (exec_remove_uni_spec _ _ _ _ _ _ _ _ _ E) as (n & target & _ & _ & _ & _ & _ & _ & _ & _ & M & _). apply M.
    + destruct (exec_send_spec _ _ _ _ _ _ _ E) as (_ & _ & _ & M & _). apply M.
    + inversion E; subst. reflexivity.
    + destruct (exec_update_params_spec _ _ _ _ _ E) as (_ & _ & _ & _ & _ & _ & N & _). exact N.
  - destruct m; try reflexivity. simpl in E. discriminate.
Qed.

(** ** [next_world] on the encoding rebuilds the model's next state *)
Lemma next_world_sim U D s m w :
  NoDup U -> NoDup D -> step_covered U D s m -> wsim w s ->
  wsim (next_world w m (encode_obs U D s m)) (step s m).
Proof.
  intros HU HD (CL & CS) Hw. unfold next_world, encode_obs. cbn [o_led o_sup o_pools o_par].
  constructor; cbn [w_led w_sup w_pools w_now w_par].
  - intros a d. rewrite bal_delta_led, (ws_led _ _ Hw).
    destruct (in_dec eq_dec (a, d) U) as [Hin|Hn].
    + rewrite (dsum_enc_in U _ _ a d HU Hin). lia.
    + rewrite (dsum_enc_notin U _ _ a d Hn).
      destruct (Z.eq_dec (bal (led (step s m)) a d) (bal (led s) a d)) as [E|E]; [lia|].
      exfalso. apply Hn. apply CL. exact E.
  - intros d. rewrite supv_delta_sup, (ws_sup _ _ Hw).
    destruct (in_dec Z.eq_dec d D) as [Hin|Hn].
    + rewrite (ssum_enc_in D _ _ d HD Hin). rewrite !supv_supply. lia.
    + rewrite (ssum_enc_notin D _ _ d Hn).
      destruct (Z.eq_dec (supply (step s m) d) (supply s d)) as [E|E]; [lia|].
      exfalso. apply Hn. apply CS. exact E.
  - reflexivity.
  - rewrite (ws_now _ _ Hw), step_now. destruct m; reflexivity.
  - reflexivity.
Qed.

(** ** correspondence holds between the model and a world that shows it *)
Lemma zlist_eqb_refl l : zlist_eqb l l = true.
Proof. induction l as [|x l IH]; simpl; [reflexivity|]. rewrite Z.eqb_refl, IH. reflexivity. Qed.

Lemma corr_step_sim s m o w' :
  wsim w' (step s m) -> o_code o = code_of s m -> o_resp o = resp_of s m ->
  corr_step s (step s m) m o w' = true.
Proof.
  intros Hw' Hc Hr. unfold corr_step. rewrite Hc, Hr, Z.eqb_refl, zlist_eqb_refl.
  rewrite (ws_pools _ _ Hw'), pools_eqb_refl, (ws_now _ _ Hw'), Z.eqb_refl, (ws_par _ _ Hw'), par_eqb_refl.
  assert (HL : led_eqb (led (step s m)) (w_led w') = true).
  { unfold led_eqb. apply forallb_forall. intros [a d] _. cbn [fst snd]. apply Z.eqb_eq. symmetry. apply (ws_led _ _ Hw'). }
  assert (HS : sup_eqb (sup (step s m)) (w_sup w') = true).
  { unfold sup_eqb. apply forallb_forall. intros d _. apply Z.eqb_eq. symmetry. apply (ws_sup _ _ Hw'). }
  rewrite HL, HS. reflexivity.
Qed.

(** ** the checker on an encoded model history *)
Lemma acc_same (a : acc) i :
  mkAcc (if (a_corr a <? 0) && negb true then i else a_corr a)
        (if (a_p1 a <? 0) && negb (0 =? 0) then i else a_p1 a)
        (if (a_p1 a <? 0) && negb (0 =? 0) then 0 else a_c1 a)
        (if (a_p2 a <? 0) && negb (0 =? 0) then i else a_p2 a)
        (if (a_p2 a <? 0) && negb (0 =? 0) then 0 else a_c2 a) = a.
Proof. destruct a; simpl. rewrite !andb_false_r. reflexivity. Qed.

Lemma check_from_model U D ms : forall s w i a,
  NoDup U -> NoDup D -> covered U D s ms ->
  wsim w s -> Inv s -> Forall msg_ok ms -> p_cdenom (par s) <= 1000 ->
  check_from s w (encode_steps U D s ms) i a = a.
Proof.
  induction ms as [|m ms IH]; intros s w i a HU HD Hcov Hw I Hok Hcd; simpl; [reflexivity|].
  destruct Hcov as (Hc1 & Hcov). inversion Hok as [|? ? Hm Hms]; subst. pose proof Hm as (Hsg & _).
  pose proof (next_world_sim U D s m w HU HD Hc1 Hw) as Hw'.
  set (o := encode_obs U D s m) in *. set (w' := next_world w m o) in *.
  assert (Hcorr : corr_step s (step s m) m o w' = true) by (apply corr_step_sim; [exact Hw'|reflexivity|reflexivity]).
  assert (Hk : c01_step (w_par w) m o w w' = 0 /\ c02_step (w_par w) m o w w' = 0).
  { rewrite (ws_par _ _ Hw). destruct (exec s m) as [[s' r]|f] eqn:E.
    - assert (Ho : o_code o = 0) by (unfold o, encode_obs, code_of; simpl; rewrite E; reflexivity).
      pose proof Hw' as Hw2. rewrite (step_Ret _ _ _ _ E) in Hw2.
      split.
      + exact (c01_step_sim_ok s m s' r o w w' Hw Hw2 I (signer_sender_ok _ Hsg) E Ho).
      + exact (c02_step_sim_ok s m s' r o w w' Hw Hw2 I Hsg Hcd E Ho).
    - assert (Ho : o_code o <> 0).
      { intros Hz. destruct (code_zero_Ret s m Hz) as (s' & r & E'). congruence. }
      pose proof Hw' as Hw2. rewrite (failed_step_changes_nothing _ _ _ E) in Hw2.
      split.
      + exact (c01_step_sim_fail s m f o w w' Hw Hw2 I (signer_sender_ok _ Hsg) E Ho).
      + exact (c02_step_sim_fail s m f o w w' Hw Hw2 E Ho). }
  destruct Hk as (Hk1 & Hk2). rewrite Hcorr, Hk1, Hk2. rewrite acc_same.
  apply IH; auto.
  - apply Inv_step. exact I.
  - apply msg_ok_cdenom; assumption.
Qed.

(** the genesis state and world of a case are the same ledger *)
Definition case_of (p : params) (start : Z) (gl : list ((Z * Z) * Z)) (gs : list (Z * Z)) (steps : list (msg * obs)) : case :=
  mkCase p start gl gs steps.

Theorem model_passes_check_lemma p start gl gs U D ms :
  let s0 := init_state (case_of p start gl gs []) in
  let c := case_of p start gl gs (encode_steps U D s0 ms) in
  NoDup U -> NoDup D -> covered U D s0 ms ->
  Inv s0 -> Forall msg_ok ms -> p_cdenom p <= 1000 ->
  check_case_C01 c = (-1, -1, 0) /\ check_case_C02 c = (-1, -1, 0).
Proof.
  intros s0 c HU HD Hcov I Hok Hcd.
  assert (Hall : check_all c = mkAcc (-1) (-1) 0 (-1) 0).
  { unfold check_all. change (c_steps c) with (encode_steps U D s0 ms).
    change (init_state c) with s0.
    apply check_from_model; auto.
    constructor; reflexivity. }
  unfold check_case_C01, check_case_C02. rewrite Hall. split; reflexivity.
Qed.

Lemma model_passes_check_C01 p start gl gs U D ms :
  let s0 := init_state (case_of p start gl gs []) in
  NoDup U -> NoDup D -> covered U D s0 ms ->
  Inv s0 -> Forall msg_ok ms -> p_cdenom p <= 1000 ->
  check_case_C01 (case_of p start gl gs (encode_steps U D s0 ms)) = (-1, -1, 0).
Proof. intros s0 HU HD Hc I Hok Hcd. exact (proj1 (model_passes_check_lemma p start gl gs U D ms HU HD Hc I Hok Hcd)). Qed.

Lemma model_passes_check_C02 p start gl gs U D ms :
  let s0 := init_state (case_of p start gl gs []) in
  NoDup U -> NoDup D -> covered U D s0 ms ->
  Inv s0 -> Forall msg_ok ms -> p_cdenom p <= 1000 ->
  check_case_C02 (case_of p start gl gs (encode_steps U D s0 ms)) = (-1, -1, 0).
Proof. intros s0 HU HD Hc I Hok Hcd. exact (proj2 (model_passes_check_lemma p start gl gs U D ms HU HD Hc I Hok Hcd)). Qed.

(** ** a decidable sufficient condition for [covered] (for the examples) *)
Definition memk (k : Z * Z) (U : list (Z * Z)) : bool :=
  existsb (fun q : Z * Z => (fst q =? fst k) && (snd q =? snd k)) U.

Definition step_covered_b (U : list (Z * Z)) (D : list Z) (s : state) (m : msg) : bool :=
  let s' := step s m in
  forallb (fun k : Z * Z => (bal (led s') (fst k) (snd k) =? bal (led s) (fst k) (snd k)) || memk k U)
          (keys (led s) ++ keys (led s'))
  && forallb (fun d : Z => (supply s' d =? supply s d) || existsb (Z.eqb d) D) (keys (sup s) ++ keys (sup s')).

Fixpoint covered_b (U : list (Z * Z)) (D : list Z) (s : state) (ms : list msg) : bool :=
  match ms with [] => true | m :: ms' => step_covered_b U D s m && covered_b U D (step s m) ms' end.

Lemma bal_nonzero_key (l : ledger) a d : bal l a d <> 0 -> In (a, d) (keys l).
Proof.
  unfold bal. intros H.
  match type of H with match ?g with _ => _ end <> 0 => destruct g as [x|] eqn:E end; [|congruence].
  apply get_In in E. unfold keys. apply in_map_iff. exists ((a, d), x). split; [reflexivity|exact E].
Qed.

Lemma supv_nonzero_key (sp : amap Z Z) d : supv sp d <> 0 -> In d (keys sp).
Proof.
  unfold supv. intros H.
  match type of H with match ?g with _ => _ end <> 0 => destruct g as [x|] eqn:E end; [|congruence].
  apply get_In in E. unfold keys. apply in_map_iff. exists (d, x). split; [reflexivity|exact E].
Qed.

Lemma memk_In k U : memk k U = true -> In k U.
Proof.
  unfold memk. intros H. apply existsb_exists in H. destruct H as ([a d] & Hin & Hq). destruct k as [a' d'].
  simpl in Hq. apply andb_true_iff in Hq. destruct Hq as (A & B). apply Z.eqb_eq in A. apply Z.eqb_eq in B. subst. exact Hin.
Qed.

Lemma step_covered_b_sound U D s m : step_covered_b U D s m = true -> step_covered U D s m.
Proof.
  unfold step_covered_b. cbv zeta. intros H. apply andb_true_iff in H. destruct H as (HL & HS).
  rewrite forallb_forall in HL. rewrite forallb_forall in HS. split.
  - intros a d Hne.
    assert (Hk : In (a, d) (keys (led s) ++ keys (led (step s m)))).
    { apply in_or_app.
      destruct (Z.eq_dec (bal (led s) a d) 0) as [E0|E0].
      - right. apply bal_nonzero_key. congruence.
      - left. apply bal_nonzero_key. exact E0. }
    specialize (HL _ Hk). cbn [fst snd] in HL. apply orb_true_iff in HL. destruct HL as [HL|HL].
    + apply Z.eqb_eq in HL. contradiction.
    + apply memk_In. exact HL.
  - intros d Hne.
    assert (Hk : In d (keys (sup s) ++ keys (sup (step s m)))).
    { apply in_or_app.
      destruct (Z.eq_dec (supply s d) 0) as [E0|E0].
      - right. apply supv_nonzero_key. rewrite supv_supply. congruence.
      - left. apply supv_nonzero_key. rewrite supv_supply. exact E0. }
    specialize (HS _ Hk). apply orb_true_iff in HS. destruct HS as [HS|HS].
    + apply Z.eqb_eq in HS. contradiction.
    + apply existsb_exists in HS. destruct HS as (d' & Hin & Hq). apply Z.eqb_eq in Hq. subst. exact Hin.
Qed.

Lemma covered_b_sound U D ms : forall s, covered_b U D s ms = true -> covered U D s ms.
Proof.
  induction ms as [|m ms IH]; intros s H; simpl in *; [exact Logic.I|].
  apply andb_true_iff in H. destruct H as (H1 & H2). split; [apply step_covered_b_sound; exact H1|apply IH; exact H2].
Qed.
