(** * Coinswap ⟷ Params (C16): the two link theorems, kept OUT of Props/C01.v and Props/C02.v.

    They depend on another group's model ([Params/Model.v]); nothing else of the coinswap development
    depends on this file or on [Coinswap/LinkParams.v], and neither is an obligation of the C01 / C02
    checks (they are built by the whole-project [make]).  A change of the foreign model can therefore
    break at most these two statements. *)
From Irismod Require Import Coinswap.Model Coinswap.ProofsSpec Coinswap.LinkParams.
From Irismod Require Params.Model.

Local Open Scope Z_scope.

(** link to the C16 model of group params, [Params/Model.v]:

    what a successful [MsgUpdateParams] stores is accepted by the C16 model's [validate_cs] (read with
    every field present and a valid creation-fee denom class [dc]) and keeps the fee ranges [Inv]
    needs; together with [transfer]-free [exec_update_params] this is why every history theorem of C01 /
    C02 holds across parameter changes *)
Theorem stored_params_are_validated :
  forall (s : state) (auth : Z) (p : params) (s' : state) (r : list Z) (dc : Z),
    Params.Model.denom_valid dc = true ->
    exec_update_params s auth p = Ret (s', r) ->
    Params.Model.validate_cs (to_cs (par s') dc) = Ok
    /\ 0 <= p_fee (par s') < P18 /\ 0 <= p_ufee (par s') <= P18.
Proof. exact update_params_validated. Qed.
Print Assumptions stored_params_are_validated.

(** conversely: a parameter set the C16 validator accepts (valid denom index, creation fee within the
    255 bits of the fix "coinswap Params.Validate rejects a pool creation fee amount of more than
    255 bits") is one [MsgUpdateParams] accepts *)
Theorem validated_params_are_accepted :
  forall (p : params) (dc : Z),
    0 <= p_cdenom p -> p_camt p < 2 ^ 255 ->
    Params.Model.validate_cs (to_cs p dc) = Ok -> params_valid p = true.
Proof. exact validate_cs_params_valid. Qed.
Print Assumptions validated_params_are_accepted.

Example valid_denom_class : Params.Model.denom_valid 1 = true.
Proof. reflexivity. Qed.
