(** * Coinswap: correspondence check and the C01 / C02 trace predicates, evaluated by
    [vm_compute] on the cases the harness writes.

    A case carries the module parameters, the genesis ledger and supplies of the observed
    universe, and per step the message and what the implementation showed afterwards: outcome
    kind, response amounts, every ledger entry and supply whose value changed (as signed
    differences; the harness reads the whole universe after every step), and the pool registry.
    The trace predicates look only at the messages and at the implementation's observations. *)
From Irismod Require Export Coinswap.Model.

Record obs := mkObs {
  o_code : Z;                        (* 0 ok, 1 rejected, 2 abort *)
  o_resp : list Z;                   (* amounts in the message response *)
  o_led : list ((Z * Z) * Z);        (* (account, denom) |-> change of the balance, for every entry that changed *)
  o_sup : list (Z * Z);              (* denom |-> change of the supply, for every supply that changed *)
  o_pools : list (Z * Z);            (* registry afterwards: (counterparty denom, n of lpt-n) *)
  o_par : params                     (* module parameters afterwards (query Params) *)
}.

Record case := mkCase {
  c_par : params;
  c_start : Z;                       (* time of the first block *)
  c_led : list ((Z * Z) * Z);        (* genesis balances of the universe *)
  c_sup : list (Z * Z);              (* genesis supplies *)
  c_steps : list (msg * obs)
}.

(** the observed world *)
Record world := mkWorld { w_led : ledger; w_sup : amap Z Z; w_pools : list (Z * Z); w_now : Z; w_par : params }.

Definition par_eqb (p q : params) : bool :=
  (p_fee p =? p_fee q) && (p_ufee p =? p_ufee q) && (p_tax p =? p_tax q)
  && (p_cdenom p =? p_cdenom q) && (p_camt p =? p_camt q).

Definition supv (sp : amap Z Z) (d : Z) : Z := match get d sp with Some x => x | None => 0 end.
Definition apply_led (l : ledger) (ch : list ((Z * Z) * Z)) : ledger := fold_left (fun l e => set (fst e) (snd e) l) ch l.
Definition apply_sup (sp : amap Z Z) (ch : list (Z * Z)) : amap Z Z := fold_left (fun l e => set (fst e) (snd e) l) ch sp.
Definition delta_led (l : ledger) (ch : list ((Z * Z) * Z)) : ledger :=
  fold_left (fun l e => set (fst e) (bal l (fst (fst e)) (snd (fst e)) + snd e) l) ch l.
Definition delta_sup (sp : amap Z Z) (ch : list (Z * Z)) : amap Z Z :=
  fold_left (fun l e => set (fst e) (supv l (fst e) + snd e) l) ch sp.

Definition led_eqb (l1 l2 : ledger) : bool :=
  forallb (fun k : Z * Z => bal l1 (fst k) (snd k) =? bal l2 (fst k) (snd k)) (keys l1 ++ keys l2).
Definition sup_eqb (s1 s2 : amap Z Z) : bool :=
  forallb (fun d => supv s1 d =? supv s2 d) (keys s1 ++ keys s2).
Definition pair_in (p : Z * Z) (l : list (Z * Z)) : bool := existsb (fun q => eqb p q) l.
Definition pools_eqb (p1 p2 : list (Z * Z)) : bool :=
  (Z.of_nat (length p1) =? Z.of_nat (length p2)) && forallb (fun p => pair_in p p2) p1 && forallb (fun p => pair_in p p1) p2.
Fixpoint zlist_eqb (a b : list Z) : bool :=
  match a, b with
  | [], [] => true
  | x :: a', y :: b' => (x =? y) && zlist_eqb a' b'
  | _, _ => false
  end.

(** ** correspondence of one step *)
Definition corr_step (s s' : state) (m : msg) (o : obs) (w' : world) : bool :=
  (o_code o =? code_of s m)
  && zlist_eqb (o_resp o) (resp_of s m)
  && led_eqb (led s') (w_led w')
  && sup_eqb (sup s') (w_sup w')
  && pools_eqb (pools s') (w_pools w')
  && (now s' =? w_now w')
  && par_eqb (par s') (w_par w').

(** ** C01 on the observations *)
Definition view (w : world) (cp n : Z) : Z * Z * Z :=
  (bal (w_led w) (pool_acct n) std, bal (w_led w) (pool_acct n) cp, supv (w_sup w) (lpt n)).

(** S*T/L^2 did not fall (cross-multiplied), whenever L is positive before and after *)
Definition value_leb (v v' : Z * Z * Z) : bool :=
  let '(rs, rt, lq) := v in let '(rs', rt', lq') := v' in
  if (0 <? lq) && (0 <? lq') then rs * rt * (lq' * lq') <=? rs' * rt' * (lq * lq) else true.

(** the constant-product rule with the fee on the input side *)
Definition rule (ph x y paid recv : Z) : bool := x * P18 * y <=? (x * P18 + paid * ph) * (y - recv).

Definition pool_lookup (ps : list (Z * Z)) (cp : Z) : option Z := get cp ps.

(** one observed swap leg on pool [n]: [din] went in, [dout] came out.  0 = fine, else the clause *)
Definition leg_code (ph : Z) (buy : bool) (w w' : world) (n din dout : Z) : Z :=
  let x := bal (w_led w) (pool_acct n) din in
  let y := bal (w_led w) (pool_acct n) dout in
  let paid := bal (w_led w') (pool_acct n) din - x in
  let recv := y - bal (w_led w') (pool_acct n) dout in
  if negb (rule ph x y paid recv) then 2
  else if buy then (if (2 <=? paid) && rule ph x y (paid - 2) recv then 4 else 0)
  else (if rule ph x y paid (recv + 1) then 3 else 0).

(** the pools a swap order trades on, by the observed registry *)
Definition leg_pools (ps : list (Z * Z)) (din dout : Z) : list Z :=
  if din =? std then match pool_lookup ps dout with Some n => [n] | None => [] end
  else if dout =? std then match pool_lookup ps din with Some n => [n] | None => [] end
  else match pool_lookup ps din, pool_lookup ps dout with Some n1, Some n2 => [n1; n2] | _, _ => [] end.

(** the recipient is the escrow address of a pool the order itself trades on: the observed reserve
    change is then not the leg's (the coins bought come straight back); only the value clause applies *)
Definition rcpt_is_leg_pool (ps : list (Z * Z)) (rcpt din dout : Z) : bool :=
  existsb (fun n => rcpt =? pool_acct n) (leg_pools ps din dout).

Definition first_nz (l : list Z) : Z := match filter (fun c => negb (c =? 0)) l with [] => 0 | c :: _ => c end.

Definition c01_step (p : params) (m : msg) (o : obs) (w w' : world) : Z :=
  let ph := P18 - p_fee p in
  let mono := forallb (fun e : Z * Z => value_leb (view w (fst e) (snd e)) (view w' (fst e) (snd e))) (w_pools w) in
  if negb mono then 1
  else match m with
  | MSwap buy sender rcpt din ain dout aout _ =>
      if negb (o_code o =? 0) || rcpt_is_leg_pool (w_pools w) rcpt din dout then 0
      else if din =? std then
        match pool_lookup (w_pools w) dout with Some n => leg_code ph buy w w' n din dout | None => 2 end
      else if dout =? std then
        match pool_lookup (w_pools w) din with Some n => leg_code ph buy w w' n din dout | None => 2 end
      else
        match pool_lookup (w_pools w) din, pool_lookup (w_pools w) dout with
        | Some n1, Some n2 => first_nz [leg_code ph buy w w' n1 din std; leg_code ph buy w w' n2 std dout]
        | _, _ => 2
        end
  | _ => 0
  end.

(** ** C02 on the observations *)
Definition ind (b : bool) (x : Z) : Z := if b then x else 0.
Definition at_ (a d a' d' : Z) : bool := (a =? a') && (d =? d').

Definition delta_ok (l l' : ledger) (exp : Z -> Z -> Z) : bool :=
  forallb (fun k : Z * Z => bal l' (fst k) (snd k) - bal l (fst k) (snd k) =? exp (fst k) (snd k)) (keys l ++ keys l').
Definition sdelta_ok (sp sp' : amap Z Z) (exp : Z -> Z) : bool :=
  forallb (fun d => supv sp' d - supv sp d =? exp d) (keys sp ++ keys sp').

(** ledger, supplies and registry as before (the parameters are looked at separately) *)
Definition unchanged (w w' : world) : bool :=
  delta_ok (w_led w) (w_led w') (fun _ _ => 0) && sdelta_ok (w_sup w) (w_sup w') (fun _ => 0)
  && pools_eqb (w_pools w) (w_pools w').

(** clause codes: 1 a failed message changed something; 2 swap balance sheet; 3 swap bound or
    deadline; 4 liquidity balance sheet; 5 liquidity bound or deadline; 6 supply frame;
    7 registry; 8 plain transfer / block; 9 parameters (changed by anything but a valid
    MsgUpdateParams of the authority, or not set to what that message says) *)
Definition code_if (b : bool) (c : Z) : Z := if b then 0 else c.

Definition c02_swap (buy : bool) (a r din ain dout aout deadline : Z) (w w' : world) : Z :=
  let l := w_led w in let l' := w_led w' in
  let sold := bal l a din - bal l' a din in
  let bought := bal l' r dout - bal l r dout in
  let base a' d' := ind (at_ a din a' d') (- sold) + ind (at_ r dout a' d') bought in
  let sheet :=
    if din =? std then
      match pool_lookup (w_pools w) dout with
      | Some n => delta_ok l l' (fun a' d' => base a' d' + ind (at_ (pool_acct n) din a' d') sold
                                               + ind (at_ (pool_acct n) dout a' d') (- bought))
      | None => false
      end
    else if dout =? std then
      match pool_lookup (w_pools w) din with
      | Some n => delta_ok l l' (fun a' d' => base a' d' + ind (at_ (pool_acct n) din a' d') sold
                                               + ind (at_ (pool_acct n) dout a' d') (- bought))
      | None => false
      end
    else
      match pool_lookup (w_pools w) din, pool_lookup (w_pools w) dout with
      | Some n1, Some n2 =>
          let mid := bal l (pool_acct n1) std - bal l' (pool_acct n1) std in
          (0 <? mid) &&
          delta_ok l l' (fun a' d' => base a' d' + ind (at_ (pool_acct n1) din a' d') sold
                                       + ind (at_ (pool_acct n1) std a' d') (- mid)
                                       + ind (at_ (pool_acct n2) std a' d') mid
                                       + ind (at_ (pool_acct n2) dout a' d') (- bought))
      | _, _ => false
      end in
  if negb ((0 <? sold) && (0 <? bought) && sheet) then 2
  else if negb ((if buy then (bought =? aout) && (sold <=? ain) else (sold =? ain) && (aout <=? bought))
                && (w_now w <=? deadline)) then 3
  else if negb (sdelta_ok (w_sup w) (w_sup w') (fun _ => 0)) then 6
  else code_if (pools_eqb (w_pools w) (w_pools w')) 7.

Definition c02_add (p : params) (a dtok max_tok exact min_liq deadline : Z) (w w' : world) : Z :=
  let l := w_led w in let l' := w_led w' in
  match pool_lookup (w_pools w') dtok with
  | None => 7
  | Some n =>
      let created := match pool_lookup (w_pools w) dtok with None => true | Some _ => false end in
      let cden := p_cdenom p in
      let fee := ind created (p_camt p) in
      let tax := ind created (bal l' acct_feecol cden - bal l acct_feecol cden) in
      let minted := supv (w_sup w') (lpt n) - supv (w_sup w) (lpt n) in
      let dep := bal l' (pool_acct n) dtok - bal l (pool_acct n) dtok in
      let sheet := delta_ok l l' (fun a' d' =>
          ind (at_ a std a' d') (- exact) + ind (at_ a dtok a' d') (- dep) + ind (at_ a cden a' d') (- fee)
          + ind (at_ a (lpt n) a' d') minted
          + ind (at_ (pool_acct n) std a' d') exact + ind (at_ (pool_acct n) dtok a' d') dep
          + ind (at_ acct_feecol cden a' d') tax) in
      if negb (sheet && (0 <=? tax) && (tax <=? fee) && (0 <=? minted)) then 4
      else if negb ((0 <? dep) && (dep <=? max_tok) && (min_liq <=? minted) && (w_now w <=? deadline)) then 5
      else if negb (sdelta_ok (w_sup w) (w_sup w') (fun d' => ind (d' =? lpt n) minted + ind (d' =? cden) (- (fee - tax)))) then 6
      else code_if (if created then pools_eqb (w_pools w') (w_pools w ++ [(dtok, n)]) else pools_eqb (w_pools w) (w_pools w')) 7
  end.

Definition c02_remove (a dlpt wd min_std min_tok deadline : Z) (w w' : world) : Z :=
  let l := w_led w in let l' := w_led w' in
  let n := dlpt - 1000 in
  match cp_of_list (w_pools w) n with
  | None => 7
  | Some cp =>
      let s_out := bal l (pool_acct n) std - bal l' (pool_acct n) std in
      let t_out := bal l (pool_acct n) cp - bal l' (pool_acct n) cp in
      let sheet := delta_ok l l' (fun a' d' =>
          ind (at_ a (lpt n) a' d') (- wd) + ind (at_ a std a' d') s_out + ind (at_ a cp a' d') t_out
          + ind (at_ (pool_acct n) std a' d') (- s_out) + ind (at_ (pool_acct n) cp a' d') (- t_out)) in
      if negb (sheet && (0 <=? s_out) && (0 <=? t_out)) then 4
      else if negb ((min_std <=? s_out) && (min_tok <=? t_out) && (w_now w <=? deadline)) then 5
      else if negb (sdelta_ok (w_sup w) (w_sup w') (fun d' => ind (d' =? lpt n) (- wd))) then 6
      else code_if (pools_eqb (w_pools w) (w_pools w')) 7
  end.

Definition c02_add_uni (a cp dtok exact min_liq deadline : Z) (w w' : world) : Z :=
  let l := w_led w in let l' := w_led w' in
  match pool_lookup (w_pools w) cp with
  | None => 7
  | Some n =>
      let minted := supv (w_sup w') (lpt n) - supv (w_sup w) (lpt n) in
      let sheet := delta_ok l l' (fun a' d' =>
          ind (at_ a dtok a' d') (- exact) + ind (at_ (pool_acct n) dtok a' d') exact
          + ind (at_ a (lpt n) a' d') minted) in
      if negb (sheet && (0 <=? minted) && ((dtok =? cp) || (dtok =? std))) then 4
      else if negb ((min_liq <=? minted) && (w_now w <=? deadline)) then 5
      else if negb (sdelta_ok (w_sup w) (w_sup w') (fun d' => ind (d' =? lpt n) minted)) then 6
      else code_if (pools_eqb (w_pools w) (w_pools w')) 7
  end.

Definition c02_remove_uni (a cp dtok min_tok exact_liq deadline : Z) (w w' : world) : Z :=
  let l := w_led w in let l' := w_led w' in
  match pool_lookup (w_pools w) cp with
  | None => 7
  | Some n =>
      let t_out := bal l (pool_acct n) dtok - bal l' (pool_acct n) dtok in
      let sheet := delta_ok l l' (fun a' d' =>
          ind (at_ a (lpt n) a' d') (- exact_liq) + ind (at_ a dtok a' d') t_out
          + ind (at_ (pool_acct n) dtok a' d') (- t_out)) in
      if negb (sheet && (0 <=? t_out) && ((dtok =? cp) || (dtok =? std))) then 4
      else if negb ((min_tok <=? t_out) && (w_now w <=? deadline)) then 5
      else if negb (sdelta_ok (w_sup w) (w_sup w') (fun d' => ind (d' =? lpt n) (- exact_liq))) then 6
      else code_if (pools_eqb (w_pools w) (w_pools w')) 7
  end.

Definition c02_main (p : params) (m : msg) (o : obs) (w w' : world) : Z :=
  if negb (o_code o =? 0) then code_if (unchanged w w') 1
  else match m with
  | MSwap buy a r din ain dout aout deadline =>
      if rcpt_is_leg_pool (w_pools w) r din dout then 0 else c02_swap buy a r din ain dout aout deadline w w'
  | MAdd a dtok max_tok exact min_liq deadline => c02_add p a dtok max_tok exact min_liq deadline w w'
  | MRemove a dlpt wd min_std min_tok deadline => c02_remove a dlpt wd min_std min_tok deadline w w'
  | MAddUni a cp dtok exact min_liq deadline => c02_add_uni a cp dtok exact min_liq deadline w w'
  | MRemoveUni a cp dtok min_tok exact_liq deadline => c02_remove_uni a cp dtok min_tok exact_liq deadline w w'
  | MSend from to d amt =>
      code_if (delta_ok (w_led w) (w_led w') (fun a' d' => ind (at_ from d a' d') (- amt) + ind (at_ to d a' d') amt)
               && sdelta_ok (w_sup w) (w_sup w') (fun _ => 0) && pools_eqb (w_pools w) (w_pools w')) 8
  | MBlock _ => code_if (unchanged w w') 8
  | MUpdateParams auth q => code_if (unchanged w w' && (auth =? acct_gov) && params_valid q) 9
  end.

(** the parameters afterwards: what a successful MsgUpdateParams says, otherwise what they were *)
Definition par_expected (m : msg) (o : obs) (w : world) : params :=
  match m with
  | MUpdateParams _ q => if o_code o =? 0 then q else w_par w
  | _ => w_par w
  end.

Definition c02_step (p : params) (m : msg) (o : obs) (w w' : world) : Z :=
  let c := c02_main p m o w w' in
  if negb (c =? 0) then c else code_if (par_eqb (w_par w') (par_expected m o w)) 9.

(** ** folding over a case *)
Record acc := mkAcc { a_corr : Z; a_p1 : Z; a_c1 : Z; a_p2 : Z; a_c2 : Z }.

Definition next_world (w : world) (m : msg) (o : obs) : world :=
  mkWorld (delta_led (w_led w) (o_led o)) (delta_sup (w_sup w) (o_sup o)) (o_pools o)
          (match m with MBlock dt => w_now w + dt | _ => w_now w end) (o_par o).

(** the parameters in force at a step are the ones OBSERVED before it ([w_par w]) *)
Fixpoint check_from (s : state) (w : world) (steps : list (msg * obs)) (i : Z) (a : acc) : acc :=
  match steps with
  | [] => a
  | (m, o) :: rest =>
      let s' := step s m in
      let w' := next_world w m o in
      let corr' := if (a_corr a <? 0) && negb (corr_step s s' m o w') then i else a_corr a in
      let k1 := c01_step (w_par w) m o w w' in
      let k2 := c02_step (w_par w) m o w w' in
      let a' := mkAcc corr'
                  (if (a_p1 a <? 0) && negb (k1 =? 0) then i else a_p1 a)
                  (if (a_p1 a <? 0) && negb (k1 =? 0) then k1 else a_c1 a)
                  (if (a_p2 a <? 0) && negb (k2 =? 0) then i else a_p2 a)
                  (if (a_p2 a <? 0) && negb (k2 =? 0) then k2 else a_c2 a) in
      check_from s' w' rest (i + 1) a'
  end.

Definition init_state (c : case) : state :=
  mkState (apply_led [] (c_led c)) (apply_sup [] (c_sup c)) [] 1 (c_start c) (c_par c).
Definition init_world (c : case) : world :=
  mkWorld (apply_led [] (c_led c)) (apply_sup [] (c_sup c)) [] (c_start c) (c_par c).

Definition check_all (c : case) : acc :=
  check_from (init_state c) (init_world c) (c_steps c) 0 (mkAcc (-1) (-1) 0 (-1) 0).

(** (first diverging step or -1, first step violating the property or -1, violated clause) *)
Definition check_case_C01 (c : case) : Z * Z * Z := let a := check_all c in (a_corr a, a_p1 a, a_c1 a).
Definition check_case_C02 (c : case) : Z * Z * Z := let a := check_all c in (a_corr a, a_p2 a, a_c2 a).

(** ** the two pricing kernels as pure functions (stream [kernels]) *)
Record kcase := mkK {
  k_out : bool;            (* false: GetInputPrice, true: GetOutputPrice *)
  k_amt : Z; k_x : Z; k_y : Z; k_fee : Z;
  k_res : option Z         (* what the Go function returned; None = it panicked *)
}.

(** correspondence: same value / same panic.  Property (only where the code's own guards hold:
    positive reserves, and for an exact output [amt < y]): the rule, and maximal output /
    near-minimal input. *)
Definition check_kernel (k : kcase) : Z * Z * Z :=
  let ph := P18 - k_fee k in
  let m := if k_out k then output_price (k_amt k) (k_x k) (k_y k) ph else input_price (k_amt k) (k_x k) (k_y k) ph in
  let corr := match m, k_res k with
              | Ret v, Some v' => if v =? v' then -1 else 0
              | Fail Abort, None => -1
              | _, _ => 0
              end in
  let guards := (0 <? k_x k) && (0 <? k_y k) && (0 <=? k_amt k) && (if k_out k then k_amt k <? k_y k else true) in
  match k_res k with
  | Some v =>
      if negb guards then (corr, -1, 0)
      else if k_out k then
        if negb (rule ph (k_x k) (k_y k) v (k_amt k)) then (corr, 0, 2)
        else if (2 <=? v) && rule ph (k_x k) (k_y k) (v - 2) (k_amt k) then (corr, 0, 4)
        else (corr, -1, 0)
      else
        if negb (rule ph (k_x k) (k_y k) (k_amt k) v) then (corr, 0, 2)
        else if rule ph (k_x k) (k_y k) (k_amt k) (v + 1) then (corr, 0, 3)
        else (corr, -1, 0)
  | None => (corr, -1, 0)
  end.
