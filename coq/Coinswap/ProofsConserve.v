(** * Coinswap: the ledger and the supplies move together over whole histories.

    For any duplicate-free set [A] of accounts that contains the signers and recipients of the
    messages, the fee collector and the escrow addresses of all pools (existing or created on the
    way), the total held by [A] in a denom minus that denom's supply is the same after any history:
    every message only moves coins inside [A], except that it mints / burns exactly what it adds to /
    removes from the supply. *)
From Irismod Require Import Coinswap.Model Coinswap.Check Coinswap.ProofsArith Coinswap.ProofsSpec
  Coinswap.Proofs Coinswap.ProofsValue.
From Coq Require Import Lia.

Local Open Scope Z_scope.

Fixpoint sumA (A : list Z) (f : Z -> Z) : Z :=
  match A with [] => 0 | a :: A' => f a + sumA A' f end.

Definition total (A : list Z) (l : ledger) (d : Z) : Z := sumA A (fun a => bal l a d).

Lemma sumA_add A f g : sumA A (fun a => f a + g a) = sumA A f + sumA A g.
Proof. induction A as [|a A IH]; simpl; [reflexivity|]. rewrite IH. lia. Qed.

Lemma sumA_ext A f g : (forall a, f a = g a) -> sumA A f = sumA A g.
Proof. intros H. induction A as [|a A IH]; simpl; [reflexivity|]. rewrite IH, H. reflexivity. Qed.

Lemma sumA_ind_notin A x dx d v : ~ In x A -> sumA A (fun a => ind (at_ x dx a d) v) = 0.
Proof.
  induction A as [|a A IH]; simpl; intros Hn; [reflexivity|].
  rewrite IH by tauto. rewrite ind_at_ne_a; [reflexivity|]. intros ->. apply Hn. left; reflexivity.
Qed.

Lemma sumA_ind A x dx d v : NoDup A -> In x A -> sumA A (fun a => ind (at_ x dx a d) v) = ind (dx =? d) v.
Proof.
  induction A as [|a A IH]; simpl; intros Hnd Hin; [tauto|].
  inversion Hnd as [|? ? Hnot Hnd']; subst.
  destruct (Z.eq_dec a x) as [->|Hne].
  - rewrite sumA_ind_notin by exact Hnot. unfold ind at 1, at_. rewrite Z.eqb_refl. simpl. unfold ind. lia.
  - destruct Hin as [Hin|Hin]; [congruence|]. rewrite IH by assumption.
    rewrite ind_at_ne_a by congruence. lia.
Qed.

(** a sheet is balanced against a supply change on [A] *)
Definition balanced (A : list Z) (f : Z -> Z -> Z) (g : Z -> Z) : Prop :=
  forall d, sumA A (fun a => f a d) = g d.

Lemma moves_total A s s' f g :
  moves s s' f g -> balanced A f g ->
  forall d, total A (led s') d - supply s' d = total A (led s) d - supply s d.
Proof.
  intros (ML & MS & _) B d. unfold total.
  rewrite (sumA_ext A (fun a => bal (led s') a d) (fun a => bal (led s) a d + f a d)) by (intros; apply ML).
  rewrite sumA_add, MS, B. lia.
Qed.

Ltac bal_sheet :=
  intros d; repeat rewrite sumA_add; repeat rewrite sumA_ind by assumption; rewrite ?ind_neg;
  unfold zero1, lpt_delta; try lia.

Lemma balanced_sheet1 A sender rcpt pool din dout sold bought :
  NoDup A -> In sender A -> In rcpt A -> In pool A ->
  balanced A (sheet1 sender rcpt pool din dout sold bought) zero1.
Proof. intros Hnd H1 H2 H3. unfold balanced, sheet1. bal_sheet. Qed.

Lemma balanced_add_sheet A sender n dtok astd atok mint :
  NoDup A -> In sender A -> In (pool_acct n) A ->
  balanced A (add_sheet sender n dtok astd atok mint) (lpt_delta n mint).
Proof.
  intros Hnd H1 H2. unfold balanced, add_sheet. bal_sheet.
  rewrite (Z.eqb_sym (lpt n) d). lia.
Qed.

Lemma balanced_fee_sheet A creator cd fee tax :
  NoDup A -> In creator A -> In acct_feecol A ->
  balanced A (fee_sheet creator cd fee tax) (fun d => ind (d =? cd) (- (fee - tax))).
Proof.
  intros Hnd H1 H2. unfold balanced, fee_sheet. bal_sheet.
  rewrite (Z.eqb_sym d cd). unfold ind. destruct (cd =? d); lia.
Qed.

Lemma balanced_remove_sheet A sender n cp w a1 a2 :
  NoDup A -> In sender A -> In (pool_acct n) A ->
  balanced A (remove_sheet sender n cp w a1 a2) (lpt_delta n (- w)).
Proof.
  intros Hnd H1 H2. unfold balanced, remove_sheet. bal_sheet.
  rewrite (Z.eqb_sym (lpt n) d). rewrite ?ind_neg. lia.
Qed.

Lemma balanced_uni_add_sheet A sender n dtok exact mint :
  NoDup A -> In sender A -> In (pool_acct n) A ->
  balanced A (uni_add_sheet sender n dtok exact mint) (lpt_delta n mint).
Proof.
  intros Hnd H1 H2. unfold balanced, uni_add_sheet. bal_sheet.
  rewrite (Z.eqb_sym (lpt n) d). lia.
Qed.

Lemma balanced_uni_remove_sheet A sender n dtok w target :
  NoDup A -> In sender A -> In (pool_acct n) A ->
  balanced A (uni_remove_sheet sender n dtok w target) (lpt_delta n (- w)).
Proof.
  intros Hnd H1 H2. unfold balanced, uni_remove_sheet. bal_sheet.
  rewrite (Z.eqb_sym (lpt n) d). rewrite ?ind_neg. lia.
Qed.

Lemma balanced_plus A f1 g1 f2 g2 :
  balanced A f1 g1 -> balanced A f2 g2 -> balanced A (fun a d => f1 a d + f2 a d) (fun d => g1 d + g2 d).
Proof. intros B1 B2 d. rewrite sumA_add, B1, B2. reflexivity. Qed.

(** the accounts a message names *)
Definition parties (m : msg) : list Z :=
  match m with
  | MSwap _ a r _ _ _ _ _ => [a; r]
  | MAdd a _ _ _ _ _ | MRemove a _ _ _ _ _ | MAddUni a _ _ _ _ _ | MRemoveUni a _ _ _ _ _ => [a]
  | MSend a b _ _ => [a; b]
  | MBlock _ => []
  | MUpdateParams _ _ => []
  end.

(** [A] contains the parties of [m], the fee collector, and the escrow address of every pool
    numbered up to and including the next sequence *)
Definition closed (A : list Z) (s : state) (m : msg) : Prop :=
  incl (parties m) A /\ In acct_feecol A /\ forall n, 1 <= n <= seq s -> In (pool_acct n) A.

Lemma step_conserves_lemma A s m :
  Inv s -> NoDup A -> closed A s m ->
  forall d, total A (led (step s m)) d - supply (step s m) d = total A (led s) d - supply s d.
Proof.
  intros I Hnd (Hpar & Hfc & Hpools).
  unfold step. destruct (exec s m) as [[s' r]|o] eqn:E; [|reflexivity].
  assert (Hpool : forall cp n, In (cp, n) (pools s) -> In (pool_acct n) A).
  { intros cp n Hin. destruct (inv_rng _ I _ _ Hin). apply Hpools. lia. }
  pose proof (inv_seq _ I) as Hseq.
  destruct m as [buy sender rcpt din ain dout aout deadline | sender dtok max_tok exact min_liq deadline
                | sender dlpt w min_std min_tok deadline | sender cp0 dtok exact min_liq deadline
                | sender cp0 dtok min_tok w deadline | from to d0 amt | dt | auth q]; simpl in E, Hpar.
  - assert (Hs : In sender A) by (apply Hpar; simpl; auto).
    assert (Hr : In rcpt A) by (apply Hpar; simpl; auto).
    destruct (exec_swap_spec _ _ _ _ _ _ _ _ _ _ _ E) as (_ & _ & _ & _ & _ & _ & sold & bought & SE & _).
    destruct SE as [n0 Hd Hn Hp M R | n1 n2 s1 mid Hdi Hdo Hn1 Hn2 Hp1 Hp2 M1 R1 M2 R2].
    + destruct (lpt_of_denoms_inv _ _ _ _ Hn) as (_ & [(_ & Hpo)|(_ & _ & Hpo)]); apply pool_of_In in Hpo;
        apply (moves_total A _ _ _ _ M); apply balanced_sheet1; eauto.
    + destruct (lpt_of_denoms_inv _ _ _ _ Hn1) as (_ & [(Hx & _)|(_ & _ & Hpo1)]); [congruence|].
      destruct (lpt_of_denoms_inv _ _ _ _ Hn2) as (_ & [(_ & Hpo2)|(Hx & _)]); [|congruence].
      apply pool_of_In in Hpo1. apply pool_of_In in Hpo2.
      apply (moves_total A _ _ _ _ (moves_trans _ _ _ _ _ _ _ M1 M2)).
      apply (balanced_plus A _ zero1 _ zero1); apply balanced_sheet1; eauto.
  - assert (Hs : In sender A) by (apply Hpar; simpl; auto).
    destruct (exec_add_spec _ _ _ _ _ _ _ _ _ E) as (_ & _ & _ & _ & _ & mint & _ & _ & AE).
    destruct AE as [tax Hp _ _ _ _ M _ _ | n0 Hp _ _ _ M R | n0 dep Hp _ _ _ _ _ _ _ _ M R].
    + apply (moves_total A _ _ _ _ M).
      apply (balanced_plus A (fee_sheet _ _ _ _) _ (add_sheet _ _ _ _ _ _) (lpt_delta _ _)).
      * apply balanced_fee_sheet; assumption.
      * apply balanced_add_sheet; try assumption. apply Hpools. lia.
    + apply pool_of_In in Hp. apply (moves_total A _ _ _ _ M). apply balanced_add_sheet; eauto.
    + apply pool_of_In in Hp. apply (moves_total A _ _ _ _ M). apply balanced_add_sheet; eauto.
  - assert (Hs : In sender A) by (apply Hpar; simpl; auto).
    pose proof (exec_remove_spec _ _ _ _ _ _ _ _ _ E) as X. cbv zeta in X.
    destruct X as (cp & a1 & a2 & Hc & _ & _ & _ & _ & _ & _ & _ & _ & _ & M & R).
    apply cp_of_list_In in Hc. fold (pools s) in Hc.
    apply (moves_total A _ _ _ _ M). apply balanced_remove_sheet; eauto.
  - assert (Hs : In sender A) by (apply Hpar; simpl; auto).
    destruct (exec_add_uni_spec _ _ _ _ _ _ _ _ _ E) as (n0 & mint & Hp & _ & _ & _ & _ & _ & _ & _ & _ & M & R).
    apply pool_of_In in Hp. apply (moves_total A _ _ _ _ M). apply balanced_uni_add_sheet; eauto.
  - assert (Hs : In sender A) by (apply Hpar; simpl; auto).
    destruct (exec_remove_uni_spec _ _ _ _ _ _ _ _ _ E) as (n0 & target & Hp & _ & _ & _ & _ & _ & _ & _ & M & R).
    apply pool_of_In in Hp. apply (moves_total A _ _ _ _ M). apply balanced_uni_remove_sheet; eauto.
  - assert (Hs : In from A) by (apply Hpar; simpl; auto).
    assert (Hr : In to A) by (apply Hpar; simpl; auto).
    destruct (exec_send_spec _ _ _ _ _ _ _ E) as (_ & _ & _ & M & _).
    apply (moves_total A _ _ _ _ M). unfold balanced. bal_sheet.
  - inversion E; subst. reflexivity.
  - destruct (exec_update_params_spec _ _ _ _ _ E) as (_ & _ & _ & HLed & HSup & _).
    intros d. unfold total, supply. rewrite HLed, HSup. reflexivity.
Qed.

(** the sequence never decreases, so a set closed for the final sequence is closed all along *)
Lemma step_seq_mono s m : seq s <= seq (step s m).
Proof.
  unfold step. destruct (exec s m) as [[s' r]|o] eqn:E; [|lia].
  destruct m; simpl in E.
  - destruct (swap_balance_sheet_lemma _ _ _ _ _ _ _ _ _ _ _ E) as (_ & _ & _ & _ & _ & _ & R). lia.
  - destruct (exec_add_spec _ _ _ _ _ _ _ _ _ E) as (_ & _ & _ & _ & _ & mint & _ & _ & AE).
    destruct AE as [tax _ _ _ _ _ _ _ Hsq | n0 _ _ _ _ _ R | n0 dep _ _ _ _ _ _ _ _ _ _ R]; [lia|destruct R; lia|destruct R; lia].
  - destruct (exec_remove_spec _ _ _ _ _ _ _ _ _ E) as (cp & a1 & a2 & _ & _ & _ & _ & _ & _ & _ & _ & _ & _ & _ & R). destruct R; lia.
  - destruct (exec_add_uni_spec _ _ _ _ _ _ _ _ _ E) as (n & mint & _ & _ & _ & _ & _ & _ & _ & _ & _ & _ & R). destruct R; lia.
  - destruct (exec_remove_uni_spec _ _ _ _ _ _ _ _ _ E) as (n & target & _ & _ & _ & _ & _ & _ & _ & _ & _ & R). destruct R; lia.
  - destruct (exec_send_spec _ _ _ _ _ _ _ E) as (_ & _ & _ & _ & R). destruct R; lia.
  - inversion E; subst. simpl. lia.
  - destruct (exec_update_params_spec _ _ _ _ _ E) as (_ & _ & _ & _ & _ & R & _). destruct R; lia.
Qed.

Lemma run_seq_mono ms : forall s, seq s <= seq (run s ms).
Proof.
  induction ms as [|m ms IH]; intros s; simpl; [lia|].
  pose proof (step_seq_mono s m). pose proof (IH (step s m)). lia.
Qed.

Lemma history_conserves_lemma ms : forall A s,
  Inv s -> NoDup A ->
  (forall m, In m ms -> incl (parties m) A) -> In acct_feecol A ->
  (forall n, 1 <= n <= seq (run s ms) -> In (pool_acct n) A) ->
  forall d, total A (led (run s ms)) d - supply (run s ms) d = total A (led s) d - supply s d.
Proof.
  induction ms as [|m ms IH]; intros A s I Hnd Hpar Hfc Hpools d; simpl; [reflexivity|].
  simpl in Hpools.
  rewrite (IH A (step s m) (Inv_step s m I) Hnd); auto.
  - apply step_conserves_lemma; auto. split; [apply Hpar; left; reflexivity|]. split; [exact Hfc|].
    intros n Hn. apply Hpools. pose proof (step_seq_mono s m). pose proof (run_seq_mono ms (step s m)). lia.
  - intros m' Hin. apply Hpar. right. exact Hin.
Qed.
