(** * Coinswap: the integer arithmetic behind C01, over unbounded [Z].

    Pure facts about the formulas of keeper/swap.go ([GetInputPrice], [GetOutputPrice]) and
    keeper/keeper.go (two-sided and one-sided add / remove), stated on [Z./] (the callers show
    that the operands are non-negative, where [Int.Quo] = [Z.quot] = [Z./]). *)
From Irismod Require Import Base.Prelude Base.Dec.

Local Open Scope Z_scope.

(** ** the pricing kernels *)

(** exact input [a]: the output [out = a*phi*y / (x*P + a*phi)] satisfies the rule and is maximal *)
Lemma input_price_rule (a x y ph P : Z) :
  0 < x -> 0 <= y -> 0 <= a -> 0 <= ph -> 0 < P ->
  let out := (a * ph * y) / (x * P + a * ph) in
  x * P * y <= (x * P + a * ph) * (y - out)
  /\ (x * P + a * ph) * (y - (out + 1)) < x * P * y
  /\ 0 <= out <= y.
Proof.
  intros Hx Hy Ha Hph HP out.
  assert (HD : 0 < x * P + a * ph) by nia.
  pose proof (div_le_mul (a * ph * y) (x * P + a * ph) HD) as H1.
  pose proof (div_gt_mul (a * ph * y) (x * P + a * ph) HD) as H2.
  assert (H0 : 0 <= out) by (apply Z.div_pos; nia).
  fold out in H1, H2. clearbody out.
  set (D := x * P + a * ph) in *.
  assert (E : D * y = x * P * y + a * ph * y) by (unfold D; ring).
  assert (HN : a * ph * y <= D * y) by nia.
  split; [nia|]. split; [nia|]. split; [exact H0|].
  assert (out * D <= y * D) by lia.
  apply Z.mul_le_mono_pos_r in H; assumption.
Qed.

(** exact output [b]: the price [paid = x*b*P / ((y-b)*phi) + 1] satisfies the rule, and no
    admissible price is smaller than [paid - 1] *)
Lemma output_price_rule (b x y ph P : Z) :
  0 <= x -> 0 <= b -> b < y -> 0 < ph -> 0 < P ->
  let paid := (x * b * P) / ((y - b) * ph) + 1 in
  x * P * y <= (x * P + paid * ph) * (y - b)
  /\ (forall p, x * P * y <= (x * P + p * ph) * (y - b) -> paid - 1 <= p)
  /\ 0 < paid.
Proof.
  intros Hx Hb Hby Hph HP paid.
  assert (HD : 0 < (y - b) * ph) by nia.
  pose proof (div_le_mul (x * b * P) ((y - b) * ph) HD) as H1.
  pose proof (div_gt_mul (x * b * P) ((y - b) * ph) HD) as H2.
  assert (H0 : 0 <= (x * b * P) / ((y - b) * ph)) by (apply Z.div_pos; nia).
  unfold paid. set (q := (x * b * P) / ((y - b) * ph)) in *. clearbody q.
  split; [nia|]. split; [|lia].
  intros p Hp.
  assert (Hp' : x * b * P <= p * ((y - b) * ph)) by nia.
  assert (q * ((y - b) * ph) <= p * ((y - b) * ph)) by lia.
  apply Z.mul_le_mono_pos_r in H; lia.
Qed.

(** the denominator of [GetOutputPrice] is positive exactly under the guard the code checks *)
Lemma output_price_guard (b y ph : Z) : 0 < ph -> (0 < (y - b) * ph <-> b < y).
Proof. intros. split; intros; nia. Qed.

(** a leg that obeys the rule with [phi <= P] does not lower the product of the reserves *)
Lemma rule_product (x y paid recv ph P : Z) :
  0 <= x -> 0 <= paid -> recv <= y -> 0 <= ph <= P -> 0 < P ->
  x * P * y <= (x * P + paid * ph) * (y - recv) ->
  x * y <= (x + paid) * (y - recv).
Proof.
  intros Hx Hp Hr Hph HP H.
  assert (A : paid * ph * (y - recv) <= paid * P * (y - recv)).
  { apply Z.mul_le_mono_nonneg_r; [lia|]. apply Z.mul_le_mono_nonneg_l; lia. }
  assert (B : P * (x * y) <= P * ((x + paid) * (y - recv))) by nia.
  apply Z.mul_le_mono_pos_l in B; assumption.
Qed.

(** ** liquidity: S*T/L^2 never falls (cross-multiplied) *)

(** two-sided add: mint [L*d/S], deposit [T*d/S + 1] *)
Lemma add_monotone S T L d :
  0 < S -> 0 < T -> 0 < L -> 0 < d ->
  let S' := S + d in let L' := L + (L*d)/S in let T' := T + ((T*d)/S + 1) in
  S*T*(L'*L') <= S'*T'*(L*L).
Proof.
  intros HS HT HL Hd S' L' T'.
  assert (H1: L' * S <= L * S').
  { unfold L', S'. pose proof (div_le_mul (L*d) S HS). nia. }
  assert (H2: T * S' <= T' * S).
  { unfold T', S'. pose proof (div_gt_mul (T*d) S HS). nia. }
  assert (HL': 0 < L') by (unfold L'; pose proof (Z.div_pos (L*d) S); nia).
  assert (HT': 0 < T') by (unfold T'; pose proof (Z.div_pos (T*d) S); nia).
  assert (HS': 0 < S') by (unfold S'; lia).
  clearbody S' L' T'.
  assert (H3: (L'*S)*(L'*S) <= (L*S')*(L*S')) by nia.
  assert (H4: S*T*(L'*L')*(S*S) <= S'*T'*(L*L)*(S*S)).
  { transitivity (S*T*((L*S')*(L*S'))). nia.
    replace (S'*T'*(L*L)*(S*S)) with (S'*(L*L)*S*(T'*S)) by ring.
    replace (S*T*((L*S')*(L*S'))) with (S'*(L*L)*S*(T*S')) by ring.
    apply Z.mul_le_mono_nonneg_l; nia. }
  nia.
Qed.

(** two-sided remove: withdraw [w*S/L] and [w*T/L], burn [w] *)
Lemma remove_monotone S T L w :
  0 <= S -> 0 <= T -> 0 < L -> 0 <= w -> w <= L ->
  let S' := S - (w*S)/L in let T' := T - (w*T)/L in let L' := L - w in
  S*T*(L'*L') <= S'*T'*(L*L) /\ 0 <= S' /\ 0 <= T'.
Proof.
  intros HS HT HL Hw HwL S' T' L'.
  assert (H1: S * L' <= S' * L) by (unfold S', L'; pose proof (div_le_mul (w*S) L HL); nia).
  assert (H2: T * L' <= T' * L) by (unfold T', L'; pose proof (div_le_mul (w*T) L HL); nia).
  assert (0 <= L') by (unfold L'; lia).
  clearbody S' T' L'.
  assert (0 <= S') by nia. assert (0 <= T') by nia.
  split; [|split; assumption].
  replace (S*T*(L'*L')) with ((S*L')*(T*L')) by ring.
  replace (S'*T'*(L*L)) with ((S'*L)*(T'*L)) by ring.
  apply Z.mul_le_mono_nonneg; try assumption; nia.
Qed.

(** one-sided add of [x]: the new liquidity is [isqrt ((P*T + n*x)*L*L / (P*T))], [n = P*(1-fee)] *)
Lemma add_one_sided_monotone T L x n P :
  0 < T -> 0 < L -> 0 <= x -> 0 < P -> 0 <= n <= P ->
  let q := ((P*T + n*x)*L*L) / (P*T) in let L' := Z.sqrt q in
  T*(L'*L') <= (T+x)*(L*L) /\ L <= L'.
Proof.
  intros HT HL Hx HP Hn q L'.
  assert (Hq: 0 <= q) by (apply Z.div_pos; nia).
  pose proof (Z.sqrt_spec q Hq) as [Hs _]. fold L' in Hs.
  assert (HPT: 0 < P*T) by nia.
  pose proof (div_le_mul ((P*T + n*x)*L*L) (P*T) HPT) as Hd. fold q in Hd.
  assert (HLq : L * L <= q) by (apply Z.div_le_lower_bound; nia).
  assert (HLL' : L <= L') by (apply Z.sqrt_le_square; lia).
  assert (A1: L'*L'*(P*T) <= q*(P*T)) by (apply Z.mul_le_mono_nonneg_r; lia).
  assert (A2: n*x*(L*L) <= P*x*(L*L)) by (apply Z.mul_le_mono_nonneg_r; nia).
  assert (A3: L'*L'*(P*T) <= (P*T + P*x)*L*L) by nia.
  clearbody q L'.
  split; [|exact HLL'].
  assert (A4: P*(T*(L'*L')) <= P*((T+x)*(L*L))) by nia.
  apply Z.mul_le_mono_pos_l in A4; lia.
Qed.

(** one-sided remove of [d] shares: pay out [(2L-d)*d*T*n / (L*L*P)] *)
Lemma remove_one_sided_monotone T L d n P :
  0 <= T -> 0 < L -> 0 <= d -> d < L -> 0 < P -> 0 <= n <= P ->
  let target := ((2*L - d)*d*T*n) / (L*L*P) in
  T*((L-d)*(L-d)) <= (T - target)*(L*L) /\ 0 <= target <= T.
Proof.
  intros HT HL Hd HdL HP Hn target.
  assert (HLP: 0 < L*L*P) by nia.
  pose proof (div_le_mul ((2*L - d)*d*T*n) (L*L*P) HLP) as H. fold target in H.
  assert (B0: 0 <= (2*L-d)*d*T) by nia.
  assert (Ht0 : 0 <= target) by (apply Z.div_pos; nia).
  assert (B1: (2*L-d)*d*T*n <= (2*L-d)*d*T*P) by (apply Z.mul_le_mono_nonneg_l; lia).
  clearbody target.
  assert (B2: P*(target*(L*L)) <= P*((2*L-d)*d*T)) by nia.
  apply Z.mul_le_mono_pos_l in B2; [|lia].
  assert (M : T*((L-d)*(L-d)) <= (T - target)*(L*L)) by nia.
  split; [exact M|]. split; [exact Ht0|].
  assert (Hsq : 0 <= (L - d) * (L - d)) by (apply Z.mul_nonneg_nonneg; lia).
  assert (Hl : 0 <= T * ((L - d) * (L - d))) by (apply Z.mul_nonneg_nonneg; assumption).
  assert (HLL : 0 < L * L) by nia.
  destruct (Z_le_gt_dec target T) as [Hle|Hgt]; [exact Hle|exfalso].
  assert ((T - target) * (L * L) < 0) by (apply Z.mul_neg_pos; lia).
  lia.
Qed.

(** ** the cross-multiplied order *)

(** [v / L^2 <= v' / L'^2] for positive [L], [L'] *)
Definition vle (v L v' L' : Z) : Prop := v * (L' * L') <= v' * (L * L).

Lemma vle_refl v L : vle v L v L.
Proof. unfold vle. lia. Qed.

Lemma vle_trans a1 L1 a2 L2 a3 L3 :
  0 <= a1 -> 0 <= a2 -> 0 <= a3 -> 0 < L1 -> 0 < L2 -> 0 < L3 ->
  vle a1 L1 a2 L2 -> vle a2 L2 a3 L3 -> vle a1 L1 a3 L3.
Proof.
  unfold vle. intros.
  assert (a1*(L3*L3)*(L2*L2) <= a3*(L1*L1)*(L2*L2)).
  { transitivity (a2*(L1*L1)*(L3*L3)); nia. }
  nia.
Qed.

(** more reserves (a donation, or an unrelated credit) only help *)
Lemma vle_more S T L S1 T1 S' T' L' :
  0 <= S -> 0 <= T -> 0 <= S1 -> 0 <= T1 -> S1 <= S' -> T1 <= T' ->
  S * T * (L' * L') <= S1 * T1 * (L * L) -> S * T * (L' * L') <= S' * T' * (L * L).
Proof.
  intros. assert (S1 * T1 <= S' * T') by nia.
  assert (S1 * T1 * (L * L) <= S' * T' * (L * L)) by (apply Z.mul_le_mono_nonneg_r; nia).
  lia.
Qed.
