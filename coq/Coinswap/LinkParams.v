(** * Coinswap ⟷ Params (C16): the parameter sets that the C16 model's [validate_cs] accepts are exactly
    the ones [MsgUpdateParams] stores in the coinswap model, and they satisfy the fee ranges of [Inv].

    [Params/Model.v] (group params) models [Params.Validate] with nil-able fields and denom classes;
    [Coinswap/Model.v] models it on present fields and denom indices ([0 <= cdenom] = a valid denom).
    The proofs peel the validator's tests generically ([two255] of the foreign model is the only name
    they mention).  NOTHING of Props/C01.v / Props/C02.v depends on this file: the two link theorems
    live in [Coinswap/LinkParamsProps.v], so a change of the foreign model can break only them. *)
From Irismod Require Import Coinswap.Model Coinswap.ProofsSpec Coinswap.Proofs Coinswap.ProofsValue.
From Irismod Require Params.Model.
From Coq Require Import Lia ZifyBool.

Local Open Scope Z_scope.

(** a coinswap parameter record as the C16 model sees it: every field present, the creation-fee denom
    of class [dc] *)
Definition to_cs (p : params) (dc : Z) : Params.Model.cs_params :=
  Params.Model.mkCs (Some (p_fee p)) (Params.Model.mkCoin dc (Some (p_camt p))) (Some (p_tax p)) (Some (p_ufee p)).

Lemma pow255_pos : 0 < 2 ^ 255.
Proof. reflexivity. Qed.

(** what the coinswap model accepts, the C16 validator accepts *)
Lemma params_valid_validate_cs p dc :
  Params.Model.denom_valid dc = true -> params_valid p = true ->
  Params.Model.validate_cs (to_cs p dc) = Ok.
Proof.
  intros Hd Hv. apply params_valid_range in Hv. pose proof pow255_pos.
  unfold Params.Model.validate_cs, to_cs, Params.Model.in_open01. cbn [Params.Model.cs_fee Params.Model.cs_pcf
    Params.Model.cs_tax Params.Model.cs_uni Params.Model.c_denom Params.Model.c_amt]. rewrite Hd.
  change Params.Model.two255 with (2 ^ 255).
  set (B := 2 ^ 255) in *. clearbody B.
  repeat match goal with
         | |- (if ?c then _ else _) = Ok => let E := fresh "E" in destruct c eqn:E; [exfalso; lia|]
         end.
  reflexivity.
Qed.

(** what the C16 validator accepts (creation fee within 255 bits), the coinswap model accepts *)
Lemma validate_cs_params_valid p dc :
  0 <= p_cdenom p -> p_camt p < 2 ^ 255 ->
  Params.Model.validate_cs (to_cs p dc) = Ok -> params_valid p = true.
Proof.
  intros Hc Hb. pose proof pow255_pos.
  unfold Params.Model.validate_cs, to_cs, Params.Model.in_open01, params_valid. cbn [Params.Model.cs_fee Params.Model.cs_pcf
    Params.Model.cs_tax Params.Model.cs_uni Params.Model.c_denom Params.Model.c_amt].
  change Params.Model.two255 with (2 ^ 255).
  set (B := 2 ^ 255) in *. clearbody B. intros HV.
  repeat match type of HV with
         | (if ?c then _ else _) = Ok => let E := fresh "E" in destruct c eqn:E; [discriminate HV|]
         end.
  lia.
Qed.

(** whatever [MsgUpdateParams] stores was accepted by the C16 validator, and keeps the ranges [Inv] asks for *)
Lemma update_params_validated s auth p s' r dc :
  Params.Model.denom_valid dc = true ->
  exec_update_params s auth p = Ret (s', r) ->
  Params.Model.validate_cs (to_cs (par s') dc) = Ok
  /\ 0 <= p_fee (par s') < P18 /\ 0 <= p_ufee (par s') <= P18.
Proof.
  intros Hd E. destruct (exec_update_params_spec _ _ _ _ _ E) as (_ & _ & Hv & _ & _ & _ & _ & Hp).
  rewrite Hp. pose proof (params_valid_range _ Hv) as R. split; [|lia].
  apply params_valid_validate_cs; assumption.
Qed.
