(** * Coinswap: the trace predicates of Check.v hold of the model's own steps.

    [c01_step] / [c02_step] are what the check evaluates on the IMPLEMENTATION's observations.
    Here: whenever the observed worlds before/after a message are those of the model (state [s]
    and [step s m], [Inv s], the signer not a pool escrow address), both predicates answer 0.
    Hence an alarm of the check on code that agrees with the model is impossible; an alarm
    always means the implementation's observations differ from every model behaviour. *)
From Irismod Require Import Coinswap.Model Coinswap.Check Coinswap.ProofsArith Coinswap.ProofsSpec
  Coinswap.Proofs Coinswap.ProofsValue.
From Coq Require Import Lia.

Local Open Scope Z_scope.

Definition world_of (s : state) : world := mkWorld (led s) (sup s) (pools s) (now s) (par s).

(** an observed world that shows the same balances, supplies, registry, time and parameters as a
    state (the ledger need not be the same association list) *)
Record wsim (w : world) (s : state) : Prop := mkWsim {
  ws_led : forall a d, bal (w_led w) a d = bal (led s) a d;
  ws_sup : forall d, supv (w_sup w) d = supply s d;
  ws_pools : w_pools w = pools s;
  ws_now : w_now w = now s;
  ws_par : w_par w = par s
}.

Lemma wsim_world_of s : wsim (world_of s) s.
Proof. constructor; reflexivity. Qed.

Lemma wsim_ML w s w' s' f : wsim w s -> wsim w' s' ->
  (forall a d, bal (led s') a d = bal (led s) a d + f a d) ->
  forall a d, bal (w_led w') a d = bal (w_led w) a d + f a d.
Proof. intros Hw Hw' H a d. rewrite (ws_led _ _ Hw'), (ws_led _ _ Hw). apply H. Qed.

Lemma wsim_MS w s w' s' g : wsim w s -> wsim w' s' ->
  (forall d, supply s' d = supply s d + g d) ->
  forall d, supv (w_sup w') d = supv (w_sup w) d + g d.
Proof. intros Hw Hw' H d. rewrite (ws_sup _ _ Hw'), (ws_sup _ _ Hw). apply H. Qed.

Ltac wnorm Hw Hw' :=
  rewrite ?(ws_pools _ _ Hw), ?(ws_pools _ _ Hw'), ?(ws_now _ _ Hw), ?(ws_now _ _ Hw'),
          ?(ws_par _ _ Hw), ?(ws_par _ _ Hw');
  rewrite ?(ws_led _ _ Hw), ?(ws_led _ _ Hw'), ?(ws_sup _ _ Hw), ?(ws_sup _ _ Hw').

Lemma value_leb_true S T L S' T' L' :
  (0 < L -> 0 < L' -> S * T * (L' * L') <= S' * T' * (L * L)) -> value_leb (S, T, L) (S', T', L') = true.
Proof.
  intros H. unfold value_leb.
  destruct (Z.ltb_spec 0 L) as [HL|HL]; destruct (Z.ltb_spec 0 L') as [HL'|HL']; simpl; try reflexivity.
  apply Z.leb_le. auto.
Qed.

Lemma mono_model s m w w' :
  Inv s -> sender_ok m -> wsim w s -> wsim w' (step s m) ->
  forallb (fun e : Z * Z => value_leb (view w (fst e) (snd e)) (view w' (fst e) (snd e)))
          (pools s) = true.
Proof.
  intros I Hs Hw Hw'. apply forallb_forall. intros [cp n] Hin. cbn [fst snd].
  unfold view. wnorm Hw Hw'. apply value_leb_true. intros HL HL'.
  exact (step_value_monotone_lemma s m cp n I Hs Hin HL HL').
Qed.

Lemma leg_code_model (buy : bool) s s' w w' n din dout paid recv :
  wsim w s -> wsim w' s' ->
  Inv s -> 0 <= (if buy then recv else paid) -> priced buy s n din dout paid recv ->
  bal (led s') (pool_acct n) din = bal (led s) (pool_acct n) din + paid ->
  bal (led s') (pool_acct n) dout = bal (led s) (pool_acct n) dout - recv ->
  leg_code (P18 - p_fee (par s)) buy w w' n din dout = 0.
Proof.
  intros Hw Hw' I H0 Hp E1 E2.
  pose proof (priced_rule_lemma buy s n din dout paid recv I H0 Hp) as F. cbv zeta in F.
  destruct F as (Fx & Fy & Fp & Fr & Frule & Fext).
  unfold leg_code. wnorm Hw Hw'. rewrite E1, E2.
  set (x := bal (led s) (pool_acct n) din) in *. set (y := bal (led s) (pool_acct n) dout) in *.
  replace (x + paid - x) with paid by lia. replace (y - (y - recv)) with recv by lia.
  set (ph := P18 - p_fee (par s)) in *.
  unfold rule.
  destruct (Z.leb_spec (x * P18 * y) ((x * P18 + paid * ph) * (y - recv))) as [_|Hc]; [cbn [negb]|lia].
  destruct buy.
  - destruct (Z.leb_spec 2 paid) as [H2|H2]; cbn [andb]; [|reflexivity].
    destruct (Z.leb_spec (x * P18 * y) ((x * P18 + (paid - 2) * ph) * (y - recv))) as [Hc|_]; [|reflexivity].
    specialize (Fext _ Hc). lia.
  - destruct (Z.leb_spec (x * P18 * y) ((x * P18 + paid * ph) * (y - (recv + 1)))) as [Hc|_]; [lia|reflexivity].
Qed.

(** the recipient is not the escrow address of a pool the order trades on *)
Lemma rcpt_not_leg_single s rcpt din dout n0 :
  lpt_of_denoms s din dout = Ret n0 ->
  rcpt_is_leg_pool (pools s) rcpt din dout = false -> rcpt <> pool_acct n0.
Proof.
  intros Hn Hr. destruct (lpt_of_denoms_inv _ _ _ _ Hn) as (_ & [(Hdi & Hpo)|(Hdo & Hdi & Hpo)]);
    unfold rcpt_is_leg_pool, leg_pools, pool_lookup in Hr; unfold pool_of in Hpo.
  - subst din. rewrite Z.eqb_refl, Hpo in Hr. simpl in Hr. rewrite orb_false_r in Hr. apply Z.eqb_neq in Hr. exact Hr.
  - subst dout. destruct (Z.eqb_spec din std) as [|_]; [contradiction|]. rewrite Z.eqb_refl, Hpo in Hr.
    simpl in Hr. rewrite orb_false_r in Hr. apply Z.eqb_neq in Hr. exact Hr.
Qed.

Lemma rcpt_not_leg_double s rcpt din dout n1 n2 :
  din <> std -> dout <> std -> pool_of s din = Some n1 -> pool_of s dout = Some n2 ->
  rcpt_is_leg_pool (pools s) rcpt din dout = false -> rcpt <> pool_acct n1 /\ rcpt <> pool_acct n2.
Proof.
  intros Hdi Hdo H1 H2 Hr. unfold rcpt_is_leg_pool, leg_pools, pool_lookup in Hr. unfold pool_of in H1, H2.
  destruct (Z.eqb_spec din std) as [|_]; [contradiction|]. destruct (Z.eqb_spec dout std) as [|_]; [contradiction|].
  rewrite H1, H2 in Hr. simpl in Hr. rewrite orb_false_r in Hr. apply orb_false_iff in Hr. destruct Hr as (A & B).
  apply Z.eqb_neq in A. apply Z.eqb_neq in B. auto.
Qed.

(** the deltas of the two pools of a routed swap, and of the pool of a single hop *)
Lemma c01_swap_model s buy sender rcpt din ain dout aout deadline s' r w w' :
  wsim w s -> wsim w' s' ->
  Inv s -> is_pool_acct sender = false -> rcpt_is_leg_pool (pools s) rcpt din dout = false ->
  exec_swap s buy sender rcpt din ain dout aout deadline = Ret (s', r) ->
  (if din =? std then
     match pool_of s dout with Some n => leg_code (P18 - p_fee (par s)) buy w w' n din dout | None => 2 end
   else if dout =? std then
     match pool_of s din with Some n => leg_code (P18 - p_fee (par s)) buy w w' n din dout | None => 2 end
   else
     match pool_of s din, pool_of s dout with
     | Some n1, Some n2 => first_nz [leg_code (P18 - p_fee (par s)) buy w w' n1 din std;
                                     leg_code (P18 - p_fee (par s)) buy w w' n2 std dout]
     | _, _ => 2
     end) = 0.
Proof.
  intros Hw Hw' I Hs Hr E.
  destruct (exec_swap_spec _ _ _ _ _ _ _ _ _ _ _ E) as (_ & _ & _ & Hain & Haout & Hdd & sold & bought & SE & B).
  assert (H0 : 0 <= (if buy then bought else sold)) by (destruct buy; lia).
  apply not_pool_le in Hs.
  destruct SE as [n0 Hd Hn Hp M R | n1 n2 s1 mid Hdi Hdo Hn1 Hn2 Hp1 Hp2 M1 R1 M2 R2].
  - pose proof (rcpt_not_leg_single _ _ _ _ _ Hn Hr) as Hrn.
    destruct (lpt_of_denoms_inv _ _ _ _ Hn) as (_ & [(Hdi & Hpo)|(Hdo & Hdi & Hpo)]).
    + subst din. rewrite Z.eqb_refl. rewrite Hpo.
      destruct (inv_rng _ I _ _ (pool_of_In _ _ _ Hpo)) as (Hn0 & _).
      destruct M as (ML & _).
      pose proof (ML (pool_acct n0) std) as E1. pose proof (ML (pool_acct n0) dout) as E2.
      unfold sheet1 in E1, E2. ev_ind E1. ev_ind E2.
      apply (leg_code_model buy s s' w w' n0 std dout sold bought Hw Hw' I H0 Hp); lia.
    + subst dout. destruct (Z.eqb_spec din std) as [|_]; [contradiction|]. rewrite Z.eqb_refl. rewrite Hpo.
      destruct (inv_rng _ I _ _ (pool_of_In _ _ _ Hpo)) as (Hn0 & _).
      destruct M as (ML & _).
      pose proof (ML (pool_acct n0) din) as E1. pose proof (ML (pool_acct n0) std) as E2.
      unfold sheet1 in E1, E2. ev_ind E1. ev_ind E2.
      apply (leg_code_model buy s s' w w' n0 din std sold bought Hw Hw' I H0 Hp); lia.
  - destruct (Z.eqb_spec din std) as [|_]; [contradiction|].
    destruct (Z.eqb_spec dout std) as [|_]; [contradiction|].
    destruct (lpt_of_denoms_inv _ _ _ _ Hn1) as (_ & [(Hx & _)|(_ & _ & Hpo1)]); [congruence|].
    destruct (lpt_of_denoms_inv _ _ _ _ Hn2) as (_ & [(_ & Hpo2)|(Hx & _)]); [|congruence].
    rewrite Hpo1, Hpo2.
    destruct (rcpt_not_leg_double _ _ _ _ _ _ Hdi Hdo Hpo1 Hpo2 Hr) as (Hrn1 & Hrn2).
    apply pool_of_In in Hpo1. apply pool_of_In in Hpo2.
    assert (Hn12 : n1 <> n2).
    { intros Heq. subst n2. apply Hdd. exact (reg_same_n _ _ _ _ I Hpo1 Hpo2). }
    destruct (inv_rng _ I _ _ Hpo1) as (Hr1 & _). destruct (inv_rng _ I _ _ Hpo2) as (Hr2 & _).
    assert (I1 : Inv s1) by (eapply Inv_same; eassumption).
    destruct M1 as (ML1 & _ & (_ & P1) & _). destruct M2 as (ML2 & _).
    pose proof (ML1 (pool_acct n1) din) as A1. pose proof (ML1 (pool_acct n1) std) as A2.
    pose proof (ML1 (pool_acct n2) std) as A3. pose proof (ML1 (pool_acct n2) dout) as A4.
    pose proof (ML2 (pool_acct n1) din) as B1. pose proof (ML2 (pool_acct n1) std) as B2.
    pose proof (ML2 (pool_acct n2) std) as B3. pose proof (ML2 (pool_acct n2) dout) as B4.
    unfold sheet1 in A1, A2, A3, A4, B1, B2, B3, B4.
    ev_ind A1. ev_ind A2. ev_ind A3. ev_ind A4. ev_ind B1. ev_ind B2. ev_ind B3. ev_ind B4.
    (* both legs priced on the reserves of [s] *)
    assert (Hmid : 0 <= mid /\ priced buy s n2 std dout mid bought).
    { destruct buy.
      - pose proof (priced_facts true _ _ _ _ _ _ (phi_range _ I) H0 Hp2) as F2. cbv zeta in F2. tauto.
      - pose proof (priced_facts false _ _ _ _ _ _ (phi_range _ I) H0 Hp1) as F1. cbv zeta in F1.
        split; [tauto|].
        unfold priced in *. unfold phi in *. rewrite P1 in Hp2.
        replace (bal (led s) (pool_acct n2) std) with (bal (led s1) (pool_acct n2) std) by lia.
        replace (bal (led s) (pool_acct n2) dout) with (bal (led s1) (pool_acct n2) dout) by lia.
        exact Hp2. }
    destruct Hmid as (Hmid & Hp2').
    assert (H01 : 0 <= (if buy then mid else sold)) by (destruct buy; lia).
    assert (H02 : 0 <= (if buy then bought else mid)) by (destruct buy; lia).
    rewrite (leg_code_model buy s s' w w' n1 din std sold mid Hw Hw' I H01 Hp1) by lia.
    rewrite (leg_code_model buy s s' w w' n2 std dout mid bought Hw Hw' I H02 Hp2') by lia.
    reflexivity.
Qed.

(** ** C01: the predicate on a model step *)
Theorem c01_step_sim_ok s m s' r o w w' :
  wsim w s -> wsim w' s' ->
  Inv s -> sender_ok m -> exec s m = Ret (s', r) -> o_code o = 0 ->
  c01_step (par s) m o w w' = 0.
Proof.
  intros Hw Hw' I Hs E Ho. pose proof Hw' as Hw2. rewrite <- (step_Ret _ _ _ _ E) in Hw2.
  pose proof (mono_model s m w w' I Hs Hw Hw2) as Hm.
  unfold c01_step. rewrite (ws_pools _ _ Hw). rewrite Hm. cbn [negb].
  destruct m as [buy sender rcpt din ain dout aout deadline | | | | | | |]; try reflexivity.
  rewrite Ho. change (0 =? 0) with true. cbn [negb orb].
  destruct (rcpt_is_leg_pool (pools s) rcpt din dout) eqn:Hr; [reflexivity|].
  unfold sender_ok in Hs. simpl in Hs, E.
  exact (c01_swap_model s buy sender rcpt din ain dout aout deadline s' r w w' Hw Hw' I Hs Hr E).
Qed.

Theorem c01_step_model_ok s m s' r o :
  Inv s -> sender_ok m -> exec s m = Ret (s', r) -> o_code o = 0 ->
  c01_step (par s) m o (world_of s) (world_of s') = 0.
Proof. intros. eapply c01_step_sim_ok; eauto using wsim_world_of. Qed.

Theorem c01_step_sim_fail s m f o w w' :
  wsim w s -> wsim w' s ->
  Inv s -> sender_ok m -> exec s m = Fail f -> o_code o <> 0 ->
  c01_step (par s) m o w w' = 0.
Proof.
  intros Hw Hw' I Hs E Ho. pose proof Hw' as Hw2. rewrite <- (failed_step_changes_nothing _ _ _ E) in Hw2.
  pose proof (mono_model s m w w' I Hs Hw Hw2) as Hm.
  unfold c01_step. rewrite (ws_pools _ _ Hw). rewrite Hm. cbn [negb].
  destruct m; try reflexivity.
  destruct (Z.eqb_spec (o_code o) 0) as [|_]; [contradiction|]. reflexivity.
Qed.

Theorem c01_step_model_fail s m f o :
  Inv s -> sender_ok m -> exec s m = Fail f -> o_code o <> 0 ->
  c01_step (par s) m o (world_of s) (world_of s) = 0.
Proof. intros. eapply c01_step_sim_fail; eauto using wsim_world_of. Qed.

(** ** C02 *)

(** who may sign: users, i.e. neither a pool escrow address nor a module account *)
Definition signer_ok (m : msg) : Prop :=
  match sender_of m with
  | Some a => is_pool_acct a = false /\ a <> acct_feecol /\ a <> acct_module
  | None => True
  end.

Lemma signer_sender_ok m : signer_ok m -> sender_ok m.
Proof. unfold signer_ok, sender_ok. destruct (sender_of m); tauto. Qed.

Lemma delta_ok_intro (l l' : ledger) (f exp : Z -> Z -> Z) :
  (forall a d, bal l' a d = bal l a d + f a d) -> (forall a d, f a d = exp a d) -> delta_ok l l' exp = true.
Proof.
  intros HL HE. unfold delta_ok. apply forallb_forall. intros [a d] _. cbn [fst snd].
  apply Z.eqb_eq. rewrite HL, HE. lia.
Qed.

Lemma sdelta_ok_intro (sp sp' : amap Z Z) (g exp : Z -> Z) :
  (forall d, supv sp' d = supv sp d + g d) -> (forall d, g d = exp d) -> sdelta_ok sp sp' exp = true.
Proof.
  intros HS HE. unfold sdelta_ok. apply forallb_forall. intros d _.
  apply Z.eqb_eq. rewrite HS, HE. lia.
Qed.

Lemma pair_in_In p l : In p l -> pair_in p l = true.
Proof.
  intros H. unfold pair_in. apply existsb_exists. exists p. split; [exact H|apply eqb_refl].
Qed.

Lemma pools_eqb_refl p : pools_eqb p p = true.
Proof.
  unfold pools_eqb. rewrite Z.eqb_refl. cbn [andb].
  assert (F : forallb (fun q => pair_in q p) p = true) by (apply forallb_forall; intros q Hq; apply pair_in_In; exact Hq).
  rewrite F. reflexivity.
Qed.

Lemma unchanged_refl w : unchanged w w = true.
Proof.
  unfold unchanged. rewrite pools_eqb_refl.
  rewrite (delta_ok_intro (w_led w) (w_led w) (fun _ _ => 0) (fun _ _ => 0)) by (intros; lia).
  rewrite (sdelta_ok_intro (w_sup w) (w_sup w) (fun _ => 0) (fun _ => 0)) by (intros; lia).
  reflexivity.
Qed.

Lemma unchanged_sim w w' s : wsim w s -> wsim w' s -> unchanged w w' = true.
Proof.
  intros Hw Hw'. unfold unchanged. rewrite (ws_pools _ _ Hw), (ws_pools _ _ Hw'), pools_eqb_refl.
  rewrite (delta_ok_intro (w_led w) (w_led w') (fun _ _ => 0) (fun _ _ => 0))
    by (intros; try rewrite (ws_led _ _ Hw'), (ws_led _ _ Hw); lia).
  rewrite (sdelta_ok_intro (w_sup w) (w_sup w') (fun _ => 0) (fun _ => 0))
    by (intros; try rewrite (ws_sup _ _ Hw'), (ws_sup _ _ Hw); lia).
  reflexivity.
Qed.

Lemma par_eqb_refl p : par_eqb p p = true.
Proof. unfold par_eqb. rewrite !Z.eqb_refl. reflexivity. Qed.

Theorem c02_step_sim_fail s m f o w w' :
  wsim w s -> wsim w' s ->
  exec s m = Fail f -> o_code o <> 0 ->
  c02_step (par s) m o w w' = 0.
Proof.
  intros Hw Hw' E Ho.
  assert (Hm : c02_main (par s) m o w w' = 0).
  { unfold c02_main. destruct (Z.eqb_spec (o_code o) 0) as [|_]; [contradiction|]. cbn [negb].
    rewrite (unchanged_sim w w' s Hw Hw'). reflexivity. }
  assert (Hp : par_expected m o w = par s).
  { unfold par_expected. rewrite (ws_par _ _ Hw). destruct m; try reflexivity.
    destruct (Z.eqb_spec (o_code o) 0) as [|_]; [contradiction|reflexivity]. }
  unfold c02_step. rewrite Hm, Hp. rewrite (ws_par _ _ Hw'). rewrite par_eqb_refl. reflexivity.
Qed.

Theorem c02_step_model_fail s m f o :
  exec s m = Fail f -> o_code o <> 0 ->
  c02_step (par s) m o (world_of s) (world_of s) = 0.
Proof. intros. eapply c02_step_sim_fail; eauto using wsim_world_of. Qed.

Lemma priced_buy_paid_pos s n din dout paid recv :
  Inv s -> 0 <= recv -> priced true s n din dout paid recv -> 0 < paid.
Proof.
  intros I H0 (Hx & Hy & Hr & Hp). unfold phi in Hp.
  destruct (swap_out_rule_lemma _ _ _ _ _ Hx (conj H0 Hr) (inv_fee _ I) Hp) as (_ & _ & C). exact C.
Qed.

Lemma priced_sell_zero s n din dout recv :
  priced false s n din dout 0 recv -> recv = 0.
Proof.
  intros (_ & _ & Hp). apply input_price_Ret in Hp. destruct Hp as (Hden & ->).
  rewrite !Z.mul_0_l. apply Z.quot_0_l. exact Hden.
Qed.

Lemma supv_supply s d : supv (sup s) d = supply s d.
Proof. reflexivity. Qed.

Lemma code_if_true c : code_if true c = 0.
Proof. reflexivity. Qed.

Lemma bounds_bool (buy : bool) sold bought ain aout :
  (if buy then bought = aout /\ sold <= ain else sold = ain /\ aout <= bought) ->
  (if buy then (bought =? aout) && (sold <=? ain) else (sold =? ain) && (aout <=? bought)) = true.
Proof.
  destruct buy; intros [A B]; apply andb_true_iff; split; try (apply Z.eqb_eq; exact A); try (apply Z.leb_le; exact B).
Qed.

Lemma c02_swap_model s buy a r din ain dout aout deadline s' res w w' :
  wsim w s -> wsim w' s' ->
  Inv s -> is_pool_acct a = false -> rcpt_is_leg_pool (pools s) r din dout = false ->
  exec_swap s buy a r din ain dout aout deadline = Ret (s', res) ->
  c02_swap buy a r din ain dout aout deadline w w' = 0.
Proof.
  intros Hw Hw' I Hs Hr E.
  destruct (exec_swap_spec _ _ _ _ _ _ _ _ _ _ _ E) as (_ & Hdl & _ & Hain & Haout & Hdd & sold & bought & SE & B).
  assert (H0 : 0 <= (if buy then bought else sold)) by (destruct buy; lia).
  apply not_pool_le in Hs.
  pose proof (bounds_bool buy sold bought ain aout B) as HB.
  assert (Hdlb : (now s <=? deadline) = true) by (apply Z.leb_le; exact Hdl).
  destruct SE as [n0 Hd Hn Hp M R | n1 n2 s1 mid Hdi Hdo Hn1 Hn2 Hp1 Hp2 M1 R1 M2 R2].
  - (* single hop *)
    pose proof (rcpt_not_leg_single _ _ _ _ _ Hn Hr) as Hrn.
    assert (Hpos : 0 < sold /\ 0 < bought).
    { destruct buy; [|lia]. split; [|lia]. apply (priced_buy_paid_pos _ _ _ _ _ _ I H0 Hp). }
    destruct (lpt_of_denoms_inv _ _ _ _ Hn) as (_ & Hcase).
    assert (Hpo : exists cp0, pool_of s cp0 = Some n0
                  /\ (if din =? std then pool_lookup (pools s) dout
                      else if dout =? std then pool_lookup (pools s) din else None) = Some n0
                  /\ (negb (din =? std) && negb (dout =? std) = false)).
    { destruct Hcase as [(Hdi & Hpo)|(Hdo & Hdi & Hpo)].
      - exists dout. subst din. rewrite Z.eqb_refl. auto.
      - exists din. subst dout. destruct (Z.eqb_spec din std); [contradiction|]. rewrite Z.eqb_refl. auto. }
    destruct Hpo as (cp0 & Hpo & Hlook & _).
    destruct (inv_rng _ I _ _ (pool_of_In _ _ _ Hpo)) as (Hn0 & _).
    destruct M as (ML & MS & _). destruct R as (RP & _).
    pose proof (ML a din) as E1. pose proof (ML r dout) as E2. unfold sheet1 in E1, E2. ev_ind E1. ev_ind E2.
    assert (Es : bal (led s) a din - bal (led s') a din = sold) by lia.
    assert (Eb : bal (led s') r dout - bal (led s) r dout = bought) by lia.
    assert (Hsheet : delta_ok (w_led w) (w_led w')
              (fun a' d' => ind (at_ a din a' d') (- sold) + ind (at_ r dout a' d') bought
                            + ind (at_ (pool_acct n0) din a' d') sold + ind (at_ (pool_acct n0) dout a' d') (- bought)) = true).
    { apply (delta_ok_intro _ _ _ _ (wsim_ML _ _ _ _ _ Hw Hw' ML)). intros a' d'. unfold sheet1. reflexivity. }
    assert (Hsup : sdelta_ok (w_sup w) (w_sup w') (fun _ => 0) = true).
    { apply (sdelta_ok_intro _ _ zero1); [exact (wsim_MS _ _ _ _ _ Hw Hw' MS)|reflexivity]. }
    unfold c02_swap. cbv zeta. wnorm Hw Hw'.
    rewrite !Es, !Eb. rewrite RP, pools_eqb_refl, Hsup, HB, Hdlb.
    destruct Hpos as (Hp1 & Hp2). apply Z.ltb_lt in Hp1. apply Z.ltb_lt in Hp2. rewrite Hp1, Hp2.
    destruct (din =? std).
    + rewrite Hlook, Hsheet. reflexivity.
    + destruct (dout =? std); [|discriminate]. rewrite Hlook, Hsheet. reflexivity.
  - (* double hop *)
    assert (Ed1 : (din =? std) = false) by (apply Z.eqb_neq; assumption).
    assert (Ed2 : (dout =? std) = false) by (apply Z.eqb_neq; assumption).
    destruct (lpt_of_denoms_inv _ _ _ _ Hn1) as (_ & [(Hx & _)|(_ & _ & Hpo1)]); [congruence|].
    destruct (lpt_of_denoms_inv _ _ _ _ Hn2) as (_ & [(_ & Hpo2)|(Hx & _)]); [|congruence].
    pose proof Hpo1 as Hl1. pose proof Hpo2 as Hl2.
    destruct (rcpt_not_leg_double _ _ _ _ _ _ Hdi Hdo Hpo1 Hpo2 Hr) as (Hrn1 & Hrn2).
    apply pool_of_In in Hpo1. apply pool_of_In in Hpo2.
    assert (Hn12 : n1 <> n2).
    { intros Heq. subst n2. apply Hdd. exact (reg_same_n _ _ _ _ I Hpo1 Hpo2). }
    destruct (inv_rng _ I _ _ Hpo1) as (Hr1 & _). destruct (inv_rng _ I _ _ Hpo2) as (Hr2 & _).
    assert (I1 : Inv s1) by (eapply Inv_same; eassumption).
    assert (Hpos : 0 < sold /\ 0 < mid /\ 0 < bought).
    { destruct buy.
      - assert (0 < mid) by (apply (priced_buy_paid_pos _ _ _ _ _ _ I H0 Hp2)).
        assert (0 < sold) by (apply (priced_buy_paid_pos s n1 din std sold mid I ltac:(lia) Hp1)). lia.
      - pose proof (priced_facts false _ _ _ _ _ _ (phi_range _ I) H0 Hp1) as F1. cbv zeta in F1.
        destruct F1 as (_ & _ & _ & (Fmid & _) & _).
        destruct (Z.eq_dec mid 0) as [Hz|Hz]; [|lia].
        subst mid. apply priced_sell_zero in Hp2. lia. }
    pose proof (moves_trans _ _ _ _ _ _ _ M1 M2) as M.
    destruct M as (ML & MS & _). destruct R1 as (RP1 & _). destruct R2 as (RP2 & _).
    assert (ML' : forall a' d', bal (led s') a' d' = bal (led s) a' d'
                   + sheet2 a r (pool_acct n1) (pool_acct n2) din dout sold mid bought a' d').
    { intros a' d'. rewrite ML. unfold sheet1, sheet2. rewrite !ind_neg. lia. }
    pose proof (ML' a din) as E1. pose proof (ML' r dout) as E2. pose proof (ML' (pool_acct n1) std) as E3.
    unfold sheet2 in E1, E2, E3. ev_ind E1. ev_ind E2. ev_ind E3.
    assert (Es : bal (led s) a din - bal (led s') a din = sold) by lia.
    assert (Eb : bal (led s') r dout - bal (led s) r dout = bought) by lia.
    assert (Em : bal (led s) (pool_acct n1) std - bal (led s') (pool_acct n1) std = mid) by lia.
    assert (Hsheet : delta_ok (w_led w) (w_led w')
              (fun a' d' => ind (at_ a din a' d') (- sold) + ind (at_ r dout a' d') bought
                            + ind (at_ (pool_acct n1) din a' d') sold + ind (at_ (pool_acct n1) std a' d') (- mid)
                            + ind (at_ (pool_acct n2) std a' d') mid + ind (at_ (pool_acct n2) dout a' d') (- bought)) = true).
    { apply (delta_ok_intro _ _ _ _ (wsim_ML _ _ _ _ _ Hw Hw' ML')). intros a' d'. unfold sheet2. reflexivity. }
    assert (Hsup : sdelta_ok (w_sup w) (w_sup w') (fun _ => 0) = true).
    { apply (sdelta_ok_intro _ _ (fun d => zero1 d + zero1 d)); [exact (wsim_MS _ _ _ _ _ Hw Hw' MS)|reflexivity]. }
    unfold c02_swap. cbv zeta. wnorm Hw Hw'.
    unfold pool_lookup. change (get din (pools s)) with (pool_of s din). change (get dout (pools s)) with (pool_of s dout).
    rewrite Hl1, Hl2. cbv beta iota. wnorm Hw Hw'.
    rewrite !Es, !Eb, !Em. rewrite RP2, RP1, pools_eqb_refl, Hsup, HB, Hdlb.
    destruct Hpos as (Hp1' & Hp2' & Hp3'). apply Z.ltb_lt in Hp1'. apply Z.ltb_lt in Hp2'. apply Z.ltb_lt in Hp3'.
    rewrite Hp1', Hp2', Hp3', Hsheet, Ed1, Ed2. reflexivity.
Qed.

Lemma get_app_new (l : list (Z * Z)) k v : get k l = None -> get k (l ++ [(k, v)]) = Some v.
Proof.
  induction l as [|[k' v'] l IH]; simpl; intros H.
  - destruct (eq_dec k k); congruence.
  - destruct (eq_dec k k'); [discriminate|auto].
Qed.

Lemma ind_false x : ind false x = 0.
Proof. reflexivity. Qed.
Lemma ind_true x : ind true x = x.
Proof. reflexivity. Qed.

Lemma c02_add_model s a dtok max_tok exact min_liq deadline s' res w w' :
  wsim w s -> wsim w' s' ->
  Inv s -> is_pool_acct a = false -> a <> acct_feecol -> a <> acct_module -> p_cdenom (par s) <= 1000 ->
  exec_add s a dtok max_tok exact min_liq deadline = Ret (s', res) ->
  c02_add (par s) a dtok max_tok exact min_liq deadline w w' = 0.
Proof.
  intros Hw Hw' I Hs Hfc Hmod Hcd E.
  destruct (exec_add_spec _ _ _ _ _ _ _ _ _ E) as (Hdl & Hmax & Hex & Hstd & _ & mint & _ & Hm & AE).
  apply not_pool_le in Hs.
  assert (Hdlb : (now s <=? deadline) = true) by (apply Z.leb_le; exact Hdl).
  unfold c02_add. wnorm Hw Hw'. unfold pool_lookup.
  destruct AE as [tax Hp Htax _ Hmx Hml M Hps _ | n0 Hp He Hmx Hml M R | n0 dep Hp He HS0 HT0 HL0 Hmt Hd Hml Hdm M R].
  - (* creation *)
    pose proof (inv_seq _ I) as Hseq.
    rewrite Hps. rewrite (get_app_new (pools s) dtok (seq s) Hp).
    change (get dtok (pools s)) with (pool_of s dtok). rewrite Hp. cbv beta iota zeta. wnorm Hw Hw'. rewrite !ind_true.
    destruct M as (ML & MS & _).
    pose proof (ML acct_feecol (p_cdenom (par s))) as E1. pose proof (MS (lpt (seq s))) as E2.
    pose proof (ML (pool_acct (seq s)) dtok) as E3.
    unfold fee_sheet, add_sheet in E1, E3. unfold lpt_delta in E2. ev_ind E1. ev_ind E2. ev_ind E3.
    assert (Et : bal (led s') acct_feecol (p_cdenom (par s)) - bal (led s) acct_feecol (p_cdenom (par s)) = tax) by lia.
    assert (Em : supply s' (lpt (seq s)) - supply s (lpt (seq s)) = exact) by lia.
    assert (Ed : bal (led s') (pool_acct (seq s)) dtok - bal (led s) (pool_acct (seq s)) dtok = max_tok) by lia.
    rewrite !Et, !Em, !Ed.
    match goal with |- context [delta_ok ?l ?l' ?f] =>
      assert (Hsheet : delta_ok l l' f = true)
    end.
    { apply (delta_ok_intro _ _ _ _ (wsim_ML _ _ _ _ _ Hw Hw' ML)). intros a' d'. unfold fee_sheet, add_sheet. lia. }
    match goal with |- context [sdelta_ok ?l ?l' ?f] =>
      assert (Hsup : sdelta_ok l l' f = true)
    end.
    { apply (sdelta_ok_intro _ _ _ _ (wsim_MS _ _ _ _ _ Hw Hw' MS)). intros d'. unfold lpt_delta. lia. }
    rewrite Hsheet, Hsup, pools_eqb_refl, Hdlb.
    replace (0 <=? tax) with true by (symmetry; apply Z.leb_le; lia).
    replace (tax <=? p_camt (par s)) with true by (symmetry; apply Z.leb_le; lia).
    replace (0 <=? exact) with true by (symmetry; apply Z.leb_le; lia).
    replace (0 <? max_tok) with true by (symmetry; apply Z.ltb_lt; lia).
    replace (max_tok <=? max_tok) with true by (symmetry; apply Z.leb_le; lia).
    replace (min_liq <=? exact) with true by (symmetry; apply Z.leb_le; lia).
    reflexivity.
  - (* first deposit into an emptied pool *)
    destruct R as (RP & _). rewrite RP.
    change (get dtok (pools s)) with (pool_of s dtok). rewrite Hp. cbv beta iota zeta. wnorm Hw Hw'. rewrite !ind_false.
    destruct (inv_rng _ I _ _ (pool_of_In _ _ _ Hp)) as (Hn0 & _).
    destruct M as (ML & MS & _).
    pose proof (MS (lpt n0)) as E2. pose proof (ML (pool_acct n0) dtok) as E3.
    unfold add_sheet in E3. unfold lpt_delta in E2. ev_ind E2. ev_ind E3.
    assert (Em : supply s' (lpt n0) - supply s (lpt n0) = exact) by lia.
    assert (Ed : bal (led s') (pool_acct n0) dtok - bal (led s) (pool_acct n0) dtok = max_tok) by lia.
    rewrite !Em, !Ed.
    match goal with |- context [delta_ok ?l ?l' ?f] =>
      assert (Hsheet : delta_ok l l' f = true)
    end.
    { apply (delta_ok_intro _ _ _ _ (wsim_ML _ _ _ _ _ Hw Hw' ML)). intros a' d'. unfold add_sheet.
      change (- 0) with 0. rewrite !ind_zero. lia. }
    match goal with |- context [sdelta_ok ?l ?l' ?f] =>
      assert (Hsup : sdelta_ok l l' f = true)
    end.
    { apply (sdelta_ok_intro _ _ _ _ (wsim_MS _ _ _ _ _ Hw Hw' MS)). intros d'. unfold lpt_delta. change (- (0 - 0)) with 0. rewrite ind_zero. lia. }
    rewrite Hsheet, Hsup, pools_eqb_refl, Hdlb.
    replace (0 <=? exact) with true by (symmetry; apply Z.leb_le; lia).
    replace (0 <? max_tok) with true by (symmetry; apply Z.ltb_lt; lia).
    replace (max_tok <=? max_tok) with true by (symmetry; apply Z.leb_le; lia).
    replace (min_liq <=? exact) with true by (symmetry; apply Z.leb_le; lia).
    reflexivity.
  - (* proportional deposit *)
    destruct R as (RP & _). rewrite RP.
    change (get dtok (pools s)) with (pool_of s dtok). rewrite Hp. cbv beta iota zeta. wnorm Hw Hw'. rewrite !ind_false.
    destruct (inv_rng _ I _ _ (pool_of_In _ _ _ Hp)) as (Hn0 & _).
    destruct M as (ML & MS & _).
    pose proof (MS (lpt n0)) as E2. pose proof (ML (pool_acct n0) dtok) as E3.
    unfold add_sheet in E3. unfold lpt_delta in E2. ev_ind E2. ev_ind E3.
    assert (Em : supply s' (lpt n0) - supply s (lpt n0) = mint) by lia.
    assert (Ed : bal (led s') (pool_acct n0) dtok - bal (led s) (pool_acct n0) dtok = dep) by lia.
    rewrite !Em, !Ed.
    assert (Hdep : 0 < dep).
    { pose proof (inv_nn _ I (pool_acct n0) std). pose proof (inv_nn _ I (pool_acct n0) dtok).
      unfold reserve_std, reserve_tok in *. rewrite quot_div_nonneg in Hd by nia.
      assert (0 <= bal (led s) (pool_acct n0) dtok * exact / bal (led s) (pool_acct n0) std) by (apply Z.div_pos; nia).
      lia. }
    match goal with |- context [delta_ok ?l ?l' ?f] =>
      assert (Hsheet : delta_ok l l' f = true)
    end.
    { apply (delta_ok_intro _ _ _ _ (wsim_ML _ _ _ _ _ Hw Hw' ML)). intros a' d'. unfold add_sheet.
      change (- 0) with 0. rewrite !ind_zero. lia. }
    match goal with |- context [sdelta_ok ?l ?l' ?f] =>
      assert (Hsup : sdelta_ok l l' f = true)
    end.
    { apply (sdelta_ok_intro _ _ _ _ (wsim_MS _ _ _ _ _ Hw Hw' MS)). intros d'. unfold lpt_delta. change (- (0 - 0)) with 0. rewrite ind_zero. lia. }
    rewrite Hsheet, Hsup, pools_eqb_refl, Hdlb.
    replace (0 <=? mint) with true by (symmetry; apply Z.leb_le; lia).
    replace (0 <? dep) with true by (symmetry; apply Z.ltb_lt; lia).
    replace (dep <=? max_tok) with true by (symmetry; apply Z.leb_le; lia).
    replace (min_liq <=? mint) with true by (symmetry; apply Z.leb_le; lia).
    reflexivity.
Qed.

Lemma cp_of_list_pools s n cp : cp_of s n = Some cp -> cp_of_list (pools s) n = Some cp.
Proof. auto. Qed.

Lemma c02_remove_model s a dlpt wd min_std min_tok deadline s' res w w' :
  wsim w s -> wsim w' s' ->
  Inv s -> is_pool_acct a = false ->
  exec_remove s a dlpt wd min_std min_tok deadline = Ret (s', res) ->
  c02_remove a dlpt wd min_std min_tok deadline w w' = 0.
Proof.
  intros Hw Hw' I Hs E. apply not_pool_le in Hs.
  pose proof (exec_remove_spec _ _ _ _ _ _ _ _ _ E) as X. cbv zeta in X.
  destruct X as (cp & a1 & a2 & Hc & Hdl & Hwd & _ & _ & Hm1 & Hm2 & H01 & H02 & _ & M & R).
  assert (Hdlb : (now s <=? deadline) = true) by (apply Z.leb_le; exact Hdl).
  unfold c02_remove. cbv zeta. wnorm Hw Hw'.
  rewrite (cp_of_list_pools _ _ _ Hc). cbv beta iota. wnorm Hw Hw'.
  set (n := dlpt - 1000) in *.
  pose proof (cp_of_list_In _ _ _ Hc) as Hin. fold (pools s) in Hin.
  destruct (inv_rng _ I _ _ Hin) as (Hn & Hcp).
  destruct M as (ML & MS & _). destruct R as (RP & _).
  pose proof (ML (pool_acct n) std) as E1. pose proof (ML (pool_acct n) cp) as E2.
  unfold remove_sheet in E1, E2. ev_ind E1. ev_ind E2.
  assert (Es : bal (led s) (pool_acct n) std - bal (led s') (pool_acct n) std = a1) by lia.
  assert (Et : bal (led s) (pool_acct n) cp - bal (led s') (pool_acct n) cp = a2) by lia.
  rewrite !Es, !Et.
  match goal with |- context [delta_ok ?l ?l' ?f] => assert (Hsheet : delta_ok l l' f = true) end.
  { apply (delta_ok_intro _ _ _ _ (wsim_ML _ _ _ _ _ Hw Hw' ML)). intros a' d'. unfold remove_sheet. lia. }
  match goal with |- context [sdelta_ok ?l ?l' ?f] => assert (Hsup : sdelta_ok l l' f = true) end.
  { apply (sdelta_ok_intro _ _ _ _ (wsim_MS _ _ _ _ _ Hw Hw' MS)). intros d'. unfold lpt_delta. reflexivity. }
  rewrite Hsheet, Hsup, RP, pools_eqb_refl, Hdlb.
  replace (0 <=? a1) with true by (symmetry; apply Z.leb_le; lia).
  replace (0 <=? a2) with true by (symmetry; apply Z.leb_le; lia).
  replace (min_std <=? a1) with true by (symmetry; apply Z.leb_le; lia).
  replace (min_tok <=? a2) with true by (symmetry; apply Z.leb_le; lia).
  reflexivity.
Qed.

Lemma c02_add_uni_model s a cp dtok exact min_liq deadline s' res w w' :
  wsim w s -> wsim w' s' ->
  Inv s -> is_pool_acct a = false ->
  exec_add_uni s a cp dtok exact min_liq deadline = Ret (s', res) ->
  c02_add_uni a cp dtok exact min_liq deadline w w' = 0.
Proof.
  intros Hw Hw' I Hs E. apply not_pool_le in Hs.
  destruct (exec_add_uni_spec _ _ _ _ _ _ _ _ _ E) as (n & mint & Hp & Hdt & Hdl & Hex & _ & _ & Hml & Hm0 & _ & M & R).
  assert (Hdlb : (now s <=? deadline) = true) by (apply Z.leb_le; exact Hdl).
  unfold c02_add_uni. cbv zeta. wnorm Hw Hw'.
  unfold pool_lookup. change (get cp (pools s)) with (pool_of s cp). rewrite Hp. cbv beta iota. wnorm Hw Hw'.
  destruct (inv_rng _ I _ _ (pool_of_In _ _ _ Hp)) as (Hn & Hcp).
  destruct M as (ML & MS & _). destruct R as (RP & _).
  pose proof (MS (lpt n)) as E2. unfold lpt_delta in E2. ev_ind E2.
  assert (Em : supply s' (lpt n) - supply s (lpt n) = mint) by lia.
  rewrite !Em.
  match goal with |- context [delta_ok ?l ?l' ?f] => assert (Hsheet : delta_ok l l' f = true) end.
  { apply (delta_ok_intro _ _ _ _ (wsim_ML _ _ _ _ _ Hw Hw' ML)). intros a' d'. unfold uni_add_sheet. lia. }
  match goal with |- context [sdelta_ok ?l ?l' ?f] => assert (Hsup : sdelta_ok l l' f = true) end.
  { apply (sdelta_ok_intro _ _ _ _ (wsim_MS _ _ _ _ _ Hw Hw' MS)). intros d'. unfold lpt_delta. reflexivity. }
  rewrite Hsheet, Hsup, RP, pools_eqb_refl, Hdlb.
  replace (0 <=? mint) with true by (symmetry; apply Z.leb_le; lia).
  replace (min_liq <=? mint) with true by (symmetry; apply Z.leb_le; lia).
  replace ((dtok =? cp) || (dtok =? std)) with true
    by (symmetry; apply orb_true_iff; destruct Hdt; [left|right]; apply Z.eqb_eq; assumption).
  reflexivity.
Qed.

Lemma c02_remove_uni_model s a cp dtok min_tok wd deadline s' res w w' :
  wsim w s -> wsim w' s' ->
  Inv s -> is_pool_acct a = false ->
  exec_remove_uni s a cp dtok min_tok wd deadline = Ret (s', res) ->
  c02_remove_uni a cp dtok min_tok wd deadline w w' = 0.
Proof.
  intros Hw Hw' I Hs E. apply not_pool_le in Hs.
  destruct (exec_remove_uni_spec _ _ _ _ _ _ _ _ _ E) as (n & target & Hp & Hdt & Hdl & Hwd & _ & Hmt & Hm0 & _ & M & R).
  assert (Hdlb : (now s <=? deadline) = true) by (apply Z.leb_le; exact Hdl).
  unfold c02_remove_uni. cbv zeta. wnorm Hw Hw'.
  unfold pool_lookup. change (get cp (pools s)) with (pool_of s cp). rewrite Hp. cbv beta iota. wnorm Hw Hw'.
  destruct (inv_rng _ I _ _ (pool_of_In _ _ _ Hp)) as (Hn & Hcp).
  destruct M as (ML & MS & _). destruct R as (RP & _).
  pose proof (ML (pool_acct n) dtok) as E1. unfold uni_remove_sheet in E1. ev_ind E1.
  assert (Et : bal (led s) (pool_acct n) dtok - bal (led s') (pool_acct n) dtok = target) by lia.
  rewrite !Et.
  match goal with |- context [delta_ok ?l ?l' ?f] => assert (Hsheet : delta_ok l l' f = true) end.
  { apply (delta_ok_intro _ _ _ _ (wsim_ML _ _ _ _ _ Hw Hw' ML)). intros a' d'. unfold uni_remove_sheet. lia. }
  match goal with |- context [sdelta_ok ?l ?l' ?f] => assert (Hsup : sdelta_ok l l' f = true) end.
  { apply (sdelta_ok_intro _ _ _ _ (wsim_MS _ _ _ _ _ Hw Hw' MS)). intros d'. unfold lpt_delta. reflexivity. }
  rewrite Hsheet, Hsup, RP, pools_eqb_refl, Hdlb.
  replace (0 <=? target) with true by (symmetry; apply Z.leb_le; lia).
  replace (min_tok <=? target) with true by (symmetry; apply Z.leb_le; lia).
  replace ((dtok =? cp) || (dtok =? std)) with true
    by (symmetry; apply orb_true_iff; destruct Hdt; [left|right]; apply Z.eqb_eq; assumption).
  reflexivity.
Qed.

(** ** C02: the predicate on a model step *)

(** what may be signed and said: by users (or the authority), a creation fee never in an LPT denom *)
Definition msg_ok (m : msg) : Prop :=
  signer_ok m /\ match m with MUpdateParams _ q => p_cdenom q <= 1000 | _ => True end.

Lemma c02_main_sim_ok s m s' r o w w' :
  wsim w s -> wsim w' s' ->
  Inv s -> signer_ok m -> p_cdenom (par s) <= 1000 ->
  exec s m = Ret (s', r) -> o_code o = 0 ->
  c02_main (par s) m o w w' = 0.
Proof.
  intros Hw Hw' I Hs Hcd E Ho. unfold c02_main. rewrite Ho. change (0 =? 0) with true. cbn [negb].
  destruct m as [buy sender rcpt din ain dout aout deadline | sender dtok max_tok exact min_liq deadline
                | sender dlpt wd min_std min_tok deadline | sender cp0 dtok exact min_liq deadline
                | sender cp0 dtok min_tok wd deadline | from to d amt | dt | auth q];
    unfold signer_ok in Hs; simpl in Hs, E.
  - rewrite (ws_pools _ _ Hw).
    destruct (rcpt_is_leg_pool (pools s) rcpt din dout) eqn:Hr; [reflexivity|].
    destruct Hs as (Hs & _). eapply c02_swap_model; eassumption.
  - destruct Hs as (Hs & Hf & Hm). eapply c02_add_model; eassumption.
  - destruct Hs as (Hs & _). eapply c02_remove_model; eassumption.
  - destruct Hs as (Hs & _). eapply c02_add_uni_model; eassumption.
  - destruct Hs as (Hs & _). eapply c02_remove_uni_model; eassumption.
  - destruct (exec_send_spec _ _ _ _ _ _ _ E) as (_ & _ & _ & M & R).
    destruct M as (ML & MS & _). destruct R as (RP & _).
    rewrite (ws_pools _ _ Hw), (ws_pools _ _ Hw').
    rewrite (delta_ok_intro _ _ _ (fun a' d' => ind (at_ from d a' d') (- amt) + ind (at_ to d a' d') amt)
               (wsim_ML _ _ _ _ _ Hw Hw' ML)) by reflexivity.
    rewrite (sdelta_ok_intro _ _ _ (fun _ => 0) (wsim_MS _ _ _ _ _ Hw Hw' MS)) by reflexivity.
    rewrite RP, pools_eqb_refl. reflexivity.
  - inversion E; subst.
    assert (ML : forall a d, bal (led {| led := led s; sup := sup s; pools := pools s; seq := seq s; now := now s + dt; par := par s |}) a d
                             = bal (led s) a d + zero2 a d) by (intros; unfold zero2; simpl; lia).
    assert (MS : forall d, supply {| led := led s; sup := sup s; pools := pools s; seq := seq s; now := now s + dt; par := par s |} d
                           = supply s d + zero1 d) by (intros; unfold zero1, supply; simpl; lia).
    unfold unchanged. rewrite (ws_pools _ _ Hw), (ws_pools _ _ Hw'). cbn [pools].
    rewrite pools_eqb_refl.
    rewrite (delta_ok_intro _ _ _ (fun _ _ => 0) (wsim_ML _ _ _ _ _ Hw Hw' ML)) by reflexivity.
    rewrite (sdelta_ok_intro _ _ _ (fun _ => 0) (wsim_MS _ _ _ _ _ Hw Hw' MS)) by reflexivity.
    reflexivity.
  - destruct (exec_update_params_spec _ _ _ _ _ E) as (_ & Ha & Hv & HLed & HSup & (RP & _) & _ & _).
    assert (ML : forall a d, bal (led s') a d = bal (led s) a d + zero2 a d) by (intros; rewrite HLed; unfold zero2; lia).
    assert (MS : forall d, supply s' d = supply s d + zero1 d) by (intros; unfold supply, zero1; rewrite HSup; lia).
    unfold unchanged. rewrite (ws_pools _ _ Hw), (ws_pools _ _ Hw'), RP.
    rewrite pools_eqb_refl.
    rewrite (delta_ok_intro _ _ _ (fun _ _ => 0) (wsim_ML _ _ _ _ _ Hw Hw' ML)) by reflexivity.
    rewrite (sdelta_ok_intro _ _ _ (fun _ => 0) (wsim_MS _ _ _ _ _ Hw Hw' MS)) by reflexivity.
    rewrite Hv. subst auth. rewrite Z.eqb_refl. reflexivity.
Qed.

Lemma par_expected_model s m s' r o w :
  wsim w s -> exec s m = Ret (s', r) -> o_code o = 0 -> par_expected m o w = par s'.
Proof.
  intros Hw E Ho. pose proof (step_par s m) as SP. rewrite (step_Ret _ _ _ _ E) in SP.
  unfold par_expected. rewrite (ws_par _ _ Hw).
  destruct m; try (destruct SP as [->|(p & Hm & _)]; [reflexivity|discriminate]).
  rewrite Ho. change (0 =? 0) with true. cbv iota.
  simpl in E. destruct (exec_update_params_spec _ _ _ _ _ E) as (_ & _ & _ & _ & _ & _ & _ & Hp). symmetry. exact Hp.
Qed.

Theorem c02_step_sim_ok s m s' r o w w' :
  wsim w s -> wsim w' s' ->
  Inv s -> signer_ok m -> p_cdenom (par s) <= 1000 ->
  exec s m = Ret (s', r) -> o_code o = 0 ->
  c02_step (par s) m o w w' = 0.
Proof.
  intros Hw Hw' I Hs Hcd E Ho. unfold c02_step.
  rewrite (c02_main_sim_ok s m s' r o w w' Hw Hw' I Hs Hcd E Ho).
  rewrite (par_expected_model s m s' r o w Hw E Ho). rewrite (ws_par _ _ Hw').
  rewrite par_eqb_refl. reflexivity.
Qed.

Theorem c02_step_model_ok s m s' r o :
  Inv s -> signer_ok m -> p_cdenom (par s) <= 1000 ->
  exec s m = Ret (s', r) -> o_code o = 0 ->
  c02_step (par s) m o (world_of s) (world_of s') = 0.
Proof. intros. eapply c02_step_sim_ok; eauto using wsim_world_of. Qed.

(** ** the model never fails with the outcome "ok", so code 0 means success *)
Definition nok {A} (r : res A) : Prop := r <> Fail Ok.

Lemma ret_nok {A} (a : A) : nok (Ret a).
Proof. unfold nok. discriminate. Qed.
Lemma bind_nok {A B} (m : res A) (f : A -> res B) : nok m -> (forall a, nok (f a)) -> nok (bind m f).
Proof.
  unfold nok. destruct m as [a|o]; simpl; intros Hm Hf; [apply Hf|].
  intros H. apply Hm. inversion H. reflexivity.
Qed.
Lemma guard_nok b : nok (guard b).
Proof. unfold nok, guard. destruct b; discriminate. Qed.
Lemma chk_nok x : nok (chk x).
Proof. unfold nok, chk. destruct (int_ok x); discriminate. Qed.
Lemma quo_nok a b : nok (quo a b).
Proof. unfold nok, quo. destruct (b =? 0); discriminate. Qed.
Lemma lift_nok {A} (o : option A) : nok (lift o).
Proof. unfold nok, lift. destruct o; discriminate. Qed.
Lemma fail_rej_nok {A} : nok (@Fail A Rej).
Proof. unfold nok. discriminate. Qed.
Lemma fail_abort_nok {A} : nok (@Fail A Abort).
Proof. unfold nok. discriminate. Qed.

Ltac nok_step :=
  first [ apply ret_nok | apply guard_nok | apply chk_nok | apply quo_nok | apply lift_nok
        | apply fail_rej_nok | apply fail_abort_nok
        | apply bind_nok; [|intros]
        | match goal with
          | |- nok (if ?b then _ else _) => destruct b
          | |- nok (match ?x with _ => _ end) => destruct x
          end ].
Ltac nok_all := cbv zeta; repeat nok_step.

Lemma lpt_of_denoms_nok s a b : nok (lpt_of_denoms s a b).
Proof. unfold lpt_of_denoms. nok_all. Qed.
Lemma bsend_nok s a b d x : nok (bsend s a b d x).
Proof. unfold bsend. nok_all. Qed.
Lemma mint_to_nok s a d x : nok (mint_to s a d x).
Proof. unfold mint_to. nok_all. Qed.
Lemma burn_from_nok s a d x : nok (burn_from s a d x).
Proof. unfold burn_from. nok_all. Qed.
Lemma input_price_nok a x y p : nok (input_price a x y p).
Proof. unfold input_price. nok_all. Qed.
Lemma output_price_nok a x y p : nok (output_price a x y p).
Proof. unfold output_price. nok_all. Qed.
Lemma swap_coins_nok s a b c d e f : nok (swap_coins s a b c d e f).
Proof. unfold swap_coins. nok_all; first [apply lpt_of_denoms_nok | apply bsend_nok]. Qed.
Lemma calc_in_nok s a b c : nok (calc_in s a b c).
Proof. unfold calc_in. nok_all; first [apply lpt_of_denoms_nok | apply input_price_nok]. Qed.
Lemma calc_out_nok s a b c : nok (calc_out s a b c).
Proof. unfold calc_out. nok_all; first [apply lpt_of_denoms_nok | apply output_price_nok]. Qed.
Lemma add_liq_nok s a b c d e f : nok (add_liq s a b c d e f).
Proof. unfold add_liq. nok_all; first [apply bsend_nok | apply mint_to_nok]. Qed.
Lemma deduct_fee_nok s a : nok (deduct_fee s a).
Proof. unfold deduct_fee. nok_all; first [apply bsend_nok | apply burn_from_nok]. Qed.

Ltac nok_leaf :=
  first [ apply lpt_of_denoms_nok | apply bsend_nok | apply mint_to_nok | apply burn_from_nok
        | apply swap_coins_nok | apply calc_in_nok | apply calc_out_nok | apply add_liq_nok | apply deduct_fee_nok ].

Lemma exec_nok s m : nok (exec s m).
Proof.
  destruct m; simpl.
  - unfold exec_swap. cbv zeta.
    destruct buy; destruct (negb (din =? std) && negb (dout =? std));
      unfold dtrade_out, trade_out, dtrade_in, trade_in, leg1_rcpt; nok_all; try nok_leaf.
  - unfold exec_add. nok_all; try nok_leaf.
  - unfold exec_remove. nok_all; try nok_leaf.
  - unfold exec_add_uni. nok_all; try nok_leaf.
  - unfold exec_remove_uni. nok_all; try nok_leaf.
  - unfold exec_send. nok_all; try nok_leaf.
  - apply ret_nok.
  - unfold exec_update_params. nok_all.
Qed.

Lemma code_zero_Ret s m : code_of s m = 0 -> exists s' r, exec s m = Ret (s', r).
Proof.
  unfold code_of. pose proof (exec_nok s m) as N. destruct (exec s m) as [[s' r]|o]; [eauto|].
  destruct o; simpl; intros H; try discriminate. exfalso. apply N. reflexivity.
Qed.

(** ** whole histories: the observation the model itself would give, and both predicates *)
Definition obs_of (s : state) (m : msg) : obs := mkObs (code_of s m) (resp_of s m) [] [] (pools (step s m)) (par (step s m)).

Fixpoint prop_codes (s : state) (ms : list msg) : list (Z * Z) :=
  match ms with
  | [] => []
  | m :: ms' =>
      (c01_step (par s) m (obs_of s m) (world_of s) (world_of (step s m)),
       c02_step (par s) m (obs_of s m) (world_of s) (world_of (step s m))) :: prop_codes (step s m) ms'
  end.

Lemma msg_ok_cdenom s m : msg_ok m -> p_cdenom (par s) <= 1000 -> p_cdenom (par (step s m)) <= 1000.
Proof.
  intros (_ & Hq) Hcd. destruct (step_par s m) as [->|(p & -> & _ & ->)]; [exact Hcd|exact Hq].
Qed.

Theorem model_history_passes ms : forall s,
  Inv s -> Forall msg_ok ms -> p_cdenom (par s) <= 1000 ->
  Forall (fun c => c = (0, 0)) (prop_codes s ms).
Proof.
  induction ms as [|m ms IH]; intros s I Hok Hcd; simpl; [constructor|].
  inversion Hok as [|? ? Hm Hms]; subst. pose proof Hm as (Hsg & _).
  constructor.
  - destruct (exec s m) as [[s' r]|f] eqn:E.
    + assert (Hc : o_code (obs_of s m) = 0) by (unfold obs_of, code_of; simpl; rewrite E; reflexivity).
      rewrite (step_Ret _ _ _ _ E).
      rewrite (c01_step_model_ok s m s' r _ I (signer_sender_ok _ Hsg) E Hc).
      rewrite (c02_step_model_ok s m s' r _ I Hsg Hcd E Hc). reflexivity.
    + assert (Hc : o_code (obs_of s m) <> 0).
      { intros Hz. destruct (code_zero_Ret s m Hz) as (s' & r & E'). congruence. }
      rewrite (failed_step_changes_nothing _ _ _ E).
      rewrite (c01_step_model_fail s m f _ I (signer_sender_ok _ Hsg) E Hc).
      rewrite (c02_step_model_fail s m f _ E Hc). reflexivity.
  - apply IH; [apply Inv_step; exact I|exact Hms|apply msg_ok_cdenom; assumption].
Qed.
