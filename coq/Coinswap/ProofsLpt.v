(** * Coinswap: liquidity tokens are minted only against deposits and burned only against withdrawals. *)
From Irismod Require Import Coinswap.Model Coinswap.Check Coinswap.ProofsArith Coinswap.ProofsSpec
  Coinswap.Proofs Coinswap.ProofsValue.
From Coq Require Import Lia.

Local Open Scope Z_scope.

(** what a step did to pool [n] (counterparty [cp]) and to the signer's holding of its LPT *)
Definition lpt_step_ok (s s' : state) (m : msg) (cp n : Z) : Prop :=
  let dL := liquidity s' n - liquidity s n in
  let dS := reserve_std s' n - reserve_std s n in
  let dT := reserve_tok s' cp n - reserve_tok s cp n in
  (0 < dL -> 0 <= dS /\ 0 <= dT /\ 0 < dS + dT
             /\ exists a, sender_of m = Some a /\ bal (led s') a (lpt n) = bal (led s) a (lpt n) + dL)
  /\ (dL < 0 -> dS <= 0 /\ dT <= 0
             /\ exists a, sender_of m = Some a /\ bal (led s') a (lpt n) = bal (led s) a (lpt n) + dL).

Lemma lpt_step_same s s' m cp n : liquidity s' n = liquidity s n -> lpt_step_ok s s' m cp n.
Proof. intros E. unfold lpt_step_ok. cbv zeta. rewrite E. split; intros; lia. Qed.

Lemma lpt_step_lemma s m cp n :
  Inv s -> sender_ok m -> In (cp, n) (pools s) -> p_cdenom (par s) <= 1000 ->
  lpt_step_ok s (step s m) m cp n.
Proof.
  intros I Hs Hin Hcd. destruct (inv_rng _ I _ _ Hin) as (Hn & Hcp). pose proof (inv_cp _ I _ _ Hin) as Hcpl.
  pose proof (inv_nn _ I (pool_acct n) std) as NS. pose proof (inv_nn _ I (pool_acct n) cp) as NT.
  unfold step. destruct (exec s m) as [[s' r]|o] eqn:E; [|apply lpt_step_same; reflexivity].
  destruct m as [buy sender rcpt din ain dout aout deadline | sender dtok max_tok exact min_liq deadline
                | sender dlpt w min_std min_tok deadline | sender cp0 dtok exact min_liq deadline
                | sender cp0 dtok min_tok w deadline | from to d amt | dt | auth q];
    unfold sender_ok in Hs; simpl in Hs, E; try (apply not_pool_le in Hs).
  - destruct (swap_balance_sheet_lemma _ _ _ _ _ _ _ _ _ _ _ E) as (_ & _ & _ & _ & HS & _).
    apply lpt_step_same. unfold liquidity. apply HS.
  - destruct (exec_add_spec _ _ _ _ _ _ _ _ _ E) as (_ & Hmax & Hex & Hstd & _ & mint & _ & Hm & AE).
    destruct AE as [tax Hp Htax _ _ _ M Hps _ | n0 Hp He Hmx _ M R | n0 dep Hp He HS0 HT0 HL0 Hmt Hd _ _ M R];
      destruct M as (ML & MS & _);
      pose proof (ML (pool_acct n) std) as ES; pose proof (ML (pool_acct n) cp) as ET;
      pose proof (MS (lpt n)) as EL; pose proof (ML sender (lpt n)) as EA.
    + unfold fee_sheet, add_sheet in ES, ET, EA. unfold lpt_delta in EL. ev_ind ES. ev_ind ET. ev_ind EL. ev_ind EA.
      apply lpt_step_same. unfold liquidity. rewrite EL. ring.
    + apply pool_of_In in Hp. destruct (inv_rng _ I _ _ Hp) as (Hn0 & _).
      unfold add_sheet in ES, ET, EA. unfold lpt_delta in EL.
      destruct (Z.eq_dec n0 n) as [->|Hne].
      * pose proof (reg_same_n _ _ _ _ I Hp Hin) as Hc. subst dtok.
        ev_ind ES. ev_ind ET. ev_ind EL. ev_ind EA.
        unfold lpt_step_ok, liquidity, reserve_std, reserve_tok. cbv zeta. split; intros HdL; [|lia].
        repeat split; try lia. exists sender. split; [reflexivity|lia].
      * ev_ind EL. apply lpt_step_same. unfold liquidity. rewrite EL. ring.
    + apply pool_of_In in Hp. destruct (inv_rng _ I _ _ Hp) as (Hn0 & _).
      unfold add_sheet in ES, ET, EA. unfold lpt_delta in EL.
      destruct (Z.eq_dec n0 n) as [->|Hne].
      * pose proof (reg_same_n _ _ _ _ I Hp Hin) as Hc. subst dtok.
        ev_ind ES. ev_ind ET. ev_ind EL. ev_ind EA.
        assert (0 <= dep).
        { unfold reserve_std, reserve_tok in *. rewrite quot_div_nonneg in Hd by nia.
          assert (0 <= bal (led s) (pool_acct n) cp * exact / bal (led s) (pool_acct n) std) by (apply Z.div_pos; nia). lia. }
        unfold lpt_step_ok, liquidity, reserve_std, reserve_tok. cbv zeta. split; intros HdL; [|lia].
        repeat split; try lia. exists sender. split; [reflexivity|lia].
      * ev_ind EL. apply lpt_step_same. unfold liquidity. rewrite EL. ring.
  - pose proof (exec_remove_spec _ _ _ _ _ _ _ _ _ E) as X. cbv zeta in X.
    destruct X as (cp0 & a1 & a2 & Hc & _ & Hw & _ & _ & _ & _ & H1 & H2 & _ & M & R).
    apply cp_of_list_In in Hc. fold (pools s) in Hc. destruct (inv_rng _ I _ _ Hc) as (Hn0 & _).
    destruct M as (ML & MS & _).
    pose proof (ML (pool_acct n) std) as ES. pose proof (ML (pool_acct n) cp) as ET.
    pose proof (MS (lpt n)) as EL. pose proof (ML sender (lpt n)) as EA.
    unfold remove_sheet in ES, ET, EA. unfold lpt_delta in EL.
    destruct (Z.eq_dec (dlpt - 1000) n) as [Heq|Hne].
    + rewrite Heq in *. pose proof (reg_same_n _ _ _ _ I Hc Hin) as Hcc. subst cp0.
      ev_ind ES. ev_ind ET. ev_ind EL. ev_ind EA.
      unfold lpt_step_ok, liquidity, reserve_std, reserve_tok. cbv zeta. split; intros HdL; [lia|].
      repeat split; try lia. exists sender. split; [reflexivity|lia].
    + ev_ind EL. apply lpt_step_same. unfold liquidity. rewrite EL. ring.
  - destruct (exec_add_uni_spec _ _ _ _ _ _ _ _ _ E) as (n0 & mint & Hp & Hdt & _ & Hex & _ & _ & _ & Hm0 & _ & M & R).
    apply pool_of_In in Hp. destruct (inv_rng _ I _ _ Hp) as (Hn0 & Hcp0).
    destruct M as (ML & MS & _).
    pose proof (ML (pool_acct n) std) as ES. pose proof (ML (pool_acct n) cp) as ET.
    pose proof (MS (lpt n)) as EL. pose proof (ML sender (lpt n)) as EA.
    unfold uni_add_sheet in ES, ET, EA. unfold lpt_delta in EL.
    destruct (Z.eq_dec n0 n) as [Heq|Hne].
    + subst n0. pose proof (reg_same_n _ _ _ _ I Hp Hin) as Hcc. subst cp0.
      destruct Hdt as [Hdt|Hdt]; subst dtok; ev_ind ES; ev_ind ET; ev_ind EL; ev_ind EA;
        unfold lpt_step_ok, liquidity, reserve_std, reserve_tok; cbv zeta; (split; intros HdL; [|lia]);
        repeat split; try lia; exists sender; (split; [reflexivity|lia]).
    + ev_ind EL. apply lpt_step_same. unfold liquidity. rewrite EL. ring.
  - destruct (exec_remove_uni_spec _ _ _ _ _ _ _ _ _ E) as (n0 & target & Hp & Hdt & _ & Hw & _ & Hmt & Hm0 & _ & M & R).
    apply pool_of_In in Hp. destruct (inv_rng _ I _ _ Hp) as (Hn0 & Hcp0).
    destruct M as (ML & MS & _).
    pose proof (ML (pool_acct n) std) as ES. pose proof (ML (pool_acct n) cp) as ET.
    pose proof (MS (lpt n)) as EL. pose proof (ML sender (lpt n)) as EA.
    unfold uni_remove_sheet in ES, ET, EA. unfold lpt_delta in EL.
    destruct (Z.eq_dec n0 n) as [Heq|Hne].
    + subst n0. pose proof (reg_same_n _ _ _ _ I Hp Hin) as Hcc. subst cp0.
      destruct Hdt as [Hdt|Hdt]; subst dtok; ev_ind ES; ev_ind ET; ev_ind EL; ev_ind EA;
        unfold lpt_step_ok, liquidity, reserve_std, reserve_tok; cbv zeta; (split; intros HdL; [lia|]);
        repeat split; try lia; exists sender; (split; [reflexivity|lia]).
    + ev_ind EL. apply lpt_step_same. unfold liquidity. rewrite EL. ring.
  - destruct (exec_send_spec _ _ _ _ _ _ _ E) as (_ & _ & _ & M & _).
    destruct M as (_ & MS & _). apply lpt_step_same. unfold liquidity. rewrite MS. unfold zero1. lia.
  - inversion E; subst. apply lpt_step_same. reflexivity.
  - destruct (exec_update_params_spec _ _ _ _ _ E) as (_ & _ & _ & _ & HSup & _).
    apply lpt_step_same. unfold liquidity, supply. rewrite HSup. reflexivity.
Qed.
