(** * Coinswap: C01 — the value of a liquidity share, S*T/L^2, never falls.

    [Inv] is the invariant of reachable states that the argument needs (non-negative balances,
    fee parameters in range, the registry a bijection between counterparty denoms and pool
    numbers below the sequence).  It holds of the genesis state and is preserved by every step. *)
From Irismod Require Import Coinswap.Model Coinswap.Check Coinswap.ProofsArith Coinswap.ProofsSpec Coinswap.Proofs.
From Coq Require Import Lia.

Local Open Scope Z_scope.

Record Inv (s : state) : Prop := mkInv {
  inv_nn : nn s;
  inv_fee : 0 <= p_fee (par s) < P18;
  inv_ufee : 0 <= p_ufee (par s) <= P18;
  inv_fst : NoDup (map fst (pools s));
  inv_snd : NoDup (map snd (pools s));
  inv_rng : forall cp n, In (cp, n) (pools s) -> 1 <= n < seq s /\ cp <> std;
  inv_seq : 1 <= seq s;
  inv_cp : forall cp n, In (cp, n) (pools s) -> cp <= 1000   (* a counterparty denom is never an LPT denom *)
}.

(** who signs a message; pool escrow addresses have no key, so they never sign *)
Definition sender_of (m : msg) : option Z :=
  match m with
  | MSwap _ a _ _ _ _ _ _ => Some a
  | MAdd a _ _ _ _ _ => Some a
  | MRemove a _ _ _ _ _ => Some a
  | MAddUni a _ _ _ _ _ => Some a
  | MRemoveUni a _ _ _ _ _ => Some a
  | MSend a _ _ _ => Some a
  | MBlock _ => None
  | MUpdateParams a _ => Some a
  end.

Definition sender_ok (m : msg) : Prop :=
  match sender_of m with Some a => is_pool_acct a = false | None => True end.

(** ** registry facts *)
Lemma NoDup_map_inj {A B} (f : A -> B) (l : list A) x y :
  NoDup (map f l) -> In x l -> In y l -> f x = f y -> x = y.
Proof.
  induction l as [|z l IH]; simpl; intros Hnd Hx Hy Hf; [tauto|].
  inversion Hnd as [|? ? Hnotin Hnd']; subst.
  destruct Hx as [->|Hx]; destruct Hy as [->|Hy]; auto.
  - exfalso. apply Hnotin. rewrite Hf. apply in_map. exact Hy.
  - exfalso. apply Hnotin. rewrite <- Hf. apply in_map. exact Hx.
Qed.

Lemma reg_same_n s cp1 cp2 n : Inv s -> In (cp1, n) (pools s) -> In (cp2, n) (pools s) -> cp1 = cp2.
Proof.
  intros I H1 H2. pose proof (NoDup_map_inj snd _ _ _ (inv_snd _ I) H1 H2 eq_refl) as E. congruence.
Qed.

Lemma reg_same_cp s cp n1 n2 : Inv s -> In (cp, n1) (pools s) -> In (cp, n2) (pools s) -> n1 = n2.
Proof.
  intros I H1 H2. pose proof (NoDup_map_inj fst _ _ _ (inv_fst _ I) H1 H2 eq_refl) as E. congruence.
Qed.

Lemma lpt_of_denoms_inv s din dout n0 : lpt_of_denoms s din dout = Ret n0 ->
  din <> dout /\ ((din = std /\ pool_of s dout = Some n0) \/ (dout = std /\ din <> std /\ pool_of s din = Some n0)).
Proof.
  unfold lpt_of_denoms.
  destruct (Z.eqb_spec din dout) as [|Hne]; [discriminate|].
  destruct (Z.eqb_spec din std) as [E1|N1]; destruct (Z.eqb_spec dout std) as [E2|N2]; simpl;
    intros H; try discriminate; apply lift_Ret in H; split; auto.
Qed.

(** ** invariant preservation *)
Lemma Inv_same s s' f g : Inv s -> moves s s' f g -> same_reg s s' -> Inv s'.
Proof.
  intros I (_ & _ & (_ & P) & K) (R1 & R2). destruct I as [I1 I2 I3 I4 I5 I6 I7 I8].
  constructor; try rewrite P; try rewrite R1; try rewrite R2; auto.
Qed.

Lemma get_None_not_in_fst (l : list (Z * Z)) k : get k l = None -> ~ In k (map fst l).
Proof. apply get_None_notin. Qed.

Lemma NoDup_app_one {A} (l : list A) x : NoDup l -> ~ In x l -> NoDup (l ++ [x]).
Proof.
  induction l as [|y l IH]; simpl; intros Hnd Hx.
  - constructor; [simpl; tauto|constructor].
  - inversion Hnd; subst. constructor.
    + intros Hin. apply in_app_or in Hin. destruct Hin as [Hin|[->|[]]]; [contradiction|]. apply Hx. left; reflexivity.
    + apply IH; [assumption|]. intros Hin. apply Hx. right. exact Hin.
Qed.

Lemma Inv_step s m : Inv s -> Inv (step s m).
Proof.
  intros I. unfold step. destruct (exec s m) as [[s' r]|o] eqn:E; [|exact I].
  destruct m; simpl in E.
  - destruct (exec_swap_spec _ _ _ _ _ _ _ _ _ _ _ E) as (_ & _ & _ & _ & _ & _ & sold & bought & SE & _).
    destruct SE as [n _ _ _ M R | n1 n2 s1 mid _ _ _ _ _ _ M1 R1 M2 R2].
    + eapply Inv_same; eassumption.
    + eapply Inv_same; [eapply Inv_same|..]; eassumption.
  - destruct (exec_add_spec _ _ _ _ _ _ _ _ _ E) as (_ & _ & _ & Hstd & Hnl & mint & _ & _ & AE).
    unfold is_lpt in Hnl. apply Z.ltb_ge in Hnl.
    destruct AE as [tax Hp _ _ _ _ M Hps Hsq | n Hp _ _ _ M R | n dep Hp _ _ _ _ _ _ _ _ M R];
      [|eapply Inv_same; eassumption|eapply Inv_same; eassumption].
    destruct M as (_ & _ & (_ & P) & K). destruct I as [I1 I2 I3 I4 I5 I6 I7 I8].
    constructor; try rewrite P; try rewrite Hps; try rewrite Hsq; auto; try lia.
    + rewrite map_app. simpl. apply NoDup_app_one; [assumption|]. apply get_None_not_in_fst. exact Hp.
    + rewrite map_app. simpl. apply NoDup_app_one; [assumption|].
      intros Hin. apply in_map_iff in Hin. destruct Hin as ([c n'] & Hn' & Hin). simpl in Hn'. subst n'.
      destruct (I6 _ _ Hin). lia.
    + intros c n' Hin. apply in_app_or in Hin. destruct Hin as [Hin|[Hin|[]]].
      * destruct (I6 _ _ Hin). split; [lia|assumption].
      * inversion Hin; subst. split; [lia|assumption].
    + intros c n' Hin. apply in_app_or in Hin. destruct Hin as [Hin|[Hin|[]]].
      * exact (I8 _ _ Hin).
      * inversion Hin; subst. exact Hnl.
  - destruct (exec_remove_spec _ _ _ _ _ _ _ _ _ E) as (cp & a1 & a2 & _ & _ & _ & _ & _ & _ & _ & _ & _ & _ & M & R).
    eapply Inv_same; eassumption.
  - destruct (exec_add_uni_spec _ _ _ _ _ _ _ _ _ E) as (n & mint & _ & _ & _ & _ & _ & _ & _ & _ & _ & M & R).
    eapply Inv_same; eassumption.
  - destruct (exec_remove_uni_spec _ _ _ _ _ _ _ _ _ E) as (n & target & _ & _ & _ & _ & _ & _ & _ & _ & M & R).
    eapply Inv_same; eassumption.
  - destruct (exec_send_spec _ _ _ _ _ _ _ E) as (_ & _ & _ & M & R). eapply Inv_same; eassumption.
  - inversion E; subst. destruct I as [I1 I2 I3 I4 I5 I6 I7 I8]. constructor; auto.
  - destruct (exec_update_params_spec _ _ _ _ _ E) as (_ & _ & Hv & HL & _ & (R1 & R2) & _ & Hp).
    apply params_valid_range in Hv. destruct I as [I1 I2 I3 I4 I5 I6 I7 I8].
    constructor; try rewrite Hp; try rewrite R1; try rewrite R2; auto; try lia.
    intros a d. unfold nn in I1. rewrite HL. apply I1.
Qed.

Lemma Inv_run ms : forall s, Inv s -> Inv (run s ms).
Proof.
  induction ms as [|m ms IH]; intros s I; simpl; [exact I|]. apply IH. apply Inv_step. exact I.
Qed.

(** ** evaluating a sheet at a given account and denom *)
Lemma ind_at_ne_a a d a' d' x : a <> a' -> ind (at_ a d a' d') x = 0.
Proof. intros. apply ind_at_diff. intros Hc; inversion Hc; contradiction. Qed.
Lemma ind_at_ne_d a d a' d' x : d <> d' -> ind (at_ a d a' d') x = 0.
Proof. intros. apply ind_at_diff. intros Hc; inversion Hc; contradiction. Qed.
Lemma ind_at_eq a d a' d' x : a = a' -> d = d' -> ind (at_ a d a' d') x = x.
Proof. intros -> ->. apply ind_at_same. Qed.
Lemma ind_nonneg b x : 0 <= x -> 0 <= ind b x.
Proof. destruct b; simpl; lia. Qed.
Lemma ind_eqb_ne d d' x : d <> d' -> ind (d =? d') x = 0.
Proof. intros. unfold ind. destruct (Z.eqb_spec d d'); [contradiction|reflexivity]. Qed.
Lemma ind_eqb_eq d x : ind (d =? d) x = x.
Proof. unfold ind. rewrite Z.eqb_refl. reflexivity. Qed.

Ltac zsolve := unfold pool_acct, lpt, acct_feecol, acct_module, std in *; lia.

Ltac ev_ind H :=
  repeat match type of H with
  | context [ind (at_ ?a ?d ?a' ?d') ?x] =>
      first [ rewrite (ind_at_ne_a a d a' d' x) in H by zsolve
            | rewrite (ind_at_ne_d a d a' d' x) in H by zsolve
            | rewrite (ind_at_eq a d a' d' x) in H by zsolve ]
  | context [ind (?d =? ?d') ?x] =>
      first [ rewrite (ind_eqb_ne d d' x) in H by zsolve
            | rewrite (ind_eqb_eq d x) in H ]
  end.

Lemma not_pool_le a : is_pool_acct a = false -> a <= 1000.
Proof. unfold is_pool_acct. intros H. apply Z.ltb_ge in H. exact H. Qed.

Lemma P18_pos : 0 < P18.
Proof. reflexivity. Qed.

Lemma phi_range s : Inv s -> 0 < phi s <= P18.
Proof. intros I. pose proof (inv_fee _ I). unfold phi. lia. Qed.
Lemma phi_u_range s : Inv s -> 0 <= phi_u s <= P18.
Proof. intros I. pose proof (inv_ufee _ I). unfold phi_u. lia. Qed.

(** ** one swap leg *)
Lemma priced_facts (buy : bool) s n0 din dout paid recv :
  0 < phi s <= P18 -> 0 <= (if buy then recv else paid) ->
  priced buy s n0 din dout paid recv ->
  let x := bal (led s) (pool_acct n0) din in
  let y := bal (led s) (pool_acct n0) dout in
  0 < x /\ 0 < y /\ 0 <= paid /\ 0 <= recv <= y /\ x * y <= (x + paid) * (y - recv).
Proof.
  intros Hph H0 (Hx & Hy & Hp). cbv zeta.
  set (x := bal (led s) (pool_acct n0) din) in *. set (y := bal (led s) (pool_acct n0) dout) in *.
  pose proof P18_pos as HP.
  destruct buy.
  - destruct Hp as (Hr & Hp). apply output_price_Ret in Hp. destruct Hp as (Hden & Hpaid).
    rewrite quot_div_nonneg in Hpaid by nia.
    destruct (output_price_rule recv x y (phi s) P18) as (R1 & _ & R3); try lia.
    rewrite <- Hpaid in R1, R3.
    split; [exact Hx|]. split; [exact Hy|]. split; [lia|]. split; [lia|].
    apply (rule_product x y paid recv (phi s) P18); lia.
  - apply input_price_Ret in Hp. destruct Hp as (Hden & Hrecv).
    rewrite quot_div_nonneg in Hrecv by nia.
    destruct (input_price_rule paid x y (phi s) P18) as (R1 & _ & R3); try lia.
    rewrite <- Hrecv in R1, R3.
    split; [exact Hx|]. split; [exact Hy|]. split; [lia|]. split; [lia|].
    apply (rule_product x y paid recv (phi s) P18); lia.
Qed.

(** a leg on pool [n0] does not lower the reserve product of any registered pool, and leaves
    every pool other than [n0] with at least its reserves *)
Lemma leg_product s s' (buy : bool) sender rcpt n0 din dout paid recv cp n :
  Inv s -> In (cp, n) (pools s) -> is_pool_acct sender = false ->
  lpt_of_denoms s din dout = Ret n0 ->
  0 <= (if buy then recv else paid) ->
  priced buy s n0 din dout paid recv ->
  moves s s' (sheet1 sender rcpt (pool_acct n0) din dout paid recv) zero1 ->
  reserve_std s n * reserve_tok s cp n <= reserve_std s' n * reserve_tok s' cp n
  /\ (n0 <> n -> reserve_std s n <= reserve_std s' n /\ reserve_tok s cp n <= reserve_tok s' cp n)
  /\ liquidity s' n = liquidity s n.
Proof.
  intros I Hin Hs Hl H0 Hp M.
  pose proof (priced_facts _ _ _ _ _ _ _ (phi_range _ I) H0 Hp) as F. cbv zeta in F.
  destruct F as (Fx & Fy & Fp & Fr & Fprod).
  apply not_pool_le in Hs.
  destruct (inv_rng _ I _ _ Hin) as (Hn & Hcp).
  destruct (lpt_of_denoms_inv _ _ _ _ Hl) as (Hdd & Hcase).
  destruct M as (ML & MS & _ & MN).
  pose proof (ML (pool_acct n) std) as ES. pose proof (ML (pool_acct n) cp) as ET.
  pose proof (MS (lpt n)) as EL. unfold zero1 in EL.
  pose proof (inv_nn _ I (pool_acct n) std) as NS. pose proof (inv_nn _ I (pool_acct n) cp) as NT.
  unfold reserve_std, reserve_tok, liquidity. unfold sheet1 in ES, ET.
  split; [|split; [|lia]].
  - destruct (Z.eq_dec n0 n) as [->|Hne].
    + (* the leg is on this pool *)
      destruct Hcase as [(Hdi & Hpo)|(Hdo & Hdi & Hpo)]; apply pool_of_In in Hpo;
        pose proof (reg_same_n _ _ _ _ I Hpo Hin) as Hc; subst.
      * (* standard coin in, token out *)
        ev_ind ES. ev_ind ET.
        pose proof (ind_nonneg (at_ rcpt cp (pool_acct n) cp) recv ltac:(lia)).
        set (k := ind (at_ rcpt cp (pool_acct n) cp) recv) in *. clearbody k.
        rewrite ES, ET.
        set (x := bal (led s) (pool_acct n) std) in *. set (y := bal (led s) (pool_acct n) cp) in *.
        clearbody x y.
        assert ((x + paid) * (y - recv) <= (x + paid) * (y - recv + k)) by (apply Z.mul_le_mono_nonneg_l; lia).
        replace (x + (0 + 0 + paid + 0)) with (x + paid) by lia.
        replace (y + (0 + k + 0 + - recv)) with (y - recv + k) by lia. lia.
      * (* token in, standard coin out *)
        ev_ind ES. ev_ind ET.
        pose proof (ind_nonneg (at_ rcpt std (pool_acct n) std) recv ltac:(lia)).
        set (k := ind (at_ rcpt std (pool_acct n) std) recv) in *. clearbody k.
        rewrite ES, ET.
        set (y := bal (led s) (pool_acct n) std) in *. set (x := bal (led s) (pool_acct n) cp) in *.
        clearbody x y.
        assert ((x + paid) * (y - recv) <= (x + paid) * (y - recv + k)) by (apply Z.mul_le_mono_nonneg_l; lia).
        replace (y + (0 + k + 0 + - recv)) with (y - recv + k) by lia.
        replace (x + (0 + 0 + paid + 0)) with (x + paid) by lia. lia.
    + (* another pool: at most a credit *)
      ev_ind ES. ev_ind ET.
      pose proof (ind_nonneg (at_ rcpt dout (pool_acct n) std) recv ltac:(lia)).
      pose proof (ind_nonneg (at_ rcpt dout (pool_acct n) cp) recv ltac:(lia)).
      rewrite ES, ET. apply Z.mul_le_mono_nonneg; lia.
  - intros Hne. ev_ind ES. ev_ind ET.
    pose proof (ind_nonneg (at_ rcpt dout (pool_acct n) std) recv ltac:(lia)).
    pose proof (ind_nonneg (at_ rcpt dout (pool_acct n) cp) recv ltac:(lia)).
    lia.
Qed.

Lemma same_reg_In s s' p : same_reg s s' -> In p (pools s) -> In p (pools s').
Proof. intros [R _] H. rewrite R. exact H. Qed.

Lemma moves_phi s s' f g : moves s s' f g -> phi s' = phi s.
Proof. intros (_ & _ & (_ & P) & _). unfold phi. rewrite P. reflexivity. Qed.

(** ** a whole swap order *)
Lemma swap_value s s' (buy : bool) sender rcpt din dout sold bought cp n :
  Inv s -> In (cp, n) (pools s) -> is_pool_acct sender = false ->
  0 <= (if buy then bought else sold) -> din <> dout ->
  swap_effect buy s s' sender rcpt din dout sold bought ->
  reserve_std s n * reserve_tok s cp n <= reserve_std s' n * reserve_tok s' cp n
  /\ liquidity s' n = liquidity s n.
Proof.
  intros I Hin Hs H0 Hdd SE.
  destruct SE as [n0 Hd Hn Hp M R | n1 n2 s1 mid Hdi Hdo Hn1 Hn2 Hp1 Hp2 M1 R1 M2 R2].
  - destruct (leg_product _ _ _ _ _ _ _ _ _ _ _ _ I Hin Hs Hn H0 Hp M) as (A & _ & B). split; assumption.
  - assert (I1 : Inv s1) by (eapply Inv_same; eassumption).
    assert (Hin1 : In (cp, n) (pools s1)) by (eapply same_reg_In; eassumption).
    assert (Hn2' : lpt_of_denoms s1 std dout = Ret n2) by (rewrite (lpt_of_denoms_reg s s1); [exact Hn2|apply R1]).
    destruct buy.
    + (* exact output: both prices were computed in [s]; leg 1 does not touch pool n2 *)
      pose proof (priced_facts true _ _ _ _ _ _ (phi_range _ I) H0 Hp2) as F2. cbv zeta in F2.
      destruct F2 as (_ & _ & Fmid & _).
      destruct (lpt_of_denoms_inv _ _ _ _ Hn1) as (_ & [(Hx & _)|(_ & _ & Hpo1)]); [congruence|].
      destruct (lpt_of_denoms_inv _ _ _ _ Hn2) as (_ & [(_ & Hpo2)|(Hx & _)]); [|congruence].
      apply pool_of_In in Hpo1. apply pool_of_In in Hpo2.
      assert (Hn12 : n1 <> n2).
      { intros Heq. subst n2. apply Hdd. exact (reg_same_n _ _ _ _ I Hpo1 Hpo2). }
      destruct (inv_rng _ I _ _ Hpo1) as (Hr1 & _). destruct (inv_rng _ I _ _ Hpo2) as (Hr2 & _).
      pose proof (not_pool_le _ Hs) as Hsl.
      assert (Hp2' : priced true s1 n2 std dout mid bought).
      { unfold priced in *. rewrite (moves_phi _ _ _ _ M1).
        destruct M1 as (ML & _).
        pose proof (ML (pool_acct n2) std) as E1. pose proof (ML (pool_acct n2) dout) as E2.
        unfold sheet1 in E1, E2. ev_ind E1. ev_ind E2.
        replace (bal (led s1) (pool_acct n2) std) with (bal (led s) (pool_acct n2) std) by lia.
        replace (bal (led s1) (pool_acct n2) dout) with (bal (led s) (pool_acct n2) dout) by lia.
        exact Hp2. }
      destruct (leg_product _ _ true _ _ _ _ _ _ _ _ _ I Hin Hs Hn1 Fmid Hp1 M1) as (A1 & _ & B1).
      destruct (leg_product _ _ true _ _ _ _ _ _ _ _ _ I1 Hin1 Hs Hn2' H0 Hp2' M2) as (A2 & _ & B2).
      split; [lia|congruence].
    + pose proof (priced_facts false _ _ _ _ _ _ (phi_range _ I) H0 Hp1) as F1. cbv zeta in F1.
      destruct F1 as (_ & _ & _ & (Fmid & _) & _).
      destruct (leg_product _ _ false _ _ _ _ _ _ _ _ _ I Hin Hs Hn1 H0 Hp1 M1) as (A1 & _ & B1).
      destruct (leg_product _ _ false _ _ _ _ _ _ _ _ _ I1 Hin1 Hs Hn2' Fmid Hp2 M2) as (A2 & _ & B2).
      split; [lia|congruence].
Qed.

(** ** the value of a share of pool [n] (counterparty [cp]) did not fall from [s] to [s'] *)
Definition value_le (s s' : state) (cp n : Z) : Prop :=
  reserve_std s n * reserve_tok s cp n * (liquidity s' n * liquidity s' n)
  <= reserve_std s' n * reserve_tok s' cp n * (liquidity s n * liquidity s n).

Lemma value_le_refl s cp n : value_le s s cp n.
Proof. unfold value_le. lia. Qed.

Lemma value_le_prod s s' cp n :
  liquidity s' n = liquidity s n ->
  reserve_std s n * reserve_tok s cp n <= reserve_std s' n * reserve_tok s' cp n ->
  value_le s s' cp n.
Proof.
  unfold value_le. intros -> H. apply Z.mul_le_mono_nonneg_r; [|exact H].
  apply Z.square_nonneg.
Qed.

Lemma value_le_burn s s' cp n :
  nn s ->
  reserve_std s' n = reserve_std s n -> reserve_tok s' cp n = reserve_tok s cp n ->
  0 < liquidity s' n <= liquidity s n -> value_le s s' cp n.
Proof.
  unfold value_le. intros Hnn -> -> HL.
  pose proof (Hnn (pool_acct n) std). pose proof (Hnn (pool_acct n) cp).
  unfold reserve_std, reserve_tok in *.
  apply Z.mul_le_mono_nonneg_l; [apply Z.mul_nonneg_nonneg; assumption|]. nia.
Qed.

Lemma ind_nonpos b x : x <= 0 -> ind b x <= 0.
Proof. destruct b; simpl; lia. Qed.

Lemma acct_empty_bal l a d : acct_empty l a = true -> bal l a d = 0.
Proof.
  unfold acct_empty, bal. intros H.
  match goal with |- match ?g with _ => _ end = 0 => destruct g as [x|] eqn:E end; [|reflexivity].
  apply get_In in E. rewrite forallb_forall in H. specialize (H _ E). simpl in H.
  rewrite Z.eqb_refl in H. simpl in H. apply Z.eqb_eq in H. exact H.
Qed.

Lemma add_value s s' sender dtok max_tok exact min_liq mint cp n :
  Inv s -> Inv s' -> In (cp, n) (pools s) -> is_pool_acct sender = false -> 0 < exact -> 0 <= mint ->
  add_effect s s' sender dtok max_tok exact min_liq mint ->
  0 < liquidity s n -> 0 < liquidity s' n -> value_le s s' cp n.
Proof.
  intros I I' Hin Hs Hex Hmint AE HL HL'.
  apply not_pool_le in Hs. destruct (inv_rng _ I _ _ Hin) as (Hn & Hcp).
  pose proof (inv_nn _ I (pool_acct n) std) as NS. pose proof (inv_nn _ I (pool_acct n) cp) as NT.
  pose proof (inv_nn _ I' (pool_acct n) std) as NS'. pose proof (inv_nn _ I' (pool_acct n) cp) as NT'.
  destruct AE as [tax Hp Htax _ _ _ M Hps _ | n0 Hp He _ _ M R | n0 dep Hp He HS0 HT0 HL0 Hm Hd _ _ M R].
  - (* another pool is created; the burned fee may even be this pool's LPT denom *)
    destruct M as (ML & MS & _).
    pose proof (ML (pool_acct n) std) as ES. pose proof (ML (pool_acct n) cp) as ET. pose proof (MS (lpt n)) as EL.
    unfold fee_sheet, add_sheet in ES, ET. unfold lpt_delta in EL. ev_ind ES. ev_ind ET. ev_ind EL.
    pose proof (ind_nonpos (lpt n =? p_cdenom (par s)) (- (p_camt (par s) - tax)) ltac:(lia)).
    apply value_le_burn; [apply (inv_nn _ I)|unfold reserve_std; lia|unfold reserve_tok; lia|unfold liquidity in *; lia].
  - destruct M as (ML & MS & _).
    pose proof (ML (pool_acct n) std) as ES. pose proof (ML (pool_acct n) cp) as ET. pose proof (MS (lpt n)) as EL.
    unfold add_sheet in ES, ET. unfold lpt_delta in EL.
    destruct (Z.eq_dec n0 n) as [->|Hne].
    + (* the emptied pool restarts: the old value was 0 *)
      unfold value_le, reserve_std, reserve_tok. rewrite (acct_empty_bal _ _ std He).
      rewrite !Z.mul_0_l. apply Z.mul_nonneg_nonneg; [apply Z.mul_nonneg_nonneg; assumption|apply Z.square_nonneg].
    + apply pool_of_In in Hp. destruct (inv_rng _ I _ _ Hp) as (Hn0 & _).
      ev_ind ES. ev_ind ET. ev_ind EL.
      apply value_le_prod; [unfold liquidity; lia|]. unfold reserve_std, reserve_tok. rewrite ES, ET. lia.
  - destruct M as (ML & MS & _).
    pose proof (ML (pool_acct n) std) as ES. pose proof (ML (pool_acct n) cp) as ET. pose proof (MS (lpt n)) as EL.
    unfold add_sheet in ES, ET. unfold lpt_delta in EL.
    apply pool_of_In in Hp. destruct (inv_rng _ I _ _ Hp) as (Hn0 & _).
    destruct (Z.eq_dec n0 n) as [->|Hne].
    + pose proof (reg_same_n _ _ _ _ I Hp Hin) as Hc. subst dtok.
      ev_ind ES. ev_ind ET. ev_ind EL.
      unfold value_le. unfold reserve_std, reserve_tok, liquidity in *.
      set (S := bal (led s) (pool_acct n) std) in *. set (T := bal (led s) (pool_acct n) cp) in *.
      set (L := supply s (lpt n)) in *.
      rewrite quot_div_nonneg in Hm by nia. rewrite quot_div_nonneg in Hd by nia.
      pose proof (add_monotone S T L exact ltac:(lia) ltac:(lia) ltac:(lia) Hex) as A. cbv zeta in A.
      replace (bal (led s') (pool_acct n) std) with (S + exact) by lia.
      replace (bal (led s') (pool_acct n) cp) with (T + (T * exact / S + 1)) by lia.
      replace (supply s' (lpt n)) with (L + L * exact / S) by lia.
      exact A.
    + ev_ind ES. ev_ind ET. ev_ind EL.
      apply value_le_prod; [unfold liquidity; lia|]. unfold reserve_std, reserve_tok. rewrite ES, ET. lia.
Qed.

Lemma remove_value s s' sender dlpt w min_std min_tok deadline r cp n :
  Inv s -> In (cp, n) (pools s) -> is_pool_acct sender = false ->
  exec_remove s sender dlpt w min_std min_tok deadline = Ret (s', r) ->
  0 < liquidity s n -> value_le s s' cp n.
Proof.
  intros I Hin Hs E HL.
  apply not_pool_le in Hs. destruct (inv_rng _ I _ _ Hin) as (Hn & Hcp).
  pose proof (inv_nn _ I (pool_acct n) std) as NS. pose proof (inv_nn _ I (pool_acct n) cp) as NT.
  pose proof (exec_remove_spec _ _ _ _ _ _ _ _ _ E) as X. cbv zeta in X.
  destruct X as (cp0 & a1 & a2 & Hc & _ & Hw & Ha1 & Ha2 & _ & _ & _ & _ & _ & M & R).
  set (n0 := dlpt - 1000) in *.
  apply cp_of_list_In in Hc. fold (pools s) in Hc. destruct (inv_rng _ I _ _ Hc) as (Hn0 & _).
  destruct M as (ML & MS & _).
  pose proof (ML (pool_acct n) std) as ES. pose proof (ML (pool_acct n) cp) as ET. pose proof (MS (lpt n)) as EL.
  unfold remove_sheet in ES, ET. unfold lpt_delta in EL.
  destruct (Z.eq_dec n0 n) as [Heq|Hne].
  - rewrite Heq in *. pose proof (reg_same_n _ _ _ _ I Hc Hin) as Hcc. subst cp0.
    ev_ind ES. ev_ind ET. ev_ind EL.
    unfold value_le. unfold reserve_std, reserve_tok, liquidity in *.
    set (S := bal (led s) (pool_acct n) std) in *. set (T := bal (led s) (pool_acct n) cp) in *.
    set (L := supply s (lpt n)) in *.
    rewrite quot_div_nonneg in Ha1 by nia. rewrite quot_div_nonneg in Ha2 by nia.
    pose proof (remove_monotone S T L w NS NT HL ltac:(lia) ltac:(lia)) as A. cbv zeta in A. destruct A as (A & _).
    replace (bal (led s') (pool_acct n) std) with (S - w * S / L) by lia.
    replace (bal (led s') (pool_acct n) cp) with (T - w * T / L) by lia.
    replace (supply s' (lpt n)) with (L - w) by lia.
    exact A.
  - ev_ind ES. ev_ind ET. ev_ind EL.
    apply value_le_prod; [unfold liquidity; lia|]. unfold reserve_std, reserve_tok. rewrite ES, ET. lia.
Qed.

Lemma add_uni_value s s' sender cp0 dtok exact min_liq deadline r cp n :
  Inv s -> In (cp, n) (pools s) -> is_pool_acct sender = false ->
  exec_add_uni s sender cp0 dtok exact min_liq deadline = Ret (s', r) ->
  0 < liquidity s n -> value_le s s' cp n.
Proof.
  intros I Hin Hs E HL.
  apply not_pool_le in Hs. destruct (inv_rng _ I _ _ Hin) as (Hn & Hcp).
  pose proof (inv_nn _ I (pool_acct n) std) as NS. pose proof (inv_nn _ I (pool_acct n) cp) as NT.
  pose proof (phi_u_range _ I) as Hphi. pose proof P18_pos as HP.
  destruct (exec_add_uni_spec _ _ _ _ _ _ _ _ _ E) as (n0 & mint & Hp & Hdt & _ & Hex & Hnz & Hm & _ & Hm0 & _ & M & R).
  apply pool_of_In in Hp. destruct (inv_rng _ I _ _ Hp) as (Hn0 & Hcp0).
  destruct M as (ML & MS & _).
  pose proof (ML (pool_acct n) std) as ES. pose proof (ML (pool_acct n) cp) as ET. pose proof (MS (lpt n)) as EL.
  unfold uni_add_sheet in ES, ET. unfold lpt_delta in EL.
  destruct (Z.eq_dec n0 n) as [Heq|Hne].
  - subst n0. pose proof (reg_same_n _ _ _ _ I Hp Hin) as Hcc. subst cp0.
    unfold value_le. unfold reserve_std, reserve_tok, liquidity in *.
    set (S := bal (led s) (pool_acct n) std) in *. set (T := bal (led s) (pool_acct n) cp) in *.
    set (L := supply s (lpt n)) in *.
    destruct Hdt as [Hdt|Hdt]; subst dtok.
    + (* the token side *)
      fold T in Hnz, Hm. ev_ind ES. ev_ind ET. ev_ind EL.
      rewrite quot_div_nonneg in Hm by nia.
      pose proof (add_one_sided_monotone T L exact (phi_u s) P18 ltac:(lia) HL ltac:(lia) HP Hphi) as A.
      cbv zeta in A. destruct A as (A & _).
      replace (bal (led s') (pool_acct n) std) with S by lia.
      replace (bal (led s') (pool_acct n) cp) with (T + exact) by lia.
      replace (supply s' (lpt n)) with (Z.sqrt ((P18 * T + phi_u s * exact) * L * L / (P18 * T))) by lia.
      set (L' := Z.sqrt ((P18 * T + phi_u s * exact) * L * L / (P18 * T))) in *. clearbody L'.
      replace (S * T * (L' * L')) with (S * (T * (L' * L'))) by ring.
      replace (S * (T + exact) * (L * L)) with (S * ((T + exact) * (L * L))) by ring.
      apply Z.mul_le_mono_nonneg_l; assumption.
    + (* the standard side *)
      fold S in Hnz, Hm. ev_ind ES. ev_ind ET. ev_ind EL.
      rewrite quot_div_nonneg in Hm by nia.
      pose proof (add_one_sided_monotone S L exact (phi_u s) P18 ltac:(lia) HL ltac:(lia) HP Hphi) as A.
      cbv zeta in A. destruct A as (A & _).
      replace (bal (led s') (pool_acct n) std) with (S + exact) by lia.
      replace (bal (led s') (pool_acct n) cp) with T by lia.
      replace (supply s' (lpt n)) with (Z.sqrt ((P18 * S + phi_u s * exact) * L * L / (P18 * S))) by lia.
      set (L' := Z.sqrt ((P18 * S + phi_u s * exact) * L * L / (P18 * S))) in *. clearbody L'.
      replace (S * T * (L' * L')) with (T * (S * (L' * L'))) by ring.
      replace ((S + exact) * T * (L * L)) with (T * ((S + exact) * (L * L))) by ring.
      apply Z.mul_le_mono_nonneg_l; assumption.
  - ev_ind ES. ev_ind ET. ev_ind EL.
    apply value_le_prod; [unfold liquidity; lia|]. unfold reserve_std, reserve_tok. rewrite ES, ET. lia.
Qed.

Lemma remove_uni_value s s' sender cp0 dtok min_tok w deadline r cp n :
  Inv s -> In (cp, n) (pools s) -> is_pool_acct sender = false ->
  exec_remove_uni s sender cp0 dtok min_tok w deadline = Ret (s', r) ->
  0 < liquidity s n -> value_le s s' cp n.
Proof.
  intros I Hin Hs E HL.
  apply not_pool_le in Hs. destruct (inv_rng _ I _ _ Hin) as (Hn & Hcp).
  pose proof (inv_nn _ I (pool_acct n) std) as NS. pose proof (inv_nn _ I (pool_acct n) cp) as NT.
  pose proof (phi_u_range _ I) as Hphi. pose proof P18_pos as HP.
  destruct (exec_remove_uni_spec _ _ _ _ _ _ _ _ _ E) as (n0 & target & Hp & Hdt & _ & Hw & Ht & _ & _ & _ & M & R).
  apply pool_of_In in Hp. destruct (inv_rng _ I _ _ Hp) as (Hn0 & Hcp0).
  destruct M as (ML & MS & _).
  pose proof (ML (pool_acct n) std) as ES. pose proof (ML (pool_acct n) cp) as ET. pose proof (MS (lpt n)) as EL.
  unfold uni_remove_sheet in ES, ET. unfold lpt_delta in EL.
  destruct (Z.eq_dec n0 n) as [Heq|Hne].
  - subst n0. pose proof (reg_same_n _ _ _ _ I Hp Hin) as Hcc. subst cp0.
    unfold value_le. unfold reserve_std, reserve_tok, liquidity in *.
    set (S := bal (led s) (pool_acct n) std) in *. set (T := bal (led s) (pool_acct n) cp) in *.
    set (L := supply s (lpt n)) in *.
    destruct Hdt as [Hdt|Hdt]; subst dtok.
    + fold T in Ht. ev_ind ES. ev_ind ET. ev_ind EL.
      rewrite quot_div_nonneg in Ht by nia.
      replace (L + L - w) with (2 * L - w) in Ht by lia.
      pose proof (remove_one_sided_monotone T L w (phi_u s) P18 NT HL ltac:(lia) ltac:(lia) HP Hphi) as A.
      cbv zeta in A. destruct A as (A & _).
      replace (bal (led s') (pool_acct n) std) with S by lia.
      replace (bal (led s') (pool_acct n) cp) with (T - target) by lia.
      replace (supply s' (lpt n)) with (L - w) by lia.
      rewrite Ht.
      replace (S * T * ((L - w) * (L - w))) with (S * (T * ((L - w) * (L - w)))) by ring.
      match goal with |- _ <= S * ?t * (L * L) => replace (S * t * (L * L)) with (S * (t * (L * L))) by ring end.
      apply Z.mul_le_mono_nonneg_l; assumption.
    + fold S in Ht. ev_ind ES. ev_ind ET. ev_ind EL.
      rewrite quot_div_nonneg in Ht by nia.
      replace (L + L - w) with (2 * L - w) in Ht by lia.
      pose proof (remove_one_sided_monotone S L w (phi_u s) P18 NS HL ltac:(lia) ltac:(lia) HP Hphi) as A.
      cbv zeta in A. destruct A as (A & _).
      replace (bal (led s') (pool_acct n) std) with (S - target) by lia.
      replace (bal (led s') (pool_acct n) cp) with T by lia.
      replace (supply s' (lpt n)) with (L - w) by lia.
      rewrite Ht.
      replace (S * T * ((L - w) * (L - w))) with (T * (S * ((L - w) * (L - w)))) by ring.
      match goal with |- _ <= ?t * T * (L * L) => replace (t * T * (L * L)) with (T * (t * (L * L))) by ring end.
      apply Z.mul_le_mono_nonneg_l; assumption.
  - ev_ind ES. ev_ind ET. ev_ind EL.
    apply value_le_prod; [unfold liquidity; lia|]. unfold reserve_std, reserve_tok. rewrite ES, ET. lia.
Qed.

Lemma send_value s s' from to d amt r cp n :
  Inv s -> In (cp, n) (pools s) -> is_pool_acct from = false ->
  exec_send s from to d amt = Ret (s', r) -> value_le s s' cp n.
Proof.
  intros I Hin Hs E.
  apply not_pool_le in Hs. destruct (inv_rng _ I _ _ Hin) as (Hn & Hcp).
  pose proof (inv_nn _ I (pool_acct n) std) as NS. pose proof (inv_nn _ I (pool_acct n) cp) as NT.
  destruct (exec_send_spec _ _ _ _ _ _ _ E) as (_ & Hamt & _ & M & R).
  destruct M as (ML & MS & _).
  pose proof (ML (pool_acct n) std) as ES. pose proof (ML (pool_acct n) cp) as ET. pose proof (MS (lpt n)) as EL.
  unfold zero1 in EL. ev_ind ES. ev_ind ET.
  pose proof (ind_nonneg (at_ to d (pool_acct n) std) amt ltac:(lia)).
  pose proof (ind_nonneg (at_ to d (pool_acct n) cp) amt ltac:(lia)).
  apply value_le_prod; [unfold liquidity; lia|]. unfold reserve_std, reserve_tok. rewrite ES, ET.
  apply Z.mul_le_mono_nonneg; lia.
Qed.

(** ** every step *)
Lemma step_value_monotone_lemma s m cp n :
  Inv s -> sender_ok m -> In (cp, n) (pools s) ->
  0 < liquidity s n -> 0 < liquidity (step s m) n ->
  value_le s (step s m) cp n.
Proof.
  intros I Hs Hin HL HL'. pose proof (Inv_step s m I) as I'.
  unfold step in *. destruct (exec s m) as [[s' r]|o] eqn:E; [|apply value_le_refl].
  destruct m as [buy sender rcpt din ain dout aout deadline | sender dtok max_tok exact min_liq deadline
                | sender dlpt w min_std min_tok deadline | sender cp0 dtok exact min_liq deadline
                | sender cp0 dtok min_tok w deadline | from to d amt | dt | auth q];
    unfold sender_ok in Hs; simpl in Hs, E.
  - destruct (exec_swap_spec _ _ _ _ _ _ _ _ _ _ _ E) as (_ & _ & _ & Hain & Haout & Hdd & sold & bought & SE & B).
    assert (H0 : 0 <= (if buy then bought else sold)) by (destruct buy; lia).
    destruct (swap_value _ _ _ _ _ _ _ _ _ _ _ I Hin Hs H0 Hdd SE) as (A1 & A2).
    apply value_le_prod; assumption.
  - destruct (exec_add_spec _ _ _ _ _ _ _ _ _ E) as (_ & _ & Hex & _ & _ & mint & _ & Hm & AE).
    eapply add_value; eassumption.
  - eapply remove_value; eassumption.
  - eapply add_uni_value; eassumption.
  - eapply remove_uni_value; eassumption.
  - eapply send_value; eassumption.
  - inversion E; subst. unfold value_le, reserve_std, reserve_tok, liquidity, supply. simpl. lia.
  - (* the parameters change, no coin moves: the value is what it was, whatever the new fee *)
    destruct (exec_update_params_spec _ _ _ _ _ E) as (_ & _ & _ & HLed & HSup & _).
    unfold value_le, reserve_std, reserve_tok, liquidity, supply. rewrite HLed, HSup. lia.
Qed.

(** ** whole histories *)
Fixpoint all_pos (s : state) (ms : list msg) (n : Z) : Prop :=
  0 < liquidity s n /\ match ms with [] => True | m :: ms' => all_pos (step s m) ms' n end.

Lemma all_pos_head s ms n : all_pos s ms n -> 0 < liquidity s n.
Proof. destruct ms; simpl; tauto. Qed.

Lemma all_pos_last ms : forall s n, all_pos s ms n -> 0 < liquidity (run s ms) n.
Proof.
  induction ms as [|m ms IH]; intros s n H; simpl in *; [tauto|]. apply IH. tauto.
Qed.

Lemma run_value_monotone ms : forall s cp n,
  Inv s -> Forall sender_ok ms -> In (cp, n) (pools s) -> all_pos s ms n ->
  value_le s (run s ms) cp n.
Proof.
  induction ms as [|m ms IH]; intros s cp n I Hok Hin Hpos; simpl.
  - apply value_le_refl.
  - inversion Hok as [|? ? Hm Hms]; subst. simpl in Hpos. destruct Hpos as (HL & Hpos).
    pose proof (all_pos_head _ _ _ Hpos) as HL1. pose proof (all_pos_last _ _ _ Hpos) as HL2.
    pose proof (Inv_step s m I) as I1. pose proof (Inv_run ms _ I1) as I2.
    pose proof (step_value_monotone_lemma s m cp n I Hm Hin HL HL1) as V1.
    pose proof (IH (step s m) cp n I1 Hms (step_registry_grows s m _ Hin) Hpos) as V2.
    unfold value_le in *.
    pose proof (inv_nn _ I (pool_acct n) std). pose proof (inv_nn _ I (pool_acct n) cp).
    pose proof (inv_nn _ I1 (pool_acct n) std). pose proof (inv_nn _ I1 (pool_acct n) cp).
    pose proof (inv_nn _ I2 (pool_acct n) std). pose proof (inv_nn _ I2 (pool_acct n) cp).
    unfold reserve_std, reserve_tok in *.
    eapply (vle_trans _ _ _ _ _ _ _ _ _ HL HL1 HL2 V1 V2).
    Unshelve. all: apply Z.mul_nonneg_nonneg; assumption.
Qed.

Lemma run_app a : forall s b, run s (a ++ b) = run (run s a) b.
Proof. intros s b. unfold run. apply fold_left_app. Qed.

Lemma history_value_monotone_lemma s0 pre mid cp n :
  Inv s0 -> Forall sender_ok mid ->
  In (cp, n) (pools (run s0 pre)) -> all_pos (run s0 pre) mid n ->
  value_le (run s0 pre) (run s0 (pre ++ mid)) cp n.
Proof.
  intros I Hok Hin Hpos. rewrite run_app. apply run_value_monotone; auto. apply Inv_run. exact I.
Qed.

(** ** an emptied pool *)
Lemma restart_lemma s m cp n :
  Inv s -> In (cp, n) (pools s) -> liquidity s n = 0 -> 0 < liquidity (step s m) n ->
  exists sender max_tok exact min_liq deadline,
    m = MAdd sender cp max_tok exact min_liq deadline
    /\ acct_empty (led s) (pool_acct n) = true
    /\ liquidity (step s m) n = exact.
Proof.
  intros I Hin HL HL'. destruct (inv_rng _ I _ _ Hin) as (Hn & Hcp).
  unfold step in *. destruct (exec s m) as [[s' r]|o] eqn:E; [|lia].
  destruct m as [buy sender rcpt din ain dout aout deadline | sender dtok max_tok exact min_liq deadline
                | sender dlpt w min_std min_tok deadline | sender cp0 dtok exact min_liq deadline
                | sender cp0 dtok min_tok w deadline | from to d amt | dt | auth q]; simpl in E.
  - exfalso. destruct (swap_balance_sheet_lemma _ _ _ _ _ _ _ _ _ _ _ E) as (_ & _ & _ & _ & HS & _).
    unfold liquidity in *. rewrite HS in HL'. lia.
  - destruct (exec_add_spec _ _ _ _ _ _ _ _ _ E) as (_ & _ & Hex & _ & _ & mint & _ & Hm & AE).
    destruct AE as [tax Hp Htax _ _ _ M Hps _ | n0 Hp He Hmx _ M R | n0 dep Hp He HS0 HT0 HL0 _ _ _ _ M R];
      destruct M as (_ & MS & _); pose proof (MS (lpt n)) as EL; unfold lpt_delta in EL; unfold liquidity in *.
    + exfalso. ev_ind EL.
      pose proof (ind_nonpos (lpt n =? p_cdenom (par s)) (- (p_camt (par s) - tax)) ltac:(lia)). lia.
    + apply pool_of_In in Hp. destruct (inv_rng _ I _ _ Hp) as (Hn0 & _).
      destruct (Z.eq_dec n0 n) as [->|Hne].
      * pose proof (reg_same_n _ _ _ _ I Hp Hin) as Hc. subst dtok.
        exists sender, max_tok, exact, min_liq, deadline. split; [reflexivity|]. split; [exact He|].
        ev_ind EL. lia.
      * exfalso. ev_ind EL. lia.
    + exfalso. apply pool_of_In in Hp. destruct (inv_rng _ I _ _ Hp) as (Hn0 & _).
      destruct (Z.eq_dec n0 n) as [->|Hne]; [congruence|]. ev_ind EL. lia.
  - exfalso. pose proof (exec_remove_spec _ _ _ _ _ _ _ _ _ E) as X. cbv zeta in X.
    destruct X as (cp0 & a1 & a2 & Hc & _ & Hw & _ & _ & _ & _ & _ & _ & _ & M & R).
    apply cp_of_list_In in Hc. fold (pools s) in Hc. destruct (inv_rng _ I _ _ Hc) as (Hn0 & _).
    destruct M as (_ & MS & _). pose proof (MS (lpt n)) as EL. unfold lpt_delta in EL. unfold liquidity in *.
    destruct (Z.eq_dec (dlpt - 1000) n) as [Heq|Hne]; [rewrite Heq in *; lia|]. ev_ind EL. lia.
  - exfalso. destruct (exec_add_uni_spec _ _ _ _ _ _ _ _ _ E) as (n0 & mint & Hp & _ & _ & _ & Hnz & Hm & _ & _ & _ & M & R).
    apply pool_of_In in Hp. destruct (inv_rng _ I _ _ Hp) as (Hn0 & _).
    destruct M as (_ & MS & _). pose proof (MS (lpt n)) as EL. unfold lpt_delta in EL. unfold liquidity in *.
    destruct (Z.eq_dec n0 n) as [->|Hne]; [|ev_ind EL; lia].
    rewrite HL in Hm. rewrite !Z.mul_0_r in Hm. rewrite Z.quot_0_l in Hm by exact Hnz.
    change (Z.sqrt 0) with 0 in Hm. ev_ind EL. lia.
  - exfalso. destruct (exec_remove_uni_spec _ _ _ _ _ _ _ _ _ E) as (n0 & target & Hp & _ & _ & Hw & _ & _ & _ & _ & M & R).
    apply pool_of_In in Hp. destruct (inv_rng _ I _ _ Hp) as (Hn0 & _).
    destruct M as (_ & MS & _). pose proof (MS (lpt n)) as EL. unfold lpt_delta in EL. unfold liquidity in *.
    destruct (Z.eq_dec n0 n) as [->|Hne]; [lia|]. ev_ind EL. lia.
  - exfalso. destruct (exec_send_spec _ _ _ _ _ _ _ E) as (_ & _ & _ & M & _).
    destruct M as (_ & MS & _). pose proof (MS (lpt n)) as EL. unfold zero1, liquidity in *. lia.
  - exfalso. inversion E; subst. unfold liquidity, supply in *. simpl in HL'. unfold supply in HL. lia.
  - exfalso. destruct (exec_update_params_spec _ _ _ _ _ E) as (_ & _ & _ & _ & HS & _).
    unfold liquidity, supply in *. rewrite HS in HL'. lia.
Qed.

(** an emptied pool that still holds coins (somebody sent coins to its address) cannot restart:
    [AddLiquidity] is refused *)
Lemma donated_empty_pool_rejects s sender dtok max_tok exact min_liq deadline n :
  pool_of s dtok = Some n -> liquidity s n = 0 -> acct_empty (led s) (pool_acct n) = false ->
  exists o, exec_add s sender dtok max_tok exact min_liq deadline = Fail o.
Proof.
  intros Hp HL He.
  destruct (exec_add s sender dtok max_tok exact min_liq deadline) as [[s' r]|o] eqn:E; [exfalso|eauto].
  destruct (exec_add_spec _ _ _ _ _ _ _ _ _ E) as (_ & _ & _ & _ & _ & mint & _ & _ & AE).
  destruct AE as [tax Hp' _ _ _ _ _ _ _ | n0 Hp' He' _ _ _ _ | n0 dep Hp' _ _ _ HL0 _ _ _ _ _ _]; congruence.
Qed.

(** ** the pricing kernels of the model, as called by the keeper *)
Lemma swap_in_rule_lemma a x y fee out :
  0 < x -> 0 < y -> 0 <= a -> 0 <= fee < P18 ->
  input_price a x y (P18 - fee) = Ret out ->
  x * P18 * y <= (x * P18 + a * (P18 - fee)) * (y - out)
  /\ (x * P18 + a * (P18 - fee)) * (y - (out + 1)) < x * P18 * y
  /\ 0 <= out <= y.
Proof.
  intros Hx Hy Ha Hf H. apply input_price_Ret in H. destruct H as (_ & ->).
  pose proof P18_pos. rewrite quot_div_nonneg by nia.
  apply (input_price_rule a x y (P18 - fee) P18); lia.
Qed.

Lemma swap_out_rule_lemma b x y fee paid :
  0 < x -> 0 <= b < y -> 0 <= fee < P18 ->
  output_price b x y (P18 - fee) = Ret paid ->
  x * P18 * y <= (x * P18 + paid * (P18 - fee)) * (y - b)
  /\ (forall p, x * P18 * y <= (x * P18 + p * (P18 - fee)) * (y - b) -> paid - 1 <= p)
  /\ 0 < paid.
Proof.
  intros Hx Hb Hf H. apply output_price_Ret in H. destruct H as (_ & ->).
  pose proof P18_pos. rewrite quot_div_nonneg by nia.
  apply (output_price_rule b x y (P18 - fee) P18); lia.
Qed.

(** every leg of every successful swap order is priced by these kernels on the reserves the
    leg finds, so it obeys the rule there *)
Lemma priced_rule_lemma (buy : bool) s n din dout paid recv :
  Inv s -> 0 <= (if buy then recv else paid) ->
  priced buy s n din dout paid recv ->
  let x := bal (led s) (pool_acct n) din in
  let y := bal (led s) (pool_acct n) dout in
  let ph := P18 - p_fee (par s) in
  0 < x /\ 0 < y /\ 0 <= paid /\ 0 <= recv <= y
  /\ x * P18 * y <= (x * P18 + paid * ph) * (y - recv)
  /\ (if buy then forall p, x * P18 * y <= (x * P18 + p * ph) * (y - recv) -> paid - 1 <= p
      else (x * P18 + paid * ph) * (y - (recv + 1)) < x * P18 * y).
Proof.
  intros I H0 (Hx & Hy & Hp). cbv zeta. pose proof (inv_fee _ I) as Hf. unfold phi in Hp.
  destruct buy.
  - destruct Hp as (Hr & Hp).
    destruct (swap_out_rule_lemma _ _ _ _ _ Hx (conj H0 Hr) Hf Hp) as (A & B & C).
    repeat split; try assumption; lia.
  - destruct (swap_in_rule_lemma _ _ _ _ _ Hx Hy H0 Hf Hp) as (A & B & C).
    repeat split; try assumption; lia.
Qed.

(** ** the invariant holds at genesis *)
Lemma nn_of_forallb (l : ledger) : forallb (fun e : (Z * Z) * Z => 0 <=? snd e) l = true ->
  forall a d, 0 <= bal l a d.
Proof.
  intros H a d. unfold bal.
  match goal with |- 0 <= match ?g with _ => _ end => destruct g as [x|] eqn:E end; [|lia].
  apply get_In in E. rewrite forallb_forall in H. specialize (H _ E). simpl in H. apply Z.leb_le in H. exact H.
Qed.

Lemma Inv_genesis (l : ledger) (sp : amap Z Z) (t : Z) (p : params) :
  forallb (fun e : (Z * Z) * Z => 0 <=? snd e) l = true ->
  0 <= p_fee p < P18 -> 0 <= p_ufee p <= P18 ->
  Inv (mkState l sp [] 1 t p).
Proof.
  intros Hl Hf Hu. constructor; simpl; auto; try constructor; try lia; try tauto.
  exact (nn_of_forallb l Hl).
Qed.

Lemma swap_in_rule_l a x y fee out :
  0 < x -> 0 < y -> 0 <= a -> 0 <= fee < P18 ->
  input_price a x y (P18 - fee) = Ret out ->
  x * P18 * y <= (x * P18 + a * (P18 - fee)) * (y - out) /\ 0 <= out <= y.
Proof. intros Hx Hy Ha Hf H. destruct (swap_in_rule_lemma a x y fee out Hx Hy Ha Hf H) as (A & _ & C). exact (conj A C). Qed.

Lemma swap_in_maximal_l a x y fee out :
  0 < x -> 0 < y -> 0 <= a -> 0 <= fee < P18 ->
  input_price a x y (P18 - fee) = Ret out ->
  (x * P18 + a * (P18 - fee)) * (y - (out + 1)) < x * P18 * y.
Proof. intros Hx Hy Ha Hf H. destruct (swap_in_rule_lemma a x y fee out Hx Hy Ha Hf H) as (_ & B & _). exact B. Qed.

Lemma swap_out_rule_l b x y fee paid :
  0 < x -> 0 <= b < y -> 0 <= fee < P18 ->
  output_price b x y (P18 - fee) = Ret paid ->
  x * P18 * y <= (x * P18 + paid * (P18 - fee)) * (y - b) /\ 0 < paid.
Proof. intros Hx Hb Hf H. destruct (swap_out_rule_lemma b x y fee paid Hx Hb Hf H) as (A & _ & C). exact (conj A C). Qed.

Lemma swap_out_near_minimal_l b x y fee paid :
  0 < x -> 0 <= b < y -> 0 <= fee < P18 ->
  output_price b x y (P18 - fee) = Ret paid ->
  forall p : Z, x * P18 * y <= (x * P18 + p * (P18 - fee)) * (y - b) -> paid - 1 <= p.
Proof. intros Hx Hb Hf H. destruct (swap_out_rule_lemma b x y fee paid Hx Hb Hf H) as (_ & B & _). exact B. Qed.

(** outcome codes along a history (for the examples) *)
Fixpoint codes_of (s : state) (ms : list msg) : list Z :=
  match ms with [] => [] | m :: ms' => code_of s m :: codes_of (step s m) ms' end.
