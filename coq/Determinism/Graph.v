(** * Determinism (C11): call graphs with nondeterminism sources.

    The graph itself is data regenerated from the Go source on every run
    ([Gen/CallGraph.v], written by `determinism callgraph`); this file fixes its vocabulary.
    Stdlib only. *)
From Coq Require Export PArith NArith ZArith List Bool String FMapPositive FSetPositive.
Export ListNotations.

(** kinds of nondeterminism source the translator recognises (the order is the translator's) *)
Inductive kind :=
  | Clock          (* time.Now / Since / Until / After / Tick / timers / Sleep *)
  | Entropy        (* math/rand top level, crypto/rand, uuid *)
  | HostEnv        (* os.*, net.*, runtime.*, syscall.* *)
  | MapRange       (* `range` over a Go map, reflect.MapKeys/MapRange, sync.Map.Range, maps.Keys/Values *)
  | Goroutine      (* `go` statement *)
  | Select         (* `select` statement *)
  | Float          (* float arithmetic, conversion, or a call whose signature carries a float *)
  | TaintedGlobal  (* read of a package-level variable whose initialiser reads a source *)
  | GlobalWrite    (* write to a package-level variable outside package initialisation *)
  | SharedValueMutation (* in-place arithmetic of cosmossdk.io/math (methods named ...Mut, Set...) on a
                           value the function was handed (parameter, field, map entry, package variable):
                           a LegacyDec shares its big.Int with every copy, so this rewrites e.g. a ratio
                           held in a keeper registry *)
  | SharedMapWrite. (* update of a Go map that the function did not create itself (a field of the
                       receiver or of a parameter, a parameter, a call result): process-local memory
                       that outlives the call, survives a rolled-back transaction and is lost at a
                       restart — e.g. a keeper-level cache *)

Definition kind_code (k : kind) : Z :=
  match k with
  | Clock => 1 | Entropy => 2 | HostEnv => 3 | MapRange => 4 | Goroutine => 5
  | Select => 6 | Float => 7 | TaintedGlobal => 8 | GlobalWrite => 9 | SharedMapWrite => 10
  | SharedValueMutation => 20
  end%Z.

Definition kind_eqb (a b : kind) : bool := Z.eqb (kind_code a) (kind_code b).

Lemma kind_eqb_eq a b : kind_eqb a b = true -> a = b.
Proof. destruct a, b; simpl; intros H; try reflexivity; discriminate H. Qed.

(** a source occurrence: (function, kind, ordinal of that kind inside the function) *)
Definition desc := (string * kind * N)%type.

(** ** Graphs *)
Definition graph := PositiveMap.t (list positive).

Definition succs (g : graph) (n : positive) : list positive :=
  match PositiveMap.find n g with Some l => l | None => [] end.

Definition of_adj (l : list (positive * list positive)) : graph :=
  fold_left (fun g (e : positive * list positive) => PositiveMap.add (fst e) (snd e) g) l (PositiveMap.empty _).

(** [path g roots n]: [n] is reachable from some root along edges of [g] *)
Inductive path (g : graph) (roots : list positive) : positive -> Prop :=
  | path_root : forall r, In r roots -> path g roots r
  | path_step : forall n m, path g roots n -> In m (succs g n) -> path g roots m.
