(** * Reachability: an executable work-list traversal, complete for ALL graphs.

    [reach g roots] is computed by [vm_compute] on the regenerated graph; [reach_complete]
    (proved once, for every graph, every root list, every node — induction on paths plus the
    work-list invariant) lifts the boolean result to a statement about all paths. *)
From Irismod Require Export Determinism.Graph.
Close Scope string_scope.
Open Scope list_scope.

Module PS := PositiveSet.

Section Reach.
  Variable g : graph.

  (** depth-first work list; every pop costs one unit of fuel.  [None] = fuel exhausted. *)
  Fixpoint go (fuel : nat) (work : list positive) (seen : PS.t) : option PS.t :=
    match fuel with
    | O => None
    | S f =>
        match work with
        | [] => Some seen
        | n :: w =>
            if PS.mem n seen then go f w seen
            else go f (succs g n ++ w) (PS.add n seen)
        end
    end.

  (** everything that can be mentioned at all: the roots and every listed successor *)
  Definition universe (roots : list positive) : PS.t :=
    fold_left (fun s n => PS.add n s)
              (roots ++ flat_map (fun e : positive * list positive => snd e) (PositiveMap.elements g)) PS.empty.

  (** pops <= |roots| + sum of out-degrees of the nodes added, so this fuel always suffices; the
      proof below does not need that fact, because the fallback [universe] is complete too. *)
  Definition fuel_for (roots : list positive) : nat :=
    S (List.length roots + List.length (flat_map (fun e : positive * list positive => snd e) (PositiveMap.elements g))).

  Definition reach (roots : list positive) : PS.t :=
    match go (fuel_for roots) roots PS.empty with
    | Some s => s
    | None => universe roots
    end.

  (** *** work-list invariant *)
  Definition inv (roots work : list positive) (seen : PS.t) : Prop :=
    (forall r, In r roots -> PS.mem r seen = true \/ In r work)
    /\ (forall n m, PS.mem n seen = true -> In m (succs g n) -> PS.mem m seen = true \/ In m work).

  Lemma mem_add_iff x y s : PS.mem y (PS.add x s) = true <-> y = x \/ PS.mem y s = true.
  Proof.
    destruct (PS.add_spec x y s) as [H1 H2]. unfold PS.In in *. split.
    - intros H. destruct (H1 H) as [E|E]; [left; symmetry; exact E|right; exact E].
    - intros [E|E]; apply H2; [left; symmetry; exact E|right; exact E].
  Qed.

  Lemma go_inv roots : forall fuel work seen s,
      go fuel work seen = Some s -> inv roots work seen -> inv roots [] s.
  Proof.
    induction fuel as [|f IH]; intros work seen s Hgo Hinv; simpl in Hgo; [discriminate|].
    destruct work as [|n w].
    - inversion Hgo; subst. exact Hinv.
    - destruct (PS.mem n seen) eqn:Hm.
      + apply (IH _ _ _ Hgo). destruct Hinv as [Hr Hs]. split.
        * intros r Hin. destruct (Hr r Hin) as [H|[H|H]]; auto. subst. auto.
        * intros a b Ha Hb. destruct (Hs a b Ha Hb) as [H|[H|H]]; auto. subst. auto.
      + apply (IH _ _ _ Hgo). destruct Hinv as [Hr Hs]. split.
        * intros r Hin. destruct (Hr r Hin) as [H|[H|H]].
          -- left. apply mem_add_iff. auto.
          -- subst. left. apply mem_add_iff. auto.
          -- right. apply in_or_app. auto.
        * intros a b Ha Hb. apply mem_add_iff in Ha. destruct Ha as [Ha|Ha].
          -- subst a. right. apply in_or_app. auto.
          -- destruct (Hs a b Ha Hb) as [H|[H|H]].
             ++ left. apply mem_add_iff. auto.
             ++ subst. left. apply mem_add_iff. auto.
             ++ right. apply in_or_app. auto.
  Qed.

  (** a set that contains the roots and is closed under successors contains every path *)
  Lemma closed_complete roots s :
    inv roots [] s -> forall n, path g roots n -> PS.mem n s = true.
  Proof.
    intros [Hr Hs] n Hp. induction Hp as [r Hin|n m Hp IH Hm].
    - destruct (Hr r Hin) as [H|[]]. exact H.
    - destruct (Hs n m IH Hm) as [H|[]]. exact H.
  Qed.

  Lemma fold_add_mem : forall (l : list positive) s x,
      PS.mem x (fold_left (fun s n => PS.add n s) l s) = true <-> In x l \/ PS.mem x s = true.
  Proof.
    induction l as [|a l IH]; intros s x; simpl.
    - split; [auto|intros [[]|H]; exact H].
    - rewrite IH, mem_add_iff. split.
      + intros [H|[H|H]]; auto.
      + intros [[H|H]|H]; auto.
  Qed.

  Lemma universe_complete roots : forall n, path g roots n -> PS.mem n (universe roots) = true.
  Proof.
    intros n Hp. unfold universe. apply fold_add_mem. left. apply in_or_app.
    destruct Hp as [r Hin|n m _ Hm]; [left; exact Hin|right].
    unfold succs in Hm. destruct (PositiveMap.find n g) as [l|] eqn:Hf; [|destruct Hm].
    apply in_flat_map. exists (n, l). split; [|exact Hm].
    apply PositiveMap.elements_correct. exact Hf.
  Qed.

  (** ** Completeness of [reach], for every graph *)
  Theorem reach_complete roots : forall n, path g roots n -> PS.mem n (reach roots) = true.
  Proof.
    intros n Hp. unfold reach.
    destruct (go (fuel_for roots) roots PS.empty) as [s|] eqn:Hgo.
    - apply (closed_complete roots); [|exact Hp].
      apply (go_inv roots _ _ _ _ Hgo). split.
      + intros r Hin. right. exact Hin.
      + intros a b Ha. change PS.empty with PS.Leaf in Ha. rewrite PS.mem_Leaf in Ha. discriminate Ha.
    - apply universe_complete. exact Hp.
  Qed.
  (** ** Soundness of [reach] whenever the traversal finished within its fuel (it always does for
      [fuel_for]; the per-run fact [finished G roots = true] is checked by [vm_compute]).  With
      completeness this makes the boolean check EXACT: it never flags a source that lies on no path. *)
  Definition sinv (roots work : list positive) (seen : PS.t) : Prop :=
    (forall n, PS.mem n seen = true -> path g roots n) /\ (forall n, In n work -> path g roots n).

  Lemma go_sound roots : forall fuel work seen s,
      go fuel work seen = Some s -> sinv roots work seen ->
      forall n, PS.mem n s = true -> path g roots n.
  Proof.
    induction fuel as [|f IH]; intros work seen s Hgo [Hs Hw]; simpl in Hgo; [discriminate|].
    destruct work as [|n w].
    - inversion Hgo; subst. exact Hs.
    - destruct (PS.mem n seen) eqn:Hm.
      + apply (IH _ _ _ Hgo). split; [exact Hs|]. intros m Hin. apply Hw. right. exact Hin.
      + apply (IH _ _ _ Hgo). split.
        * intros m Hmem. apply mem_add_iff in Hmem. destruct Hmem as [Heq|Hmem].
          -- subst m. apply Hw. left. reflexivity.
          -- apply Hs. exact Hmem.
        * intros m Hin. apply in_app_or in Hin. destruct Hin as [Hin|Hin].
          -- apply path_step with n; [apply Hw; left; reflexivity|exact Hin].
          -- apply Hw. right. exact Hin.
  Qed.

  Definition finished (roots : list positive) : bool :=
    match go (fuel_for roots) roots PS.empty with Some _ => true | None => false end.

  Theorem reach_sound roots :
    finished roots = true -> forall n, PS.mem n (reach roots) = true -> path g roots n.
  Proof.
    unfold finished, reach. intros Hf n Hn.
    destruct (go (fuel_for roots) roots PS.empty) as [s|] eqn:Hgo; [|discriminate].
    apply (go_sound roots _ _ _ _ Hgo); [|exact Hn]. split.
    - intros m Hm. change PS.empty with PS.Leaf in Hm. rewrite PS.mem_Leaf in Hm. discriminate Hm.
    - intros m Hin. apply path_root. exact Hin.
  Qed.
End Reach.
