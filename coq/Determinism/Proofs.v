(** * Determinism: soundness of the boolean checks. *)
From Coq Require Import Lia.
From Irismod Require Import Determinism.Check Determinism.Model.
Close Scope string_scope.
Open Scope Z_scope.

(** For every graph, root list, source table and allow list: if the boolean check is true then
    every source occurrence on ANY path from a root is sanctioned. *)
Lemma check_all_sound g rts srcs allow :
  check_all g rts srcs allow = true ->
  forall n d, path g rts n -> In (n, d) srcs -> sanctioned_in allow d.
Proof.
  unfold check_all. intros Hc n d Hp Hin.
  rewrite forallb_forall in Hc. specialize (Hc (n, d) Hin). simpl in Hc.
  rewrite (reach_complete g rts n Hp) in Hc. simpl in Hc.
  apply allowb_sound. exact Hc.
Qed.

(** ... and complete whenever the traversal finished: the check is then EXACT, i.e. it fails only
    if some source occurrence that really lies on a path from a root is not sanctioned. *)
Lemma check_all_complete g rts srcs allow :
  finished g rts = true ->
  (forall n d, path g rts n -> In (n, d) srcs -> sanctioned_in allow d) ->
  check_all g rts srcs allow = true.
Proof.
  intros Hf H. unfold check_all. apply forallb_forall. intros [n d] Hin. simpl.
  destruct (PS.mem n (reach g rts)) eqn:Hm; [|reflexivity]. simpl.
  apply allowb_complete. apply (H n d); [|exact Hin].
  apply (reach_sound g rts Hf). exact Hm.
Qed.

Lemma check_all_exact g rts srcs allow :
  finished g rts = true ->
  (check_all g rts srcs allow = true
   <-> forall n d, path g rts n -> In (n, d) srcs -> sanctioned_in allow d).
Proof.
  intros Hf. split; [apply check_all_sound|apply check_all_complete; exact Hf].
Qed.

Lemma traversal_finished_G : finished G roots = true.
Proof. vm_compute. reflexivity. Qed.

(** the precomputed reach set is [reach G roots] *)
Lemma reach_set_eq : reach_set = reach G roots.
Proof. vm_compute. reflexivity. Qed.

(** the per-case decision agrees with the theorem's notion *)
Lemma offending_false_sound d n :
  offending d = false -> node_of d = Some n -> path G roots n -> sanctioned d.
Proof.
  unfold offending. intros Ho Hn Hp. rewrite Hn in Ho.
  rewrite reach_set_eq, (reach_complete G roots n Hp) in Ho.
  rewrite andb_true_l in Ho. apply negb_false_iff in Ho.
  apply allowb_sound. exact Ho.
Qed.

(** replica check: silent exactly when the two observation lists are equal *)
Lemma zlist_eqb_eq : forall a b, zlist_eqb a b = true <-> a = b.
Proof.
  induction a as [|x a IH]; destruct b as [|y b]; simpl; split; intros H; try reflexivity; try discriminate.
  - apply andb_prop in H. destruct H as [H1 H2]. apply Z.eqb_eq in H1. apply IH in H2. congruence.
  - inversion H; subst. rewrite Z.eqb_refl. simpl. apply IH. reflexivity.
Qed.

Lemma first_diff_none : forall a b i, 0 <= i -> (first_diff a b i = -1 <-> a = b).
Proof.
  induction a as [|x a IH]; destruct b as [|y b]; simpl; intros i Hi.
  - split; reflexivity.
  - split; intros H; [lia|discriminate].
  - split; intros H; [lia|discriminate].
  - destruct (zlist_eqb x y) eqn:E.
    + apply zlist_eqb_eq in E. subst y. rewrite (IH b (i + 1)) by lia. split; congruence.
    + split; intros H; [lia|]. inversion H; subst.
      assert (zlist_eqb y y = true) by (apply zlist_eqb_eq; reflexivity). congruence.
Qed.

Lemma first_diff_range : forall a b i, 0 <= i -> first_diff a b i = -1 \/ i <= first_diff a b i.
Proof.
  induction a as [|x a IH]; destruct b as [|y b]; simpl; intros i Hi; auto; try (right; lia).
  destruct (zlist_eqb x y); [|right; lia].
  destruct (IH b (i + 1)) as [H|H]; [lia|left; exact H|right; lia].
Qed.

Lemma check_replicas_silent_iff c :
  check_replicas c = (-1, -1, 0) <-> r_a c = r_b c.
Proof.
  unfold check_replicas. destruct (first_diff_range (r_a c) (r_b c) 0) as [H|H]; [lia| |].
  - rewrite H. simpl. split; [intros _|reflexivity]. apply (first_diff_none _ _ 0); [lia|exact H].
  - destruct (first_diff (r_a c) (r_b c) 0 <? 0) eqn:E; [apply Z.ltb_lt in E; lia|].
    split.
    + intros Heq. inversion Heq. lia.
    + intros Heq. apply (first_diff_none _ _ 0) in Heq; lia.
Qed.

(** a small fixed graph showing the check accepts and rejects as intended:
    1 -> 2 -> 3 (source, sanctioned), 2 -> 4 (source, not sanctioned), 5 -> 6 (source, unreachable) *)
Definition toy_adj : list (positive * list positive) := [(1, [2]); (2, [3; 4]); (5, [6])]%positive.
Definition toy_sources : list (positive * desc) :=
  [(3, ("f"%string, MapRange, 0%N)); (4, ("f"%string, Clock, 0%N)); (6, ("h"%string, Entropy, 0%N))]%positive.
Definition toy_allow : list entry := [mkE "f" MapRange 1 SortedBeforeUse ""; mkE "h" Clock 1 LogOnly ""].

Lemma toy_rejected : check_all (of_adj toy_adj) [1%positive] toy_sources toy_allow = false.
Proof. vm_compute. reflexivity. Qed.
(** without the edge to the unsanctioned clock read the same check passes *)
Lemma toy_accepted_without_clock_edge :
  check_all (of_adj [(1, [2]); (2, [3]); (5, [6])]%positive) [1%positive] toy_sources toy_allow = true.
Proof. vm_compute. reflexivity. Qed.
