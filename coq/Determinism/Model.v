(** * The model side of determinism (C11 part b): a replica is a function of chain data.

    Every module model of this development is a Gallina function of (state, operations); this
    file states the consequence once, generically, for an arbitrary chain: whatever a replica's
    SCHEDULE is — its wall clock, where it restarts from disk, how often it repeats an export —
    the outcome is the same function of (genesis, blocks).  The wall clock is not an argument of
    [apply]; a restart is [load (save s)], which is the identity by the store round-trip
    hypothesis. *)
From Coq Require Import List ZArith Bool.
Import ListNotations.

Section Chain.
  Variables state block result bytes : Type.
  Variable apply_block : state -> block -> state * result.   (* begin-block, txs, end-block *)
  Variable export : state -> bytes.                          (* exported genesis *)
  Variable digest : state -> bytes.                          (* ordered dump of every store *)
  Variable save : state -> bytes.                            (* commit to disk *)
  Variable load : bytes -> option state.                     (* restart from disk *)
  Hypothesis load_save : forall s, load (save s) = Some s.

  (** what is compared between replicas: per block the tx results and the store digest, and the
      exported genesis at the end *)
  Definition outcome := (list (result * bytes) * bytes)%type.

  Fixpoint run (s : state) (bs : list block) : outcome :=
    match bs with
    | [] => ([], export s)
    | b :: bs' =>
        let '(s', r) := apply_block s b in
        let '(obs, ex) := run s' bs' in
        ((r, digest s') :: obs, ex)
    end.

  (** a schedule: host wall-clock reading at each block (any values), whether the node restarts
      from disk before each block, and how many times the final export is repeated *)
  Record schedule := mkS { wall : list Z; restart : list bool; exports : nat }.

  Fixpoint run_sched (wall : list Z) (restart : list bool) (s : state) (bs : list block)
    : option (list (result * bytes) * state) :=
    match bs with
    | [] => Some ([], s)
    | b :: bs' =>
        match (if hd false restart then load (save s) else Some s) with
        | None => None
        | Some s1 =>
            let '(s2, r) := apply_block s1 b in
            match run_sched (tl wall) (tl restart) s2 bs' with
            | None => None
            | Some (obs, sf) => Some ((r, digest s2) :: obs, sf)
            end
        end
    end.

  (** the replica's outcome: observations, and the list of its (1 + exports) exports *)
  Definition replica (sch : schedule) (genesis : state) (bs : list block)
    : option (list (result * bytes) * list bytes) :=
    match run_sched (wall sch) (restart sch) genesis bs with
    | None => None
    | Some (obs, sf) => Some (obs, repeat (export sf) (S (exports sch)))
    end.

  Lemma run_sched_run : forall bs w rs s,
      exists sf, run_sched w rs s bs = Some (fst (run s bs), sf) /\ export sf = snd (run s bs).
  Proof.
    induction bs as [|b bs IH]; intros w rs s; simpl.
    - exists s. split; reflexivity.
    - assert (Hs : (if hd false rs then load (save s) else Some s) = Some s).
      { destruct (hd false rs); [apply load_save|reflexivity]. }
      rewrite Hs. destruct (apply_block s b) as [s2 r].
      destruct (IH (tl w) (tl rs) s2) as [sf [H1 H2]]. rewrite H1.
      destruct (run s2 bs) as [obs ex]. simpl in *. exists sf. split; [reflexivity|exact H2].
  Qed.

  (** every replica computes [run], whatever its schedule *)
  Lemma replica_is_run sch genesis bs :
    replica sch genesis bs
    = Some (fst (run genesis bs), repeat (snd (run genesis bs)) (S (exports sch))).
  Proof.
    unfold replica. destruct (run_sched_run bs (wall sch) (restart sch) genesis) as [sf [H1 H2]].
    rewrite H1, H2. reflexivity.
  Qed.

  (** two replicas of the same genesis and blocks agree on every observation and every export,
      and all repeated exports of one replica are the same bytes *)
  Theorem run_functional_lemma : forall sch1 sch2 genesis bs,
      exists obs ex,
        replica sch1 genesis bs = Some (obs, repeat ex (S (exports sch1)))
        /\ replica sch2 genesis bs = Some (obs, repeat ex (S (exports sch2))).
  Proof.
    intros. exists (fst (run genesis bs)), (snd (run genesis bs)).
    split; apply replica_is_run.
  Qed.
End Chain.
