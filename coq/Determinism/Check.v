(** * Determinism: the checks evaluated by [vm_compute] on every run.

    - [check_all]: the boolean behind the per-run theorem (every reachable source is sanctioned).
    - [check_static]: the same decision for the source occurrences the driver lists, one case per
      function, so that an unsanctioned occurrence is REPORTED with its function and call path.
    - [check_replicas]: replica differencing — two executions of one history that differ in a
      single schedule dimension must show identical observations block by block.

    Depends on the regenerated graph, [Reach] and [Allow] only (not on the proofs). *)
From Irismod Require Export Determinism.Reach Determinism.Allow Gen.CallGraph.
Close Scope string_scope.
Open Scope Z_scope.

(** ** static part, generic in the graph *)
Definition check_all (g : graph) (rts : list positive) (srcs : list (positive * desc)) (allow : list entry) : bool :=
  let r := reach g rts in
  forallb (fun nd : positive * desc => negb (PS.mem (fst nd) r) || allowb allow (snd nd)) srcs.

(** ** static part on the regenerated graph *)
Definition G : graph := of_adj adj.
Definition reach_set : PS.t := Eval vm_compute in reach G roots.

Definition desc_eqb (a b : desc) : bool :=
  let '(f1, k1, o1) := a in let '(f2, k2, o2) := b in
  String.eqb f1 f2 && kind_eqb k1 k2 && N.eqb o1 o2.

(** node of a source occurrence named by the driver (None: it no longer exists) *)
Definition node_of (d : desc) : option positive :=
  match find (fun nd : positive * desc => desc_eqb (snd nd) d) sources with
  | Some nd => Some (fst nd)
  | None => None
  end.

Definition offending (d : desc) : bool :=
  match node_of d with
  | Some n => PS.mem n reach_set && negb (allowb sanctioned_list d)
  | None => false
  end.

Definition static_case := list desc.

Fixpoint first_offending (c : static_case) (i : Z) : Z * Z :=
  match c with
  | [] => (-1, 0)
  | d :: c' => if offending d then (i, kind_code (snd (fst d))) else first_offending c' (i + 1)
  end.

(** (index of the first unsanctioned reachable occurrence or -1, -1, kind code).
    An unsanctioned reachable source is a BROKEN OBLIGATION (the regenerated graph no longer
    satisfies [no_unsanctioned_source]), reported in the first component; it is not by itself a
    failing input — the replica streams are searched for one (the second component of
    [check_replicas]), and only a replica difference is reported as a concrete violation. *)
Definition check_static (c : static_case) : Z * Z * Z :=
  let '(i, k) := first_offending c 0 in (i, -1, k).

(** ** dynamic part: replica agreement *)
Record rcase := mkR {
  r_dim : Z;                 (* which schedule dimension differs, see [dim_*] *)
  r_a : list (list Z);       (* replica A: per block, interned digests (stores, tx results); the
                                last entries are the exported-genesis digests *)
  r_b : list (list Z) }.     (* replica B *)

Definition dim_fresh : Z := 11.      (* a second, freshly built node *)
Definition dim_repeat : Z := 12.     (* repeated execution in the same process *)
Definition dim_export : Z := 13.     (* repeated ExportGenesis of one state *)
Definition dim_clock : Z := 14.      (* wall clock straddling a duration threshold *)
Definition dim_restart : Z := 15.    (* node rebuilt from its committed state at a block boundary *)
Definition dim_abci : Z := 16.       (* real ABCI: in-memory node vs node re-opened from disk at block boundaries *)

Fixpoint zlist_eqb (a b : list Z) : bool :=
  match a, b with
  | [], [] => true
  | x :: a', y :: b' => Z.eqb x y && zlist_eqb a' b'
  | _, _ => false
  end.

Fixpoint first_diff (a b : list (list Z)) (i : Z) : Z :=
  match a, b with
  | [], [] => -1
  | x :: a', y :: b' => if zlist_eqb x y then first_diff a' b' (i + 1) else i
  | _, _ => i
  end.

(** (-1, first block at which the replicas differ or -1, dimension) *)
Definition check_replicas (c : rcase) : Z * Z * Z :=
  let i := first_diff (r_a c) (r_b c) 0 in
  if i <? 0 then (-1, -1, 0) else (-1, i, r_dim c).
