(** * The reviewed list of sanctioned nondeterminism sources (C11).

    Every source occurrence the translator finds in code reachable from a consensus entry point
    must be covered by an entry below, or [Props/C11.v no_unsanctioned_source] stops checking.
    An entry names the function (translator spelling: package path relative to
    mods.irisnet.org/modules/), the kind, HOW MANY occurrences of that kind in that function
    were reviewed (ordinals 0 .. count-1 in instruction order; an additional occurrence is
    unsanctioned), the justification class and a note.

    Reviewed against irismod at the pinned commit plus the three C11 `fix:` commits
    (mt export order, oracle price expiry on block time, htlc default previous block time) —
    those three sites are deliberately NOT listed: after the fixes they no longer exist. *)
From Irismod Require Export Determinism.Graph.
Open Scope string_scope.

Inductive justification :=
  | SortedBeforeUse    (* the keys are collected and sorted before anything order-dependent happens *)
  | LookupOnly         (* the loop searches / validates; its result does not depend on the order
                          (at most the TEXT of an error does, and outcomes are compared by kind) *)
  | CommutativeWrites  (* the loop body's effects commute: a sum, or store writes under distinct keys *)
  | QuantisedFloat     (* float64 arithmetic whose result is rounded to a fixed number of decimals
                          before it reaches state; deterministic on IEEE-754 hardware running the same
                          Go build (caveat: math.Log/Pow have assembly on s390x — see trusted base) *)
  | EventsOnly         (* only the order of emitted events depends on it; events are not among the
                          stated observables (state, tx result code/data, exported genesis) *)
  | LogOnly            (* the value is only written to the node's log *)
  | InitOnly           (* executed during process wiring (package init), identically at every start *)
  | IdempotentCache    (* process-local cache filled with a constant; every fill writes the same value *)
  | OwnMessage         (* generated decoder filling a map field of the very message it is decoding *)
  | CallerLocal        (* the map is a parameter and every caller passes a map it created itself in the
                          same call tree (reviewed at the call sites) *)
  | TestDouble         (* in-memory stand-in (mock EVM) wired by simapp; a chain wires the real keeper *)
  | NotConsensusBytes. (* gogoproto binary encoding of a GenesisState with map fields: never stored,
                          hashed or returned; genesis is exported through jsonpb, which sorts map keys
                          (the repeated-export stream compares those bytes) *)

Record entry := mkE {
  e_fn : string; e_kind : kind; e_count : N; e_why : justification; e_note : string }.

Definition sanctioned_list : list entry := [
  (* ---- range over a Go map *)
  mkE "service.getSortedKeys[*service/types.RequestContext]" MapRange 1 SortedBeforeUse
      "service InitGenesis: keys of request_contexts collected, sort.Strings, then used";
  mkE "service.getSortedKeys[string]" MapRange 1 SortedBeforeUse
      "service InitGenesis: keys of withdraw_addresses collected, sort.Strings, then used";
  mkE "service.EndBlocker" MapRange 1 EventsOnly
      "one new_batch_request_provider event per provider, emitted in map order";
  mkE "(service/keeper.Keeper).GetModuleServiceByServiceName" MapRange 1 LookupOnly
      "search of the keeper's module-service registry by service name (names are unique: one registrant)";
  mkE "(token/keeper.ValidateTokenFeeDecorator).AnteHandle" MapRange 1 LookupOnly
      "every owner's balance is checked against its fee; the tx is rejected iff some check fails";
  mkE "mt/types.ValidateGenesis" MapRange 1 LookupOnly
      "compares accumulated balances with supplies; result is the conjunction";
  mkE "random/types.ValidateGenesis" MapRange 1 LookupOnly "validates every pending request";
  mkE "service/types.ValidateGenesis" MapRange 2 LookupOnly
      "validates every withdraw address and every request context";
  mkE "nft/keeper.SupplyInvariant$1" MapRange 1 LookupOnly
      "crisis invariant: broken iff some class count differs; only the message text follows the order";
  mkE "random.InitGenesis" MapRange 1 CommutativeWrites
      "enqueues each pending request under its own (height, request id) key";
  mkE "(*random/types.GenesisState).Size" MapRange 1 CommutativeWrites "sum of entry sizes";
  mkE "(*service/types.GenesisState).Size" MapRange 2 CommutativeWrites "sum of entry sizes";
  mkE "(*random/types.GenesisState).MarshalToSizedBuffer" MapRange 1 NotConsensusBytes
      "generated gogoproto code for map<string, Requests>";
  mkE "(*service/types.GenesisState).MarshalToSizedBuffer" MapRange 2 NotConsensusBytes
      "generated gogoproto code for the two map fields";
  (* ---- host clock *)
  mkE "nft/migrations/v2.Migrate" Clock 2 LogOnly
      "time.Now / time.Since measure the duration of the store migration for logger.Info only";
  (* ---- package-level variables written outside init *)
  mkE "oracle/types.RegisterAggregateFunc" GlobalWrite 1 InitOnly
      "aggregate-function router filled from the package initialiser (max, min, avg)";
  mkE "token/types/v1.GetNativeToken" GlobalWrite 10 IdempotentCache
      "lazy default of the native token: constant fields, set once per process unless SetNativeToken was called at wiring";
  (* ---- maps not created by the updating function (process-local state) *)
  mkE "(service/keeper.Keeper).RegisterResponseCallback" SharedMapWrite 1 InitOnly
      "callback registry of the service keeper, filled by the consumers' NewKeeper at wiring";
  mkE "(service/keeper.Keeper).RegisterStateCallback" SharedMapWrite 1 InitOnly
      "callback registry of the service keeper, filled at wiring";
  mkE "(service/keeper.Keeper).SetModuleService" SharedMapWrite 1 InitOnly
      "module-service registry, filled by oracle's NewKeeper (RegisterModuleService) at wiring";
  mkE "(service/keeper.Keeper).InitiateRequests" SharedMapWrite 1 CallerLocal
      "providerRequests is created by the end-blocker's new-batch handler for one batch (events only)";
  mkE "(*random/types.GenesisState).Unmarshal" SharedMapWrite 1 OwnMessage "map<string, Requests> field";
  mkE "(*service/types.GenesisState).Unmarshal" SharedMapWrite 2 OwnMessage "the two map fields";
  mkE "(farm.AppModule).RegisterStoreDecoder" SharedMapWrite 1 InitOnly "simulation store-decoder registry";
  mkE "(htlc.AppModule).RegisterStoreDecoder" SharedMapWrite 1 InitOnly "simulation store-decoder registry";
  mkE "(mt.AppModule).RegisterStoreDecoder" SharedMapWrite 1 InitOnly "simulation store-decoder registry";
  mkE "(nft.AppModule).RegisterStoreDecoder" SharedMapWrite 1 InitOnly "simulation store-decoder registry";
  mkE "(random.AppModule).RegisterStoreDecoder" SharedMapWrite 1 InitOnly "simulation store-decoder registry";
  mkE "(record.AppModule).RegisterStoreDecoder" SharedMapWrite 1 InitOnly "simulation store-decoder registry";
  mkE "(service.AppModule).RegisterStoreDecoder" SharedMapWrite 1 InitOnly "simulation store-decoder registry";
  mkE "(token.AppModule).RegisterStoreDecoder" SharedMapWrite 1 InitOnly "simulation store-decoder registry";
  mkE "(*token/keeper.mockEVM).ApplyMessage" SharedMapWrite 1 TestDouble "mock EVM contract table";
  mkE "(token/keeper.erc20).call" SharedMapWrite 2 TestDouble "mock ERC20 balances";
  (* ---- floating point *)
  mkE "token/keeper.calcFeeFactor" Float 6 QuantisedFloat
      "(ln len / ln 3)^4 formatted with 2 decimals, then parsed as a decimal";
  mkE "oracle/types.Max" Float 3 QuantisedFloat "gjson Float, comparison, FormatFloat 'f' 8";
  mkE "oracle/types.Min" Float 4 QuantisedFloat "gjson Float, comparison, FormatFloat 'f' 8";
  mkE "oracle/types.Avg" Float 5 QuantisedFloat "gjson Float, sum, division by count, FormatFloat 'f' 8"
].

Definition entry_covers (e : entry) (d : desc) : bool :=
  let '(fn, k, ord) := d in
  String.eqb fn (e_fn e) && kind_eqb k (e_kind e) && (ord <? e_count e)%N.

Definition allowb (allow : list entry) (d : desc) : bool := existsb (fun e => entry_covers e d) allow.

(** the propositional reading of "this occurrence is sanctioned" *)
Definition sanctioned_in (allow : list entry) (d : desc) : Prop :=
  exists e, In e allow /\ e_fn e = fst (fst d) /\ e_kind e = snd (fst d) /\ (snd d < e_count e)%N.

Lemma allowb_sound allow d : allowb allow d = true -> sanctioned_in allow d.
Proof.
  unfold allowb. intros H. apply existsb_exists in H. destruct H as [e [Hin Hc]].
  exists e. split; [exact Hin|]. destruct d as [[fn k] ord]. simpl in *.
  apply andb_prop in Hc. destruct Hc as [Hc Hord]. apply andb_prop in Hc. destruct Hc as [Hfn Hk].
  apply String.eqb_eq in Hfn. apply kind_eqb_eq in Hk. apply N.ltb_lt in Hord.
  repeat split; auto.
Qed.

Lemma kind_eqb_refl k : kind_eqb k k = true.
Proof. destruct k; reflexivity. Qed.

Lemma allowb_complete allow d : sanctioned_in allow d -> allowb allow d = true.
Proof.
  intros [e [Hin [Hfn [Hk Hord]]]]. unfold allowb. apply existsb_exists. exists e. split; [exact Hin|].
  destruct d as [[fn k] ord]. simpl in *. subst fn k.
  rewrite String.eqb_refl, kind_eqb_refl. simpl. apply N.ltb_lt. exact Hord.
Qed.

Definition sanctioned (d : desc) : Prop := sanctioned_in sanctioned_list d.
