(** * Farm: the invariant of every reachable state, part 1: definitions and pool-level lemmas *)
From Irismod Require Export Farm.Spec.

Arguments P18 : simpl never.

Lemma P18_pos : 0 < P18.
Proof. reflexivity. Qed.

Lemma div_P18 x : 0 <= x -> (x / P18) * P18 <= x < (x / P18) * P18 + P18.
Proof.
  intros Hx. pose proof (Z.div_mod x P18 ltac:(discriminate)) as Hdm.
  pose proof (Z.mod_pos_bound x P18 P18_pos) as Hm. lia.
Qed.

Lemma trunc_nonneg x : 0 <= x -> dec_truncate_int x = x / P18.
Proof. apply dec_truncate_int_nonneg. Qed.

(** ** who may send messages: not a module account *)
Definition actor (a : acct) : Prop := a <> FARM /\ a <> COLL /\ a <> FEEC /\ a <> BURN.

Definition sender (m : msg) : acct :=
  match m with
  | CreatePool w _ _ _ _ | Stake w _ _ _ | Unstake w _ _ _ | Harvest w _ | Adjust w _ _ _ | Destroy w _ | UpdateParams w _ _ => w
  end.

Definition valid_step (st : step) : Prop := match st with Msg m => actor (sender m) | NextBlock => True end.

(** the sender is one of the accounts the harness observes (a parameter change moves no coins: any sender) *)
Definition actor_step (st : step) : Prop :=
  match st with Msg (UpdateParams _ _ _) => True | Msg m => In (sender m) actors | NextBlock => True end.

(** ** what the reward collector owes, scaled by 10^18 *)
Fixpoint owed_list (rs : list rule) (locked : Z) (debts : list Z) : list (denom * Z) :=
  match rs with
  | [] => []
  | r :: rest => (r_denom r, Z.max 0 (r_rps r * locked - hd 0 debts * P18)) :: owed_list rest locked (tl debts)
  end.
Definition owed_f (rs : list rule) (d : denom) (f : finfo) : Z := csum (owed_list rs (f_locked f) (f_debt f)) d.
Definition owed_p (d : denom) (p : pool) : Z := asum (owed_f (p_rules p) d) (p_farmers p).
Definition owed (ps : amap Z pool) (d : denom) : Z := asum (owed_p d) ps.

(** ** the invariant *)
Definition finfo_ok (f : finfo) : Prop := 0 <= f_locked f /\ Forall (fun d => 0 <= d) (f_debt f).
Definition rule_ok (r : rule) : Prop := 0 <= r_rem r /\ 0 < r_pb r /\ 0 <= r_rps r.

Record pool_inv (h : Z) (p : pool) : Prop := mkPI {
  pi_sum : sum_locked p = p_locked p;
  pi_farmers : Forall finfo_ok (vals (p_farmers p));
  pi_rules : p_rules p <> [];
  pi_rule : Forall rule_ok (p_rules p);
  pi_denoms : NoDup (map r_denom (p_rules p));
  pi_last : p_last p <= h;
  pi_started : 0 < p_locked p -> p_start p <= p_last p;
  pi_fresh : h < p_start p -> Forall (fun r => r_rem r = r_total r) (p_rules p);
  pi_creator : actor (p_creator p);
  pi_nodup : NoDup (keys (p_farmers p));
  pi_pos : Forall (fun f => 0 < f_locked f) (vals (p_farmers p))
}.

Definition covered (p : pool) : Prop :=
  Forall (fun r => r_pb r * (p_end p - Z.max (p_start p) (p_last p)) <= r_rem r) (p_rules p).

Record inv (s : state) : Prop := mkInv {
  i_pools : Forall (pool_inv (height s)) (vals (pools s));
  i_ids : Forall (fun id => 0 < id <= seq s) (keys (pools s));
  i_escrow : forall d, bal (bank s) FARM d = escrow_expected (pools s) d;
  i_solv : forall d, owed (pools s) d <= bal (bank s) COLL d * P18;
  i_sched : forall pid p, get pid (pools s) = Some p -> in_queue (queue s) (p_end p, pid) = true ->
            height s <= p_end p /\ covered p;
  i_unq : forall pid p, get pid (pools s) = Some p -> in_queue (queue s) (p_end p, pid) = false -> p_end p <= height s;
  i_qwf : forall e pid, in_queue (queue s) (e, pid) = true -> exists p, get pid (pools s) = Some p /\ p_end p = e;
  i_qnd : NoDup (queue s);
  i_height : 0 <= height s;
  i_seq : 0 <= seq s;
  i_nodup : NoDup (keys (pools s))
}.

(** ** sums over the pools *)
Lemma escrow_set pid p p' ps d : get pid ps = Some p ->
  escrow_expected (set pid p' ps) d = escrow_expected ps d - pool_contrib p d + pool_contrib p' d.
Proof.
  intros Hg. unfold escrow_expected. change (zsum (map (fun ip => pool_contrib (snd ip) d) ?m)) with (asum (fun q => pool_contrib q d) m).
  rewrite asum_set, Hg. reflexivity.
Qed.

Lemma escrow_set_new pid p' ps d : get pid ps = None ->
  escrow_expected (set pid p' ps) d = escrow_expected ps d + pool_contrib p' d.
Proof.
  intros Hg. unfold escrow_expected. change (zsum (map (fun ip => pool_contrib (snd ip) d) ?m)) with (asum (fun q => pool_contrib q d) m).
  rewrite asum_set, Hg. lia.
Qed.

Lemma owed_set pid p p' ps d : get pid ps = Some p ->
  owed (set pid p' ps) d = owed ps d - owed_p d p + owed_p d p'.
Proof. intros Hg. unfold owed. rewrite asum_set, Hg. reflexivity. Qed.

Lemma owed_set_new pid p' ps d : get pid ps = None -> owed (set pid p' ps) d = owed ps d + owed_p d p'.
Proof. intros Hg. unfold owed. rewrite asum_set, Hg. lia. Qed.

Lemma pool_contrib_eq p d : pool_contrib p d = (if p_lpt p =? d then p_locked p else 0) + rule_sum r_rem (p_rules p) d.
Proof. reflexivity. Qed.

(** ** arithmetic of one reward rule *)
Lemma debt_delta_ge rps delta : 0 <= rps -> rps * delta <= debt_delta rps delta * P18.
Proof.
  intros Hr. unfold debt_delta, dec_mul_int.
  destruct (Z.ltb_spec delta 0) as [Hd|Hd].
  - assert (0 <= rps * - delta) as Hx by nia. rewrite (trunc_nonneg _ Hx).
    pose proof (div_P18 _ Hx). nia.
  - assert (0 <= rps * delta) as Hx by nia. unfold dec_ceil, dec_of_int.
    set (x := rps * delta) in *. rewrite (Z.quot_div_nonneg x P18) by (pose proof P18_pos; lia).
    rewrite (Z.rem_mod_nonneg x P18) by (pose proof P18_pos; lia).
    pose proof (Z.div_mod x P18 ltac:(discriminate)) as Hdm. pose proof (Z.mod_pos_bound x P18 P18_pos) as Hm.
    assert (0 <= x / P18) as Hq by (apply Z.div_pos; [lia|exact P18_pos]).
    destruct (Z.leb_spec (x mod P18) 0).
    + rewrite trunc_nonneg by nia. rewrite Z.div_mul by discriminate. lia.
    + rewrite trunc_nonneg by nia. rewrite Z.div_mul by discriminate. lia.
Qed.

Lemma debt_delta_lt rps delta : 0 <= rps -> debt_delta rps delta * P18 < rps * delta + P18.
Proof.
  intros Hr. unfold debt_delta, dec_mul_int.
  destruct (Z.ltb_spec delta 0) as [Hd|Hd].
  - assert (0 <= rps * - delta) as Hx by nia. rewrite (trunc_nonneg _ Hx).
    pose proof (div_P18 _ Hx). nia.
  - assert (0 <= rps * delta) as Hx by nia. unfold dec_ceil, dec_of_int.
    set (x := rps * delta) in *. rewrite (Z.quot_div_nonneg x P18) by (pose proof P18_pos; lia).
    rewrite (Z.rem_mod_nonneg x P18) by (pose proof P18_pos; lia).
    pose proof (Z.div_mod x P18 ltac:(discriminate)) as Hdm. pose proof (Z.mod_pos_bound x P18 P18_pos) as Hm.
    assert (0 <= x / P18) as Hq by (apply Z.div_pos; [lia|exact P18_pos]).
    destruct (Z.leb_spec (x mod P18) 0).
    + rewrite trunc_nonneg by nia. rewrite Z.div_mul by discriminate. lia.
    + rewrite trunc_nonneg by nia. rewrite Z.div_mul by discriminate. lia.
Qed.

(** one interaction of one farmer with one rule: what is owed afterwards plus what was paid is at most what
    was owed before *)
Lemma owed_step rps l D delta : 0 <= rps -> 0 <= l ->
  Z.max 0 (rps * (l + delta) - new_debt rps l D delta * P18) + pay_of rps l D * P18 <= Z.max 0 (rps * l - D * P18).
Proof.
  intros Hr Hl. pose proof (debt_delta_ge rps delta Hr) as Hdd.
  unfold new_debt, pay_of, debt_paid, pays, acc_total, dec_mul_int.
  assert (0 <= rps * l) as Hx by nia. rewrite (trunc_nonneg _ Hx). pose proof (div_P18 _ Hx) as Hdiv.
  set (tot := rps * l / P18) in *. set (dd := debt_delta rps delta) in *.
  replace (rps * (l + delta)) with (rps * l + rps * delta) by ring.
  set (A := rps * l) in *. set (B := rps * delta) in *.
  destruct ((0 <? l) && (D <? tot)) eqn:E.
  - apply andb_true_iff in E. destruct E as [E1 E2]. apply Z.ltb_lt in E2. lia.
  - lia.
Qed.

(** the same interaction, exactly: what the farmer loses to rounding is the rounding of the debt of the delta *)
Lemma owed_step_exact rps l D delta : 0 <= rps -> 0 <= l ->
  rps * (l + delta) - new_debt rps l D delta * P18
  = rps * l - D * P18 - pay_of rps l D * P18 - (debt_delta rps delta * P18 - rps * delta).
Proof. intros Hr Hl. unfold new_debt, pay_of, debt_paid. destruct (pays rps l D); ring. Qed.

Lemma pay_of_nonneg rps l D : 0 <= pay_of rps l D.
Proof.
  unfold pay_of, pays. destruct ((0 <? l) && (D <? acc_total rps l)) eqn:E; [|lia].
  apply andb_true_iff in E. destruct E as [_ E2]. apply Z.ltb_lt in E2. lia.
Qed.

Lemma pay_of_accrued rps l D : 0 <= rps -> 0 <= l -> 0 <= D -> pay_of rps l D = accrued rps l D.
Proof.
  intros Hr Hl HD. unfold pay_of, pays, accrued, acc_total, dec_mul_int, dec_truncate_int.
  destruct (Z.ltb_spec 0 l) as [Hpos|Hz]; simpl.
  - destruct (Z.ltb_spec D (Z.quot (rps * l) P18)); lia.
  - assert (l = 0) as El by lia. rewrite El. rewrite Z.mul_0_r. simpl. lia.
Qed.

(** ** CaclRewards against what is owed *)
Lemma cacl_owed rs : forall l ds delta rw db d,
  0 <= l -> Forall rule_ok rs -> cacl rs l ds delta = Some (rw, db) ->
  csum (owed_list rs (l + delta) db) d + csum rw d * P18 <= csum (owed_list rs l ds) d.
Proof.
  induction rs as [|r rs IH]; simpl; intros l ds delta rw db d Hl Hok.
  - intros H; inversion H; subst. unfold csum. simpl. lia.
  - inversion Hok as [|? ? [_ [_ Hr]] Hok']; subst.
    destruct (new_debt _ _ _ _ <? 0) eqn:En; [discriminate|].
    destruct (cacl rs l _ delta) as [[rw' db']|] eqn:E; [|discriminate].
    intros H; inversion H; subst. specialize (IH _ _ _ _ _ d Hl Hok' E).
    pose proof (owed_step (r_rps r) l (hd 0 ds) delta Hr Hl) as Hs.
    unfold csum in *. simpl in *. unfold hd, tl in *. destruct (r_denom r =? d); lia.
Qed.

Lemma cacl_rw_nonneg rs : forall l ds delta rw db,
  cacl rs l ds delta = Some (rw, db) -> Forall (fun c => 0 <= snd c) rw.
Proof.
  induction rs as [|r rs IH]; simpl; intros l ds delta rw db.
  - intros H; inversion H; subst. constructor.
  - destruct (new_debt _ _ _ _ <? 0); [discriminate|].
    destruct (cacl rs l _ delta) as [[rw' db']|] eqn:E; [|discriminate].
    intros H; inversion H; subst. constructor; [simpl; apply pay_of_nonneg|eauto].
Qed.

Lemma cacl_db_nonneg rs : forall l ds delta rw db,
  cacl rs l ds delta = Some (rw, db) -> Forall (fun x => 0 <= x) db.
Proof.
  induction rs as [|r rs IH]; simpl; intros l ds delta rw db.
  - intros H; inversion H; subst. constructor.
  - destruct (new_debt _ _ _ _ <? 0) eqn:En; [discriminate|]. apply Z.ltb_ge in En.
    destruct (cacl rs l _ delta) as [[rw' db']|] eqn:E; [|discriminate].
    intros H; inversion H; subst. constructor; [lia|eauto].
Qed.

(** a farmer without stake and without debt is owed nothing *)
Lemma owed_list_zero rs d : csum (owed_list rs 0 []) d = 0.
Proof.
  unfold csum. induction rs as [|r rs IH]; simpl; [reflexivity|]. rewrite IH. rewrite Z.mul_0_r. simpl.
  destruct (r_denom r =? d); reflexivity.
Qed.

Lemma owed_list_nonneg rs : forall l ds, Forall (fun c => 0 <= snd c) (owed_list rs l ds).
Proof. induction rs as [|r rs IH]; simpl; intros; constructor; [simpl; lia|apply IH]. Qed.

Lemma owed_f_nonneg rs d f : 0 <= owed_f rs d f.
Proof. unfold owed_f. apply csum_nonneg. apply owed_list_nonneg. Qed.

(** ** updatePool against what is owed *)
Definition dq (iv locked : Z) (r : rule) : Z := dec_quo_int (dec_of_int (r_pb r * iv)) locked.

Lemma dq_bounds iv locked r : 0 < locked -> 0 <= r_pb r * iv ->
  0 <= dq iv locked r /\ locked * dq iv locked r <= r_pb r * iv * P18 < locked * dq iv locked r + locked.
Proof.
  intros HL Hc. unfold dq, dec_quo_int, dec_of_int. set (x := r_pb r * iv * P18).
  assert (0 <= x) as Hx by (pose proof P18_pos; nia).
  rewrite Z.quot_div_nonneg by lia.
  pose proof (Z.div_mod x locked ltac:(lia)) as Hdm. pose proof (Z.mod_pos_bound x locked HL) as Hm.
  assert (0 <= x / locked) by (apply Z.div_pos; lia). split; [assumption|]. nia.
Qed.

Lemma collect_owed_list iv locked rs : forall l ds d, 0 <= l -> Forall (fun r => 0 <= dq iv locked r) rs ->
  csum (owed_list (map (collect1 iv locked) rs) l ds) d
  <= csum (owed_list rs l ds) d + l * rule_sum (dq iv locked) rs d.
Proof.
  induction rs as [|r rs IH]; simpl; intros l ds d Hl Hq.
  - unfold csum, rule_sum. simpl. lia.
  - inversion Hq as [|? ? Hq1 Hq']; subst. specialize (IH l (tl ds) d Hl Hq').
    unfold csum, rule_sum in *. simpl. fold (dq iv locked r).
    destruct (r_denom r =? d); [|lia].
    assert (0 <= l * dq iv locked r) by nia. nia.
Qed.

Lemma rule_sum_scal_le (g1 g2 : rule -> Z) k rs d :
  Forall (fun r => k * g1 r <= g2 r) rs -> k * rule_sum g1 rs d <= rule_sum g2 rs d.
Proof.
  unfold rule_sum. induction 1 as [|r rs Hr Hrs IH]; simpl; [lia|].
  destruct (r_denom r =? d); lia.
Qed.

Lemma asum_add_scal {V} (g lk : V -> Z) k (m : amap Z V) :
  asum (fun v => g v + lk v * k) m = asum g m + k * asum lk m.
Proof. unfold asum. induction m as [|kv m IH]; simpl; lia. Qed.

Lemma rule_sum_scal (g : rule -> Z) k rs d : rule_sum (fun r => g r * k) rs d = k * rule_sum g rs d.
Proof. unfold rule_sum. induction rs as [|r rs IH]; simpl; [lia|]. destruct (r_denom r =? d); lia. Qed.

Lemma collect_owed_pool h p d :
  pool_inv h p ->
  asum (owed_f (map (collect1 (upd_iv h p) (p_locked p)) (p_rules p)) d) (p_farmers p)
  <= owed_p d p + rule_sum (fun r => r_pb r * upd_iv h p) (p_rules p) d * P18.
Proof.
  intros PI. unfold upd_iv. destruct ((p_last p <? h) && (0 <? p_locked p)) eqn:Ec.
  - apply andb_true_iff in Ec. destruct Ec as [E1 E2]. apply Z.ltb_lt in E1. apply Z.ltb_lt in E2.
    set (iv := h - p_last p). set (L := p_locked p) in *.
    assert (Forall (fun r => 0 <= dq iv L r /\ L * dq iv L r <= r_pb r * iv * P18) (p_rules p)) as Hdq.
    { eapply Forall_impl; [|exact (pi_rule _ _ PI)]. intros r (_ & Hpb & _).
      destruct (dq_bounds iv L r E2 ltac:(subst iv; nia)) as [Ha [Hb _]]. auto. }
    transitivity (asum (fun f => owed_f (p_rules p) d f + f_locked f * rule_sum (dq iv L) (p_rules p) d) (p_farmers p)).
    + apply asum_le. intros kv Hin. unfold owed_f.
      apply collect_owed_list.
      * pose proof (pi_farmers _ _ PI) as Hf. unfold vals in Hf. rewrite Forall_forall in Hf.
        destruct (Hf (snd kv) (in_map snd _ _ Hin)) as [Hl _]. exact Hl.
      * eapply Forall_impl; [|exact Hdq]. simpl. tauto.
    + rewrite asum_add_scal. fold (owed_p d p).
      change (asum f_locked (p_farmers p)) with (sum_locked p). rewrite (pi_sum _ _ PI). fold L.
      assert (L * rule_sum (dq iv L) (p_rules p) d <= rule_sum (fun r => r_pb r * iv * P18) (p_rules p) d) as Hle.
      { apply rule_sum_scal_le. eapply Forall_impl; [|exact Hdq]. simpl. tauto. }
      rewrite rule_sum_scal in Hle. lia.
  - rewrite collect1_zero. fold (owed_p d p). rewrite rule_sum_zero. lia.
Qed.
