(** * Farm: the C05 trace predicate of the checker holds on every trace of the model
    (the checker raises no alarm on the model itself, for any history) *)
From Irismod Require Export Farm.Budget.

Definition obs_accts : list acct := [0; 1; 2; 3; FARM; COLL; FEEC; BURN].
Definition bals_of (b : ledger) : list (acct * list Z) :=
  map (fun x => (x, map (fun d => bal b x d) denoms)) obs_accts.
(** the model's own state, projected as the harness projects the implementation's *)
Definition obs_of (s : state) (oc : outcome) (rw : list (denom * Z)) : obs :=
  mkObs (outcome_code oc) rw (pools s) (queue s) (bals_of (bank s)).

Lemma obal_obs_of s oc rw x d : In x obs_accts -> In d denoms -> obal (obs_of s oc rw) x d = bal (bank s) x d.
Proof.
  intros Hx Hd. unfold obs_accts, denoms in *. simpl in Hx, Hd.
  repeat (destruct Hx as [<-|Hx]; [repeat (destruct Hd as [<-|Hd]; [reflexivity|]); destruct Hd|]). destruct Hx.
Qed.

Lemma actors_obs x : In x actors -> In x obs_accts.
Proof. unfold actors, obs_accts. simpl. intuition. Qed.

Lemma cacl_rw_accrued rs : forall l ds delta rw db,
  cacl rs l ds delta = Some (rw, db) -> Forall rule_ok rs -> 0 <= l -> Forall (fun d => 0 <= d) ds ->
  rw = accrued_list rs l ds.
Proof.
  induction rs as [|r rs IH]; simpl; intros l ds delta rw db.
  - intros H; inversion H; subst. reflexivity.
  - destruct (new_debt _ _ _ _ <? 0); [discriminate|].
    destruct (cacl rs l _ delta) as [[rw' db']|] eqn:E; [|discriminate].
    intros H Hok Hl Hds; inversion H; subst. inversion Hok as [|? ? (_ & _ & Hr) Hok']; subst.
    assert (0 <= match ds with [] => 0 | d :: _ => d end) as Hd by (destruct ds; [lia|inversion Hds; assumption]).
    assert (Forall (fun d => 0 <= d) match ds with [] => [] | _ :: t => t end) as Hds' by (destruct ds; [constructor|inversion Hds; assumption]).
    rewrite (pay_of_accrued _ _ _ Hr Hl Hd). f_equal. exact (IH _ _ _ _ _ E Hok' Hl Hds').
Qed.

Lemma NoDup_fst_positive cs : NoDup (map fst cs) -> NoDup (map fst (positive_coins cs)).
Proof.
  unfold positive_coins. induction cs as [|[d x] cs IH]; simpl; intros H; [constructor|].
  inversion H as [|? ? Hni Hnd]; subst. destruct (0 <? x); simpl; [|exact (IH Hnd)].
  constructor; [|exact (IH Hnd)]. intros Hi. apply Hni. apply in_map_iff in Hi. destruct Hi as [c [Hc Hin]].
  apply filter_In in Hin. destruct Hin as [Hin _]. apply in_map_iff. exists c. auto.
Qed.

Lemma forallb_sum_locked h ps : Forall (pool_inv h) (vals ps) ->
  forallb (fun ip : Z * pool => sum_locked (snd ip) =? p_locked (snd ip)) ps = true.
Proof.
  unfold vals. intros H. apply forallb_forall. intros ip Hin. rewrite Forall_map, Forall_forall in H.
  apply Z.eqb_eq. exact (pi_sum _ _ (H ip Hin)).
Qed.

Theorem model_passes_c05 s st oc0 rw0 :
  inv s -> valid_step st -> actor_step st ->
  c05_step (height s) (obs_of s oc0 rw0) st
           (obs_of (fst (fst (exec_step s st))) (snd (fst (exec_step s st))) (snd (exec_step s st))) = 0.
Proof.
  intros I Hv Hact. pose proof (step_inv s st I Hv) as I'. unfold step_state in I'.
  set (r := exec_step s st) in *. set (s' := fst (fst r)) in *.
  unfold c05_step.
  match goal with |- (if negb ?c1 then _ else _) = 0 => assert (c1 = true) as -> end.
  { exact (forallb_sum_locked (height s') (pools s') (i_pools _ I')). }
  cbn [negb].
  match goal with |- (if negb ?c2 then _ else _) = 0 => assert (c2 = true) as -> end.
  { apply forallb_forall. intros d Hd. rewrite obal_obs_of; [|unfold obs_accts; simpl; tauto|exact Hd].
    apply Z.eqb_eq. exact (i_escrow _ I' d). }
  cbn [negb].
  destruct st as [m|]; [|reflexivity]. destruct m as [ | |w pid d amt| | | | ]; try reflexivity.
  simpl in Hv, Hact. change (o_pools (obs_of s oc0 rw0)) with (pools s). destruct (get pid (pools s)) as [p|] eqn:Hg; [|reflexivity].
  destruct (get w (p_farmers p)) as [f|] eqn:Hf; [|reflexivity].
  destruct ((d =? p_lpt p) && (0 <=? amt) && (amt <=? f_locked f)) eqn:Hc; [|reflexivity].
  apply andb_true_iff in Hc. destruct Hc as [Hc Hc3]. apply andb_true_iff in Hc. destruct Hc as [Hc1 Hc2].
  apply Z.eqb_eq in Hc1. apply Z.leb_le in Hc2. apply Z.leb_le in Hc3. subst d.
  pose proof (get_pool_inv _ _ _ I Hg) as PI. destruct (farmer_ok _ _ _ _ PI Hf) as [Hl Hdebts].
  destruct (unstake_never_fails_inv s w pid p f amt I Hv Hg Hf ltac:(lia)) as (s2 & rw & Hun).
  assert (r = (s2, Ok, rw)) as Hr by (unfold r, exec_step, exec_msg; rewrite Hun; reflexivity).
  unfold s'. rewrite Hr. cbn [fst snd]. change (o_code (obs_of s2 Ok rw)) with 0. change (o_pools (obs_of s2 Ok rw)) with (pools s2). change (o_rw (obs_of s2 Ok rw)) with rw. rewrite Z.eqb_refl. cbn [negb].
  destruct (unstake_Done _ _ _ _ _ _ _ Hun) as (p0 & fi & p1 & b1 & b2 & rw1 & db & b3 & Hs).
  destruct Hs as (_ & _ & Hg0 & _ & Hfi & _ & _ & Hupd & _ & Hcacl & _ & Hrw & Hs2).
  rewrite Hg in Hg0. inversion Hg0; subst p0. unfold get_finfo in Hfi. unfold acct in *. rewrite Hf in Hfi. inversion Hfi; subst fi.
  assert (p_farmers p1 = p_farmers p /\ Forall rule_ok (p_rules p1) /\ NoDup (map r_denom (p_rules p1))) as (Hfs & Hok1 & Hnd1).
  { unfold unstake_upd in Hupd. destruct (expired s pid p).
    - inversion Hupd; subst. simpl. split; [reflexivity|]. split; [exact (pi_rule _ _ PI)|exact (pi_denoms _ _ PI)].
    - destruct (end_after _ _ _ _ _ _ Hupd) as (_ & Hfs & _ & _ & _ & _ & _ & _ & Hden).
      split; [exact Hfs|]. split; [exact (rules_ok_after _ _ _ _ _ _ PI Hupd)|rewrite Hden; exact (pi_denoms _ _ PI)]. }
  assert (get pid (pools s2) = Some (with_farmers p1 (unstake_fs w (f_locked f - amt) db (p_farmers p)))) as Hg2.
  { rewrite Hs2. simpl. rewrite get_set_same. rewrite Hfs. reflexivity. }
  rewrite Hg2. cbn [p_rules with_farmers].
  rewrite <- (cacl_rw_accrued _ _ _ _ _ _ Hcacl Hok1 Hl Hdebts). rewrite <- Hrw. rewrite eqb_refl. cbn [negb].
  (* balances of the farmer *)
  destruct (unstake_returns_principal_lemma _ _ _ _ _ _ _ Hv Hun) as (p0 & fi & Hg0' & Hfi' & _ & _ & Hbal & _).
  assert (NoDup (map fst rw)) as Hndrw.
  { rewrite Hrw. apply NoDup_fst_positive. destruct (cacl_Some _ _ _ _ _ _ Hcacl) as (_ & _ & Hmf). rewrite Hmf. exact Hnd1. }
  assert (forallb (fun d' => obal (obs_of s2 Ok rw) w d' - obal (obs_of s oc0 rw0) w d' =? (if d' =? p_lpt p then amt else 0) + amount_of rw d') denoms = true) as ->.
  { apply forallb_forall. intros d' Hd'. rewrite !obal_obs_of by (try exact Hd'; apply actors_obs; exact Hact).
    apply Z.eqb_eq. rewrite (Hbal d'). rewrite (amount_of_csum _ _ Hndrw). lia. }
  cbn [negb].
  (* the record *)
  simpl p_farmers. unfold unstake_fs. destruct (Z.eqb_spec (f_locked f - amt) 0) as [Hz|Hnz].
  - rewrite (get_del1_same w (p_farmers p) (pi_nodup _ _ PI)). reflexivity.
  - rewrite get_set_same. simpl. destruct (Z.eqb_spec (f_locked f - amt) 0); [contradiction|]. rewrite Z.eqb_refl. reflexivity.
Qed.
