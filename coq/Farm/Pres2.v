(** * Farm: the invariant of every reachable state, part 3: refund, adjust, create, blocks *)
From Irismod Require Export Farm.Pres.

(** ** the queue *)
Lemma in_queue_true q e : in_queue q e = true <-> In e q.
Proof.
  unfold in_queue. rewrite existsb_exists. split.
  - intros [x [Hin Hx]]. apply (proj1 (eqb_true_iff x e)) in Hx. subst. exact Hin.
  - intros Hin. exists e. split; [exact Hin|apply eqb_refl].
Qed.

Lemma in_queue_false q e : in_queue q e = false <-> ~ In e q.
Proof.
  rewrite <- in_queue_true. destruct (in_queue q e).
  - split; [discriminate|intros H; exfalso; apply H; reflexivity].
  - split; [intros _ H; discriminate|reflexivity].
Qed.

Lemma in_dequeue q x y : In y (dequeue q x) <-> In y q /\ y <> x.
Proof.
  unfold dequeue. rewrite filter_In. split; intros [H1 H2]; split; try assumption.
  - apply negb_true_iff in H2. apply (proj1 (eqb_false_iff y x)) in H2. exact H2.
  - apply negb_true_iff. apply (proj2 (eqb_false_iff y x)). exact H2.
Qed.

Lemma in_enqueue q x y : In y (enqueue q x) <-> In y q \/ y = x.
Proof.
  unfold enqueue. destruct (in_queue q x) eqn:E.
  - apply in_queue_true in E. split; [auto|]. intros [H|H]; [assumption|subst; assumption].
  - rewrite in_app_iff. simpl. split; intros [H|H]; auto. destruct H as [H|[]]; auto.
Qed.

Lemma NoDup_dequeue q x : NoDup q -> NoDup (dequeue q x).
Proof. intros H. unfold dequeue. apply NoDup_filter. exact H. Qed.

Lemma NoDup_enqueue q x : NoDup q -> NoDup (enqueue q x).
Proof.
  intros H. unfold enqueue. destruct (in_queue q x) eqn:E; [exact H|].
  apply in_queue_false in E. clear -H E. induction H as [|a l Ha Hl IH]; simpl.
  - constructor; [intros []|constructor].
  - constructor.
    + rewrite in_app_iff. simpl. intros [Hi|[Hi|[]]]; [contradiction|]. subst. apply E. left. reflexivity.
    + apply IH. intros Hi. apply E. right. exact Hi.
Qed.

(** ** what the farm account holds covers every pool *)
Lemma rule_sum_nonneg g rs d : Forall (fun r => 0 <= g r) rs -> 0 <= rule_sum g rs d.
Proof. unfold rule_sum. induction 1 as [|r rs Hr Hrs IH]; simpl; [lia|]. destruct (r_denom r =? d); lia. Qed.

Lemma rule_sum_le g1 g2 rs d : Forall (fun r => g1 r <= g2 r) rs -> rule_sum g1 rs d <= rule_sum g2 rs d.
Proof. unfold rule_sum. induction 1 as [|r rs Hr Hrs IH]; simpl; [lia|]. destruct (r_denom r =? d); lia. Qed.

Lemma locked_nonneg h p : pool_inv h p -> 0 <= p_locked p.
Proof.
  intros PI. rewrite <- (pi_sum _ _ PI). rewrite sum_locked_eq. apply asum_nonneg.
  pose proof (pi_farmers _ _ PI) as Hf. unfold vals in Hf. rewrite Forall_map in Hf.
  eapply Forall_impl; [|exact Hf]. simpl. intros kv [Hl _]. exact Hl.
Qed.

Lemma rem_sum_nonneg h p d : pool_inv h p -> 0 <= rule_sum r_rem (p_rules p) d.
Proof. intros PI. apply rule_sum_nonneg. eapply Forall_impl; [|exact (pi_rule _ _ PI)]. intros r (H & _). exact H. Qed.

Lemma contrib_nonneg h p d : pool_inv h p -> 0 <= pool_contrib p d.
Proof.
  intros PI. rewrite pool_contrib_eq. pose proof (locked_nonneg _ _ PI). pose proof (rem_sum_nonneg _ _ d PI).
  destruct (p_lpt p =? d); lia.
Qed.

Lemma farm_covers s pid p d : inv s -> get pid (pools s) = Some p -> pool_contrib p d <= bal (bank s) FARM d.
Proof.
  intros I Hg. rewrite (i_escrow _ I d). unfold escrow_expected.
  change (zsum (map (fun ip => pool_contrib (snd ip) d) (pools s))) with (asum (fun q => pool_contrib q d) (pools s)).
  apply (asum_get_le (fun q => pool_contrib q d) pid (pools s) p); [|exact Hg].
  pose proof (i_pools _ I) as Hp. unfold vals in Hp. rewrite Forall_map in Hp.
  eapply Forall_impl; [|exact Hp]. simpl. intros kv PI. exact (contrib_nonneg _ _ d PI).
Qed.

Lemma not_expired_in_queue s pid p : inv s -> get pid (pools s) = Some p -> expired s pid p = false ->
  in_queue (queue s) (p_end p, pid) = true.
Proof.
  intros I Hg Hex. unfold expired in Hex. destruct (in_queue (queue s) (p_end p, pid)) eqn:Eq; [reflexivity|].
  pose proof (i_unq _ I _ _ Hg Eq) as Hle.
  destruct (Z.ltb_spec (p_end p) (height s)); [discriminate|].
  destruct (Z.eqb_spec (height s) (p_end p)); [simpl in Hex; discriminate|]. lia.
Qed.

(** coverage of the update at the current height, for a queued pool *)
Lemma queued_update_covered s pid p : inv s -> get pid (pools s) = Some p -> in_queue (queue s) (p_end p, pid) = true ->
  0 < upd_iv (height s) p -> Forall (fun r => r_pb r * upd_iv (height s) p <= r_rem r) (p_rules p).
Proof.
  intros I Hg Hq Hpos. pose proof (get_pool_inv _ _ _ I Hg) as PI. destruct (i_sched _ I _ _ Hg Hq) as [Hh Hc].
  destruct (upd_iv_cases _ _ (pi_last _ _ PI)) as [Hz|(_ & HL & Hiv)]; [lia|].
  pose proof (pi_started _ _ PI HL) as Hst. unfold covered in Hc.
  pose proof (pi_rule _ _ PI) as Hok. rewrite Forall_forall in Hc, Hok. apply Forall_forall. intros r Hin.
  specialize (Hc r Hin). destruct (Hok r Hin) as (_ & Hpb & _). rewrite Hiv. nia.
Qed.

Lemma update_succeeds s pid p b amt dz : inv s -> get pid (pools s) = Some p -> in_queue (queue s) (p_end p, pid) = true ->
  (forall d, bal (bank s) FARM d <= bal b FARM d) ->
  exists p1 b1, update_pool (height s) b p amt dz = (p1, b1, true).
Proof.
  intros I Hg Hq Hb. pose proof (get_pool_inv _ _ _ I Hg) as PI.
  apply update_pool_ok.
  - exact (pi_last _ _ PI).
  - exact (pi_rules _ _ PI).
  - exact (queued_update_covered _ _ _ I Hg Hq).
  - eapply Forall_impl; [|exact (pi_rule _ _ PI)]. intros r (_ & H & _). lia.
  - intros d. specialize (Hb d). pose proof (farm_covers _ _ _ d I Hg) as Hc. rewrite pool_contrib_eq in Hc.
    pose proof (locked_nonneg _ _ PI).
    assert (rule_sum (fun r => r_pb r * upd_iv (height s) p) (p_rules p) d <= rule_sum r_rem (p_rules p) d).
    { destruct (upd_iv_cases _ _ (pi_last _ _ PI)) as [Hz|(Hpos & _ & _)].
      - rewrite Hz, rule_sum_zero. exact (rem_sum_nonneg _ _ d PI).
      - apply rule_sum_le. exact (queued_update_covered _ _ _ I Hg Hq Hpos). }
    destruct (p_lpt p =? d); lia.
Qed.

(** what is owed depends on the denominations and the per-share values of the rules only *)
Lemma owed_list_ext rs rs' : map (fun r => (r_denom r, r_rps r)) rs = map (fun r => (r_denom r, r_rps r)) rs' ->
  forall l ds, owed_list rs l ds = owed_list rs' l ds.
Proof.
  revert rs'. induction rs as [|r rs IH]; intros [|r' rs'] H l ds; simpl in *; try discriminate; [reflexivity|].
  inversion H as [[Hd Hr Ht]]. rewrite Hd, Hr. f_equal. apply IH. exact Ht.
Qed.

Lemma owed_p_ext p p' d : p_farmers p = p_farmers p' ->
  map (fun r => (r_denom r, r_rps r)) (p_rules p) = map (fun r => (r_denom r, r_rps r)) (p_rules p') ->
  owed_p d p = owed_p d p'.
Proof.
  intros Hf Hr. unfold owed_p. rewrite Hf. apply asum_ext. intros kv _. unfold owed_f.
  rewrite (owed_list_ext _ _ Hr). reflexivity.
Qed.

(** ** Refund *)
Lemma csum_rem_coins p d : csum (rem_coins p) d = rule_sum r_rem (p_rules p) d.
Proof. unfold csum, rem_coins, rule_sum. rewrite map_map. reflexivity. Qed.

Lemma rem_coins_nonneg h p : pool_inv h p -> Forall (fun c => 0 <= snd c) (rem_coins p).
Proof.
  intros PI. unfold rem_coins. rewrite Forall_map. eapply Forall_impl; [|exact (pi_rule _ _ PI)]. simpl. intros r (H & _). exact H.
Qed.

Lemma rule_sum_zero_rem rs d : rule_sum r_rem (map zero_rem rs) d = 0.
Proof. unfold rule_sum. induction rs as [|r rs IH]; simpl; [reflexivity|]. rewrite IH. destruct (r_denom r =? d); reflexivity. Qed.

Lemma refund_inv s pid p s' ok :
  inv s -> get pid (pools s) = Some p -> in_queue (queue s) (p_end p, pid) = true ->
  refund s pid p = (s', ok) ->
  inv s' /\ height s' = height s /\ queue s' = dequeue (queue s) (p_end p, pid).
Proof.
  intros I Hg Hq H. pose proof (get_pool_inv _ _ _ I Hg) as PI.
  destruct (update_succeeds s pid p (bank s) 0 true I Hg Hq ltac:(intros; lia)) as (p1' & b1' & Hok).
  destruct (refund_cases _ _ _ _ _ H) as [(p1 & b1 & Hu & _)|(p1 & b1 & b' & Hu & -> & Hcase)]; [congruence|].
  clear p1' b1' Hok. split; [|split; reflexivity].
  destruct (update_pool_true _ _ _ _ _ _ _ Hu) as (Hlast & Hne & Hcov & Hp1 & Hb1).
  pose proof (rules_ok_after_gen _ _ _ _ _ _ _ PI Hu) as Hok1.
  destruct (pi_creator _ _ PI) as (HcF & HcC & _).
  (* the rules of p1, its other fields *)
  assert (p_farmers p1 = p_farmers p /\ p_locked p1 = p_locked p /\ p_lpt p1 = p_lpt p /\ p_end p1 = height s
          /\ p_last p1 = height s /\ p_start p1 = Z.min (height s) (p_start p) /\ p_creator p1 = p_creator p
          /\ p_rules p1 = map (collect1 (upd_iv (height s) p) (p_locked p)) (p_rules p)) as (Hfs & Hlk & Hlpt & Hend & Hla & Hst & Hcr & Hrs).
  { rewrite Hp1. simpl. repeat split; try reflexivity; try lia. destruct (Z.ltb_spec (height s) (p_start p)); lia. }
  (* the balances after the refund, whichever way it went *)
  assert (forall a d, bal b' a d = bal b1 a d + moved_many a FARM (p_creator p) d (rem_coins p1)) as Hb'.
  { assert (Forall (fun c => 0 <= snd c) (rem_coins p1)) as Hnn.
    { unfold rem_coins. rewrite Forall_map. eapply Forall_impl; [|exact Hok1]. simpl. intros r (Hr & _). exact Hr. }
    destruct Hcase as [(-> & _ & Hwhy)|(Hs & _ & _)].
    - destruct Hwhy as [Hnil|Hnone].
      + intros a d. unfold moved_many. rewrite <- (csum_positive _ d Hnn), Hnil. unfold csum. simpl.
        destruct (a =? p_creator p), (a =? FARM); lia.
      + exfalso. destruct (send_many_ok (positive_coins (rem_coins p1)) b1 FARM (p_creator p) ltac:(congruence)
                             (positive_coins_nonneg _)) as [bx Hbx]; [|congruence].
        intros d. rewrite (csum_positive _ d Hnn), csum_rem_coins. rewrite Hb1. rewrite (moved_many_from FARM COLL) by discriminate.
        rewrite csum_collected, Hrs, rule_sum_rem_collect.
        pose proof (farm_covers _ _ _ d I Hg) as Hc. rewrite pool_contrib_eq in Hc. pose proof (locked_nonneg _ _ PI).
        destruct (p_lpt p =? d); lia.
    - destruct (send_many_bal _ _ _ _ _ Hs) as [_ Hb]. intros a d. rewrite Hb. unfold moved_many.
      rewrite (csum_positive _ d Hnn). reflexivity. }
  apply (inv_replace s pid p (zero_rules p1) _ b' I Hg).
  - constructor; simpl.
    + rewrite sum_locked_eq. simpl. rewrite Hfs, Hlk. rewrite <- sum_locked_eq. exact (pi_sum _ _ PI).
    + rewrite Hfs. exact (pi_farmers _ _ PI).
    + rewrite Hrs. destruct (p_rules p); [congruence|discriminate].
    + rewrite Forall_map. eapply Forall_impl; [|exact Hok1]. unfold rule_ok. simpl. intros r (_ & Hpb & Hrps). lia.
    + rewrite map_map. simpl. rewrite Hrs, map_denom_collect. exact (pi_denoms _ _ PI).
    + lia.
    + intros _. lia.
    + intros Hfr. lia.
    + rewrite Hcr. exact (pi_creator _ _ PI).
  - apply NoDup_dequeue. exact (i_qnd _ I).
  - intros e pid' Hpne. destruct (in_queue (queue s) (e, pid')) eqn:E.
    + apply in_queue_true. apply in_dequeue. split; [apply in_queue_true; exact E|congruence].
    + apply in_queue_false. intros Hin. apply in_dequeue in Hin. destruct Hin as [Hin _]. apply in_queue_false in E. contradiction.
  - intros e Hin. apply in_queue_true in Hin. apply in_dequeue in Hin. destruct Hin as [Hin Hdq].
    apply in_queue_true in Hin. destruct (i_qwf _ I _ _ Hin) as (p' & Hg' & He). rewrite Hg in Hg'. inversion Hg'; subst. congruence.
  - intros Hin. apply in_queue_true in Hin. apply in_dequeue in Hin. destruct Hin as [Hin Hdq].
    apply in_queue_true in Hin. destruct (i_qwf _ I _ _ Hin) as (p' & Hg' & He). rewrite Hg in Hg'. inversion Hg'; subst.
    simpl in Hdq, He. congruence.
  - intros _. simpl. lia.
  - intros d. rewrite !pool_contrib_eq. simpl. rewrite rule_sum_zero_rem. rewrite Hlpt, Hlk.
    rewrite Hb', Hb1. rewrite (moved_many_from FARM (p_creator p)) by congruence.
    rewrite (moved_many_from FARM COLL) by discriminate. rewrite csum_collected, csum_rem_coins, Hrs, rule_sum_rem_collect. lia.
  - intros d. rewrite Hb', Hb1. rewrite (moved_many_other COLL FARM (p_creator p)) by (try discriminate; congruence).
    rewrite (moved_many_to FARM COLL) by discriminate. rewrite csum_collected.
    destruct (owed_p_after_gen _ _ _ _ _ _ _ d PI Hu) as [Hop _].
    rewrite (owed_p_ext (zero_rules p1) p1 d); [lia|reflexivity|]. simpl. rewrite map_map. reflexivity.
Qed.
