(** * Farm: the invariant of every reachable state, part 3: refund, adjust, create, blocks *)
From Irismod Require Export Farm.Pres.

(** ** the queue *)
Lemma in_queue_true q e : in_queue q e = true <-> In e q.
Proof.
  unfold in_queue. rewrite existsb_exists. split.
  - intros [x [Hin Hx]]. apply (proj1 (eqb_true_iff x e)) in Hx. subst. exact Hin.
  - intros Hin. exists e. split; [exact Hin|apply eqb_refl].
Qed.

Lemma in_queue_false q e : in_queue q e = false <-> ~ In e q.
Proof.
  rewrite <- in_queue_true. destruct (in_queue q e).
  - split; [discriminate|intros H; exfalso; apply H; reflexivity].
  - split; [intros _ H; discriminate|reflexivity].
Qed.

Lemma in_dequeue q x y : In y (dequeue q x) <-> In y q /\ y <> x.
Proof.
  unfold dequeue. rewrite filter_In. split; intros [H1 H2]; split; try assumption.
  - apply negb_true_iff in H2. apply (proj1 (eqb_false_iff y x)) in H2. exact H2.
  - apply negb_true_iff. apply (proj2 (eqb_false_iff y x)). exact H2.
Qed.

Lemma in_enqueue q x y : In y (enqueue q x) <-> In y q \/ y = x.
Proof.
  unfold enqueue. destruct (in_queue q x) eqn:E.
  - apply in_queue_true in E. split; [auto|]. intros [H|H]; [assumption|subst; assumption].
  - rewrite in_app_iff. simpl. split; intros [H|H]; auto. destruct H as [H|[]]; auto.
Qed.

Lemma NoDup_dequeue q x : NoDup q -> NoDup (dequeue q x).
Proof. intros H. unfold dequeue. apply NoDup_filter. exact H. Qed.

Lemma NoDup_enqueue q x : NoDup q -> NoDup (enqueue q x).
Proof.
  intros H. unfold enqueue. destruct (in_queue q x) eqn:E; [exact H|].
  apply in_queue_false in E. clear -H E. induction H as [|a l Ha Hl IH]; simpl.
  - constructor; [intros []|constructor].
  - constructor.
    + rewrite in_app_iff. simpl. intros [Hi|[Hi|[]]]; [contradiction|]. subst. apply E. left. reflexivity.
    + apply IH. intros Hi. apply E. right. exact Hi.
Qed.

(** ** what the farm account holds covers every pool *)
Lemma rule_sum_nonneg g rs d : Forall (fun r => 0 <= g r) rs -> 0 <= rule_sum g rs d.
Proof. unfold rule_sum. induction 1 as [|r rs Hr Hrs IH]; simpl; [lia|]. destruct (r_denom r =? d); lia. Qed.

Lemma rule_sum_le g1 g2 rs d : Forall (fun r => g1 r <= g2 r) rs -> rule_sum g1 rs d <= rule_sum g2 rs d.
Proof. unfold rule_sum. induction 1 as [|r rs Hr Hrs IH]; simpl; [lia|]. destruct (r_denom r =? d); lia. Qed.

Lemma locked_nonneg h p : pool_inv h p -> 0 <= p_locked p.
Proof.
  intros PI. rewrite <- (pi_sum _ _ PI). rewrite sum_locked_eq. apply asum_nonneg.
  pose proof (pi_farmers _ _ PI) as Hf. unfold vals in Hf. rewrite Forall_map in Hf.
  eapply Forall_impl; [|exact Hf]. simpl. intros kv [Hl _]. exact Hl.
Qed.

Lemma rem_sum_nonneg h p d : pool_inv h p -> 0 <= rule_sum r_rem (p_rules p) d.
Proof. intros PI. apply rule_sum_nonneg. eapply Forall_impl; [|exact (pi_rule _ _ PI)]. intros r (H & _). exact H. Qed.

Lemma contrib_nonneg h p d : pool_inv h p -> 0 <= pool_contrib p d.
Proof.
  intros PI. rewrite pool_contrib_eq. pose proof (locked_nonneg _ _ PI). pose proof (rem_sum_nonneg _ _ d PI).
  destruct (p_lpt p =? d); lia.
Qed.

Lemma farm_covers s pid p d : inv s -> get pid (pools s) = Some p -> pool_contrib p d <= bal (bank s) FARM d.
Proof.
  intros I Hg. rewrite (i_escrow _ I d). unfold escrow_expected.
  change (zsum (map (fun ip => pool_contrib (snd ip) d) (pools s))) with (asum (fun q => pool_contrib q d) (pools s)).
  apply (asum_get_le (fun q => pool_contrib q d) pid (pools s) p); [|exact Hg].
  pose proof (i_pools _ I) as Hp. unfold vals in Hp. rewrite Forall_map in Hp.
  eapply Forall_impl; [|exact Hp]. simpl. intros kv PI. exact (contrib_nonneg _ _ d PI).
Qed.

Lemma not_expired_in_queue s pid p : inv s -> get pid (pools s) = Some p -> expired s pid p = false ->
  in_queue (queue s) (p_end p, pid) = true.
Proof.
  intros I Hg Hex. unfold expired in Hex. destruct (in_queue (queue s) (p_end p, pid)) eqn:Eq; [reflexivity|].
  pose proof (i_unq _ I _ _ Hg Eq) as Hle.
  destruct (Z.ltb_spec (p_end p) (height s)); [discriminate|].
  destruct (Z.eqb_spec (height s) (p_end p)); [simpl in Hex; discriminate|]. lia.
Qed.

(** coverage of the update at the current height, for a queued pool *)
Lemma queued_update_covered s pid p : inv s -> get pid (pools s) = Some p -> in_queue (queue s) (p_end p, pid) = true ->
  0 < upd_iv (height s) p -> Forall (fun r => r_pb r * upd_iv (height s) p <= r_rem r) (p_rules p).
Proof.
  intros I Hg Hq Hpos. pose proof (get_pool_inv _ _ _ I Hg) as PI. destruct (i_sched _ I _ _ Hg Hq) as [Hh Hc].
  destruct (upd_iv_cases _ _ (pi_last _ _ PI)) as [Hz|(_ & HL & Hiv)]; [lia|].
  pose proof (pi_started _ _ PI HL) as Hst. unfold covered in Hc.
  pose proof (pi_rule _ _ PI) as Hok. rewrite Forall_forall in Hc, Hok. apply Forall_forall. intros r Hin.
  specialize (Hc r Hin). destruct (Hok r Hin) as (_ & Hpb & _). rewrite Hiv. nia.
Qed.

Lemma update_succeeds s pid p b amt dz : inv s -> get pid (pools s) = Some p -> in_queue (queue s) (p_end p, pid) = true ->
  (forall d, bal (bank s) FARM d <= bal b FARM d) ->
  exists p1 b1, update_pool (height s) b p amt dz = (p1, b1, true).
Proof.
  intros I Hg Hq Hb. pose proof (get_pool_inv _ _ _ I Hg) as PI.
  apply update_pool_ok.
  - exact (pi_last _ _ PI).
  - exact (pi_rules _ _ PI).
  - exact (queued_update_covered _ _ _ I Hg Hq).
  - eapply Forall_impl; [|exact (pi_rule _ _ PI)]. intros r (_ & H & _). lia.
  - intros d. specialize (Hb d). pose proof (farm_covers _ _ _ d I Hg) as Hc. rewrite pool_contrib_eq in Hc.
    pose proof (locked_nonneg _ _ PI).
    assert (rule_sum (fun r => r_pb r * upd_iv (height s) p) (p_rules p) d <= rule_sum r_rem (p_rules p) d).
    { destruct (upd_iv_cases _ _ (pi_last _ _ PI)) as [Hz|(Hpos & _ & _)].
      - rewrite Hz, rule_sum_zero. exact (rem_sum_nonneg _ _ d PI).
      - apply rule_sum_le. exact (queued_update_covered _ _ _ I Hg Hq Hpos). }
    destruct (p_lpt p =? d); lia.
Qed.

(** what is owed depends on the denominations and the per-share values of the rules only *)
Lemma owed_list_ext rs rs' : map (fun r => (r_denom r, r_rps r)) rs = map (fun r => (r_denom r, r_rps r)) rs' ->
  forall l ds, owed_list rs l ds = owed_list rs' l ds.
Proof.
  revert rs'. induction rs as [|r rs IH]; intros [|r' rs'] H l ds; simpl in *; try discriminate; [reflexivity|].
  inversion H as [[Hd Hr Ht]]. rewrite Hd, Hr. f_equal. apply IH. exact Ht.
Qed.

Lemma owed_p_ext p p' d : p_farmers p = p_farmers p' ->
  map (fun r => (r_denom r, r_rps r)) (p_rules p) = map (fun r => (r_denom r, r_rps r)) (p_rules p') ->
  owed_p d p = owed_p d p'.
Proof.
  intros Hf Hr. unfold owed_p. rewrite Hf. apply asum_ext. intros kv _. unfold owed_f.
  rewrite (owed_list_ext _ _ Hr). reflexivity.
Qed.

(** ** Refund *)
Lemma csum_rem_coins p d : csum (rem_coins p) d = rule_sum r_rem (p_rules p) d.
Proof. unfold csum, rem_coins, rule_sum. rewrite map_map. reflexivity. Qed.

Lemma rem_coins_nonneg h p : pool_inv h p -> Forall (fun c => 0 <= snd c) (rem_coins p).
Proof.
  intros PI. unfold rem_coins. rewrite Forall_map. eapply Forall_impl; [|exact (pi_rule _ _ PI)]. simpl. intros r (H & _). exact H.
Qed.

Lemma rule_sum_zero_rem rs d : rule_sum r_rem (map zero_rem rs) d = 0.
Proof. unfold rule_sum. induction rs as [|r rs IH]; simpl; [reflexivity|]. rewrite IH. destruct (r_denom r =? d); reflexivity. Qed.

Lemma refund_inv s pid p s' ok :
  inv s -> get pid (pools s) = Some p -> in_queue (queue s) (p_end p, pid) = true ->
  refund s pid p = (s', ok) ->
  inv s' /\ height s' = height s /\ queue s' = dequeue (queue s) (p_end p, pid).
Proof.
  intros I Hg Hq H. pose proof (get_pool_inv _ _ _ I Hg) as PI.
  destruct (update_succeeds s pid p (bank s) 0 true I Hg Hq ltac:(intros; lia)) as (p1' & b1' & Hok).
  destruct (refund_cases _ _ _ _ _ H) as [(p1 & b1 & Hu & _)|(p1 & b1 & b' & Hu & -> & Hcase)]; [congruence|].
  clear p1' b1' Hok. split; [|split; reflexivity].
  destruct (update_pool_true _ _ _ _ _ _ _ Hu) as (Hlast & Hne & Hcov & Hp1 & Hb1).
  pose proof (rules_ok_after_gen _ _ _ _ _ _ _ PI Hu) as Hok1.
  destruct (pi_creator _ _ PI) as (HcF & HcC & _).
  (* the rules of p1, its other fields *)
  assert (p_farmers p1 = p_farmers p /\ p_locked p1 = p_locked p /\ p_lpt p1 = p_lpt p /\ p_end p1 = height s
          /\ p_last p1 = height s /\ p_start p1 = Z.min (height s) (p_start p) /\ p_creator p1 = p_creator p
          /\ p_rules p1 = map (collect1 (upd_iv (height s) p) (p_locked p)) (p_rules p)) as (Hfs & Hlk & Hlpt & Hend & Hla & Hst & Hcr & Hrs).
  { rewrite Hp1. simpl. repeat split; try reflexivity; try lia. destruct (Z.ltb_spec (height s) (p_start p)); lia. }
  (* the balances after the refund, whichever way it went *)
  assert (forall a d, bal b' a d = bal b1 a d + moved_many a FARM (p_creator p) d (rem_coins p1)) as Hb'.
  { assert (Forall (fun c => 0 <= snd c) (rem_coins p1)) as Hnn.
    { unfold rem_coins. rewrite Forall_map. eapply Forall_impl; [|exact Hok1]. simpl. intros r (Hr & _). exact Hr. }
    destruct Hcase as [(-> & _ & Hwhy)|(Hs & _ & _)].
    - destruct Hwhy as [Hnil|Hnone].
      + intros a d. unfold moved_many. rewrite <- (csum_positive _ d Hnn), Hnil. unfold csum. simpl.
        destruct (a =? p_creator p), (a =? FARM); lia.
      + exfalso. destruct (send_many_ok (positive_coins (rem_coins p1)) b1 FARM (p_creator p) ltac:(congruence)
                             (positive_coins_nonneg _)) as [bx Hbx]; [|congruence].
        intros d. rewrite (csum_positive _ d Hnn), csum_rem_coins. rewrite Hb1. rewrite (moved_many_from FARM COLL) by discriminate.
        rewrite csum_collected, Hrs, rule_sum_rem_collect.
        pose proof (farm_covers _ _ _ d I Hg) as Hc. rewrite pool_contrib_eq in Hc. pose proof (locked_nonneg _ _ PI).
        destruct (p_lpt p =? d); lia.
    - destruct (send_many_bal _ _ _ _ _ Hs) as [_ Hb]. intros a d. rewrite Hb. unfold moved_many.
      rewrite (csum_positive _ d Hnn). reflexivity. }
  apply (inv_replace s pid p (zero_rules p1) _ b' I Hg).
  - constructor; simpl.
    + rewrite sum_locked_eq. simpl. rewrite Hfs, Hlk. rewrite <- sum_locked_eq. exact (pi_sum _ _ PI).
    + rewrite Hfs. exact (pi_farmers _ _ PI).
    + rewrite Hrs. destruct (p_rules p); [congruence|discriminate].
    + rewrite Forall_map. eapply Forall_impl; [|exact Hok1]. unfold rule_ok. simpl. intros r (_ & Hpb & Hrps). lia.
    + rewrite map_map. simpl. rewrite Hrs, map_denom_collect. exact (pi_denoms _ _ PI).
    + lia.
    + intros _. lia.
    + intros Hfr. lia.
    + rewrite Hcr. exact (pi_creator _ _ PI).
    + rewrite Hfs. exact (pi_nodup _ _ PI).
    + rewrite Hfs. exact (pi_pos _ _ PI).
  - apply NoDup_dequeue. exact (i_qnd _ I).
  - intros e pid' Hpne. destruct (in_queue (queue s) (e, pid')) eqn:E.
    + apply in_queue_true. apply in_dequeue. split; [apply in_queue_true; exact E|congruence].
    + apply in_queue_false. intros Hin. apply in_dequeue in Hin. destruct Hin as [Hin _]. apply in_queue_false in E. contradiction.
  - intros e Hin. apply in_queue_true in Hin. apply in_dequeue in Hin. destruct Hin as [Hin Hdq].
    apply in_queue_true in Hin. destruct (i_qwf _ I _ _ Hin) as (p' & Hg' & He). rewrite Hg in Hg'. inversion Hg'; subst. congruence.
  - intros Hin. apply in_queue_true in Hin. apply in_dequeue in Hin. destruct Hin as [Hin Hdq].
    apply in_queue_true in Hin. destruct (i_qwf _ I _ _ Hin) as (p' & Hg' & He). rewrite Hg in Hg'. inversion Hg'; subst.
    simpl in Hdq, He. congruence.
  - intros _. simpl. lia.
  - intros d. rewrite !pool_contrib_eq. simpl. rewrite rule_sum_zero_rem. rewrite Hlpt, Hlk.
    rewrite Hb', Hb1. rewrite (moved_many_from FARM (p_creator p)) by congruence.
    rewrite (moved_many_from FARM COLL) by discriminate. rewrite csum_collected, csum_rem_coins, Hrs, rule_sum_rem_collect. lia.
  - intros d. rewrite Hb', Hb1. rewrite (moved_many_other COLL FARM (p_creator p)) by (try discriminate; congruence).
    rewrite (moved_many_to FARM COLL) by discriminate. rewrite csum_collected.
    destruct (owed_p_after_gen _ _ _ _ _ _ _ d PI Hu) as [Hop _].
    rewrite (owed_p_ext (zero_rules p1) p1 d); [lia|reflexivity|]. simpl. rewrite map_map. reflexivity.
Qed.

(** ** DestroyPool *)
Lemma destroy_inv s who pid s' rw : inv s -> destroy s who pid = Done s' rw -> inv s'.
Proof.
  intros I H. destruct (destroy_Done _ _ _ _ _ H) as (p & Hg & _ & _ & Hex & Hr & _).
  pose proof (not_expired_in_queue _ _ _ I Hg Hex) as Hq.
  destruct (refund_inv _ _ _ _ _ I Hg Hq Hr) as [I' _]. exact I'.
Qed.

(** ** EndBlocker *)
Lemma in_insert_sorted x a l : In x (insert_sorted a l) <-> x = a \/ In x l.
Proof.
  induction l as [|y l IH]; simpl; [intuition|].
  destruct (a <=? y); simpl; [intuition|]. rewrite IH. intuition.
Qed.

Lemma in_sort_z x l : In x (sort_z l) <-> In x l.
Proof.
  unfold sort_z. induction l as [|a l IH]; simpl; [tauto|]. rewrite in_insert_sorted, IH. intuition.
Qed.

Lemma NoDup_insert_sorted a l : ~ In a l -> NoDup l -> NoDup (insert_sorted a l).
Proof.
  induction l as [|y l IH]; simpl; intros Hni Hnd.
  - constructor; [intros []|constructor].
  - destruct (a <=? y).
    + constructor; [simpl; exact Hni|exact Hnd].
    + inversion Hnd as [|? ? Hy Hl]; subst. constructor.
      * rewrite in_insert_sorted. intros [->|Hi]; [apply Hni; left; reflexivity|contradiction].
      * apply IH; [intros Hi; apply Hni; right; exact Hi|exact Hl].
Qed.

Lemma NoDup_sort_z l : NoDup l -> NoDup (sort_z l).
Proof.
  unfold sort_z. induction 1 as [|a l Ha Hl IH]; simpl; [constructor|].
  apply NoDup_insert_sorted; [|exact IH]. fold (sort_z l). rewrite in_sort_z. exact Ha.
Qed.

Lemma in_due s pid : In pid (due s) <-> In (height s, pid) (queue s).
Proof.
  unfold due. rewrite in_sort_z, in_map_iff. split.
  - intros [[e p'] [Hs Hin]]. simpl in Hs. subst p'. apply filter_In in Hin. destruct Hin as [Hin He]. simpl in He.
    apply Z.eqb_eq in He. subst. exact Hin.
  - intros Hin. exists (height s, pid). split; [reflexivity|]. apply filter_In. split; [exact Hin|simpl; apply Z.eqb_refl].
Qed.

Lemma NoDup_due s : NoDup (queue s) -> NoDup (due s).
Proof.
  intros Hnd. unfold due. apply NoDup_sort_z. induction Hnd as [|[e p'] l Ha Hl IH]; simpl; [constructor|].
  destruct (Z.eqb_spec e (height s)) as [->|Hne]; simpl; [|exact IH].
  constructor; [|exact IH]. intros Hin. apply in_map_iff in Hin. destruct Hin as [[e2 p2] [Hs Hin]]. simpl in Hs. subst p2.
  apply filter_In in Hin. destruct Hin as [Hin He]. simpl in He. apply Z.eqb_eq in He. subst. contradiction.
Qed.

Lemma end_block_one_inv s pid : inv s -> In (height s, pid) (queue s) ->
  inv (end_block_one s pid) /\ height (end_block_one s pid) = height s
  /\ queue (end_block_one s pid) = dequeue (queue s) (height s, pid).
Proof.
  intros I Hin. apply in_queue_true in Hin. destruct (i_qwf _ I _ _ Hin) as (p & Hg & He).
  unfold end_block_one. rewrite Hg. destruct (refund s pid p) as [s' ok] eqn:Er. simpl.
  rewrite <- He in Hin. destruct (refund_inv _ _ _ _ _ I Hg Hin Er) as (I' & Hh & Hq). split; [exact I'|]. split; [exact Hh|]. rewrite Hq, He. reflexivity.
Qed.

Lemma end_block_fold l : forall s, inv s -> NoDup l -> (forall pid, In pid l -> In (height s, pid) (queue s)) ->
  let s' := fold_left end_block_one l s in
  inv s' /\ height s' = height s
  /\ (forall x, In x (queue s') <-> In x (queue s) /\ ~ (fst x = height s /\ In (snd x) l)).
Proof.
  induction l as [|pid l IH]; simpl; intros s I Hnd Hdue.
  - split; [exact I|]. split; [reflexivity|]. intros x. tauto.
  - inversion Hnd as [|? ? Hni Hnd']; subst.
    destruct (end_block_one_inv s pid I (Hdue pid (or_introl eq_refl))) as (I1 & Hh1 & Hq1).
    specialize (IH (end_block_one s pid) I1 Hnd').
    assert (forall pid', In pid' l -> In (height (end_block_one s pid), pid') (queue (end_block_one s pid))) as Hdue'.
    { intros pid' Hin. rewrite Hh1, Hq1. apply in_dequeue. split; [apply Hdue; right; exact Hin|].
      intros Heq. inversion Heq; subst. contradiction. }
    destruct (IH Hdue') as (I2 & Hh2 & Hq2). split; [exact I2|]. split; [lia|].
    intros [e p']. rewrite Hq2, Hq1, in_dequeue, Hh1. simpl. split.
    + intros [[Hin Hne] Hno]. split; [exact Hin|]. intros [He [Hp|Hp]].
      * subst. apply Hne. reflexivity.
      * apply Hno. auto.
    + intros [Hin Hno]. split; [split; [exact Hin|]|].
      * intros Heq. inversion Heq; subst. apply Hno. auto.
      * intros [He Hp]. apply Hno. auto.
Qed.

Lemma pool_inv_mono h p : pool_inv h p -> pool_inv (h + 1) p.
Proof.
  intros PI. constructor;
    [exact (pi_sum _ _ PI)|exact (pi_farmers _ _ PI)|exact (pi_rules _ _ PI)|exact (pi_rule _ _ PI)|exact (pi_denoms _ _ PI)
    |pose proof (pi_last _ _ PI); lia|exact (pi_started _ _ PI)| |exact (pi_creator _ _ PI)|exact (pi_nodup _ _ PI)|exact (pi_pos _ _ PI)].
  intros Hfr. apply (pi_fresh _ _ PI). lia.
Qed.

Lemma next_block_inv s : inv s -> inv (step_state s NextBlock).
Proof.
  intros I. unfold step_state, exec_step. simpl.
  destruct (end_block_fold (due s) s I (NoDup_due _ (i_qnd _ I)) (fun pid H => proj1 (in_due s pid) H)) as (I' & Hh & Hq).
  fold (end_block s) in *. set (s' := end_block s) in *.
  assert (forall e pid, in_queue (queue s') (e, pid) = true -> e <> height s') as Hnone.
  { intros e pid Hin He. apply in_queue_true in Hin. apply Hq in Hin. destruct Hin as [Hin Hno]. apply Hno. simpl.
    split; [lia|]. apply in_due. rewrite Hh in He. subst. exact Hin. }
  constructor; simpl.
  - eapply Forall_impl; [|exact (i_pools _ I')]. intros p PI. exact (pool_inv_mono _ _ PI).
  - exact (i_ids _ I').
  - exact (i_escrow _ I').
  - exact (i_solv _ I').
  - intros pid p Hg Hin. destruct (i_sched _ I' _ _ Hg Hin) as [Hle Hc]. split; [|exact Hc].
    pose proof (Hnone _ _ Hin). lia.
  - intros pid p Hg Hin. pose proof (i_unq _ I' _ _ Hg Hin). lia.
  - exact (i_qwf _ I').
  - exact (i_qnd _ I').
  - pose proof (i_height _ I'). lia.
  - exact (i_seq _ I').
  - exact (i_nodup _ I').
Qed.

(** ** CreatePool *)
Lemma min_interval_ge c l : forall iv, Forall (fun ap => c <= Z.quot (fst ap) (snd ap)) l -> min_interval l = Some iv -> c <= iv.
Proof.
  induction l as [|[a pb] l IH]; simpl; intros iv Hall H; [discriminate|].
  inversion Hall as [|? ? Ha Hl]; subst. simpl in Ha. destruct (min_interval l) as [j|] eqn:E.
  - inversion H; subst. specialize (IH j Hl eq_refl). lia.
  - inversion H; subst. exact Ha.
Qed.

Lemma deduct_fee_bal cf tr b who b1 : deduct_fee cf tr b who = Some b1 -> who <> FARM -> who <> COLL ->
  forall d, bal b1 FARM d = bal b FARM d /\ bal b1 COLL d = bal b COLL d.
Proof.
  unfold deduct_fee. set (tax := dec_truncate_int (dec_mul (dec_of_int cf) tr)).
  destruct (send b who FARM STAKE cf) as [l1|] eqn:E1; [|discriminate].
  destruct (send l1 FARM FEEC STAKE tax) as [l2|] eqn:E2; [|discriminate].
  intros E3 HwF HwC d.
  destruct (send_bal _ _ _ _ _ _ E1) as [_ H1]. destruct (send_bal _ _ _ _ _ _ E2) as [_ H2]. destruct (send_bal _ _ _ _ _ _ E3) as [_ H3].
  rewrite !H3, !H2, !H1. split.
  - rewrite (moved_from FARM BURN) by discriminate. rewrite (moved_from FARM FEEC) by discriminate.
    rewrite (moved_to who FARM) by exact HwF. destruct (d =? STAKE); lia.
  - rewrite (moved_other COLL FARM BURN) by discriminate. rewrite (moved_other COLL FARM FEEC) by discriminate.
    rewrite (moved_other COLL who FARM) by (try discriminate; congruence). lia.
Qed.

Lemma quot_mul_le a pb iv : 0 <= a -> 0 < pb -> iv <= Z.quot a pb -> pb * iv <= a.
Proof.
  intros Ha Hpb Hiv. rewrite Z.quot_div_nonneg in Hiv by lia.
  pose proof (Z.mul_div_le a pb Hpb). nia.
Qed.

Lemma create_inv s who lpt start editable rules s' rw :
  inv s -> actor who -> create_pool s who lpt start editable rules = Done s' rw -> inv s'.
Proof.
  intros I Hact H. pose proof Hact as (HwF & HwC & _).
  destruct (create_Done _ _ _ _ _ _ _ _ H) as (b1 & b2 & iv & Hsorted & Hrules & Hne & Hstart & Hfee & Hsend & Hmin & _ & ->).
  pose proof (i_height _ I) as Hh.
  set (id := seq s + 1). set (e := start + iv).
  set (p0 := mkPool who start e 0 lpt 0 editable (new_rules rules) []).
  assert (get id (pools s) = None) as Hnone.
  { destruct (get id (pools s)) as [q|] eqn:Eg; [|reflexivity]. apply get_Some_in_keys in Eg.
    pose proof (i_ids _ I) as Hids. rewrite Forall_forall in Hids. specialize (Hids _ Eg). unfold id in Hids. lia. }
  assert (forall x pid', In (x, pid') (queue s) -> pid' <> id) as Hqid.
  { intros x pid' Hin ->. apply in_queue_true in Hin. destruct (i_qwf _ I _ _ Hin) as (q & Hq & _). congruence. }
  assert (0 <= iv) as Hiv.
  { eapply (min_interval_ge 0); [|exact Hmin]. rewrite Forall_map. eapply Forall_impl; [|exact Hrules].
    intros [[d t] pb] Hb. simpl. apply Z.quot_pos; lia. }
  assert (Forall (fun r => r_pb r * iv <= r_rem r) (new_rules rules)) as Hcovd.
  { destruct (min_interval_Some _ _ Hmin) as [_ Hall]. rewrite Forall_map in Hall. unfold new_rules. rewrite Forall_map.
    rewrite Forall_forall in Hall, Hrules. apply Forall_forall. intros [[d t] pb] Hin. specialize (Hall _ Hin). specialize (Hrules _ Hin).
    simpl in *. apply quot_mul_le; lia. }
  assert (pool_inv (height s) p0) as PI0.
  { constructor; simpl.
    - reflexivity.
    - constructor.
    - destruct rules; [congruence|discriminate].
    - unfold new_rules. rewrite Forall_map. eapply Forall_impl; [|exact Hrules]. intros [[d t] pb] Hb. unfold rule_ok. simpl. lia.
    - unfold new_rules. rewrite map_map. apply sorted_strict_NoDup.
      erewrite map_ext; [exact Hsorted|]. intros [[d t] pb]. reflexivity.
    - lia.
    - lia.
    - intros _. unfold new_rules. rewrite Forall_map. apply Forall_forall. intros [[d t] pb] _. reflexivity.
    - exact Hact.
    - constructor.
    - constructor. }
  destruct (send_many_bal _ _ _ _ _ Hsend) as [_ Hb2].
  pose proof (deduct_fee_bal _ _ _ _ _ Hfee HwF HwC) as Hb1.
  constructor; simpl.
  - apply Forall_vals_set; [exact (i_pools _ I)|exact PI0].
  - pose proof (i_seq _ I) as Hseq. apply Forall_forall. intros x Hx. destruct (keys_set_in _ _ _ _ Hx) as [->|Hin]; [unfold id; lia|].
    pose proof (i_ids _ I) as Hids. rewrite Forall_forall in Hids. specialize (Hids _ Hin). lia.
  - intros d. rewrite (escrow_set_new _ _ _ d Hnone). rewrite Hb2. destruct (Hb1 d) as [-> _]. rewrite (i_escrow _ I d).
    rewrite (moved_many_to who FARM) by exact HwF. rewrite pool_contrib_eq. simpl.
    assert (csum (map (fun '(d0, t, _) => (d0, t)) rules) d = rule_sum r_rem (new_rules rules) d) as ->.
    { unfold csum, rule_sum, new_rules. rewrite !map_map. f_equal. apply map_ext. intros [[d0 t] pb]. reflexivity. }
    destruct (lpt =? d); lia.
  - intros d. rewrite (owed_set_new _ _ _ d Hnone). rewrite Hb2. destruct (Hb1 d) as [_ ->].
    rewrite (moved_many_other COLL who FARM) by (try discriminate; congruence).
    assert (owed_p d p0 = 0) as -> by reflexivity. pose proof (i_solv _ I d). lia.
  - intros pid' p' Hg' Hin. apply in_queue_true in Hin. apply in_enqueue in Hin.
    destruct (Z.eq_dec pid' id) as [->|Hne'].
    + rewrite get_set_same in Hg'. inversion Hg'; subst p'. simpl. split; [unfold e; lia|].
      unfold covered. simpl. replace (e - Z.max start 0) with iv by (unfold e; lia). exact Hcovd.
    + rewrite get_set_other in Hg' by exact Hne'. destruct Hin as [Hin|Heq]; [|inversion Heq; contradiction].
      apply in_queue_true in Hin. exact (i_sched _ I _ _ Hg' Hin).
  - intros pid' p' Hg' Hin. apply in_queue_false in Hin. destruct (Z.eq_dec pid' id) as [->|Hne'].
    + rewrite get_set_same in Hg'. inversion Hg'; subst p'. simpl in Hin. exfalso. apply Hin. apply in_enqueue. right. reflexivity.
    + rewrite get_set_other in Hg' by exact Hne'. apply (i_unq _ I _ _ Hg'). apply in_queue_false. intros Hi. apply Hin. apply in_enqueue. left. exact Hi.
  - intros e' pid' Hin. apply in_queue_true in Hin. apply in_enqueue in Hin. destruct Hin as [Hin|Heq].
    + pose proof (Hqid _ _ Hin) as Hne'. apply in_queue_true in Hin. rewrite get_set_other by exact Hne'. exact (i_qwf _ I _ _ Hin).
    + inversion Heq; subst. exists p0. rewrite get_set_same. split; reflexivity.
  - apply NoDup_enqueue. exact (i_qnd _ I).
  - exact Hh.
  - pose proof (i_seq _ I). lia.
  - apply keys_set_NoDup. exact (i_nodup _ I).
Qed.

(** ** AdjustPool *)
Lemma amount_of_nonneg cs d : Forall (fun c => 0 < snd c) cs -> 0 <= amount_of cs d.
Proof.
  unfold amount_of. induction 1 as [|[d0 x] cs Hx Hcs IH]; simpl; [lia|].
  destruct (eq_dec d d0); [simpl in Hx; lia|exact IH].
Qed.

Lemma rule_sum_by_denom (g : denom -> Z) rs d :
  rule_sum (fun r => g (r_denom r)) rs d = rule_sum (fun _ => 1) rs d * g d.
Proof.
  unfold rule_sum. induction rs as [|r rs IH]; simpl; [reflexivity|]. rewrite IH.
  destruct (Z.eqb_spec (r_denom r) d) as [->|Hne]; lia.
Qed.

Lemma rule_count_notin rs d : ~ In d (map r_denom rs) -> rule_sum (fun _ => 1) rs d = 0.
Proof.
  unfold rule_sum. induction rs as [|r rs IH]; simpl; intros Hni; [reflexivity|].
  destruct (Z.eqb_spec (r_denom r) d) as [He|Hne]; [exfalso; apply Hni; left; exact He|].
  rewrite IH; [reflexivity|]. intros Hi; apply Hni; right; exact Hi.
Qed.

Lemma rule_count_in rs d : NoDup (map r_denom rs) -> In d (map r_denom rs) -> rule_sum (fun _ => 1) rs d = 1.
Proof.
  induction rs as [|r rs IH]; simpl; intros Hnd Hin; [contradiction|].
  inversion Hnd as [|? ? Hni Hnd']; subst. unfold rule_sum. simpl.
  destruct (Z.eqb_spec (r_denom r) d) as [He|Hne].
  - subst d. fold (rule_sum (fun _ => 1) rs (r_denom r)). rewrite (rule_count_notin _ _ Hni). reflexivity.
  - destruct Hin as [Hi|Hi]; [contradiction|]. fold (rule_sum (fun _ => 1) rs d). rewrite (IH Hnd' Hi). reflexivity.
Qed.

Lemma csum_notin cs d : ~ In d (map fst cs) -> csum cs d = 0.
Proof.
  unfold csum. induction cs as [|[d0 x] cs IH]; simpl; intros Hni; [reflexivity|].
  destruct (Z.eqb_spec d0 d) as [He|Hne]; [exfalso; apply Hni; left; exact He|].
  rewrite IH; [reflexivity|]. intros Hi; apply Hni; right; exact Hi.
Qed.

Lemma topup_sum rs add d :
  NoDup (map r_denom rs) -> NoDup (map fst add) ->
  Forall (fun c => exists r, In r rs /\ r_denom r = fst c) add ->
  rule_sum (fun r => amount_of add (r_denom r)) rs d = csum add d.
Proof.
  intros Hnd Hnda Hsub. rewrite (rule_sum_by_denom (amount_of add)). rewrite (amount_of_csum _ _ Hnda).
  destruct (in_dec Z.eq_dec d (map r_denom rs)) as [Hin|Hni].
  - rewrite (rule_count_in _ _ Hnd Hin). lia.
  - rewrite (rule_count_notin _ _ Hni). rewrite csum_notin; [lia|].
    intros Hi. apply in_map_iff in Hi. destruct Hi as [c [Hc Hin]]. rewrite Forall_forall in Hsub.
    destruct (Hsub c Hin) as (r & Hr & Hd). apply Hni. apply in_map_iff. exists r. split; [congruence|exact Hr].
Qed.

Lemma adj_rules_fields add rpb rs :
  map (fun r => (r_denom r, r_rps r)) (map (adj_pb rpb) (map (adj_topup add) rs)) = map (fun r => (r_denom r, r_rps r)) rs
  /\ map r_denom (map (adj_pb rpb) (map (adj_topup add) rs)) = map r_denom rs.
Proof. rewrite !map_map. simpl. split; reflexivity. Qed.

Lemma rule_sum_rem_adj add rpb rs d :
  rule_sum r_rem (map (adj_pb rpb) (map (adj_topup add) rs)) d
  = rule_sum r_rem rs d + rule_sum (fun r => amount_of add (r_denom r)) rs d.
Proof. unfold rule_sum. induction rs as [|r rs IH]; simpl; [reflexivity|]. rewrite IH. destruct (r_denom r =? d); lia. Qed.

Lemma adjust_inv s who pid add rpb s' rw : inv s -> actor who -> adjust s who pid add rpb = Done s' rw -> inv s'.
Proof.
  intros I (HwF & HwC & _) H. destruct (adjust_Done _ _ _ _ _ _ _ H) as (p & p1 & b1 & b2 & iv & Hs). cbv zeta in Hs.
  destruct Hs as (Hsa & Hadd & Hrpb & Hg & _ & -> & Hex & Hsub & Hu & Hsend & Hmin & _ & ->).
  pose proof (get_pool_inv _ _ _ I Hg) as PI. pose proof (not_expired_in_queue _ _ _ I Hg Hex) as Hq.
  destruct (i_sched _ I _ _ Hg Hq) as [Hhe Hcov0].
  destruct (end_after _ _ _ _ _ _ Hu) as (Hend & Hfs & Hlpt & Hlk & Hst & Hla & Hcr & _ & Hden).
  destruct (update_pool_true _ _ _ _ _ _ _ Hu) as (Hlast & _ & _ & _ & Hb1).
  destruct (send_many_bal _ _ _ _ _ Hsend) as [_ Hb2].
  pose proof (rules_ok_after _ _ _ _ _ _ PI Hu) as Hok1.
  pose proof (covered_after _ _ _ _ _ _ (p_farmers p1) PI Hu Hcov0) as Hcov1. unfold covered in Hcov1. simpl in Hcov1.
  rewrite Hend, Hst, Hla in Hcov1.
  set (started := p_start p <=? height s) in *.
  set (start_h := if started then height s else p_start p) in *.
  set (e := start_h + iv) in *.
  set (p2 := with_end (with_rules p1 (adj_rules add rpb p1)) e).
  assert (NoDup (map fst add)) as Hnda by (apply sorted_strict_NoDup; exact Hsa).
  (* per rule: the new reward per block covers the schedule up to the new end height *)
  assert (forall r, In r (p_rules p1) ->
            0 < r_pb (adj_pb rpb (adj_topup add r))
            /\ 0 <= adj_avail started (p_end p1 - start_h) add (adj_topup add r) <= r_rem r + amount_of add (r_denom r)) as Hper.
  { intros r Hin. rewrite Forall_forall in Hok1, Hcov1. destruct (Hok1 r Hin) as (Hrem & Hpb & _). specialize (Hcov1 r Hin).
    pose proof (amount_of_nonneg add (r_denom r) ltac:(eapply Forall_impl; [|exact Hadd]; simpl; intros; lia)) as Ha.
    pose proof (amount_of_nonneg rpb (r_denom r) ltac:(eapply Forall_impl; [|exact Hrpb]; simpl; intros; lia)) as Hr.
    split.
    - simpl. destruct (Z.ltb_spec 0 (amount_of rpb (r_denom r))); lia.
    - unfold adj_avail. simpl. rewrite Hend. unfold start_h, started in *. destruct (Z.leb_spec (p_start p) (height s)) as [Hs'|Hs'].
      + assert (Z.max (p_start p) (height s) = height s) as Hm by lia. rewrite Hm in Hcov1. nia.
      + assert (Forall (fun r => r_rem r = r_total r) (p_rules p1)) as Hfr.
        { destruct (update_pool_true _ _ _ _ _ _ _ Hu) as (_ & _ & _ & -> & _). simpl.
          destruct (upd_iv_cases _ _ Hlast) as [Hz|(_ & HL & _)].
          - rewrite Hz, collect1_zero. exact (pi_fresh _ _ PI Hs').
          - pose proof (pi_started _ _ PI HL). lia. }
        rewrite Forall_forall in Hfr. specialize (Hfr r Hin). lia. }
  assert (height s <= e /\ Forall (fun r => r_pb r * (e - Z.max (p_start p) (height s)) <= r_rem r) (adj_rules add rpb p1)) as [Hhe' Hcov2].
  { assert (0 <= iv) as Hiv.
    { eapply (min_interval_ge 0); [|exact Hmin]. rewrite !Forall_map. apply Forall_forall. intros r Hin. cbn [fst snd].
      destruct (Hper r Hin) as [Hpb [Ha _]]. apply Z.quot_pos; lia. }
    split.
    - unfold e, start_h, started. destruct (Z.leb_spec (p_start p) (height s)); lia.
    - destruct (min_interval_Some _ _ Hmin) as [_ Hall]. rewrite !Forall_map in Hall. unfold adj_rules. rewrite !Forall_map.
      rewrite Forall_forall in Hall. apply Forall_forall. intros r Hin. specialize (Hall r Hin). cbn [fst snd] in Hall.
      destruct (Hper r Hin) as [Hpb [Ha Hle]].
      pose proof (quot_mul_le _ _ _ Ha Hpb Hall) as Hm. cbn [r_pb r_rem adj_pb adj_topup] in *.
      assert (e - Z.max (p_start p) (height s) = iv) as ->; [|lia].
      unfold e, start_h, started. destruct (Z.leb_spec (p_start p) (height s)); lia. }
  assert (pool_inv (height s) p2) as PI2.
  { constructor; simpl.
    - rewrite sum_locked_eq. simpl. rewrite Hfs, Hlk. rewrite <- sum_locked_eq. rewrite (pi_sum _ _ PI). lia.
    - rewrite Hfs. exact (pi_farmers _ _ PI).
    - unfold adj_rules. pose proof (pi_rules _ _ PI) as Hne. destruct (p_rules p1) eqn:Er; [|discriminate].
      apply (f_equal (@length denom)) in Hden. rewrite !map_length in Hden. simpl in Hden. destruct (p_rules p); [congruence|discriminate].
    - unfold adj_rules. rewrite !Forall_map. apply Forall_forall. intros r Hin. destruct (Hper r Hin) as [Hpb [Ha Hle]].
      rewrite Forall_forall in Hok1. destruct (Hok1 r Hin) as (Hrem & _ & Hrps). unfold rule_ok. simpl in *.
      pose proof (amount_of_nonneg add (r_denom r) ltac:(eapply Forall_impl; [|exact Hadd]; simpl; intros; lia)). lia.
    - unfold adj_rules. rewrite (proj2 (adj_rules_fields add rpb (p_rules p1))), Hden. exact (pi_denoms _ _ PI).
    - lia.
    - rewrite Hlk, Hst, Hla. intros HL. pose proof (pi_started _ _ PI ltac:(lia)). lia.
    - rewrite Hst. intros Hfr. unfold adj_rules. rewrite !Forall_map.
      destruct (update_pool_true _ _ _ _ _ _ _ Hu) as (_ & _ & _ & -> & _). simpl.
      destruct (upd_iv_cases _ _ Hlast) as [Hz|(_ & HL & _)]; [|pose proof (pi_started _ _ PI HL); lia].
      rewrite Hz, collect1_zero. eapply Forall_impl; [|exact (pi_fresh _ _ PI Hfr)]. simpl. intros r ->. reflexivity.
    - rewrite Hcr. exact (pi_creator _ _ PI).
    - rewrite Hfs. exact (pi_nodup _ _ PI).
    - rewrite Hfs. exact (pi_pos _ _ PI). }
  set (q' := if e =? p_end p1 then queue s else enqueue (dequeue (queue s) (p_end p1, pid)) (e, pid)).
  assert (in_queue q' (e, pid) = true) as Hinq.
  { unfold q'. destruct (Z.eqb_spec e (p_end p1)) as [He|He]; [rewrite He, Hend; exact Hq|].
    apply in_queue_true. apply in_enqueue. right. reflexivity. }
  apply (inv_replace s pid p p2 q' b2 I Hg PI2).
  - unfold q'. destruct (e =? p_end p1); [exact (i_qnd _ I)|]. apply NoDup_enqueue. apply NoDup_dequeue. exact (i_qnd _ I).
  - intros e' pid' Hne. unfold q'. destruct (e =? p_end p1); [reflexivity|].
    destruct (in_queue (queue s) (e', pid')) eqn:E.
    + apply in_queue_true. apply in_enqueue. left. apply in_dequeue. split; [apply in_queue_true; exact E|congruence].
    + apply in_queue_false. intros Hi. apply in_enqueue in Hi. destruct Hi as [Hi|Hi]; [|congruence].
      apply in_dequeue in Hi. destruct Hi as [Hi _]. apply in_queue_false in E. contradiction.
  - intros e' Hin. simpl. unfold q' in Hin. destruct (Z.eqb_spec e (p_end p1)) as [He|He].
    + destruct (i_qwf _ I _ _ Hin) as (p' & Hg' & He'). rewrite Hg in Hg'. inversion Hg'; subst p'. lia.
    + apply in_queue_true in Hin. apply in_enqueue in Hin. destruct Hin as [Hi|Hi]; [|congruence].
      apply in_dequeue in Hi. destruct Hi as [Hi Hne]. apply in_queue_true in Hi.
      destruct (i_qwf _ I _ _ Hi) as (p' & Hg' & He'). rewrite Hg in Hg'. inversion Hg'; subst p'. exfalso. apply Hne. congruence.
  - intros _. simpl. split; [exact Hhe'|]. unfold covered. simpl. rewrite Hst, Hla. exact Hcov2.
  - simpl. rewrite Hinq. discriminate.
  - intros d. rewrite !pool_contrib_eq. simpl. unfold adj_rules. rewrite rule_sum_rem_adj.
    rewrite (topup_sum _ add d); [|rewrite Hden; exact (pi_denoms _ _ PI)|exact Hnda|].
    + rewrite Hlpt, Hlk. rewrite Hb2, Hb1. rewrite (moved_many_to (p_creator p) FARM) by exact HwF.
      rewrite (moved_many_from FARM COLL) by discriminate. rewrite csum_collected.
      destruct (update_pool_true _ _ _ _ _ _ _ Hu) as (_ & _ & _ & -> & _). simpl. rewrite rule_sum_rem_collect. destruct (p_lpt p =? d); lia.
    + eapply Forall_impl; [|exact Hsub]. intros c (r & Hr & Hd).
      assert (In (r_denom r) (map r_denom (p_rules p1))) as Hi by (rewrite Hden; apply in_map; exact Hr).
      apply in_map_iff in Hi. destruct Hi as (r1 & Hd1 & Hr1). exists r1. split; [exact Hr1|congruence].
  - intros d. rewrite Hb2, Hb1. rewrite (moved_many_other COLL (p_creator p) FARM) by (try discriminate; congruence).
    rewrite (moved_many_to FARM COLL) by discriminate. rewrite csum_collected.
    destruct (owed_p_after _ _ _ _ _ _ d PI Hu) as [Hop _].
    rewrite (owed_p_ext p2 p1 d); [lia|reflexivity|]. simpl. unfold adj_rules.
    exact (proj1 (adj_rules_fields add rpb (p_rules p1))).
Qed.
