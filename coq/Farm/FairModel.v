(** * Farm: the checker's fair-share folds on model traces: clause 18 holds, [check_case_C06] answers (-1,-1,0) *)
From Coq Require Import QArith Lqa.
From Irismod Require Export Farm.FairFold.
Close Scope Q_scope.
Open Scope Z_scope.

(** ** the shape of a pool after any step: untouched, or settled at the current height *)
Definition rpsmap (rs : list rule) : list (denom * Z) := map (fun r => (r_denom r, r_rps r)) rs.

Definition shape (h : Z) (pa pb : pool) : Prop :=
  (p_last pb = p_last pa /\ rpsmap (p_rules pb) = rpsmap (p_rules pa))
  \/ (p_last pb = h /\ rpsmap (p_rules pb) = rpsmap (map (collect1 (upd_iv h pa) (p_locked pa)) (p_rules pa))).

Lemma shp_upd h b pa amt dz p1 b1 pb :
  pool_inv h pa -> update_pool h b pa amt dz = (p1, b1, true) ->
  p_last pb = p_last p1 -> rpsmap (p_rules pb) = rpsmap (p_rules p1) -> shape h pa pb.
Proof.
  intros PI Hu Hl Hr. destruct (update_pool_true _ _ _ _ _ _ _ Hu) as (_ & _ & _ & Hp1 & _). right.
  rewrite Hl, Hr, Hp1. simpl. split; reflexivity.
Qed.

Lemma shape_lemma s st pid pa :
  inv s -> valid_step st -> get pid (pools s) = Some pa ->
  exists pb, get pid (pools (fst (fst (exec_step s st)))) = Some pb /\ shape (height s) pa pb.
Proof.
  intros I Hv Hg. cbv zeta. pose proof (get_pool_inv _ _ _ I Hg) as PI. pose proof (pi_rule _ _ PI) as Hok.
  assert (pid <= seq s) as Hseq.
  { pose proof (i_ids _ I) as Hids. rewrite Forall_forall in Hids. apply (Hids pid). eapply get_Some_in_keys; exact Hg. }
  destruct st as [m|].
  - unfold exec_step. destruct (exec_msg s m) as [s' rw|o] eqn:E; cbn [fst snd].
    2:{ exists pa. split; [exact Hg|]. left. split; reflexivity. }
    destruct m as [who lpt start ed rules|who pid' d amt|who pid' d amt|who pid'|who pid' add rpb|who pid']; simpl in E.
    + destruct (create_Done _ _ _ _ _ _ _ _ E) as (b1 & b2 & iv & _ & _ & _ & _ & _ & _ & _ & _ & ->).
      exists pa. split; [simpl; rewrite get_set_other by lia; exact Hg|]. left; split; reflexivity.
    + destruct (stake_Done _ _ _ _ _ _ _ E) as (p0 & b1 & p1 & b2 & rw0' & db & b3 & Hs). cbv zeta in Hs.
      destruct Hs as (_ & _ & Hg0 & _ & _ & _ & _ & Hu & _ & _ & _ & ->).
      destruct (Z.eq_dec pid' pid) as [->|Hne].
      * rewrite Hg in Hg0. inversion Hg0; subst p0. eexists. split; [simpl; rewrite get_set_same; reflexivity|].
        exact (shp_upd _ _ _ _ _ _ _ _ PI Hu eq_refl eq_refl).
      * exists pa. split; [simpl; rewrite get_set_other by congruence; exact Hg|]. left; split; reflexivity.
    + destruct (unstake_Done _ _ _ _ _ _ _ E) as (p0 & fi & p1 & b1 & b2 & rw0' & db & b3 & Hs).
      destruct Hs as (_ & _ & Hg0 & _ & _ & _ & _ & Hupd & _ & _ & _ & _ & ->).
      destruct (Z.eq_dec pid' pid) as [->|Hne].
      * rewrite Hg in Hg0. inversion Hg0; subst p0. eexists. split; [simpl; rewrite get_set_same; reflexivity|].
        unfold unstake_upd in Hupd. destruct (expired s pid pa).
        -- inversion Hupd; subst. left; split; reflexivity.
        -- exact (shp_upd _ _ _ _ _ _ _ _ PI Hupd eq_refl eq_refl).
      * exists pa. split; [simpl; rewrite get_set_other by congruence; exact Hg|]. left; split; reflexivity.
    + destruct (harvest_Done _ _ _ _ _ E) as (p0 & fi & p1 & b1 & rw0' & db & b2 & Hs).
      destruct Hs as (Hg0 & _ & _ & Hu & _ & _ & _ & ->).
      destruct (Z.eq_dec pid' pid) as [->|Hne].
      * rewrite Hg in Hg0. inversion Hg0; subst p0. eexists. split; [simpl; rewrite get_set_same; reflexivity|].
        exact (shp_upd _ _ _ _ _ _ _ _ PI Hu eq_refl eq_refl).
      * exists pa. split; [simpl; rewrite get_set_other by congruence; exact Hg|]. left; split; reflexivity.
    + destruct (adjust_Done _ _ _ _ _ _ _ E) as (p0 & p1 & b1 & b2 & iv & Hs). cbv zeta in Hs.
      destruct Hs as (_ & _ & _ & Hg0 & _ & _ & _ & _ & Hu & _ & _ & _ & ->).
      destruct (Z.eq_dec pid' pid) as [->|Hne].
      * rewrite Hg in Hg0. inversion Hg0; subst p0. eexists. split; [simpl; rewrite get_set_same; reflexivity|].
        apply (shp_upd _ _ _ _ _ _ _ _ PI Hu); [reflexivity|]. simpl. exact (proj1 (adj_rules_fields add rpb (p_rules p1))).
      * exists pa. split; [simpl; rewrite get_set_other by congruence; exact Hg|].
        left; split; reflexivity.
    + destruct (destroy_Done _ _ _ _ _ E) as (p0 & Hg0 & _ & _ & Hex & Hr & _).
      destruct (Z.eq_dec pid' pid) as [->|Hne].
      * rewrite Hg in Hg0. inversion Hg0; subst p0.
        pose proof (not_expired_in_queue _ _ _ I Hg Hex) as Hq.
        destruct (update_succeeds s pid pa (bank s) 0 true I Hg Hq ltac:(intros; lia)) as (p1' & b1' & Hok').
        destruct (refund_cases _ _ _ _ _ Hr) as [(p1 & b1 & Hu & _)|(p1 & b1 & b' & Hu & -> & _)]; [congruence|].
        eexists. split; [simpl; rewrite get_set_same; reflexivity|]. apply (shp_upd _ _ _ _ _ _ _ _ PI Hu); [reflexivity|]. simpl. unfold rpsmap. rewrite map_map. reflexivity.
      * exists pa. split; [rewrite (refund_get_other _ _ _ _ _ _ Hne Hr); exact Hg|]. left; split; reflexivity.
  - (* next block *)
    unfold exec_step. cbn [fst snd]. unfold end_block.
    destruct (in_dec Z.eq_dec pid (due s)) as [Hin|Hni].
    + destruct (in_split _ _ Hin) as (l1 & l2 & Hl). pose proof (NoDup_due _ (i_qnd _ I)) as Hnd. rewrite Hl in Hnd.
      pose proof (NoDup_remove_2 _ _ _ Hnd) as Hnot. rewrite in_app_iff in Hnot.
      rewrite Hl, fold_left_app. simpl.
      destruct (end_block_fold l1 s I) as (I1 & Hh1 & Hq1).
      { apply NoDup_remove_1 in Hnd. exact (NoDup_prefix _ _ Hnd). }
      { intros x Hx. apply in_due. rewrite Hl. apply in_or_app. left. exact Hx. }
      set (s1 := fold_left end_block_one l1 s) in *.
      assert (get pid (pools s1) = Some pa) as Hg1 by (unfold s1; rewrite fold_other by tauto; exact Hg).
      assert (In (height s, pid) (queue s1)) as Hq.
      { apply Hq1. split; [apply in_due; exact Hin|]. simpl. intros [_ Hx]. tauto. }
      apply in_queue_true in Hq. destruct (i_qwf _ I1 _ _ Hq) as (p0 & Hg0 & He0). rewrite Hg1 in Hg0. inversion Hg0; subst p0.
      rewrite fold_other by tauto. unfold end_block_one. rewrite Hg1.
      destruct (refund s1 pid pa) as [s2 ok] eqn:Er. simpl. rewrite <- He0 in Hq.
      destruct (update_succeeds s1 pid pa (bank s1) 0 true I1 Hg1 Hq ltac:(intros; lia)) as (p1' & b1' & Hok').
      destruct (refund_cases _ _ _ _ _ Er) as [(p1 & b1 & Hu & _)|(p1 & b1 & b' & Hu & -> & _)]; [congruence|].
      eexists. split; [simpl; rewrite get_set_same; reflexivity|]. rewrite Hh1 in Hu.
      pose proof (get_pool_inv _ _ _ I1 Hg1) as PI1. rewrite Hh1 in PI1. apply (shp_upd _ _ _ _ _ _ _ _ PI1 Hu); [reflexivity|]. simpl. unfold rpsmap. rewrite map_map. reflexivity.
    + exists pa. split; [simpl; rewrite fold_other by exact Hni; exact Hg|]. left; split; reflexivity.
Qed.

Lemma rpsmap_nth rs : forall rs' j r, rpsmap rs' = rpsmap rs -> nth_error rs j = Some r ->
  exists r', nth_error rs' j = Some r' /\ r_denom r' = r_denom r /\ r_rps r' = r_rps r.
Proof.
  unfold rpsmap. induction rs as [|a rs IH]; intros [|a' rs'] [|j] r H Hn; simpl in *; try discriminate.
  - inversion Hn; subst. inversion H as [[Hd Hr Ht]]. exists a'. auto.
  - inversion H as [[Hd Hr Ht]]. exact (IH rs' j r Ht Hn).
Qed.

(** per rule: the growth of the per-share value against what the checker calls released *)
Lemma shape_rule h pa pb j ra :
  shape h pa pb -> pool_inv h pa -> nth_error (p_rules pa) j = Some ra ->
  exists rb, nth_error (p_rules pb) j = Some rb /\ r_denom rb = r_denom ra /\ r_rps ra <= r_rps rb
    /\ (released pa pb ra = 0 -> r_rps rb = r_rps ra)
    /\ (released pa pb ra <> 0 ->
        0 < p_locked pa
        /\ p_locked pa * (r_rps rb - r_rps ra) <= released pa pb ra * P18 < p_locked pa * (r_rps rb - r_rps ra) + p_locked pa).
Proof.
  intros [[Hl Hr]|[Hl Hr]] PI Hn.
  - destruct (rpsmap_nth _ _ _ _ Hr Hn) as (rb & Hnb & Hd & Hrps). exists rb. rewrite (released_same_last _ _ _ Hl), Hrps.
    repeat split; try assumption; try lia.
  - pose proof (map_nth_error (collect1 (upd_iv h pa) (p_locked pa)) j (p_rules pa) Hn) as Hn1.
    destruct (rpsmap_nth _ _ _ _ Hr Hn1) as (rb & Hnb & Hd & Hrps). exists rb.
    rewrite (released_upd h pa pb ra Hl). simpl in Hd, Hrps. fold (dq (upd_iv h pa) (p_locked pa) ra) in Hrps.
    pose proof (pi_rule _ _ PI) as Hok. rewrite Forall_forall in Hok. destruct (Hok ra (nth_error_In _ _ Hn)) as (_ & Hpb & _).
    destruct (upd_iv_cases h pa (pi_last _ _ PI)) as [Hz|(Hpos & HL & _)].
    + rewrite Hz in *. assert (dq 0 (p_locked pa) ra = 0) as Hq0.
      { unfold dq, dec_quo_int, dec_of_int. rewrite Z.mul_0_r. reflexivity. }
      rewrite Hq0 in Hrps. split; [exact Hnb|]. split; [exact Hd|]. split; [lia|]. split; [intros _; lia|]. intros Hc. lia.
    + destruct (dq_bounds (upd_iv h pa) (p_locked pa) ra HL ltac:(nia)) as [Hq0 Hq].
      split; [exact Hnb|]. split; [exact Hd|]. split; [lia|]. split; [intros Hc; nia|]. intros _. split; [exact HL|].
      rewrite Hrps. replace (r_rps ra + dq (upd_iv h pa) (p_locked pa) ra - r_rps ra) with (dq (upd_iv h pa) (p_locked pa) ra) by lia. lia.
Qed.

(** ** rational arithmetic *)
Definition P18p : positive := Z.to_pos P18.
Lemma P18p_eq : Z.pos P18p = P18.
Proof. reflexivity. Qed.

Open Scope Q_scope.
Lemma Qmake_plus a b p : (a + b)%Z # p == (a # p) + (b # p).
Proof. rewrite Qinv_plus_distr. reflexivity. Qed.

Lemma Qmake_le_cross a p b q : (a * Z.pos q <= b * Z.pos p)%Z -> a # p <= b # q.
Proof. intros H. unfold Qle. simpl. exact H. Qed.

Lemma acc_bounds F eps f e l L dr :
  (0 < L)%Z -> (0 <= l)%Z -> (L * dr <= e * P18 < L * dr + L)%Z ->
  F # P18p <= f -> f <= (F + eps)%Z # P18p ->
  (F + dr * l)%Z # P18p <= Qred (f + ((e * l)%Z # Z.to_pos L))
  /\ Qred (f + ((e * l)%Z # Z.to_pos L)) <= (F + dr * l + (eps + l))%Z # P18p.
Proof.
  intros HL Hl Hdr H1 H2. rewrite Qred_correct.
  assert (Z.pos (Z.to_pos L) = L) as EL by (apply Z2Pos.id; exact HL).
  split.
  - rewrite Qmake_plus. apply Qplus_le_compat; [exact H1|]. apply Qmake_le_cross. rewrite EL, P18p_eq. nia.
  - replace (F + dr * l + (eps + l))%Z with ((F + eps) + (dr * l + l))%Z by lia. rewrite Qmake_plus.
    apply Qplus_le_compat; [exact H2|]. apply Qmake_le_cross. rewrite EL, P18p_eq. nia.
Qed.
Close Scope Q_scope.

(** ** one key of the checker's map against the pro-rata abstraction of that farmer and rule *)
Definition Rsh (sh : share) (x : fstate) : Prop :=
  sh_paid sh = a_paid x /\ sh_n sh = a_n x /\ 0 <= sh_eps sh
  /\ Qle (a_fair x # P18p) (sh_fair sh) /\ Qle (sh_fair sh) ((a_fair x + sh_eps sh) # P18p).

Lemma find_denom_nth rs : forall j r, NoDup (map r_denom rs) -> nth_error rs j = Some r ->
  find (fun x => eqb (r_denom x) (r_denom r)) rs = Some r.
Proof.
  induction rs as [|a rs IH]; intros [|j] r Hnd Hn; simpl in *; try discriminate.
  - inversion Hn; subst. rewrite eqb_refl. reflexivity.
  - inversion Hnd as [|? ? Hni Hnd']; subst. destruct (eqb (r_denom a) (r_denom r)) eqn:E.
    + apply (proj1 (eqb_true_iff _ _)) in E. exfalso. apply Hni. rewrite E. apply in_map. exact (nth_error_In _ _ Hn).
    + exact (IH j r Hnd' Hn).
Qed.

Lemma pay_acts w pid st :
  match farmer_op st with
  | Some (w0, pid0) => if (w0 =? w) && (pid0 =? pid) then act_of w pid st <> None else act_of w pid st = None
  | None => act_of w pid st = None
  end.
Proof.
  destruct st as [m|]; [destruct m|]; simpl; try reflexivity;
    match goal with |- context [(?a =? w) && (?b =? pid)] => destruct ((a =? w) && (b =? pid)); [discriminate|reflexivity] end.
Qed.

Lemma share_step w pid j s st x r sh oc0 rw0 :
  inv s -> valid_step st -> rule_j pid j s = Some r -> sim w pid j s x -> Rsh sh x ->
  Rsh (step_spec (obs_of s oc0 rw0) st (obs_after s st) (w, pid, r_denom r) sh)
      (fold_left fstep' (events_of_step w pid j s st) x).
Proof.
  intros I Hv Hr Hs (Rp & Rn & Re & Rlo & Rhi).
  destruct (sim_step w pid j s st x r I Hv Hr Hs) as ((r' & Hr') & Hs' & Hp & Hf & Hn & _). cbv zeta in Hs', Hp, Hf, Hn.
  set (x' := fold_left fstep' (events_of_step w pid j s st) x) in *.
  pose proof (step_inv s st I Hv) as I'.
  unfold rule_j in Hr. destruct (get pid (pools s)) as [pa|] eqn:Hg; [|discriminate].
  pose proof (get_pool_inv _ _ _ I Hg) as PI.
  destruct (shape_lemma s st pid pa I Hv Hg) as (pb & Hgb & Hshape). fold (step_state s st) in Hgb.
  destruct (shape_rule _ _ _ _ _ Hshape PI Hr) as (rb & Hnb & Hd & Hmono & Hz & Hnz).
  pose proof (get_pool_inv _ _ _ I' Hgb) as PIb.
  assert (r' = rb) as -> by (unfold rule_j in Hr'; rewrite Hgb, Hnb in Hr'; congruence).
  assert (rps_of pid j s = r_rps r) as Er by (unfold rps_of, rule_j; rewrite Hg, Hr; reflexivity).
  assert (rps_of pid j (step_state s st) = r_rps rb) as Erb by (unfold rps_of, rule_j; rewrite Hgb, Hnb; reflexivity).
  unfold fair_in in Hf. rewrite Erb, Er in Hf.
  (* the accrual *)
  assert (let sh1 := acc_spec (obs_of s oc0 rw0) (obs_after s st) (w, pid, r_denom r) sh in
          sh_paid sh1 = sh_paid sh /\ sh_n sh1 = sh_n sh /\ 0 <= sh_eps sh1
          /\ Qle (a_fair x' # P18p) (sh_fair sh1) /\ Qle (sh_fair sh1) ((a_fair x' + sh_eps sh1) # P18p)) as Hacc.
  { cbv zeta. unfold acc_spec. change (o_pools (obs_of s oc0 rw0)) with (pools s). change (o_pools (obs_after s st)) with (pools (step_state s st)).
    rewrite Hg, Hgb, (find_denom_nth _ _ _ (pi_denoms _ _ PI) Hr).
    destruct (Z.eqb_spec (released pa pb r) 0) as [He|He].
    - rewrite (Hz He) in Hf. replace (a_fair x') with (a_fair x) by lia. repeat split; assumption.
    - destruct (Hnz He) as [HL Hb]. unfold l_of, rec_of in Hf. rewrite Hg in Hf.
      destruct (get w (p_farmers pa)) as [f|] eqn:Ef.
      + destruct (farmer_ok _ _ _ _ PI Ef) as [Hl _]. unfold acc_g. cbn [sh_paid sh_n sh_eps sh_fair].
        destruct (acc_bounds (a_fair x) (sh_eps sh) (sh_fair sh) (released pa pb r) (f_locked f) (p_locked pa) (r_rps rb - r_rps r) HL Hl Hb Rlo Rhi) as [B1 B2].
        rewrite Hf. split; [reflexivity|]. split; [reflexivity|]. split; [lia|]. split; [exact B1|].
        replace (a_fair x + (r_rps rb - r_rps r) * f_locked f + (sh_eps sh + f_locked f)) with (a_fair x + (r_rps rb - r_rps r) * f_locked f + (sh_eps sh + f_locked f)) by lia. exact B2.
      + replace (a_fair x') with (a_fair x) by lia. repeat split; assumption. }
  cbv zeta in Hacc. destruct Hacc as (A1 & A2 & A3 & A4 & A5).
  unfold step_spec. cbv zeta. set (sh1 := acc_spec (obs_of s oc0 rw0) (obs_after s st) (w, pid, r_denom r) sh) in *.
  assert (ok_step s st = (o_code (obs_after s st) =? 0)) as Eok by reflexivity.
  unfold paid_in in Hp. unfold acts_in in Hn. rewrite Hr' in Hp. rewrite Eok in Hp, Hn.
  pose proof (pay_acts w pid st) as Hpa.
  destruct (o_code (obs_after s st) =? 0) eqn:Ec; cbn [negb].
  2:{ unfold Rsh. assert (a_paid x' = a_paid x /\ a_n x' = a_n x) as [-> ->] by (destruct (act_of w pid st); lia). repeat split; try assumption; lia. }
  destruct (farmer_op st) as [[w0 pid0]|].
  - unfold pay_spec. destruct ((w =? w0) && (pid =? pid0)) eqn:Ewp.
    + apply andb_true_iff in Ewp. destruct Ewp as [E1 E2]. apply Z.eqb_eq in E1. apply Z.eqb_eq in E2. subst w0 pid0.
      rewrite !Z.eqb_refl in Hpa. cbn [andb] in Hpa. destruct (act_of w pid st) as [delta|]; [|congruence].
      change (o_pools (obs_after s st)) with (pools (step_state s st)). rewrite Hgb.
      assert (find (fun x0 => eqb (r_denom x0) (r_denom r)) (p_rules pb) = Some rb) as ->.
      { rewrite <- Hd. exact (find_denom_nth _ _ _ (pi_denoms _ _ PIb) Hnb). }
      unfold Rsh, pay_sh. cbn [sh_paid sh_n sh_eps sh_fair]. change (o_rw (obs_after s st)) with (snd (exec_step s st)).
      rewrite Hd in Hp. repeat split; try lia; assumption.
    + assert (act_of w pid st = None) as Ea.
      { rewrite (Z.eqb_sym w w0), (Z.eqb_sym pid pid0) in Ewp. rewrite Ewp in Hpa. exact Hpa. }
      rewrite Ea in Hp, Hn. unfold Rsh. assert (a_paid x' = a_paid x /\ a_n x' = a_n x) as [-> ->] by lia. repeat split; try assumption; lia.
  - rewrite Hpa in Hp, Hn. unfold Rsh. assert (a_paid x' = a_paid x /\ a_n x' = a_n x) as [-> ->] by lia. repeat split; try assumption; lia.
Qed.
