(** * Farm: the checker's fair-share folds on model traces: clause 18 holds, [check_case_C06] answers (-1,-1,0) *)
From Coq Require Import QArith Lqa.
From Irismod Require Export Farm.FairFold.
Close Scope Q_scope.
Open Scope Z_scope.

(** ** the shape of a pool after any step: untouched, or settled at the current height *)
Definition rpsmap (rs : list rule) : list (denom * Z) := map (fun r => (r_denom r, r_rps r)) rs.

Definition shape (h : Z) (pa pb : pool) : Prop :=
  (p_last pb = p_last pa /\ rpsmap (p_rules pb) = rpsmap (p_rules pa))
  \/ (p_last pb = h /\ rpsmap (p_rules pb) = rpsmap (map (collect1 (upd_iv h pa) (p_locked pa)) (p_rules pa))).

Lemma shp_upd h b pa amt dz p1 b1 pb :
  pool_inv h pa -> update_pool h b pa amt dz = (p1, b1, true) ->
  p_last pb = p_last p1 -> rpsmap (p_rules pb) = rpsmap (p_rules p1) -> shape h pa pb.
Proof.
  intros PI Hu Hl Hr. destruct (update_pool_true _ _ _ _ _ _ _ Hu) as (_ & _ & _ & Hp1 & _). right.
  rewrite Hl, Hr, Hp1. simpl. split; reflexivity.
Qed.

Lemma shape_lemma s st pid pa :
  inv s -> valid_step st -> get pid (pools s) = Some pa ->
  exists pb, get pid (pools (fst (fst (exec_step s st)))) = Some pb /\ shape (height s) pa pb.
Proof.
  intros I Hv Hg. cbv zeta. pose proof (get_pool_inv _ _ _ I Hg) as PI. pose proof (pi_rule _ _ PI) as Hok.
  assert (pid <= seq s) as Hseq.
  { pose proof (i_ids _ I) as Hids. rewrite Forall_forall in Hids. apply (Hids pid). eapply get_Some_in_keys; exact Hg. }
  destruct st as [m|].
  - unfold exec_step. destruct (exec_msg s m) as [s' rw|o] eqn:E; cbn [fst snd].
    2:{ exists pa. split; [exact Hg|]. left. split; reflexivity. }
    destruct m as [who lpt start ed rules|who pid' d amt|who pid' d amt|who pid'|who pid' add rpb|who pid']; simpl in E.
    + destruct (create_Done _ _ _ _ _ _ _ _ E) as (b1 & b2 & iv & _ & _ & _ & _ & _ & _ & _ & _ & ->).
      exists pa. split; [simpl; rewrite get_set_other by lia; exact Hg|]. left; split; reflexivity.
    + destruct (stake_Done _ _ _ _ _ _ _ E) as (p0 & b1 & p1 & b2 & rw0' & db & b3 & Hs). cbv zeta in Hs.
      destruct Hs as (_ & _ & Hg0 & _ & _ & _ & _ & Hu & _ & _ & _ & ->).
      destruct (Z.eq_dec pid' pid) as [->|Hne].
      * rewrite Hg in Hg0. inversion Hg0; subst p0. eexists. split; [simpl; rewrite get_set_same; reflexivity|].
        exact (shp_upd _ _ _ _ _ _ _ _ PI Hu eq_refl eq_refl).
      * exists pa. split; [simpl; rewrite get_set_other by congruence; exact Hg|]. left; split; reflexivity.
    + destruct (unstake_Done _ _ _ _ _ _ _ E) as (p0 & fi & p1 & b1 & b2 & rw0' & db & b3 & Hs).
      destruct Hs as (_ & _ & Hg0 & _ & _ & _ & _ & Hupd & _ & _ & _ & _ & ->).
      destruct (Z.eq_dec pid' pid) as [->|Hne].
      * rewrite Hg in Hg0. inversion Hg0; subst p0. eexists. split; [simpl; rewrite get_set_same; reflexivity|].
        unfold unstake_upd in Hupd. destruct (expired s pid pa).
        -- inversion Hupd; subst. left; split; reflexivity.
        -- exact (shp_upd _ _ _ _ _ _ _ _ PI Hupd eq_refl eq_refl).
      * exists pa. split; [simpl; rewrite get_set_other by congruence; exact Hg|]. left; split; reflexivity.
    + destruct (harvest_Done _ _ _ _ _ E) as (p0 & fi & p1 & b1 & rw0' & db & b2 & Hs).
      destruct Hs as (Hg0 & _ & _ & Hu & _ & _ & _ & ->).
      destruct (Z.eq_dec pid' pid) as [->|Hne].
      * rewrite Hg in Hg0. inversion Hg0; subst p0. eexists. split; [simpl; rewrite get_set_same; reflexivity|].
        exact (shp_upd _ _ _ _ _ _ _ _ PI Hu eq_refl eq_refl).
      * exists pa. split; [simpl; rewrite get_set_other by congruence; exact Hg|]. left; split; reflexivity.
    + destruct (adjust_Done _ _ _ _ _ _ _ E) as (p0 & p1 & b1 & b2 & iv & Hs). cbv zeta in Hs.
      destruct Hs as (_ & _ & _ & Hg0 & _ & _ & _ & _ & Hu & _ & _ & _ & ->).
      destruct (Z.eq_dec pid' pid) as [->|Hne].
      * rewrite Hg in Hg0. inversion Hg0; subst p0. eexists. split; [simpl; rewrite get_set_same; reflexivity|].
        apply (shp_upd _ _ _ _ _ _ _ _ PI Hu); [reflexivity|]. simpl. exact (proj1 (adj_rules_fields add rpb (p_rules p1))).
      * exists pa. split; [simpl; rewrite get_set_other by congruence; exact Hg|].
        left; split; reflexivity.
    + destruct (destroy_Done _ _ _ _ _ E) as (p0 & Hg0 & _ & _ & Hex & Hr & _).
      destruct (Z.eq_dec pid' pid) as [->|Hne].
      * rewrite Hg in Hg0. inversion Hg0; subst p0.
        pose proof (not_expired_in_queue _ _ _ I Hg Hex) as Hq.
        destruct (update_succeeds s pid pa (bank s) 0 true I Hg Hq ltac:(intros; lia)) as (p1' & b1' & Hok').
        destruct (refund_cases _ _ _ _ _ Hr) as [(p1 & b1 & Hu & _)|(p1 & b1 & b' & Hu & -> & _)]; [congruence|].
        eexists. split; [simpl; rewrite get_set_same; reflexivity|]. apply (shp_upd _ _ _ _ _ _ _ _ PI Hu); [reflexivity|]. simpl. unfold rpsmap. rewrite map_map. reflexivity.
      * exists pa. split; [rewrite (refund_get_other _ _ _ _ _ _ Hne Hr); exact Hg|]. left; split; reflexivity.
  - (* next block *)
    unfold exec_step. cbn [fst snd]. unfold end_block.
    destruct (in_dec Z.eq_dec pid (due s)) as [Hin|Hni].
    + destruct (in_split _ _ Hin) as (l1 & l2 & Hl). pose proof (NoDup_due _ (i_qnd _ I)) as Hnd. rewrite Hl in Hnd.
      pose proof (NoDup_remove_2 _ _ _ Hnd) as Hnot. rewrite in_app_iff in Hnot.
      rewrite Hl, fold_left_app. simpl.
      destruct (end_block_fold l1 s I) as (I1 & Hh1 & Hq1).
      { apply NoDup_remove_1 in Hnd. exact (NoDup_prefix _ _ Hnd). }
      { intros x Hx. apply in_due. rewrite Hl. apply in_or_app. left. exact Hx. }
      set (s1 := fold_left end_block_one l1 s) in *.
      assert (get pid (pools s1) = Some pa) as Hg1 by (unfold s1; rewrite fold_other by tauto; exact Hg).
      assert (In (height s, pid) (queue s1)) as Hq.
      { apply Hq1. split; [apply in_due; exact Hin|]. simpl. intros [_ Hx]. tauto. }
      apply in_queue_true in Hq. destruct (i_qwf _ I1 _ _ Hq) as (p0 & Hg0 & He0). rewrite Hg1 in Hg0. inversion Hg0; subst p0.
      rewrite fold_other by tauto. unfold end_block_one. rewrite Hg1.
      destruct (refund s1 pid pa) as [s2 ok] eqn:Er. simpl. rewrite <- He0 in Hq.
      destruct (update_succeeds s1 pid pa (bank s1) 0 true I1 Hg1 Hq ltac:(intros; lia)) as (p1' & b1' & Hok').
      destruct (refund_cases _ _ _ _ _ Er) as [(p1 & b1 & Hu & _)|(p1 & b1 & b' & Hu & -> & _)]; [congruence|].
      eexists. split; [simpl; rewrite get_set_same; reflexivity|]. rewrite Hh1 in Hu.
      pose proof (get_pool_inv _ _ _ I1 Hg1) as PI1. rewrite Hh1 in PI1. apply (shp_upd _ _ _ _ _ _ _ _ PI1 Hu); [reflexivity|]. simpl. unfold rpsmap. rewrite map_map. reflexivity.
    + exists pa. split; [simpl; rewrite fold_other by exact Hni; exact Hg|]. left; split; reflexivity.
Qed.
