(** * Farm: the checker's fair-share folds on model traces: clause 18 holds, [check_case_C06] answers (-1,-1,0) *)
From Coq Require Import QArith Lqa.
From Irismod Require Export Farm.FairFold.
Close Scope Q_scope.
Open Scope Z_scope.

(** ** the shape of a pool after any step: untouched, or settled at the current height *)
Definition rpsmap (rs : list rule) : list (denom * Z) := map (fun r => (r_denom r, r_rps r)) rs.

Definition shape (h : Z) (pa pb : pool) : Prop :=
  (p_last pb = p_last pa /\ rpsmap (p_rules pb) = rpsmap (p_rules pa))
  \/ (p_last pb = h /\ rpsmap (p_rules pb) = rpsmap (map (collect1 (upd_iv h pa) (p_locked pa)) (p_rules pa))).

Lemma shp_upd h b pa amt dz p1 b1 pb :
  pool_inv h pa -> update_pool h b pa amt dz = (p1, b1, true) ->
  p_last pb = p_last p1 -> rpsmap (p_rules pb) = rpsmap (p_rules p1) -> shape h pa pb.
Proof.
  intros PI Hu Hl Hr. destruct (update_pool_true _ _ _ _ _ _ _ Hu) as (_ & _ & _ & Hp1 & _). right.
  rewrite Hl, Hr, Hp1. simpl. split; reflexivity.
Qed.

Lemma shape_lemma s st pid pa :
  inv s -> valid_step st -> get pid (pools s) = Some pa ->
  exists pb, get pid (pools (fst (fst (exec_step s st)))) = Some pb /\ shape (height s) pa pb.
Proof.
  intros I Hv Hg. cbv zeta. pose proof (get_pool_inv _ _ _ I Hg) as PI. pose proof (pi_rule _ _ PI) as Hok.
  assert (pid <= seq s) as Hseq.
  { pose proof (i_ids _ I) as Hids. rewrite Forall_forall in Hids. apply (Hids pid). eapply get_Some_in_keys; exact Hg. }
  destruct st as [m|].
  - unfold exec_step. destruct (exec_msg s m) as [s' rw|o] eqn:E; cbn [fst snd].
    2:{ exists pa. split; [exact Hg|]. left. split; reflexivity. }
    destruct m as [who lpt start ed rules|who pid' d amt|who pid' d amt|who pid'|who pid' add rpb|who pid'|who cf tr]; simpl in E.
    + destruct (create_Done _ _ _ _ _ _ _ _ E) as (b1 & b2 & iv & _ & _ & _ & _ & _ & _ & _ & _ & ->).
      exists pa. split; [simpl; rewrite get_set_other by lia; exact Hg|]. left; split; reflexivity.
    + destruct (stake_Done _ _ _ _ _ _ _ E) as (p0 & b1 & p1 & b2 & rw0' & db & b3 & Hs). cbv zeta in Hs.
      destruct Hs as (_ & _ & Hg0 & _ & _ & _ & _ & Hu & _ & _ & _ & ->).
      destruct (Z.eq_dec pid' pid) as [->|Hne].
      * rewrite Hg in Hg0. inversion Hg0; subst p0. eexists. split; [simpl; rewrite get_set_same; reflexivity|].
        exact (shp_upd _ _ _ _ _ _ _ _ PI Hu eq_refl eq_refl).
      * exists pa. split; [simpl; rewrite get_set_other by congruence; exact Hg|]. left; split; reflexivity.
    + destruct (unstake_Done _ _ _ _ _ _ _ E) as (p0 & fi & p1 & b1 & b2 & rw0' & db & b3 & Hs).
      destruct Hs as (_ & _ & Hg0 & _ & _ & _ & _ & Hupd & _ & _ & _ & _ & ->).
      destruct (Z.eq_dec pid' pid) as [->|Hne].
      * rewrite Hg in Hg0. inversion Hg0; subst p0. eexists. split; [simpl; rewrite get_set_same; reflexivity|].
        unfold unstake_upd in Hupd. destruct (expired s pid pa).
        -- inversion Hupd; subst. left; split; reflexivity.
        -- exact (shp_upd _ _ _ _ _ _ _ _ PI Hupd eq_refl eq_refl).
      * exists pa. split; [simpl; rewrite get_set_other by congruence; exact Hg|]. left; split; reflexivity.
    + destruct (harvest_Done _ _ _ _ _ E) as (p0 & fi & p1 & b1 & rw0' & db & b2 & Hs).
      destruct Hs as (Hg0 & _ & _ & Hu & _ & _ & _ & ->).
      destruct (Z.eq_dec pid' pid) as [->|Hne].
      * rewrite Hg in Hg0. inversion Hg0; subst p0. eexists. split; [simpl; rewrite get_set_same; reflexivity|].
        exact (shp_upd _ _ _ _ _ _ _ _ PI Hu eq_refl eq_refl).
      * exists pa. split; [simpl; rewrite get_set_other by congruence; exact Hg|]. left; split; reflexivity.
    + destruct (adjust_Done _ _ _ _ _ _ _ E) as (p0 & p1 & b1 & b2 & iv & Hs). cbv zeta in Hs.
      destruct Hs as (_ & _ & _ & Hg0 & _ & _ & _ & _ & Hu & _ & _ & _ & ->).
      destruct (Z.eq_dec pid' pid) as [->|Hne].
      * rewrite Hg in Hg0. inversion Hg0; subst p0. eexists. split; [simpl; rewrite get_set_same; reflexivity|].
        apply (shp_upd _ _ _ _ _ _ _ _ PI Hu); [reflexivity|]. simpl. exact (proj1 (adj_rules_fields add rpb (p_rules p1))).
      * exists pa. split; [simpl; rewrite get_set_other by congruence; exact Hg|].
        left; split; reflexivity.
    + destruct (destroy_Done _ _ _ _ _ E) as (p0 & Hg0 & _ & _ & Hex & Hr & _).
      destruct (Z.eq_dec pid' pid) as [->|Hne].
      * rewrite Hg in Hg0. inversion Hg0; subst p0.
        pose proof (not_expired_in_queue _ _ _ I Hg Hex) as Hq.
        destruct (update_succeeds s pid pa (bank s) 0 true I Hg Hq ltac:(intros; lia)) as (p1' & b1' & Hok').
        destruct (refund_cases _ _ _ _ _ Hr) as [(p1 & b1 & Hu & _)|(p1 & b1 & b' & Hu & -> & _)]; [congruence|].
        eexists. split; [simpl; rewrite get_set_same; reflexivity|]. apply (shp_upd _ _ _ _ _ _ _ _ PI Hu); [reflexivity|]. simpl. unfold rpsmap. rewrite map_map. reflexivity.
      * exists pa. split; [rewrite (refund_get_other _ _ _ _ _ _ Hne Hr); exact Hg|]. left; split; reflexivity.
    + destruct (update_params_Done _ _ _ _ _ _ E) as (_ & _ & _ & _ & ->).
      exists pa. split; [exact Hg|]. left; split; reflexivity.
  - (* next block *)
    unfold exec_step. cbn [fst snd]. unfold end_block.
    destruct (in_dec Z.eq_dec pid (due s)) as [Hin|Hni].
    + destruct (in_split _ _ Hin) as (l1 & l2 & Hl). pose proof (NoDup_due _ (i_qnd _ I)) as Hnd. rewrite Hl in Hnd.
      pose proof (NoDup_remove_2 _ _ _ Hnd) as Hnot. rewrite in_app_iff in Hnot.
      rewrite Hl, fold_left_app. simpl.
      destruct (end_block_fold l1 s I) as (I1 & Hh1 & Hq1).
      { apply NoDup_remove_1 in Hnd. exact (NoDup_prefix _ _ Hnd). }
      { intros x Hx. apply in_due. rewrite Hl. apply in_or_app. left. exact Hx. }
      set (s1 := fold_left end_block_one l1 s) in *.
      assert (get pid (pools s1) = Some pa) as Hg1 by (unfold s1; rewrite fold_other by tauto; exact Hg).
      assert (In (height s, pid) (queue s1)) as Hq.
      { apply Hq1. split; [apply in_due; exact Hin|]. simpl. intros [_ Hx]. tauto. }
      apply in_queue_true in Hq. destruct (i_qwf _ I1 _ _ Hq) as (p0 & Hg0 & He0). rewrite Hg1 in Hg0. inversion Hg0; subst p0.
      rewrite fold_other by tauto. unfold end_block_one. rewrite Hg1.
      destruct (refund s1 pid pa) as [s2 ok] eqn:Er. simpl. rewrite <- He0 in Hq.
      destruct (update_succeeds s1 pid pa (bank s1) 0 true I1 Hg1 Hq ltac:(intros; lia)) as (p1' & b1' & Hok').
      destruct (refund_cases _ _ _ _ _ Er) as [(p1 & b1 & Hu & _)|(p1 & b1 & b' & Hu & -> & _)]; [congruence|].
      eexists. split; [simpl; rewrite get_set_same; reflexivity|]. rewrite Hh1 in Hu.
      pose proof (get_pool_inv _ _ _ I1 Hg1) as PI1. rewrite Hh1 in PI1. apply (shp_upd _ _ _ _ _ _ _ _ PI1 Hu); [reflexivity|]. simpl. unfold rpsmap. rewrite map_map. reflexivity.
    + exists pa. split; [simpl; rewrite fold_other by exact Hni; exact Hg|]. left; split; reflexivity.
Qed.

Lemma rpsmap_nth rs : forall rs' j r, rpsmap rs' = rpsmap rs -> nth_error rs j = Some r ->
  exists r', nth_error rs' j = Some r' /\ r_denom r' = r_denom r /\ r_rps r' = r_rps r.
Proof.
  unfold rpsmap. induction rs as [|a rs IH]; intros [|a' rs'] [|j] r H Hn; simpl in *; try discriminate.
  - inversion Hn; subst. inversion H as [[Hd Hr Ht]]. exists a'. auto.
  - inversion H as [[Hd Hr Ht]]. exact (IH rs' j r Ht Hn).
Qed.

(** per rule: the growth of the per-share value against what the checker calls released *)
Lemma shape_rule h pa pb j ra :
  shape h pa pb -> pool_inv h pa -> nth_error (p_rules pa) j = Some ra ->
  exists rb, nth_error (p_rules pb) j = Some rb /\ r_denom rb = r_denom ra /\ r_rps ra <= r_rps rb
    /\ (released pa pb ra = 0 -> r_rps rb = r_rps ra)
    /\ (released pa pb ra <> 0 ->
        0 < p_locked pa
        /\ p_locked pa * (r_rps rb - r_rps ra) <= released pa pb ra * P18 < p_locked pa * (r_rps rb - r_rps ra) + p_locked pa).
Proof.
  intros [[Hl Hr]|[Hl Hr]] PI Hn.
  - destruct (rpsmap_nth _ _ _ _ Hr Hn) as (rb & Hnb & Hd & Hrps). exists rb. rewrite (released_same_last _ _ _ Hl), Hrps.
    repeat split; try assumption; try lia.
  - pose proof (map_nth_error (collect1 (upd_iv h pa) (p_locked pa)) j (p_rules pa) Hn) as Hn1.
    destruct (rpsmap_nth _ _ _ _ Hr Hn1) as (rb & Hnb & Hd & Hrps). exists rb.
    rewrite (released_upd h pa pb ra Hl). simpl in Hd, Hrps. fold (dq (upd_iv h pa) (p_locked pa) ra) in Hrps.
    pose proof (pi_rule _ _ PI) as Hok. rewrite Forall_forall in Hok. destruct (Hok ra (nth_error_In _ _ Hn)) as (_ & Hpb & _).
    destruct (upd_iv_cases h pa (pi_last _ _ PI)) as [Hz|(Hpos & HL & _)].
    + rewrite Hz in *. assert (dq 0 (p_locked pa) ra = 0) as Hq0.
      { unfold dq, dec_quo_int, dec_of_int. rewrite Z.mul_0_r. reflexivity. }
      rewrite Hq0 in Hrps. split; [exact Hnb|]. split; [exact Hd|]. split; [lia|]. split; [intros _; lia|]. intros Hc. lia.
    + destruct (dq_bounds (upd_iv h pa) (p_locked pa) ra HL ltac:(nia)) as [Hq0 Hq].
      split; [exact Hnb|]. split; [exact Hd|]. split; [lia|]. split; [intros Hc; nia|]. intros _. split; [exact HL|].
      rewrite Hrps. replace (r_rps ra + dq (upd_iv h pa) (p_locked pa) ra - r_rps ra) with (dq (upd_iv h pa) (p_locked pa) ra) by lia. lia.
Qed.

(** ** rational arithmetic *)
Definition P18p : positive := Z.to_pos P18.
Lemma P18p_eq : Z.pos P18p = P18.
Proof. reflexivity. Qed.

Open Scope Q_scope.
Lemma Qmake_plus a b p : (a + b)%Z # p == (a # p) + (b # p).
Proof. rewrite Qinv_plus_distr. reflexivity. Qed.

Lemma Qmake_le_cross a p b q : (a * Z.pos q <= b * Z.pos p)%Z -> a # p <= b # q.
Proof. intros H. unfold Qle. simpl. exact H. Qed.

Lemma acc_bounds F eps f e l L dr :
  (0 < L)%Z -> (0 <= l)%Z -> (L * dr <= e * P18 < L * dr + L)%Z ->
  F # P18p <= f -> f <= (F + eps)%Z # P18p ->
  (F + dr * l)%Z # P18p <= Qred (f + ((e * l)%Z # Z.to_pos L))
  /\ Qred (f + ((e * l)%Z # Z.to_pos L)) <= (F + dr * l + (eps + l))%Z # P18p.
Proof.
  intros HL Hl Hdr H1 H2. rewrite Qred_correct.
  assert (Z.pos (Z.to_pos L) = L) as EL by (apply Z2Pos.id; exact HL).
  split.
  - rewrite Qmake_plus. apply Qplus_le_compat; [exact H1|]. apply Qmake_le_cross. rewrite EL, P18p_eq. nia.
  - replace (F + dr * l + (eps + l))%Z with ((F + eps) + (dr * l + l))%Z by lia. rewrite Qmake_plus.
    apply Qplus_le_compat; [exact H2|]. apply Qmake_le_cross. rewrite EL, P18p_eq. nia.
Qed.
Close Scope Q_scope.

(** ** one key of the checker's map against the pro-rata abstraction of that farmer and rule *)
Definition Rsh (sh : share) (x : fstate) : Prop :=
  sh_paid sh = a_paid x /\ sh_n sh = a_n x /\ 0 <= sh_eps sh
  /\ Qle (a_fair x # P18p) (sh_fair sh) /\ Qle (sh_fair sh) ((a_fair x + sh_eps sh) # P18p).

Lemma find_denom_nth rs : forall j r, NoDup (map r_denom rs) -> nth_error rs j = Some r ->
  find (fun x => eqb (r_denom x) (r_denom r)) rs = Some r.
Proof.
  induction rs as [|a rs IH]; intros [|j] r Hnd Hn; simpl in *; try discriminate.
  - inversion Hn; subst. rewrite eqb_refl. reflexivity.
  - inversion Hnd as [|? ? Hni Hnd']; subst. destruct (eqb (r_denom a) (r_denom r)) eqn:E.
    + apply (proj1 (eqb_true_iff _ _)) in E. exfalso. apply Hni. rewrite E. apply in_map. exact (nth_error_In _ _ Hn).
    + exact (IH j r Hnd' Hn).
Qed.

Lemma pay_acts w pid st :
  match farmer_op st with
  | Some (w0, pid0) => if (w0 =? w) && (pid0 =? pid) then act_of w pid st <> None else act_of w pid st = None
  | None => act_of w pid st = None
  end.
Proof.
  destruct st as [m|]; [destruct m|]; simpl; try reflexivity;
    match goal with |- context [(?a =? w) && (?b =? pid)] => destruct ((a =? w) && (b =? pid)); [discriminate|reflexivity] end.
Qed.

Lemma share_step_core w pid j s st x r sh oc0 rw0 :
  inv s -> valid_step st -> rule_j pid j s = Some r -> sim w pid j s x -> Rsh sh x ->
  Rsh (step_spec (obs_of s oc0 rw0) st (obs_after s st) (w, pid, r_denom r) sh)
      (fold_left fstep' (events_of_step w pid j s st) x).
Proof.
  intros I Hv Hr Hs (Rp & Rn & Re & Rlo & Rhi).
  destruct (sim_step w pid j s st x r I Hv Hr Hs) as ((r' & Hr') & Hs' & Hp & Hf & Hn & _). cbv zeta in Hs', Hp, Hf, Hn.
  set (x' := fold_left fstep' (events_of_step w pid j s st) x) in *.
  pose proof (step_inv s st I Hv) as I'.
  unfold rule_j in Hr. destruct (get pid (pools s)) as [pa|] eqn:Hg; [|discriminate].
  pose proof (get_pool_inv _ _ _ I Hg) as PI.
  destruct (shape_lemma s st pid pa I Hv Hg) as (pb & Hgb & Hshape). fold (step_state s st) in Hgb.
  destruct (shape_rule _ _ _ _ _ Hshape PI Hr) as (rb & Hnb & Hd & Hmono & Hz & Hnz).
  pose proof (get_pool_inv _ _ _ I' Hgb) as PIb.
  assert (r' = rb) as -> by (unfold rule_j in Hr'; rewrite Hgb, Hnb in Hr'; congruence).
  assert (rps_of pid j s = r_rps r) as Er by (unfold rps_of, rule_j; rewrite Hg, Hr; reflexivity).
  assert (rps_of pid j (step_state s st) = r_rps rb) as Erb by (unfold rps_of, rule_j; rewrite Hgb, Hnb; reflexivity).
  unfold fair_in in Hf. rewrite Erb, Er in Hf.
  (* the accrual *)
  assert (let sh1 := acc_spec (obs_of s oc0 rw0) (obs_after s st) (w, pid, r_denom r) sh in
          sh_paid sh1 = sh_paid sh /\ sh_n sh1 = sh_n sh /\ 0 <= sh_eps sh1
          /\ Qle (a_fair x' # P18p) (sh_fair sh1) /\ Qle (sh_fair sh1) ((a_fair x' + sh_eps sh1) # P18p)) as Hacc.
  { cbv zeta. unfold acc_spec. change (o_pools (obs_of s oc0 rw0)) with (pools s). change (o_pools (obs_after s st)) with (pools (step_state s st)).
    rewrite Hg, Hgb, (find_denom_nth _ _ _ (pi_denoms _ _ PI) Hr).
    destruct (Z.eqb_spec (released pa pb r) 0) as [He|He].
    - rewrite (Hz He) in Hf. replace (a_fair x') with (a_fair x) by lia. repeat split; assumption.
    - destruct (Hnz He) as [HL Hb]. unfold l_of, rec_of in Hf. rewrite Hg in Hf.
      destruct (get w (p_farmers pa)) as [f|] eqn:Ef.
      + destruct (farmer_ok _ _ _ _ PI Ef) as [Hl _]. unfold acc_g. cbn [sh_paid sh_n sh_eps sh_fair].
        destruct (acc_bounds (a_fair x) (sh_eps sh) (sh_fair sh) (released pa pb r) (f_locked f) (p_locked pa) (r_rps rb - r_rps r) HL Hl Hb Rlo Rhi) as [B1 B2].
        rewrite Hf. split; [reflexivity|]. split; [reflexivity|]. split; [lia|]. split; [exact B1|].
        replace (a_fair x + (r_rps rb - r_rps r) * f_locked f + (sh_eps sh + f_locked f)) with (a_fair x + (r_rps rb - r_rps r) * f_locked f + (sh_eps sh + f_locked f)) by lia. exact B2.
      + replace (a_fair x') with (a_fair x) by lia. repeat split; assumption. }
  cbv zeta in Hacc. destruct Hacc as (A1 & A2 & A3 & A4 & A5).
  unfold step_spec. cbv zeta. set (sh1 := acc_spec (obs_of s oc0 rw0) (obs_after s st) (w, pid, r_denom r) sh) in *.
  assert (ok_step s st = (o_code (obs_after s st) =? 0)) as Eok by reflexivity.
  unfold paid_in in Hp. unfold acts_in in Hn. rewrite Hr' in Hp. rewrite Eok in Hp, Hn.
  pose proof (pay_acts w pid st) as Hpa.
  destruct (o_code (obs_after s st) =? 0) eqn:Ec; cbn [negb].
  2:{ unfold Rsh. assert (a_paid x' = a_paid x /\ a_n x' = a_n x) as [-> ->] by (destruct (act_of w pid st); lia). repeat split; try assumption; lia. }
  destruct (farmer_op st) as [[w0 pid0]|].
  - unfold pay_spec. destruct ((w =? w0) && (pid =? pid0)) eqn:Ewp.
    + apply andb_true_iff in Ewp. destruct Ewp as [E1 E2]. apply Z.eqb_eq in E1. apply Z.eqb_eq in E2. subst w0 pid0.
      rewrite !Z.eqb_refl in Hpa. cbn [andb] in Hpa. destruct (act_of w pid st) as [delta|]; [|congruence].
      change (o_pools (obs_after s st)) with (pools (step_state s st)). rewrite Hgb.
      assert (find (fun x0 => eqb (r_denom x0) (r_denom r)) (p_rules pb) = Some rb) as ->.
      { rewrite <- Hd. exact (find_denom_nth _ _ _ (pi_denoms _ _ PIb) Hnb). }
      unfold Rsh, pay_sh. cbn [sh_paid sh_n sh_eps sh_fair]. change (o_rw (obs_after s st)) with (snd (exec_step s st)).
      rewrite Hd in Hp. repeat split; try lia; assumption.
    + assert (act_of w pid st = None) as Ea.
      { rewrite (Z.eqb_sym w w0), (Z.eqb_sym pid pid0) in Ewp. rewrite Ewp in Hpa. exact Hpa. }
      rewrite Ea in Hp, Hn. unfold Rsh. assert (a_paid x' = a_paid x /\ a_n x' = a_n x) as [-> ->] by lia. repeat split; try assumption; lia.
  - rewrite Hpa in Hp, Hn. unfold Rsh. assert (a_paid x' = a_paid x /\ a_n x' = a_n x) as [-> ->] by lia. repeat split; try assumption; lia.
Qed.

(** a farmer who never interacted: nothing paid, nothing accrued *)
Definition Rz (sh : share) (x : fstate) : Prop :=
  a_n x = 0 -> a_paid x = 0 /\ a_fair x = 0 /\ sh_eps sh = 0 /\ a_l x = 0.

Lemma eps_untouched a st b w pid d sh pa :
  get pid (o_pools a) = Some pa -> get w (p_farmers pa) = None ->
  sh_eps (step_spec a st b (w, pid, d) sh) = sh_eps sh.
Proof.
  intros Hg Hf. unfold step_spec. cbv zeta.
  assert (acc_spec a b (w, pid, d) sh = sh) as ->.
  { unfold acc_spec. rewrite Hg.
    repeat match goal with |- context [match ?c with _ => _ end] => destruct c eqn:? end; try reflexivity. all: unfold acct in *; congruence. }
  destruct (negb (o_code b =? 0)); [reflexivity|]. destruct (farmer_op st) as [[w0 pid0]|]; [|reflexivity].
  unfold pay_spec. destruct ((w =? w0) && (pid =? pid0)); [|reflexivity].
  destruct (get pid0 (o_pools b)); [|reflexivity]. destruct (find _ (p_rules p)); reflexivity.
Qed.

Lemma share_step_zero w pid j s st x r sh oc0 rw0 :
  inv s -> valid_step st -> rule_j pid j s = Some r -> sim w pid j s x -> finv x -> Rz sh x ->
  Rz (step_spec (obs_of s oc0 rw0) st (obs_after s st) (w, pid, r_denom r) sh)
     (fold_left fstep' (events_of_step w pid j s st) x).
Proof.
  intros I Hv Hr Hs Fx Rzx Hn0.
  destruct (sim_step w pid j s st x r I Hv Hr Hs) as (_ & Hs' & Hp & Hf & Hn & _). cbv zeta in Hs', Hp, Hf, Hn.
  set (x' := fold_left fstep' (events_of_step w pid j s st) x) in *.
  pose proof (fi_n _ Fx) as Hnx. pose proof (acts_in_nonneg w pid s st) as Hai.
  assert (a_n x = 0 /\ acts_in w pid s st = 0) as [Hnx0 Hai0] by lia.
  destruct (Rzx Hnx0) as (Z1 & Z2 & Z3 & Z4).
  destruct Hs as (Sr & Sl & SD). rewrite Z4 in Sl.
  unfold rule_j in Hr. destruct (get pid (pools s)) as [pa|] eqn:Hg; [|discriminate].
  pose proof (get_pool_inv _ _ _ I Hg) as PI.
  assert (get w (p_farmers pa) = None) as Hnone.
  { destruct (get w (p_farmers pa)) as [f|] eqn:Ef; [|reflexivity]. exfalso.
    pose proof (Forall_vals_get _ _ _ _ (pi_pos _ _ PI) Ef) as Hpos. cbv beta in Hpos.
    unfold l_of, rec_of in Sl. rewrite Hg, Ef in Sl. lia. }
  assert (paid_in w pid j s st = 0) as Hpi0.
  { unfold paid_in. unfold acts_in in Hai0. destruct (act_of w pid st); [|reflexivity]. destruct (ok_step s st); [lia|reflexivity]. }
  split; [lia|]. split; [unfold fair_in in Hf; rewrite <- Sl in Hf; lia|]. split.
  - rewrite (eps_untouched _ _ _ _ _ _ _ pa); [exact Z3|exact Hg|exact Hnone].
  - destruct Hs' as (_ & Sl' & _). rewrite Sl'.
    destruct (farmer_view w pid s st pa I Hv Hg) as (pb & Hgb & _ & Hview).
    assert (get w (p_farmers pb) = get w (p_farmers pa)) as Hsame.
    { unfold acts_in in Hai0. destruct (act_of w pid st); [destruct (ok_step s st); [lia|exact Hview]|exact Hview]. }
    unfold l_of, rec_of. rewrite Hgb, Hsame, Hnone. reflexivity.
Qed.

(** ** every key of the checker's map, along a model history *)
Definition key_ok (s : state) (m : shares) (k : key) : Prop :=
  let '(w, pid, d) := k in
  match get pid (pools s) with
  | None => sh_get m k = share0
  | Some p => (~ In d (map r_denom (p_rules p)) /\ sh_get m k = share0)
              \/ (exists j r x, nth_error (p_rules p) j = Some r /\ r_denom r = d /\ finv x /\ sim w pid j s x
                                /\ Rsh (sh_get m k) x /\ Rz (sh_get m k) x)
  end.

Lemma find_notin rs d : ~ In d (map r_denom rs) -> find (fun r => eqb (r_denom r) d) rs = None.
Proof.
  induction rs as [|a rs IH]; simpl; intros Hni; [reflexivity|].
  destruct (eqb (r_denom a) d) eqn:E; [apply (proj1 (eqb_true_iff _ _)) in E; exfalso; apply Hni; left; exact E|].
  apply IH. intros Hi. apply Hni. right. exact Hi.
Qed.

Lemma rpsmap_denoms rs rs' : rpsmap rs' = rpsmap rs -> map r_denom rs' = map r_denom rs.
Proof.
  unfold rpsmap. intros H. apply (f_equal (map fst)) in H. rewrite !map_map in H. exact H.
Qed.

Lemma shape_denoms h pa pb : shape h pa pb -> map r_denom (p_rules pb) = map r_denom (p_rules pa).
Proof.
  intros [[_ Hr]|[_ Hr]]; apply rpsmap_denoms in Hr; [exact Hr|]. rewrite Hr, map_map. reflexivity.
Qed.

Lemma untouched_absent s st w pid d sh oc0 rw0 :
  inv s -> get pid (pools s) = None ->
  step_spec (obs_of s oc0 rw0) st (obs_after s st) (w, pid, d) sh = sh.
Proof.
  intros I Hg. unfold step_spec. cbv zeta.
  assert (acc_spec (obs_of s oc0 rw0) (obs_after s st) (w, pid, d) sh = sh) as ->.
  { unfold acc_spec. change (o_pools (obs_of s oc0 rw0)) with (pools s). rewrite Hg. reflexivity. }
  destruct (negb (o_code (obs_after s st) =? 0)); [reflexivity|].
  destruct (farmer_op st) as [[w0 pid0]|] eqn:Ef; [|reflexivity].
  unfold pay_spec. destruct ((w =? w0) && (pid =? pid0)) eqn:E; [|reflexivity].
  apply andb_true_iff in E. destruct E as [_ E2]. apply Z.eqb_eq in E2. subst pid0.
  change (o_pools (obs_after s st)) with (pools (step_state s st)).
  destruct (get pid (pools (step_state s st))) as [pb|] eqn:Hgb; [|reflexivity].
  destruct (new_pool_lemma _ _ _ _ Hg Hgb) as (who & lpt & start & ed & rules & -> & _). discriminate.
Qed.

Lemma untouched_no_rule s st w pid d sh oc0 rw0 pa :
  inv s -> valid_step st -> get pid (pools s) = Some pa -> ~ In d (map r_denom (p_rules pa)) ->
  step_spec (obs_of s oc0 rw0) st (obs_after s st) (w, pid, d) sh = sh.
Proof.
  intros I Hv Hg Hni. destruct (shape_lemma s st pid pa I Hv Hg) as (pb & Hgb & Hshape). fold (step_state s st) in Hgb.
  unfold step_spec. cbv zeta.
  assert (acc_spec (obs_of s oc0 rw0) (obs_after s st) (w, pid, d) sh = sh) as ->.
  { unfold acc_spec. change (o_pools (obs_of s oc0 rw0)) with (pools s). rewrite Hg.
    destruct (get pid (o_pools (obs_after s st))); [|reflexivity]. rewrite (find_notin _ _ Hni). reflexivity. }
  destruct (negb (o_code (obs_after s st) =? 0)); [reflexivity|].
  destruct (farmer_op st) as [[w0 pid0]|]; [|reflexivity].
  unfold pay_spec. destruct ((w =? w0) && (pid =? pid0)) eqn:E; [|reflexivity].
  apply andb_true_iff in E. destruct E as [_ E2]. apply Z.eqb_eq in E2. subst pid0.
  change (o_pools (obs_after s st)) with (pools (step_state s st)). rewrite Hgb.
  rewrite find_notin; [reflexivity|]. rewrite (shape_denoms _ _ _ Hshape). exact Hni.
Qed.

Lemma share0_start : Rsh share0 (fstart 0) /\ Rz share0 (fstart 0).
Proof.
  split; [|intros _; simpl; auto]. unfold Rsh, share0, fstart. simpl. repeat split; try lia; unfold Qle; simpl; lia.
Qed.

Lemma key_ok_step s st m oc0 rw0 :
  inv s -> valid_step st -> (forall k, key_ok s m k) ->
  forall k, key_ok (step_state s st) (fair_step (obs_of s oc0 rw0) st (obs_after s st) m) k.
Proof.
  intros I Hv Hall [[w pid] d]. pose proof (step_inv s st I Hv) as I'.
  assert (sh_get (fair_step (obs_of s oc0 rw0) st (obs_after s st) m) (w, pid, d)
          = step_spec (obs_of s oc0 rw0) st (obs_after s st) (w, pid, d) (sh_get m (w, pid, d))) as Hget.
  { apply fair_step_get.
    - exact (i_nodup _ I).
    - intros pid0 pa Hin. pose proof (get_pool_inv _ _ _ I (In_get _ _ _ (i_nodup _ I) Hin)) as PI.
      split; [exact (pi_denoms _ _ PI)|exact (pi_nodup _ _ PI)].
    - intros pid0 pb Hg. exact (pi_denoms _ _ (get_pool_inv _ _ _ I' Hg)). }
  specialize (Hall (w, pid, d)). unfold key_ok in *. rewrite Hget.
  destruct (get pid (pools s)) as [pa|] eqn:Hg.
  - pose proof (get_pool_inv _ _ _ I Hg) as PI.
    destruct (shape_lemma s st pid pa I Hv Hg) as (pb & Hgb & Hshape). fold (step_state s st) in Hgb. rewrite Hgb.
    destruct Hall as [[Hni H0]|(j & r & x & Hnth & Hd & Fx & Hs & HR & HZ)].
    + left. rewrite (shape_denoms _ _ _ Hshape). split; [exact Hni|].
      rewrite (untouched_no_rule s st w pid d _ oc0 rw0 pa I Hv Hg Hni). exact H0.
    + right. subst d.
      assert (rule_j pid j s = Some r) as Hr by (unfold rule_j; rewrite Hg; exact Hnth).
      destruct (sim_step w pid j s st x r I Hv Hr Hs) as ((r' & Hr') & Hs' & _ & _ & _ & Hval). cbv zeta in Hs'.
      exists j, r', (fold_left fstep' (events_of_step w pid j s st) x).
      unfold rule_j in Hr'. rewrite Hgb in Hr'.
      destruct (shape_rule _ _ _ _ _ Hshape PI Hnth) as (rb & Hnb & Hdb & _). assert (r' = rb) as -> by congruence.
      split; [exact Hnb|]. split; [exact Hdb|]. split; [apply frun'_inv; assumption|]. split; [exact Hs'|].
      split; [exact (share_step_core w pid j s st x r _ oc0 rw0 I Hv Hr Hs HR)|exact (share_step_zero w pid j s st x r _ oc0 rw0 I Hv Hr Hs Fx HZ)].
  - rewrite (untouched_absent s st w pid d _ oc0 rw0 I Hg), Hall.
    destruct (get pid (pools (step_state s st))) as [pb|] eqn:Hgb; [|reflexivity].
    destruct (in_dec Z.eq_dec d (map r_denom (p_rules pb))) as [Hin|Hni]; [right|left; auto].
    apply in_map_iff in Hin. destruct Hin as (r & Hd & Hin). destruct (In_nth_error _ _ Hin) as [j Hnth].
    exists j, r, (fstart 0). split; [exact Hnth|]. split; [exact Hd|]. split; [apply finv_start; lia|].
    destruct (new_pool_lemma _ _ _ _ Hg Hgb) as (who & lpt & start & ed & rules & _ & _ & Hrs & Hlk & _).
    pose proof (get_pool_inv _ _ _ I' Hgb) as PIb.
    assert (get w (p_farmers pb) = None) as Hnone.
    { destruct (get w (p_farmers pb)) as [f|] eqn:Ef; [exfalso|reflexivity].
      pose proof (Forall_vals_get _ _ _ _ (pi_pos _ _ PIb) Ef) as Hpos. cbv beta in Hpos.
      assert (f_locked f <= p_locked pb) as Hle; [|lia].
      rewrite <- (pi_sum _ _ PIb), sum_locked_eq. apply (asum_get_le _ w); [|exact Ef].
      pose proof (pi_farmers _ _ PIb) as Hfs. unfold vals in Hfs. rewrite Forall_map in Hfs.
      eapply Forall_impl; [|exact Hfs]. simpl. intros kv [Hx _]. exact Hx. }
    split; [|exact share0_start].
    unfold sim, rps_of, l_of, D_of, rec_of, rule_j. rewrite Hgb, Hnth, Hnone. simpl.
    rewrite Hrs in Hnth. unfold new_rules in Hnth. apply nth_error_In in Hnth. apply in_map_iff in Hnth.
    destruct Hnth as ([[d0 t] pb0] & <- & _). simpl. auto.
Qed.

(** ** the bound the checker tests, from the invariant of the abstraction *)
Open Scope Q_scope.
Lemma Qmake_sub_lt F a n : (F - a * P18 < n * P18)%Z -> (F # P18p) - inject_Z a < inject_Z n.
Proof.
  intros H. unfold Qlt, Qminus, Qplus, Qopp, inject_Z. cbn [Qnum Qden]. rewrite Pos.mul_1_r, P18p_eq. lia.
Qed.
Lemma inject_le_Qmake a F : (a * P18 <= F)%Z -> inject_Z a <= F # P18p.
Proof. intros H. unfold Qle, inject_Z. cbn [Qnum Qden]. rewrite P18p_eq. lia. Qed.

Lemma share_ok_from_bounds sh F :
  (1 <= sh_n sh)%Z ->
  F # P18p <= sh_fair sh -> sh_fair sh <= (F + sh_eps sh)%Z # P18p ->
  (sh_paid sh * P18 <= F)%Z -> (F - sh_paid sh * P18 < sh_n sh * P18)%Z ->
  share_ok sh = true.
Proof.
  intros Hn Hlo Hhi Hover Hunder. unfold share_ok. destruct (Z.eqb_spec (sh_n sh) 0) as [Hz|_]; [lia|].
  pose proof (Qmake_sub_lt _ _ _ Hunder) as H2. pose proof (inject_le_Qmake _ _ Hover) as H3.
  rewrite Qmake_plus in Hhi.
  assert (0 < inject_Z (sh_n sh)) as Hnpos by (unfold Qlt, inject_Z; simpl; lia).
  change (Z.to_pos P18) with P18p.
  assert (- (inject_Z (sh_n sh) + (sh_eps sh # P18p)) < inject_Z (sh_paid sh) - sh_fair sh) as L1 by lra.
  assert (inject_Z (sh_paid sh) - sh_fair sh < inject_Z (sh_n sh)) as L2 by lra.
  rewrite (proj1 (Qlt_alt _ _) L1), (proj1 (Qlt_alt _ _) L2). reflexivity.
Qed.
Close Scope Q_scope.

Lemma accrued_bounds rps l D : 0 <= rps -> 0 <= l ->
  accrued rps l D * P18 <= Z.max 0 (rps * l - D * P18) /\ rps * l - D * P18 - accrued rps l D * P18 < P18 /\ 0 <= accrued rps l D.
Proof.
  intros Hr Hl. unfold accrued. assert (0 <= rps * l) as HA by nia.
  rewrite Z.quot_div_nonneg by (pose proof P18_pos; lia). pose proof (div_P18 _ HA) as Hd. pose proof P18_pos. nia.
Qed.

(** the farmer is recorded: the close adds what is payable now, as one more interaction *)
Lemma share_ok_present sh x r l D :
  finv x -> Rsh sh x -> a_rps x = r_rps r -> a_l x = l -> a_D x = D ->
  share_ok (close_sh r l D sh) = true.
Proof.
  intros [Hr Hl HD Hn Hlo Hhi Hov] (Rp & Rn & Re & Rlo & Rhi) E1 E2 E3. unfold fowed in *. rewrite E1, E2, E3 in *.
  destruct (accrued_bounds (r_rps r) l D Hr Hl) as (B1 & B2 & B3).
  apply (share_ok_from_bounds _ (a_fair x)); unfold close_sh; cbn [sh_n sh_paid sh_eps sh_fair]; try assumption; lia.
Qed.

(** the farmer is not recorded (he has left, or never came) *)
Lemma share_ok_absent sh x :
  finv x -> Rsh sh x -> Rz sh x -> a_l x = 0 -> a_D x = 0 -> share_ok sh = true.
Proof.
  intros [Hr Hl HD Hn Hlo Hhi Hov] (Rp & Rn & Re & Rlo & Rhi) HZ E2 E3. unfold fowed in *. rewrite E2, E3 in *.
  destruct (Z.eq_dec (a_n x) 0) as [Hn0|Hn1].
  - destruct (HZ Hn0) as (Z1 & Z2 & Z3 & _). unfold share_ok. rewrite Rn, Hn0, Rp, Z1. simpl.
    rewrite Z2, Z3 in *. assert (Qeq (sh_fair sh) 0) as Hq.
    { unfold Qeq, Qle in *. cbn [Qnum Qden] in *. rewrite P18p_eq in *. pose proof P18_pos. simpl in Rhi. nia. }
    apply Qeq_alt in Hq. rewrite Hq. reflexivity.
  - apply (share_ok_from_bounds _ (a_fair x)); try assumption; lia.
Qed.

(** ** bookkeeping: the map keeps distinct keys; positions and denominations *)
Lemma fold_inv {A S} (P : S -> Prop) (f : S -> A -> S) l : (forall m x, P m -> P (f m x)) -> forall m, P m -> P (fold_left f l m).
Proof. intros H. induction l as [|x l IH]; simpl; intros m Hm; [exact Hm|]. apply IH. apply H. exact Hm. Qed.

Definition nd (m : shares) : Prop := NoDup (keys m).

Lemma nd_fair_step a st b m : nd m -> nd (fair_step a st b m).
Proof.
  intros Hm. rewrite fair_step_eq. cbv zeta.
  assert (nd (acc_all a b m)) as H1.
  { unfold acc_all. apply fold_inv; [|exact Hm]. intros m0 [pid pa] H0. unfold acc_pool. destruct (get pid (o_pools b)); [|exact H0].
    apply fold_inv; [|exact H0]. intros m1 ra H1. unfold acc_rule. cbv zeta. destruct (released pa p ra =? 0); [exact H1|].
    unfold upd3. apply fold_inv; [|exact H1]. intros m2 [w f] H2. cbv zeta. apply keys_set_NoDup. exact H2. }
  destruct (negb (o_code b =? 0)); [exact H1|]. destruct (farmer_op st) as [[w pid]|]; [|exact H1].
  unfold pay_all. destruct (get pid (o_pools b)); [|exact H1]. apply fold_inv; [|exact H1].
  intros m0 r H0. unfold pay_rule. cbv zeta. apply keys_set_NoDup. exact H0.
Qed.

Lemma nd_close_go w pid f rs : forall ds m, nd m -> nd (close_go w pid f rs ds m).
Proof. induction rs as [|r rs IH]; simpl; intros ds m Hm; [exact Hm|]. apply IH. apply keys_set_NoDup. exact Hm. Qed.

Lemma nd_fair_close b m : nd m -> nd (fair_close b m).
Proof.
  intros Hm. rewrite fair_close_eq. unfold close_all. apply fold_inv; [|exact Hm]. intros m0 [pid p] H0. unfold close_pool.
  apply fold_inv; [|exact H0]. intros m1 [w f] H1. unfold close_farmer. apply nd_close_go. exact H1.
Qed.

Lemma In_get_K {K V} `{EqDec K} k (v : V) (m : amap K V) : NoDup (keys m) -> In (k, v) m -> get k m = Some v.
Proof.
  unfold keys. induction m as [|[k0 v0] m IH]; simpl; intros Hnd Hin; [contradiction|].
  inversion Hnd as [|? ? Hni Hnd']; subst. destruct (eq_dec k k0) as [->|Hne].
  - destruct Hin as [Heq|Hin]; [congruence|]. exfalso. apply Hni. apply in_map_iff. exists (k0, v). auto.
  - destruct Hin as [Heq|Hin]; [congruence|]. exact (IH Hnd' Hin).
Qed.

Lemma find_rd_nth rs : forall ds j r, NoDup (map r_denom rs) -> nth_error rs j = Some r ->
  find_rd rs ds (r_denom r) = Some (r, nth j ds 0).
Proof.
  induction rs as [|a rs IH]; intros ds [|j] r Hnd Hn; simpl in *; try discriminate.
  - inversion Hn; subst. rewrite Z.eqb_refl. destruct ds; reflexivity.
  - inversion Hnd as [|? ? Hni Hnd']; subst. destruct (Z.eqb_spec (r_denom a) (r_denom r)) as [He|He].
    + exfalso. apply Hni. rewrite He. apply in_map. exact (nth_error_In _ _ Hn).
    + rewrite (IH _ j r Hnd' Hn). destruct ds; [destruct j; reflexivity|reflexivity].
Qed.

Lemma find_rd_notin rs : forall ds d, ~ In d (map r_denom rs) -> find_rd rs ds d = None.
Proof.
  induction rs as [|a rs IH]; intros ds d Hni; simpl; [reflexivity|].
  destruct (Z.eqb_spec (r_denom a) d) as [He|He]; [exfalso; apply Hni; left; exact He|].
  apply IH. intros Hi. apply Hni. right. exact Hi.
Qed.

(** ** clause 18 on the model *)
Lemma fair_ok_model s last m :
  inv s -> (forall k, key_ok s m k) -> nd m -> o_pools last = pools s ->
  fair_ok (fair_close last m) = true.
Proof.
  intros I Hall Hnd Hlast. unfold fair_ok. apply forallb_forall. intros [[[w pid] d] sh'] Hin. cbn [snd].
  pose proof (In_get_K _ _ _ (nd_fair_close last m Hnd) Hin) as Hg.
  assert (sh' = close_spec last (w, pid, d) (sh_get m (w, pid, d))) as ->.
  { rewrite <- (fair_close_get last m (w, pid, d)).
    - unfold sh_get. rewrite Hg. reflexivity.
    - rewrite Hlast. exact (i_nodup _ I).
    - rewrite Hlast. intros pid0 p Hin0. pose proof (get_pool_inv _ _ _ I (In_get _ _ _ (i_nodup _ I) Hin0)) as PI.
      split; [exact (pi_denoms _ _ PI)|exact (pi_nodup _ _ PI)]. }
  specialize (Hall (w, pid, d)). unfold key_ok in Hall. unfold close_spec. rewrite Hlast.
  destruct (get pid (pools s)) as [p|] eqn:Hgp; [|rewrite Hall; reflexivity].
  pose proof (get_pool_inv _ _ _ I Hgp) as PI.
  destruct Hall as [[Hni H0]|(j & r & x & Hnth & Hd & Fx & (Sr & Sl & SD) & HR & HZ)].
  - rewrite H0. destruct (get w (p_farmers p)); [rewrite (find_rd_notin _ _ _ Hni)|]; reflexivity.
  - subst d. unfold rps_of, rule_j in Sr. rewrite Hgp, Hnth in Sr. unfold l_of, D_of, rec_of in Sl, SD. rewrite Hgp in Sl, SD.
    destruct (get w (p_farmers p)) as [f|] eqn:Ef.
    + rewrite (find_rd_nth _ _ _ _ (pi_denoms _ _ PI) Hnth). exact (share_ok_present _ x r _ _ Fx HR Sr Sl SD).
    + exact (share_ok_absent _ x Fx HR HZ Sl SD).
Qed.

(** ** the checker's loop over a model trace, now with its map *)
Lemma check_from_model_sh steps : forall s oc0 rw0 i x,
  inv s -> Forall valid_step steps -> Forall actor_step steps -> silent x ->
  (forall k, key_ok s (a_sh x) k) -> nd (a_sh x) ->
  let res := check_from s (obs_of s oc0 rw0) (model_trace s steps) i x in
  silent (fst res) /\ (forall k, key_ok (run s steps) (a_sh (fst res)) k) /\ nd (a_sh (fst res))
  /\ o_pools (snd res) = pools (run s steps).
Proof.
  induction steps as [|st steps IH]; intros s oc0 rw0 i x I Hv Ha Hx Hk Hn; cbv zeta.
  - simpl. auto.
  - inversion Hv; subst. inversion Ha; subst. cbn [model_trace run]. rewrite check_from_cons. cbv zeta.
    pose proof (model_passes_c05 s st oc0 rw0 I H1 H3) as H5. fold (obs_after s st) in H5.
    pose proof (model_passes_c06 s st oc0 rw0 I H1 H3) as H6.
    pose proof (step_inv s st I H1) as I'.
    rewrite H5, H6.
    assert (corr_step (step_state s st) (snd (fst (exec_step s st))) (snd (exec_step s st)) (obs_after s st) = true) as ->.
    { unfold obs_after. fold (step_state s st). apply corr_self. exact I'. }
    destruct Hx as (X1 & X2 & X3 & X4 & X5 & X6 & X7). rewrite X1, X2, X3, X4, X5, X6, X7. cbn.
    unfold obs_after at 1. fold (step_state s st).
    apply (IH (step_state s st) _ _ (i + 1)); try assumption.
    + unfold silent. cbn. repeat split; reflexivity.
    + cbn [a_sh]. exact (key_ok_step s st (a_sh x) oc0 rw0 I H1 Hk).
    + cbn [a_sh]. apply nd_fair_step. exact Hn.
Qed.

(** ** [check_case_C06] on the model's own trace of any history: exactly (-1, -1, 0) *)
Theorem model_passes_check_C06_exact_lemma h0 bl steps :
  genesis_ok (ledger_of bl) h0 -> bals_of (ledger_of bl) = bl ->
  Forall valid_step steps -> Forall actor_step steps ->
  check_case_C06 (model_case h0 bl steps []) = (-1, -1, 0).
Proof.
  intros G Hc Hv Ha. unfold check_case_C06, run_check, model_case. cbn [c_bals c_h0 c_steps c_fair].
  assert (obs0 (mkCase h0 bl (model_trace (init (ledger_of bl) h0) steps) []) = obs_of (init (ledger_of bl) h0) Ok []) as ->.
  { unfold obs0, obs_of. cbn [c_bals init pools queue bank outcome_code]. rewrite Hc. reflexivity. }
  pose proof (inv_init _ _ G) as I0.
  destruct (check_from_model_sh steps (init (ledger_of bl) h0) Ok [] 0 (mkAcc (-1) (-1) 0 (-1) 0 (-1) 0 []) I0 Hv Ha) as (Hs & Hk & Hn & Hl).
  - unfold silent. cbn. repeat split; reflexivity.
  - intros [[w pid] d]. reflexivity.
  - constructor.
  - destruct (check_from (init (ledger_of bl) h0) (obs_of (init (ledger_of bl) h0) Ok []) (model_trace (init (ledger_of bl) h0) steps) 0
                         (mkAcc (-1) (-1) 0 (-1) 0 (-1) 0 [])) as [x last]. cbn [fst snd] in *.
    destruct Hs as (X1 & X2 & X3 & X4 & X5 & X6 & X7). rewrite X1, X6.
    rewrite (fair_ok_model (run (init (ledger_of bl) h0) steps) last (a_sh x) (run_inv steps _ I0 Hv) Hk Hn Hl).
    reflexivity.
Qed.
