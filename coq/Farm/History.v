(** * Farm: budgets over whole histories.  The per-rule step relation that the checker's [c06_pool]
    evaluates, proved for every step of the model; the budget identity with the ghost "released so far";
    exactly one refund per pool. *)
From Irismod Require Export Farm.Sound.

(** ** one rule across one step: [e] released, [t] topped up, [R] refunded *)
Definition rule_step (e t : Z) (R : bool) (ra rb : rule) : Prop :=
  r_denom rb = r_denom ra /\ r_total rb = r_total ra + t /\ e <= r_rem ra
  /\ r_rem rb = (if R then 0 else r_rem ra - e + t).

(** [released], [topup], [refund_event] are the checker's own functions (Farm/Check.v) *)
Definition pool_step (pa pb : pool) (tp : denom -> Z) (R : bool) : Prop :=
  Forall2 (fun ra rb => rule_step (released pa pb ra) (tp (r_denom ra)) R ra rb) (p_rules pa) (p_rules pb).

Lemma Forall2_imp {A B} (P Q : A -> B -> Prop) l l' : (forall a b, P a b -> Q a b) -> Forall2 P l l' -> Forall2 Q l l'.
Proof. intros H. induction 1; constructor; auto. Qed.

Lemma pool_step_ext pa pb tp tp' R : (forall d, tp d = tp' d) -> pool_step pa pb tp R -> pool_step pa pb tp' R.
Proof.
  intros He H. unfold pool_step in *. eapply Forall2_imp; [|exact H]. simpl. intros ra rb Hs. rewrite <- He. exact Hs.
Qed.

Lemma released_same_last pa pb r : p_last pb = p_last pa -> released pa pb r = 0.
Proof. intros E. unfold released. rewrite E, Z.ltb_irrefl. reflexivity. Qed.

Lemma released_upd h pa pb r : p_last pb = h -> released pa pb r = r_pb r * upd_iv h pa.
Proof.
  intros E. unfold released, upd_iv. rewrite E. destruct ((p_last pa <? h) && (0 <? p_locked pa)); [reflexivity|lia].
Qed.

Lemma Forall2_map_r {A B} (P : A -> B -> Prop) (f : A -> B) l : Forall (fun a => P a (f a)) l -> Forall2 P l (map f l).
Proof. induction 1; simpl; constructor; assumption. Qed.

Lemma ps_same pa pb : Forall rule_ok (p_rules pa) -> p_rules pb = p_rules pa -> p_last pb = p_last pa ->
  pool_step pa pb (fun _ => 0) false.
Proof.
  intros Hok Er El. unfold pool_step. rewrite Er. rewrite <- (map_id (p_rules pa)) at 2. apply Forall2_map_r.
  eapply Forall_impl; [|exact Hok]. intros r (Hrem & _ & _). unfold rule_step. rewrite (released_same_last _ _ _ El).
  repeat split; lia.
Qed.

(** the rules after a successful updatePool, rule by rule *)
Lemma upd_rules_step h b pa amt dz p1 b1 :
  pool_inv h pa -> update_pool h b pa amt dz = (p1, b1, true) ->
  p_last p1 = h /\ p_rules p1 = map (collect1 (upd_iv h pa) (p_locked pa)) (p_rules pa)
  /\ Forall (fun r => r_pb r * upd_iv h pa <= r_rem r) (p_rules pa).
Proof.
  intros PI Hu. destruct (update_pool_true _ _ _ _ _ _ _ Hu) as (Hlast & _ & Hcov & -> & _). simpl.
  split; [reflexivity|]. split; [reflexivity|].
  destruct (upd_iv_cases h pa Hlast) as [Hz|(Hpos & _ & _)]; [|exact (Hcov Hpos)].
  rewrite Hz. eapply Forall_impl; [|exact (pi_rule _ _ PI)]. intros r (Hrem & _ & _). lia.
Qed.

Lemma ps_upd h b pa amt p1 b1 fs :
  pool_inv h pa -> update_pool h b pa amt false = (p1, b1, true) -> pool_step pa (with_farmers p1 fs) (fun _ => 0) false.
Proof.
  intros PI Hu. destruct (upd_rules_step _ _ _ _ _ _ _ PI Hu) as (Hl & Hr & Hcov).
  unfold pool_step. change (p_rules (with_farmers p1 fs)) with (p_rules p1). rewrite Hr. apply Forall2_map_r.
  eapply Forall_impl; [|exact Hcov]. cbv beta. intros r Hc.
  unfold rule_step. rewrite (released_upd h pa (with_farmers p1 fs) r Hl). simpl. repeat split; lia.
Qed.

Lemma ps_adjust h b pa p1 b1 add rpb e :
  pool_inv h pa -> update_pool h b pa 0 false = (p1, b1, true) ->
  pool_step pa (with_end (with_rules p1 (adj_rules add rpb p1)) e) (amount_of add) false.
Proof.
  intros PI Hu. destruct (upd_rules_step _ _ _ _ _ _ _ PI Hu) as (Hl & Hr & Hcov).
  set (p2 := with_end (with_rules p1 (adj_rules add rpb p1)) e).
  unfold pool_step. change (p_rules p2) with (adj_rules add rpb p1).
  unfold adj_rules. rewrite Hr, !map_map. apply Forall2_map_r. eapply Forall_impl; [|exact Hcov]. cbv beta. intros r Hc.
  unfold rule_step. rewrite (released_upd h pa p2 r Hl). simpl. repeat split; lia.
Qed.

Lemma ps_refund h b pa p1 b1 :
  pool_inv h pa -> update_pool h b pa 0 true = (p1, b1, true) -> pool_step pa (zero_rules p1) (fun _ => 0) true.
Proof.
  intros PI Hu. destruct (upd_rules_step _ _ _ _ _ _ _ PI Hu) as (Hl & Hr & Hcov).
  set (p2 := zero_rules p1).
  unfold pool_step. change (p_rules p2) with (map zero_rem (p_rules p1)).
  rewrite Hr, !map_map. apply Forall2_map_r. eapply Forall_impl; [|exact Hcov]. cbv beta. intros r Hc.
  unfold rule_step. rewrite (released_upd h pa p2 r Hl). simpl. repeat split; lia.
Qed.

(** a failing message is rejected or aborts *)
Ltac crush_fail :=
  repeat match goal with
         | |- context [match ?x with _ => _ end] => destruct x
         end; intros H; inversion H; subst; discriminate.

Lemma exec_msg_fail s m o : exec_msg s m = Fail o -> o <> Ok.
Proof.
  destruct m; simpl.
  - unfold create_pool. crush_fail.
  - unfold stake. crush_fail.
  - unfold unstake. crush_fail.
  - unfold harvest. crush_fail.
  - unfold adjust. crush_fail.
  - unfold destroy. crush_fail.
  - unfold update_params. crush_fail.
Qed.

(** ** every step of the model, every pool: the checker's per-rule relation *)
Ltac tp0 := apply (pool_step_ext _ _ (fun _ => 0)); [intros ?; reflexivity|].

Lemma pool_step_lemma s st pid pa oc0 rw0 :
  inv s -> valid_step st -> get pid (pools s) = Some pa ->
  let r := exec_step s st in
  let a := obs_of s oc0 rw0 in
  let b := obs_of (fst (fst r)) (snd (fst r)) (snd r) in
  exists pb, get pid (pools (fst (fst r))) = Some pb
             /\ pool_step pa pb (topup st b pid) (refund_event (height s) a st b pid).
Proof.
  intros I Hv Hg. cbv zeta. pose proof (get_pool_inv _ _ _ I Hg) as PI. pose proof (pi_rule _ _ PI) as Hok.
  assert (pid <= seq s) as Hseq.
  { pose proof (i_ids _ I) as Hids. rewrite Forall_forall in Hids. apply (Hids pid). eapply get_Some_in_keys; exact Hg. }
  destruct st as [m|].
  - unfold exec_step. destruct (exec_msg s m) as [s' rw|o] eqn:E; cbn [fst snd].
    2:{ (* failed: nothing changes, the outcome is not ok *)
      exists pa. split; [exact Hg|]. pose proof (exec_msg_fail _ _ _ E) as Hno.
      assert (outcome_code o =? 0 = false) as Hc by (destruct o; [congruence|reflexivity|reflexivity]).
      apply (pool_step_ext pa pa (fun _ => 0)).
      - intros d. destruct m; simpl; try reflexivity. change (o_code (obs_of s o [])) with (outcome_code o). rewrite Hc, andb_false_r. reflexivity.
      - assert (refund_event (height s) (obs_of s oc0 rw0) (Msg m) (obs_of s o []) pid = false) as ->.
        { destruct m; simpl; try reflexivity. change (o_code (obs_of s o [])) with (outcome_code o). rewrite Hc, andb_false_r. reflexivity. }
        apply ps_same; [exact Hok|reflexivity|reflexivity]. }
    destruct m as [who lpt start ed rules|who pid' d amt|who pid' d amt|who pid'|who pid' add rpb|who pid'|who cf tr]; simpl in E;
      cbn [refund_event].
    + destruct (create_Done _ _ _ _ _ _ _ _ E) as (b1 & b2 & iv & _ & _ & _ & _ & _ & _ & _ & _ & ->).
      exists pa. split; [simpl; rewrite get_set_other by lia; exact Hg|]. tp0. apply ps_same; [exact Hok|reflexivity|reflexivity].
    + destruct (stake_Done _ _ _ _ _ _ _ E) as (p0 & b1 & p1 & b2 & rw0' & db & b3 & Hs). cbv zeta in Hs.
      destruct Hs as (_ & _ & Hg0 & _ & _ & _ & _ & Hu & _ & _ & _ & ->).
      destruct (Z.eq_dec pid' pid) as [->|Hne].
      * rewrite Hg in Hg0. inversion Hg0; subst p0. eexists. split; [simpl; rewrite get_set_same; reflexivity|].
        tp0. exact (ps_upd _ _ _ _ _ _ _ PI Hu).
      * exists pa. split; [simpl; rewrite get_set_other by congruence; exact Hg|]. tp0. apply ps_same; [exact Hok|reflexivity|reflexivity].
    + destruct (unstake_Done _ _ _ _ _ _ _ E) as (p0 & fi & p1 & b1 & b2 & rw0' & db & b3 & Hs).
      destruct Hs as (_ & _ & Hg0 & _ & _ & _ & _ & Hupd & _ & _ & _ & _ & ->).
      destruct (Z.eq_dec pid' pid) as [->|Hne].
      * rewrite Hg in Hg0. inversion Hg0; subst p0. eexists. split; [simpl; rewrite get_set_same; reflexivity|].
        unfold unstake_upd in Hupd. destruct (expired s pid pa).
        -- inversion Hupd; subst. tp0. apply ps_same; [exact Hok|reflexivity|reflexivity].
        -- tp0. exact (ps_upd _ _ _ _ _ _ _ PI Hupd).
      * exists pa. split; [simpl; rewrite get_set_other by congruence; exact Hg|]. tp0. apply ps_same; [exact Hok|reflexivity|reflexivity].
    + destruct (harvest_Done _ _ _ _ _ E) as (p0 & fi & p1 & b1 & rw0' & db & b2 & Hs).
      destruct Hs as (Hg0 & _ & _ & Hu & _ & _ & _ & ->).
      destruct (Z.eq_dec pid' pid) as [->|Hne].
      * rewrite Hg in Hg0. inversion Hg0; subst p0. eexists. split; [simpl; rewrite get_set_same; reflexivity|].
        tp0. exact (ps_upd _ _ _ _ _ _ _ PI Hu).
      * exists pa. split; [simpl; rewrite get_set_other by congruence; exact Hg|]. tp0. apply ps_same; [exact Hok|reflexivity|reflexivity].
    + destruct (adjust_Done _ _ _ _ _ _ _ E) as (p0 & p1 & b1 & b2 & iv & Hs). cbv zeta in Hs.
      destruct Hs as (_ & _ & _ & Hg0 & _ & _ & _ & _ & Hu & _ & _ & _ & ->).
      destruct (Z.eq_dec pid' pid) as [->|Hne].
      * rewrite Hg in Hg0. inversion Hg0; subst p0. eexists. split; [simpl; rewrite get_set_same; reflexivity|].
        apply (pool_step_ext _ _ (amount_of add)).
        { intros d. cbn [topup]. rewrite Z.eqb_refl. reflexivity. }
        exact (ps_adjust _ _ _ _ _ add rpb _ PI Hu).
      * exists pa. split; [simpl; rewrite get_set_other by congruence; exact Hg|].
        apply (pool_step_ext _ _ (fun _ => 0)).
        { intros d. cbn [topup]. destruct (Z.eqb_spec pid' pid); [contradiction|reflexivity]. }
        apply ps_same; [exact Hok|reflexivity|reflexivity].
    + destruct (destroy_Done _ _ _ _ _ E) as (p0 & Hg0 & _ & _ & Hex & Hr & _).
      change (o_code (obs_of s' Ok rw)) with 0. rewrite (Z.eqb_refl 0), andb_true_r.
      destruct (Z.eq_dec pid' pid) as [->|Hne].
      * rewrite Hg in Hg0. inversion Hg0; subst p0. rewrite Z.eqb_refl.
        pose proof (not_expired_in_queue _ _ _ I Hg Hex) as Hq.
        destruct (update_succeeds s pid pa (bank s) 0 true I Hg Hq ltac:(intros; lia)) as (p1' & b1' & Hok').
        destruct (refund_cases _ _ _ _ _ Hr) as [(p1 & b1 & Hu & _)|(p1 & b1 & b' & Hu & -> & _)]; [congruence|].
        eexists. split; [simpl; rewrite get_set_same; reflexivity|]. tp0. exact (ps_refund _ _ _ _ _ PI Hu).
      * destruct (Z.eqb_spec pid' pid); [contradiction|].
        exists pa. split; [rewrite (refund_get_other _ _ _ _ _ _ Hne Hr); exact Hg|]. tp0. apply ps_same; [exact Hok|reflexivity|reflexivity].
    + destruct (update_params_Done _ _ _ _ _ _ E) as (_ & _ & _ & _ & ->).
      exists pa. split; [exact Hg|]. tp0. apply ps_same; [exact Hok|reflexivity|reflexivity].
  - (* next block *)
    unfold exec_step. cbn [fst snd refund_event]. change (o_queue (obs_of s oc0 rw0)) with (queue s). unfold end_block.
    destruct (in_dec Z.eq_dec pid (due s)) as [Hin|Hni].
    + assert (in_queue (queue s) (height s, pid) = true) as -> by (apply in_queue_true; apply in_due; exact Hin).
      destruct (in_split _ _ Hin) as (l1 & l2 & Hl). pose proof (NoDup_due _ (i_qnd _ I)) as Hnd. rewrite Hl in Hnd.
      pose proof (NoDup_remove_2 _ _ _ Hnd) as Hnot. rewrite in_app_iff in Hnot.
      rewrite Hl, fold_left_app. simpl.
      destruct (end_block_fold l1 s I) as (I1 & Hh1 & Hq1).
      { apply NoDup_remove_1 in Hnd. exact (NoDup_prefix _ _ Hnd). }
      { intros x Hx. apply in_due. rewrite Hl. apply in_or_app. left. exact Hx. }
      set (s1 := fold_left end_block_one l1 s) in *.
      assert (get pid (pools s1) = Some pa) as Hg1 by (unfold s1; rewrite fold_other by tauto; exact Hg).
      assert (In (height s, pid) (queue s1)) as Hq.
      { apply Hq1. split; [apply in_due; exact Hin|]. simpl. intros [_ Hx]. tauto. }
      apply in_queue_true in Hq. destruct (i_qwf _ I1 _ _ Hq) as (p0 & Hg0 & He0). rewrite Hg1 in Hg0. inversion Hg0; subst p0.
      rewrite fold_other by tauto. unfold end_block_one. rewrite Hg1.
      destruct (refund s1 pid pa) as [s2 ok] eqn:Er. simpl. rewrite <- He0 in Hq.
      destruct (update_succeeds s1 pid pa (bank s1) 0 true I1 Hg1 Hq ltac:(intros; lia)) as (p1' & b1' & Hok').
      destruct (refund_cases _ _ _ _ _ Er) as [(p1 & b1 & Hu & _)|(p1 & b1 & b' & Hu & -> & _)]; [congruence|].
      eexists. split; [simpl; rewrite get_set_same; reflexivity|]. rewrite Hh1 in Hu.
      pose proof (get_pool_inv _ _ _ I1 Hg1) as PI1. rewrite Hh1 in PI1. tp0. exact (ps_refund _ _ _ _ _ PI1 Hu).
    + assert (in_queue (queue s) (height s, pid) = false) as ->.
      { apply in_queue_false. intros Hi. apply Hni. apply in_due. exact Hi. }
      exists pa. split; [simpl; rewrite fold_other by exact Hni; exact Hg|]. tp0. apply ps_same; [exact Hok|reflexivity|reflexivity].
Qed.

(** ** the checker's per-pool clause is 0 whenever the per-rule relation holds *)
Lemma pool_step_denoms pa pb tp R : pool_step pa pb tp R -> map r_denom (p_rules pb) = map r_denom (p_rules pa).
Proof. unfold pool_step. induction 1 as [|ra rb la lb (Hd & _) _ IH]; simpl; [reflexivity|]. rewrite Hd, IH. reflexivity. Qed.

Lemma find_Forall2 (P : rule -> rule -> Prop) la lb :
  Forall2 (fun ra rb => r_denom rb = r_denom ra /\ P ra rb) la lb -> NoDup (map r_denom la) ->
  forall ra, In ra la -> exists rb, find (fun r => r_denom r =? r_denom ra) lb = Some rb /\ P ra rb.
Proof.
  induction 1 as [|ra0 rb0 la lb (Hd & HP) Hrest IH]; simpl; intros Hnd ra Hin; [contradiction|].
  inversion Hnd as [|? ? Hni Hnd']; subst. destruct Hin as [->|Hin].
  - exists rb0. rewrite Hd, Z.eqb_refl. auto.
  - destruct (Z.eqb_spec (r_denom rb0) (r_denom ra)) as [He|Hne].
    + exfalso. apply Hni. rewrite <- Hd, He. apply in_map. exact Hin.
    + exact (IH Hnd' ra Hin).
Qed.

Lemma fold_code_zero {A} (g : A -> Z) l :
  (forall x, In x l -> g x = 0) ->
  fold_left (fun code x => if negb (code =? 0) then code else g x) l 0 = 0.
Proof.
  induction l as [|x l IH]; simpl; intros H; [reflexivity|]. rewrite (H x (or_introl eq_refl)). apply IH.
  intros y Hy. apply H. right. exact Hy.
Qed.

Lemma c06_pool_zero h a st b pid pa pb :
  get pid (o_pools b) = Some pb -> NoDup (map r_denom (p_rules pa)) ->
  pool_step pa pb (topup st b pid) (refund_event h a st b pid) ->
  c06_pool h a st b pid pa = 0.
Proof.
  intros Hg Hnd Hps. unfold c06_pool. rewrite Hg. rewrite <- (pool_step_denoms _ _ _ _ Hps), eqb_refl. cbn [negb].
  apply (fold_code_zero (fun ra =>
     match rule_of pb (r_denom ra) with
     | None => 10
     | Some rb => if negb (r_total rb =? r_total ra + topup st b pid (r_denom ra)) then 11
                  else if r_rem ra <? released pa pb ra then 13
                  else if refund_event h a st b pid then (if r_rem rb =? 0 then 0 else 12)
                  else if r_rem rb =? r_rem ra - released pa pb ra + topup st b pid (r_denom ra) then 0 else 14
     end)).
  intros ra Hin. unfold pool_step, rule_step in Hps.
  destruct (find_Forall2 (fun ra rb => r_total rb = r_total ra + topup st b pid (r_denom ra) /\ released pa pb ra <= r_rem ra
                                       /\ r_rem rb = (if refund_event h a st b pid then 0 else r_rem ra - released pa pb ra + topup st b pid (r_denom ra)))
                         _ _ Hps Hnd ra Hin) as (rb & Hf & Ht & He & Hr).
  unfold rule_of. rewrite Hf. rewrite (proj2 (Z.eqb_eq _ _) Ht). cbn [negb].
  destruct (Z.ltb_spec (r_rem ra) (released pa pb ra)); [lia|].
  destruct (refund_event h a st b pid); rewrite Hr, Z.eqb_refl; reflexivity.
Qed.

(** ** the budget identity over whole histories *)
Lemma pool_step_sums pa pb tp R : pool_step pa pb tp R -> forall d,
  rule_sum r_total (p_rules pb) d = rule_sum r_total (p_rules pa) d + rule_sum (fun ra => tp (r_denom ra)) (p_rules pa) d
  /\ rule_sum r_rem (p_rules pb) d =
     (if R then 0 else rule_sum r_rem (p_rules pa) d - rule_sum (released pa pb) (p_rules pa) d
                       + rule_sum (fun ra => tp (r_denom ra)) (p_rules pa) d).
Proof.
  unfold pool_step, rule_sum. intros H d. set (rel := released pa pb) in *. clearbody rel.
  remember (p_rules pa) as la eqn:Ea. remember (p_rules pb) as lb eqn:Eb. clear Ea Eb.
  induction H as [|ra rb la lb (Hd & Ht & He & Hr) _ IH]; simpl.
  - destruct R; lia.
  - destruct IH as [IH1 IH2]. rewrite Hd. destruct (r_denom ra =? d); destruct R; lia.
Qed.

Lemma refund_no_topup h a st b pid : refund_event h a st b pid = true -> forall d, topup st b pid d = 0.
Proof. intros H d. destruct st as [m|]; [destruct m; simpl in *; try reflexivity; discriminate|reflexivity]. Qed.

Lemma rule_sum_topup_zero h a st b pid rs d : refund_event h a st b pid = true ->
  rule_sum (fun ra => topup st b pid (r_denom ra)) rs d = 0.
Proof.
  intros ER. unfold rule_sum. induction rs as [|r rs IH]; simpl; [reflexivity|].
  rewrite IH, (refund_no_topup _ _ _ _ _ ER). destruct (r_denom r =? d); reflexivity.
Qed.

Definition funded (ps : amap Z pool) (pid : Z) (d : denom) : Z :=
  match get pid ps with Some p => rule_sum r_total (p_rules p) d | None => 0 end.
Definition remaining (ps : amap Z pool) (pid : Z) (d : denom) : Z :=
  match get pid ps with Some p => rule_sum r_rem (p_rules p) d | None => 0 end.

(** the model's own observations before and after a step *)
Definition obs_before (s : state) : obs := obs_of s Ok [].
Definition obs_after (s : state) (st : step) : obs :=
  obs_of (fst (fst (exec_step s st))) (snd (fst (exec_step s st))) (snd (exec_step s st)).

(** released / refunded by one step for one pool and denomination, in the checker's terms: per block times the
    blocks since the last distribution while staked; at a refund event, what then remains *)
Definition released_in (s : state) (st : step) (pid : Z) (d : denom) : Z :=
  match get pid (pools s), get pid (pools (step_state s st)) with
  | Some pa, Some pb => rule_sum (released pa pb) (p_rules pa) d
  | _, _ => 0
  end.
Definition refunded_in (s : state) (st : step) (pid : Z) (d : denom) : Z :=
  if refund_event (height s) (obs_before s) st (obs_after s st) pid then
    match get pid (pools s), get pid (pools (step_state s st)) with
    | Some pa, Some pb => rule_sum (fun ra => r_rem ra - released pa pb ra) (p_rules pa) d
    | _, _ => 0
    end
  else 0.

Fixpoint released_so_far (s : state) (steps : list step) (pid : Z) (d : denom) : Z :=
  match steps with
  | [] => 0
  | st :: rest => released_in s st pid d + released_so_far (step_state s st) rest pid d
  end.
Fixpoint refunded_so_far (s : state) (steps : list step) (pid : Z) (d : denom) : Z :=
  match steps with
  | [] => 0
  | st :: rest => refunded_in s st pid d + refunded_so_far (step_state s st) rest pid d
  end.

(** pools only appear through CreatePool, with the whole budget remaining *)
Lemma end_block_one_none s pid' pid : get pid (pools s) = None -> get pid (pools (end_block_one s pid')) = None.
Proof.
  intros Hn. destruct (Z.eq_dec pid' pid) as [->|Hne].
  - unfold end_block_one. rewrite Hn. exact Hn.
  - rewrite end_block_one_other by exact Hne. exact Hn.
Qed.

Lemma fold_none l : forall s pid, get pid (pools s) = None -> get pid (pools (fold_left end_block_one l s)) = None.
Proof. induction l as [|pid' l IH]; simpl; intros s pid Hn; [exact Hn|]. apply IH. apply end_block_one_none. exact Hn. Qed.

Lemma new_pool_lemma s st pid pb :
  get pid (pools s) = None -> get pid (pools (step_state s st)) = Some pb ->
  exists who lpt start ed rules,
    st = Msg (CreatePool who lpt start ed rules) /\ pid = seq s + 1
    /\ p_rules pb = new_rules rules /\ p_locked pb = 0 /\ p_creator pb = who /\ snd (fst (exec_step s st)) = Ok.
Proof.
  intros Hn Hs. unfold step_state in Hs. destruct st as [m|]; unfold exec_step in *.
  - destruct (exec_msg s m) as [s' rw|o] eqn:E; cbn [fst snd] in *; [|congruence].
    destruct m as [who lpt start ed rules|who pid' d amt|who pid' d amt|who pid'|who pid' add rpb|who pid'|who cf tr]; simpl in E.
    + destruct (create_Done _ _ _ _ _ _ _ _ E) as (b1 & b2 & iv & _ & _ & _ & _ & _ & _ & _ & _ & ->). simpl in Hs.
      destruct (Z.eq_dec pid (seq s + 1)) as [->|Hne].
      * rewrite get_set_same in Hs. inversion Hs; subst pb. exists who, lpt, start, ed, rules. simpl. auto 10.
      * rewrite get_set_other in Hs by exact Hne. congruence.
    + destruct (stake_Done _ _ _ _ _ _ _ E) as (p0 & b1 & p1 & b2 & rw0' & db & b3 & Hx). cbv zeta in Hx.
      destruct Hx as (_ & _ & Hg0 & _ & _ & _ & _ & _ & _ & _ & _ & ->). simpl in Hs.
      rewrite get_set_other in Hs by congruence. congruence.
    + destruct (unstake_Done _ _ _ _ _ _ _ E) as (p0 & fi & p1 & b1 & b2 & rw0' & db & b3 & Hx).
      destruct Hx as (_ & _ & Hg0 & _ & _ & _ & _ & _ & _ & _ & _ & _ & ->). simpl in Hs.
      rewrite get_set_other in Hs by congruence. congruence.
    + destruct (harvest_Done _ _ _ _ _ E) as (p0 & fi & p1 & b1 & rw0' & db & b2 & Hx).
      destruct Hx as (Hg0 & _ & _ & _ & _ & _ & _ & ->). simpl in Hs.
      rewrite get_set_other in Hs by congruence. congruence.
    + destruct (adjust_Done _ _ _ _ _ _ _ E) as (p0 & p1 & b1 & b2 & iv & Hx). cbv zeta in Hx.
      destruct Hx as (_ & _ & _ & Hg0 & _ & _ & _ & _ & _ & _ & _ & _ & ->). simpl in Hs.
      rewrite get_set_other in Hs by congruence. congruence.
    + destruct (destroy_Done _ _ _ _ _ E) as (p0 & Hg0 & _ & _ & _ & Hr & _).
      assert (pid' <> pid) as Hne by congruence. rewrite (refund_get_other _ _ _ _ _ _ Hne Hr) in Hs. congruence.
    + destruct (update_params_Done _ _ _ _ _ _ E) as (_ & _ & _ & _ & ->). simpl in Hs. congruence.
  - simpl in Hs. unfold end_block in Hs. rewrite fold_none in Hs by exact Hn. discriminate.
Qed.

Lemma rule_sum_new_rules rules d : rule_sum r_total (new_rules rules) d = rule_sum r_rem (new_rules rules) d.
Proof. unfold rule_sum, new_rules. rewrite !map_map. f_equal. apply map_ext. intros [[d0 t] pb]. reflexivity. Qed.

Lemma rule_sum_minus (g1 g2 : rule -> Z) rs d : rule_sum (fun r => g1 r - g2 r) rs d = rule_sum g1 rs d - rule_sum g2 rs d.
Proof. unfold rule_sum. induction rs as [|r rs IH]; simpl; [reflexivity|]. rewrite IH. destruct (r_denom r =? d); lia. Qed.

Lemma budget_step_hist s st pid d :
  inv s -> valid_step st ->
  funded (pools (step_state s st)) pid d - remaining (pools (step_state s st)) pid d
  = funded (pools s) pid d - remaining (pools s) pid d + released_in s st pid d + refunded_in s st pid d.
Proof.
  intros I Hv. unfold funded, remaining, released_in, refunded_in.
  destruct (get pid (pools s)) as [pa|] eqn:Hg.
  - destruct (pool_step_lemma s st pid pa Ok [] I Hv Hg) as (pb & Hgb & Hps). cbv zeta in Hgb, Hps.
    fold (step_state s st) in Hgb. rewrite Hgb. fold (obs_before s) in Hps. fold (obs_after s st) in Hps.
    destruct (pool_step_sums _ _ _ _ Hps d) as [Ht Hr]. rewrite Ht, Hr.
    destruct (refund_event (height s) (obs_before s) st (obs_after s st) pid) eqn:ER.
    + rewrite rule_sum_minus, (rule_sum_topup_zero _ _ _ _ _ _ d ER). lia.
    + lia.
  - destruct (get pid (pools (step_state s st))) as [pb|] eqn:Hgb.
    + destruct (new_pool_lemma _ _ _ _ Hg Hgb) as (who & lpt & start & ed & rules & -> & _ & Hrs & _).
      rewrite Hrs, rule_sum_new_rules. simpl. lia.
    + destruct (refund_event _ _ _ _ _); lia.
Qed.

Lemma budget_identity_lemma steps : forall s pid d,
  inv s -> Forall valid_step steps ->
  funded (pools (run s steps)) pid d
  = remaining (pools (run s steps)) pid d
    + (funded (pools s) pid d - remaining (pools s) pid d)
    + released_so_far s steps pid d + refunded_so_far s steps pid d.
Proof.
  induction steps as [|st steps IH]; simpl; intros s pid d I Hv; [lia|].
  inversion Hv; subst. rewrite (IH (step_state s st) pid d (step_inv _ _ I H1) H2).
  pose proof (budget_step_hist s st pid d I H1). lia.
Qed.

(** ** exactly one refund per pool, over whole histories *)
Definition refund_at (s : state) (st : step) (pid : Z) : bool :=
  refund_event (height s) (obs_before s) st (obs_after s st) pid.

Fixpoint refund_count (s : state) (steps : list step) (pid : Z) : Z :=
  match steps with
  | [] => 0
  | st :: rest => (if refund_at s st pid then 1 else 0) + refund_count (step_state s st) rest pid
  end.

Definition queued (s : state) (pid : Z) : Prop :=
  exists p, get pid (pools s) = Some p /\ in_queue (queue s) (p_end p, pid) = true.

Lemma exec_ok_code s m s' rw : exec_msg s m = Done s' rw -> o_code (obs_after s (Msg m)) = 0.
Proof. intros E. unfold obs_after, exec_step. rewrite E. reflexivity. Qed.

Lemma exec_fail_code s m o : exec_msg s m = Fail o -> (o_code (obs_after s (Msg m)) =? 0) = false.
Proof.
  intros E. pose proof (exec_msg_fail _ _ _ E) as Hno. unfold obs_after, exec_step. rewrite E. simpl.
  destruct o; [congruence|reflexivity|reflexivity].
Qed.

(** a refund event needs a queued pool and leaves it without any queue entry *)
Lemma refund_at_effect s st pid :
  inv s -> valid_step st -> refund_at s st pid = true -> queued s pid /\ unqueued (step_state s st) pid.
Proof.
  intros I Hv H. unfold refund_at in H. destruct st as [m|].
  - destruct m as [ | | | | |who pid'| ]; cbn [refund_event] in H; try discriminate.
    apply andb_true_iff in H. destruct H as [Hp Hc]. apply Z.eqb_eq in Hp. subst pid'.
    destruct (exec_msg s (Destroy who pid)) as [s' rw|o] eqn:E; [|rewrite (exec_fail_code _ _ _ E) in Hc; discriminate].
    simpl in E. destruct (destroy_needs_queued _ _ _ _ _ I E) as (p & Hg & Hq & Hr).
    split; [exists p; auto|].
    destruct (refund_effect _ _ _ _ _ I Hg Hq Hr) as (_ & _ & _ & _ & _ & Hun & _).
    unfold step_state, exec_step. simpl. rewrite E. exact Hun.
  - cbn [refund_event] in H. change (o_queue (obs_before s)) with (queue s) in H.
    destruct (i_qwf _ I _ _ H) as (p & Hg & He). split; [exists p; rewrite He; auto|].
    assert (In pid (due s)) as Hin by (apply in_due; apply in_queue_true; exact H).
    unfold step_state, exec_step. simpl. unfold end_block.
    destruct (in_split _ _ Hin) as (l1 & l2 & Hl). pose proof (NoDup_due _ (i_qnd _ I)) as Hnd. rewrite Hl in Hnd.
    pose proof (NoDup_remove_2 _ _ _ Hnd) as Hnot. rewrite in_app_iff in Hnot.
    rewrite Hl, fold_left_app. simpl.
    destruct (end_block_fold l1 s I) as (I1 & Hh1 & Hq1).
    { apply NoDup_remove_1 in Hnd. exact (NoDup_prefix _ _ Hnd). }
    { intros x Hx. apply in_due. rewrite Hl. apply in_or_app. left. exact Hx. }
    set (s1 := fold_left end_block_one l1 s) in *.
    assert (get pid (pools s1) = Some p) as Hg1 by (unfold s1; rewrite fold_other by tauto; exact Hg).
    assert (In (height s, pid) (queue s1)) as Hq.
    { apply Hq1. split; [apply in_queue_true; exact H|]. simpl. intros [_ Hx]. tauto. }
    apply in_queue_true in Hq. rewrite <- He in Hq.
    destruct (refund s1 pid p) as [s2 ok] eqn:Er.
    assert (end_block_one s1 pid = s2) as Hone by (unfold end_block_one; rewrite Hg1, Er; reflexivity). rewrite Hone.
    destruct (refund_effect _ _ _ _ _ I1 Hg1 Hq Er) as (_ & _ & _ & _ & (p' & Hg' & _) & Hun & _).
    destruct (end_block_same_pool l2 s2 pid p' ltac:(tauto) Hg' Hun) as [_ Hu2]. intros e. simpl. exact (Hu2 e).
Qed.

Lemma unqueued_no_refund s st pid : inv s -> unqueued s pid -> refund_at s st pid = false.
Proof.
  intros I Hu. unfold refund_at. destruct st as [m|].
  - destruct m as [ | | | | |who pid'| ]; cbn [refund_event]; try reflexivity.
    destruct (Z.eqb_spec pid' pid) as [->|Hne]; [|reflexivity]. cbn [andb].
    destruct (exec_msg s (Destroy who pid)) as [s' rw|o] eqn:E; [|exact (exec_fail_code _ _ _ E)].
    simpl in E. destruct (destroy_needs_queued _ _ _ _ _ I E) as (p & Hg & Hq & _). rewrite (Hu (p_end p)) in Hq. discriminate.
  - cbn [refund_event]. exact (Hu (height s)).
Qed.

Lemma refund_count_unqueued steps : forall s pid p,
  inv s -> Forall valid_step steps -> get pid (pools s) = Some p -> unqueued s pid -> refund_count s steps pid = 0.
Proof.
  induction steps as [|st steps IH]; simpl; intros s pid p I Hv Hg Hu; [reflexivity|].
  inversion Hv; subst. rewrite (unqueued_no_refund s st pid I Hu).
  destruct (step_same_pool s st pid p I Hg Hu) as [(p1 & Hg1 & _) Hu1].
  rewrite (IH _ _ p1 (step_inv _ _ I H1) H2 Hg1 Hu1). reflexivity.
Qed.

(** never both: at most one refund event for a pool in any history *)
Lemma refund_at_most_once steps : forall s pid,
  inv s -> Forall valid_step steps -> 0 <= refund_count s steps pid <= 1.
Proof.
  induction steps as [|st steps IH]; simpl; intros s pid I Hv; [lia|].
  inversion Hv; subst. pose proof (step_inv _ _ I H1) as I'.
  destruct (refund_at s st pid) eqn:ER.
  - destruct (refund_at_effect s st pid I H1 ER) as [(p & Hg & _) Hun].
    destruct (pool_step_lemma s st pid p Ok [] I H1 Hg) as (pb & Hgb & _). cbv zeta in Hgb. fold (step_state s st) in Hgb.
    rewrite (refund_count_unqueued steps _ pid pb I' H2 Hgb Hun). lia.
  - specialize (IH (step_state s st) pid I' H2). lia.
Qed.

(** a queued pool stays queued until its refund event *)
Lemma queued_persists s st pid :
  inv s -> valid_step st -> queued s pid -> refund_at s st pid = false -> queued (step_state s st) pid.
Proof.
  intros I Hv (p & Hg & Hq) HR. unfold queued, step_state.
  assert (pid <= seq s) as Hseq.
  { pose proof (i_ids _ I) as Hids. rewrite Forall_forall in Hids. apply (Hids pid). eapply get_Some_in_keys; exact Hg. }
  apply in_queue_true in Hq.
  destruct st as [m|]; unfold exec_step.
  - destruct (exec_msg s m) as [s' rw|o] eqn:E; cbn [fst]; [|exists p; split; [exact Hg|apply in_queue_true; exact Hq]].
    destruct m as [who lpt start ed rules|who pid' d amt|who pid' d amt|who pid'|who pid' add rpb|who pid'|who cf tr]; simpl in E.
    + destruct (create_Done _ _ _ _ _ _ _ _ E) as (b1 & b2 & iv & _ & _ & _ & _ & _ & _ & _ & _ & ->). simpl.
      exists p. rewrite get_set_other by lia. split; [exact Hg|]. apply in_queue_true. apply in_enqueue. left. exact Hq.
    + destruct (stake_Done _ _ _ _ _ _ _ E) as (p0 & b1 & p1 & b2 & rw0' & db & b3 & Hs). cbv zeta in Hs.
      destruct Hs as (_ & _ & Hg0 & _ & _ & _ & _ & Hu & _ & _ & _ & ->). simpl.
      destruct (Z.eq_dec pid' pid) as [->|Hne].
      * rewrite Hg in Hg0. inversion Hg0; subst p0. destruct (end_after _ _ _ _ _ _ Hu) as (Hend & _).
        eexists. rewrite get_set_same. split; [reflexivity|]. simpl. rewrite Hend. apply in_queue_true. exact Hq.
      * exists p. rewrite get_set_other by congruence. split; [exact Hg|apply in_queue_true; exact Hq].
    + destruct (unstake_Done _ _ _ _ _ _ _ E) as (p0 & fi & p1 & b1 & b2 & rw0' & db & b3 & Hs).
      destruct Hs as (_ & _ & Hg0 & _ & _ & _ & _ & Hupd & _ & _ & _ & _ & ->). simpl.
      destruct (Z.eq_dec pid' pid) as [->|Hne].
      * rewrite Hg in Hg0. inversion Hg0; subst p0.
        assert (p_end p1 = p_end p) as Hend.
        { unfold unstake_upd in Hupd. destruct (expired s pid p); [inversion Hupd; reflexivity|exact (proj1 (end_after _ _ _ _ _ _ Hupd))]. }
        eexists. rewrite get_set_same. split; [reflexivity|]. simpl. rewrite Hend. apply in_queue_true. exact Hq.
      * exists p. rewrite get_set_other by congruence. split; [exact Hg|apply in_queue_true; exact Hq].
    + destruct (harvest_Done _ _ _ _ _ E) as (p0 & fi & p1 & b1 & rw0' & db & b2 & Hs).
      destruct Hs as (Hg0 & _ & _ & Hu & _ & _ & _ & ->). simpl.
      destruct (Z.eq_dec pid' pid) as [->|Hne].
      * rewrite Hg in Hg0. inversion Hg0; subst p0. destruct (end_after _ _ _ _ _ _ Hu) as (Hend & _).
        eexists. rewrite get_set_same. split; [reflexivity|]. simpl. rewrite Hend. apply in_queue_true. exact Hq.
      * exists p. rewrite get_set_other by congruence. split; [exact Hg|apply in_queue_true; exact Hq].
    + destruct (adjust_Done _ _ _ _ _ _ _ E) as (p0 & p1 & b1 & b2 & iv & Hs). cbv zeta in Hs.
      destruct Hs as (_ & _ & _ & Hg0 & _ & _ & _ & _ & Hu & _ & _ & _ & ->). simpl.
      destruct (end_after _ _ _ _ _ _ Hu) as (Hend & _).
      destruct (Z.eq_dec pid' pid) as [->|Hne].
      * rewrite Hg in Hg0. inversion Hg0; subst p0. eexists. rewrite get_set_same. split; [reflexivity|]. simpl.
        apply in_queue_true. destruct (Z.eqb_spec ((if p_start p <=? height s then height s else p_start p) + iv) (p_end p1)) as [He|He].
        -- rewrite He, Hend. exact Hq.
        -- apply in_enqueue. right. reflexivity.
      * exists p. rewrite get_set_other by congruence. split; [exact Hg|]. apply in_queue_true.
        destruct (_ =? p_end p1); [exact Hq|]. apply in_enqueue. left. apply in_dequeue. split; [exact Hq|congruence].
    + destruct (destroy_Done _ _ _ _ _ E) as (p0 & Hg0 & _ & _ & _ & Hr & _).
      destruct (Z.eq_dec pid' pid) as [->|Hne].
      * exfalso. unfold refund_at in HR. cbn [refund_event] in HR. rewrite Z.eqb_refl in HR.
        assert (exec_msg s (Destroy who pid) = Done s' rw) as E' by exact E.
        rewrite (exec_ok_code _ _ _ _ E') in HR. discriminate.
      * rewrite (refund_get_other _ _ _ _ _ _ Hne Hr). exists p. split; [exact Hg|]. apply in_queue_true.
        destruct (refund_cases _ _ _ _ _ Hr) as [(p1 & b1 & _ & _ & ->)|(p1 & b1 & b' & _ & -> & _)]; simpl;
          apply in_dequeue; (split; [exact Hq|congruence]).
    + destruct (update_params_Done _ _ _ _ _ _ E) as (_ & _ & _ & _ & ->). simpl.
      exists p. split; [exact Hg|apply in_queue_true; exact Hq].
  - cbn [fst]. simpl. unfold refund_at in HR. cbn [refund_event] in HR. change (o_queue (obs_before s)) with (queue s) in HR.
    assert (~ In pid (due s)) as Hni.
    { intros Hin. apply in_due in Hin. apply in_queue_true in Hin. congruence. }
    exists p. unfold end_block. rewrite fold_other by exact Hni. split; [exact Hg|]. apply in_queue_true.
    destruct (end_block_fold (due s) s I (NoDup_due _ (i_qnd _ I)) (fun x H => proj1 (in_due s x) H)) as (_ & _ & Hq').
    apply Hq'. split; [exact Hq|]. simpl. intros [_ Hx]. contradiction.
Qed.

(** exactly one: a queued pool has had its one refund event iff it has left the queue *)
Lemma refund_exactly_once_hist steps : forall s pid,
  inv s -> Forall valid_step steps -> queued s pid ->
  (refund_count s steps pid = 0 /\ queued (run s steps) pid)
  \/ (refund_count s steps pid = 1 /\ unqueued (run s steps) pid).
Proof.
  induction steps as [|st steps IH]; simpl; intros s pid I Hv Hq; [left; auto|].
  inversion Hv; subst. pose proof (step_inv _ _ I H1) as I'.
  destruct (refund_at s st pid) eqn:ER.
  - right. destruct (refund_at_effect s st pid I H1 ER) as [(p & Hg & _) Hun].
    destruct (pool_step_lemma s st pid p Ok [] I H1 Hg) as (pb & Hgb & _). cbv zeta in Hgb. fold (step_state s st) in Hgb.
    rewrite (refund_count_unqueued steps _ pid pb I' H2 Hgb Hun). split; [reflexivity|].
    destruct (refunded_forever steps _ pid pb I' H2 Hgb Hun) as [_ Hu]. exact Hu.
  - destruct (IH _ pid I' H2 (queued_persists s st pid I H1 Hq ER)) as [[Hc Hqq]|[Hc Hu]]; [left|right]; split; try assumption; lia.
Qed.

(** ** exported for the queues group (Queues/ProofsFarm.v assumes these two facts about amounts) *)
(** the duration AdjustPool computes (availableHeight, the minimum of the quotients) is never negative *)
Lemma adjust_duration_nonneg s who pid add rpb s' rw :
  inv s -> adjust s who pid add rpb = Done s' rw ->
  exists p p1 b1 iv,
    let started := p_start p <=? height s in
    let start_h := if started then height s else p_start p in
    get pid (pools s) = Some p /\ update_pool (height s) (bank s) p 0 false = (p1, b1, true)
    /\ min_interval (map (fun r => (adj_avail started (p_end p1 - start_h) add r, r_pb (adj_pb rpb r)))
                         (map (adj_topup add) (p_rules p1))) = Some iv
    /\ 0 <= iv
    /\ exists p', get pid (pools s') = Some p' /\ p_end p' = start_h + iv.
Proof.
  intros I H. destruct (adjust_Done _ _ _ _ _ _ _ H) as (p & p1 & b1 & b2 & iv & Hs). cbv zeta in Hs.
  destruct Hs as (Hsa & Hadd & Hrpb & Hg & _ & -> & Hex & Hsub & Hu & Hsend & Hmin & _ & ->).
  exists p, p1, b1, iv. cbv zeta. split; [exact Hg|]. split; [exact Hu|]. split; [exact Hmin|].
  split; [|eexists; simpl; rewrite get_set_same; split; reflexivity].
  pose proof (get_pool_inv _ _ _ I Hg) as PI. pose proof (not_expired_in_queue _ _ _ I Hg Hex) as Hq.
  destruct (i_sched _ I _ _ Hg Hq) as [Hhe Hcov0].
  destruct (end_after _ _ _ _ _ _ Hu) as (Hend & Hfs & Hlpt & Hlk & Hst & Hla & Hcr & _ & Hden).
  destruct (update_pool_true _ _ _ _ _ _ _ Hu) as (Hlast & _ & _ & _ & Hb1).
  pose proof (rules_ok_after _ _ _ _ _ _ PI Hu) as Hok1.
  pose proof (covered_after _ _ _ _ _ _ (p_farmers p1) PI Hu Hcov0) as Hcov1. unfold covered in Hcov1. simpl in Hcov1.
  rewrite Hend, Hst, Hla in Hcov1.
  set (started := p_start p <=? height s) in *.
  set (start_h := if started then height s else p_start p) in *.
  set (e := start_h + iv) in *.
  (* per rule: the new reward per block covers the schedule up to the new end height *)
  assert (forall r, In r (p_rules p1) ->
            0 < r_pb (adj_pb rpb (adj_topup add r))
            /\ 0 <= adj_avail started (p_end p1 - start_h) add (adj_topup add r) <= r_rem r + amount_of add (r_denom r)) as Hper.
  { intros r Hin. rewrite Forall_forall in Hok1, Hcov1. destruct (Hok1 r Hin) as (Hrem & Hpb & _). specialize (Hcov1 r Hin).
    pose proof (amount_of_nonneg add (r_denom r) ltac:(eapply Forall_impl; [|exact Hadd]; simpl; intros; lia)) as Ha.
    pose proof (amount_of_nonneg rpb (r_denom r) ltac:(eapply Forall_impl; [|exact Hrpb]; simpl; intros; lia)) as Hr.
    split.
    - simpl. destruct (Z.ltb_spec 0 (amount_of rpb (r_denom r))); lia.
    - unfold adj_avail. simpl. rewrite Hend. unfold start_h, started in *. destruct (Z.leb_spec (p_start p) (height s)) as [Hs'|Hs'].
      + assert (Z.max (p_start p) (height s) = height s) as Hm by lia. rewrite Hm in Hcov1. nia.
      + assert (Forall (fun r => r_rem r = r_total r) (p_rules p1)) as Hfr.
        { destruct (update_pool_true _ _ _ _ _ _ _ Hu) as (_ & _ & _ & -> & _). simpl.
          destruct (upd_iv_cases _ _ Hlast) as [Hz|(_ & HL & _)].
          - rewrite Hz, collect1_zero. exact (pi_fresh _ _ PI Hs').
          - pose proof (pi_started _ _ PI HL). lia. }
        rewrite Forall_forall in Hfr. specialize (Hfr r Hin). lia. }
  eapply (min_interval_ge 0); [|exact Hmin]. rewrite !Forall_map. apply Forall_forall. intros r Hin. cbn [fst snd].
  destruct (Hper r Hin) as [Hpb [Ha _]]. apply Z.quot_pos; lia.
Qed.

(** the refund run by the end blocker (or DestroyPool) for a queued pool never fails in updatePool, in any state
    the end blocker passes through *)
Lemma end_blocker_update_never_fails s pid p :
  inv s -> get pid (pools s) = Some p -> in_queue (queue s) (p_end p, pid) = true ->
  exists p1 b1, update_pool (height s) (bank s) p 0 true = (p1, b1, true).
Proof. intros I Hg Hq. apply (update_succeeds s pid p (bank s) 0 true I Hg Hq). intros; lia. Qed.

Lemma end_blocker_states_inv l s :
  inv s -> NoDup l -> (forall pid, In pid l -> In (height s, pid) (queue s)) -> inv (fold_left end_block_one l s).
Proof. intros I Hnd Hd. exact (proj1 (end_block_fold l s I Hnd Hd)). Qed.

(** ** released and refunded amounts are never negative, so neither ever exceeds what was funded *)
Lemma released_in_nonneg s st pid d : inv s -> valid_step st -> 0 <= released_in s st pid d /\ 0 <= refunded_in s st pid d.
Proof.
  intros I Hv. unfold released_in, refunded_in.
  destruct (get pid (pools s)) as [pa|] eqn:Hg; [|split; [lia|destruct (refund_event _ _ _ _ _); lia]].
  destruct (pool_step_lemma s st pid pa Ok [] I Hv Hg) as (pb & Hgb & Hps). cbv zeta in Hgb, Hps.
  fold (step_state s st) in Hgb. rewrite Hgb. fold (obs_before s) in Hps. fold (obs_after s st) in Hps.
  pose proof (pi_rule _ _ (get_pool_inv _ _ _ I Hg)) as Hok.
  split.
  - apply rule_sum_nonneg. eapply Forall_impl; [|exact Hok]. intros r (_ & Hpb & _). unfold released.
    destruct (Z.ltb_spec (p_last pa) (p_last pb)); destruct (0 <? p_locked pa); simpl; nia.
  - destruct (refund_event (height s) (obs_before s) st (obs_after s st) pid); [|lia].
    apply rule_sum_nonneg. unfold pool_step in Hps. clear -Hps.
    remember (p_rules pa) as la. remember (p_rules pb) as lb. clear Heqla Heqlb.
    induction Hps as [|ra rb la lb (_ & _ & He & _) _ IH]; constructor; [lia|exact IH].
Qed.

Lemma so_far_nonneg steps : forall s pid d, inv s -> Forall valid_step steps ->
  0 <= released_so_far s steps pid d /\ 0 <= refunded_so_far s steps pid d.
Proof.
  induction steps as [|st steps IH]; simpl; intros s pid d I Hv; [lia|].
  inversion Hv; subst. destruct (released_in_nonneg s st pid d I H1). destruct (IH (step_state s st) pid d (step_inv _ _ I H1) H2). lia.
Qed.

Lemma released_le_funded b h steps pid d : genesis_ok b h -> Forall valid_step steps ->
  0 <= released_so_far (init b h) steps pid d <= funded (pools (run (init b h) steps)) pid d
  /\ 0 <= refunded_so_far (init b h) steps pid d <= funded (pools (run (init b h) steps)) pid d
  /\ 0 <= remaining (pools (run (init b h) steps)) pid d <= funded (pools (run (init b h) steps)) pid d.
Proof.
  intros G Hv. pose proof (inv_init b h G) as I0.
  pose proof (budget_identity_lemma steps (init b h) pid d I0 Hv) as Hid.
  destruct (so_far_nonneg steps (init b h) pid d I0 Hv) as [H1 H2].
  assert (0 <= remaining (pools (run (init b h) steps)) pid d) as H3.
  { unfold remaining. destruct (get pid (pools (run (init b h) steps))) as [p|] eqn:Hg; [|lia].
    exact (rem_sum_nonneg _ _ d (get_pool_inv _ _ _ (run_inv steps _ I0 Hv) Hg)). }
  unfold funded at 2, remaining at 2 in Hid. simpl in Hid. lia.
Qed.
