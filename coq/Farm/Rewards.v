(** * Farm: lemmas behind C06 (release, end height, refund, pro-rata payout) *)
From Irismod Require Export Farm.Proofs.

(** ** release: per block times blocks, only while someone is staked *)
Definition release_iv (h : Z) (p : pool) : Z :=
  if (p_last p <? h) && (0 <? p_locked p) then h - p_last p else 0.

Lemma release_lemma h b p amt dz p1 b1 :
  update_pool h b p amt dz = (p1, b1, true) ->
  map (fun r => (r_denom r, r_total r, r_pb r)) (p_rules p1) = map (fun r => (r_denom r, r_total r, r_pb r)) (p_rules p)
  /\ map r_rem (p_rules p1) = map (fun r => r_rem r - r_pb r * release_iv h p) (p_rules p)
  /\ Forall (fun r => r_pb r * release_iv h p <= r_rem r \/ release_iv h p = 0) (p_rules p)
  /\ (forall d, bal b1 COLL d - bal b COLL d = rule_sum (fun r => r_pb r * release_iv h p) (p_rules p) d)
  /\ (forall d, bal b1 FARM d - bal b FARM d = - rule_sum (fun r => r_pb r * release_iv h p) (p_rules p) d)
  /\ (forall a d, a <> FARM -> a <> COLL -> bal b1 a d = bal b a d)
  /\ p_last p1 = h /\ p_locked p1 = p_locked p + amt.
Proof.
  intros Hu. change (release_iv h p) with (upd_iv h p).
  destruct (update_pool_true _ _ _ _ _ _ _ Hu) as (Hlast & _ & Hcov & -> & Hb). simpl.
  split; [rewrite map_map; reflexivity|]. split; [rewrite map_map; reflexivity|]. split.
  { destruct (upd_iv_cases h p Hlast) as [Hz|(Hpos & _ & _)].
    - apply Forall_forall. intros r _. right. exact Hz.
    - eapply Forall_impl; [|exact (Hcov Hpos)]. simpl. intros r H. left. exact H. }
  split; [intros d; rewrite Hb, (moved_many_to FARM COLL) by discriminate; rewrite csum_collected; lia|].
  split; [intros d; rewrite Hb, (moved_many_from FARM COLL) by discriminate; rewrite csum_collected; lia|].
  split; [intros a d H1 H2; rewrite Hb, (moved_many_other a FARM COLL) by assumption; lia|].
  split; reflexivity.
Qed.

(** the per-share value grows by the released amount divided by the total stake, truncated at 18 digits *)
Lemma per_share_lemma h b p amt dz p1 b1 :
  update_pool h b p amt dz = (p1, b1, true) -> 0 < release_iv h p -> Forall (fun r => 0 <= r_pb r) (p_rules p) ->
  Forall2 (fun r r1 => let c := r_pb r * release_iv h p in
                       r_rps r <= r_rps r1 /\ p_locked p * (r_rps r1 - r_rps r) <= c * P18 < p_locked p * (r_rps r1 - r_rps r) + p_locked p)
          (p_rules p) (p_rules p1).
Proof.
  intros Hu Hpos Hpb. change (release_iv h p) with (upd_iv h p) in *.
  destruct (update_pool_true _ _ _ _ _ _ _ Hu) as (Hlast & _ & _ & -> & _). simpl.
  destruct (upd_iv_cases h p Hlast) as [Hz|(_ & HL & _)]; [lia|]. clear Hu.
  induction Hpb as [|r rs Hr Hrs IH]; simpl; constructor; [|exact IH].
  cbv zeta. destruct (dq_bounds (upd_iv h p) (p_locked p) r HL ltac:(nia)) as [H0 H1].
  unfold collect1. simpl. fold (dq (upd_iv h p) (p_locked p) r).
  replace (r_rps r + dq (upd_iv h p) (p_locked p) r - r_rps r) with (dq (upd_iv h p) (p_locked p) r) by lia. lia.
Qed.

(** ** end height *)
Lemma create_end_height_lemma s who lpt start editable rules s' rw :
  create_pool s who lpt start editable rules = Done s' rw ->
  exists iv p', min_interval (map (fun '(_, t, pb) => (t, pb)) rules) = Some iv
    /\ get (seq s + 1) (pools s') = Some p' /\ p_start p' = start /\ p_end p' = start + iv
    /\ Forall (fun '(_, t, pb) => pb * iv <= t) rules
    /\ Exists (fun '(_, t, pb) => t < pb * (iv + 1)) rules.
Proof.
  intros H. destruct (create_Done _ _ _ _ _ _ _ _ H) as (b1 & b2 & iv & _ & Hrules & Hne & _ & _ & _ & Hmin & _ & ->).
  exists iv. eexists. split; [exact Hmin|]. simpl. rewrite get_set_same. split; [reflexivity|]. split; [reflexivity|]. split; [reflexivity|].
  split.
  - destruct (min_interval_Some _ _ Hmin) as [_ Hall]. rewrite Forall_map in Hall.
    rewrite Forall_forall in Hall, Hrules. apply Forall_forall. intros [[d t] pb] Hin. specialize (Hall _ Hin). specialize (Hrules _ Hin).
    simpl in *. apply quot_mul_le; lia.
  - clear H. revert iv Hmin. induction rules as [|[[d t] pb] rules IH]; [congruence|]. intros iv Hmin.
    inversion Hrules as [|? ? Hb Hrules']; subst. simpl in Hmin.
    assert (t < pb * (Z.quot t pb + 1)) as Hthis.
    { rewrite Z.quot_div_nonneg by lia. pose proof (Z.div_mod t pb ltac:(lia)). pose proof (Z.mod_pos_bound t pb ltac:(lia)). nia. }
    destruct (min_interval (map (fun '(_, t0, pb0) => (t0, pb0)) rules)) as [j|] eqn:E.
    + inversion Hmin; subst. destruct (Z.min_spec (Z.quot t pb) j) as [[Hlt ->]|[Hge ->]].
      * left. exact Hthis.
      * right. apply IH; [exact Hrules'| |reflexivity]. destruct rules; [discriminate|discriminate].
    + inversion Hmin; subst. left. exact Hthis.
Qed.

Lemma schedule_covered_lemma s pid p :
  reachable s -> get pid (pools s) = Some p -> in_queue (queue s) (p_end p, pid) = true ->
  height s <= p_end p
  /\ Forall (fun r => r_pb r * (p_end p - Z.max (p_start p) (p_last p)) <= r_rem r) (p_rules p).
Proof. intros R Hg Hq. exact (i_sched _ (reachable_inv _ R) _ _ Hg Hq). Qed.

Lemma budget_never_short_lemma s pid p amt dz :
  reachable s -> get pid (pools s) = Some p -> expired s pid p = false ->
  exists p1 b1, update_pool (height s) (bank s) p amt dz = (p1, b1, true).
Proof.
  intros R Hg Hex. pose proof (reachable_inv _ R) as I.
  apply (update_succeeds s pid p (bank s) amt dz I Hg (not_expired_in_queue _ _ _ I Hg Hex)). intros; lia.
Qed.

Lemma rem_nonneg_lemma s pid p :
  reachable s -> get pid (pools s) = Some p -> Forall (fun r => 0 <= r_rem r /\ 0 < r_pb r) (p_rules p).
Proof.
  intros R Hg. eapply Forall_impl; [|exact (pi_rule _ _ (get_pool_inv _ _ _ (reachable_inv _ R) Hg))].
  intros r (H1 & H2 & _). auto.
Qed.

(** ** pro-rata payout: one farmer and one rule, as a list of events *)
Inductive fev := Accrue (dr : Z) | Act (delta : Z).

Record fstate := mkFS { a_rps : Z; a_l : Z; a_D : Z; a_paid : Z; a_fair : Z; a_n : Z }.

(** [Accrue dr]: the per-share value grows by [dr] (an update of the pool); the farmer's exact share, scaled
    by 10^18, grows by [dr * stake].  [Act delta]: stake / harvest / unstake by this farmer: he is paid
    [pay_of], his debt becomes [new_debt], his stake changes by [delta]. *)
Definition fstep (x : fstate) (e : fev) : fstate :=
  match e with
  | Accrue dr => mkFS (a_rps x + dr) (a_l x) (a_D x) (a_paid x) (a_fair x + dr * a_l x) (a_n x)
  | Act delta => mkFS (a_rps x) (a_l x + delta) (new_debt (a_rps x) (a_l x) (a_D x) delta)
                      (a_paid x + pay_of (a_rps x) (a_l x) (a_D x)) (a_fair x) (a_n x + 1)
  end.

Fixpoint fvalid (l : Z) (es : list fev) : Prop :=
  match es with
  | [] => True
  | Accrue dr :: es' => 0 <= dr /\ fvalid l es'
  | Act delta :: es' => 0 <= l + delta /\ fvalid (l + delta) es'
  end.

Definition fowed (x : fstate) : Z := a_rps x * a_l x - a_D x * P18.

Record finv (x : fstate) : Prop := mkFI {
  fi_rps : 0 <= a_rps x; fi_l : 0 <= a_l x; fi_D : 0 <= a_D x; fi_n : 0 <= a_n x;
  fi_lo : 0 <= a_fair x - a_paid x * P18 - fowed x;
  fi_hi : a_fair x - a_paid x * P18 - fowed x <= a_n x * (P18 - 1);
  fi_never_over : a_paid x * P18 <= a_fair x
}.

Lemma new_debt_nonneg rps l D delta : 0 <= rps -> 0 <= l -> 0 <= D -> 0 <= l + delta -> 0 <= new_debt rps l D delta.
Proof.
  intros Hr Hl HD Hld. destruct (Z.ltb_spec delta 0) as [Hneg|Hpos].
  - replace delta with (- - delta) by lia. apply new_debt_unstake_nonneg; lia.
  - pose proof (debt_delta_ge rps delta Hr) as Hge. unfold new_debt, debt_paid, pays.
    assert (0 <= debt_delta rps delta) by (pose proof P18_pos; nia).
    pose proof (acc_total_mono rps 0 l Hr ltac:(lia)) as [_ Hm].
    assert (acc_total rps 0 = 0) as E0 by (unfold acc_total, dec_mul_int; rewrite Z.mul_0_r; reflexivity).
    destruct ((0 <? l) && (D <? acc_total rps l)); lia.
Qed.

Lemma fstep_inv x e : finv x -> fvalid (a_l x) [e] -> finv (fstep x e).
Proof.
  intros [Hr Hl HD Hn Hlo Hhi Hov] Hv. destruct e as [dr|delta]; simpl in Hv; destruct Hv as [Hv _].
  - unfold fowed in *. assert (0 <= dr * a_l x) by nia. constructor; unfold fowed; cbn [fstep a_rps a_l a_D a_paid a_fair a_n]; try lia; rewrite ?Z.mul_add_distr_r; lia.
  - pose proof (owed_step_exact (a_rps x) (a_l x) (a_D x) delta Hr Hl) as Hex.
    pose proof (debt_delta_ge (a_rps x) delta Hr) as Hge. pose proof (debt_delta_lt (a_rps x) delta Hr) as Hlt.
    pose proof (owed_step (a_rps x) (a_l x) (a_D x) delta Hr Hl) as Hst.
    pose proof (pay_of_nonneg (a_rps x) (a_l x) (a_D x)) as Hpay.
    unfold fowed in *. constructor; unfold fowed; cbn [fstep a_rps a_l a_D a_paid a_fair a_n]; try lia.
    + apply new_debt_nonneg; assumption.
Qed.

Lemma frun_inv es : forall x, finv x -> fvalid (a_l x) es -> finv (fold_left fstep es x).
Proof.
  induction es as [|e es IH]; simpl; intros x I Hv; [exact I|].
  apply IH.
  - apply fstep_inv; [exact I|]. destruct e; simpl in *; tauto.
  - destruct e; simpl in *; tauto.
Qed.

Definition fzero : fstate := mkFS 0 0 0 0 0 0.

Lemma finv_zero : finv fzero.
Proof. constructor; unfold fowed; simpl; lia. Qed.

(** over any history of one farmer: never paid more than the exact share; and once the stake is fully
    withdrawn, paid less than one unit per interaction below it *)
Lemma payout_lemma es :
  fvalid 0 es ->
  let x := fold_left fstep es fzero in
  a_paid x * P18 <= a_fair x
  /\ (a_l x = 0 -> a_fair x - a_paid x * P18 <= a_n x * (P18 - 1)).
Proof.
  intros Hv x. pose proof (frun_inv es fzero finv_zero Hv) as [Hr Hl HD Hn Hlo Hhi Hov]. fold x in Hr, Hl, HD, Hn, Hlo, Hhi, Hov.
  split; [exact Hov|]. intros Hz. unfold fowed in *. rewrite Hz in *. pose proof P18_pos. nia.
Qed.

(** the model's CaclRewards IS the [Act] event, rule by rule: position [i] of the result is [pay_of] / [new_debt]
    of rule [i] and debt [i] (a missing debt counts as 0) *)
Lemma nth_tl (ds : list Z) i : nth i (tl ds) 0 = nth (S i) ds 0.
Proof. destruct ds; simpl; [destruct i; reflexivity|reflexivity]. Qed.

Lemma cacl_is_act rs : forall l ds delta rw db i r0,
  cacl rs l ds delta = Some (rw, db) -> (i < length rs)%nat ->
  let r := nth i rs r0 in
  nth i rw (0, 0) = (r_denom r, pay_of (r_rps r) l (nth i ds 0))
  /\ nth i db 0 = new_debt (r_rps r) l (nth i ds 0) delta.
Proof.
  induction rs as [|r rs IH]; simpl; intros l ds delta rw db i r0; [intros _ Hi; inversion Hi|].
  destruct (new_debt _ _ _ _ <? 0); [discriminate|].
  destruct (cacl rs l _ delta) as [[rw' db']|] eqn:E; [|discriminate].
  intros H Hi; inversion H; subst. destruct i as [|i]; simpl.
  - destruct ds; simpl; auto.
  - destruct (IH _ _ _ _ _ i r0 E ltac:(lia)) as [H1 H2]. fold (tl ds) in H1, H2. rewrite nth_tl in H1, H2. auto.
Qed.

(** two histories of a farmer with the same exact share (e.g. differing only in extra harvests), both ending
    fully withdrawn, pay amounts that differ by less than the number of interactions *)
Lemma harvest_frequency_lemma es1 es2 :
  fvalid 0 es1 -> fvalid 0 es2 ->
  let x1 := fold_left fstep es1 fzero in
  let x2 := fold_left fstep es2 fzero in
  a_l x1 = 0 -> a_l x2 = 0 -> a_fair x1 = a_fair x2 ->
  - (a_n x1 * (P18 - 1)) <= (a_paid x1 - a_paid x2) * P18 <= a_n x2 * (P18 - 1).
Proof.
  intros H1 H2 x1 x2 Hz1 Hz2 Hf. destruct (payout_lemma es1 H1) as [Ha1 Hb1]. destruct (payout_lemma es2 H2) as [Ha2 Hb2].
  fold x1 in Ha1, Hb1. fold x2 in Ha2, Hb2. specialize (Hb1 Hz1). specialize (Hb2 Hz2). lia.
Qed.
