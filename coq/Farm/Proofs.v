(** * Farm: the theorems behind C05 and C06 *)
From Irismod Require Export Farm.Pres2.

(** ** every reachable state satisfies the invariant *)
Definition genesis_ok (b : ledger) (h : Z) : Prop :=
  0 <= h /\ forall d, bal b FARM d = 0 /\ 0 <= bal b COLL d.

Lemma inv_init b h : genesis_ok b h -> inv (init b h).
Proof.
  intros [Hh Hb]. constructor; simpl.
  - constructor.
  - constructor.
  - intros d. destruct (Hb d) as [-> _]. reflexivity.
  - intros d. destruct (Hb d) as [_ Hc]. unfold owed, asum. simpl. pose proof P18_pos. nia.
  - intros pid p Hg. discriminate.
  - intros pid p Hg. discriminate.
  - intros e pid Hin. discriminate.
  - constructor.
  - exact Hh.
  - lia.
  - constructor.
Qed.

(** a parameter change: by the authority, valid parameters, nothing else changes *)
Lemma update_params_Done s who cf tr s' rw : update_params s who cf tr = Done s' rw ->
  who = AUTH /\ 0 <= cf < 2 ^ 255 /\ 0 < tr < P18 /\ rw = []
  /\ s' = mkSt (height s) (pools s) (queue s) (seq s) (bank s) cf tr.
Proof.
  unfold update_params. destruct (Z.eqb_spec who AUTH) as [->|]; cbn [negb]; [|discriminate].
  destruct (Z.ltb_spec cf 0); cbn [orb]; [discriminate|].
  destruct (Z.leb_spec (2 ^ 255) cf); cbn [orb]; [discriminate|].
  destruct (Z.leb_spec tr 0); cbn [orb]; [discriminate|].
  destruct (Z.leb_spec P18 tr); [discriminate|]. intros HD. inversion HD; subst. repeat split; lia.
Qed.

Lemma inv_params s cf tr : inv s -> inv (mkSt (height s) (pools s) (queue s) (seq s) (bank s) cf tr).
Proof. intros I. destruct I. constructor; simpl; assumption. Qed.

Lemma step_inv s st : inv s -> valid_step st -> inv (step_state s st).
Proof.
  intros I Hv. destruct st as [m|]; [|exact (next_block_inv s I)].
  unfold step_state, exec_step. destruct (exec_msg s m) as [s' rw|o] eqn:E; simpl; [|exact I].
  destruct m; simpl in *.
  - exact (create_inv _ _ _ _ _ _ _ _ I Hv E).
  - exact (stake_inv _ _ _ _ _ _ _ I Hv E).
  - exact (unstake_inv _ _ _ _ _ _ _ I Hv E).
  - exact (harvest_inv _ _ _ _ _ I Hv E).
  - exact (adjust_inv _ _ _ _ _ _ _ I Hv E).
  - exact (destroy_inv _ _ _ _ _ I E).
  - destruct (update_params_Done _ _ _ _ _ _ E) as (_ & _ & _ & _ & ->). exact (inv_params s cf tr I).
Qed.

Lemma run_inv steps : forall s, inv s -> Forall valid_step steps -> inv (run s steps).
Proof.
  induction steps as [|st steps IH]; simpl; intros s I Hv; [exact I|].
  inversion Hv; subst. apply IH; [apply step_inv; assumption|assumption].
Qed.

Definition reachable (s : state) : Prop :=
  exists b h steps, genesis_ok b h /\ Forall valid_step steps /\ s = run (init b h) steps.

Lemma reachable_inv s : reachable s -> inv s.
Proof. intros (b & h & steps & Hg & Hv & ->). apply run_inv; [apply inv_init; exact Hg|exact Hv]. Qed.

(** ** C05 *)
Lemma stakes_sum_lemma s pid p : reachable s -> get pid (pools s) = Some p -> sum_locked p = p_locked p.
Proof. intros R Hg. exact (pi_sum _ _ (get_pool_inv _ _ _ (reachable_inv _ R) Hg)). Qed.

Lemma escrow_lemma s d : reachable s -> bal (bank s) FARM d = escrow_expected (pools s) d.
Proof. intros R. exact (i_escrow _ (reachable_inv _ R) d). Qed.

Lemma collector_lemma s d : reachable s -> owed (pools s) d <= bal (bank s) COLL d * P18.
Proof. intros R. exact (i_solv _ (reachable_inv _ R) d). Qed.

(** what one farmer can be paid now is within the collector's balance *)
Lemma owed_p_nonneg d p : 0 <= owed_p d p.
Proof.
  unfold owed_p. apply asum_nonneg. apply Forall_forall. intros kv _. apply owed_f_nonneg.
Qed.

Lemma owed_f_le_owed s pid p who fi d : inv s -> get pid (pools s) = Some p -> get who (p_farmers p) = Some fi ->
  owed_f (p_rules p) d fi <= owed_p d p /\ owed_p d p <= owed (pools s) d.
Proof.
  intros I Hg Hf. split.
  - unfold owed_p. apply (asum_get_le _ who); [|exact Hf]. apply Forall_forall. intros kv _. apply owed_f_nonneg.
  - unfold owed. apply (asum_get_le _ pid); [|exact Hg]. apply Forall_forall. intros kv _. apply owed_p_nonneg.
Qed.

(** CaclRewards does not abort on a withdrawal within the stake *)
Lemma acc_total_mono rps x l : 0 <= rps -> 0 <= x <= l -> 0 <= acc_total rps x <= acc_total rps l.
Proof.
  intros Hr Hx. unfold acc_total, dec_mul_int. rewrite !trunc_nonneg by nia. split.
  - apply Z.div_pos; [nia|exact P18_pos].
  - apply Z.div_le_mono; [exact P18_pos|nia].
Qed.

Lemma new_debt_unstake_nonneg rps l D x : 0 <= rps -> 0 <= x <= l -> 0 <= D -> 0 <= new_debt rps l D (- x).
Proof.
  intros Hr Hx HD. pose proof (acc_total_mono rps x l Hr Hx) as Hm.
  assert (debt_delta rps (- x) = - acc_total rps x) as Hdd.
  { unfold debt_delta. destruct (Z.ltb_spec (- x) 0).
    - rewrite Z.opp_involutive. reflexivity.
    - assert (x = 0) as -> by lia. unfold acc_total, dec_mul_int. simpl. rewrite Z.mul_0_r. reflexivity. }
  unfold new_debt. rewrite Hdd. unfold debt_paid, pays.
  destruct (Z.ltb_spec 0 l); simpl; [destruct (Z.ltb_spec D (acc_total rps l)); lia|].
  assert (x = 0) as Hx0 by lia. rewrite Hx0 in *.
  assert (acc_total rps 0 = 0) by (unfold acc_total, dec_mul_int; rewrite Z.mul_0_r; reflexivity). lia.
Qed.

Lemma cacl_unstake_ok rs : forall l ds x, Forall rule_ok rs -> 0 <= x <= l -> Forall (fun d => 0 <= d) ds ->
  exists rw db, cacl rs l ds (- x) = Some (rw, db).
Proof.
  induction rs as [|r rs IH]; simpl; intros l ds x Hok Hx Hds; [eexists; eexists; reflexivity|].
  inversion Hok as [|? ? (_ & _ & Hr) Hok']; subst.
  assert (0 <= hd 0 ds) as Hd by (destruct ds; simpl; [lia|inversion Hds; assumption]).
  assert (Forall (fun d => 0 <= d) (tl ds)) as Hds' by (destruct ds; simpl; [constructor|inversion Hds; assumption]).
  pose proof (new_debt_unstake_nonneg (r_rps r) l (hd 0 ds) x Hr Hx Hd) as Hnd. unfold hd, tl in *.
  destruct (Z.ltb_spec (new_debt (r_rps r) l match ds with [] => 0 | d :: _ => d end (- x)) 0); [lia|].
  destruct (IH l _ x Hok' Hx Hds') as (rw & db & ->). eexists; eexists; reflexivity.
Qed.

Lemma unstake_never_fails_inv s who pid p fi amt :
  inv s -> actor who ->
  get pid (pools s) = Some p -> get who (p_farmers p) = Some fi -> 0 <= amt <= f_locked fi ->
  exists s' rw, unstake s who pid (p_lpt p) amt = Done s' rw.
Proof.
  intros I (HwF & HwC & _) Hg Hf Hamt. pose proof (get_pool_inv _ _ _ I Hg) as PI.
  destruct (farmer_ok _ _ _ _ PI Hf) as [Hl Hdebts].
  assert (0 < pid) as Hpid.
  { pose proof (i_ids _ I) as Hids. rewrite Forall_forall in Hids. apply (Hids pid). eapply get_Some_in_keys; exact Hg. }
  assert (f_locked fi <= p_locked p) as Hle.
  { rewrite <- (pi_sum _ _ PI), sum_locked_eq. apply (asum_get_le _ who); [|exact Hf].
    pose proof (pi_farmers _ _ PI) as Hfs. unfold vals in Hfs. rewrite Forall_map in Hfs.
    eapply Forall_impl; [|exact Hfs]. simpl. intros kv [H _]. exact H. }
  unfold unstake. destruct (Z.leb_spec pid 0); [lia|]. destruct (Z.ltb_spec amt 0); [lia|].
  rewrite Hg. rewrite Z.eqb_refl. simpl. unfold get_finfo. unfold acct in *. rewrite Hf.
  destruct (Z.ltb_spec (f_locked fi) amt); [lia|]. destruct (Z.ltb_spec (p_locked p) amt); [lia|].
  (* the update step and what the accounts hold after it *)
  assert (exists p1 b1,
            (if expired s pid p then (with_locked p (p_locked p - amt), bank s, true)
             else update_pool (height s) (bank s) p (- amt) false) = (p1, b1, true)
            /\ p_farmers p1 = p_farmers p /\ Forall rule_ok (p_rules p1)
            /\ (forall d, bal b1 FARM d - bal (bank s) FARM d = rule_sum r_rem (p_rules p1) d + (if p_lpt p =? d then p_locked p else 0) - pool_contrib p d)
            /\ (forall d, owed_p d (with_farmers p1 (p_farmers p)) - owed_p d p <= (bal b1 COLL d - bal (bank s) COLL d) * P18)
            /\ (forall d, 0 <= rule_sum r_rem (p_rules p1) d)) as (p1 & b1 & -> & Hfs & Hok1 & HbF & HbC & Hrem1).
  { destruct (expired s pid p) eqn:Hex.
    - exists (with_locked p (p_locked p - amt)), (bank s). simpl. split; [reflexivity|]. split; [reflexivity|].
      split; [exact (pi_rule _ _ PI)|]. split; [intros d; rewrite pool_contrib_eq; lia|]. split.
      + intros d. assert (owed_p d (with_farmers (with_locked p (p_locked p - amt)) (p_farmers p)) = owed_p d p) as -> by reflexivity. lia.
      + intros d. exact (rem_sum_nonneg _ _ d PI).
    - pose proof (not_expired_in_queue _ _ _ I Hg Hex) as Hq.
      destruct (update_succeeds s pid p (bank s) (- amt) false I Hg Hq ltac:(intros; lia)) as (p1 & b1 & Hu).
      exists p1, b1. split; [exact Hu|]. destruct (end_after _ _ _ _ _ _ Hu) as (_ & Hfs & _).
      split; [exact Hfs|]. split; [exact (rules_ok_after _ _ _ _ _ _ PI Hu)|].
      destruct (update_pool_true _ _ _ _ _ _ _ Hu) as (_ & _ & _ & Hp1 & Hb1). split; [|split].
      + intros d. rewrite Hb1. rewrite (moved_many_from FARM COLL) by discriminate. rewrite csum_collected.
        rewrite Hp1. simpl. rewrite rule_sum_rem_collect. rewrite pool_contrib_eq. lia.
      + intros d. rewrite Hb1. rewrite (moved_many_to FARM COLL) by discriminate. rewrite csum_collected.
        destruct (owed_p_after _ _ _ _ _ _ d PI Hu) as [Hop Hfs'].
        assert (owed_p d (with_farmers p1 (p_farmers p)) = owed_p d p1) as -> by (unfold owed_p; simpl; rewrite Hfs'; reflexivity). lia.
      + intros d. apply rule_sum_nonneg. eapply Forall_impl; [|exact (rules_ok_after _ _ _ _ _ _ PI Hu)]. intros r (H' & _). exact H'. }
  (* the principal *)
  destruct (send_ok b1 FARM who (p_lpt p) amt) as [b2 Hs1].
  { specialize (HbF (p_lpt p)). rewrite Z.eqb_refl in HbF. pose proof (farm_covers _ _ _ (p_lpt p) I Hg). specialize (Hrem1 (p_lpt p)). lia. }
  rewrite Hs1. destruct (send_bal _ _ _ _ _ _ Hs1) as [_ Hb2].
  (* the rewards *)
  destruct (cacl_unstake_ok (p_rules p1) (f_locked fi) (f_debt fi) amt Hok1 ltac:(lia) Hdebts) as (rw0 & db & Hc). rewrite Hc.
  destruct (send_many_ok (positive_coins rw0) b2 COLL who ltac:(congruence) (positive_coins_nonneg _)) as [b3 Hs2].
  { intros d. rewrite (csum_positive _ d (cacl_rw_nonneg _ _ _ _ _ _ Hc)). rewrite Hb2.
    rewrite (moved_other COLL FARM who) by (try discriminate; congruence).
    pose proof (cacl_owed _ _ _ _ _ _ d Hl Hok1 Hc) as Hco.
    pose proof (csum_nonneg _ d (owed_list_nonneg (p_rules p1) (f_locked fi + - amt) db)) as Hnn.
    assert (csum (owed_list (p_rules p1) (f_locked fi) (f_debt fi)) d <= owed_p d (with_farmers p1 (p_farmers p))) as Hf1.
    { unfold owed_p. simpl. apply (asum_get_le (owed_f (p_rules p1) d) who _ fi); [|exact Hf].
      apply Forall_forall. intros kv _. apply owed_f_nonneg. }
    destruct (owed_f_le_owed _ _ _ _ _ d I Hg Hf) as [_ Hpo]. pose proof (i_solv _ I d) as Hsolv. specialize (HbC d).
    pose proof P18_pos. nia. }
  rewrite Hs2. eexists; eexists; reflexivity.
Qed.

Lemma unstake_never_fails_lemma s who pid p fi amt :
  reachable s -> actor who ->
  get pid (pools s) = Some p -> get who (p_farmers p) = Some fi -> 0 < amt <= f_locked fi ->
  exists s' rw, unstake s who pid (p_lpt p) amt = Done s' rw.
Proof. intros R Ha Hg Hf Hamt. apply (unstake_never_fails_inv s who pid p fi amt (reachable_inv _ R) Ha Hg Hf). lia. Qed.

(** a successful unstake pays exactly the principal and the accrued rewards, and records the rest *)
Lemma unstake_returns_principal_lemma s who pid d amt s' rw :
  actor who -> unstake s who pid d amt = Done s' rw ->
  exists p fi, get pid (pools s) = Some p /\ get who (p_farmers p) = Some fi /\ d = p_lpt p /\ 0 <= amt <= f_locked fi
    /\ (forall d', bal (bank s') who d' = bal (bank s) who d' + (if d' =? d then amt else 0) + csum rw d')
    /\ (exists p' db, get pid (pools s') = Some p' /\ p_locked p' = p_locked p - amt
                      /\ p_farmers p' = if f_locked fi - amt =? 0 then del1 who (p_farmers p)
                                        else set who (mkF (f_locked fi - amt) db) (p_farmers p)).
Proof.
  intros (HwF & HwC & _) H. destruct (unstake_Done _ _ _ _ _ _ _ H) as (p & fi & p1 & b1 & b2 & rw0 & db & b3 & Hs).
  destruct Hs as (Hpid & Hamt & Hg & -> & Hfi & Hle1 & Hle2 & Hu & Hs1 & Hc & Hs2 & -> & ->).
  exists p, fi. unfold get_finfo in Hfi. split; [exact Hg|]. split; [exact Hfi|]. split; [reflexivity|]. split; [lia|].
  destruct (send_bal _ _ _ _ _ _ Hs1) as [_ Hb2]. destruct (send_many_bal _ _ _ _ _ Hs2) as [_ Hb3].
  assert (forall d', bal b1 who d' = bal (bank s) who d' /\ p_locked p1 = p_locked p - amt /\ p_farmers p1 = p_farmers p) as Hb1.
  { intros d'. unfold unstake_upd in Hu. destruct (expired s pid p).
    - inversion Hu; subst. simpl. auto.
    - destruct (update_pool_true _ _ _ _ _ _ _ Hu) as (_ & _ & _ & Hp1 & Hb1). rewrite Hb1.
      rewrite (moved_many_other who FARM COLL) by assumption. destruct (end_after _ _ _ _ _ _ Hu) as (_ & Hfs & _ & Hlk & _).
      split; [lia|]. split; [lia|exact Hfs]. }
  split.
  - intros d'. simpl. rewrite Hb3, Hb2. destruct (Hb1 d') as [-> _].
    rewrite (moved_many_to COLL who) by congruence. rewrite (moved_to FARM who) by congruence. lia.
  - simpl. rewrite get_set_same. eexists. exists db. split; [reflexivity|]. simpl. destruct (Hb1 0) as (_ & Hlk & Hfs).
    split; [exact Hlk|]. rewrite Hfs. reflexivity.
Qed.
