(** * Farm: the C06 step predicate of the checker ([c06_step], clauses 10-17) holds on every trace of the model *)
From Irismod Require Export Farm.History.

(** ** generic *)
Lemma In_get {V} k (v : V) (m : amap Z V) : NoDup (keys m) -> In (k, v) m -> get k m = Some v.
Proof.
  unfold keys. induction m as [|[k0 v0] m IH]; simpl; intros Hnd Hin; [contradiction|].
  inversion Hnd as [|? ? Hni Hnd']; subst. unfold eq_dec, EqDec_Z. destruct (Z.eq_dec k k0) as [->|Hne].
  - destruct Hin as [Heq|Hin]; [congruence|]. exfalso. apply Hni. apply in_map_iff. exists (k0, v). auto.
  - destruct Hin as [Heq|Hin]; [congruence|]. specialize (IH Hnd' Hin). unfold eq_dec, EqDec_Z in IH. exact IH.
Qed.

Lemma zsum_zero {A} (g : A -> Z) l : (forall x, In x l -> g x = 0) -> zsum (map g l) = 0.
Proof. induction l as [|x l IH]; simpl; intros H; [reflexivity|]. rewrite (H x), IH by auto. reflexivity. Qed.

(** a sum over the pools in which only the entry of [k] counts *)
Lemma zsum_one {V} (f : Z * V -> Z) k v (m : amap Z V) :
  NoDup (keys m) -> get k m = Some v -> (forall k' v', In (k', v') m -> k' <> k -> f (k', v') = 0) ->
  zsum (map f m) = f (k, v).
Proof.
  unfold keys. induction m as [|[k0 v0] m IH]; simpl; intros Hnd Hg Hz; [discriminate|].
  inversion Hnd as [|? ? Hni Hnd']; subst. unfold eq_dec, EqDec_Z in Hg. destruct (Z.eq_dec k k0) as [->|Hne].
  - inversion Hg; subst. assert (zsum (map f m) = 0) as ->; [|lia].
    apply zsum_zero. intros [k1 v1] Hin. apply Hz; [right; exact Hin|].
    intros ->. apply Hni. apply in_map_iff. exists (k0, v1). auto.
  - rewrite (Hz k0 v0) by (try (left; reflexivity); congruence). rewrite IH; [lia|exact Hnd'| |].
    + unfold eq_dec, EqDec_Z. exact Hg.
    + intros k' v' Hin. apply Hz. right. exact Hin.
Qed.

(** ** clause 10-14: every pool *)
Lemma pc_zero h a st b ps :
  (forall pid pa, In (pid, pa) ps -> c06_pool h a st b pid pa = 0) ->
  fold_left (fun code '(pid, pa) => if negb (code =? 0) then code else c06_pool h a st b pid pa) ps 0 = 0.
Proof.
  induction ps as [|[pid pa] ps IH]; simpl; intros H; [reflexivity|].
  rewrite (H pid pa (or_introl eq_refl)). apply IH. intros pid' pa' Hin. apply H. right. exact Hin.
Qed.

(** ** the sums of the checker over the pools when one pool (or none) changed *)
Lemma released_total_one a b pid pa pb d :
  NoDup (keys (o_pools a)) -> get pid (o_pools a) = Some pa -> get pid (o_pools b) = Some pb ->
  (forall k v, In (k, v) (o_pools a) -> k <> pid -> get k (o_pools b) = Some v) ->
  released_total a b d = rule_sum (released pa pb) (p_rules pa) d.
Proof.
  intros Hnd Hga Hgb Hoth. unfold released_total. rewrite (zsum_one _ pid pa _ Hnd Hga).
  - rewrite Hgb. reflexivity.
  - intros k v Hin Hne. rewrite (Hoth k v Hin Hne). apply zsum_zero. intros r _. rewrite released_same_last by reflexivity.
    destruct (r_denom r =? d); reflexivity.
Qed.

Lemma released_total_same a b d :
  (forall k v, In (k, v) (o_pools a) -> get k (o_pools b) = Some v) -> released_total a b d = 0.
Proof.
  intros H. unfold released_total. apply zsum_zero. intros [k v] Hin. rewrite (H k v Hin). apply zsum_zero. intros r _.
  rewrite released_same_last by reflexivity. destruct (r_denom r =? d); reflexivity.
Qed.

Lemma refund_to_none h a st b x d : (forall pid, refund_event h a st b pid = false) -> refund_to h a st b x d = 0.
Proof. intros H. unfold refund_to. apply zsum_zero. intros [pid pa] _. rewrite H. reflexivity. Qed.

Lemma refund_to_one h a st b x d pid pa pb :
  NoDup (keys (o_pools a)) -> get pid (o_pools a) = Some pa -> get pid (o_pools b) = Some pb ->
  (forall k, k <> pid -> refund_event h a st b k = false) -> refund_event h a st b pid = true ->
  refund_to h a st b x d = if p_creator pa =? x then rule_sum (fun ra => r_rem ra - released pa pb ra) (p_rules pa) d else 0.
Proof.
  intros Hnd Hga Hgb Hoth HR. unfold refund_to. rewrite (zsum_one _ pid pa _ Hnd Hga).
  - rewrite HR, Hgb. simpl. reflexivity.
  - intros k v _ Hne. rewrite (Hoth k Hne). reflexivity.
Qed.

(** ** what each successful message does to every balance *)
Lemma others_same pid p' (ps : amap Z pool) k v : NoDup (keys ps) -> In (k, v) ps -> k <> pid -> get k (set pid p' ps) = Some v.
Proof. intros Hnd Hin Hne. rewrite get_set_other by exact Hne. exact (In_get _ _ _ Hnd Hin). Qed.

Lemma rw_nodup s p p1 l ds delta rw0 db :
  pool_inv (height s) p -> map r_denom (p_rules p1) = map r_denom (p_rules p) ->
  cacl (p_rules p1) l ds delta = Some (rw0, db) -> NoDup (map fst (positive_coins rw0)).
Proof.
  intros PI Hden Hc. apply NoDup_fst_positive. destruct (cacl_Some _ _ _ _ _ _ Hc) as (_ & _ & Hmf). rewrite Hmf, Hden.
  exact (pi_denoms _ _ PI).
Qed.

Lemma rule_sum_released_upd h pa pb d : p_last pb = h ->
  rule_sum (released pa pb) (p_rules pa) d = rule_sum (fun r => r_pb r * upd_iv h pa) (p_rules pa) d.
Proof.
  intros E. unfold rule_sum. f_equal. apply map_ext. intros r. rewrite (released_upd h pa pb r E). reflexivity.
Qed.

Lemma stake_balances s who pid d0 amt s' rw : inv s -> actor who -> stake s who pid d0 amt = Done s' rw ->
  exists p pb, get pid (pools s) = Some p /\ get pid (pools s') = Some pb /\ p_last pb = height s
    /\ (forall k v, In (k, v) (pools s) -> k <> pid -> get k (pools s') = Some v)
    /\ NoDup (map fst rw)
    /\ (forall x d, x <> FARM -> x <> COLL ->
          bal (bank s') x d - bal (bank s) x d = if x =? who then csum rw d - (if d =? d0 then amt else 0) else 0)
    /\ (forall d, bal (bank s') COLL d - bal (bank s) COLL d
                  = rule_sum (fun r => r_pb r * upd_iv (height s) p) (p_rules p) d - csum rw d).
Proof.
  intros I (HwF & HwC & _) H. destruct (stake_Done _ _ _ _ _ _ _ H) as (p & b1 & p1 & b2 & rw0 & db & b3 & Hs).
  cbv zeta in Hs. destruct Hs as (_ & _ & Hg & _ & _ & -> & Hs1 & Hu & Hc & Hs2 & -> & ->).
  pose proof (get_pool_inv _ _ _ I Hg) as PI.
  destruct (end_after _ _ _ _ _ _ Hu) as (_ & _ & _ & _ & _ & Hla & _ & _ & Hden).
  destruct (send_bal _ _ _ _ _ _ Hs1) as [_ Hb1]. destruct (update_pool_true _ _ _ _ _ _ _ Hu) as (_ & _ & _ & _ & Hb2).
  destruct (send_many_bal _ _ _ _ _ Hs2) as [_ Hb3].
  eexists p, _. split; [exact Hg|]. split; [simpl; rewrite get_set_same; reflexivity|]. split; [exact Hla|].
  split; [intros k v Hin Hne; simpl; exact (others_same _ _ _ _ _ (i_nodup _ I) Hin Hne)|].
  split; [exact (rw_nodup _ _ _ _ _ _ _ _ PI Hden Hc)|]. split.
  - intros x d HxF HxC. simpl. rewrite Hb3, Hb2, Hb1. rewrite (moved_many_other x FARM COLL) by assumption.
    destruct (Z.eqb_spec x who) as [->|Hne].
    + rewrite (moved_many_to COLL who) by congruence. rewrite (moved_from who FARM) by exact HwF. destruct (d =? p_lpt p); lia.
    + rewrite (moved_many_other x COLL who) by assumption. rewrite (moved_other x who FARM) by assumption. lia.
  - intros d. simpl. rewrite Hb3, Hb2, Hb1. rewrite (moved_many_from COLL who) by congruence.
    rewrite (moved_many_to FARM COLL) by discriminate. rewrite (moved_other COLL who FARM) by (try discriminate; congruence).
    rewrite csum_collected. lia.
Qed.

Lemma harvest_balances s who pid s' rw : inv s -> actor who -> harvest s who pid = Done s' rw ->
  exists p pb, get pid (pools s) = Some p /\ get pid (pools s') = Some pb /\ p_last pb = height s
    /\ (forall k v, In (k, v) (pools s) -> k <> pid -> get k (pools s') = Some v)
    /\ NoDup (map fst rw)
    /\ (forall x d, x <> FARM -> x <> COLL ->
          bal (bank s') x d - bal (bank s) x d = if x =? who then csum rw d else 0)
    /\ (forall d, bal (bank s') COLL d - bal (bank s) COLL d
                  = rule_sum (fun r => r_pb r * upd_iv (height s) p) (p_rules p) d - csum rw d).
Proof.
  intros I (HwF & HwC & _) H. destruct (harvest_Done _ _ _ _ _ H) as (p & fi & p1 & b1 & rw0 & db & b2 & Hs).
  destruct Hs as (Hg & _ & _ & Hu & Hc & Hs2 & -> & ->).
  pose proof (get_pool_inv _ _ _ I Hg) as PI.
  destruct (end_after _ _ _ _ _ _ Hu) as (_ & _ & _ & _ & _ & Hla & _ & _ & Hden).
  destruct (update_pool_true _ _ _ _ _ _ _ Hu) as (_ & _ & _ & _ & Hb2).
  destruct (send_many_bal _ _ _ _ _ Hs2) as [_ Hb3].
  eexists p, _. split; [exact Hg|]. split; [simpl; rewrite get_set_same; reflexivity|]. split; [exact Hla|].
  split; [intros k v Hin Hne; simpl; exact (others_same _ _ _ _ _ (i_nodup _ I) Hin Hne)|].
  split; [exact (rw_nodup _ _ _ _ _ _ _ _ PI Hden Hc)|]. split.
  - intros x d HxF HxC. simpl. rewrite Hb3, Hb2. rewrite (moved_many_other x FARM COLL) by assumption.
    destruct (Z.eqb_spec x who) as [->|Hne].
    + rewrite (moved_many_to COLL who) by congruence. lia.
    + rewrite (moved_many_other x COLL who) by assumption. lia.
  - intros d. simpl. rewrite Hb3, Hb2. rewrite (moved_many_from COLL who) by congruence.
    rewrite (moved_many_to FARM COLL) by discriminate. rewrite csum_collected. lia.
Qed.

(** unstake: [rel] is what the update released (nothing when the pool has expired) *)
Lemma unstake_balances s who pid d0 amt s' rw : inv s -> actor who -> unstake s who pid d0 amt = Done s' rw ->
  exists p pb, get pid (pools s) = Some p /\ get pid (pools s') = Some pb
    /\ (forall d, rule_sum (released p pb) (p_rules p) d
                  = if expired s pid p then 0 else rule_sum (fun r => r_pb r * upd_iv (height s) p) (p_rules p) d)
    /\ (forall k v, In (k, v) (pools s) -> k <> pid -> get k (pools s') = Some v)
    /\ NoDup (map fst rw)
    /\ (forall x d, x <> FARM -> x <> COLL ->
          bal (bank s') x d - bal (bank s) x d = if x =? who then csum rw d + (if d =? d0 then amt else 0) else 0)
    /\ (forall d, bal (bank s') COLL d - bal (bank s) COLL d = rule_sum (released p pb) (p_rules p) d - csum rw d).
Proof.
  intros I (HwF & HwC & _) H. destruct (unstake_Done _ _ _ _ _ _ _ H) as (p & fi & p1 & b1 & b2 & rw0 & db & b3 & Hs).
  destruct Hs as (_ & _ & Hg & -> & _ & _ & _ & Hupd & Hs1 & Hc & Hs2 & -> & ->).
  pose proof (get_pool_inv _ _ _ I Hg) as PI.
  destruct (send_bal _ _ _ _ _ _ Hs1) as [_ Hb2]. destruct (send_many_bal _ _ _ _ _ Hs2) as [_ Hb3].
  set (fs := if f_locked fi - amt =? 0 then del1 who (p_farmers p1) else set who (mkF (f_locked fi - amt) db) (p_farmers p1)).
  assert (map r_denom (p_rules p1) = map r_denom (p_rules p)
          /\ (forall d, rule_sum (released p (with_farmers p1 fs)) (p_rules p) d
                        = if expired s pid p then 0 else rule_sum (fun r => r_pb r * upd_iv (height s) p) (p_rules p) d)
          /\ (forall x d, bal b1 x d = bal (bank s) x d + (if expired s pid p then 0 else moved_many x FARM COLL d (collected (upd_iv (height s) p) (p_rules p)))))
    as (Hden & Hrel & Hb1).
  { unfold unstake_upd in Hupd. destruct (expired s pid p).
    - inversion Hupd; subst. simpl. split; [reflexivity|]. split; [|intros; lia].
      intros d. unfold rule_sum. apply zsum_zero. intros r _. rewrite released_same_last by reflexivity. destruct (r_denom r =? d); reflexivity.
    - destruct (end_after _ _ _ _ _ _ Hupd) as (_ & _ & _ & _ & _ & Hla & _ & _ & Hden).
      destruct (update_pool_true _ _ _ _ _ _ _ Hupd) as (_ & _ & _ & _ & Hb1).
      split; [exact Hden|]. split; [intros d; apply rule_sum_released_upd; exact Hla|exact Hb1]. }
  eexists p, _. split; [exact Hg|]. split; [simpl; rewrite get_set_same; reflexivity|]. fold fs.
  split; [exact Hrel|].
  split; [intros k v Hin Hne; simpl; exact (others_same _ _ _ _ _ (i_nodup _ I) Hin Hne)|].
  split; [exact (rw_nodup _ _ _ _ _ _ _ _ PI Hden Hc)|]. split.
  - intros x d HxF HxC. simpl. rewrite Hb3, Hb2, Hb1.
    assert ((if expired s pid p then 0 else moved_many x FARM COLL d (collected (upd_iv (height s) p) (p_rules p))) = 0) as ->.
    { destruct (expired s pid p); [reflexivity|]. exact (moved_many_other x FARM COLL _ _ HxF HxC). }
    destruct (Z.eqb_spec x who) as [->|Hne].
    + rewrite (moved_many_to COLL who) by congruence. rewrite (moved_to FARM who) by congruence. destruct (d =? p_lpt p); lia.
    + rewrite (moved_many_other x COLL who) by assumption. rewrite (moved_other x FARM who) by assumption. lia.
  - intros d. simpl. rewrite Hb3, Hb2, Hb1, Hrel. rewrite (moved_many_from COLL who) by congruence.
    rewrite (moved_other COLL FARM who) by (try discriminate; congruence).
    destruct (expired s pid p); [lia|]. rewrite (moved_many_to FARM COLL) by discriminate. rewrite csum_collected. lia.
Qed.

Lemma adjust_balances s who pid add rpb s' rw : inv s -> actor who -> adjust s who pid add rpb = Done s' rw ->
  exists p pb, get pid (pools s) = Some p /\ get pid (pools s') = Some pb /\ p_last pb = height s
    /\ (forall k v, In (k, v) (pools s) -> k <> pid -> get k (pools s') = Some v)
    /\ NoDup (map fst add) /\ rw = []
    /\ (forall x d, x <> FARM -> x <> COLL ->
          bal (bank s') x d - bal (bank s) x d = if x =? who then - csum add d else 0)
    /\ (forall d, bal (bank s') COLL d - bal (bank s) COLL d
                  = rule_sum (fun r => r_pb r * upd_iv (height s) p) (p_rules p) d).
Proof.
  intros I (HwF & HwC & _) H. destruct (adjust_Done _ _ _ _ _ _ _ H) as (p & p1 & b1 & b2 & iv & Hs). cbv zeta in Hs.
  destruct Hs as (Hsa & _ & _ & Hg & _ & -> & _ & _ & Hu & Hsend & _ & -> & ->).
  destruct (end_after _ _ _ _ _ _ Hu) as (_ & _ & _ & _ & _ & Hla & _).
  destruct (update_pool_true _ _ _ _ _ _ _ Hu) as (_ & _ & _ & _ & Hb1).
  destruct (send_many_bal _ _ _ _ _ Hsend) as [_ Hb2].
  eexists p, _. split; [exact Hg|]. split; [simpl; rewrite get_set_same; reflexivity|]. split; [exact Hla|].
  split; [intros k v Hin Hne; simpl; exact (others_same _ _ _ _ _ (i_nodup _ I) Hin Hne)|].
  split; [apply sorted_strict_NoDup; exact Hsa|]. split; [reflexivity|]. split.
  - intros x d HxF HxC. simpl. rewrite Hb2, Hb1. rewrite (moved_many_other x FARM COLL) by assumption.
    destruct (Z.eqb_spec x (p_creator p)) as [->|Hne].
    + rewrite (moved_many_from (p_creator p) FARM) by exact HwF. lia.
    + rewrite (moved_many_other x (p_creator p) FARM) by assumption. lia.
  - intros d. simpl. rewrite Hb2, Hb1. rewrite (moved_many_other COLL (p_creator p) FARM) by (try discriminate; congruence).
    rewrite (moved_many_to FARM COLL) by discriminate. rewrite csum_collected. lia.
Qed.

Lemma destroy_balances s who pid s' rw : inv s -> destroy s who pid = Done s' rw ->
  exists p pb, get pid (pools s) = Some p /\ get pid (pools s') = Some pb /\ p_last pb = height s
    /\ (forall k v, In (k, v) (pools s) -> k <> pid -> get k (pools s') = Some v)
    /\ rw = []
    /\ (forall x d, x <> FARM -> x <> COLL ->
          bal (bank s') x d - bal (bank s) x d
          = if p_creator p =? x then rule_sum r_rem (p_rules p) d - rule_sum (fun r => r_pb r * upd_iv (height s) p) (p_rules p) d else 0)
    /\ (forall d, bal (bank s') COLL d - bal (bank s) COLL d
                  = rule_sum (fun r => r_pb r * upd_iv (height s) p) (p_rules p) d).
Proof.
  intros I H. destruct (destroy_Done _ _ _ _ _ H) as (p & Hg & _ & _ & Hex & Hr & Hrw).
  pose proof (get_pool_inv _ _ _ I Hg) as PI. pose proof (not_expired_in_queue _ _ _ I Hg Hex) as Hq.
  destruct (refund_effect _ _ _ _ _ I Hg Hq Hr) as (Hcr & _ & Hcoll & Hoth & _). change (release_iv (height s) p) with (upd_iv (height s) p) in *.
  destruct (update_succeeds s pid p (bank s) 0 true I Hg Hq ltac:(intros; lia)) as (p1' & b1' & Hok').
  destruct (refund_cases _ _ _ _ _ Hr) as [(p1 & b1 & Hu & _)|(p1 & b1 & b' & Hu & Hs' & _)]; [congruence|].
  destruct (upd_rules_step _ _ _ _ _ _ _ PI Hu) as (Hl & _ & _).
  exists p, (zero_rules p1). split; [exact Hg|]. split; [rewrite Hs'; simpl; rewrite get_set_same; reflexivity|].
  split; [exact Hl|]. split.
  { intros k v Hin Hne. rewrite (refund_get_other _ _ _ _ _ k (not_eq_sym Hne) Hr). exact (In_get _ _ _ (i_nodup _ I) Hin). }
  split; [exact Hrw|]. split.
  - intros x d HxF HxC. destruct (Z.eqb_spec (p_creator p) x) as [<-|Hne]; [exact (Hcr d)|].
    rewrite (Hoth x d HxF HxC (not_eq_sym Hne)). lia.
  - exact Hcoll.
Qed.

Lemma deduct_fee_actor cf tr b who b1 : deduct_fee cf tr b who = Some b1 -> who <> FARM ->
  forall x d, x <> FARM -> x <> FEEC -> x <> BURN ->
  bal b1 x d = bal b x d - (if x =? who then (if d =? STAKE then cf else 0) else 0).
Proof.
  unfold deduct_fee. set (tax := dec_truncate_int (dec_mul (dec_of_int cf) tr)).
  destruct (send b who FARM STAKE cf) as [l1|] eqn:E1; [|discriminate].
  destruct (send l1 FARM FEEC STAKE tax) as [l2|] eqn:E2; [|discriminate].
  intros E3 HwF x d HxF HxE HxB.
  destruct (send_bal _ _ _ _ _ _ E1) as [_ H1]. destruct (send_bal _ _ _ _ _ _ E2) as [_ H2]. destruct (send_bal _ _ _ _ _ _ E3) as [_ H3].
  rewrite H3, H2, H1. rewrite (moved_other x FARM BURN) by assumption. rewrite (moved_other x FARM FEEC) by assumption.
  destruct (Z.eqb_spec x who) as [->|Hne].
  - rewrite (moved_from who FARM) by exact HwF. destruct (d =? STAKE); lia.
  - rewrite (moved_other x who FARM) by assumption. lia.
Qed.

Lemma create_balances s who lpt start ed rules s' rw : inv s -> actor who -> create_pool s who lpt start ed rules = Done s' rw ->
  (forall k v, In (k, v) (pools s) -> get k (pools s') = Some v) /\ rw = []
  /\ (forall x d, x <> FARM -> x <> FEEC -> x <> BURN ->
        bal (bank s') x d - bal (bank s) x d
        = if x =? who then - csum (map (fun '(d0, t, _) => (d0, t)) rules) d - (if d =? STAKE then cfee s else 0) else 0).
Proof.
  intros I (HwF & HwC & HwE & HwB) H.
  destruct (create_Done _ _ _ _ _ _ _ _ H) as (b1 & b2 & iv & _ & _ & _ & _ & Hfee & Hsend & _ & -> & ->).
  destruct (send_many_bal _ _ _ _ _ Hsend) as [_ Hb2]. split; [|split; [reflexivity|]].
  - intros k v Hin. simpl. rewrite get_set_other; [exact (In_get _ _ _ (i_nodup _ I) Hin)|].
    pose proof (i_ids _ I) as Hids. rewrite Forall_forall in Hids. assert (In k (keys (pools s))) as Hk.
    { unfold keys. apply in_map_iff. exists (k, v). auto. } specialize (Hids k Hk). lia.
  - intros x d HxF HxE HxB. simpl. rewrite Hb2, (deduct_fee_actor _ _ _ _ _ Hfee HwF x d HxF HxE HxB).
    destruct (Z.eqb_spec x who) as [->|Hne].
    + rewrite (moved_many_from who FARM) by exact HwF. lia.
    + rewrite (moved_many_other x who FARM) by assumption. lia.
Qed.

(** ** the end blocker: every due pool is refunded, the effects add up *)
Definition cr_delta (s : state) (pid : Z) (x : acct) (d : denom) : Z :=
  match get pid (pools s) with
  | Some p => if p_creator p =? x then rule_sum r_rem (p_rules p) d - rule_sum (fun r => r_pb r * upd_iv (height s) p) (p_rules p) d else 0
  | None => 0
  end.
Definition rel_delta (s : state) (pid : Z) (d : denom) : Z :=
  match get pid (pools s) with
  | Some p => rule_sum (fun r => r_pb r * upd_iv (height s) p) (p_rules p) d
  | None => 0
  end.

Lemma end_block_effect l : forall s, inv s -> NoDup l -> (forall pid, In pid l -> In (height s, pid) (queue s)) ->
  let s' := fold_left end_block_one l s in
  (forall x d, x <> FARM -> x <> COLL -> bal (bank s') x d - bal (bank s) x d = zsum (map (fun pid => cr_delta s pid x d) l))
  /\ (forall d, bal (bank s') COLL d - bal (bank s) COLL d = zsum (map (fun pid => rel_delta s pid d) l))
  /\ (forall pid, In pid l -> exists p pb, get pid (pools s) = Some p /\ get pid (pools s') = Some pb /\ p_last pb = height s)
  /\ (forall pid, ~ In pid l -> get pid (pools s') = get pid (pools s)).
Proof.
  induction l as [|pid l IH]; intros s I Hnd Hdue; cbv zeta.
  - simpl. split; [intros; lia|]. split; [intros; lia|]. split; [intros ? []|reflexivity].
  - inversion Hnd as [|? ? Hni Hnd']; subst. simpl fold_left.
    pose proof (Hdue pid (or_introl eq_refl)) as Hin. apply in_queue_true in Hin.
    destruct (i_qwf _ I _ _ Hin) as (p & Hg & He). rewrite <- He in Hin.
    destruct (end_block_one_inv s pid I ltac:(rewrite <- He; apply in_queue_true; exact Hin)) as (I1 & Hh1 & Hq1).
    set (s1 := end_block_one s pid) in *.
    assert (exists ok, refund s pid p = (s1, ok)) as [ok Er].
    { unfold s1, end_block_one. rewrite Hg. destruct (refund s pid p) as [s2 ok]. exists ok. reflexivity. }
    destruct (refund_effect _ _ _ _ _ I Hg Hin Er) as (Hcr & _ & Hcoll & Hoth & _). change (release_iv (height s) p) with (upd_iv (height s) p) in *.
    pose proof (get_pool_inv _ _ _ I Hg) as PI.
    destruct (update_succeeds s pid p (bank s) 0 true I Hg Hin ltac:(intros; lia)) as (p1' & b1' & Hok').
    destruct (refund_cases _ _ _ _ _ Er) as [(p1 & b1 & Hu & _)|(p1 & b1 & b' & Hu & Hs1 & _)]; [congruence|].
    destruct (upd_rules_step _ _ _ _ _ _ _ PI Hu) as (Hl & _ & _).
    assert (forall pid', pid' <> pid -> get pid' (pools s1) = get pid' (pools s)) as Hget.
    { intros pid' Hne. unfold s1. apply end_block_one_other. congruence. }
    destruct (IH s1 I1 Hnd') as (IHa & IHc & IHp & IHn).
    { intros pid' Hin'. rewrite Hh1, Hq1. apply in_dequeue. split; [apply Hdue; right; exact Hin'|]. intros Heq. inversion Heq; subst. contradiction. }
    assert (forall x d, zsum (map (fun pid0 => cr_delta s1 pid0 x d) l) = zsum (map (fun pid0 => cr_delta s pid0 x d) l)) as Hcd.
    { intros x d. f_equal. apply map_ext_in. intros pid' Hin'. unfold cr_delta. rewrite Hh1, Hget; [reflexivity|]. intros ->. contradiction. }
    assert (forall d, zsum (map (fun pid0 => rel_delta s1 pid0 d) l) = zsum (map (fun pid0 => rel_delta s pid0 d) l)) as Hrd.
    { intros d. f_equal. apply map_ext_in. intros pid' Hin'. unfold rel_delta. rewrite Hh1, Hget; [reflexivity|]. intros ->. contradiction. }
    split; [|split; [|split]].
    + intros x d HxF HxC. specialize (IHa x d HxF HxC). rewrite Hcd in IHa. simpl. unfold cr_delta at 1. rewrite Hg.
      destruct (Z.eqb_spec (p_creator p) x) as [<-|Hne].
      * specialize (Hcr d). lia.
      * specialize (Hoth x d HxF HxC (not_eq_sym Hne)). lia.
    + intros d. specialize (IHc d). rewrite Hrd in IHc. simpl. unfold rel_delta at 1. rewrite Hg. specialize (Hcoll d). lia.
    + intros pid' [<-|Hin'].
      * exists p, (zero_rules p1). split; [exact Hg|]. split; [|exact Hl].
        rewrite (IHn pid Hni). rewrite Hs1. simpl. apply get_set_same.
      * destruct (IHp pid' Hin') as (p' & pb & Hg' & Hgb & Hlb). exists p', pb.
        rewrite <- (Hget pid') by (intros ->; contradiction). rewrite <- Hh1. auto.
    + intros pid' Hni'. rewrite IHn by (intros Hi; apply Hni'; right; exact Hi). apply Hget. intros ->. apply Hni'. left. reflexivity.
Qed.

(** summing over the pools what is non-zero only for the keys in [l] = summing over [l] *)
Lemma zsum_select {V} (F : Z * V -> Z) (G : Z -> Z) (m : amap Z V) : forall l,
  NoDup (keys m) -> NoDup l -> (forall k, In k l -> In k (keys m)) ->
  (forall k v, In (k, v) m -> In k l -> F (k, v) = G k) ->
  (forall k v, In (k, v) m -> ~ In k l -> F (k, v) = 0) ->
  zsum (map F m) = zsum (map G l).
Proof.
  unfold keys. induction m as [|[k0 v0] m IH]; simpl; intros l Hnm Hnl Hsub Hin Hout.
  - destruct l as [|k l]; [reflexivity|]. exfalso. exact (Hsub k (or_introl eq_refl)).
  - inversion Hnm as [|? ? Hni Hnm']; subst. destruct (in_dec Z.eq_dec k0 l) as [Hk|Hk].
    + destruct (in_split _ _ Hk) as (l1 & l2 & ->). rewrite map_app, zsum_app. simpl.
      rewrite (Hin k0 v0 (or_introl eq_refl) Hk).
      pose proof (NoDup_remove_1 _ _ _ Hnl) as Hnl'. pose proof (NoDup_remove_2 _ _ _ Hnl) as Hk0.
      rewrite (IH (l1 ++ l2) Hnm' Hnl').
      * rewrite map_app, zsum_app. lia.
      * intros k Hkl. assert (In k (l1 ++ k0 :: l2)) as Hkl' by (apply in_app_iff in Hkl; apply in_app_iff; simpl; tauto).
        destruct (Hsub k Hkl') as [Heq|Hi]; [|exact Hi]. subst. contradiction.
      * intros k v Hkv Hkl. apply Hin; [right; exact Hkv|]. apply in_app_iff in Hkl. apply in_app_iff. simpl. tauto.
      * intros k v Hkv Hkl. apply Hout; [right; exact Hkv|]. intros Hi. apply in_app_iff in Hi. simpl in Hi.
        destruct Hi as [Hi|[Heq|Hi]]; [apply Hkl; apply in_app_iff; tauto| |apply Hkl; apply in_app_iff; tauto].
        subst. apply Hni. apply in_map_iff. exists (k, v). auto.
    + rewrite (Hout k0 v0 (or_introl eq_refl) Hk). rewrite (IH l Hnm' Hnl); [lia| | |].
      * intros k Hkl. destruct (Hsub k Hkl) as [Heq|Hi]; [subst; contradiction|exact Hi].
      * intros k v Hkv Hkl. apply Hin; [right; exact Hkv|exact Hkl].
      * intros k v Hkv Hkl. apply Hout; [right; exact Hkv|exact Hkl].
Qed.

(** ** clauses 15 and 16: every observed balance moves by exactly what the checker expects *)
Lemma actors_not_module x : In x actors -> x <> FARM /\ x <> COLL /\ x <> FEEC /\ x <> BURN.
Proof. unfold actors. simpl. intros [<-|[<-|[<-|[<-|[]]]]]; repeat split; discriminate. Qed.

Lemma amount_of_nil d : amount_of [] d = 0.
Proof. reflexivity. Qed.

Lemma msg_no_refund s m oc0 rw0 pid :
  (forall who pid', m <> Destroy who pid') -> refund_event (height s) (obs_of s oc0 rw0) (Msg m) (obs_after s (Msg m)) pid = false.
Proof. intros H. destruct m; try reflexivity. exfalso. exact (H _ _ eq_refl). Qed.

Lemma balances_lemma s st oc0 rw0 :
  inv s -> valid_step st -> actor_step st ->
  let a := obs_of s oc0 rw0 in
  let b := obs_after s st in
  let s' := step_state s st in
  (forall x d, In x actors -> bal (bank s') x d - bal (bank s) x d = msg_delta (cfee s) b st x d + refund_to (height s) a st b x d)
  /\ (forall d, bal (bank s') COLL d - bal (bank s) COLL d = released_total a b d - amount_of (o_rw b) d).
Proof.
  intros I Hv Hact a b s'. pose proof (i_nodup _ I) as Hnd.
  destruct st as [m|].
  - unfold s', step_state, b, obs_after, exec_step. destruct (exec_msg s m) as [s2 rw|o] eqn:E; cbn [fst snd].
    2:{ (* failed *)
      pose proof (exec_msg_fail _ _ _ E) as Hno.
      assert (outcome_code o =? 0 = false) as Hc by (destruct o; [congruence|reflexivity|reflexivity]).
      split.
      - intros x d _. unfold msg_delta. change (o_code (obs_of s o [])) with (outcome_code o). rewrite Hc. cbn [negb].
        rewrite refund_to_none; [lia|]. intros pid. destruct m; try reflexivity. cbn [refund_event].
        change (o_code (obs_of s o [])) with (outcome_code o). rewrite Hc, andb_false_r. reflexivity.
      - intros d. rewrite released_total_same; [change (o_rw (obs_of s o [])) with (@nil (denom * Z)); rewrite amount_of_nil; lia|].
        intros k v Hin. exact (In_get _ _ _ Hnd Hin). }
    assert (b = obs_of s2 Ok rw) as Hb by (unfold b, obs_after, exec_step; rewrite E; reflexivity).
    change (obs_of s2 Ok rw) with (obs_of s2 Ok rw). rewrite <- Hb.
    assert (o_code b = 0) as Hcode by (rewrite Hb; reflexivity).
    assert (o_rw b = rw) as Hrw by (rewrite Hb; reflexivity).
    assert (o_pools b = pools s2) as Hpb by (rewrite Hb; reflexivity).
    destruct m as [who lpt start ed rules|who pid d0 amt|who pid d0 amt|who pid|who pid add rpb|who pid|who cf tr]; simpl in E, Hv, Hact.
    + (* create *)
      destruct (create_balances _ _ _ _ _ _ _ _ I Hv E) as (Hsame & -> & Hbal). split.
      * intros x d Hx. destruct (actors_not_module x Hx) as (H1 & H2 & H3 & H4). rewrite (Hbal x d H1 H3 H4).
        rewrite refund_to_none by (intros; reflexivity). unfold msg_delta. rewrite Hcode. cbn [negb Z.eqb].
        rewrite (Z.eqb_sym who x). destruct (x =? who); [|lia].
        assert (csum (map (fun '(d1, t, _) => (d1, t)) rules) d = zsum (map (fun '(d', t, _) => if d' =? d then t else 0) rules)) as ->; [|lia].
        unfold csum. rewrite map_map. f_equal. apply map_ext. intros [[d1 t] pb]. reflexivity.
      * intros d. rewrite released_total_same by (rewrite Hpb; exact Hsame). rewrite Hrw, amount_of_nil.
        destruct (create_Done _ _ _ _ _ _ _ _ E) as (b1 & b2 & iv & _ & _ & _ & _ & Hfee & Hsend & _ & _ & ->).
        destruct (send_many_bal _ _ _ _ _ Hsend) as [_ Hb2]. destruct Hv as (HwF & HwC & _).
        simpl. rewrite Hb2. rewrite (moved_many_other COLL who FARM) by (try discriminate; congruence).
        destruct (deduct_fee_bal _ _ _ _ _ Hfee HwF HwC d) as [_ ->]. lia.
    + (* stake *)
      destruct (stake_balances _ _ _ _ _ _ _ I Hv E) as (p & pb & Hg & Hgb & Hla & Hoth & Hndrw & Hbal & Hcoll). split.
      * intros x d Hx. destruct (actors_not_module x Hx) as (H1 & H2 & _). rewrite (Hbal x d H1 H2).
        rewrite refund_to_none by (intros; reflexivity). unfold msg_delta. rewrite Hcode, Hrw. cbn [negb Z.eqb].
        rewrite (Z.eqb_sym who x), (Z.eqb_sym d0 d), (amount_of_csum _ _ Hndrw). destruct (x =? who); destruct (d =? d0); lia.
      * intros d. rewrite (released_total_one a b pid p pb d Hnd Hg ltac:(rewrite Hpb; exact Hgb) ltac:(rewrite Hpb; exact Hoth)).
        rewrite (rule_sum_released_upd _ _ _ _ Hla), Hrw, (amount_of_csum _ _ Hndrw). exact (Hcoll d).
    + (* unstake *)
      destruct (unstake_balances _ _ _ _ _ _ _ I Hv E) as (p & pb & Hg & Hgb & _ & Hoth & Hndrw & Hbal & Hcoll). split.
      * intros x d Hx. destruct (actors_not_module x Hx) as (H1 & H2 & _). rewrite (Hbal x d H1 H2).
        rewrite refund_to_none by (intros; reflexivity). unfold msg_delta. rewrite Hcode, Hrw. cbn [negb Z.eqb].
        rewrite (Z.eqb_sym who x), (Z.eqb_sym d0 d), (amount_of_csum _ _ Hndrw). destruct (x =? who); destruct (d =? d0); lia.
      * intros d. rewrite (released_total_one a b pid p pb d Hnd Hg ltac:(rewrite Hpb; exact Hgb) ltac:(rewrite Hpb; exact Hoth)).
        rewrite Hrw, (amount_of_csum _ _ Hndrw). exact (Hcoll d).
    + (* harvest *)
      destruct (harvest_balances _ _ _ _ _ I Hv E) as (p & pb & Hg & Hgb & Hla & Hoth & Hndrw & Hbal & Hcoll). split.
      * intros x d Hx. destruct (actors_not_module x Hx) as (H1 & H2 & _). rewrite (Hbal x d H1 H2).
        rewrite refund_to_none by (intros; reflexivity). unfold msg_delta. rewrite Hcode, Hrw. cbn [negb Z.eqb].
        rewrite (Z.eqb_sym who x), (amount_of_csum _ _ Hndrw). destruct (x =? who); lia.
      * intros d. rewrite (released_total_one a b pid p pb d Hnd Hg ltac:(rewrite Hpb; exact Hgb) ltac:(rewrite Hpb; exact Hoth)).
        rewrite (rule_sum_released_upd _ _ _ _ Hla), Hrw, (amount_of_csum _ _ Hndrw). exact (Hcoll d).
    + (* adjust *)
      destruct (adjust_balances _ _ _ _ _ _ _ I Hv E) as (p & pb & Hg & Hgb & Hla & Hoth & Hnda & -> & Hbal & Hcoll). split.
      * intros x d Hx. destruct (actors_not_module x Hx) as (H1 & H2 & _). rewrite (Hbal x d H1 H2).
        rewrite refund_to_none by (intros; reflexivity). unfold msg_delta. rewrite Hcode. cbn [negb Z.eqb].
        rewrite (Z.eqb_sym who x), (amount_of_csum _ _ Hnda). destruct (x =? who); lia.
      * intros d. rewrite (released_total_one a b pid p pb d Hnd Hg ltac:(rewrite Hpb; exact Hgb) ltac:(rewrite Hpb; exact Hoth)).
        rewrite (rule_sum_released_upd _ _ _ _ Hla), Hrw, amount_of_nil. rewrite (Hcoll d). lia.
    + (* destroy *)
      destruct (destroy_balances _ _ _ _ _ I E) as (p & pb & Hg & Hgb & Hla & Hoth & -> & Hbal & Hcoll).
      assert (refund_event (height s) a (Msg (Destroy who pid)) b pid = true) as HR.
      { cbn [refund_event]. rewrite Hcode, !Z.eqb_refl. reflexivity. }
      assert (forall k, k <> pid -> refund_event (height s) a (Msg (Destroy who pid)) b k = false) as HRo.
      { intros k Hne. cbn [refund_event]. destruct (Z.eqb_spec pid k); [congruence|reflexivity]. }
      split.
      * intros x d Hx. destruct (actors_not_module x Hx) as (H1 & H2 & _). rewrite (Hbal x d H1 H2).
        rewrite (refund_to_one _ a _ b x d pid p pb Hnd Hg ltac:(rewrite Hpb; exact Hgb) HRo HR).
        unfold msg_delta. rewrite Hcode. cbn [negb Z.eqb].
        rewrite rule_sum_minus, (rule_sum_released_upd _ _ _ _ Hla). destruct (p_creator p =? x); lia.
      * intros d. rewrite (released_total_one a b pid p pb d Hnd Hg ltac:(rewrite Hpb; exact Hgb) ltac:(rewrite Hpb; exact Hoth)).
        rewrite (rule_sum_released_upd _ _ _ _ Hla), Hrw, amount_of_nil. rewrite (Hcoll d). lia.
    + (* parameter change: no coin moves *)
      destruct (update_params_Done _ _ _ _ _ _ E) as (_ & _ & _ & -> & ->). split.
      * intros x d _. cbn [bank]. rewrite refund_to_none by (intros; reflexivity). unfold msg_delta. rewrite Hcode. cbn [negb Z.eqb]. lia.
      * intros d. rewrite released_total_same; [rewrite Hrw, amount_of_nil; cbn [bank]; lia|].
        intros k v Hin. rewrite Hpb. exact (In_get _ _ _ Hnd Hin).
  - (* next block *)
    destruct (end_block_effect (due s) s I (NoDup_due _ (i_qnd _ I)) (fun pid H => proj1 (in_due s pid) H)) as (Ha & Hc & Hp & Hn).
    cbv zeta in Ha, Hc, Hp, Hn. fold (end_block s) in Ha, Hc, Hp, Hn.
    assert (bank s' = bank (end_block s)) as Hbk by reflexivity.
    assert (o_pools b = pools (end_block s)) as Hpb by reflexivity.
    assert (forall k, In k (due s) -> In k (keys (pools s))) as Hsub.
    { intros k Hk. destruct (Hp k Hk) as (p & _ & Hg & _). exact (get_Some_in_keys _ _ _ Hg). }
    split.
    + intros x d Hx. destruct (actors_not_module x Hx) as (H1 & H2 & _). rewrite Hbk, (Ha x d H1 H2).
      unfold msg_delta. assert ((if negb (o_code b =? 0) then 0 else 0) = 0) as -> by (destruct (negb (o_code b =? 0)); reflexivity).
      unfold refund_to. symmetry. rewrite Z.add_0_l.
      apply (zsum_select _ (fun pid => cr_delta s pid x d) (pools s) (due s) Hnd (NoDup_due _ (i_qnd _ I)) Hsub).
      * intros k v Hin Hk. cbn [refund_event]. change (o_queue a) with (queue s).
        assert (in_queue (queue s) (height s, k) = true) as -> by (apply in_queue_true; apply in_due; exact Hk).
        destruct (Hp k Hk) as (p & pb & Hg & Hgb & Hla). rewrite (In_get _ _ _ Hnd Hin) in Hg. inversion Hg; subst p.
        rewrite Hpb, Hgb. unfold cr_delta. rewrite (In_get _ _ _ Hnd Hin). cbn [andb].
        destruct (p_creator v =? x); [|reflexivity].
        fold (rule_sum (fun ra => r_rem ra - released v pb ra) (p_rules v) d).
        rewrite rule_sum_minus, (rule_sum_released_upd _ _ _ _ Hla). reflexivity.
      * intros k v Hin Hk. cbn [refund_event]. change (o_queue a) with (queue s).
        assert (in_queue (queue s) (height s, k) = false) as ->; [|reflexivity].
        apply in_queue_false. intros Hi. apply Hk. apply in_due. exact Hi.
    + intros d. rewrite Hbk, (Hc d). change (o_rw b) with (@nil (denom * Z)). rewrite amount_of_nil, Z.sub_0_r.
      unfold released_total. symmetry.
      apply (zsum_select _ (fun pid => rel_delta s pid d) (pools s) (due s) Hnd (NoDup_due _ (i_qnd _ I)) Hsub).
      * intros k v Hin Hk. destruct (Hp k Hk) as (p & pb & Hg & Hgb & Hla). rewrite (In_get _ _ _ Hnd Hin) in Hg. inversion Hg; subst p.
        rewrite Hpb, Hgb. unfold rel_delta. rewrite (In_get _ _ _ Hnd Hin).
        fold (rule_sum (released v pb) (p_rules v) d). exact (rule_sum_released_upd _ _ _ _ Hla).
      * intros k v Hin Hk. rewrite Hpb, (Hn k Hk), (In_get _ _ _ Hnd Hin). apply zsum_zero. intros r _.
        rewrite released_same_last by reflexivity. destruct (r_denom r =? d); reflexivity.
Qed.

(** ** clauses 11 (new pools) and 17 (schedule) *)
Lemma new_pools_ok_lemma s st oc0 rw0 : inv s -> valid_step st ->
  new_pools_ok (obs_of s oc0 rw0) st (obs_after s st) = true.
Proof.
  intros I Hv. pose proof (step_inv s st I Hv) as I'. unfold new_pools_ok. apply forallb_forall. intros [pid pb] Hin.
  change (o_pools (obs_after s st)) with (pools (step_state s st)) in Hin. change (o_pools (obs_of s oc0 rw0)) with (pools s).
  pose proof (In_get _ _ _ (i_nodup _ I') Hin) as Hgb.
  destruct (get pid (pools s)) as [pa|] eqn:Hg; [reflexivity|].
  destruct (new_pool_lemma _ _ _ _ Hg Hgb) as (who & lpt & start & ed & rules & -> & _ & Hrs & Hlk & Hcr & Hok).
  change (o_code (obs_after s (Msg (CreatePool who lpt start ed rules)))) with (outcome_code (snd (fst (exec_step s (Msg (CreatePool who lpt start ed rules)))))).
  rewrite Hok, Hrs, Hlk, Hcr. simpl outcome_code. rewrite !Z.eqb_refl. cbn [andb].
  rewrite !andb_true_r. apply (proj2 (eqb_true_iff _ _)). unfold new_rules. rewrite map_map. apply map_ext. intros [[d t] pb']. reflexivity.
Qed.

Lemma schedule_covered_lemma6 s oc rw : inv s -> schedule_covered (obs_of s oc rw) = true.
Proof.
  intros I. unfold schedule_covered. apply forallb_forall. intros [pid p] Hin.
  change (o_pools (obs_of s oc rw)) with (pools s) in Hin. change (o_queue (obs_of s oc rw)) with (queue s).
  pose proof (In_get _ _ _ (i_nodup _ I) Hin) as Hg.
  destruct (in_queue (queue s) (p_end p, pid)) eqn:Hq; [|reflexivity]. cbn [negb orb].
  destruct (i_sched _ I _ _ Hg Hq) as [_ Hc]. apply forallb_forall. intros r Hr. unfold covered in Hc. rewrite Forall_forall in Hc.
  apply Z.leb_le. exact (Hc r Hr).
Qed.

(** ** the theorem *)
Theorem model_passes_c06 s st oc0 rw0 :
  inv s -> valid_step st -> actor_step st ->
  c06_step (height s) (cfee s) (obs_of s oc0 rw0) st (obs_after s st) = 0.
Proof.
  intros I Hv Hact. pose proof (step_inv s st I Hv) as I'.
  destruct (balances_lemma s st oc0 rw0 I Hv Hact) as [H15 H16]. cbv zeta in H15, H16.
  unfold c06_step. cbv zeta.
  match goal with |- (if negb (?f =? 0) then _ else _) = 0 => assert (f = 0) as Hpc end.
  { apply pc_zero. intros pid pa Hin. change (o_pools (obs_of s oc0 rw0)) with (pools s) in Hin.
    pose proof (In_get _ _ _ (i_nodup _ I) Hin) as Hg.
    destruct (pool_step_lemma s st pid pa oc0 rw0 I Hv Hg) as (pb & Hgb & Hps). cbv zeta in Hgb, Hps.
    apply (c06_pool_zero _ _ _ _ _ _ pb); [exact Hgb|exact (pi_denoms _ _ (get_pool_inv _ _ _ I Hg))|exact Hps]. }
  rewrite Hpc. cbn [Z.eqb negb].
  rewrite (new_pools_ok_lemma s st oc0 rw0 I Hv). cbn [negb].
  match goal with |- (if negb ?c then _ else _) = 0 => assert (c = true) as -> end.
  { apply forallb_forall. intros x Hx. apply forallb_forall. intros d Hd.
    unfold obs_after. rewrite !obal_obs_of by (try exact Hd; apply actors_obs; exact Hx). apply Z.eqb_eq. exact (H15 x d Hx). }
  cbn [negb].
  match goal with |- (if negb ?c then _ else _) = 0 => assert (c = true) as -> end.
  { apply forallb_forall. intros d Hd.
    unfold obs_after. rewrite !obal_obs_of by (try exact Hd; unfold obs_accts; simpl; tauto). apply Z.eqb_eq. exact (H16 d). }
  cbn [negb]. unfold obs_after. rewrite (schedule_covered_lemma6 _ _ _ I'). reflexivity.
Qed.
