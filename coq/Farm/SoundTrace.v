(** * Farm: the checker, fed the model's own trace of any history, raises no alarm
    ([check_case_C05] = (-1, -1, 0); for C06 the correspondence and the step clauses 10-17 stay silent) *)
From Irismod Require Export Farm.ProRata.

(** the trace the harness would write if the implementation were the model *)
Fixpoint model_trace (s : state) (steps : list step) : list (step * obs) :=
  match steps with
  | [] => []
  | st :: rest => (st, obs_after s st) :: model_trace (step_state s st) rest
  end.


(** ** the model corresponds to itself *)
Lemma pool_eqb_refl p : pool_eqb p p = true.
Proof.
  unfold pool_eqb. rewrite eqb_refl, Z.eqb_refl. cbn [andb]. apply forallb_forall. intros a _. apply eqb_refl.
Qed.

Lemma corr_self s oc rw : inv s -> corr_step s oc rw (obs_of s oc rw) = true.
Proof.
  intros I. unfold corr_step. change (o_code (obs_of s oc rw)) with (outcome_code oc). change (o_rw (obs_of s oc rw)) with rw.
  change (o_pools (obs_of s oc rw)) with (pools s). change (o_queue (obs_of s oc rw)) with (queue s).
  rewrite !Z.eqb_refl, eqb_refl. cbn [andb].
  assert (forallb (fun '(id, p) => match get id (pools s) with Some q => pool_eqb q p | None => false end) (pools s) = true) as ->.
  { apply forallb_forall. intros [id p] Hin. rewrite (In_get _ _ _ (i_nodup _ I) Hin). apply pool_eqb_refl. }
  assert (forallb (in_queue (queue s)) (queue s) = true) as ->.
  { apply forallb_forall. intros e Hin. apply in_queue_true. exact Hin. }
  cbn [andb]. apply forallb_forall. intros [x v] Hin. apply forallb_forall. intros d Hd.
  assert (In x obs_accts) as Hx.
  { change (o_bals (obs_of s oc rw)) with (bals_of (bank s)) in Hin. unfold bals_of in Hin. apply in_map_iff in Hin.
    destruct Hin as (x0 & Heq & Hx0). inversion Heq; subst. exact Hx0. }
  rewrite (obal_obs_of s oc rw x d Hx Hd). apply Z.eqb_refl.
Qed.

(** ** the loop of the checker over a model trace *)
Definition silent (x : acc) : Prop := a_corr x = -1 /\ a_p5 x = -1 /\ a_c5 x = 0 /\ a_k5 x = -1 /\ a_kc5 x = 0 /\ a_p6 x = -1 /\ a_c6 x = 0.

Lemma check_from_cons s a st b rest i x :
  check_from s a ((st, b) :: rest) i x =
  let s' := step_state s st in
  let oc := snd (fst (exec_step s st)) in
  let rw := snd (exec_step s st) in
  let k5 := c05_step (height s) a st b in
  let k6 := c06_step (height s) (cfee s) a st b in
  check_from s' b rest (i + 1)
    (mkAcc (if (a_corr x <? 0) && negb (corr_step s' oc rw b) then i else a_corr x)
           (fst (if (a_p5 x <? 0) && negb (k5 =? 0) && negb (k5 =? 3) then (i, k5) else (a_p5 x, a_c5 x)))
           (snd (if (a_p5 x <? 0) && negb (k5 =? 0) && negb (k5 =? 3) then (i, k5) else (a_p5 x, a_c5 x)))
           (fst (if (a_k5 x <? 0) && (k5 =? 3) then (i, k5) else (a_k5 x, a_kc5 x)))
           (snd (if (a_k5 x <? 0) && (k5 =? 3) then (i, k5) else (a_k5 x, a_kc5 x)))
           (fst (if (a_p6 x <? 0) && negb (k6 =? 0) then (i, k6) else (a_p6 x, a_c6 x)))
           (snd (if (a_p6 x <? 0) && negb (k6 =? 0) then (i, k6) else (a_p6 x, a_c6 x)))
           (fair_step a st b (a_sh x))).
Proof.
  cbn [check_from]. unfold step_state. destruct (exec_step s st) as [[s' oc] rw]. cbn [fst snd]. cbv zeta.
  destruct ((a_p5 x <? 0) && negb (c05_step (height s) a st b =? 0) && negb (c05_step (height s) a st b =? 3));
  destruct ((a_k5 x <? 0) && (c05_step (height s) a st b =? 3));
  destruct ((a_p6 x <? 0) && negb (c06_step (height s) (cfee s) a st b =? 0)); reflexivity.
Qed.

Lemma check_from_model steps : forall s oc0 rw0 i x,
  inv s -> Forall valid_step steps -> Forall actor_step steps -> silent x ->
  silent (fst (check_from s (obs_of s oc0 rw0) (model_trace s steps) i x)).
Proof.
  induction steps as [|st steps IH]; intros s oc0 rw0 i x I Hv Ha Hx; [exact Hx|].
  inversion Hv; subst. inversion Ha; subst. cbn [model_trace]. rewrite check_from_cons. cbv zeta.
  pose proof (model_passes_c05 s st oc0 rw0 I H1 H3) as H5. fold (obs_after s st) in H5.
  pose proof (model_passes_c06 s st oc0 rw0 I H1 H3) as H6.
  pose proof (step_inv s st I H1) as I'.
  rewrite H5, H6.
  assert (corr_step (step_state s st) (snd (fst (exec_step s st))) (snd (exec_step s st)) (obs_after s st) = true) as ->.
  { unfold obs_after. fold (step_state s st). apply corr_self. exact I'. }
  destruct Hx as (X1 & X2 & X3 & X4 & X5 & X6 & X7). rewrite X1, X2, X3, X4, X5, X6, X7. cbn.
  unfold obs_after. fold (step_state s st).
  apply (IH (step_state s st) _ _ (i + 1)); try assumption.
  unfold silent. cbn. repeat split; reflexivity.
Qed.

(** ** whole cases *)
(** the case the harness would write for a history if the implementation were the model; [bl] = the balances list
    of the case (the observed accounts in the four denominations) *)
Definition model_case (h0 : Z) (bl : list (acct * list Z)) (steps : list step) (fair : list (Z * Z * Z * Z * Z)) : case :=
  mkCase h0 bl (model_trace (init (ledger_of bl) h0) steps) fair.

Lemma run_check_model h0 bl steps fair :
  genesis_ok (ledger_of bl) h0 -> bals_of (ledger_of bl) = bl ->
  Forall valid_step steps -> Forall actor_step steps ->
  silent (fst (run_check (model_case h0 bl steps fair))).
Proof.
  intros G Hc Hv Ha. unfold run_check, model_case. cbn [c_bals c_h0 c_steps].
  assert (obs0 (mkCase h0 bl (model_trace (init (ledger_of bl) h0) steps) fair) = obs_of (init (ledger_of bl) h0) Ok []) as ->.
  { unfold obs0, obs_of. cbn [c_bals init pools queue bank outcome_code]. rewrite Hc. reflexivity. }
  apply check_from_model; try assumption; [apply inv_init; exact G|].
  unfold silent. cbn. repeat split; reflexivity.
Qed.

Theorem model_passes_check_C05_lemma h0 bl steps fair :
  genesis_ok (ledger_of bl) h0 -> bals_of (ledger_of bl) = bl ->
  Forall valid_step steps -> Forall actor_step steps ->
  check_case_C05 (model_case h0 bl steps fair) = (-1, -1, 0).
Proof.
  intros G Hc Hv Ha. pose proof (run_check_model h0 bl steps fair G Hc Hv Ha) as Hs. unfold check_case_C05.
  destruct (run_check (model_case h0 bl steps fair)) as [x last]. cbn [fst] in Hs.
  destruct Hs as (X1 & X2 & X3 & X4 & X5 & X6 & X7). rewrite X1, X2, X4. reflexivity.
Qed.

(** for C06 the correspondence and clauses 10-17 are silent; only the fair-share fold (clause 18, exact rationals) is not
    covered by this theorem (its content is proved in units of 10^-18 in [ProRata.v]) *)
Theorem model_passes_check_C06_lemma h0 bl steps :
  genesis_ok (ledger_of bl) h0 -> bals_of (ledger_of bl) = bl ->
  Forall valid_step steps -> Forall actor_step steps ->
  let c := model_case h0 bl steps [] in
  check_case_C06 c = (-1, -1, 0) \/ check_case_C06 c = (-1, n_steps c, 18).
Proof.
  intros G Hc Hv Ha c. pose proof (run_check_model h0 bl steps [] G Hc Hv Ha) as Hs. unfold check_case_C06. fold c in Hs.
  destruct (run_check c) as [x last]. cbn [fst] in Hs.
  destruct Hs as (X1 & X2 & X3 & X4 & X5 & X6 & X7). rewrite X1, X6.
  assert (c_fair c = []) as -> by reflexivity. unfold fair_ref_ok, fair_ref_share_ok. cbn [forallb negb andb Z.ltb Z.leb Z.compare].
  destruct (fair_ok (fair_close last (a_sh x))); [left|right]; reflexivity.
Qed.

(** a decidable sufficient condition for [genesis_ok], for concrete ledgers *)
Lemma genesis_ok_by_entries (l : ledger) h :
  0 <= h ->
  forallb (fun kv : acct * denom * Z => (negb (fst (fst kv) =? FARM) || (snd kv =? 0)) && (negb (fst (fst kv) =? COLL) || (0 <=? snd kv))) l = true ->
  genesis_ok l h.
Proof.
  intros Hh Hall. split; [exact Hh|]. intros d. rewrite forallb_forall in Hall. unfold bal. split.
  - destruct (get (FARM, d) l) as [v|] eqn:E; [|reflexivity]. apply get_In in E. specialize (Hall _ E). cbn [fst snd] in Hall.
    apply andb_true_iff in Hall. destruct Hall as [H1 _]. rewrite Z.eqb_refl in H1. cbn [negb orb] in H1. apply Z.eqb_eq in H1. exact H1.
  - destruct (get (COLL, d) l) as [v|] eqn:E; [|lia]. apply get_In in E. specialize (Hall _ E). cbn [fst snd] in Hall.
    apply andb_true_iff in Hall. destruct Hall as [_ H2]. rewrite Z.eqb_refl in H2. cbn [negb orb] in H2. apply Z.leb_le in H2. exact H2.
Qed.
