(** * Farm: what a successful call did (inversion lemmas for every function of the model) *)
From Irismod Require Export Farm.Lemmas Farm.Check.

(** ** records are determined by their fields *)
Lemma rule_eta r : mkRule (r_denom r) (r_total r) (r_rem r) (r_pb r) (r_rps r) = r.
Proof. destruct r; reflexivity. Qed.
Lemma with_rules_same p : with_rules p (p_rules p) = p.
Proof. destruct p; reflexivity. Qed.

(** ** updatePool *)
(** blocks for which rewards are released by an update at height [h] *)
Definition upd_iv (h : Z) (p : pool) : Z :=
  if (p_last p <? h) && (0 <? p_locked p) then h - p_last p else 0.

Definition collect1 (iv locked : Z) (r : rule) : rule :=
  mkRule (r_denom r) (r_total r) (r_rem r - r_pb r * iv) (r_pb r)
         (r_rps r + dec_quo_int (dec_of_int (r_pb r * iv)) locked).

Lemma collect_rules_true iv locked rs rs' :
  collect_rules iv locked rs = (rs', true) ->
  rs' = map (collect1 iv locked) rs /\ Forall (fun r => r_pb r * iv <= r_rem r) rs.
Proof.
  revert rs'. induction rs as [|r rs IH]; simpl; intros rs' H.
  - inversion H; subst. split; [reflexivity|constructor].
  - unfold collect_rule in H. destruct (Z.ltb_spec (r_rem r) (r_pb r * iv)) as [Hlt|Hge]; [discriminate|].
    destruct (collect_rules iv locked rs) as [rest ok] eqn:E. inversion H; subst.
    destruct (IH rest eq_refl) as [-> Hall]. split; [reflexivity|constructor; assumption].
Qed.

Lemma collect_rules_ok iv locked rs :
  Forall (fun r => r_pb r * iv <= r_rem r) rs -> collect_rules iv locked rs = (map (collect1 iv locked) rs, true).
Proof.
  induction 1 as [|r rs Hr Hrs IH]; simpl; [reflexivity|].
  unfold collect_rule. destruct (Z.ltb_spec (r_rem r) (r_pb r * iv)) as [Hlt|Hge]; [lia|].
  rewrite IH. reflexivity.
Qed.

Lemma collect1_zero locked rs : map (collect1 0 locked) rs = rs.
Proof.
  induction rs as [|r rs IH]; simpl; [reflexivity|]. rewrite IH. f_equal.
  unfold collect1, dec_quo_int, dec_of_int. rewrite Z.mul_0_r. simpl.
  rewrite Z.sub_0_r, Z.add_0_r. apply rule_eta.
Qed.

Definition rule_sum (g : rule -> Z) (rs : list rule) (d : denom) : Z :=
  zsum (map (fun r => if r_denom r =? d then g r else 0) rs).

Lemma csum_collected iv rs d : csum (collected iv rs) d = rule_sum (fun r => r_pb r * iv) rs d.
Proof. unfold csum, collected, rule_sum. rewrite map_map. reflexivity. Qed.

Lemma rule_sum_zero rs d : rule_sum (fun r => r_pb r * 0) rs d = 0.
Proof. unfold rule_sum. induction rs as [|r rs IH]; simpl; [reflexivity|]. rewrite IH. destruct (r_denom r =? d); lia. Qed.

Lemma send_many_zero cs l from to l' :
  send_many l from to cs = Some l' -> (forall d, csum cs d = 0) -> forall a d, bal l' a d = bal l a d.
Proof.
  intros H Hz a d. destruct (send_many_bal _ _ _ _ _ H) as [_ Hb]. rewrite Hb. unfold moved_many. rewrite Hz.
  destruct (a =? to), (a =? from); lia.
Qed.

Lemma update_pool_true h b p amount destroy p1 b1 :
  update_pool h b p amount destroy = (p1, b1, true) ->
  p_last p <= h /\ p_rules p <> []
  /\ (0 < upd_iv h p -> Forall (fun r => r_pb r * upd_iv h p <= r_rem r) (p_rules p))
  /\ p1 = finish_update h (with_rules p (map (collect1 (upd_iv h p) (p_locked p)) (p_rules p))) amount destroy
  /\ (forall a d, bal b1 a d = bal b a d + moved_many a FARM COLL d (collected (upd_iv h p) (p_rules p))).
Proof.
  unfold update_pool, upd_iv. destruct (Z.ltb_spec h (p_last p)) as [Hlt|Hge]; [intros H; inversion H|].
  destruct (p_rules p) as [|r0 rs0] eqn:Er; [intros H; inversion H|]. rewrite <- Er.
  destruct ((p_last p <? h) && (0 <? p_locked p)) eqn:Ec.
  - destruct (collect_rules (h - p_last p) (p_locked p) (p_rules p)) as [rs' ok] eqn:Ecr.
    destruct ok; [|intros H; inversion H].
    destruct (send_many b FARM COLL (collected (h - p_last p) (p_rules p))) as [b'|] eqn:Es; [|intros H; inversion H].
    intros H; inversion H; subst. destruct (collect_rules_true _ _ _ _ Ecr) as [-> Hall].
    split; [lia|]. split; [rewrite Er; discriminate|]. split; [intros _; exact Hall|]. split; [reflexivity|].
    destruct (send_many_bal _ _ _ _ _ Es) as [_ Hb]. exact Hb.
  - intros H; inversion H; subst. split; [lia|]. split; [rewrite Er; discriminate|]. split; [lia|].
    split; [rewrite collect1_zero, with_rules_same; reflexivity|].
    intros a d. unfold moved_many. rewrite csum_collected, rule_sum_zero. destruct (a =? COLL), (a =? FARM); lia.
Qed.

Lemma update_pool_ok h b p amount destroy :
  p_last p <= h -> p_rules p <> [] ->
  (0 < upd_iv h p -> Forall (fun r => r_pb r * upd_iv h p <= r_rem r) (p_rules p)) ->
  Forall (fun r => 0 <= r_pb r) (p_rules p) ->
  (forall d, rule_sum (fun r => r_pb r * upd_iv h p) (p_rules p) d <= bal b FARM d) ->
  exists p1 b1, update_pool h b p amount destroy = (p1, b1, true).
Proof.
  intros Hlast Hne Hcov Hpb Hbal. unfold update_pool. unfold upd_iv in *.
  destruct (Z.ltb_spec h (p_last p)) as [Hlt|Hge]; [lia|].
  destruct (p_rules p) as [|r0 rs0] eqn:Er; [congruence|]. rewrite <- Er in *.
  destruct ((p_last p <? h) && (0 <? p_locked p)) eqn:Ec.
  - apply andb_true_iff in Ec. destruct Ec as [E1 E2]. apply Z.ltb_lt in E1. apply Z.ltb_lt in E2.
    rewrite (collect_rules_ok _ _ _ (Hcov ltac:(lia))).
    destruct (send_many_ok (collected (h - p_last p) (p_rules p)) b FARM COLL ltac:(discriminate)) as [b' Hs].
    + unfold collected. clear -Hpb E1. induction Hpb as [|r rs Hr Hrs IH]; simpl; constructor; [simpl; nia|assumption].
    + intros d. rewrite csum_collected. apply Hbal.
    + rewrite Hs. eexists; eexists; reflexivity.
  - eexists; eexists; reflexivity.
Qed.

(** fields of the updated pool *)
Lemma finish_update_fields h p amount destroy :
  let p1 := finish_update h p amount destroy in
  p_creator p1 = p_creator p /\ p_last p1 = h /\ p_lpt p1 = p_lpt p /\ p_locked p1 = p_locked p + amount
  /\ p_edit p1 = p_edit p /\ p_rules p1 = p_rules p /\ p_farmers p1 = p_farmers p
  /\ (destroy = false -> p_start p1 = p_start p /\ p_end p1 = p_end p)
  /\ (destroy = true -> p_end p1 = h /\ p_start p1 = Z.min h (p_start p)).
Proof.
  simpl. repeat (split; [reflexivity|]). split; intros ->; simpl; [split; reflexivity|].
  split; [reflexivity|]. destruct (Z.ltb_spec h (p_start p)); lia.
Qed.

(** ** CaclRewards *)
Lemma cacl_Some rs : forall locked debts delta rw db,
  cacl rs locked debts delta = Some (rw, db) ->
  length rw = length rs /\ length db = length rs /\ map fst rw = map r_denom rs.
Proof.
  induction rs as [|r rs IH]; simpl; intros locked debts delta rw db H.
  - inversion H; subst. auto.
  - destruct (new_debt (r_rps r) locked _ delta <? 0); [discriminate|].
    destruct (cacl rs locked _ delta) as [[rw' db']|] eqn:E; [|discriminate].
    inversion H; subst. destruct (IH _ _ _ _ _ E) as (H1 & H2 & H3). simpl. rewrite H1, H2, H3. auto.
Qed.

(** ** messages *)
Lemma stake_Done s who pid d amt s' rw :
  stake s who pid d amt = Done s' rw ->
  exists p b1 p1 b2 rw0 db b3,
    let fi := match get_finfo p1 who with Some fi => fi | None => mkF 0 [] end in
    0 < pid /\ 0 < amt /\ get pid (pools s) = Some p /\ p_start p <= height s /\ expired s pid p = false
    /\ d = p_lpt p /\ send (bank s) who FARM d amt = Some b1
    /\ update_pool (height s) b1 p amt false = (p1, b2, true)
    /\ cacl (p_rules p1) (f_locked fi) (f_debt fi) amt = Some (rw0, db)
    /\ send_many b2 COLL who (positive_coins rw0) = Some b3 /\ rw = positive_coins rw0
    /\ s' = with_bank (with_pools s (set pid (with_farmers p1 (set who (mkF (f_locked fi + amt) db) (p_farmers p1))) (pools s))) b3.
Proof.
  unfold stake. destruct (Z.leb_spec pid 0); [discriminate|]. destruct (Z.ltb_spec amt 0); [discriminate|].
  destruct (Z.eqb_spec amt 0); [discriminate|].
  destruct (get pid (pools s)) as [p|] eqn:Ep; [|discriminate].
  destruct (Z.ltb_spec (height s) (p_start p)); [discriminate|].
  destruct (expired s pid p) eqn:Ex; [discriminate|].
  destruct (Z.eqb_spec d (p_lpt p)) as [Hd|Hd]; [|discriminate]. simpl.
  destruct (send (bank s) who FARM d amt) as [b1|] eqn:Es; [|discriminate].
  destruct (update_pool (height s) b1 p amt false) as [[p1 b2] ok] eqn:Eu. destruct ok; [|discriminate].
  destruct (cacl _ _ _ amt) as [[rw0 db]|] eqn:Ec; [|discriminate].
  destruct (send_many b2 COLL who (positive_coins rw0)) as [b3|] eqn:Es2; [|discriminate].
  intros HH; inversion HH; subst. exists p, b1, p1, b2, rw0, db, b3. simpl. repeat split; try assumption; try lia; reflexivity.
Qed.

(** the pool and ledger an unstake works on after its update step *)
Definition unstake_upd (s : state) (pid : Z) (p : pool) (amt : Z) : pool * ledger * bool :=
  if expired s pid p then (with_locked p (p_locked p - amt), bank s, true)
  else update_pool (height s) (bank s) p (- amt) false.

Lemma unstake_Done s who pid d amt s' rw :
  unstake s who pid d amt = Done s' rw ->
  exists p fi p1 b1 b2 rw0 db b3,
    0 < pid /\ 0 <= amt /\ get pid (pools s) = Some p /\ d = p_lpt p /\ get_finfo p who = Some fi
    /\ amt <= f_locked fi /\ amt <= p_locked p
    /\ unstake_upd s pid p amt = (p1, b1, true)
    /\ send b1 FARM who d amt = Some b2
    /\ cacl (p_rules p1) (f_locked fi) (f_debt fi) (- amt) = Some (rw0, db)
    /\ send_many b2 COLL who (positive_coins rw0) = Some b3 /\ rw = positive_coins rw0
    /\ s' = with_bank (with_pools s (set pid (with_farmers p1
               (if f_locked fi - amt =? 0 then del1 who (p_farmers p1) else set who (mkF (f_locked fi - amt) db) (p_farmers p1)))
               (pools s))) b3.
Proof.
  unfold unstake. destruct (Z.leb_spec pid 0); [discriminate|]. destruct (Z.ltb_spec amt 0); [discriminate|].
  destruct (get pid (pools s)) as [p|] eqn:Ep; [|discriminate].
  destruct (Z.eqb_spec d (p_lpt p)) as [Hd|Hd]; [|discriminate]. simpl.
  destruct (get_finfo p who) as [fi|] eqn:Ef; [|discriminate].
  destruct (Z.ltb_spec (f_locked fi) amt); [discriminate|]. destruct (Z.ltb_spec (p_locked p) amt); [discriminate|].
  fold (unstake_upd s pid p amt).
  destruct (unstake_upd s pid p amt) as [[p1 b1] ok] eqn:Eu. destruct ok; [|discriminate].
  destruct (send b1 FARM who d amt) as [b2|] eqn:Es; [|discriminate].
  destruct (cacl _ _ _ (- amt)) as [[rw0 db]|] eqn:Ec; [|discriminate].
  destruct (send_many b2 COLL who (positive_coins rw0)) as [b3|] eqn:Es2; [|discriminate].
  intros HH; inversion HH; subst. exists p, fi, p1, b1, b2, rw0, db, b3. repeat split; try assumption; try lia; reflexivity.
Qed.

Lemma harvest_Done s who pid s' rw :
  harvest s who pid = Done s' rw ->
  exists p fi p1 b1 rw0 db b2,
    get pid (pools s) = Some p /\ expired s pid p = false /\ get_finfo p who = Some fi
    /\ update_pool (height s) (bank s) p 0 false = (p1, b1, true)
    /\ cacl (p_rules p1) (f_locked fi) (f_debt fi) 0 = Some (rw0, db)
    /\ send_many b1 COLL who (positive_coins rw0) = Some b2 /\ rw = positive_coins rw0
    /\ s' = with_bank (with_pools s (set pid (with_farmers p1 (set who (mkF (f_locked fi) db) (p_farmers p1))) (pools s))) b2.
Proof.
  unfold harvest. destruct (get pid (pools s)) as [p|] eqn:Ep; [|discriminate].
  destruct (expired s pid p) eqn:Ex; [discriminate|].
  destruct (get_finfo p who) as [fi|] eqn:Ef; [|discriminate].
  destruct (update_pool (height s) (bank s) p 0 false) as [[p1 b1] ok] eqn:Eu. destruct ok; [|discriminate].
  destruct (cacl _ _ _ 0) as [[rw0 db]|] eqn:Ec; [|discriminate].
  destruct (send_many b1 COLL who (positive_coins rw0)) as [b2|] eqn:Es2; [|discriminate].
  intros HH; inversion HH; subst. exists p, fi, p1, b1, rw0, db, b2. repeat split; try assumption; reflexivity.
Qed.

(** ** Refund / DestroyPool / EndBlocker *)
Definition zero_rem (r : rule) : rule := mkRule (r_denom r) (r_total r) 0 (r_pb r) (r_rps r).
Definition zero_rules (p : pool) : pool := with_rules p (map zero_rem (p_rules p)).
Definition rem_coins (p : pool) : list (denom * Z) := map (fun r => (r_denom r, r_rem r)) (p_rules p).

Lemma refund_cases s pid p s' ok :
  refund s pid p = (s', ok) ->
  (exists p1 b1, update_pool (height s) (bank s) p 0 true = (p1, b1, false) /\ ok = false
                 /\ s' = mkSt (height s) (set pid p1 (pools s)) (dequeue (queue s) (p_end p, pid)) (seq s) b1 (cfee s) (trate s))
  \/ (exists p1 b1 b', update_pool (height s) (bank s) p 0 true = (p1, b1, true)
        /\ s' = mkSt (height s) (set pid (zero_rules p1) (pools s)) (dequeue (queue s) (p_end p, pid)) (seq s) b' (cfee s) (trate s)
        /\ ((b' = b1 /\ ok = false /\ (positive_coins (rem_coins p1) = []
                                       \/ send_many b1 FARM (p_creator p) (positive_coins (rem_coins p1)) = None))
            \/ (send_many b1 FARM (p_creator p) (positive_coins (rem_coins p1)) = Some b' /\ ok = true
                /\ positive_coins (rem_coins p1) <> []))).
Proof.
  unfold refund. destruct (update_pool (height s) (bank s) p 0 true) as [[p1 b1] okk] eqn:Eu. destruct okk.
  - fold (rem_coins p1). fold (zero_rules p1). intros H. right.
    destruct (positive_coins (rem_coins p1)) as [|c cs] eqn:Epc.
    + inversion H; subst. exists p1, b1, b1. rewrite Epc. split; [reflexivity|]. split; [reflexivity|]. left. auto.
    + destruct (send_many b1 FARM (p_creator p) (c :: cs)) as [b2|] eqn:Es; inversion H; subst.
      * exists p1, b1, b2. rewrite Epc. split; [reflexivity|]. split; [reflexivity|]. right. split; [exact Es|]. split; [reflexivity|discriminate].
      * exists p1, b1, b1. rewrite Epc. split; [reflexivity|]. split; [reflexivity|]. left. auto.
  - intros H. left. inversion H; subst. exists p1, b1. auto.
Qed.

Lemma destroy_Done s who pid s' rw :
  destroy s who pid = Done s' rw ->
  exists p, get pid (pools s) = Some p /\ who = p_creator p /\ p_edit p = true /\ expired s pid p = false
            /\ refund s pid p = (s', true) /\ rw = [].
Proof.
  unfold destroy. destruct (get pid (pools s)) as [p|] eqn:Ep; [|discriminate].
  destruct (Z.eqb_spec who (p_creator p)) as [Hw|Hw]; [|discriminate]. simpl.
  destruct (p_edit p) eqn:Ee; [|discriminate]. simpl.
  destruct (expired s pid p) eqn:Ex; [discriminate|].
  destruct (refund s pid p) as [s1 ok] eqn:Er. destruct ok; [|discriminate].
  intros H; inversion H; subst. exists p. repeat split; auto.
Qed.

(** ** ExpiredHeight / the interval computation of AdjustPool *)
Lemma min_interval_Some l iv : min_interval l = Some iv ->
  l <> [] /\ Forall (fun ap => iv <= Z.quot (fst ap) (snd ap)) l.
Proof.
  revert iv. induction l as [|[a pb] l IH]; simpl; intros iv H; [discriminate|].
  split; [discriminate|]. destruct (min_interval l) as [j|] eqn:E.
  - inversion H; subst. destruct (IH j eq_refl) as [_ Hall]. constructor; [simpl; lia|].
    eapply Forall_impl; [|exact Hall]. simpl. intros; lia.
  - inversion H; subst. destruct l as [|[a' pb'] l']; [constructor; [simpl; lia|constructor]|].
    simpl in E. destruct (min_interval l'); discriminate.
Qed.

Lemma min_interval_nonempty l : l <> [] -> exists iv, min_interval l = Some iv.
Proof.
  destruct l as [|[a pb] l]; [congruence|]. intros _. simpl. destruct (min_interval l); eexists; reflexivity.
Qed.

(** ** AdjustPool *)
Definition adj_rules (add rpb : list (denom * Z)) (p1 : pool) : list rule :=
  map (adj_pb rpb) (map (adj_topup add) (p_rules p1)).

Lemma adjust_Done s who pid add rpb s' rw :
  adjust s who pid add rpb = Done s' rw ->
  exists p p1 b1 b2 iv,
    let started := p_start p <=? height s in
    let start_h := if started then height s else p_start p in
    let e := start_h + iv in
    sorted_strict (map fst add) = true /\ Forall (fun c => 0 < snd c) add /\ Forall (fun c => 0 < snd c) rpb
    /\ get pid (pools s) = Some p /\ p_edit p = true /\ who = p_creator p /\ expired s pid p = false
    /\ Forall (fun c => exists r, In r (p_rules p) /\ r_denom r = fst c) add
    /\ update_pool (height s) (bank s) p 0 false = (p1, b1, true)
    /\ send_many b1 who FARM add = Some b2
    /\ min_interval (map (fun r => (adj_avail started (p_end p1 - start_h) add r, r_pb (adj_pb rpb r)))
                         (map (adj_topup add) (p_rules p1))) = Some iv
    /\ rw = []
    /\ s' = mkSt (height s) (set pid (with_end (with_rules p1 (adj_rules add rpb p1)) e) (pools s))
                 (if e =? p_end p1 then queue s else enqueue (dequeue (queue s) (p_end p1, pid)) (e, pid)) (seq s) b2 (cfee s) (trate s).
Proof.
  unfold adjust.
  destruct (match add with [] => match rpb with [] => true | _ => false end | _ => false end); [discriminate|].
  destruct (sorted_strict (map fst add) && sorted_strict (map fst rpb) && forallb (fun c => 0 <? snd c) add
            && forallb (fun c => 0 <? snd c) rpb) eqn:Ev; [|discriminate]. simpl.
  apply andb_true_iff in Ev. destruct Ev as [Ev Ev4]. apply andb_true_iff in Ev. destruct Ev as [Ev Ev3].
  apply andb_true_iff in Ev. destruct Ev as [Ev1 Ev2].
  destruct (get pid (pools s)) as [p|] eqn:Ep; [|discriminate].
  destruct (p_edit p) eqn:Ee; [|discriminate]. simpl.
  destruct (Z.eqb_spec who (p_creator p)) as [Hw|Hw]; [|discriminate]. simpl.
  destruct (expired s pid p) eqn:Ex; [discriminate|].
  destruct (forallb (fun c => existsb (fun r => r_denom r =? fst c) (p_rules p)) rpb); [|discriminate]. simpl.
  destruct (Z.of_nat (length (p_rules p)) <? Z.of_nat (length add)); [discriminate|]. simpl.
  destruct (forallb (fun c => existsb (fun r => (r_denom r =? fst c) && (0 <? r_rem r)) (p_rules p)) add) eqn:Ea; [|discriminate]. simpl.
  destruct (update_pool (height s) (bank s) p 0 false) as [[p1 b1] ok] eqn:Eu. destruct ok; [|discriminate].
  destruct (send_many b1 who FARM add) as [b2|] eqn:Es; [|discriminate].
  destruct (min_interval _) as [iv|] eqn:Em; [|discriminate].
  intros HH. exists p, p1, b1, b2, iv. cbv zeta.
  split; [exact Ev1|]. split.
  { rewrite forallb_forall in Ev3. apply Forall_forall. intros c Hc. specialize (Ev3 c Hc). apply Z.ltb_lt in Ev3. exact Ev3. }
  split.
  { rewrite forallb_forall in Ev4. apply Forall_forall. intros c Hc. specialize (Ev4 c Hc). apply Z.ltb_lt in Ev4. exact Ev4. }
  split; [first [assumption|reflexivity]|]. split; [first [assumption|reflexivity]|]. split; [exact Hw|]. split; [first [assumption|reflexivity]|]. split.
  { rewrite forallb_forall in Ea. apply Forall_forall. intros c Hc. specialize (Ea c Hc).
    apply existsb_exists in Ea. destruct Ea as [r [Hr Hd]]. apply andb_true_iff in Hd. destruct Hd as [Hd _].
    apply Z.eqb_eq in Hd. exists r. auto. }
  split; [first [assumption|reflexivity]|]. split; [exact Es|]. split; [exact Em|].
  fold (adj_rules add rpb p1) in HH.
  destruct (Z.eqb_spec ((if p_start p <=? height s then height s else p_start p) + iv) (p_end p1)) as [He|He].
  - inversion HH; subst. split; [reflexivity|]. unfold with_bank, with_pools. simpl. f_equal. f_equal.
    rewrite He. destruct p1; reflexivity.
  - inversion HH; subst. split; reflexivity.
Qed.

(** ** CreatePool *)
Definition new_rules (rules : list (denom * Z * Z)) : list rule := map (fun '(d, t, pb) => mkRule d t t pb 0) rules.

Lemma create_Done s who lpt start editable rules s' rw :
  create_pool s who lpt start editable rules = Done s' rw ->
  exists b1 b2 iv,
    sorted_strict (map (fun x => fst (fst x)) rules) = true
    /\ Forall (fun '(_, t, pb) => 0 < pb <= t) rules /\ rules <> []
    /\ height s <= start /\ deduct_fee (cfee s) (trate s) (bank s) who = Some b1
    /\ send_many b1 who FARM (map (fun '(d, t, _) => (d, t)) rules) = Some b2
    /\ min_interval (map (fun '(_, t, pb) => (t, pb)) rules) = Some iv
    /\ rw = []
    /\ s' = mkSt (height s) (set (seq s + 1) (mkPool who start (start + iv) 0 lpt 0 editable (new_rules rules) []) (pools s))
                 (enqueue (queue s) (start + iv, seq s + 1)) (seq s + 1) b2 (cfee s) (trate s).
Proof.
  unfold create_pool.
  destruct (negb (sorted_strict (map (fun x => fst (fst x)) rules))
            || negb (forallb (fun '(_, t, pb) => (0 <? pb) && (pb <=? t)) rules)
            || match rules with [] => true | _ => false end) eqn:Ev; [discriminate|].
  apply orb_false_iff in Ev. destruct Ev as [Ev Ev3]. apply orb_false_iff in Ev. destruct Ev as [Ev1 Ev2].
  apply negb_false_iff in Ev1. apply negb_false_iff in Ev2.
  destruct (Z.ltb_spec start (height s)); [discriminate|].
  destruct (max_categories <? Z.of_nat (length rules)); [discriminate|].
  destruct (negb (valid_lpt lpt)); [discriminate|].
  destruct (deduct_fee (cfee s) (trate s) (bank s) who) as [b1|] eqn:Ed; [|discriminate].
  destruct (send_many b1 who FARM _) as [b2|] eqn:Es; [|discriminate].
  destruct (min_interval _) as [iv|] eqn:Em; [|discriminate].
  intros HH; inversion HH; subst. exists b1, b2, iv.
  split; [exact Ev1|]. split.
  { rewrite forallb_forall in Ev2. apply Forall_forall. intros [[d t] pb] Hc. specialize (Ev2 _ Hc). simpl in Ev2.
    apply andb_true_iff in Ev2. destruct Ev2 as [E1 E2]. apply Z.ltb_lt in E1. apply Z.leb_le in E2. lia. }
  split; [destruct rules; [discriminate|discriminate]|].
  split; [lia|]. split; [reflexivity|]. split; [exact Es|]. split; [reflexivity|]. split; reflexivity.
Qed.
