(** * Farm: correspondence check and the C05 / C06 trace predicates, evaluated by [vm_compute]
    on the cases the harness writes.  Depends on Model.v only. *)
From Coq Require Import QArith.
From Irismod Require Export Farm.Model.
Close Scope Q_scope.
Open Scope Z_scope.

(** what the implementation showed after a step *)
Record obs := mkObs {
  o_code : Z;                        (* 0 ok, 1 rejected, 2 abort *)
  o_rw : list (denom * Z);           (* reward coins in the response *)
  o_pools : list (Z * pool);         (* every pool, by id, with its rules and the farmer infos of the actors *)
  o_queue : list (Z * Z);            (* raw active-pool queue keys *)
  o_bals : list (acct * list Z)      (* balances of actors 0..3, FARM, COLL, FEEC, BURN in denoms 0..3 *)
}.

Record case := mkCase {
  c_h0 : Z;                                   (* height of the first block *)
  c_bals : list (acct * list Z);              (* balances before the first step *)
  c_steps : list (step * obs);
  c_fair : list (Z * Z * Z * Z * Z)           (* harness reference: who, pool, denom, fair share num / den *)
}.

Definition actors : list Z := [0; 1; 2; 3].
Definition denoms : list Z := [0; 1; 2; 3].

Definition obal (o : obs) (x d : Z) : Z :=
  match get x (o_bals o) with Some l => nth (Z.to_nat d) l 0 | None => 0 end.

Definition ledger_of (bl : list (acct * list Z)) : ledger :=
  fold_left (fun l '(x, v) =>
     fold_left (fun l' d => credit l' x d (nth (Z.to_nat d) v 0)) denoms l) bl [].

(** ** correspondence *)
Definition rule_t (r : rule) := (r_denom r, r_total r, r_rem r, r_pb r, r_rps r).
Definition pool_core (p : pool) :=
  (p_creator p, p_start p, p_end p, p_last p, (p_lpt p, p_locked p, p_edit p), map rule_t (p_rules p)).
Definition finfo_t (o : option finfo) := match o with Some f => Some (f_locked f, f_debt f) | None => None end.

Definition pool_eqb (p q : pool) : bool :=
  eqb (pool_core p) (pool_core q)
  && (Z.of_nat (length (p_farmers p)) =? Z.of_nat (length (p_farmers q)))
  && forallb (fun a => eqb (finfo_t (get a (p_farmers p))) (finfo_t (get a (p_farmers q)))) actors.

Definition corr_step (s' : state) (oc : outcome) (rw : list (denom * Z)) (o : obs) : bool :=
  (o_code o =? outcome_code oc)
  && eqb (o_rw o) rw
  && (Z.of_nat (length (o_pools o)) =? Z.of_nat (length (pools s')))
  && forallb (fun '(id, p) => match get id (pools s') with Some q => pool_eqb q p | None => false end) (o_pools o)
  && (Z.of_nat (length (o_queue o)) =? Z.of_nat (length (queue s')))
  && forallb (in_queue (queue s')) (o_queue o)
  && forallb (fun '(x, _) => forallb (fun d => bal (bank s') x d =? obal o x d) denoms) (o_bals o).

(** ** C05 on the implementation's observations *)
Definition sum_locked (p : pool) : Z := zsum (map (fun xf => f_locked (snd xf)) (p_farmers p)).

Definition pool_contrib (p : pool) (d : denom) : Z :=
  (if p_lpt p =? d then p_locked p else 0)
  + zsum (map (fun r => if r_denom r =? d then r_rem r else 0) (p_rules p)).

Definition escrow_expected (ps : list (Z * pool)) (d : denom) : Z :=
  zsum (map (fun ip => pool_contrib (snd ip) d) ps).

Definition o_expired (h : Z) (o : obs) (pid : Z) (p : pool) : bool :=
  if p_end p <? h then true
  else if h =? p_end p then negb (in_queue (o_queue o) (p_end p, pid))
  else false.

Definition accrued (rps locked debt : Z) : Z := Z.max 0 (Z.quot (rps * locked) P18 - debt).

(** would the reward collector be short for this farmer's payout, were the pool updated now? *)
Definition collector_short (h : Z) (a : obs) (pid : Z) (p : pool) (f : finfo) : bool :=
  let live := negb (o_expired h a pid p) && (p_last p <? h) && (0 <? p_locked p) in
  let fix go (rs : list rule) (ds : list Z) : bool :=
    match rs with
    | [] => false
    | r :: rest =>
        let d := match ds with [] => 0 | d :: _ => d end in
        let c := if live then r_pb r * (h - p_last p) else 0 in
        let rps := if live then r_rps r + Z.quot (c * P18) (p_locked p) else r_rps r in
        (obal a COLL (r_denom r) + c <? accrued rps (f_locked f) d)
        || go rest (match ds with [] => [] | _ :: t => t end)
    end in
  go (p_rules p) (f_debt f).

Fixpoint accrued_list (rs : list rule) (locked : Z) (ds : list Z) : list (denom * Z) :=
  match rs with
  | [] => []
  | r :: rest =>
      let d := match ds with [] => 0 | d :: _ => d end in
      (r_denom r, accrued (r_rps r) locked d) :: accrued_list rest locked (match ds with [] => [] | _ :: t => t end)
  end.

(** clause codes: 1 stakes do not sum to the pool total; 2 escrow differs from stakes + budgets;
    3 a withdrawal within the stake failed and the reward collector is short; 6 it failed otherwise;
    4 principal / balance change wrong; 5 rewards differ from the accrued amount *)
Definition c05_step (h : Z) (a : obs) (st : step) (b : obs) : Z :=
  if negb (forallb (fun ip => sum_locked (snd ip) =? p_locked (snd ip)) (o_pools b)) then 1
  else if negb (forallb (fun d => obal b FARM d =? escrow_expected (o_pools b) d) denoms) then 2
  else match st with
  | Msg (Unstake w pid d amt) =>
      match get pid (o_pools a) with
      | None => 0
      | Some p =>
        match get w (p_farmers p) with
        | None => 0
        | Some f =>
          if (d =? p_lpt p) && (0 <=? amt) && (amt <=? f_locked f) then
            if negb (o_code b =? 0) then (if collector_short h a pid p f then 3 else 6)
            else match get pid (o_pools b) with
            | None => 4
            | Some pb =>
              let acc := positive_coins (accrued_list (p_rules pb) (f_locked f) (f_debt f)) in
              if negb (eqb (o_rw b) acc) then 5
              else if negb (forallb (fun d' => obal b w d' - obal a w d' =? (if d' =? d then amt else 0) + amount_of (o_rw b) d') denoms) then 4
              else if negb (match get w (p_farmers pb) with
                            | None => f_locked f - amt =? 0
                            | Some f' => negb (f_locked f - amt =? 0) && (f_locked f' =? f_locked f - amt)
                            end) then 4
              else 0
            end
          else 0
        end
      end
  | _ => 0
  end.

(** ** C06 on the implementation's observations *)
Definition refund_event (h : Z) (a : obs) (st : step) (b : obs) (pid : Z) : bool :=
  match st with
  | Msg (Destroy _ pid') => (pid' =? pid) && (o_code b =? 0)
  | NextBlock => in_queue (o_queue a) (h, pid)
  | _ => false
  end.

Definition topup (st : step) (b : obs) (pid : Z) (d : denom) : Z :=
  match st with
  | Msg (Adjust _ pid' add _) => if (pid' =? pid) && (o_code b =? 0) then amount_of add d else 0
  | _ => 0
  end.

(** released by this step for a rule of the pool: per block * blocks, only while someone is staked *)
Definition released (pa pb : pool) (r : rule) : Z :=
  if (p_last pa <? p_last pb) && (0 <? p_locked pa) then r_pb r * (p_last pb - p_last pa) else 0.

Definition rule_of (p : pool) (d : denom) : option rule := find (fun r => r_denom r =? d) (p_rules p).

(** codes: 10 a pool vanished / rule set changed; 11 total <> previous total + top-up (or creation budget wrong);
    12 remaining not zero after the refund point; 13 released more than remaining;
    14 remaining <> previous - released + top-up; 15 an actor's balance change is not the stated one
    (refund to the wrong party, twice, or not at all shows here); 16 reward collector change <> released - paid;
    17 remaining budget does not cover the schedule up to the end height; 18 payout outside the fair-share bound *)
Definition c06_pool (h : Z) (a : obs) (st : step) (b : obs) (pid : Z) (pa : pool) : Z :=
  match get pid (o_pools b) with
  | None => 10
  | Some pb =>
    if negb (eqb (map r_denom (p_rules pa)) (map r_denom (p_rules pb))) then 10
    else
      let R := refund_event h a st b pid in
      fold_left (fun code ra =>
        if negb (code =? 0) then code else
        match rule_of pb (r_denom ra) with
        | None => 10
        | Some rb =>
          let e := released pa pb ra in
          let t := topup st b pid (r_denom ra) in
          if negb (r_total rb =? r_total ra + t) then 11
          else if r_rem ra <? e then 13
          else if R then (if r_rem rb =? 0 then 0 else 12)
          else if r_rem rb =? r_rem ra - e + t then 0 else 14
        end) (p_rules pa) 0
  end.

Definition refund_to (h : Z) (a : obs) (st : step) (b : obs) (x : acct) (d : denom) : Z :=
  zsum (map (fun '(pid, pa) =>
    if refund_event h a st b pid && (p_creator pa =? x) then
      match get pid (o_pools b) with
      | None => 0
      | Some pb => zsum (map (fun ra => if r_denom ra =? d then r_rem ra - released pa pb ra else 0) (p_rules pa))
      end
    else 0) (o_pools a)).

Definition msg_delta (cf : Z) (b : obs) (st : step) (x : acct) (d : denom) : Z :=
  if negb (o_code b =? 0) then 0 else
  match st with
  | Msg (CreatePool w _ _ _ rules) =>
      if w =? x then - zsum (map (fun '(d', t, _) => if d' =? d then t else 0) rules)
                     - (if d =? STAKE then cf else 0) else 0
  | Msg (Stake w _ d' amt) => if w =? x then (if d' =? d then - amt else 0) + amount_of (o_rw b) d else 0
  | Msg (Unstake w _ d' amt) => if w =? x then (if d' =? d then amt else 0) + amount_of (o_rw b) d else 0
  | Msg (Harvest w _) => if w =? x then amount_of (o_rw b) d else 0
  | Msg (Adjust w _ add _) => if w =? x then - amount_of add d else 0
  | _ => 0
  end.

Definition released_total (a b : obs) (d : denom) : Z :=
  zsum (map (fun '(pid, pa) =>
    match get pid (o_pools b) with
    | None => 0
    | Some pb => zsum (map (fun ra => if r_denom ra =? d then released pa pb ra else 0) (p_rules pa))
    end) (o_pools a)).

Definition schedule_covered (o : obs) : bool :=
  forallb (fun '(pid, p) =>
    negb (in_queue (o_queue o) (p_end p, pid))
    || forallb (fun r => r_pb r * (p_end p - Z.max (p_start p) (p_last p)) <=? r_rem r) (p_rules p)) (o_pools o).

Definition new_pools_ok (a : obs) (st : step) (b : obs) : bool :=
  forallb (fun '(pid, pb) =>
    match get pid (o_pools a) with
    | Some _ => true
    | None =>
      match st with
      | Msg (CreatePool w lpt start ed rules) =>
          (o_code b =? 0)
          && eqb (map rule_t (p_rules pb)) (map (fun '(d, t, pb') => (d, t, t, pb', 0)) rules)
          && (p_locked pb =? 0) && (p_creator pb =? w)
      | _ => false
      end
    end) (o_pools b).

Definition c06_step (h cf : Z) (a : obs) (st : step) (b : obs) : Z :=
  let pc := fold_left (fun code '(pid, pa) => if negb (code =? 0) then code else c06_pool h a st b pid pa) (o_pools a) 0 in
  if negb (pc =? 0) then pc
  else if negb (new_pools_ok a st b) then 11
  else if negb (forallb (fun x => forallb (fun d =>
            obal b x d - obal a x d =? msg_delta cf b st x d + refund_to h a st b x d) denoms) actors) then 15
  else if negb (forallb (fun d => obal b COLL d - obal a COLL d =? released_total a b d - amount_of (o_rw b) d) denoms) then 16
  else if negb (schedule_covered b) then 17
  else 0.

(** *** fair shares, in exact rationals *)
Record share := mkShare { sh_fair : Q; sh_eps : Z; sh_paid : Z; sh_n : Z }.
Definition share0 := mkShare 0%Q 0 0 0.
Definition shares := amap (Z * Z * Z) share.     (* who, pool, denom *)

Definition sh_get (m : shares) k := match get k m with Some s => s | None => share0 end.

Definition fair_step (a : obs) (st : step) (b : obs) (m : shares) : shares :=
  (* accrual: what this step released, split by the stakes recorded before it *)
  let m1 := fold_left (fun m '(pid, pa) =>
    match get pid (o_pools b) with
    | None => m
    | Some pb =>
      fold_left (fun m ra =>
        let e := released pa pb ra in
        if e =? 0 then m else
        fold_left (fun m '(w, f) =>
          let k := (w, pid, r_denom ra) in
          let s := sh_get m k in
          set k (mkShare (Qred (Qplus (sh_fair s) (Qmake (e * f_locked f) (Z.to_pos (p_locked pa)))))
                         (sh_eps s + f_locked f) (sh_paid s) (sh_n s)) m) (p_farmers pa) m) (p_rules pa) m
    end) (o_pools a) m in
  (* payout: the reward coins of a successful farmer operation *)
  if negb (o_code b =? 0) then m1 else
  let pay w pid :=
    match get pid (o_pools b) with
    | None => m1
    | Some pb => fold_left (fun m r =>
        let k := (w, pid, r_denom r) in
        let s := sh_get m k in
        set k (mkShare (sh_fair s) (sh_eps s) (sh_paid s + amount_of (o_rw b) (r_denom r)) (sh_n s + 1)) m) (p_rules pb) m1
    end in
  match st with
  | Msg (Stake w pid _ _) => pay w pid
  | Msg (Unstake w pid _ _) => pay w pid
  | Msg (Harvest w pid) => pay w pid
  | _ => m1
  end.

(** what is still payable to the farmers recorded in the final state counts as one more interaction *)
Definition fair_close (b : obs) (m : shares) : shares :=
  fold_left (fun m '(pid, p) =>
    fold_left (fun m '(w, f) =>
      let fix go (rs : list rule) (ds : list Z) (m : shares) : shares :=
        match rs with
        | [] => m
        | r :: rest =>
            let d := match ds with [] => 0 | d :: _ => d end in
            let k := (w, pid, r_denom r) in
            let s := sh_get m k in
            go rest (match ds with [] => [] | _ :: t => t end)
               (set k (mkShare (sh_fair s) (sh_eps s) (sh_paid s + accrued (r_rps r) (f_locked f) d) (sh_n s + 1)) m)
        end in
      go (p_rules p) (f_debt f) m) (p_farmers p) m) (o_pools b) m.

(** -(n + eps * 10^-18) < paid - fair < n *)
Definition share_ok (s : share) : bool :=
  if sh_n s =? 0 then (sh_paid s =? 0) && match Qcompare (sh_fair s) 0%Q with Eq => true | _ => false end
  else
    let diff := Qminus (inject_Z (sh_paid s)) (sh_fair s) in
    let lo := Qopp (Qplus (inject_Z (sh_n s)) (Qmake (sh_eps s) (Z.to_pos P18))) in
    match Qcompare lo diff, Qcompare diff (inject_Z (sh_n s)) with
    | Lt, Lt => true
    | _, _ => false
    end.

Definition fair_ok (m : shares) : bool := forallb (fun ks => share_ok (snd ks)) m.

(** the harness' independent [big.Rat] reference agrees with the shares computed here *)
Definition fair_ref_ok (m : shares) (ref : list (Z * Z * Z * Z * Z)) : bool :=
  forallb (fun '(w, pid, d, num, den) =>
    match Qcompare (sh_fair (sh_get m (w, pid, d))) (Qmake num (Z.to_pos den)) with Eq => true | _ => false end) ref.

(** the property itself against the harness' INDEPENDENT reference: the farmer's payouts (read from the responses)
    are within the same bound of the block-by-block stake-weighted share that the harness computes from the stakes it
    observed at the start of every block.  (On an implementation that settles before every change of stake the
    reference equals the share accrued at settlement time, so this clause and clause 18 agree.) *)
Definition fair_ref_share_ok (m : shares) (ref : list (Z * Z * Z * Z * Z)) : bool :=
  forallb (fun '(w, pid, d, num, den) =>
    let s := sh_get m (w, pid, d) in
    share_ok (mkShare (Qmake num (Z.to_pos den)) (sh_eps s) (sh_paid s) (sh_n s))) ref.

(** ** the check loop *)
Definition obs0 (c : case) : obs := mkObs 0 [] [] [] (c_bals c).

Record acc := mkAcc {
  a_corr : Z; a_p5 : Z; a_c5 : Z; a_k5 : Z; a_kc5 : Z; a_p6 : Z; a_c6 : Z; a_sh : shares }.

Fixpoint check_from (s : state) (a : obs) (c : list (step * obs)) (i : Z) (x : acc) : acc * obs :=
  match c with
  | [] => (x, a)
  | (st, b) :: rest =>
      let '(s', oc, rw) := exec_step s st in
      let h := height s in
      let corr' := if (a_corr x <? 0) && negb (corr_step s' oc rw b) then i else a_corr x in
      let k5 := c05_step h a st b in
      let k6 := c06_step h (cfee s) a st b in
      (* the collector shortfall (code 3) has the lowest priority so that it never hides another clause *)
      let '(p5, c5) := if (a_p5 x <? 0) && negb (k5 =? 0) && negb (k5 =? 3) then (i, k5) else (a_p5 x, a_c5 x) in
      let '(kp5, kc5) := if (a_k5 x <? 0) && (k5 =? 3) then (i, k5) else (a_k5 x, a_kc5 x) in
      let '(p6, c6) := if (a_p6 x <? 0) && negb (k6 =? 0) then (i, k6) else (a_p6 x, a_c6 x) in
      check_from s' b rest (i + 1) (mkAcc corr' p5 c5 kp5 kc5 p6 c6 (fair_step a st b (a_sh x)))
  end.

Definition run_check (c : case) : acc * obs :=
  check_from (init (ledger_of (c_bals c)) (c_h0 c)) (obs0 c) (c_steps c) 0
             (mkAcc (-1) (-1) 0 (-1) 0 (-1) 0 []).

Definition n_steps (c : case) : Z := Z.of_nat (length (c_steps c)).

(** (first diverging step or -1, first step violating C05 or -1, clause) *)
Definition check_case_C05 (c : case) : Z * Z * Z :=
  let '(x, _) := run_check c in
  if 0 <=? a_p5 x then (a_corr x, a_p5 x, a_c5 x)
  else if 0 <=? a_k5 x then (a_corr x, a_k5 x, a_kc5 x)
  else (a_corr x, -1, 0).

Definition check_case_C06 (c : case) : Z * Z * Z :=
  let '(x, last) := run_check c in
  let m := fair_close last (a_sh x) in
  let corr := if (a_corr x <? 0) && negb (fair_ref_ok (a_sh x) (c_fair c)) then n_steps c else a_corr x in
  if 0 <=? a_p6 x then (corr, a_p6 x, a_c6 x)
  else if negb (fair_ok m) then (corr, n_steps c, 18)
  else if negb (fair_ref_share_ok m (c_fair c)) then (corr, n_steps c, 19)
  else (corr, -1, 0).
