(** * Farm: the block-by-block reference share equals the share accrued at settlement moments (clause 19) *)
From Coq Require Import QArith Lqa.
From Irismod Require Export Farm.FairModel.
Close Scope Q_scope.
Open Scope Z_scope.

(** ** what a step does to a pool: nothing, a withdrawal after expiry, or a settlement at the current height *)
Lemma expired_not_queued s pid p : inv s -> get pid (pools s) = Some p -> expired s pid p = true ->
  in_queue (queue s) (p_end p, pid) = false.
Proof.
  intros I Hg Hex. destruct (in_queue (queue s) (p_end p, pid)) eqn:Hq; [|reflexivity].
  destruct (i_sched _ I _ _ Hg Hq) as [Hle _]. unfold expired in Hex. rewrite Hq in Hex.
  destruct (Z.ltb_spec (p_end p) (height s)); [lia|]. destruct (height s =? p_end p); discriminate.
Qed.

Lemma refund_at_fail s m o pid : exec_msg s m = Fail o -> refund_at s (Msg m) pid = false.
Proof.
  intros E. unfold refund_at. destruct m; cbn [refund_event]; try reflexivity.
  rewrite (exec_fail_code _ _ _ E). apply andb_false_r.
Qed.

Definition step_case (s : state) (st : step) (pid : Z) (pa pb : pool) : Prop :=
  (pb = pa /\ refund_at s st pid = false)
  \/ (in_queue (queue s) (p_end pa, pid) = false /\ p_last pb = p_last pa /\ p_end pb = p_end pa)
  \/ (in_queue (queue s) (p_end pa, pid) = true /\ p_last pb = height s).

Lemma upd_last h b p amt dz p1 b1 : update_pool h b p amt dz = (p1, b1, true) -> p_last p1 = h.
Proof. intros Hu. destruct (update_pool_true _ _ _ _ _ _ _ Hu) as (_ & _ & _ & -> & _). reflexivity. Qed.

Lemma step_cases s st pid pa :
  inv s -> valid_step st -> get pid (pools s) = Some pa ->
  exists pb, get pid (pools (step_state s st)) = Some pb /\ step_case s st pid pa pb.
Proof.
  intros I Hv Hg. unfold step_state.
  assert (pid <= seq s) as Hseq.
  { pose proof (i_ids _ I) as Hids. rewrite Forall_forall in Hids. apply (Hids pid). eapply get_Some_in_keys; exact Hg. }
  assert (Hsame : forall s2, get pid (pools s2) = Some pa -> refund_at s st pid = false -> exists pb, get pid (pools s2) = Some pb /\ step_case s st pid pa pb).
  { intros s2 H2 H3. exists pa. split; [exact H2|left; split; [reflexivity|exact H3]]. }
  destruct st as [m|].
  - unfold exec_step. destruct (exec_msg s m) as [s' rw|o] eqn:E; cbn [fst snd]; [|exact (Hsame s Hg (refund_at_fail _ _ _ _ E))].
    destruct m as [who lpt start ed rules|who pid' d amt|who pid' d amt|who pid'|who pid' add rpb|who pid'|who cf tr]; simpl in E.
    + destruct (create_Done _ _ _ _ _ _ _ _ E) as (b1 & b2 & iv & _ & _ & _ & _ & _ & _ & _ & _ & ->).
      apply Hsame; [|reflexivity]. simpl. rewrite get_set_other by lia. exact Hg.
    + destruct (stake_Done _ _ _ _ _ _ _ E) as (p0 & b1 & p1 & b2 & rw0' & db & b3 & Hs). cbv zeta in Hs.
      destruct Hs as (_ & _ & Hg0 & _ & Hex & _ & _ & Hu & _ & _ & _ & ->).
      destruct (Z.eq_dec pid' pid) as [->|Hne]; [|apply Hsame; [simpl; rewrite get_set_other by congruence; exact Hg|reflexivity]].
      rewrite Hg in Hg0. inversion Hg0; subst p0. eexists. split; [simpl; rewrite get_set_same; reflexivity|].
      right. right. split; [exact (not_expired_in_queue _ _ _ I Hg Hex)|exact (upd_last _ _ _ _ _ _ _ Hu)].
    + destruct (unstake_Done _ _ _ _ _ _ _ E) as (p0 & fi & p1 & b1 & b2 & rw0' & db & b3 & Hs).
      destruct Hs as (_ & _ & Hg0 & _ & _ & _ & _ & Hupd & _ & _ & _ & _ & ->).
      destruct (Z.eq_dec pid' pid) as [->|Hne]; [|apply Hsame; [simpl; rewrite get_set_other by congruence; exact Hg|reflexivity]].
      rewrite Hg in Hg0. inversion Hg0; subst p0. eexists. split; [simpl; rewrite get_set_same; reflexivity|].
      unfold unstake_upd in Hupd. destruct (expired s pid pa) eqn:Hex.
      * inversion Hupd; subst. right. left. split; [exact (expired_not_queued _ _ _ I Hg Hex)|split; reflexivity].
      * right. right. split; [exact (not_expired_in_queue _ _ _ I Hg Hex)|exact (upd_last _ _ _ _ _ _ _ Hupd)].
    + destruct (harvest_Done _ _ _ _ _ E) as (p0 & fi & p1 & b1 & rw0' & db & b2 & Hs).
      destruct Hs as (Hg0 & Hex & _ & Hu & _ & _ & _ & ->).
      destruct (Z.eq_dec pid' pid) as [->|Hne]; [|apply Hsame; [simpl; rewrite get_set_other by congruence; exact Hg|reflexivity]].
      rewrite Hg in Hg0. inversion Hg0; subst p0. eexists. split; [simpl; rewrite get_set_same; reflexivity|].
      right. right. split; [exact (not_expired_in_queue _ _ _ I Hg Hex)|exact (upd_last _ _ _ _ _ _ _ Hu)].
    + destruct (adjust_Done _ _ _ _ _ _ _ E) as (p0 & p1 & b1 & b2 & iv & Hs). cbv zeta in Hs.
      destruct Hs as (_ & _ & _ & Hg0 & _ & _ & Hex & _ & Hu & _ & _ & _ & ->).
      destruct (Z.eq_dec pid' pid) as [->|Hne]; [|apply Hsame; [simpl; rewrite get_set_other by congruence; exact Hg|reflexivity]].
      rewrite Hg in Hg0. inversion Hg0; subst p0. eexists. split; [simpl; rewrite get_set_same; reflexivity|].
      right. right. split; [exact (not_expired_in_queue _ _ _ I Hg Hex)|exact (upd_last _ _ _ _ _ _ _ Hu)].
    + destruct (destroy_Done _ _ _ _ _ E) as (p0 & Hg0 & _ & _ & Hex & Hr & _).
      destruct (Z.eq_dec pid' pid) as [->|Hne]; [|apply Hsame; [rewrite (refund_get_other _ _ _ _ _ _ Hne Hr); exact Hg|unfold refund_at; cbn [refund_event]; apply Z.eqb_neq in Hne; rewrite Hne; reflexivity]].
      rewrite Hg in Hg0. inversion Hg0; subst p0. pose proof (not_expired_in_queue _ _ _ I Hg Hex) as Hq.
      destruct (update_succeeds s pid pa (bank s) 0 true I Hg Hq ltac:(intros; lia)) as (p1' & b1' & Hok').
      destruct (refund_cases _ _ _ _ _ Hr) as [(p1 & b1 & Hu & _)|(p1 & b1 & b' & Hu & -> & _)]; [congruence|].
      eexists. split; [simpl; rewrite get_set_same; reflexivity|]. right. right. split; [exact Hq|exact (upd_last _ _ _ _ _ _ _ Hu)].
    + destruct (update_params_Done _ _ _ _ _ _ E) as (_ & _ & _ & _ & ->). apply Hsame; [exact Hg|reflexivity].
  - unfold exec_step. cbn [fst snd]. simpl pools. unfold end_block.
    destruct (in_dec Z.eq_dec pid (due s)) as [Hin|Hni]; [|apply Hsame; [rewrite fold_other by exact Hni; exact Hg|]].
    2:{ unfold refund_at. cbn [refund_event]. apply in_queue_false. intros Hi. apply Hni. apply in_due. exact Hi. }
    destruct (end_block_effect (due s) s I (NoDup_due _ (i_qnd _ I)) (fun x H => proj1 (in_due s x) H)) as (_ & _ & Hp & _).
    destruct (Hp pid Hin) as (p & pb & Hg' & Hgb & Hla). rewrite Hg in Hg'. inversion Hg'; subst p.
    exists pb. split; [exact Hgb|]. right. right. split; [|exact Hla].
    apply in_due in Hin. apply in_queue_true in Hin. destruct (i_qwf _ I _ _ Hin) as (p & Hg'' & He). rewrite Hg in Hg''. inversion Hg''; subst p.
    rewrite He. exact Hin.
Qed.

Lemma step_height s st : inv s ->
  height (step_state s st) = match st with Msg _ => height s | NextBlock => height s + 1 end.
Proof.
  intros I. unfold step_state. destruct st as [m|].
  - unfold exec_step. destruct (exec_msg s m) as [s' rw|o] eqn:E; cbn [fst snd]; [|reflexivity].
    destruct m as [who lpt start ed rules|who pid' d amt|who pid' d amt|who pid'|who pid' add rpb|who pid'|who cf tr]; simpl in E.
    + destruct (create_Done _ _ _ _ _ _ _ _ E) as (b1 & b2 & iv & _ & _ & _ & _ & _ & _ & _ & _ & ->). reflexivity.
    + destruct (stake_Done _ _ _ _ _ _ _ E) as (p0 & b1 & p1 & b2 & rw0' & db & b3 & Hs). cbv zeta in Hs.
      destruct Hs as (_ & _ & _ & _ & _ & _ & _ & _ & _ & _ & _ & ->). reflexivity.
    + destruct (unstake_Done _ _ _ _ _ _ _ E) as (p0 & fi & p1 & b1 & b2 & rw0' & db & b3 & Hs).
      destruct Hs as (_ & _ & _ & _ & _ & _ & _ & _ & _ & _ & _ & _ & ->). reflexivity.
    + destruct (harvest_Done _ _ _ _ _ E) as (p0 & fi & p1 & b1 & rw0' & db & b2 & Hs).
      destruct Hs as (_ & _ & _ & _ & _ & _ & _ & ->). reflexivity.
    + destruct (adjust_Done _ _ _ _ _ _ _ E) as (p0 & p1 & b1 & b2 & iv & Hs). cbv zeta in Hs.
      destruct Hs as (_ & _ & _ & _ & _ & _ & _ & _ & _ & _ & _ & _ & ->). reflexivity.
    + destruct (destroy_Done _ _ _ _ _ E) as (p0 & Hg0 & _ & _ & Hex & Hr & _).
      pose proof (not_expired_in_queue _ _ _ I Hg0 Hex) as Hq.
      destruct (refund_effect _ _ _ _ _ I Hg0 Hq Hr) as (_ & _ & _ & _ & _ & _ & H & _). exact H.
    + destruct (update_params_Done _ _ _ _ _ _ E) as (_ & _ & _ & _ & ->). reflexivity.
  - unfold exec_step. cbn [fst snd height].
    destruct (end_block_fold (due s) s I (NoDup_due _ (i_qnd _ I)) (fun x H => proj1 (in_due s x) H)) as (_ & Hh & _).
    unfold end_block. rewrite Hh. reflexivity.
Qed.

(** ** the block-by-block reference on model histories *)
Open Scope Q_scope.

Definition pval (r dh l L : Z) : Q := (r * dh * l)%Z # Z.to_pos L.

(** what a recorded farmer has earned since the pool's last settlement and will be credited at the next one *)
Definition pending (s : state) (k : key) : Q :=
  let '(w, pid, d) := k in
  match get pid (pools s) with
  | Some p =>
      if in_queue (queue s) (p_end p, pid) && (0 <? p_locked p)%Z then
        match find (fun r => eqb (r_denom r) d) (p_rules p), get w (p_farmers p) with
        | Some r, Some f => pval (r_pb r) (height s - p_last p) (f_locked f) (p_locked p)
        | _, _ => 0
        end
      else 0
  | None => 0
  end.

(** the harness' [accrueBlock]: at the start of a block every running, staked pool hands the block's reward to the
    recorded farmers in proportion to the stakes they hold at that moment *)
Definition ref_block (s : state) (k : key) : Q :=
  let '(w, pid, d) := k in
  match get pid (pools s) with
  | Some p =>
      if in_queue (queue s) (p_end p, pid) && (height s <=? p_end p)%Z && (0 <? p_locked p)%Z then
        match find (fun r => eqb (r_denom r) d) (p_rules p), get w (p_farmers p) with
        | Some r, Some f => (r_pb r * f_locked f)%Z # Z.to_pos (p_locked p)
        | _, _ => 0
        end
      else 0
  | None => 0
  end.

Definition ref_step (s : state) (st : step) (k : key) : Q :=
  match st with NextBlock => ref_block (step_state s st) k | Msg _ => 0 end.

Fixpoint ref_hist (s : state) (steps : list step) (k : key) : Q :=
  match steps with
  | [] => 0
  | st :: rest => ref_step s st k + ref_hist (step_state s st) rest k
  end.

Lemma pval_zero r l L : pval r 0 l L == 0.
Proof. unfold pval, Qeq. simpl. ring. Qed.

Lemma pval_zero' r dh l L : (r * dh = 0)%Z -> pval r dh l L == 0.
Proof. intros H. unfold pval. rewrite H. unfold Qeq. simpl. ring. Qed.

Lemma pval_succ r dh l L : pval r (dh + 1) l L == pval r dh l L + ((r * l)%Z # Z.to_pos L).
Proof. unfold pval. rewrite <- Qmake_plus. replace (r * (dh + 1) * l)%Z with (r * dh * l + r * l)%Z by ring. reflexivity. Qed.

Lemma pval_one r l L : pval r 1 l L == ((r * l)%Z # Z.to_pos L).
Proof. unfold pval. replace (r * 1 * l)%Z with (r * l)%Z by ring. reflexivity. Qed.

Lemma fair_pay_spec w pid b k sh : sh_fair (pay_spec w pid b k sh) = sh_fair sh.
Proof.
  destruct k as [[w' pid'] d']. unfold pay_spec. destruct ((w' =? w)%Z && (pid' =? pid)%Z); [|reflexivity].
  destruct (get pid (o_pools b)); [|reflexivity]. destruct (find _ _); reflexivity.
Qed.

Lemma fair_step_spec a st b k sh : sh_fair (step_spec a st b k sh) = sh_fair (acc_spec a b k sh).
Proof.
  unfold step_spec. cbv zeta. destruct (negb (o_code b =? 0)%Z); [reflexivity|].
  destruct (farmer_op st) as [[w pid]|]; [apply fair_pay_spec|reflexivity].
Qed.

Lemma unqueued_of s pid p : inv s -> get pid (pools s) = Some p -> in_queue (queue s) (p_end p, pid) = false -> unqueued s pid.
Proof.
  intros I Hg Hq e. destruct (in_queue (queue s) (e, pid)) eqn:He; [|reflexivity].
  destruct (i_qwf _ I _ _ He) as (p' & Hg' & Hee). rewrite Hg in Hg'. inversion Hg'; subst p'.
  subst e. congruence.
Qed.

(** the model settles a pool before every change of its stakes: so over one step the share credited at the
    settlement moments plus what is pending grows by exactly the block-by-block reference *)
Lemma ref_step_lemma s st oc0 rw0 k sh : inv s -> valid_step st ->
  sh_fair (step_spec (obs_of s oc0 rw0) st (obs_after s st) k sh) + pending (step_state s st) k
  == sh_fair sh + pending s k + ref_step s st k.
Proof.
  intros I Hv. rewrite fair_step_spec. pose proof (step_inv s st I Hv) as I'. pose proof (step_height s st I) as Hh.
  destruct k as [[w pid] d]. unfold acc_spec.
  change (o_pools (obs_of s oc0 rw0)) with (pools s).
  replace (o_pools (obs_after s st)) with (pools (step_state s st)) by reflexivity.
  destruct (get pid (pools s)) as [pa|] eqn:Hg.
  2:{ assert (pending s (w, pid, d) = 0) as -> by (unfold pending; rewrite Hg; reflexivity).
      assert (pending (step_state s st) (w, pid, d) = 0 /\ ref_step s st (w, pid, d) = 0) as [-> ->].
      { destruct (get pid (pools (step_state s st))) as [pb|] eqn:Hgb.
        - destruct (new_pool_lemma _ _ _ _ Hg Hgb) as (who & lpt & start & ed & rules & -> & _ & _ & Hlk & _).
          split; [|reflexivity]. unfold pending. rewrite Hgb, Hlk. rewrite andb_false_r. reflexivity.
        - split; [unfold pending; rewrite Hgb; reflexivity|]. destruct st; [reflexivity|]. unfold ref_step, ref_block. rewrite Hgb. reflexivity. }
      ring. }
  pose proof (get_pool_inv _ _ _ I Hg) as PI.
  destruct (step_cases s st pid pa I Hv Hg) as (pb & Hgb & Hcase). rewrite Hgb.
  assert ((p_last pb = p_last pa /\ (in_queue (queue s) (p_end pa, pid) = false
                                      \/ (pb = pa /\ refund_at s st pid = false /\ in_queue (queue s) (p_end pa, pid) = true)))
          \/ (in_queue (queue s) (p_end pa, pid) = true /\ p_last pb = height s)) as Hc.
  { destruct Hcase as [[-> HR]|[(Hq & Hl & _)|H3]].
    - left. split; [reflexivity|]. destruct (in_queue (queue s) (p_end pa, pid)) eqn:Hq; [right; auto|left; reflexivity].
    - left. auto.
    - right. exact H3. }
  clear Hcase. destruct Hc as [[Hl [Hq|(-> & HR & Hq)]]|[Hq Hl]].
  - (* not running: nothing accrues, nothing is pending *)
    pose proof (unqueued_of _ _ _ I Hg Hq) as Hu. destruct (step_same_pool s st pid pa I Hg Hu) as [_ Hu'].
    assert (pending s (w, pid, d) = 0) as -> by (unfold pending; rewrite Hg, Hq; reflexivity).
    assert (pending (step_state s st) (w, pid, d) = 0) as -> by (unfold pending; rewrite Hgb, (Hu' (p_end pb)); reflexivity).
    assert (ref_step s st (w, pid, d) = 0) as ->.
    { destruct st; [reflexivity|]. unfold ref_step, ref_block. rewrite Hgb, (Hu' (p_end pb)). reflexivity. }
    destruct (find _ (p_rules pa)); [rewrite released_same_last by exact Hl; rewrite Z.eqb_refl|]; ring.
  - (* running and untouched: the pending amount grows by the block's share *)
    destruct (queued_persists s st pid I Hv (ex_intro _ pa (conj Hg Hq)) HR) as (p' & Hg' & Hq'). rewrite Hgb in Hg'. inversion Hg'; subst p'.
    destruct (i_sched _ I' _ _ Hgb Hq') as [Hle _].
    unfold pending. rewrite Hg, Hgb, Hq, Hq'. cbn [andb].
    destruct st; unfold ref_step.
    + cbv iota in Hh. rewrite Hh.
      destruct (find _ (p_rules pa)) as [ra|]; [rewrite released_same_last by reflexivity; rewrite Z.eqb_refl|]; ring.
    + unfold ref_block. rewrite Hgb, Hq'. rewrite (proj2 (Z.leb_le _ _) Hle). cbn [andb].
      destruct (find _ (p_rules pa)) as [ra|]; [rewrite released_same_last by reflexivity; rewrite Z.eqb_refl|destruct (0 <? p_locked pa)%Z; ring].
      destruct (0 <? p_locked pa)%Z; [|ring]. destruct (get w (p_farmers pa)); [|ring].
      cbv iota in Hh. rewrite Hh. replace (height s + 1 - p_last pa)%Z with (height s - p_last pa + 1)%Z by ring.
      rewrite pval_succ. ring.
  - (* settled at this height *)
    assert (pending (step_state s st) (w, pid, d) == ref_step s st (w, pid, d)) as Hps.
    { unfold pending. rewrite Hgb. destruct st.
      - unfold ref_step. cbv iota in Hh. rewrite Hh, Hl. replace (height s - height s)%Z with 0%Z by ring.
        destruct (_ && _); [|reflexivity]. destruct (find _ (p_rules pb)); [|reflexivity].
        destruct (get w (p_farmers pb)); [apply pval_zero|reflexivity].
      - unfold ref_step, ref_block. rewrite Hgb. destruct (in_queue (queue (step_state s NextBlock)) (p_end pb, pid)) eqn:Hq'; [|reflexivity].
        destruct (i_sched _ I' _ _ Hgb Hq') as [Hle _]. rewrite (proj2 (Z.leb_le _ _) Hle). cbn [andb].
        destruct (0 <? p_locked pb)%Z; [|reflexivity]. destruct (find _ (p_rules pb)); [|reflexivity].
        destruct (get w (p_farmers pb)); [|reflexivity].
        cbv iota in Hh. rewrite Hh, Hl. replace (height s + 1 - height s)%Z with 1%Z by ring. apply pval_one. }
    rewrite Hps. apply Qplus_inj_r. unfold pending. rewrite Hg, Hq. cbn [andb].
    destruct (find _ (p_rules pa)) as [ra|]; [|destruct (0 <? p_locked pa)%Z; ring].
    unfold released. rewrite Hl.
    destruct (Z.ltb_spec (p_last pa) (height s)); destruct (Z.ltb_spec 0 (p_locked pa)); cbn [andb].
    + destruct (r_pb ra * (height s - p_last pa) =? 0)%Z eqn:E0.
      * apply Z.eqb_eq in E0. destruct (get w (p_farmers pa)); [rewrite (pval_zero' _ _ _ _ E0)|]; ring.
      * destruct (get w (p_farmers pa)) as [f|]; [|ring]. unfold acc_g. cbn [sh_fair]. rewrite Qred_correct. unfold pval. reflexivity.
    + change (0 =? 0)%Z with true. cbv iota. ring.
    + change (0 =? 0)%Z with true. cbv iota. pose proof (pi_last _ _ PI). replace (height s - p_last pa)%Z with 0%Z by lia.
      destruct (get w (p_farmers pa)); [rewrite pval_zero|]; ring.
    + change (0 =? 0)%Z with true. cbv iota. ring.
Qed.

(** ** the checker's share map as a function of the model history *)
Fixpoint model_shares (s : state) (a : obs) (steps : list step) (m : shares) : shares :=
  match steps with
  | [] => m
  | st :: rest => model_shares (step_state s st) (obs_after s st) rest (fair_step a st (obs_after s st) m)
  end.

Lemma check_from_shares steps : forall s a i x,
  a_sh (fst (check_from s a (model_trace s steps) i x)) = model_shares s a steps (a_sh x).
Proof.
  induction steps as [|st steps IH]; intros s a i x; [reflexivity|].
  cbn [model_trace model_shares]. rewrite check_from_cons. cbv zeta. rewrite IH. reflexivity.
Qed.

Lemma ref_hist_lemma steps : forall s oc0 rw0 m k,
  inv s -> Forall valid_step steps ->
  sh_fair (sh_get (model_shares s (obs_of s oc0 rw0) steps m) k) + pending (run s steps) k
  == sh_fair (sh_get m k) + pending s k + ref_hist s steps k.
Proof.
  induction steps as [|st steps IH]; intros s oc0 rw0 m k I Hv; cbn [model_shares run ref_hist]; [ring|].
  inversion Hv as [|? ? H1 H2]; subst. pose proof (step_inv s st I H1) as I'.
  unfold obs_after at 1. fold (step_state s st). rewrite (IH (step_state s st) _ _ _ k I' H2).
  fold (obs_after s st).
  assert (sh_get (fair_step (obs_of s oc0 rw0) st (obs_after s st) m) k
          = step_spec (obs_of s oc0 rw0) st (obs_after s st) k (sh_get m k)) as ->.
  { apply fair_step_get.
    - exact (i_nodup _ I).
    - intros pid0 pa Hin. pose proof (get_pool_inv _ _ _ I (In_get _ _ _ (i_nodup _ I) Hin)) as PI.
      split; [exact (pi_denoms _ _ PI)|exact (pi_nodup _ _ PI)].
    - intros pid0 pb Hg. exact (pi_denoms _ _ (get_pool_inv _ _ _ I' Hg)). }
  rewrite (ref_step_lemma s st oc0 rw0 k (sh_get m k) I H1). ring.
Qed.

Lemma fair_close_spec b k sh : sh_fair (close_spec b k sh) = sh_fair sh.
Proof.
  destruct k as [[w pid] d]. unfold close_spec. destruct (get pid (o_pools b)) as [p|]; [|reflexivity].
  destruct (get w (p_farmers p)) as [f|]; [|reflexivity]. destruct (find_rd _ _ _) as [[r D]|]; reflexivity.
Qed.

Lemma pending_init b h k : pending (init b h) k = 0.
Proof. destruct k as [[w pid] d]. reflexivity. Qed.

Lemma pending_absent s w pid d p : get pid (pools s) = Some p -> get w (p_farmers p) = None -> pending s (w, pid, d) = 0.
Proof.
  intros Hg Hf. unfold pending. rewrite Hg. destruct (_ && _); [|reflexivity]. destruct (find _ _); [|reflexivity].
  unfold acct in *. rewrite Hf. reflexivity.
Qed.

Lemma pending_settled s w pid d p : get pid (pools s) = Some p -> p_last p = height s -> pending s (w, pid, d) == 0.
Proof.
  intros Hg Hl. unfold pending. rewrite Hg, Hl. replace (height s - height s)%Z with 0%Z by ring.
  destruct (_ && _); [|reflexivity]. destruct (find _ _); [|reflexivity]. destruct (get w _); [apply pval_zero|reflexivity].
Qed.

Lemma pending_stopped s w pid d p : get pid (pools s) = Some p -> in_queue (queue s) (p_end p, pid) = false -> pending s (w, pid, d) = 0.
Proof. intros Hg Hq. unfold pending. rewrite Hg, Hq. reflexivity. Qed.

(** ** from genesis: the block-by-block reference is the share credited at the settlement moments plus what is
    still pending; for a farmer who has withdrawn (or whose pool was just settled or has stopped) they coincide *)
Theorem reference_is_settlement_share_lemma b h steps k :
  genesis_ok b h -> Forall valid_step steps ->
  ref_hist (init b h) steps k
  == sh_fair (sh_get (model_shares (init b h) (obs_of (init b h) Ok []) steps []) k) + pending (run (init b h) steps) k.
Proof.
  intros G Hv. pose proof (ref_hist_lemma steps (init b h) Ok [] [] k (inv_init _ _ G) Hv) as H.
  rewrite pending_init in H. rewrite H. destruct k as [[w pid] d]. cbn. ring.
Qed.

(** ** clause 19 of the checker on model histories *)
Definition ref_row_ok (s0 : state) (steps : list step) (row : Z * Z * Z * Z * Z) : Prop :=
  let '(w, pid, d, num, den) := row in
  (num # Z.to_pos den) == ref_hist s0 steps (w, pid, d) /\ pending (run s0 steps) (w, pid, d) == 0.

Lemma share_ok_fair_eq q q' e p n : q == q' -> share_ok (mkShare q e p n) = share_ok (mkShare q' e p n).
Proof.
  intros H. unfold share_ok. cbn [sh_n sh_paid sh_fair sh_eps].
  assert (inject_Z p - q == inject_Z p - q') as Hd by (rewrite H; reflexivity).
  rewrite (Qcompare_comp q q' H 0 0 (Qeq_refl 0)).
  rewrite (Qcompare_comp _ _ (Qeq_refl (- (inject_Z n + (e # Z.to_pos P18)))) _ _ Hd).
  rewrite (Qcompare_comp _ _ Hd _ _ (Qeq_refl (inject_Z n))). reflexivity.
Qed.

Lemma share_ok_get m k : fair_ok m = true -> share_ok (sh_get m k) = true.
Proof.
  intros H. unfold sh_get. destruct (get k m) as [s|] eqn:E; [|reflexivity].
  unfold fair_ok in H. rewrite forallb_forall in H. exact (H (k, s) (get_In _ _ _ E)).
Qed.

Theorem model_passes_check_C06_ref_lemma h0 bl steps ref :
  genesis_ok (ledger_of bl) h0 -> bals_of (ledger_of bl) = bl ->
  Forall valid_step steps -> Forall actor_step steps ->
  Forall (ref_row_ok (init (ledger_of bl) h0) steps) ref ->
  check_case_C06 (model_case h0 bl steps ref) = (-1, -1, 0)%Z.
Proof.
  intros G Hc Hv Ha Href. unfold check_case_C06, run_check, model_case. cbn [c_bals c_h0 c_steps c_fair].
  set (s0 := init (ledger_of bl) h0) in *.
  assert (obs0 (mkCase h0 bl (model_trace s0 steps) ref) = obs_of s0 Ok []) as ->.
  { unfold obs0, obs_of, s0. cbn [c_bals init pools queue bank outcome_code]. rewrite Hc. reflexivity. }
  pose proof (inv_init _ _ G) as I0. fold s0 in I0.
  set (x0 := mkAcc (-1) (-1) 0 (-1) 0 (-1) 0 []).
  destruct (check_from_model_sh steps s0 Ok [] 0%Z x0 I0 Hv Ha) as (Hs & Hk & Hn & Hl).
  - unfold silent. cbn. repeat split; reflexivity.
  - intros [[w pid] d]. reflexivity.
  - constructor.
  - pose proof (check_from_shares steps s0 (obs_of s0 Ok []) 0%Z x0) as Hsh. cbn [a_sh x0] in Hsh.
    remember (check_from s0 (obs_of s0 Ok []) (model_trace s0 steps) 0 x0) as res eqn:Eres. destruct res as [x last]. cbn [fst snd] in *.
    destruct Hs as (X1 & X2 & X3 & X4 & X5 & X6 & X7). rewrite X1, X6.
    pose proof (run_inv steps _ I0 Hv) as IR.
    pose proof (fair_ok_model (run s0 steps) last (a_sh x) IR Hk Hn Hl) as Hok. rewrite Hok.
    assert (forall w pid d num den, In (w, pid, d, num, den) ref -> sh_fair (sh_get (a_sh x) (w, pid, d)) == num # Z.to_pos den) as Hfair.
    { intros w pid d num den Hin. rewrite Forall_forall in Href. destruct (Href _ Hin) as [H1 H2].
      rewrite H1. unfold s0. rewrite (reference_is_settlement_share_lemma _ _ steps (w, pid, d) G Hv). fold s0.
      rewrite H2, Hsh. ring. }
    assert (fair_ref_ok (a_sh x) ref = true) as ->.
    { unfold fair_ref_ok. apply forallb_forall. intros [[[[w pid] d] num] den] Hin.
      rewrite (proj1 (Qeq_alt _ _) (Hfair _ _ _ _ _ Hin)). reflexivity. }
    assert (fair_ref_share_ok (fair_close last (a_sh x)) ref = true) as ->; [|reflexivity].
    unfold fair_ref_share_ok. apply forallb_forall. intros [[[[w pid] d] num] den] Hin. cbv zeta.
    pose proof (share_ok_get _ (w, pid, d) Hok) as Hk1.
    assert (sh_fair (sh_get (fair_close last (a_sh x)) (w, pid, d)) == num # Z.to_pos den) as Hq.
    { rewrite fair_close_get.
      - rewrite fair_close_spec. exact (Hfair _ _ _ _ _ Hin).
      - rewrite Hl. exact (i_nodup _ IR).
      - rewrite Hl. intros pid0 p Hin0. pose proof (get_pool_inv _ _ _ IR (In_get _ _ _ (i_nodup _ IR) Hin0)) as PI.
        split; [exact (pi_denoms _ _ PI)|exact (pi_nodup _ _ PI)]. }
    destruct (sh_get (fair_close last (a_sh x)) (w, pid, d)) as [q e p n]. cbn [sh_fair sh_eps sh_paid sh_n] in *.
    rewrite <- (share_ok_fair_eq _ _ e p n Hq). exact Hk1.
Qed.
