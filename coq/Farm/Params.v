(** * Farm: parameter changes (MsgUpdateParams) and the fee split of CreatePool *)
From Irismod Require Export Farm.FairRef.

(** only the authority *)
Lemma params_only_by_authority s who cf tr : who <> AUTH -> update_params s who cf tr = Fail Rej.
Proof. intros H. unfold update_params. destruct (Z.eqb_spec who AUTH); [contradiction|reflexivity]. Qed.

(** the parameters a step leaves behind: those of a successful UpdateParams, otherwise the previous ones *)
Definition params_after (s : state) (st : step) : Z * dec :=
  match st with
  | Msg (UpdateParams who cf tr) => match update_params s who cf tr with Done _ _ => (cf, tr) | Fail _ => (cfee s, trate s) end
  | _ => (cfee s, trate s)
  end.

Lemma step_params s st : inv s -> (cfee (step_state s st), trate (step_state s st)) = params_after s st.
Proof.
  intros I. unfold step_state, params_after. destruct st as [m|].
  - unfold exec_step. destruct (exec_msg s m) as [s' rw|o] eqn:E; cbn [fst snd].
    2:{ destruct m; try reflexivity. simpl in E. rewrite E. reflexivity. }
    destruct m as [who lpt start ed rules|who pid' d amt|who pid' d amt|who pid'|who pid' add rpb|who pid'|who cf tr]; simpl in E.
    + destruct (create_Done _ _ _ _ _ _ _ _ E) as (b1 & b2 & iv & _ & _ & _ & _ & _ & _ & _ & _ & ->). reflexivity.
    + destruct (stake_Done _ _ _ _ _ _ _ E) as (p0 & b1 & p1 & b2 & rw0' & db & b3 & Hs). cbv zeta in Hs.
      destruct Hs as (_ & _ & _ & _ & _ & _ & _ & _ & _ & _ & _ & ->). reflexivity.
    + destruct (unstake_Done _ _ _ _ _ _ _ E) as (p0 & fi & p1 & b1 & b2 & rw0' & db & b3 & Hs).
      destruct Hs as (_ & _ & _ & _ & _ & _ & _ & _ & _ & _ & _ & _ & ->). reflexivity.
    + destruct (harvest_Done _ _ _ _ _ E) as (p0 & fi & p1 & b1 & rw0' & db & b2 & Hs).
      destruct Hs as (_ & _ & _ & _ & _ & _ & _ & ->). reflexivity.
    + destruct (adjust_Done _ _ _ _ _ _ _ E) as (p0 & p1 & b1 & b2 & iv & Hs). cbv zeta in Hs.
      destruct Hs as (_ & _ & _ & _ & _ & _ & _ & _ & _ & _ & _ & _ & ->). reflexivity.
    + destruct (destroy_Done _ _ _ _ _ E) as (p0 & Hg0 & _ & _ & Hex & Hr & _).
      destruct (refund_cases _ _ _ _ _ Hr) as [(p1 & b1 & _ & _ & ->)|(p1 & b1 & b' & _ & -> & _)]; reflexivity.
    + rewrite E. destruct (update_params_Done _ _ _ _ _ _ E) as (_ & _ & _ & _ & ->). reflexivity.
  - unfold exec_step. cbn [fst snd cfee trate]. unfold end_block.
    assert (forall l s0, cfee (fold_left end_block_one l s0) = cfee s0 /\ trate (fold_left end_block_one l s0) = trate s0) as H.
    { induction l as [|pid l IH]; intros s0; [split; reflexivity|]. simpl. destruct (IH (end_block_one s0 pid)) as [-> ->].
      unfold end_block_one. destruct (get pid (pools s0)) as [p|]; [|split; reflexivity].
      destruct (refund s0 pid p) as [s2 ok] eqn:Er.
      destruct (refund_cases _ _ _ _ _ Er) as [(p1 & b1 & _ & _ & ->)|(p1 & b1 & b' & _ & -> & _)]; split; reflexivity. }
    destruct (H (due s) s) as [-> ->]. reflexivity.
Qed.

(** the fee split of CreatePool: the creator pays the creation fee in force, the fee collector receives the tax
    (fee x tax rate, truncated), the rest is burned; the farm account only passes it on *)
Lemma deduct_fee_split cf tr b who b1 : deduct_fee cf tr b who = Some b1 ->
  who <> FARM -> who <> FEEC -> who <> BURN ->
  let tax := dec_truncate_int (dec_mul (dec_of_int cf) tr) in
  0 <= tax <= cf
  /\ forall d, bal b1 who d = bal b who d - (if d =? STAKE then cf else 0)
            /\ bal b1 FEEC d = bal b FEEC d + (if d =? STAKE then tax else 0)
            /\ bal b1 BURN d = bal b BURN d + (if d =? STAKE then cf - tax else 0)
            /\ bal b1 FARM d = bal b FARM d
            /\ forall x, x <> who -> x <> FARM -> x <> FEEC -> x <> BURN -> bal b1 x d = bal b x d.
Proof.
  unfold deduct_fee. cbv zeta. set (tax := dec_truncate_int (dec_mul (dec_of_int cf) tr)).
  destruct (send b who FARM STAKE cf) as [l1|] eqn:E1; [|discriminate].
  destruct (send l1 FARM FEEC STAKE tax) as [l2|] eqn:E2; [|discriminate].
  intros E3 HwF HwE HwB.
  destruct (send_bal _ _ _ _ _ _ E1) as [_ H1]. destruct (send_bal _ _ _ _ _ _ E2) as [[Ht0 _] H2]. destruct (send_bal _ _ _ _ _ _ E3) as [[Ht1 _] H3].
  split; [lia|]. intros d. rewrite !H3, !H2, !H1. unfold moved.
  assert (FARM =? FEEC = false) as X1 by reflexivity. assert (FARM =? BURN = false) as X2 by reflexivity.
  assert (FEEC =? BURN = false) as X3 by reflexivity. assert (FEEC =? FARM = false) as X4 by reflexivity.
  assert (BURN =? FARM = false) as X5 by reflexivity. assert (BURN =? FEEC = false) as X6 by reflexivity.
  rewrite !Z.eqb_refl, ?X1, ?X2, ?X3, ?X4, ?X5, ?X6.
  apply Z.eqb_neq in HwF, HwE, HwB. rewrite ?HwF, ?HwE, ?HwB, ?(Z.eqb_sym FARM who), ?(Z.eqb_sym FEEC who), ?(Z.eqb_sym BURN who), ?HwF, ?HwE, ?HwB.
  destruct (d =? STAKE); repeat split; try lia.
  all: intros x Hx1 Hx2 Hx3 Hx4; rewrite H3, H2, H1; unfold moved; apply Z.eqb_neq in Hx1, Hx2, Hx3, Hx4;
    rewrite ?Hx1, ?Hx2, ?Hx3, ?Hx4; destruct (d =? STAKE); lia.
Qed.

(** CreatePool charges the parameters in force at that moment *)
Lemma create_uses_current_params s who lpt start ed rules s' rw :
  create_pool s who lpt start ed rules = Done s' rw ->
  exists b1 b2, deduct_fee (cfee s) (trate s) (bank s) who = Some b1
                /\ send_many b1 who FARM (map (fun '(d, t, _) => (d, t)) rules) = Some b2 /\ bank s' = b2
                /\ cfee s' = cfee s /\ trate s' = trate s.
Proof.
  intros H. destruct (create_Done _ _ _ _ _ _ _ _ H) as (b1 & b2 & iv & _ & _ & _ & _ & Hfee & Hsend & _ & _ & ->).
  exists b1, b2. auto.
Qed.
