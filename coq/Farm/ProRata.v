(** * Farm: pro-rata payout, stated about histories of the model.
    The one-farmer / one-rule event abstraction of [Rewards.v], extended with the removal of the farmer's record
    when his stake reaches zero, and the projection of a model history onto it. *)
From Irismod Require Export Farm.Sound6.

(** ** the abstraction with record removal *)
Definition freset (y : fstate) : fstate := mkFS (a_rps y) 0 0 (a_paid y) (a_fair y) (a_n y).

(** as [fstep], but when an interaction leaves no stake the record (the debt) is dropped, as Unstake does *)
Definition fstep' (x : fstate) (e : fev) : fstate :=
  let y := fstep x e in
  match e with
  | Act _ => if a_l y =? 0 then freset y else y
  | Accrue _ => y
  end.

Lemma freset_inv y : finv y -> a_l y = 0 -> finv (freset y).
Proof.
  intros [Hr Hl HD Hn Hlo Hhi Hov] Hz. unfold fowed in *. rewrite Hz in *.
  constructor; unfold fowed; cbn [freset a_rps a_l a_D a_paid a_fair a_n]; try lia.
  pose proof P18_pos. nia.
Qed.

Lemma fstep'_inv x e : finv x -> fvalid (a_l x) [e] -> finv (fstep' x e).
Proof.
  intros I Hv. pose proof (fstep_inv x e I Hv) as Iy. unfold fstep'. destruct e as [dr|delta]; [exact Iy|].
  destruct (Z.eqb_spec (a_l (fstep x (Act delta))) 0) as [Hz|Hnz]; [apply freset_inv; assumption|exact Iy].
Qed.

Lemma fstep'_l x e : a_l (fstep' x e) = a_l (fstep x e).
Proof. unfold fstep'. destruct e; [reflexivity|]. destruct (Z.eqb_spec (a_l (fstep x (Act delta))) 0) as [Hz|]; [unfold freset; cbn [a_l]; symmetry; exact Hz|reflexivity]. Qed.

Lemma frun'_inv es : forall x, finv x -> fvalid (a_l x) es -> finv (fold_left fstep' es x).
Proof.
  induction es as [|e es IH]; simpl; intros x I Hv; [exact I|].
  apply IH.
  - apply fstep'_inv; [exact I|]. destruct e; simpl in *; tauto.
  - rewrite fstep'_l. destruct e; simpl in *; tauto.
Qed.

Definition fstart (r : Z) : fstate := mkFS r 0 0 0 0 0.

Lemma finv_start r : 0 <= r -> finv (fstart r).
Proof. intros Hr. constructor; unfold fowed; simpl; lia. Qed.

Lemma payout_lemma' r es : 0 <= r -> fvalid 0 es ->
  let x := fold_left fstep' es (fstart r) in
  a_paid x * P18 <= a_fair x
  /\ (a_l x = 0 -> a_fair x - a_paid x * P18 <= a_n x * (P18 - 1)).
Proof.
  intros Hr Hv x. pose proof (frun'_inv es (fstart r) (finv_start r Hr) Hv) as [Hr' Hl HD Hn Hlo Hhi Hov].
  fold x in Hr', Hl, HD, Hn, Hlo, Hhi, Hov. split; [exact Hov|]. intros Hz. unfold fowed in *. rewrite Hz in *. pose proof P18_pos. nia.
Qed.

(** ** small facts *)
Lemma csum_nodup_in cs d x : NoDup (map fst cs) -> In (d, x) cs -> csum cs d = x.
Proof.
  unfold csum. induction cs as [|[d0 x0] cs IH]; simpl; intros Hnd Hin; [contradiction|].
  inversion Hnd as [|? ? Hni Hnd']; subst. destruct Hin as [Heq|Hin].
  - inversion Heq; subst. rewrite Z.eqb_refl. fold (csum cs d). rewrite csum_notin by exact Hni. lia.
  - destruct (Z.eqb_spec d0 d) as [->|Hne].
    + exfalso. apply Hni. apply in_map_iff. exists (d, x). auto.
    + exact (IH Hnd' Hin).
Qed.

Lemma Forall2_refl_rps rs : Forall2 (fun r rb : rule => r_denom rb = r_denom r /\ r_rps r <= r_rps rb) rs rs.
Proof. induction rs; constructor; [split; [reflexivity|lia]|assumption]. Qed.

Lemma rps_mono_update h b p amt dz p1 b1 :
  pool_inv h p -> update_pool h b p amt dz = (p1, b1, true) ->
  Forall2 (fun r rb => r_denom rb = r_denom r /\ r_rps r <= r_rps rb) (p_rules p) (p_rules p1).
Proof.
  intros PI Hu. destruct (update_pool_true _ _ _ _ _ _ _ Hu) as (Hlast & _ & _ & -> & _). simpl.
  destruct (upd_iv_cases h p Hlast) as [Hz|(Hpos & HL & _)].
  - rewrite Hz, collect1_zero. apply Forall2_refl_rps.
  - apply Forall2_map_r. eapply Forall_impl; [|exact (pi_rule _ _ PI)]. intros r (_ & Hpb & _).
    destruct (dq_bounds (upd_iv h p) (p_locked p) r HL ltac:(nia)) as [Hq _].
    unfold collect1. simpl. fold (dq (upd_iv h p) (p_locked p) r). split; [reflexivity|lia].
Qed.

Lemma Forall2_map_same_rps (f : rule -> rule) rs rs0 :
  (forall r, r_denom (f r) = r_denom r /\ r_rps (f r) = r_rps r) ->
  Forall2 (fun r rb : rule => r_denom rb = r_denom r /\ r_rps r <= r_rps rb) rs0 rs ->
  Forall2 (fun r rb : rule => r_denom rb = r_denom r /\ r_rps r <= r_rps rb) rs0 (map f rs).
Proof.
  intros Hf H. induction H as [|r rb l l' (Hd & Hr) _ IH]; simpl; constructor; [|exact IH].
  destruct (Hf rb) as [H1 H2]. rewrite H1, H2. auto.
Qed.

Section Projection.
  (** the farmer, the pool, the position of the rule *)
  Variables (w pid : Z) (j : nat).

  Definition rule_j (s : state) : option rule :=
    match get pid (pools s) with Some p => nth_error (p_rules p) j | None => None end.
  Definition rps_of (s : state) : Z := match rule_j s with Some r => r_rps r | None => 0 end.
  Definition rec_of (s : state) : option finfo :=
    match get pid (pools s) with Some p => get w (p_farmers p) | None => None end.
  Definition l_of (s : state) : Z := match rec_of s with Some f => f_locked f | None => 0 end.
  Definition D_of (s : state) : Z := match rec_of s with Some f => nth j (f_debt f) 0 | None => 0 end.

  (** is the step an interaction of this farmer with this pool, and by how much does it change his stake *)
  Definition act_of (st : step) : option Z :=
    match st with
    | Msg (Stake w' pid' _ amt) => if (w' =? w) && (pid' =? pid) then Some amt else None
    | Msg (Unstake w' pid' _ amt) => if (w' =? w) && (pid' =? pid) then Some (- amt) else None
    | Msg (Harvest w' pid') => if (w' =? w) && (pid' =? pid) then Some 0 else None
    | _ => None
    end.
  Definition ok_step (s : state) (st : step) : bool := outcome_code (snd (fst (exec_step s st))) =? 0.

  (** what the farmer's record and the pool's rules look like after a step *)
  Definition rules_grow (rs rs' : list rule) : Prop :=
    Forall2 (fun r rb : rule => r_denom rb = r_denom r /\ r_rps r <= r_rps rb) rs rs'.

  Lemma farmer_view s st p :
    inv s -> valid_step st -> get pid (pools s) = Some p ->
    exists pb, get pid (pools (step_state s st)) = Some pb /\ rules_grow (p_rules p) (p_rules pb) /\
      match act_of st, ok_step s st with
      | Some delta, true =>
          let f := match get w (p_farmers p) with Some f => f | None => mkF 0 [] end in
          exists rw0 db, cacl (p_rules pb) (f_locked f) (f_debt f) delta = Some (rw0, db)
            /\ snd (exec_step s st) = positive_coins rw0 /\ 0 <= f_locked f + delta
            /\ get w (p_farmers pb) = (if f_locked f + delta =? 0 then None else Some (mkF (f_locked f + delta) db))
      | _, _ => get w (p_farmers pb) = get w (p_farmers p)
      end.
  Proof.
    intros I Hv Hg. pose proof (get_pool_inv _ _ _ I Hg) as PI.
    assert (pid <= seq s) as Hseq.
    { pose proof (i_ids _ I) as Hids. rewrite Forall_forall in Hids. apply (Hids pid). eapply get_Some_in_keys; exact Hg. }
    (* the common conclusion when the pool is untouched *)
    assert (forall s2, get pid (pools s2) = Some p -> act_of st = None \/ ok_step s st = false ->
              exists pb, get pid (pools s2) = Some pb /\ rules_grow (p_rules p) (p_rules pb) /\
                match act_of st, ok_step s st with
                | Some delta, true =>
                    let f := match get w (p_farmers p) with Some f => f | None => mkF 0 [] end in
                    exists rw0 db, cacl (p_rules pb) (f_locked f) (f_debt f) delta = Some (rw0, db)
                      /\ snd (exec_step s st) = positive_coins rw0 /\ 0 <= f_locked f + delta
                      /\ get w (p_farmers pb) = (if f_locked f + delta =? 0 then None else Some (mkF (f_locked f + delta) db))
                | _, _ => get w (p_farmers pb) = get w (p_farmers p)
                end) as Hsame.
    { intros s2 Hg2 Hno. exists p. split; [exact Hg2|]. split; [apply Forall2_refl_rps|].
      destruct Hno as [-> | ->]; [reflexivity|]. destruct (act_of st); reflexivity. }
    destruct st as [m|].
    - destruct (exec_msg s m) as [s' rw|o] eqn:E.
      2:{ assert (step_state s (Msg m) = s) as Hst by (unfold step_state, exec_step; rewrite E; reflexivity). rewrite Hst.
          apply Hsame; [exact Hg|]. right. unfold ok_step, exec_step. rewrite E. cbn [fst snd].
          pose proof (exec_msg_fail _ _ _ E). destruct o; [congruence|reflexivity|reflexivity]. }
      assert (ok_step s (Msg m) = true) as Hok by (unfold ok_step, exec_step; rewrite E; reflexivity).
      assert (step_state s (Msg m) = s') as Hst by (unfold step_state, exec_step; rewrite E; reflexivity).
      assert (snd (exec_step s (Msg m)) = rw) as Hrw by (unfold exec_step; rewrite E; reflexivity).
      rewrite Hst.
      destruct m as [who lpt start ed rules|who pid' d amt|who pid' d amt|who pid'|who pid' add rpb|who pid'|who cf tr]; simpl in E.
      + destruct (create_Done _ _ _ _ _ _ _ _ E) as (b1 & b2 & iv & _ & _ & _ & _ & _ & _ & _ & _ & ->).
        apply Hsame; [simpl; rewrite get_set_other by lia; exact Hg|left; reflexivity].
      + destruct (stake_Done _ _ _ _ _ _ _ E) as (p0 & b1 & p1 & b2 & rw0 & db & b3 & Hs). cbv zeta in Hs.
        destruct Hs as (_ & Hamt & Hg0 & _ & _ & _ & _ & Hu & Hc & _ & -> & ->).
        destruct (Z.eq_dec pid' pid) as [->|Hne].
        * rewrite Hg in Hg0. inversion Hg0; subst p0. destruct (end_after _ _ _ _ _ _ Hu) as (_ & Hfs & _).
          eexists. split; [simpl; rewrite get_set_same; reflexivity|]. split; [exact (rps_mono_update _ _ _ _ _ _ _ PI Hu)|].
          cbn [act_of]. rewrite Z.eqb_refl, andb_true_r. unfold get_finfo in Hc. rewrite Hfs in Hc. unfold acct in *.
          destruct (Z.eqb_spec who w) as [->|Hnw].
          -- rewrite Hok. cbv zeta. exists rw0, db. simpl p_rules. split; [exact Hc|]. split; [exact Hrw|].
             assert (0 <= f_locked match get w (p_farmers p) with Some f => f | None => mkF 0 [] end) as Hl.
             { destruct (get w (p_farmers p)) as [f|] eqn:Ef; [exact (proj1 (farmer_ok _ _ _ _ PI Ef))|simpl; lia]. }
             split; [lia|]. simpl p_farmers. rewrite get_set_same. unfold get_finfo. rewrite Hfs.
             destruct (Z.eqb_spec (f_locked match get w (p_farmers p) with Some f => f | None => mkF 0 [] end + amt) 0); [lia|reflexivity].
          -- simpl p_farmers. rewrite get_set_other by congruence. rewrite Hfs. reflexivity.
        * apply Hsame; [simpl; rewrite get_set_other by congruence; exact Hg|]. left. cbn [act_of].
          destruct (Z.eqb_spec pid' pid); [contradiction|]. rewrite andb_false_r. reflexivity.
      + destruct (unstake_Done _ _ _ _ _ _ _ E) as (p0 & fi & p1 & b1 & b2 & rw0 & db & b3 & Hs).
        destruct Hs as (_ & Hamt & Hg0 & _ & Hfi & Hle & _ & Hupd & _ & Hc & _ & -> & ->).
        destruct (Z.eq_dec pid' pid) as [->|Hne].
        * rewrite Hg in Hg0. inversion Hg0; subst p0. unfold get_finfo in Hfi. unfold acct in *.
          assert (p_farmers p1 = p_farmers p /\ rules_grow (p_rules p) (p_rules p1)) as [Hfs Hgrow].
          { unfold unstake_upd in Hupd. destruct (expired s pid p).
            - inversion Hupd; subst. simpl. split; [reflexivity|apply Forall2_refl_rps].
            - destruct (end_after _ _ _ _ _ _ Hupd) as (_ & Hfs & _). split; [exact Hfs|exact (rps_mono_update _ _ _ _ _ _ _ PI Hupd)]. }
          eexists. split; [simpl; rewrite get_set_same; reflexivity|]. split; [exact Hgrow|].
          cbn [act_of]. rewrite Z.eqb_refl, andb_true_r.
          destruct (Z.eqb_spec who w) as [->|Hnw].
          -- rewrite Hok. cbv zeta. rewrite Hfi. exists rw0, db. simpl p_rules. split; [exact Hc|]. split; [exact Hrw|].
             split; [lia|]. simpl p_farmers. rewrite Hfs. replace (f_locked fi + - amt) with (f_locked fi - amt) by lia.
             destruct (Z.eqb_spec (f_locked fi - amt) 0).
             ++ exact (get_del1_same w (p_farmers p) (pi_nodup _ _ PI)).
             ++ rewrite get_set_same. reflexivity.
          -- simpl p_farmers. rewrite Hfs. destruct (f_locked fi - amt =? 0).
             ++ apply get_del1_other. congruence.
             ++ apply get_set_other. congruence.
        * apply Hsame; [simpl; rewrite get_set_other by congruence; exact Hg|]. left. cbn [act_of].
          destruct (Z.eqb_spec pid' pid); [contradiction|]. rewrite andb_false_r. reflexivity.
      + destruct (harvest_Done _ _ _ _ _ E) as (p0 & fi & p1 & b1 & rw0 & db & b2 & Hs).
        destruct Hs as (Hg0 & _ & Hfi & Hu & Hc & _ & -> & ->).
        destruct (Z.eq_dec pid' pid) as [->|Hne].
        * rewrite Hg in Hg0. inversion Hg0; subst p0. destruct (end_after _ _ _ _ _ _ Hu) as (_ & Hfs & _).
          unfold get_finfo in Hfi. unfold acct in *.
          eexists. split; [simpl; rewrite get_set_same; reflexivity|]. split; [exact (rps_mono_update _ _ _ _ _ _ _ PI Hu)|].
          cbn [act_of]. rewrite Z.eqb_refl, andb_true_r.
          destruct (Z.eqb_spec who w) as [->|Hnw].
          -- rewrite Hok. cbv zeta. rewrite Hfi. exists rw0, db. simpl p_rules. split; [exact Hc|]. split; [exact Hrw|].
             pose proof (Forall_vals_get _ _ _ _ (pi_pos _ _ PI) Hfi) as Hpos. cbv beta in Hpos.
             split; [lia|]. simpl p_farmers. rewrite get_set_same. rewrite Z.add_0_r.
             destruct (Z.eqb_spec (f_locked fi) 0); [lia|reflexivity].
          -- simpl p_farmers. rewrite get_set_other by congruence. rewrite Hfs. reflexivity.
        * apply Hsame; [simpl; rewrite get_set_other by congruence; exact Hg|]. left. cbn [act_of].
          destruct (Z.eqb_spec pid' pid); [contradiction|]. rewrite andb_false_r. reflexivity.
      + destruct (adjust_Done _ _ _ _ _ _ _ E) as (p0 & p1 & b1 & b2 & iv & Hs). cbv zeta in Hs.
        destruct Hs as (_ & _ & _ & Hg0 & _ & _ & _ & _ & Hu & _ & _ & _ & ->).
        destruct (Z.eq_dec pid' pid) as [->|Hne].
        * rewrite Hg in Hg0. inversion Hg0; subst p0. destruct (end_after _ _ _ _ _ _ Hu) as (_ & Hfs & _).
          eexists. split; [simpl; rewrite get_set_same; reflexivity|]. split.
          -- simpl p_rules. unfold adj_rules. apply Forall2_map_same_rps; [intros r; split; reflexivity|].
             apply Forall2_map_same_rps; [intros r; split; reflexivity|]. exact (rps_mono_update _ _ _ _ _ _ _ PI Hu).
          -- cbn [act_of]. simpl p_farmers. rewrite Hfs. reflexivity.
        * apply Hsame; [simpl; rewrite get_set_other by congruence; exact Hg|left; reflexivity].
      + destruct (destroy_Done _ _ _ _ _ E) as (p0 & Hg0 & _ & _ & Hex & Hr & _).
        destruct (Z.eq_dec pid' pid) as [->|Hne].
        * rewrite Hg in Hg0. inversion Hg0; subst p0. pose proof (not_expired_in_queue _ _ _ I Hg Hex) as Hq.
          destruct (update_succeeds s pid p (bank s) 0 true I Hg Hq ltac:(intros; lia)) as (p1' & b1' & Hok').
          destruct (refund_cases _ _ _ _ _ Hr) as [(p1 & b1 & Hu & _)|(p1 & b1 & b' & Hu & -> & _)]; [congruence|].
          eexists. split; [simpl; rewrite get_set_same; reflexivity|]. split.
          -- simpl p_rules. apply Forall2_map_same_rps; [intros r; split; reflexivity|]. exact (rps_mono_update _ _ _ _ _ _ _ PI Hu).
          -- cbn [act_of]. destruct (update_pool_true _ _ _ _ _ _ _ Hu) as (_ & _ & _ & -> & _). reflexivity.
        * apply Hsame; [rewrite (refund_get_other _ _ _ _ _ _ Hne Hr); exact Hg|left; reflexivity].
      + destruct (update_params_Done _ _ _ _ _ _ E) as (_ & _ & _ & _ & ->). apply Hsame; [exact Hg|left; reflexivity].
    - unfold step_state, exec_step. cbn [fst snd]. simpl pools. unfold end_block.
      destruct (in_dec Z.eq_dec pid (due s)) as [Hin|Hni].
      + destruct (in_split _ _ Hin) as (l1 & l2 & Hl). pose proof (NoDup_due _ (i_qnd _ I)) as Hnd. rewrite Hl in Hnd.
        pose proof (NoDup_remove_2 _ _ _ Hnd) as Hnot. rewrite in_app_iff in Hnot.
        rewrite Hl, fold_left_app. simpl.
        destruct (end_block_fold l1 s I) as (I1 & Hh1 & Hq1).
        { apply NoDup_remove_1 in Hnd. exact (NoDup_prefix _ _ Hnd). }
        { intros x Hx. apply in_due. rewrite Hl. apply in_or_app. left. exact Hx. }
        set (s1 := fold_left end_block_one l1 s) in *.
        assert (get pid (pools s1) = Some p) as Hg1 by (unfold s1; rewrite fold_other by tauto; exact Hg).
        assert (In (height s, pid) (queue s1)) as Hq.
        { apply Hq1. split; [apply in_due; exact Hin|]. simpl. intros [_ Hx]. tauto. }
        apply in_queue_true in Hq. destruct (i_qwf _ I1 _ _ Hq) as (p0 & Hg0 & He0). rewrite Hg1 in Hg0. inversion Hg0; subst p0.
        rewrite fold_other by tauto. unfold end_block_one. rewrite Hg1.
        destruct (refund s1 pid p) as [s2 ok] eqn:Er. simpl. rewrite <- He0 in Hq.
        destruct (update_succeeds s1 pid p (bank s1) 0 true I1 Hg1 Hq ltac:(intros; lia)) as (p1' & b1' & Hok').
        destruct (refund_cases _ _ _ _ _ Er) as [(p1 & b1 & Hu & _)|(p1 & b1 & b' & Hu & -> & _)]; [congruence|].
        pose proof (get_pool_inv _ _ _ I1 Hg1) as PI1.
        eexists. split; [simpl; rewrite get_set_same; reflexivity|]. split.
        * simpl p_rules. apply Forall2_map_same_rps; [intros r; split; reflexivity|]. exact (rps_mono_update _ _ _ _ _ _ _ PI1 Hu).
        * cbn [act_of]. destruct (update_pool_true _ _ _ _ _ _ _ Hu) as (_ & _ & _ & -> & _). reflexivity.
      + exists p. split; [rewrite fold_other by exact Hni; exact Hg|]. split; [apply Forall2_refl_rps|reflexivity].
  Qed.
End Projection.

Lemma nth_error_Forall2 {A B} (P : A -> B -> Prop) l l' j a :
  Forall2 P l l' -> nth_error l j = Some a -> exists b, nth_error l' j = Some b /\ P a b.
Proof.
  intros H. revert j. induction H as [|x y l l' Hxy _ IH]; intros [|j] Hn; simpl in *; try discriminate.
  - inversion Hn; subst. exists y. auto.
  - exact (IH j Hn).
Qed.

Lemma fvalid_app es1 : forall es2 x, fvalid (a_l x) es1 -> fvalid (a_l (fold_left fstep' es1 x)) es2 -> fvalid (a_l x) (es1 ++ es2).
Proof.
  induction es1 as [|e es1 IH]; simpl; intros es2 x H1 H2; [exact H2|].
  destruct e as [dr|delta]; destruct H1 as [Ha Hb]; (split; [exact Ha|]).
  - apply (IH es2 (fstep' x (Accrue dr))); [rewrite fstep'_l; exact Hb|exact H2].
  - specialize (IH es2 (fstep' x (Act delta))). rewrite fstep'_l in IH. apply IH; [exact Hb|exact H2].
Qed.

Lemma amount_positive_in rw0 d x :
  NoDup (map fst rw0) -> Forall (fun c => 0 <= snd c) rw0 -> In (d, x) rw0 -> amount_of (positive_coins rw0) d = x.
Proof.
  intros Hnd Hnn Hin. rewrite (amount_of_csum _ _ (NoDup_fst_positive _ Hnd)), (csum_positive _ d Hnn).
  exact (csum_nodup_in _ _ _ Hnd Hin).
Qed.

Section History.
  Variables (w pid : Z) (j : nat).
  Notation rule_j := (rule_j pid j).
  Notation rps_of := (rps_of pid j).
  Notation rec_of := (rec_of w pid).
  Notation l_of := (l_of w pid).
  Notation D_of := (D_of w pid j).
  Notation act_of := (act_of w pid).

  (** the events of one step for this farmer and rule: the growth of the per-share value (possibly 0), then his
      interaction if the step is one and succeeded *)
  Definition events_of_step (s : state) (st : step) : list fev :=
    Accrue (rps_of (step_state s st) - rps_of s)
    :: match act_of st with Some delta => if ok_step s st then [Act delta] else [] | None => [] end.
  Fixpoint events (s : state) (steps : list step) : list fev :=
    match steps with [] => [] | st :: rest => events_of_step s st ++ events (step_state s st) rest end.

  (** what the history paid him from this rule (the reward coin of that denomination in the responses of his
      interactions), his exact share in units of 10^-18 (growth of the per-share value times the stake he held),
      and the number of his interactions — all read off the history, none from the abstraction *)
  Definition paid_in (s : state) (st : step) : Z :=
    match act_of st with
    | Some _ => if ok_step s st then match rule_j (step_state s st) with
                                     | Some r => amount_of (snd (exec_step s st)) (r_denom r) | None => 0 end else 0
    | None => 0
    end.
  Definition fair_in (s : state) (st : step) : Z := (rps_of (step_state s st) - rps_of s) * l_of s.
  Definition acts_in (s : state) (st : step) : Z :=
    match act_of st with Some _ => if ok_step s st then 1 else 0 | None => 0 end.
  Fixpoint hist_sum (g : state -> step -> Z) (s : state) (steps : list step) : Z :=
    match steps with [] => 0 | st :: rest => g s st + hist_sum g (step_state s st) rest end.

  Definition sim (s : state) (x : fstate) : Prop := a_rps x = rps_of s /\ a_l x = l_of s /\ a_D x = D_of s.

  Lemma sim_step s st x r :
    inv s -> valid_step st -> rule_j s = Some r -> sim s x ->
    let x' := fold_left fstep' (events_of_step s st) x in
    (exists r', rule_j (step_state s st) = Some r') /\ sim (step_state s st) x'
    /\ a_paid x' = a_paid x + paid_in s st /\ a_fair x' = a_fair x + fair_in s st /\ a_n x' = a_n x + acts_in s st
    /\ fvalid (a_l x) (events_of_step s st).
  Proof.
    intros I Hv Hr (Sr & Sl & SD). unfold ProRata.rule_j in Hr. destruct (get pid (pools s)) as [p|] eqn:Hg; [|discriminate].
    pose proof (get_pool_inv _ _ _ I Hg) as PI.
    destruct (farmer_view w pid s st p I Hv Hg) as (pb & Hgb & Hgrow & Hview).
    destruct (nth_error_Forall2 _ _ _ _ _ Hgrow Hr) as (rb & Hrb & Hd & Hle).
    assert (ProRata.rule_j pid j (step_state s st) = Some rb) as Hrj by (unfold ProRata.rule_j; rewrite Hgb; exact Hrb).
    assert (rps_of s = r_rps r) as Er by (unfold ProRata.rps_of, ProRata.rule_j; rewrite Hg, Hr; reflexivity).
    assert (rps_of (step_state s st) = r_rps rb) as Erb by (unfold ProRata.rps_of; rewrite Hrj; reflexivity).
    assert (rec_of s = get w (p_farmers p)) as Erec by (unfold ProRata.rec_of; rewrite Hg; reflexivity).
    assert (rec_of (step_state s st) = get w (p_farmers pb)) as Erecb by (unfold ProRata.rec_of; rewrite Hgb; reflexivity).
    cbv zeta. unfold events_of_step, paid_in, fair_in, acts_in. rewrite Erb, Er.
    split; [exists rb; exact Hrj|].
    destruct (act_of st) as [delta|] eqn:Ea; [destruct (ok_step s st) eqn:Eo|].
    - (* his interaction *)
      cbv zeta in Hview. destruct Hview as (rw0 & db & Hc & Hrw & Hnn & Hrec).
      set (f := match get w (p_farmers p) with Some f => f | None => mkF 0 [] end) in *.
      assert (l_of s = f_locked f /\ D_of s = nth j (f_debt f) 0) as [El ED].
      { unfold ProRata.l_of, ProRata.D_of. rewrite Erec. unfold f. destruct (get w (p_farmers p)); [auto|]. destruct j; auto. }
      assert (j < length (p_rules pb))%nat as Hj by (apply nth_error_Some; rewrite Hrb; discriminate).
      destruct (cacl_is_act _ _ _ _ _ _ j rb Hc Hj) as [Hpay Hdb]. cbv zeta in Hpay, Hdb.
      rewrite (nth_error_nth _ _ rb Hrb) in Hpay, Hdb.
      rewrite Hrj, Hrw.
      assert (amount_of (positive_coins rw0) (r_denom rb) = pay_of (r_rps rb) (f_locked f) (nth j (f_debt f) 0)) as Hamt.
      { apply amount_positive_in.
        - destruct (cacl_Some _ _ _ _ _ _ Hc) as (_ & _ & Hmf). rewrite Hmf.
          assert (map r_denom (p_rules pb) = map r_denom (p_rules p)) as ->.
          { clear -Hgrow. unfold rules_grow in Hgrow. induction Hgrow as [|a b l l' (H1 & _) _ IH]; simpl; [reflexivity|]. rewrite H1, IH. reflexivity. }
          exact (pi_denoms _ _ PI).
        - exact (cacl_rw_nonneg _ _ _ _ _ _ Hc).
        - rewrite <- Hpay. apply nth_In. destruct (cacl_Some _ _ _ _ _ _ Hc) as (Hlen & _). rewrite Hlen. exact Hj. }
      rewrite Hamt. cbn [fold_left]. unfold fstep'. cbn [fstep a_rps a_l a_D a_paid a_fair a_n].
      rewrite Sr, Sl, SD, Er, El, ED.
      replace (r_rps r + (r_rps rb - r_rps r)) with (r_rps rb) by lia.
      split; [|split; [|split; [|split; [|split; [lia|split; [lia|exact Logic.I]]]]]].
      + (* sim *) unfold sim. rewrite Erb. unfold ProRata.l_of, ProRata.D_of. rewrite Erecb, Hrec.
        destruct (Z.eqb_spec (f_locked f + delta) 0) as [Hz|Hnz]; cbn [freset a_rps a_l a_D f_locked f_debt]; [auto|].
        split; [reflexivity|]. split; [reflexivity|]. rewrite Hdb. reflexivity.
      + destruct (f_locked f + delta =? 0); reflexivity.
      + destruct (f_locked f + delta =? 0); cbn [freset a_fair]; lia.
      + destruct (f_locked f + delta =? 0); cbn [freset a_n]; lia.
    - (* his message failed: nothing of his changes *)
      cbn [fold_left]. unfold fstep'. cbn [fstep a_rps a_l a_D a_paid a_fair a_n].
      split; [|split; [lia|split; [rewrite Sl; lia|split; [lia|split; [lia|exact Logic.I]]]]].
      unfold sim. cbn [a_rps a_l a_D]. rewrite Erb. unfold ProRata.l_of, ProRata.D_of in *. rewrite Erecb, Hview, <- Erec.
      split; [lia|auto].
    - simpl fold_left. unfold fstep'. cbn [fstep a_rps a_l a_D a_paid a_fair a_n].
      split; [|split; [lia|split; [rewrite Sl; lia|split; [lia|split; [lia|exact Logic.I]]]]].
      unfold sim. cbn [a_rps a_l a_D]. rewrite Erb. unfold ProRata.l_of, ProRata.D_of in *. rewrite Erecb, Hview, <- Erec.
      split; [lia|auto].
  Qed.
End History.

(** ** whole histories *)
Lemma sim_run w pid j steps : forall s x r,
  inv s -> Forall valid_step steps -> rule_j pid j s = Some r -> sim w pid j s x ->
  let x' := fold_left fstep' (events w pid j s steps) x in
  sim w pid j (run s steps) x'
  /\ a_paid x' = a_paid x + hist_sum (paid_in w pid j) s steps
  /\ a_fair x' = a_fair x + hist_sum (fair_in w pid j) s steps
  /\ a_n x' = a_n x + hist_sum (acts_in w pid) s steps
  /\ fvalid (a_l x) (events w pid j s steps).
Proof.
  induction steps as [|st steps IH]; intros s x r I Hv Hr Hs; cbv zeta.
  - simpl. split; [exact Hs|]. repeat split; lia.
  - inversion Hv; subst. cbn [events run hist_sum]. rewrite fold_left_app.
    destruct (sim_step w pid j s st x r I H1 Hr Hs) as ((r' & Hr') & Hs' & Hp & Hf & Hn & Hval). cbv zeta in Hs', Hp, Hf, Hn.
    destruct (IH (step_state s st) _ r' (step_inv _ _ I H1) H2 Hr' Hs') as (Hs'' & Hp' & Hf' & Hn' & Hval'). cbv zeta in Hs'', Hp', Hf', Hn'.
    split; [exact Hs''|]. split; [lia|]. split; [lia|]. split; [lia|]. apply fvalid_app; assumption.
Qed.

(** PRO RATA on model histories.  From any state satisfying the invariant in which the pool exists, the rule is its
    [j]-th and the farmer holds no stake there: over ANY further history, what the responses of his interactions paid
    him from that rule never exceeds his exact share (growth of the per-share value times the stake he held, summed,
    in units of 10^-18); and whenever he has no stake left he has been paid less than one unit per interaction
    below it. *)
Lemma payout_model_lemma w pid j steps s r :
  inv s -> Forall valid_step steps -> rule_j pid j s = Some r -> rec_of w pid s = None ->
  hist_sum (paid_in w pid j) s steps * P18 <= hist_sum (fair_in w pid j) s steps
  /\ (rec_of w pid (run s steps) = None ->
      hist_sum (fair_in w pid j) s steps - hist_sum (paid_in w pid j) s steps * P18
      <= hist_sum (acts_in w pid) s steps * (P18 - 1)).
Proof.
  intros I Hv Hr Hrec.
  assert (0 <= rps_of pid j s) as Hr0.
  { unfold rps_of. rewrite Hr. unfold rule_j in Hr. destruct (get pid (pools s)) as [p|] eqn:Hg; [|discriminate].
    pose proof (pi_rule _ _ (get_pool_inv _ _ _ I Hg)) as Hok. rewrite Forall_forall in Hok.
    destruct (Hok r (nth_error_In _ _ Hr)) as (_ & _ & H). exact H. }
  assert (sim w pid j s (fstart (rps_of pid j s))) as Hs.
  { unfold sim, l_of, D_of. rewrite Hrec. simpl. auto. }
  destruct (sim_run w pid j steps s _ r I Hv Hr Hs) as ((_ & Hl & _) & Hp & Hf & Hn & Hval). cbv zeta in Hl, Hp, Hf, Hn.
  destruct (payout_lemma' (rps_of pid j s) (events w pid j s steps) Hr0 Hval) as [Ha Hb]. cbv zeta in Ha, Hb.
  simpl in Hp, Hf, Hn. rewrite Hp, Hf in Ha. split; [exact Ha|].
  intros Hnone. rewrite Hp, Hf, Hn in Hb. apply Hb. rewrite Hl. unfold l_of. rewrite Hnone. reflexivity.
Qed.

(** harvest frequency, on model histories: two histories (of possibly different states) in which the farmer earns the
    same exact share and ends without stake pay him amounts that differ by less than the number of his interactions *)
Lemma harvest_frequency_model_lemma w pid j steps1 s1 r1 steps2 s2 r2 :
  inv s1 -> Forall valid_step steps1 -> rule_j pid j s1 = Some r1 -> rec_of w pid s1 = None ->
  inv s2 -> Forall valid_step steps2 -> rule_j pid j s2 = Some r2 -> rec_of w pid s2 = None ->
  rec_of w pid (run s1 steps1) = None -> rec_of w pid (run s2 steps2) = None ->
  hist_sum (fair_in w pid j) s1 steps1 = hist_sum (fair_in w pid j) s2 steps2 ->
  - (hist_sum (acts_in w pid) s1 steps1 * (P18 - 1))
  <= (hist_sum (paid_in w pid j) s1 steps1 - hist_sum (paid_in w pid j) s2 steps2) * P18
  <= hist_sum (acts_in w pid) s2 steps2 * (P18 - 1).
Proof.
  intros I1 V1 R1 N1 I2 V2 R2 N2 E1 E2 Hf.
  destruct (payout_model_lemma w pid j steps1 s1 r1 I1 V1 R1 N1) as [A1 B1].
  destruct (payout_model_lemma w pid j steps2 s2 r2 I2 V2 R2 N2) as [A2 B2].
  specialize (B1 E1). specialize (B2 E2). lia.
Qed.

(** ** without assuming that the pool exists: from any state in which the farmer holds no stake in pool [pid]
    (in particular from genesis), for every rule position [j] *)
Lemma acts_in_nonneg w pid s st : 0 <= acts_in w pid s st.
Proof. unfold acts_in. destruct (act_of w pid st); [destruct (ok_step s st)|]; lia. Qed.

Lemma acts_hist_nonneg w pid steps : forall s, 0 <= hist_sum (acts_in w pid) s steps.
Proof. induction steps as [|st steps IH]; simpl; intros s; [lia|]. pose proof (acts_in_nonneg w pid s st). specialize (IH (step_state s st)). lia. Qed.

Lemma rules_grow_length rs rs' : rules_grow rs rs' -> length rs' = length rs.
Proof. unfold rules_grow. induction 1; simpl; [reflexivity|]. rewrite IHForall2. reflexivity. Qed.

(** the rule position does not exist in the pool: nothing is ever paid or accrued for it *)
Lemma out_of_range_zero w pid j steps : forall s p,
  inv s -> Forall valid_step steps -> get pid (pools s) = Some p -> nth_error (p_rules p) j = None ->
  hist_sum (paid_in w pid j) s steps = 0 /\ hist_sum (fair_in w pid j) s steps = 0.
Proof.
  induction steps as [|st steps IH]; simpl; intros s p I Hv Hg Hn; [auto|].
  inversion Hv; subst. destruct (farmer_view w pid s st p I H1 Hg) as (pb & Hgb & Hgrow & _).
  assert (nth_error (p_rules pb) j = None) as Hnb.
  { apply nth_error_None. rewrite (rules_grow_length _ _ Hgrow). apply nth_error_None. exact Hn. }
  destruct (IH (step_state s st) pb (step_inv _ _ I H1) H2 Hgb Hnb) as [-> ->].
  assert (rule_j pid j (step_state s st) = None) as Hr' by (unfold rule_j; rewrite Hgb; exact Hnb).
  assert (rule_j pid j s = None) as Hr by (unfold rule_j; rewrite Hg; exact Hn).
  unfold paid_in, fair_in, rps_of. rewrite Hr', Hr.
  split; [destruct (act_of w pid st); [destruct (ok_step s st)|]; lia|lia].
Qed.

Lemma payout_general_lemma w pid j steps : forall s,
  inv s -> Forall valid_step steps -> rec_of w pid s = None ->
  hist_sum (paid_in w pid j) s steps * P18 <= hist_sum (fair_in w pid j) s steps
  /\ (rec_of w pid (run s steps) = None ->
      hist_sum (fair_in w pid j) s steps - hist_sum (paid_in w pid j) s steps * P18
      <= hist_sum (acts_in w pid) s steps * (P18 - 1)).
Proof.
  induction steps as [|st steps IH]; intros s I Hv Hrec.
  - simpl. split; [lia|intros _; lia].
  - destruct (rule_j pid j s) as [r|] eqn:Hr; [exact (payout_model_lemma w pid j (st :: steps) s r I Hv Hr Hrec)|].
    destruct (get pid (pools s)) as [p|] eqn:Hg.
    + (* the pool exists but has no such rule *)
      assert (nth_error (p_rules p) j = None) as Hn by (unfold rule_j in Hr; rewrite Hg in Hr; exact Hr).
      destruct (out_of_range_zero w pid j (st :: steps) s p I Hv Hg Hn) as [-> ->].
      pose proof (acts_hist_nonneg w pid (st :: steps) s). pose proof P18_pos. split; [lia|intros _; nia].
    + (* the pool does not exist yet *)
      inversion Hv; subst. cbn [hist_sum run].
      assert (paid_in w pid j s st = 0 /\ fair_in w pid j s st = 0 /\ rec_of w pid (step_state s st) = None) as (Hp & Hf & Hrec').
      { assert (l_of w pid s = 0) as Hl by (unfold l_of; rewrite Hrec; reflexivity).
        assert (rps_of pid j s = 0) as Hr0 by (unfold rps_of; rewrite Hr; reflexivity).
        destruct (get pid (pools (step_state s st))) as [pb|] eqn:Hgb.
        - destruct (new_pool_lemma _ _ _ _ Hg Hgb) as (who & lpt & start & ed & rules & -> & _ & Hrs & _).
          split; [reflexivity|]. split.
          + unfold fair_in. rewrite Hl. lia.
          + unfold rec_of. rewrite Hgb. destruct (get w (p_farmers pb)) as [f|] eqn:Ef; [exfalso|reflexivity].
            pose proof (get_pool_inv _ _ _ (step_inv _ _ I H1) Hgb) as PIb.
            pose proof (Forall_vals_get _ _ _ _ (pi_pos _ _ PIb) Ef) as Hpos. cbv beta in Hpos.
            assert (f_locked f <= p_locked pb) as Hle.
            { rewrite <- (pi_sum _ _ PIb), sum_locked_eq. apply (asum_get_le _ w); [|exact Ef].
              pose proof (pi_farmers _ _ PIb) as Hfs. unfold vals in Hfs. rewrite Forall_map in Hfs.
              eapply Forall_impl; [|exact Hfs]. simpl. intros kv [Hx _]. exact Hx. }
            destruct (new_pool_lemma _ _ _ _ Hg Hgb) as (_ & _ & _ & _ & _ & _ & _ & _ & Hlk & _). lia.
        - assert (rule_j pid j (step_state s st) = None) as Hr' by (unfold rule_j; rewrite Hgb; reflexivity).
          split; [unfold paid_in; rewrite Hr'; destruct (act_of w pid st); [destruct (ok_step s st)|]; reflexivity|].
          split; [unfold fair_in; rewrite Hl; lia|unfold rec_of; rewrite Hgb; reflexivity]. }
      rewrite Hp, Hf. destruct (IH (step_state s st) (step_inv _ _ I H1) H2 Hrec') as [IHa IHb].
      pose proof (acts_in_nonneg w pid s st). pose proof P18_pos. split; [lia|]. intros Hend. specialize (IHb Hend). nia.
Qed.
