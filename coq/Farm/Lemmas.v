(** * Farm: generic lemmas (association-list sums, the ledger, several-coin sends) *)
From Irismod Require Export Farm.Model.

(** ** sums over association lists keyed by [Z] *)
Section ASum.
  Context {V : Type}.
  Variable f : V -> Z.

  Definition asum (m : amap Z V) : Z := zsum (map (fun kv => f (snd kv)) m).

  Lemma asum_nil : asum [] = 0.
  Proof. reflexivity. Qed.

  Lemma asum_set k v m :
    asum (set k v m) = asum m - (match get k m with Some o => f o | None => 0 end) + f v.
  Proof.
    unfold asum. induction m as [|[k0 v0] m IH]; simpl.
    - lia.
    - destruct (eq_dec k k0) as [->|Hk]; simpl; lia.
  Qed.

  Lemma asum_del1 k m o : get k m = Some o -> asum (del1 k m) = asum m - f o.
  Proof.
    unfold asum. induction m as [|[k0 v0] m IH]; simpl; [discriminate|].
    unfold eq_dec, EqDec_Z. destruct (Z.eq_dec k k0) as [->|Hk]; simpl.
    - intros H; inversion H; subst. lia.
    - intros H. specialize (IH H). unfold eq_dec, EqDec_Z in IH. lia.
  Qed.

  Lemma asum_nonneg m : Forall (fun kv => 0 <= f (snd kv)) m -> 0 <= asum m.
  Proof. unfold asum. induction 1; simpl; lia. Qed.

  Lemma asum_get_le k m o : Forall (fun kv => 0 <= f (snd kv)) m -> get k m = Some o -> f o <= asum m.
  Proof.
    unfold asum. induction 1 as [|[k0 v0] m H0 Hm IH]; simpl; [discriminate|].
    pose proof (asum_nonneg m Hm) as Hn. unfold asum in Hn.
    destruct (eq_dec k k0) as [->|Hk]; simpl in *.
    - intros H; inversion H; subst. lia.
    - intros H. specialize (IH H). lia.
  Qed.
End ASum.

Lemma asum_ext {V} (f g : V -> Z) m : (forall kv, In kv m -> f (snd kv) = g (snd kv)) -> asum f m = asum g m.
Proof.
  unfold asum. induction m as [|kv m IH]; simpl; intros H; [reflexivity|].
  rewrite (H kv) by (left; reflexivity). rewrite IH; [reflexivity|]. intros; apply H; right; assumption.
Qed.

Lemma asum_le {V} (f g : V -> Z) m : (forall kv, In kv m -> f (snd kv) <= g (snd kv)) -> asum f m <= asum g m.
Proof.
  unfold asum. induction m as [|kv m IH]; simpl; intros H; [lia|].
  pose proof (H kv (or_introl eq_refl)). assert (zsum (map (fun kv => f (snd kv)) m) <= zsum (map (fun kv => g (snd kv)) m)).
  { apply IH. intros; apply H; right; assumption. } lia.
Qed.

(** values *)
Definition vals {V} (m : amap Z V) : list V := map snd m.

Lemma Forall_vals_set {V} (P : V -> Prop) k v (m : amap Z V) :
  Forall P (vals m) -> P v -> Forall P (vals (set k v m)).
Proof.
  unfold vals. induction m as [|[k0 v0] m IH]; simpl; intros H Hv.
  - constructor; [assumption|constructor].
  - inversion H; subst. destruct (eq_dec k k0); simpl; constructor; auto.
Qed.

Lemma Forall_vals_del1 {V} (P : V -> Prop) k (m : amap Z V) :
  Forall P (vals m) -> Forall P (vals (del1 k m)).
Proof.
  unfold vals. induction m as [|[k0 v0] m IH]; simpl; intros H; [constructor|].
  inversion H; subst. destruct (Z.eq_dec k k0); simpl; [assumption|constructor; auto].
Qed.

Lemma Forall_vals_get {V} (P : V -> Prop) k (m : amap Z V) v :
  Forall P (vals m) -> get k m = Some v -> P v.
Proof.
  intros H Hg. apply get_In in Hg. unfold vals in H. rewrite Forall_forall in H.
  apply H. apply in_map_iff. exists (k, v). split; [reflexivity|assumption].
Qed.

Lemma keys_set_in {V} k v (m : amap Z V) x : In x (keys (set k v m)) -> x = k \/ In x (keys m).
Proof.
  unfold keys. induction m as [|[k0 v0] m IH]; simpl.
  - intros [H|[]]; left; congruence.
  - destruct (eq_dec k k0) as [->|Hk]; simpl.
    + intros [H|H]; [left; congruence|right; right; assumption].
    + intros [H|H]; [right; left; assumption|]. destruct (IH H); [left|right; right]; assumption.
Qed.

Lemma get_Some_in_keys {V} k (m : amap Z V) v : get k m = Some v -> In k (keys m).
Proof. intros H. apply get_In in H. unfold keys. apply in_map_iff. exists (k, v). split; [reflexivity|assumption]. Qed.

Lemma get_del1_other {V} k k' (m : amap Z V) : k' <> k -> get k' (del1 k m) = get k' m.
Proof.
  intros Hne. induction m as [|[k0 v0] m IH]; simpl; [reflexivity|].
  destruct (Z.eq_dec k k0) as [->|Hk]; simpl.
  - unfold eq_dec, EqDec_Z. destruct (Z.eq_dec k' k0); [contradiction|reflexivity].
  - destruct (eq_dec k' k0); [reflexivity|exact IH].
Qed.

Lemma keys_del1_sub {V} k (m : amap Z V) x : In x (keys (del1 k m)) -> In x (keys m).
Proof.
  unfold keys. induction m as [|[k0 v0] m IH]; simpl; [tauto|].
  destruct (Z.eq_dec k k0); simpl; [intros H; right; exact H|]. intros [H|H]; [left; exact H|right; exact (IH H)].
Qed.

Lemma keys_del1_NoDup {V} k (m : amap Z V) : NoDup (keys m) -> NoDup (keys (del1 k m)).
Proof.
  unfold keys. induction m as [|[k0 v0] m IH]; simpl; intros H; [constructor|].
  inversion H as [|? ? Hni Hnd]; subst. destruct (Z.eq_dec k k0); simpl; [exact Hnd|].
  constructor; [intros Hi; apply Hni; exact (keys_del1_sub _ _ _ Hi)|exact (IH Hnd)].
Qed.

Lemma get_del1_same {V} k (m : amap Z V) : NoDup (keys m) -> get k (del1 k m) = None.
Proof.
  unfold keys. induction m as [|[k0 v0] m IH]; simpl; intros H; [reflexivity|].
  inversion H as [|? ? Hni Hnd]; subst. destruct (Z.eq_dec k k0) as [->|Hne]; simpl.
  - destruct (get k0 m) eqn:E; [|reflexivity]. exfalso. apply Hni. apply get_In in E. apply in_map_iff. exists (k0, v). auto.
  - unfold eq_dec, EqDec_Z. destruct (Z.eq_dec k k0); [contradiction|]. exact (IH Hnd).
Qed.

(** ** the ledger *)
Lemma pair_neq_l (a a' : acct) (d d' : denom) : a' <> a -> (a', d') <> (a, d).
Proof. congruence. Qed.
Lemma pair_neq_r (a a' : acct) (d d' : denom) : d' <> d -> (a', d') <> (a, d).
Proof. congruence. Qed.

(** the change of every balance under one transfer, as a function *)
Definition moved (a from to : acct) (d dd x : Z) : Z :=
  if d =? dd then (if a =? to then x else 0) - (if a =? from then x else 0) else 0.

Lemma send_bal l from to dd x l' : send l from to dd x = Some l' ->
  0 <= x <= bal l from dd /\ forall a d, bal l' a d = bal l a d + moved a from to d dd x.
Proof.
  intros H. destruct (send_Some _ _ _ _ _ _ H) as (Hx & Hne & Heq & Hoth).
  split; [exact Hx|]. intros a d. unfold moved.
  destruct (Z.eqb_spec d dd) as [->|Hd].
  - destruct (Z.eqb_spec a to) as [Hto|Hto]; destruct (Z.eqb_spec a from) as [Hfrom|Hfrom].
    + subst a. subst to. rewrite (Heq eq_refl). lia.
    + subst a. destruct (Hne ltac:(congruence)) as [_ H2]. rewrite H2. lia.
    + subst a. destruct (Hne ltac:(congruence)) as [H1 _]. rewrite H1. lia.
    + rewrite Hoth by congruence. lia.
  - rewrite Hoth by congruence. lia.
Qed.

Lemma send_ok l from to d x : 0 <= x <= bal l from d -> exists l', send l from to d x = Some l'.
Proof.
  intros H. unfold send, debit.
  assert ((0 <=? x) && (x <=? bal l from d) = true) as ->.
  { apply andb_true_iff. split; apply Z.leb_le; lia. }
  eexists. reflexivity.
Qed.

(** amount of denomination [d] in a list of coins *)
Definition csum (cs : list (denom * Z)) (d : denom) : Z :=
  zsum (map (fun c => if fst c =? d then snd c else 0) cs).

Definition moved_many (a from to : acct) (d : denom) (cs : list (denom * Z)) : Z :=
  (if a =? to then csum cs d else 0) - (if a =? from then csum cs d else 0).

Lemma send_many_bal cs : forall l from to l', send_many l from to cs = Some l' ->
  Forall (fun c => 0 <= snd c) cs /\ forall a d, bal l' a d = bal l a d + moved_many a from to d cs.
Proof.
  induction cs as [|[dd x] cs IH]; simpl; intros l from to l' H.
  - inversion H; subst. split; [constructor|]. intros. unfold moved_many, csum. simpl.
    destruct (a =? to), (a =? from); lia.
  - destruct (send l from to dd x) as [l1|] eqn:E; [|discriminate].
    destruct (send_bal _ _ _ _ _ _ E) as [Hx Hb]. destruct (IH _ _ _ _ H) as [Hall Hb'].
    split; [constructor; simpl; [lia|assumption]|].
    intros a d. rewrite Hb', Hb. unfold moved_many, moved, csum. simpl.
    rewrite (Z.eqb_sym dd d).
    destruct (d =? dd), (a =? to), (a =? from); lia.
Qed.

Lemma csum_nonneg cs d : Forall (fun c => 0 <= snd c) cs -> 0 <= csum cs d.
Proof. unfold csum, denom. induction 1 as [|c cs H0 H IH]; simpl in *; [lia|]. destruct (fst c =? d); lia. Qed.

Lemma send_many_ok cs : forall l from to, from <> to ->
  Forall (fun c => 0 <= snd c) cs -> (forall d, csum cs d <= bal l from d) ->
  exists l', send_many l from to cs = Some l'.
Proof.
  induction cs as [|[dd x] cs IH]; simpl; intros l from to Hne Hall Hle.
  - eexists; reflexivity.
  - inversion Hall as [|? ? Hx Hall']; subst. simpl in Hx.
    pose proof (Hle dd) as Hdd. unfold csum in Hdd. simpl in Hdd. rewrite Z.eqb_refl in Hdd.
    pose proof (csum_nonneg cs dd Hall') as Hn. unfold csum in Hn.
    destruct (send_ok l from to dd x ltac:(lia)) as [l1 E]. rewrite E.
    destruct (send_bal _ _ _ _ _ _ E) as [_ Hb].
    apply IH; [assumption|assumption|].
    intros d. rewrite Hb. specialize (Hle d). unfold csum in Hle |- *. simpl in Hle.
    unfold moved. rewrite (Z.eqb_sym dd d) in Hle.
    destruct (Z.eqb_spec d dd) as [Hd|Hd].
    + subst d. destruct (Z.eqb_spec from to); [contradiction|]. unfold denom in *. rewrite ?Z.eqb_refl. lia.
    + unfold denom in *. lia.
Qed.

Lemma csum_filter_pos cs d : csum (positive_coins cs) d = csum (filter (fun c => 0 <? snd c) cs) d.
Proof. reflexivity. Qed.

Lemma csum_positive cs d : Forall (fun c => 0 <= snd c) cs -> csum (positive_coins cs) d = csum cs d.
Proof.
  unfold csum, positive_coins. induction cs as [|[d0 x] cs IH]; simpl; intros H; [reflexivity|].
  inversion H as [|? ? Hx H']; subst. simpl in Hx. specialize (IH H').
  destruct (Z.ltb_spec 0 x); simpl; [rewrite IH; reflexivity|].
  rewrite IH. assert (x = 0) as -> by lia. destruct (d0 =? d); reflexivity.
Qed.

Lemma positive_coins_nonneg cs : Forall (fun c => 0 <= snd c) (positive_coins cs).
Proof.
  unfold positive_coins. induction cs as [|[d0 x] cs IH]; simpl; [constructor|].
  destruct (Z.ltb_spec 0 x); [constructor; [simpl; lia|assumption]|assumption].
Qed.

Lemma amount_of_csum cs d : NoDup (map fst cs) -> amount_of cs d = csum cs d.
Proof.
  unfold amount_of, csum. induction cs as [|[d0 x] cs IH]; simpl; intros Hnd; [reflexivity|].
  inversion Hnd as [|? ? Hnotin Hnd']; subst.
  unfold eq_dec, EqDec_Z. destruct (Z.eq_dec d d0) as [->|Hd].
  - rewrite Z.eqb_refl.
    assert (zsum (map (fun c : Z * Z => if fst c =? d0 then snd c else 0) cs) = 0) as ->; [|lia].
    clear -Hnotin. induction cs as [|[d1 y] cs IH]; simpl in *; [reflexivity|].
    destruct (Z.eqb_spec d1 d0); [exfalso; apply Hnotin; left; assumption|].
    rewrite IH; [reflexivity|]. intros H; apply Hnotin; right; assumption.
  - destruct (Z.eqb_spec d0 d); [congruence|]. specialize (IH Hnd').
    unfold eq_dec, EqDec_Z in IH. rewrite IH. lia.
Qed.

Lemma sorted_strict_NoDup l : sorted_strict l = true -> NoDup l.
Proof.
  assert (forall l a, sorted_strict (a :: l) = true -> Forall (fun b => a < b) l /\ sorted_strict l = true) as Haux.
  { induction l0 as [|b l0 IH]; intros a H; [split; [constructor|reflexivity]|].
    simpl in H. apply andb_true_iff in H. destruct H as [Hab Hs]. apply Z.ltb_lt in Hab.
    destruct (IH b Hs) as [Hall Hs']. split; [|exact Hs].
    constructor; [assumption|]. eapply Forall_impl; [|exact Hall]. simpl; intros; lia. }
  induction l as [|a l IH]; intros H; [constructor|].
  destruct (Haux _ _ H) as [Hall Hs]. constructor; [|auto].
  intros Hin. rewrite Forall_forall in Hall. specialize (Hall _ Hin). lia.
Qed.
