(** * Farm module: executable model
    (modules/farm/keeper/{farmer,pool,queue,fees,msg_server}.go, types/{farm,msgs,validation}.go, abci.go)

    Accounts and denominations are small integers (the harness fixes the same numbering):
    actors 0..3, [FARM] = the farm module account (escrow), [COLL] = the [reward_collector]
    module account, [FEEC] = the fee collector, [BURN] = a sink standing for burned coins
    (the harness reports "initial supply - supply" as its balance).
    Denominations in the byte order of their names, which is the order of [sdk.Coins] and of
    the rule iterator: 0 = "lpt-1", 1 = "lpt-2", 2 = "rwd", 3 = "stake".

    No proofs here.  Every function names the Go function it restates. *)
From Irismod Require Export Base.Prelude Base.Dec Base.Bank.

Definition FARM : acct := 100.
Definition COLL : acct := 101.
Definition FEEC : acct := 102.
Definition BURN : acct := 103.
Definition STAKE : denom := 3.

(** types.DefaultParams: fee 5000stake, max 2 reward categories, tax rate 0.4 *)
Definition creation_fee : Z := 5000.
Definition tax_rate : dec := 400000000000000000.
Definition max_categories : Z := 2.

(** coinswap ValidatePool: the harness creates exactly the liquidity pools lpt-1 and lpt-2 *)
Definition valid_lpt (d : denom) : bool := (d =? 0) || (d =? 1).

Record rule := mkRule {
  r_denom : denom; r_total : Z; r_rem : Z; r_pb : Z; r_rps : dec }.

Record finfo := mkF { f_locked : Z; f_debt : list Z }.   (* debts aligned with the pool's rules *)

Record pool := mkPool {
  p_creator : acct; p_start : Z; p_end : Z; p_last : Z;
  p_lpt : denom; p_locked : Z; p_edit : bool;
  p_rules : list rule;                (* ascending by denom = store iteration order *)
  p_farmers : amap acct finfo }.

Record state := mkSt {
  height : Z;
  pools : amap Z pool;                (* pool id "farm-n" is n *)
  queue : list (Z * Z);               (* active-pool queue: (end height, pool id) *)
  seq : Z;
  bank : ledger;
  cfee : Z;                           (* params: pool creation fee (amount of STAKE) *)
  trate : dec }.                      (* params: tax rate *)

Definition init (b : ledger) (h : Z) : state := mkSt h [] [] 0 b creation_fee tax_rate.

(** ** small helpers *)
Definition with_rules (p : pool) (rs : list rule) : pool :=
  mkPool (p_creator p) (p_start p) (p_end p) (p_last p) (p_lpt p) (p_locked p) (p_edit p) rs (p_farmers p).
Definition with_farmers (p : pool) (fs : amap acct finfo) : pool :=
  mkPool (p_creator p) (p_start p) (p_end p) (p_last p) (p_lpt p) (p_locked p) (p_edit p) (p_rules p) fs.
Definition with_locked (p : pool) (x : Z) : pool :=
  mkPool (p_creator p) (p_start p) (p_end p) (p_last p) (p_lpt p) x (p_edit p) (p_rules p) (p_farmers p).
Definition with_end (p : pool) (e : Z) : pool :=
  mkPool (p_creator p) (p_start p) e (p_last p) (p_lpt p) (p_locked p) (p_edit p) (p_rules p) (p_farmers p).

Definition with_pools (s : state) (ps : amap Z pool) : state := mkSt (height s) ps (queue s) (seq s) (bank s) (cfee s) (trate s).
Definition with_bank (s : state) (b : ledger) : state := mkSt (height s) (pools s) (queue s) (seq s) b (cfee s) (trate s).
Definition with_queue (s : state) (q : list (Z * Z)) : state := mkSt (height s) (pools s) q (seq s) (bank s) (cfee s) (trate s).

(** remove the first binding of [k] only (keys are unique in every reachable state) *)
Fixpoint del1 {V} (k : Z) (m : amap Z V) : amap Z V :=
  match m with
  | [] => []
  | (k', v) :: m' => if Z.eq_dec k k' then m' else (k', v) :: del1 k m'
  end.

Definition in_queue (q : list (Z * Z)) (e : Z * Z) : bool := existsb (fun x => eqb x e) q.
(** queue.go EnqueueActivePool / DequeueActivePool (store Set / Delete of one key) *)
Definition enqueue (q : list (Z * Z)) (e : Z * Z) : list (Z * Z) := if in_queue q e then q else q ++ [e].
Definition dequeue (q : list (Z * Z)) (e : Z * Z) : list (Z * Z) := filter (fun x => negb (eqb x e)) q.

(** queue.go Expired *)
Definition expired (s : state) (pid : Z) (p : pool) : bool :=
  if p_end p <? height s then true
  else if height s =? p_end p then negb (in_queue (queue s) (p_end p, pid))
  else false.

(** several coins, one bank call: all or nothing *)
Fixpoint send_many (b : ledger) (from to : acct) (cs : list (denom * Z)) : option ledger :=
  match cs with
  | [] => Some b
  | (d, x) :: cs' => match send b from to d x with Some b' => send_many b' from to cs' | None => None end
  end.

Definition amount_of (cs : list (denom * Z)) (d : denom) : Z :=
  match get d cs with Some x => x | None => 0 end.

(** ** pool.go updatePool *)
Definition collect_rule (interval locked : Z) (r : rule) : option rule :=
  let c := r_pb r * interval in
  if r_rem r <? c then None
  else Some (mkRule (r_denom r) (r_total r) (r_rem r - c) (r_pb r)
                    (r_rps r + dec_quo_int (dec_of_int c) locked)).

(** the rules as they stand in the store when the loop ends or returns early, and whether it
    ran to the end (each rule is written back before the next one is examined) *)
Fixpoint collect_rules (interval locked : Z) (rs : list rule) : list rule * bool :=
  match rs with
  | [] => ([], true)
  | r :: rest =>
      match collect_rule interval locked r with
      | None => (r :: rest, false)
      | Some r' => let '(rest', ok) := collect_rules interval locked rest in (r' :: rest', ok)
      end
  end.

Definition collected (interval : Z) (rs : list rule) : list (denom * Z) :=
  map (fun r => (r_denom r, r_pb r * interval)) rs.

Definition finish_update (h : Z) (p : pool) (amount : Z) (destroy : bool) : pool :=
  let e := if destroy then h else p_end p in
  let st := if destroy then (if h <? p_start p then h else p_start p) else p_start p in
  mkPool (p_creator p) st e h (p_lpt p) (p_locked p + amount) (p_edit p) (p_rules p) (p_farmers p).

(** result: the pool and ledger as written so far, and whether the call returned nil *)
Definition update_pool (h : Z) (b : ledger) (p : pool) (amount : Z) (destroy : bool) : pool * ledger * bool :=
  if h <? p_last p then (p, b, false)
  else match p_rules p with
  | [] => (p, b, false)
  | _ =>
    if (p_last p <? h) && (0 <? p_locked p) then
      let interval := h - p_last p in
      let '(rs', ok) := collect_rules interval (p_locked p) (p_rules p) in
      if ok then
        match send_many b FARM COLL (collected interval (p_rules p)) with
        | Some b' => (finish_update h (with_rules p rs') amount destroy, b', true)
        | None => (with_rules p rs', b, false)
        end
      else (with_rules p rs', b, false)
    else (finish_update h p amount destroy, b, true)
  end.

(** ** types/farm.go CaclRewards *)
(** (as repaired by the [fix:] commit of the farm group: the debt of the stake added / removed
    is rounded against the farmer and a pending amount is only paid when it is positive)

    [acc_total]  = RewardPerShare.MulInt(locked).TruncateInt()
    [pay_of]     = what is paid for one rule: the truncated total above the debt, if any
    [debt_paid]  = the debt once that has been paid
    [debt_delta] = RewardPerShare.MulInt(|delta|), rounded up for an addition
                   ([Ceil().TruncateInt()]) and down for a removal ([TruncateInt()]) *)
Definition acc_total (rps locked : Z) : Z := dec_truncate_int (dec_mul_int rps locked).
Definition pays (rps locked debt : Z) : bool := (0 <? locked) && (debt <? acc_total rps locked).
Definition pay_of (rps locked debt : Z) : Z := if pays rps locked debt then acc_total rps locked - debt else 0.
Definition debt_paid (rps locked debt : Z) : Z := if pays rps locked debt then acc_total rps locked else debt.
Definition debt_delta (rps delta : Z) : Z :=
  if delta <? 0 then - dec_truncate_int (dec_mul_int rps (- delta))
  else dec_truncate_int (dec_ceil (dec_mul_int rps delta)).
Definition new_debt (rps locked debt delta : Z) : Z := debt_paid rps locked debt + debt_delta rps delta.

(** [None] = [sdk.NewCoin] panics on a negative amount.  Rewards are listed per rule, zero
    amounts included (the caller drops them as [sdk.Coins.Add] does). *)
Fixpoint cacl (rs : list rule) (locked : Z) (debts : list Z) (delta : Z) : option (list (denom * Z) * list Z) :=
  match rs with
  | [] => Some ([], [])
  | r :: rest =>
      let d := match debts with [] => 0 | d :: _ => d end in
      let ds := match debts with [] => [] | _ :: ds => ds end in
      let nd := new_debt (r_rps r) locked d delta in
      if nd <? 0 then None
      else match cacl rest locked ds delta with
           | None => None
           | Some (rw, db) => Some ((r_denom r, pay_of (r_rps r) locked d) :: rw, nd :: db)
           end
  end.

Definition positive_coins (cs : list (denom * Z)) : list (denom * Z) := filter (fun c => 0 <? snd c) cs.

(** ** messages *)
Inductive msg :=
| CreatePool (who : acct) (lpt : denom) (start : Z) (editable : bool) (rules : list (denom * Z * Z))  (* denom, total, per block *)
| Stake (who : acct) (pid : Z) (d : denom) (amt : Z)
| Unstake (who : acct) (pid : Z) (d : denom) (amt : Z)
| Harvest (who : acct) (pid : Z)
| Adjust (who : acct) (pid : Z) (add : list (denom * Z)) (rpb : list (denom * Z))    (* [] = nil *)
| Destroy (who : acct) (pid : Z)
| UpdateParams (who : acct) (cf : Z) (tr : dec).   (* MsgUpdateParams: creation fee amount and tax rate *)

Inductive result :=
| Done (s : state) (rewards : list (denom * Z))
| Fail (o : outcome).

Fixpoint sorted_strict (l : list Z) : bool :=
  match l with
  | a :: ((b :: _) as t) => (a <? b) && sorted_strict t
  | _ => true
  end.

(** fees.go DeductPoolCreationFee *)
Definition deduct_fee (cf : Z) (tr : dec) (b : ledger) (who : acct) : option ledger :=
  let tax := dec_truncate_int (dec_mul (dec_of_int cf) tr) in
  match send b who FARM STAKE cf with
  | None => None
  | Some b1 =>
    match send b1 FARM FEEC STAKE tax with
    | None => None
    | Some b2 => send b2 FARM BURN STAKE (cf - tax)
    end
  end.

(** types/farm.go ExpiredHeight: start + min_i total_i / per_block_i *)
Fixpoint min_interval (l : list (Z * Z)) : option Z :=   (* (available, per block) *)
  match l with
  | [] => None
  | (a, pb) :: rest =>
      let i := Z.quot a pb in
      match min_interval rest with None => Some i | Some j => Some (Z.min i j) end
  end.

(** msgs.go ValidateBasic + msg_server.go CreatePool + pool.go CreatePool/createPool *)
Definition create_pool (s : state) (who : acct) (lpt : denom) (start : Z) (editable : bool)
           (rules : list (denom * Z * Z)) : result :=
  let denoms := map (fun x => fst (fst x)) rules in
  if negb (sorted_strict denoms) || negb (forallb (fun '(_, t, pb) => (0 <? pb) && (pb <=? t)) rules)
     || match rules with [] => true | _ => false end then Fail Rej
  else if start <? height s then Fail Rej
  else if max_categories <? Z.of_nat (length rules) then Fail Rej
  else if negb (valid_lpt lpt) then Fail Rej
  else match deduct_fee (cfee s) (trate s) (bank s) who with
  | None => Fail Rej
  | Some b1 =>
    match send_many b1 who FARM (map (fun '(d, t, _) => (d, t)) rules) with
    | None => Fail Rej
    | Some b2 =>
      let id := seq s + 1 in
      let rs := map (fun '(d, t, pb) => mkRule d t t pb 0) rules in
      match min_interval (map (fun '(_, t, pb) => (t, pb)) rules) with
      | None => Fail Rej
      | Some iv =>
        let e := start + iv in
        let p := mkPool who start e 0 lpt 0 editable rs [] in
        Done (mkSt (height s) (set id p (pools s)) (enqueue (queue s) (e, id)) id b2 (cfee s) (trate s)) []
      end
    end
  end.

Definition get_finfo (p : pool) (who : acct) : option finfo := get who (p_farmers p).

(** farmer.go Stake *)
Definition stake (s : state) (who : acct) (pid : Z) (d : denom) (amt : Z) : result :=
  if pid <=? 0 then Fail Rej else       (* ValidatepPoolId comes before the coin check *)
  if amt <? 0 then Fail Abort else      (* sdk.NewCoins panics inside ValidateBasic *)
  if amt =? 0 then Fail Rej else        (* MsgStake.ValidateBasic: the amount must be positive (fix of the genesis group) *)
  match get pid (pools s) with
  | None => Fail Rej
  | Some p =>
    if height s <? p_start p then Fail Rej
    else if expired s pid p then Fail Rej
    else if negb (d =? p_lpt p) then Fail Rej
    else match send (bank s) who FARM d amt with
    | None => Fail Rej
    | Some b1 =>
      match update_pool (height s) b1 p amt false with
      | (_, _, false) => Fail Rej
      | (p1, b2, true) =>
        let fi := match get_finfo p1 who with Some fi => fi | None => mkF 0 [] end in
        match cacl (p_rules p1) (f_locked fi) (f_debt fi) amt with
        | None => Fail Abort
        | Some (rw, db) =>
          match send_many b2 COLL who (positive_coins rw) with
          | None => Fail Rej
          | Some b3 =>
            let p2 := with_farmers p1 (set who (mkF (f_locked fi + amt) db) (p_farmers p1)) in
            Done (with_bank (with_pools s (set pid p2 (pools s))) b3) (positive_coins rw)
          end
        end
      end
    end
  end.

(** farmer.go Unstake *)
Definition unstake (s : state) (who : acct) (pid : Z) (d : denom) (amt : Z) : result :=
  if pid <=? 0 then Fail Rej else
  if amt <? 0 then Fail Abort else
  match get pid (pools s) with
  | None => Fail Rej
  | Some p =>
    if negb (d =? p_lpt p) then Fail Rej else
    match get_finfo p who with
    | None => Fail Rej
    | Some fi =>
      if f_locked fi <? amt then Fail Rej
      else if p_locked p <? amt then Fail Rej
      else
        let upd := if expired s pid p then (with_locked p (p_locked p - amt), bank s, true)
                   else update_pool (height s) (bank s) p (- amt) false in
        match upd with
        | (_, _, false) => Fail Rej
        | (p1, b1, true) =>
          match send b1 FARM who d amt with
          | None => Fail Rej
          | Some b2 =>
            match cacl (p_rules p1) (f_locked fi) (f_debt fi) (- amt) with
            | None => Fail Abort
            | Some (rw, db) =>
              match send_many b2 COLL who (positive_coins rw) with
              | None => Fail Rej
              | Some b3 =>
                let l' := f_locked fi - amt in
                let fs := if l' =? 0 then del1 who (p_farmers p1) else set who (mkF l' db) (p_farmers p1) in
                Done (with_bank (with_pools s (set pid (with_farmers p1 fs) (pools s))) b3) (positive_coins rw)
              end
            end
          end
        end
    end
  end.

(** farmer.go Harvest *)
Definition harvest (s : state) (who : acct) (pid : Z) : result :=
  match get pid (pools s) with
  | None => Fail Rej
  | Some p =>
    if expired s pid p then Fail Rej else
    match get_finfo p who with
    | None => Fail Rej
    | Some fi =>
      match update_pool (height s) (bank s) p 0 false with
      | (_, _, false) => Fail Rej
      | (p1, b1, true) =>
        match cacl (p_rules p1) (f_locked fi) (f_debt fi) 0 with
        | None => Fail Abort
        | Some (rw, db) =>
          match send_many b1 COLL who (positive_coins rw) with
          | None => Fail Rej
          | Some b2 =>
            let p2 := with_farmers p1 (set who (mkF (f_locked fi) db) (p_farmers p1)) in
            Done (with_bank (with_pools s (set pid p2 (pools s))) b2) (positive_coins rw)
          end
        end
      end
    end
  end.

(** farmer.go Refund.  The state as written when the function returns and whether it returned
    nil: the end blocker keeps the state in both cases (it only logs the error), a
    transaction (DestroyPool) keeps it only on success. *)
Definition refund (s : state) (pid : Z) (p : pool) : state * bool :=
  let s0 := with_queue s (dequeue (queue s) (p_end p, pid)) in
  match update_pool (height s) (bank s) p 0 true with
  | (p1, b1, false) => (with_bank (with_pools s0 (set pid p1 (pools s0))) b1, false)
  | (p1, b1, true) =>
    let total := map (fun r => (r_denom r, r_rem r)) (p_rules p1) in
    let p2 := with_rules p1 (map (fun r => mkRule (r_denom r) (r_total r) 0 (r_pb r) (r_rps r)) (p_rules p1)) in
    let s1 := with_bank (with_pools s0 (set pid p2 (pools s0))) b1 in
    match positive_coins total with
    | [] => (s1, false)
    | _ =>
      match send_many b1 FARM (p_creator p) (positive_coins total) with
      | None => (s1, false)
      | Some b2 => (with_bank s1 b2, true)
      end
    end
  end.

(** pool.go DestroyPool *)
Definition destroy (s : state) (who : acct) (pid : Z) : result :=
  match get pid (pools s) with
  | None => Fail Rej
  | Some p =>
    if negb (who =? p_creator p) then Fail Rej
    else if negb (p_edit p) then Fail Rej
    else if expired s pid p then Fail Rej
    else match refund s pid p with
         | (s', true) => Done s' []
         | (_, false) => Fail Rej
         end
  end.

(** pool.go AdjustPool, per rule: the top-up, the new reward per block ([UpdateWith]), and
    [availableReward.AmountOf(rule.Reward)] (the rule's [r] here already carries the top-up) *)
Definition adj_topup (add : list (denom * Z)) (r : rule) : rule :=
  mkRule (r_denom r) (r_total r + amount_of add (r_denom r)) (r_rem r + amount_of add (r_denom r)) (r_pb r) (r_rps r).
Definition adj_pb (rpb : list (denom * Z)) (r : rule) : rule :=
  mkRule (r_denom r) (r_total r) (r_rem r)
         (if 0 <? amount_of rpb (r_denom r) then amount_of rpb (r_denom r) else r_pb r) (r_rps r).
Definition adj_avail (started : bool) (remaining_height : Z) (add : list (denom * Z)) (r : rule) : Z :=
  if started then r_pb r * remaining_height + amount_of add (r_denom r) else r_total r.

(** pool.go AdjustPool *)
Definition adjust (s : state) (who : acct) (pid : Z) (add rpb : list (denom * Z)) : result :=
  if match add, rpb with [], [] => true | _, _ => false end then Fail Rej
  else if negb (sorted_strict (map fst add) && sorted_strict (map fst rpb)
                && forallb (fun c => 0 <? snd c) add && forallb (fun c => 0 <? snd c) rpb) then Fail Rej
  else match get pid (pools s) with
  | None => Fail Rej
  | Some p =>
    if negb (p_edit p) then Fail Rej
    else if negb (who =? p_creator p) then Fail Rej
    else if expired s pid p then Fail Rej
    else if negb (forallb (fun c => existsb (fun r => r_denom r =? fst c) (p_rules p)) rpb) then Fail Rej
    else if (Z.of_nat (length (p_rules p)) <? Z.of_nat (length add))
            || negb (forallb (fun c => existsb (fun r => (r_denom r =? fst c) && (0 <? r_rem r)) (p_rules p)) add)
         then Fail Rej
    else
      let h := height s in
      let started := p_start p <=? h in
      let start_h := if started then h else p_start p in
      match update_pool h (bank s) p 0 false with
      | (_, _, false) => Fail Rej
      | (p1, b1, true) =>
        match send_many b1 who FARM add with
        | None => Fail Rej
        | Some b2 =>
          let rs1 := map (adj_topup add) (p_rules p1) in
          let rs2 := map (adj_pb rpb) rs1 in
          (* as repaired by the second [fix:] commit: every rule limits the height, also one whose
             available reward is zero *)
          match min_interval (map (fun r => (adj_avail started (p_end p1 - start_h) add r, r_pb (adj_pb rpb r))) rs1) with
          | None => Fail Abort                      (* unreachable: updatePool rejects an empty rule set *)
          | Some iv =>
            let e := start_h + iv in
            let p2 := with_rules p1 rs2 in
            if e =? p_end p1 then Done (with_bank (with_pools s (set pid p2 (pools s))) b2) []
            else
              let q := enqueue (dequeue (queue s) (p_end p1, pid)) (e, pid) in
              Done (mkSt (height s) (set pid (with_end p2 e) (pools s)) q (seq s) b2 (cfee s) (trate s)) []
          end
        end
      end
  end.

(** msg_server.go UpdateParams: the authority only; Params.Validate: fee a valid coin of at most 255 bits, 0 < tax < 1.
    Nothing but the parameters changes; they only enter [deduct_fee]. *)
Definition AUTH : acct := 104.
Definition update_params (s : state) (who : acct) (cf : Z) (tr : dec) : result :=
  if negb (who =? AUTH) then Fail Rej
  else if (cf <? 0) || (2 ^ 255 <=? cf) || (tr <=? 0) || (P18 <=? tr) then Fail Rej
  else Done (mkSt (height s) (pools s) (queue s) (seq s) (bank s) cf tr) [].

Definition exec_msg (s : state) (m : msg) : result :=
  match m with
  | CreatePool who lpt start ed rules => create_pool s who lpt start ed rules
  | Stake who pid d amt => stake s who pid d amt
  | Unstake who pid d amt => unstake s who pid d amt
  | Harvest who pid => harvest s who pid
  | Adjust who pid add rpb => adjust s who pid add rpb
  | Destroy who pid => destroy s who pid
  | UpdateParams who cf tr => update_params s who cf tr
  end.

(** abci.go EndBlocker: every queue entry of the current height, in key order *)
Fixpoint insert_sorted (x : Z) (l : list Z) : list Z :=
  match l with [] => [x] | y :: l' => if x <=? y then x :: l else y :: insert_sorted x l' end.
Definition sort_z (l : list Z) : list Z := fold_right insert_sorted [] l.

Definition end_block_one (s : state) (pid : Z) : state :=
  match get pid (pools s) with
  | None => s
  | Some p => fst (refund s pid p)
  end.

Definition due (s : state) : list Z :=
  sort_z (map snd (filter (fun e => fst e =? height s) (queue s))).

Definition end_block (s : state) : state := fold_left end_block_one (due s) s.

Inductive step := Msg (m : msg) | NextBlock.   (* NextBlock: end blocker, then height + 1 *)

Definition exec_step (s : state) (st : step) : state * outcome * list (denom * Z) :=
  match st with
  | Msg m => match exec_msg s m with
             | Done s' rw => (s', Ok, rw)
             | Fail o => (s, o, [])
             end
  | NextBlock => let s' := end_block s in
                 (mkSt (height s' + 1) (pools s') (queue s') (seq s') (bank s') (cfee s') (trate s'), Ok, [])
  end.

Definition step_state (s : state) (st : step) : state := fst (fst (exec_step s st)).

Fixpoint run (s : state) (steps : list step) : state :=
  match steps with
  | [] => s
  | st :: rest => run (step_state s st) rest
  end.
