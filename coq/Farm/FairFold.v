(** * Farm: what the checker's fair-share folds ([fair_step], [fair_close]) do to one key *)
From Coq Require Import QArith.
From Irismod Require Export Farm.SoundTrace.
Close Scope Q_scope.
Open Scope Z_scope.

Definition key := (Z * Z * Z)%type.

Lemma sh_get_set (m : shares) (k k' : key) v : sh_get (set k v m) k' = if eq_dec k' k then v else sh_get m k'.
Proof.
  unfold sh_get. destruct (eq_dec k' k) as [->|Hne]; [rewrite get_set_same; reflexivity|rewrite get_set_other by exact Hne; reflexivity].
Qed.

Ltac ifs := repeat match goal with |- context [if ?c then _ else _] => destruct c; try congruence; try (exfalso; match goal with H : _ <> _ |- _ => apply H; reflexivity end) end; try reflexivity.

(** ** one level: the farmers of a pool, one rule *)
Definition upd3 (pid d : Z) (g : finfo -> share -> share) (fs : amap Z finfo) (m : shares) : shares :=
  fold_left (fun m '(w, f) => let k := (w, pid, d) in let s := sh_get m k in set k (g f s) m) fs m.

Lemma upd3_get pid d g fs : forall m w' pid' d', NoDup (keys fs) ->
  sh_get (upd3 pid d g fs m) (w', pid', d') =
  if (pid' =? pid) && (d' =? d)
  then match get w' fs with Some f => g f (sh_get m (w', pid', d')) | None => sh_get m (w', pid', d') end
  else sh_get m (w', pid', d').
Proof.
  unfold upd3, keys. induction fs as [|[w f] fs IH]; intros m w' pid' d' Hnd; simpl.
  - destruct ((pid' =? pid) && (d' =? d)); reflexivity.
  - inversion Hnd as [|? ? Hni Hnd']; subst. rewrite IH by exact Hnd'. rewrite sh_get_set.
    assert (get w fs = None) as Hnone.
    { destruct (get w fs) as [f'|] eqn:Eg; [|reflexivity]. exfalso. apply Hni. apply get_In in Eg. apply in_map_iff. exists (w, f'). auto. }
    destruct (Z.eqb_spec pid' pid) as [Hp|Hp]; destruct (Z.eqb_spec d' d) as [Hd|Hd]; cbn [andb]; try (ifs; fail).
    subst pid' d'. destruct (Z.eq_dec w' w) as [Hw|Hw].
    + subst w'. rewrite Hnone. ifs.
    + ifs.
Qed.

(** ** folds whose steps touch disjoint sets of keys *)
Section DisjointFold.
  Context {A B : Type} `{EqDec B}.
  Variables (idx : A -> B) (proj : key -> B) (step : A -> shares -> shares).

  Lemma fold_disjoint items : forall m k, NoDup (map idx items) ->
    (forall x m k, In x items -> idx x <> proj k -> sh_get (step x m) k = sh_get m k) ->
    (forall x m m' k, In x items -> sh_get m k = sh_get m' k -> sh_get (step x m) k = sh_get (step x m') k) ->
    sh_get (fold_left (fun m x => step x m) items m) k =
    match find (fun x => eqb (idx x) (proj k)) items with
    | Some x => sh_get (step x m) k
    | None => sh_get m k
    end.
  Proof.
    induction items as [|x items IH]; intros m k Hnd H1 H2; simpl; [reflexivity|].
    inversion Hnd as [|? ? Hni Hnd']; subst.
    rewrite (IH (step x m) k Hnd');
      [|intros y m0 k0 Hy Hne; apply H1; [right; exact Hy|exact Hne]|intros y m0 m1 k0 Hy He; apply H2; [right; exact Hy|exact He]].
    destruct (eqb (idx x) (proj k)) eqn:E.
    - apply (proj1 (eqb_true_iff (idx x) (proj k))) in E.
      destruct (find (fun x0 => eqb (idx x0) (proj k)) items) as [y|] eqn:Ef; [|reflexivity].
      exfalso. apply find_some in Ef. destruct Ef as [Hin Ey]. apply (proj1 (eqb_true_iff (idx y) (proj k))) in Ey.
      apply Hni. rewrite E, <- Ey. apply in_map. exact Hin.
    - apply (proj1 (eqb_false_iff (idx x) (proj k))) in E.
      destruct (find (fun x0 => eqb (idx x0) (proj k)) items) as [y|] eqn:Ef.
      + apply find_some in Ef. destruct Ef as [Hin _]. apply H2; [right; exact Hin|]. apply H1; [left; reflexivity|exact E].
      + apply H1; [left; reflexivity|exact E].
  Qed.
End DisjointFold.

(** ** the accrual part of [fair_step], level by level *)
Definition acc_g (e L : Z) (f : finfo) (sh : share) : share :=
  mkShare (Qred (Qplus (sh_fair sh) (Qmake (e * f_locked f) (Z.to_pos L)))) (sh_eps sh + f_locked f) (sh_paid sh) (sh_n sh).

Definition acc_rule (pid : Z) (pa pb : pool) (ra : rule) (m : shares) : shares :=
  let e := released pa pb ra in
  if e =? 0 then m else upd3 pid (r_denom ra) (acc_g e (p_locked pa)) (p_farmers pa) m.

Definition acc_pool (b : obs) (ip : Z * pool) (m : shares) : shares :=
  let '(pid, pa) := ip in
  match get pid (o_pools b) with
  | None => m
  | Some pb => fold_left (fun m ra => acc_rule pid pa pb ra m) (p_rules pa) m
  end.

Definition acc_all (a b : obs) (m : shares) : shares := fold_left (fun m ip => acc_pool b ip m) (o_pools a) m.

Definition acc_spec (a b : obs) (k : key) (sh : share) : share :=
  let '(w, pid, d) := k in
  match get pid (o_pools a), get pid (o_pools b) with
  | Some pa, Some pb =>
      match find (fun r => eqb (r_denom r) d) (p_rules pa) with
      | Some ra => if released pa pb ra =? 0 then sh
                   else match get w (p_farmers pa) with
                        | Some f => acc_g (released pa pb ra) (p_locked pa) f sh
                        | None => sh
                        end
      | None => sh
      end
  | _, _ => sh
  end.

Lemma acc_rule_get pid pa pb ra m w' pid' d' : NoDup (keys (p_farmers pa)) ->
  sh_get (acc_rule pid pa pb ra m) (w', pid', d') =
  if (pid' =? pid) && (d' =? r_denom ra) && negb (released pa pb ra =? 0)
  then match get w' (p_farmers pa) with
       | Some f => acc_g (released pa pb ra) (p_locked pa) f (sh_get m (w', pid', d'))
       | None => sh_get m (w', pid', d')
       end
  else sh_get m (w', pid', d').
Proof.
  intros Hnd. unfold acc_rule. cbv zeta. destruct (released pa pb ra =? 0).
  - rewrite andb_false_r. reflexivity.
  - rewrite andb_true_r. apply upd3_get. exact Hnd.
Qed.

Lemma acc_pool_get b pid pa m w' pid' d' :
  NoDup (map r_denom (p_rules pa)) -> NoDup (keys (p_farmers pa)) ->
  sh_get (acc_pool b (pid, pa) m) (w', pid', d') =
  if pid' =? pid then
    match get pid (o_pools b) with
    | Some pb =>
        match find (fun r => eqb (r_denom r) d') (p_rules pa) with
        | Some ra => if released pa pb ra =? 0 then sh_get m (w', pid', d')
                     else match get w' (p_farmers pa) with
                          | Some f => acc_g (released pa pb ra) (p_locked pa) f (sh_get m (w', pid', d'))
                          | None => sh_get m (w', pid', d')
                          end
        | None => sh_get m (w', pid', d')
        end
    | None => sh_get m (w', pid', d')
    end
  else sh_get m (w', pid', d').
Proof.
  intros Hnr Hnf. unfold acc_pool. destruct (get pid (o_pools b)) as [pb|]; [|destruct (pid' =? pid); reflexivity].
  rewrite (fold_disjoint r_denom (fun k : key => snd k) (fun ra m => acc_rule pid pa pb ra m) (p_rules pa) m (w', pid', d') Hnr).
  - cbn [snd]. destruct (find (fun x => eqb (r_denom x) d') (p_rules pa)) as [ra|] eqn:Ef.
    + apply find_some in Ef. destruct Ef as [_ Ed]. apply (proj1 (eqb_true_iff _ _)) in Ed.
      rewrite (acc_rule_get _ _ _ _ _ _ _ _ Hnf). rewrite <- Ed, Z.eqb_refl, andb_true_r.
      destruct (pid' =? pid); [destruct (released pa pb ra =? 0); reflexivity|reflexivity].
    + destruct (pid' =? pid); reflexivity.
  - intros x m0 k _ Hne. destruct k as [[w0 p0] d0]. cbn [snd] in Hne. rewrite (acc_rule_get _ _ _ _ _ _ _ _ Hnf).
    destruct (Z.eqb_spec d0 (r_denom x)); [congruence|]. rewrite andb_false_r. reflexivity.
  - intros x m0 m1 k _ Heq. destruct k as [[w0 p0] d0]. rewrite !(acc_rule_get _ _ _ _ _ _ _ _ Hnf), Heq. reflexivity.
Qed.

Lemma acc_all_get a b m k :
  NoDup (keys (o_pools a)) ->
  (forall pid pa, In (pid, pa) (o_pools a) -> NoDup (map r_denom (p_rules pa)) /\ NoDup (keys (p_farmers pa))) ->
  sh_get (acc_all a b m) k = acc_spec a b k (sh_get m k).
Proof.
  intros Hnd Hpools. destruct k as [[w pid] d]. unfold acc_all.
  rewrite (fold_disjoint (fun ip : Z * pool => fst ip) (fun k : key => snd (fst k)) (fun ip m => acc_pool b ip m) (o_pools a) m (w, pid, d) Hnd).
  - cbn [fst snd]. unfold acc_spec.
    destruct (find (fun x : Z * pool => eqb (fst x) pid) (o_pools a)) as [[pid0 pa]|] eqn:Ef.
    + apply find_some in Ef. destruct Ef as [Hin Ep]. cbn [fst] in Ep. apply (proj1 (eqb_true_iff _ _)) in Ep. subst pid0.
      destruct (Hpools pid pa Hin) as [Hnr Hnf]. rewrite (acc_pool_get _ _ _ _ _ _ _ Hnr Hnf), Z.eqb_refl.
      rewrite (In_get _ _ _ Hnd Hin). destruct (get pid (o_pools b)); reflexivity.
    + destruct (get pid (o_pools a)) as [pa|] eqn:Eg; [|reflexivity]. exfalso.
      apply get_In in Eg. pose proof (find_none _ _ Ef (pid, pa) Eg) as Hc. cbn [fst] in Hc. rewrite eqb_refl in Hc. discriminate.
  - intros [pid0 pa] m0 k Hin Hne. destruct k as [[w0 p0] d0]. cbn [fst snd] in Hne.
    destruct (Hpools pid0 pa Hin) as [Hnr Hnf]. rewrite (acc_pool_get _ _ _ _ _ _ _ Hnr Hnf).
    destruct (Z.eqb_spec p0 pid0); [congruence|reflexivity].
  - intros [pid0 pa] m0 m1 k Hin Heq. destruct k as [[w0 p0] d0].
    destruct (Hpools pid0 pa Hin) as [Hnr Hnf]. rewrite !(acc_pool_get _ _ _ _ _ _ _ Hnr Hnf), Heq. reflexivity.
Qed.

(** ** the payout part of [fair_step] *)
Definition pay_rule (w pid : Z) (rw : list (denom * Z)) (r : rule) (m : shares) : shares :=
  let k := (w, pid, r_denom r) in
  let s := sh_get m k in
  set k (mkShare (sh_fair s) (sh_eps s) (sh_paid s + amount_of rw (r_denom r)) (sh_n s + 1)) m.

Definition pay_all (w pid : Z) (b : obs) (m : shares) : shares :=
  match get pid (o_pools b) with
  | None => m
  | Some pb => fold_left (fun m r => pay_rule w pid (o_rw b) r m) (p_rules pb) m
  end.

Definition pay_sh (rw : list (denom * Z)) (d : Z) (s : share) : share :=
  mkShare (sh_fair s) (sh_eps s) (sh_paid s + amount_of rw d) (sh_n s + 1).

Definition pay_spec (w pid : Z) (b : obs) (k : key) (sh : share) : share :=
  let '(w', pid', d') := k in
  if (w' =? w) && (pid' =? pid) then
    match get pid (o_pools b) with
    | Some pb => match find (fun r => eqb (r_denom r) d') (p_rules pb) with
                 | Some _ => pay_sh (o_rw b) d' sh
                 | None => sh
                 end
    | None => sh
    end
  else sh.

Lemma pay_rule_get w pid rw r m w' pid' d' :
  sh_get (pay_rule w pid rw r m) (w', pid', d') =
  if (w' =? w) && (pid' =? pid) && (d' =? r_denom r) then pay_sh rw d' (sh_get m (w', pid', d')) else sh_get m (w', pid', d').
Proof.
  unfold pay_rule. cbv zeta. rewrite sh_get_set.
  destruct (Z.eqb_spec w' w) as [Hw|Hw]; destruct (Z.eqb_spec pid' pid) as [Hp|Hp]; destruct (Z.eqb_spec d' (r_denom r)) as [Hd|Hd]; cbn [andb];
    try (ifs; fail).
  all: subst; unfold pay_sh; ifs.
Qed.

Lemma pay_all_get w pid b m k : (forall pb, get pid (o_pools b) = Some pb -> NoDup (map r_denom (p_rules pb))) ->
  sh_get (pay_all w pid b m) k = pay_spec w pid b k (sh_get m k).
Proof.
  intros Hnd. destruct k as [[w' pid'] d']. unfold pay_all, pay_spec.
  destruct (get pid (o_pools b)) as [pb|] eqn:Eg; [|destruct ((w' =? w) && (pid' =? pid)); reflexivity].
  rewrite (fold_disjoint r_denom (fun k : key => snd k) (fun r m => pay_rule w pid (o_rw b) r m) (p_rules pb) m (w', pid', d') (Hnd pb eq_refl)).
  - cbn [snd]. destruct (find (fun x => eqb (r_denom x) d') (p_rules pb)) as [r|] eqn:Ef.
    + apply find_some in Ef. destruct Ef as [_ Ed]. apply (proj1 (eqb_true_iff _ _)) in Ed.
      rewrite pay_rule_get, <- Ed, Z.eqb_refl, andb_true_r. reflexivity.
    + destruct ((w' =? w) && (pid' =? pid)); reflexivity.
  - intros x m0 k _ Hne. destruct k as [[w0 p0] d0]. cbn [snd] in Hne. rewrite pay_rule_get.
    destruct (Z.eqb_spec d0 (r_denom x)); [congruence|]. rewrite andb_false_r. reflexivity.
  - intros x m0 m1 k _ Heq. destruct k as [[w0 p0] d0]. rewrite !pay_rule_get, Heq. reflexivity.
Qed.

(** [fair_step], restated with the named folds *)
Definition farmer_op (st : step) : option (Z * Z) :=
  match st with
  | Msg (Stake w pid _ _) | Msg (Unstake w pid _ _) | Msg (Harvest w pid) => Some (w, pid)
  | _ => None
  end.

Lemma fair_step_eq a st b m :
  fair_step a st b m =
  let m1 := acc_all a b m in
  if negb (o_code b =? 0) then m1
  else match farmer_op st with Some (w, pid) => pay_all w pid b m1 | None => m1 end.
Proof.
  unfold fair_step. fold (acc_all a b m). cbv zeta. destruct (negb (o_code b =? 0)); [reflexivity|].
  destruct st as [mm|]; [destruct mm|]; reflexivity.
Qed.

Definition step_spec (a : obs) (st : step) (b : obs) (k : key) (sh : share) : share :=
  let sh1 := acc_spec a b k sh in
  if negb (o_code b =? 0) then sh1
  else match farmer_op st with Some (w, pid) => pay_spec w pid b k sh1 | None => sh1 end.

Lemma fair_step_get a st b m k :
  NoDup (keys (o_pools a)) ->
  (forall pid pa, In (pid, pa) (o_pools a) -> NoDup (map r_denom (p_rules pa)) /\ NoDup (keys (p_farmers pa))) ->
  (forall pid pb, get pid (o_pools b) = Some pb -> NoDup (map r_denom (p_rules pb))) ->
  sh_get (fair_step a st b m) k = step_spec a st b k (sh_get m k).
Proof.
  intros Hnd Hpa Hpb. rewrite fair_step_eq. unfold step_spec. cbv zeta.
  destruct (negb (o_code b =? 0)); [apply acc_all_get; assumption|].
  destruct (farmer_op st) as [[w pid]|]; [|apply acc_all_get; assumption].
  rewrite pay_all_get by (intros pb Hg; exact (Hpb pid pb Hg)). rewrite acc_all_get by assumption. reflexivity.
Qed.

(** ** [fair_close] *)
Fixpoint find_rd (rs : list rule) (ds : list Z) (d : Z) : option (rule * Z) :=
  match rs with
  | [] => None
  | r :: rest => if r_denom r =? d then Some (r, match ds with [] => 0 | x :: _ => x end)
                 else find_rd rest (match ds with [] => [] | _ :: t => t end) d
  end.

Definition close_go (w pid : Z) (f : finfo) : list rule -> list Z -> shares -> shares :=
  fix go (rs : list rule) (ds : list Z) (m : shares) : shares :=
    match rs with
    | [] => m
    | r :: rest =>
        let d := match ds with [] => 0 | d :: _ => d end in
        let k := (w, pid, r_denom r) in
        let s := sh_get m k in
        go rest (match ds with [] => [] | _ :: t => t end)
           (set k (mkShare (sh_fair s) (sh_eps s) (sh_paid s + accrued (r_rps r) (f_locked f) d) (sh_n s + 1)) m)
    end.

Definition close_sh (r : rule) (l D : Z) (s : share) : share :=
  mkShare (sh_fair s) (sh_eps s) (sh_paid s + accrued (r_rps r) l D) (sh_n s + 1).

Lemma close_go_get w pid f rs : forall ds m w' pid' d', NoDup (map r_denom rs) ->
  sh_get (close_go w pid f rs ds m) (w', pid', d') =
  if (w' =? w) && (pid' =? pid)
  then match find_rd rs ds d' with Some (r, D) => close_sh r (f_locked f) D (sh_get m (w', pid', d')) | None => sh_get m (w', pid', d') end
  else sh_get m (w', pid', d').
Proof.
  induction rs as [|r rs IH]; intros ds m w' pid' d' Hnd; simpl.
  - destruct ((w' =? w) && (pid' =? pid)); reflexivity.
  - inversion Hnd as [|? ? Hni Hnd']; subst. rewrite IH by exact Hnd'. rewrite sh_get_set.
    destruct (Z.eqb_spec w' w) as [Hw|Hw]; destruct (Z.eqb_spec pid' pid) as [Hp|Hp]; cbn [andb]; try (ifs; fail).
    subst w' pid'. destruct (Z.eqb_spec (r_denom r) d') as [Hd|Hd].
    + subst d'. assert (find_rd rs match ds with [] => [] | _ :: t => t end (r_denom r) = None) as ->.
      { clear -Hni. generalize (match ds with [] => [] | _ :: t => t end). induction rs as [|r' rs IHr]; intros l; simpl; [reflexivity|].
        destruct (Z.eqb_spec (r_denom r') (r_denom r)) as [He|He]; [exfalso; apply Hni; left; exact He|].
        apply IHr. intros Hi. apply Hni. right. exact Hi. }
      unfold close_sh. ifs.
    + destruct (find_rd rs match ds with [] => [] | _ :: t => t end d') as [[r' D]|]; ifs.
Qed.

Definition close_farmer (pid : Z) (p : pool) (wf : Z * finfo) (m : shares) : shares :=
  let '(w, f) := wf in close_go w pid f (p_rules p) (f_debt f) m.
Definition close_pool (ip : Z * pool) (m : shares) : shares :=
  let '(pid, p) := ip in fold_left (fun m wf => close_farmer pid p wf m) (p_farmers p) m.
Definition close_all (b : obs) (m : shares) : shares := fold_left (fun m ip => close_pool ip m) (o_pools b) m.

Lemma fair_close_eq b m : fair_close b m = close_all b m.
Proof.
  unfold fair_close, close_all. f_equal.
Qed.

Definition close_spec (b : obs) (k : key) (sh : share) : share :=
  let '(w, pid, d) := k in
  match get pid (o_pools b) with
  | Some p => match get w (p_farmers p) with
              | Some f => match find_rd (p_rules p) (f_debt f) d with
                          | Some (r, D) => close_sh r (f_locked f) D sh
                          | None => sh
                          end
              | None => sh
              end
  | None => sh
  end.

Lemma close_pool_get pid p m w' pid' d' : NoDup (map r_denom (p_rules p)) -> NoDup (keys (p_farmers p)) ->
  sh_get (close_pool (pid, p) m) (w', pid', d') =
  if pid' =? pid then
    match get w' (p_farmers p) with
    | Some f => match find_rd (p_rules p) (f_debt f) d' with
                | Some (r, D) => close_sh r (f_locked f) D (sh_get m (w', pid', d'))
                | None => sh_get m (w', pid', d')
                end
    | None => sh_get m (w', pid', d')
    end
  else sh_get m (w', pid', d').
Proof.
  intros Hnr Hnf. unfold close_pool.
  rewrite (fold_disjoint (fun wf : Z * finfo => fst wf) (fun k : key => fst (fst k)) (fun wf m => close_farmer pid p wf m) (p_farmers p) m (w', pid', d') Hnf).
  - cbn [fst]. destruct (find (fun x : Z * finfo => eqb (fst x) w') (p_farmers p)) as [[w0 f]|] eqn:Ef.
    + apply find_some in Ef. destruct Ef as [Hin Ew]. cbn [fst] in Ew. apply (proj1 (eqb_true_iff _ _)) in Ew. subst w0.
      unfold close_farmer. rewrite (close_go_get _ _ _ _ _ _ _ _ _ Hnr), Z.eqb_refl. cbn [andb].
      rewrite (In_get _ _ _ Hnf Hin). reflexivity.
    + destruct (get w' (p_farmers p)) as [f|] eqn:Eg; [|destruct (pid' =? pid); reflexivity]. exfalso.
      apply get_In in Eg. pose proof (find_none _ _ Ef (w', f) Eg) as Hc. cbn [fst] in Hc. rewrite eqb_refl in Hc. discriminate.
  - intros [w0 f] m0 k _ Hne. destruct k as [[w1 p1] d1]. cbn [fst] in Hne. unfold close_farmer.
    rewrite (close_go_get _ _ _ _ _ _ _ _ _ Hnr). destruct (Z.eqb_spec w1 w0); [congruence|reflexivity].
  - intros [w0 f] m0 m1 k _ Heq. destruct k as [[w1 p1] d1]. unfold close_farmer.
    rewrite !(close_go_get _ _ _ _ _ _ _ _ _ Hnr), Heq. reflexivity.
Qed.

Lemma fair_close_get b m k :
  NoDup (keys (o_pools b)) ->
  (forall pid p, In (pid, p) (o_pools b) -> NoDup (map r_denom (p_rules p)) /\ NoDup (keys (p_farmers p))) ->
  sh_get (fair_close b m) k = close_spec b k (sh_get m k).
Proof.
  intros Hnd Hpools. rewrite fair_close_eq. destruct k as [[w pid] d]. unfold close_all.
  rewrite (fold_disjoint (fun ip : Z * pool => fst ip) (fun k : key => snd (fst k)) (fun ip m => close_pool ip m) (o_pools b) m (w, pid, d) Hnd).
  - cbn [fst snd]. unfold close_spec.
    destruct (find (fun x : Z * pool => eqb (fst x) pid) (o_pools b)) as [[pid0 p]|] eqn:Ef.
    + apply find_some in Ef. destruct Ef as [Hin Ep]. cbn [fst] in Ep. apply (proj1 (eqb_true_iff _ _)) in Ep. subst pid0.
      destruct (Hpools pid p Hin) as [Hnr Hnf]. rewrite (close_pool_get _ _ _ _ _ _ Hnr Hnf), Z.eqb_refl.
      rewrite (In_get _ _ _ Hnd Hin). reflexivity.
    + destruct (get pid (o_pools b)) as [p|] eqn:Eg; [|reflexivity]. exfalso.
      apply get_In in Eg. pose proof (find_none _ _ Ef (pid, p) Eg) as Hc. cbn [fst] in Hc. rewrite eqb_refl in Hc. discriminate.
  - intros [pid0 p] m0 k Hin Hne. destruct k as [[w0 p0] d0]. cbn [fst snd] in Hne.
    destruct (Hpools pid0 p Hin) as [Hnr Hnf]. rewrite (close_pool_get _ _ _ _ _ _ Hnr Hnf).
    destruct (Z.eqb_spec p0 pid0); [congruence|reflexivity].
  - intros [pid0 p] m0 m1 k Hin Heq. destruct k as [[w0 p0] d0].
    destruct (Hpools pid0 p Hin) as [Hnr Hnf]. rewrite !(close_pool_get _ _ _ _ _ _ Hnr Hnf), Heq. reflexivity.
Qed.
