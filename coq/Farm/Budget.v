(** * Farm: how the budget of a pool moves in one step (the budget identity, step by step) *)
From Irismod Require Export Farm.Refund.

(** per denomination: funded' = funded + top-up; remaining' = remaining - released + top-up, or 0 at the refund *)
Definition budget_moves (p p' : pool) (iv : Z) (tp : denom -> Z) (z : bool) : Prop :=
  (forall d, rule_sum r_total (p_rules p') d = rule_sum r_total (p_rules p) d + rule_sum (fun r => tp (r_denom r)) (p_rules p) d)
  /\ (forall d, rule_sum r_rem (p_rules p') d =
                if z then 0
                else rule_sum r_rem (p_rules p) d - rule_sum (fun r => r_pb r * iv) (p_rules p) d
                     + rule_sum (fun r => tp (r_denom r)) (p_rules p) d).

Lemma rule_sum_const0 rs d : rule_sum (fun _ => 0) rs d = 0.
Proof. unfold rule_sum. induction rs as [|r rs IH]; simpl; [reflexivity|]. rewrite IH. destruct (r_denom r =? d); reflexivity. Qed.

Lemma bm_same p : budget_moves p p 0 (fun _ => 0) false.
Proof. split; intros d; rewrite ?rule_sum_zero, rule_sum_const0; lia. Qed.

Lemma bm_rules p p' : p_rules p' = p_rules p -> budget_moves p p' 0 (fun _ => 0) false.
Proof. intros E. split; intros d; rewrite E, ?rule_sum_zero, rule_sum_const0; lia. Qed.

Lemma rule_sum_total_collect iv L rs d : rule_sum r_total (map (collect1 iv L) rs) d = rule_sum r_total rs d.
Proof. unfold rule_sum. induction rs as [|r rs IH]; simpl; [reflexivity|]. rewrite IH. reflexivity. Qed.

Lemma bm_update h b p amt dz p1 b1 fs :
  update_pool h b p amt dz = (p1, b1, true) -> budget_moves p (with_farmers p1 fs) (release_iv h p) (fun _ => 0) false.
Proof.
  intros Hu. change (release_iv h p) with (upd_iv h p).
  destruct (update_pool_true _ _ _ _ _ _ _ Hu) as (_ & _ & _ & -> & _). split; intros d; simpl.
  - rewrite rule_sum_total_collect, rule_sum_const0. lia.
  - rewrite rule_sum_rem_collect, rule_sum_const0. lia.
Qed.

Lemma rule_sum_total_adj add rpb rs d :
  rule_sum r_total (map (adj_pb rpb) (map (adj_topup add) rs)) d
  = rule_sum r_total rs d + rule_sum (fun r => amount_of add (r_denom r)) rs d.
Proof. unfold rule_sum. induction rs as [|r rs IH]; simpl; [reflexivity|]. rewrite IH. destruct (r_denom r =? d); lia. Qed.

Lemma rule_sum_by_denom_collect (g : denom -> Z) iv L rs d :
  rule_sum (fun r => g (r_denom r)) (map (collect1 iv L) rs) d = rule_sum (fun r => g (r_denom r)) rs d.
Proof. unfold rule_sum. induction rs as [|r rs IH]; simpl; [reflexivity|]. rewrite IH. reflexivity. Qed.

Lemma NoDup_prefix {A} (l1 l2 : list A) : NoDup (l1 ++ l2) -> NoDup l1.
Proof.
  induction l1 as [|a l1 IH]; simpl; intros H; [constructor|]. inversion H as [|? ? Hni Hnd]; subst.
  constructor; [intros Hi; apply Hni; apply in_or_app; left; exact Hi|exact (IH Hnd)].
Qed.

Lemma rule_sum_ext_map (g : rule -> Z) rs rs' d :
  map (fun r => (r_denom r, g r)) rs = map (fun r => (r_denom r, g r)) rs' -> rule_sum g rs d = rule_sum g rs' d.
Proof.
  revert rs'. unfold rule_sum. induction rs as [|r rs IH]; intros [|r' rs'] H; simpl in *; try discriminate; [reflexivity|].
  inversion H as [[Hd Hgr Ht]]. rewrite Hd, Hgr, (IH _ Ht). reflexivity.
Qed.

Lemma rule_sum_rem_zero rs d : Forall (fun r => r_rem r = 0) rs -> rule_sum r_rem rs d = 0.
Proof. unfold rule_sum. induction 1 as [|r rs Hr Hrs IH]; simpl; [reflexivity|]. rewrite IH, Hr. destruct (r_denom r =? d); reflexivity. Qed.

Lemma refund_get_other s pid' p' s' ok pid : pid' <> pid -> refund s pid' p' = (s', ok) -> get pid (pools s') = get pid (pools s).
Proof.
  intros Hne H. assert (pid <> pid') as Hne' by congruence.
  destruct (refund_cases _ _ _ _ _ H) as [(p1 & b1 & _ & _ & ->)|(p1 & b1 & b' & _ & -> & _)]; simpl; apply get_set_other; exact Hne'.
Qed.

Lemma end_block_one_other s pid' pid : pid' <> pid -> get pid (pools (end_block_one s pid')) = get pid (pools s).
Proof.
  intros Hne. unfold end_block_one. destruct (get pid' (pools s)) as [p'|]; [|reflexivity].
  destruct (refund s pid' p') as [s1 ok] eqn:Er. simpl. exact (refund_get_other _ _ _ _ _ _ Hne Er).
Qed.

Lemma fold_other l : forall s pid, ~ In pid l -> get pid (pools (fold_left end_block_one l s)) = get pid (pools s).
Proof.
  induction l as [|pid' l IH]; simpl; intros s pid Hni; [reflexivity|].
  rewrite IH by (intros Hi; apply Hni; right; exact Hi). apply end_block_one_other. intros ->. apply Hni. left. reflexivity.
Qed.

(** what one step does to the budget of pool [pid]: [iv] blocks are released (0 or the blocks since the last
    distribution while staked), [tp] is topped up (only a successful AdjustPool of this pool by its creator),
    [z] = the remaining budget was refunded *)
Lemma budget_step_lemma s st pid p :
  inv s -> valid_step st -> get pid (pools s) = Some p ->
  exists p' iv tp z,
    get pid (pools (step_state s st)) = Some p'
    /\ (iv = 0 \/ iv = release_iv (height s) p)
    /\ budget_moves p p' iv tp z
    /\ ((forall d, tp d = 0) \/ exists who add rpb, st = Msg (Adjust who pid add rpb) /\ who = p_creator p /\ tp = amount_of add)
    /\ (z = true -> in_queue (queue s) (p_end p, pid) = true
                    /\ (st = NextBlock /\ p_end p = height s \/ exists who, st = Msg (Destroy who pid) /\ who = p_creator p)).
Proof.
  intros I Hv Hg.
  assert (forall p', p_rules p' = p_rules p -> forall s', get pid (pools s') = Some p' ->
            exists p'' iv tp z, get pid (pools s') = Some p'' /\ (iv = 0 \/ iv = release_iv (height s) p)
              /\ budget_moves p p'' iv tp z
              /\ ((forall d, tp d = 0) \/ exists who add rpb, st = Msg (Adjust who pid add rpb) /\ who = p_creator p /\ tp = amount_of add)
              /\ (z = true -> in_queue (queue s) (p_end p, pid) = true
                    /\ (st = NextBlock /\ p_end p = height s \/ exists who, st = Msg (Destroy who pid) /\ who = p_creator p))) as Hsame.
  { intros p' E s' Hg'. exists p', 0, (fun _ => 0), false. split; [exact Hg'|]. split; [left; reflexivity|].
    split; [exact (bm_rules p p' E)|]. split; [left; reflexivity|discriminate]. }
  assert (forall p1 fs s' b amt, update_pool (height s) b p amt false = (p1, s', true) -> forall s2, get pid (pools s2) = Some (with_farmers p1 fs) ->
            exists p'' iv tp z, get pid (pools s2) = Some p'' /\ (iv = 0 \/ iv = release_iv (height s) p)
              /\ budget_moves p p'' iv tp z
              /\ ((forall d, tp d = 0) \/ exists who add rpb, st = Msg (Adjust who pid add rpb) /\ who = p_creator p /\ tp = amount_of add)
              /\ (z = true -> in_queue (queue s) (p_end p, pid) = true
                    /\ (st = NextBlock /\ p_end p = height s \/ exists who, st = Msg (Destroy who pid) /\ who = p_creator p))) as Hupd.
  { intros p1 fs b1 b amt Hu s2 Hg2. exists (with_farmers p1 fs), (release_iv (height s) p), (fun _ => 0), false.
    split; [exact Hg2|]. split; [right; reflexivity|]. split; [exact (bm_update _ _ _ _ _ _ _ fs Hu)|]. split; [left; reflexivity|discriminate]. }
  destruct st as [m|]; unfold step_state, exec_step.
  - destruct (exec_msg s m) as [s' rw|o] eqn:E; simpl; [|exact (Hsame p eq_refl s Hg)].
    destruct m as [who lpt start ed rules|who pid' d amt|who pid' d amt|who pid'|who pid' add rpb|who pid'|who cf tr]; simpl in E.
    + destruct (create_Done _ _ _ _ _ _ _ _ E) as (b1 & b2 & iv & _ & _ & _ & _ & _ & _ & _ & _ & ->).
      apply (Hsame p eq_refl). simpl. rewrite get_set_other; [exact Hg|].
      pose proof (i_ids _ I) as Hids. rewrite Forall_forall in Hids. pose proof (Hids pid (get_Some_in_keys _ _ _ Hg)). lia.
    + destruct (stake_Done _ _ _ _ _ _ _ E) as (p0 & b1 & p1 & b2 & rw0 & db & b3 & Hs). cbv zeta in Hs.
      destruct Hs as (_ & _ & Hg0 & _ & _ & _ & _ & Hu & _ & _ & _ & ->).
      destruct (Z.eq_dec pid' pid) as [->|Hne].
      * rewrite Hg in Hg0. inversion Hg0; subst p0. eapply Hupd; [exact Hu|]. simpl. rewrite get_set_same. reflexivity.
      * apply (Hsame p eq_refl). simpl. rewrite get_set_other by congruence. exact Hg.
    + destruct (unstake_Done _ _ _ _ _ _ _ E) as (p0 & fi & p1 & b1 & b2 & rw0 & db & b3 & Hs).
      destruct Hs as (_ & _ & Hg0 & _ & _ & _ & _ & Hupd' & _ & _ & _ & _ & ->).
      destruct (Z.eq_dec pid' pid) as [->|Hne].
      * rewrite Hg in Hg0. inversion Hg0; subst p0. unfold unstake_upd in Hupd'. destruct (expired s pid p).
        -- inversion Hupd'; subst. eapply Hsame; cycle 1; [simpl; rewrite get_set_same; reflexivity|reflexivity].
        -- eapply Hupd; [exact Hupd'|]. simpl. rewrite get_set_same. reflexivity.
      * apply (Hsame p eq_refl). simpl. rewrite get_set_other by congruence. exact Hg.
    + destruct (harvest_Done _ _ _ _ _ E) as (p0 & fi & p1 & b1 & rw0 & db & b2 & Hs).
      destruct Hs as (Hg0 & _ & _ & Hu & _ & _ & _ & ->).
      destruct (Z.eq_dec pid' pid) as [->|Hne].
      * rewrite Hg in Hg0. inversion Hg0; subst p0. eapply Hupd; [exact Hu|]. simpl. rewrite get_set_same. reflexivity.
      * apply (Hsame p eq_refl). simpl. rewrite get_set_other by congruence. exact Hg.
    + destruct (adjust_Done _ _ _ _ _ _ _ E) as (p0 & p1 & b1 & b2 & iv & Hs). cbv zeta in Hs.
      destruct Hs as (_ & _ & _ & Hg0 & _ & Hwho & _ & _ & Hu & _ & _ & _ & ->).
      destruct (Z.eq_dec pid' pid) as [->|Hne].
      * rewrite Hg in Hg0. inversion Hg0; subst p0. simpl. rewrite get_set_same.
        eexists. exists (release_iv (height s) p), (amount_of add), false. split; [reflexivity|]. split; [right; reflexivity|].
        split; [|split; [right; exists who, add, rpb; auto|discriminate]].
        change (release_iv (height s) p) with (upd_iv (height s) p).
        destruct (update_pool_true _ _ _ _ _ _ _ Hu) as (_ & _ & _ & -> & _). unfold adj_rules. split; intros d; simpl.
        -- rewrite rule_sum_total_adj, rule_sum_total_collect, (rule_sum_by_denom_collect (amount_of add)). lia.
        -- rewrite rule_sum_rem_adj, rule_sum_rem_collect, (rule_sum_by_denom_collect (amount_of add)). lia.
      * apply (Hsame p eq_refl). simpl. rewrite get_set_other by congruence. exact Hg.
    + destruct (destroy_Done _ _ _ _ _ E) as (p0 & Hg0 & Hwho & _ & Hex & Hr & _).
      destruct (Z.eq_dec pid' pid) as [->|Hne].
      * rewrite Hg in Hg0. inversion Hg0; subst p0. pose proof (not_expired_in_queue _ _ _ I Hg Hex) as Hq.
        destruct (refund_effect _ _ _ _ _ I Hg Hq Hr) as (_ & _ & _ & _ & (p' & Hg' & Hz & _ & _ & _ & Ht) & _).
        exists p', (release_iv (height s) p), (fun _ => 0), true. split; [exact Hg'|]. split; [right; reflexivity|].
        split; [|split; [left; reflexivity|intros _; split; [exact Hq|right; exists who; auto]]].
        split; intros d.
        -- rewrite rule_sum_const0, (rule_sum_ext_map r_total _ _ d Ht). lia.
        -- exact (rule_sum_rem_zero _ d Hz).
      * destruct (refund_cases _ _ _ _ _ Hr) as [(p1 & b1 & _ & _ & ->)|(p1 & b1 & b' & _ & -> & _)];
          apply (Hsame p eq_refl); simpl; rewrite get_set_other by congruence; exact Hg.
    + destruct (update_params_Done _ _ _ _ _ _ E) as (_ & _ & _ & _ & ->). apply (Hsame p eq_refl). exact Hg.
  - simpl. fold (end_block s). unfold end_block.
    destruct (in_dec Z.eq_dec pid (due s)) as [Hin|Hni].
    + destruct (in_split _ _ Hin) as (l1 & l2 & Hl). pose proof (NoDup_due _ (i_qnd _ I)) as Hnd. rewrite Hl in Hnd.
      pose proof (NoDup_remove_2 _ _ _ Hnd) as Hnot. rewrite in_app_iff in Hnot.
      rewrite Hl, fold_left_app. simpl.
      destruct (end_block_fold l1 s I) as (I1 & Hh1 & Hq1).
      { apply NoDup_remove_1 in Hnd. exact (NoDup_prefix _ _ Hnd). }
      { intros x Hx. apply in_due. rewrite Hl. apply in_or_app. left. exact Hx. }
      set (s1 := fold_left end_block_one l1 s) in *.
      assert (get pid (pools s1) = Some p) as Hg1 by (unfold s1; rewrite fold_other by tauto; exact Hg).
      assert (In (height s, pid) (queue s1)) as Hq.
      { apply Hq1. split; [apply in_due; exact Hin|]. simpl. intros [_ Hx]. tauto. }
      apply in_queue_true in Hq. destruct (i_qwf _ I1 _ _ Hq) as (p0 & Hg0 & He0). rewrite Hg1 in Hg0. inversion Hg0; subst p0.
      rewrite fold_other by tauto. unfold end_block_one. rewrite Hg1.
      destruct (refund s1 pid p) as [s2 ok] eqn:Er. simpl.
      rewrite <- He0 in Hq.
      destruct (refund_effect _ _ _ _ _ I1 Hg1 Hq Er) as (_ & _ & _ & _ & (p' & Hg' & Hz & _ & _ & _ & Ht) & _).
      exists p', (release_iv (height s) p), (fun _ => 0), true. split; [exact Hg'|]. split; [right; reflexivity|].
      split; [|split; [left; reflexivity|]].
      * split; intros d; [rewrite rule_sum_const0, (rule_sum_ext_map r_total _ _ d Ht); lia|exact (rule_sum_rem_zero _ d Hz)].
      * intros _. split; [|left; split; [reflexivity|exact He0]].
        apply in_queue_true. rewrite He0. apply in_due. exact Hin.
    + apply (Hsame p eq_refl). simpl. rewrite fold_other by exact Hni. exact Hg.
Qed.
