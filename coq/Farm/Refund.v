(** * Farm: the remaining budget is refunded exactly once *)
From Irismod Require Export Farm.Rewards.

(** what a refund (end blocker at the end height, or DestroyPool) does to a queued pool in a reachable state *)
Lemma refund_effect s pid p s' ok :
  inv s -> get pid (pools s) = Some p -> in_queue (queue s) (p_end p, pid) = true ->
  refund s pid p = (s', ok) ->
  let rel d := rule_sum (fun r => r_pb r * release_iv (height s) p) (p_rules p) d in
  (* the creator receives exactly the remaining budget after the last release *)
  (forall d, bal (bank s') (p_creator p) d - bal (bank s) (p_creator p) d = rule_sum r_rem (p_rules p) d - rel d)
  /\ (forall d, bal (bank s') FARM d - bal (bank s) FARM d = - rule_sum r_rem (p_rules p) d)
  /\ (forall d, bal (bank s') COLL d - bal (bank s) COLL d = rel d)
  /\ (forall a d, a <> FARM -> a <> COLL -> a <> p_creator p -> bal (bank s') a d = bal (bank s) a d)
  (* nothing remains, the pool has ended and left the queue for good *)
  /\ (exists p', get pid (pools s') = Some p' /\ Forall (fun r => r_rem r = 0) (p_rules p')
                 /\ p_end p' = height s /\ p_locked p' = p_locked p /\ p_farmers p' = p_farmers p
                 /\ map (fun r => (r_denom r, r_total r)) (p_rules p') = map (fun r => (r_denom r, r_total r)) (p_rules p))
  /\ (forall e, in_queue (queue s') (e, pid) = false)
  /\ height s' = height s
  /\ (ok = true <-> exists d, 0 < rule_sum r_rem (p_rules p) d - rel d).
Proof.
  intros I Hg Hq H. cbv zeta. change (release_iv (height s) p) with (upd_iv (height s) p).
  pose proof (get_pool_inv _ _ _ I Hg) as PI.
  destruct (update_succeeds s pid p (bank s) 0 true I Hg Hq ltac:(intros; lia)) as (p1' & b1' & Hok).
  destruct (refund_cases _ _ _ _ _ H) as [(p1 & b1 & Hu & _)|(p1 & b1 & b' & Hu & -> & Hcase)]; [congruence|].
  clear p1' b1' Hok.
  destruct (update_pool_true _ _ _ _ _ _ _ Hu) as (Hlast & Hne & Hcov & Hp1 & Hb1).
  pose proof (rules_ok_after_gen _ _ _ _ _ _ _ PI Hu) as Hok1.
  destruct (pi_creator _ _ PI) as (HcF & HcC & _).
  assert (p_rules p1 = map (collect1 (upd_iv (height s) p) (p_locked p)) (p_rules p)) as Hrs by (rewrite Hp1; reflexivity).
  assert (Forall (fun c => 0 <= snd c) (rem_coins p1)) as Hnn.
  { unfold rem_coins. rewrite Forall_map. eapply Forall_impl; [|exact Hok1]. simpl. intros r (Hr & _). exact Hr. }
  assert (forall d, rule_sum r_rem (p_rules p1) d = rule_sum r_rem (p_rules p) d - rule_sum (fun r => r_pb r * upd_iv (height s) p) (p_rules p) d) as Hrem1.
  { intros d. rewrite Hrs. apply rule_sum_rem_collect. }
  assert (forall d, bal b1 FARM d = bal (bank s) FARM d - rule_sum (fun r => r_pb r * upd_iv (height s) p) (p_rules p) d) as HF1.
  { intros d. rewrite Hb1, (moved_many_from FARM COLL) by discriminate. rewrite csum_collected. lia. }
  assert ((forall a d, bal b' a d = bal b1 a d + moved_many a FARM (p_creator p) d (rem_coins p1))
          /\ (ok = true <-> positive_coins (rem_coins p1) <> [])) as [Hb' Hokk].
  { destruct Hcase as [(-> & -> & Hwhy)|(Hs & -> & Hpos)].
    - destruct Hwhy as [Hnil|Hnone].
      + split; [|split; [discriminate|intros Hc; congruence]]. intros a d. unfold moved_many.
        rewrite <- (csum_positive _ d Hnn), Hnil. unfold csum. simpl. destruct (a =? p_creator p), (a =? FARM); lia.
      + exfalso. destruct (send_many_ok (positive_coins (rem_coins p1)) b1 FARM (p_creator p) ltac:(congruence)
                             (positive_coins_nonneg _)) as [bx Hbx]; [|congruence].
        intros d. rewrite (csum_positive _ d Hnn), csum_rem_coins, Hrem1, HF1.
        pose proof (farm_covers _ _ _ d I Hg) as Hc. rewrite pool_contrib_eq in Hc. pose proof (locked_nonneg _ _ PI).
        destruct (p_lpt p =? d); lia.
    - split; [|split; [intros _; exact Hpos|reflexivity]]. destruct (send_many_bal _ _ _ _ _ Hs) as [_ Hb]. intros a d. rewrite Hb. unfold moved_many.
      rewrite (csum_positive _ d Hnn). reflexivity. }
  simpl. split; [|split; [|split; [|split; [|split; [|split; [|split]]]]]].
  - intros d. rewrite Hb', Hb1. rewrite (moved_many_to FARM (p_creator p)) by congruence.
    rewrite (moved_many_other (p_creator p) FARM COLL) by assumption. rewrite csum_rem_coins, Hrem1. lia.
  - intros d. rewrite Hb', HF1. rewrite (moved_many_from FARM (p_creator p)) by congruence. rewrite csum_rem_coins, Hrem1. lia.
  - intros d. rewrite Hb', Hb1. rewrite (moved_many_other COLL FARM (p_creator p)) by (try discriminate; congruence).
    rewrite (moved_many_to FARM COLL) by discriminate. rewrite csum_collected. lia.
  - intros a d H1 H2 H3. rewrite Hb', Hb1. rewrite (moved_many_other a FARM (p_creator p)) by assumption.
    rewrite (moved_many_other a FARM COLL) by assumption. lia.
  - exists (zero_rules p1). rewrite get_set_same. split; [reflexivity|]. simpl. split.
    + rewrite Forall_map. apply Forall_forall. intros r _. reflexivity.
    + rewrite Hp1. simpl. repeat split; try reflexivity; try lia; rewrite ?map_map; reflexivity.
  - intros e. apply in_queue_false. intros Hin. apply in_dequeue in Hin. destruct Hin as [Hin Hdq].
    apply in_queue_true in Hin. destruct (i_qwf _ I _ _ Hin) as (p' & Hg' & He). rewrite Hg in Hg'. inversion Hg'; subst. congruence.
  - reflexivity.
  - rewrite Hokk. split.
    + intros Hpos. destruct (positive_coins (rem_coins p1)) as [|[d x] cs] eqn:E; [congruence|]. exists d.
      rewrite <- Hrem1, <- csum_rem_coins, <- (csum_positive _ d Hnn), E.
      assert (In (d, x) (positive_coins (rem_coins p1))) as Hin by (rewrite E; left; reflexivity).
      unfold positive_coins in Hin. apply filter_In in Hin. destruct Hin as [_ Hx]. simpl in Hx. apply Z.ltb_lt in Hx.
      pose proof (csum_nonneg cs d) as Hcs.
      assert (Forall (fun c => 0 <= snd c) ((d, x) :: cs)) as Hall by (rewrite <- E; apply positive_coins_nonneg).
      inversion Hall; subst. specialize (Hcs H3). unfold csum in *. simpl. rewrite Z.eqb_refl. lia.
    + intros [d Hd] Hnil. rewrite <- Hrem1, <- csum_rem_coins, <- (csum_positive _ d Hnn), Hnil in Hd. unfold csum in Hd. simpl in Hd. lia.
Qed.

(** ** once out of the queue, always out: no second refund *)
Definition unqueued (s : state) (pid : Z) : Prop := forall e, in_queue (queue s) (e, pid) = false.

Lemma unqueued_expired s pid p : inv s -> get pid (pools s) = Some p -> unqueued s pid -> expired s pid p = true.
Proof.
  intros I Hg Hu. unfold expired. pose proof (i_unq _ I _ _ Hg (Hu (p_end p))) as Hle.
  destruct (Z.ltb_spec (p_end p) (height s)); [reflexivity|].
  destruct (Z.eqb_spec (height s) (p_end p)); [rewrite (Hu (p_end p)); reflexivity|lia].
Qed.

Definition same_pool (s s' : state) (pid : Z) (p : pool) : Prop :=
  (exists p', get pid (pools s') = Some p' /\ p_rules p' = p_rules p /\ p_end p' = p_end p) /\ unqueued s' pid.

Lemma unq_dequeue pid q x : (forall e, in_queue q (e, pid) = false) -> forall e, in_queue (dequeue q x) (e, pid) = false.
Proof.
  intros Hu e. apply in_queue_false. intros Hin. apply in_dequeue in Hin. destruct Hin as [Hin _].
  specialize (Hu e). apply in_queue_false in Hu. contradiction.
Qed.

Lemma unq_enqueue pid q e' pid' : pid' <> pid -> (forall e, in_queue q (e, pid) = false) -> forall e, in_queue (enqueue q (e', pid')) (e, pid) = false.
Proof.
  intros Hne Hu e. apply in_queue_false. intros Hin. apply in_enqueue in Hin. destruct Hin as [Hin|Heq]; [|congruence].
  specialize (Hu e). apply in_queue_false in Hu. contradiction.
Qed.

Lemma refund_other s pid' p' s' ok pid p : pid' <> pid -> get pid (pools s) = Some p -> unqueued s pid ->
  refund s pid' p' = (s', ok) -> same_pool s s' pid p.
Proof.
  intros Hne Hg Hu H.
  assert (pid <> pid') as Hne' by congruence.
  destruct (refund_cases _ _ _ _ _ H) as [(p1 & b1 & _ & _ & ->)|(p1 & b1 & b' & _ & -> & _)]; unfold same_pool, unqueued; simpl;
    (split; [exists p; rewrite (get_set_other _ _ _ _ Hne'); auto|apply unq_dequeue; exact Hu]).
Qed.

Lemma msg_same_pool s m s' rw pid p :
  inv s -> exec_msg s m = Done s' rw -> get pid (pools s) = Some p -> unqueued s pid -> same_pool s s' pid p.
Proof.
  intros I H Hg Hu. pose proof (unqueued_expired _ _ _ I Hg Hu) as Hex.
  assert (pid <= seq s) as Hseq.
  { pose proof (i_ids _ I) as Hids. rewrite Forall_forall in Hids. apply (Hids pid). eapply get_Some_in_keys; exact Hg. }
  destruct m as [who lpt start ed rules|who pid' d amt|who pid' d amt|who pid'|who pid' add rpb|who pid'|who cf tr]; simpl in H.
  - destruct (create_Done _ _ _ _ _ _ _ _ H) as (b1 & b2 & iv & _ & _ & _ & _ & _ & _ & _ & _ & ->). unfold same_pool, unqueued in *; split; simpl.
    + exists p. rewrite get_set_other by lia. auto.
    + apply unq_enqueue; [lia|exact Hu].
  - destruct (stake_Done _ _ _ _ _ _ _ H) as (p0 & b1 & p1 & b2 & rw0 & db & b3 & Hs). cbv zeta in Hs.
    destruct Hs as (_ & _ & Hg0 & _ & Hex0 & _ & _ & _ & _ & _ & _ & ->).
    destruct (Z.eq_dec pid' pid) as [->|Hne]; [congruence|]. unfold same_pool, unqueued in *; split; simpl; [|exact Hu].
    exists p. rewrite get_set_other by congruence. auto.
  - destruct (unstake_Done _ _ _ _ _ _ _ H) as (p0 & fi & p1 & b1 & b2 & rw0 & db & b3 & Hs).
    destruct Hs as (_ & _ & Hg0 & _ & _ & _ & _ & Hupd & _ & _ & _ & _ & ->).
    unfold same_pool, unqueued in *; split; simpl; [|exact Hu]. destruct (Z.eq_dec pid' pid) as [->|Hne].
    + rewrite Hg in Hg0. inversion Hg0; subst p0. unfold unstake_upd in Hupd. rewrite Hex in Hupd. inversion Hupd; subst.
      eexists. rewrite get_set_same. split; [reflexivity|]. simpl. auto.
    + exists p. rewrite get_set_other by congruence. auto.
  - destruct (harvest_Done _ _ _ _ _ H) as (p0 & fi & p1 & b1 & rw0 & db & b2 & Hs).
    destruct Hs as (Hg0 & Hex0 & _ & _ & _ & _ & _ & ->).
    destruct (Z.eq_dec pid' pid) as [->|Hne]; [congruence|]. unfold same_pool, unqueued in *; split; simpl; [|exact Hu].
    exists p. rewrite get_set_other by congruence. auto.
  - destruct (adjust_Done _ _ _ _ _ _ _ H) as (p0 & p1 & b1 & b2 & iv & Hs). cbv zeta in Hs.
    destruct Hs as (_ & _ & _ & Hg0 & _ & _ & Hex0 & _ & _ & _ & _ & _ & ->).
    destruct (Z.eq_dec pid' pid) as [->|Hne]; [congruence|]. unfold same_pool, unqueued in *; split; simpl.
    + exists p. rewrite get_set_other by congruence. auto.
    + destruct (_ =? p_end p1); [exact Hu|]. apply unq_enqueue; [exact Hne|]. apply unq_dequeue. exact Hu.
  - destruct (destroy_Done _ _ _ _ _ H) as (p0 & Hg0 & _ & _ & Hex0 & Hr & _).
    destruct (Z.eq_dec pid' pid) as [->|Hne]; [congruence|]. exact (refund_other _ _ _ _ _ _ _ Hne Hg Hu Hr).
  - destruct (update_params_Done _ _ _ _ _ _ H) as (_ & _ & _ & _ & ->). split; [exists p; auto|exact Hu].
Qed.

Lemma end_block_same_pool l : forall s pid p, ~ In pid l -> get pid (pools s) = Some p -> unqueued s pid ->
  same_pool s (fold_left end_block_one l s) pid p.
Proof.
  induction l as [|pid' l IH]; simpl; intros s pid p Hni Hg Hu.
  - split; [exists p; auto|exact Hu].
  - assert (pid' <> pid) as Hne by (intros ->; apply Hni; left; reflexivity).
    assert (same_pool s (end_block_one s pid') pid p) as [(p1 & Hg1 & Hr1 & He1) Hu1].
    { unfold end_block_one. destruct (get pid' (pools s)) as [p'|]; [|split; [exists p; auto|exact Hu]].
      destruct (refund s pid' p') as [s1 ok] eqn:Er. simpl. exact (refund_other _ _ _ _ _ _ _ Hne Hg Hu Er). }
    destruct (IH (end_block_one s pid') pid p1 ltac:(intros Hi; apply Hni; right; exact Hi) Hg1 Hu1) as [(p2 & Hg2 & Hr2 & He2) Hu2].
    split; [|exact Hu2]. exists p2. split; [exact Hg2|]. split; congruence.
Qed.

Lemma step_same_pool s st pid p :
  inv s -> get pid (pools s) = Some p -> unqueued s pid -> same_pool s (step_state s st) pid p.
Proof.
  intros I Hg Hu. destruct st as [m|]; unfold step_state, exec_step.
  - destruct (exec_msg s m) as [s' rw|o] eqn:E; simpl; [exact (msg_same_pool _ _ _ _ _ _ I E Hg Hu)|].
    split; [exists p; auto|exact Hu].
  - simpl. assert (~ In pid (due s)) as Hni.
    { intros Hin. apply in_due in Hin. specialize (Hu (height s)). apply in_queue_false in Hu. contradiction. }
    destruct (end_block_same_pool (due s) s pid p Hni Hg Hu) as [Hp Hq]. split; [exact Hp|exact Hq].
Qed.

Lemma refunded_forever steps : forall s pid p,
  inv s -> Forall valid_step steps -> get pid (pools s) = Some p -> unqueued s pid ->
  same_pool s (run s steps) pid p.
Proof.
  induction steps as [|st steps IH]; simpl; intros s pid p I Hv Hg Hu.
  - split; [exists p; auto|exact Hu].
  - inversion Hv; subst. destruct (step_same_pool s st pid p I Hg Hu) as [(p1 & Hg1 & Hr1 & He1) Hu1].
    destruct (IH (step_state s st) pid p1 (step_inv _ _ I H1) H2 Hg1 Hu1) as [(p2 & Hg2 & Hr2 & He2) Hu2].
    split; [|exact Hu2]. exists p2. split; [exact Hg2|]. split; congruence.
Qed.

(** a refund only ever happens to a queued pool: DestroyPool needs a pool that has not expired, the end
    blocker works through the queue *)
Lemma destroy_needs_queued s who pid s' rw : inv s -> destroy s who pid = Done s' rw ->
  exists p, get pid (pools s) = Some p /\ in_queue (queue s) (p_end p, pid) = true /\ refund s pid p = (s', true).
Proof.
  intros I H. destruct (destroy_Done _ _ _ _ _ H) as (p & Hg & _ & _ & Hex & Hr & _).
  exists p. split; [exact Hg|]. split; [exact (not_expired_in_queue _ _ _ I Hg Hex)|exact Hr].
Qed.
