(** * Farm: the invariant of every reachable state, part 2: preservation *)
From Irismod Require Export Farm.Inv.

Ltac dget := match goal with |- context [@get ?K ?V ?E ?k ?m] => destruct (@get K V E k m) eqn:? end.

(** ** generic: one pool is replaced, the queue may change for that pool only *)
Lemma in_keys_set_sub {V} k (v : V) (m : amap Z V) x : In k (keys m) -> In x (keys (set k v m)) -> In x (keys m).
Proof. intros Hk Hx. destruct (keys_set_in _ _ _ _ Hx) as [->|H]; assumption. Qed.

Lemma inv_replace s pid p p2 q' b' :
  inv s -> get pid (pools s) = Some p -> pool_inv (height s) p2 -> NoDup q' ->
  (forall e pid', pid' <> pid -> in_queue q' (e, pid') = in_queue (queue s) (e, pid')) ->
  (forall e, in_queue q' (e, pid) = true -> e = p_end p2) ->
  (in_queue q' (p_end p2, pid) = true -> height s <= p_end p2 /\ covered p2) ->
  (in_queue q' (p_end p2, pid) = false -> p_end p2 <= height s) ->
  (forall d, bal b' FARM d - bal (bank s) FARM d = pool_contrib p2 d - pool_contrib p d) ->
  (forall d, owed_p d p2 - owed_p d p <= (bal b' COLL d - bal (bank s) COLL d) * P18) ->
  inv (mkSt (height s) (set pid p2 (pools s)) q' (seq s) b' (cfee s) (trate s)).
Proof.
  intros I Hg PI2 Hnd Hq1 Hq2 Hq3 Hq4 He Hs. constructor; simpl.
  - apply Forall_vals_set; [exact (i_pools _ I)|exact PI2].
  - apply Forall_forall. intros x Hx. pose proof (i_ids _ I) as Hids. rewrite Forall_forall in Hids.
    apply Hids. eapply in_keys_set_sub; [|exact Hx]. eapply get_Some_in_keys; exact Hg.
  - intros d. rewrite (escrow_set _ _ _ _ _ Hg). pose proof (i_escrow _ I d). specialize (He d). lia.
  - intros d. rewrite (owed_set _ _ _ _ _ Hg). pose proof (i_solv _ I d). specialize (Hs d). lia.
  - intros pid' p' Hg' Hin. destruct (Z.eq_dec pid' pid) as [->|Hne].
    + rewrite get_set_same in Hg'. inversion Hg'; subst. apply Hq3. exact Hin.
    + rewrite get_set_other in Hg' by exact Hne. rewrite Hq1 in Hin by exact Hne. exact (i_sched _ I _ _ Hg' Hin).
  - intros pid' p' Hg' Hin. destruct (Z.eq_dec pid' pid) as [->|Hne].
    + rewrite get_set_same in Hg'. inversion Hg'; subst. apply Hq4. exact Hin.
    + rewrite get_set_other in Hg' by exact Hne. rewrite Hq1 in Hin by exact Hne. exact (i_unq _ I _ _ Hg' Hin).
  - intros e pid' Hin. destruct (Z.eq_dec pid' pid) as [->|Hne].
    + exists p2. rewrite get_set_same. split; [reflexivity|]. symmetry. apply Hq2. exact Hin.
    + rewrite Hq1 in Hin by exact Hne. rewrite get_set_other by exact Hne. exact (i_qwf _ I _ _ Hin).
  - exact Hnd.
  - exact (i_height _ I).
  - exact (i_seq _ I).
  - apply keys_set_NoDup. exact (i_nodup _ I).
Qed.

(** the queue is unchanged and the pool keeps its end height *)
Lemma inv_replace_same_queue s pid p p2 b' :
  inv s -> get pid (pools s) = Some p -> pool_inv (height s) p2 -> p_end p2 = p_end p ->
  (in_queue (queue s) (p_end p, pid) = true -> covered p -> covered p2) ->
  (forall d, bal b' FARM d - bal (bank s) FARM d = pool_contrib p2 d - pool_contrib p d) ->
  (forall d, owed_p d p2 - owed_p d p <= (bal b' COLL d - bal (bank s) COLL d) * P18) ->
  inv (mkSt (height s) (set pid p2 (pools s)) (queue s) (seq s) b' (cfee s) (trate s)).
Proof.
  intros I Hg PI2 Hend Hcov He Hs. apply (inv_replace s pid p p2 (queue s) b' I Hg PI2 (i_qnd _ I)); try assumption.
  - reflexivity.
  - intros e Hin. destruct (i_qwf _ I _ _ Hin) as [p' [Hg' He']]. rewrite Hg in Hg'. inversion Hg'; subst. symmetry; exact Hend.
  - rewrite Hend. intros Hin. destruct (i_sched _ I _ _ Hg Hin) as [Hh Hc]. split; [exact Hh|]. exact (Hcov Hin Hc).
  - rewrite Hend. intros Hin. exact (i_unq _ I _ _ Hg Hin).
Qed.

(** ** updatePool (not destroying): the rules afterwards *)
Lemma upd_iv_cases h p : p_last p <= h ->
  upd_iv h p = 0 \/ (0 < upd_iv h p /\ 0 < p_locked p /\ upd_iv h p = h - p_last p).
Proof.
  intros Hl. unfold upd_iv. destruct (Z.ltb_spec (p_last p) h); destruct (Z.ltb_spec 0 (p_locked p)); simpl; auto.
  right. lia.
Qed.

Lemma map_denom_collect iv L rs : map r_denom (map (collect1 iv L) rs) = map r_denom rs.
Proof. rewrite map_map. reflexivity. Qed.

Lemma rule_sum_rem_collect iv L rs d :
  rule_sum r_rem (map (collect1 iv L) rs) d = rule_sum r_rem rs d - rule_sum (fun r => r_pb r * iv) rs d.
Proof. unfold rule_sum. induction rs as [|r rs IH]; simpl; [reflexivity|]. rewrite IH. destruct (r_denom r =? d); lia. Qed.

Lemma rules_after h p : pool_inv h p ->
  (0 < upd_iv h p -> Forall (fun r => r_pb r * upd_iv h p <= r_rem r) (p_rules p)) ->
  Forall rule_ok (map (collect1 (upd_iv h p) (p_locked p)) (p_rules p)).
Proof.
  intros PI Hcov. destruct (upd_iv_cases h p (pi_last _ _ PI)) as [Hz|(Hpos & HL & Hiv)].
  - rewrite Hz, collect1_zero. exact (pi_rule _ _ PI).
  - specialize (Hcov Hpos). pose proof (pi_rule _ _ PI) as Hok.
    apply Forall_forall. intros r' Hin. apply in_map_iff in Hin. destruct Hin as [r [<- Hin]].
    rewrite Forall_forall in Hcov, Hok. specialize (Hcov r Hin). destruct (Hok r Hin) as (Hrem & Hpb & Hrps).
    destruct (dq_bounds (upd_iv h p) (p_locked p) r HL ltac:(nia)) as [Hq _].
    unfold rule_ok, collect1. simpl. fold (dq (upd_iv h p) (p_locked p) r). lia.
Qed.

Lemma pool_inv_after h b p amt p1 b1 fs' :
  pool_inv h p -> update_pool h b p amt false = (p1, b1, true) ->
  (0 < p_locked p + amt -> p_start p <= h) ->
  asum f_locked fs' = p_locked p + amt -> Forall finfo_ok (vals fs') -> NoDup (keys fs') ->
  Forall (fun f => 0 < f_locked f) (vals fs') ->
  pool_inv h (with_farmers p1 fs').
Proof.
  intros PI Hu Hst Hsum Hfs Hnd Hpos'. destruct (update_pool_true _ _ _ _ _ _ _ Hu) as (Hlast & Hne & Hcov & -> & _).
  constructor; simpl.
  - exact Hsum.
  - exact Hfs.
  - destruct (p_rules p); [congruence|discriminate].
  - exact (rules_after h p PI Hcov).
  - rewrite map_denom_collect. exact (pi_denoms _ _ PI).
  - lia.
  - exact Hst.
  - intros Hfr. destruct (upd_iv_cases h p Hlast) as [Hz|(Hpos & HL & Hiv)].
    + rewrite Hz, collect1_zero. exact (pi_fresh _ _ PI Hfr).
    + pose proof (pi_started _ _ PI HL). lia.
  - exact (pi_creator _ _ PI).
  - exact Hnd.
  - exact Hpos'.
Qed.

Lemma covered_after h b p amt p1 b1 fs' :
  pool_inv h p -> update_pool h b p amt false = (p1, b1, true) -> covered p -> covered (with_farmers p1 fs').
Proof.
  intros PI Hu Hc. destruct (update_pool_true _ _ _ _ _ _ _ Hu) as (Hlast & Hne & Hcov & -> & _).
  unfold covered in *. simpl. apply Forall_forall. intros r' Hin. apply in_map_iff in Hin. destruct Hin as [r [<- Hin]].
  rewrite Forall_forall in Hc. specialize (Hc r Hin). pose proof (pi_rule _ _ PI) as Hok. rewrite Forall_forall in Hok.
  destruct (Hok r Hin) as (_ & Hpb & _). simpl.
  destruct (upd_iv_cases h p Hlast) as [Hz|(Hpos & HL & Hiv)].
  - rewrite Hz. nia.
  - pose proof (pi_started _ _ PI HL). rewrite Hiv. nia.
Qed.

Lemma contrib_after h b p amt p1 b1 fs' d :
  update_pool h b p amt false = (p1, b1, true) ->
  pool_contrib (with_farmers p1 fs') d
  = pool_contrib p d + (if p_lpt p =? d then amt else 0) - rule_sum (fun r => r_pb r * upd_iv h p) (p_rules p) d.
Proof.
  intros Hu. destruct (update_pool_true _ _ _ _ _ _ _ Hu) as (_ & _ & _ & -> & _).
  rewrite !pool_contrib_eq. simpl. rewrite rule_sum_rem_collect. destruct (p_lpt p =? d); lia.
Qed.

Lemma moved_FARM a d cs : a <> FARM -> a <> COLL -> moved_many a FARM COLL d cs = 0.
Proof. intros H1 H2. unfold moved_many. destruct (Z.eqb_spec a COLL); [contradiction|]. destruct (Z.eqb_spec a FARM); [contradiction|]. reflexivity. Qed.

Lemma moved_many_from a b d cs : a <> b -> moved_many a a b d cs = - csum cs d.
Proof. intros H. unfold moved_many. rewrite Z.eqb_refl. destruct (Z.eqb_spec a b); [contradiction|]. lia. Qed.
Lemma moved_many_to a b d cs : a <> b -> moved_many b a b d cs = csum cs d.
Proof. intros H. unfold moved_many. rewrite Z.eqb_refl. destruct (Z.eqb_spec b a); [congruence|]. lia. Qed.
Lemma moved_many_other x a b d cs : x <> a -> x <> b -> moved_many x a b d cs = 0.
Proof. intros H1 H2. unfold moved_many. destruct (Z.eqb_spec x b); [contradiction|]. destruct (Z.eqb_spec x a); [contradiction|]. reflexivity. Qed.

Lemma moved_from a b d dd x : a <> b -> moved a a b d dd x = if d =? dd then - x else 0.
Proof. intros H. unfold moved. rewrite Z.eqb_refl. destruct (Z.eqb_spec a b); [contradiction|]. destruct (d =? dd); lia. Qed.
Lemma moved_to a b d dd x : a <> b -> moved b a b d dd x = if d =? dd then x else 0.
Proof. intros H. unfold moved. rewrite Z.eqb_refl. destruct (Z.eqb_spec b a); [congruence|]. destruct (d =? dd); lia. Qed.
Lemma moved_other y a b d dd x : y <> a -> y <> b -> moved y a b d dd x = 0.
Proof. intros H1 H2. unfold moved. destruct (Z.eqb_spec y b); [contradiction|]. destruct (Z.eqb_spec y a); [contradiction|]. destruct (d =? dd); reflexivity. Qed.

Lemma FARM_COLL : FARM <> COLL. Proof. discriminate. Qed.
Lemma COLL_FARM : COLL <> FARM. Proof. discriminate. Qed.

(** ** the farmers of a pool after an interaction *)
Lemma owed_p_set p1 who fi' d :
  owed_p d (with_farmers p1 (set who fi' (p_farmers p1)))
  = owed_p d p1 - (match get who (p_farmers p1) with Some o => owed_f (p_rules p1) d o | None => 0 end) + owed_f (p_rules p1) d fi'.
Proof. unfold owed_p. simpl. rewrite asum_set. reflexivity. Qed.

Lemma owed_p_del p1 who o d : get who (p_farmers p1) = Some o ->
  owed_p d (with_farmers p1 (del1 who (p_farmers p1))) = owed_p d p1 - owed_f (p_rules p1) d o.
Proof. intros Hg. unfold owed_p. simpl. rewrite (asum_del1 _ _ _ _ Hg). reflexivity. Qed.

Lemma owed_p_after_gen h b p amt dz p1 b1 d :
  pool_inv h p -> update_pool h b p amt dz = (p1, b1, true) ->
  owed_p d p1 <= owed_p d p + rule_sum (fun r => r_pb r * upd_iv h p) (p_rules p) d * P18
  /\ p_farmers p1 = p_farmers p.
Proof.
  intros PI Hu. destruct (update_pool_true _ _ _ _ _ _ _ Hu) as (_ & _ & _ & -> & _).
  split; [|reflexivity]. unfold owed_p at 1. simpl. apply collect_owed_pool. exact PI.
Qed.
Definition owed_p_after h b p amt := owed_p_after_gen h b p amt false.

(** ** Stake *)
Lemma get_pool_inv s pid p : inv s -> get pid (pools s) = Some p -> pool_inv (height s) p.
Proof. intros I Hg. exact (Forall_vals_get _ _ _ _ (i_pools _ I) Hg). Qed.

Lemma farmer_ok h p who fi : pool_inv h p -> get who (p_farmers p) = Some fi -> finfo_ok fi.
Proof. intros PI Hg. exact (Forall_vals_get _ _ _ _ (pi_farmers _ _ PI) Hg). Qed.

Lemma end_after h b p amt p1 b1 : update_pool h b p amt false = (p1, b1, true) ->
  p_end p1 = p_end p /\ p_farmers p1 = p_farmers p /\ p_lpt p1 = p_lpt p /\ p_locked p1 = p_locked p + amt
  /\ p_start p1 = p_start p /\ p_last p1 = h /\ p_creator p1 = p_creator p /\ p_edit p1 = p_edit p
  /\ map r_denom (p_rules p1) = map r_denom (p_rules p).
Proof.
  intros Hu. destruct (update_pool_true _ _ _ _ _ _ _ Hu) as (_ & _ & _ & -> & _). simpl.
  rewrite map_denom_collect. repeat split; reflexivity.
Qed.

Lemma rules_ok_after_gen h b p amt dz p1 b1 : pool_inv h p -> update_pool h b p amt dz = (p1, b1, true) -> Forall rule_ok (p_rules p1).
Proof.
  intros PI Hu. destruct (update_pool_true _ _ _ _ _ _ _ Hu) as (_ & _ & Hcov & -> & _). simpl.
  exact (rules_after h p PI Hcov).
Qed.
Definition rules_ok_after h b p amt := rules_ok_after_gen h b p amt false.

Lemma stake_inv s who pid d amt s' rw : inv s -> actor who -> stake s who pid d amt = Done s' rw -> inv s'.
Proof.
  intros I (HwF & HwC & _) H. destruct (stake_Done _ _ _ _ _ _ _ H) as (p & b1 & p1 & b2 & rw0 & db & b3 & Hs).
  cbv zeta in Hs. destruct Hs as (Hpid & Hamt & Hg & Hstart & Hexp & -> & Hs1 & Hu & Hc & Hs2 & -> & ->).
  pose proof (get_pool_inv _ _ _ I Hg) as PI.
  destruct (end_after _ _ _ _ _ _ Hu) as (Hend & Hfs & Hlpt & Hlk & _).
  set (fi := match get_finfo p1 who with Some fi => fi | None => mkF 0 [] end) in *.
  assert (finfo_ok fi) as Hfi.
  { unfold fi, get_finfo. rewrite Hfs. destruct (get who (p_farmers p)) as [o|] eqn:Eo.
    - exact (farmer_ok _ _ _ _ PI Eo).
    - split; [simpl; lia|constructor]. }
  destruct Hfi as [Hl Hdebts].
  destruct (send_bal _ _ _ _ _ _ Hs1) as [_ Hb1].
  destruct (update_pool_true _ _ _ _ _ _ _ Hu) as (_ & _ & _ & _ & Hb2).
  destruct (send_many_bal _ _ _ _ _ Hs2) as [_ Hb3].
  pose proof (cacl_rw_nonneg _ _ _ _ _ _ Hc) as Hrw.
  unfold with_bank, with_pools. simpl.
  apply (inv_replace_same_queue s pid p _ b3 I Hg).
  - apply (pool_inv_after _ _ _ _ _ _ _ PI Hu); [lia| | |apply keys_set_NoDup; rewrite Hfs; exact (pi_nodup _ _ PI)
                                                  |apply Forall_vals_set; [rewrite Hfs; exact (pi_pos _ _ PI)|simpl; lia]].
    + rewrite asum_set. rewrite Hfs. change (asum f_locked (p_farmers p)) with (sum_locked p). rewrite (pi_sum _ _ PI).
      unfold fi, get_finfo. rewrite Hfs. unfold acct. dget; simpl; lia.
    + apply Forall_vals_set; [rewrite Hfs; exact (pi_farmers _ _ PI)|].
      split; [simpl; lia|simpl; exact (cacl_db_nonneg _ _ _ _ _ _ Hc)].
  - simpl. exact Hend.
  - intros _ Hcov. exact (covered_after _ _ _ _ _ _ _ PI Hu Hcov).
  - intros d. rewrite (contrib_after _ _ _ _ _ _ _ d Hu). rewrite Hb3, Hb2, Hb1.
    rewrite (moved_many_other FARM COLL who) by (try discriminate; congruence).
    rewrite (moved_many_from FARM COLL) by discriminate. rewrite csum_collected.
    rewrite (moved_to who FARM) by congruence. rewrite (Z.eqb_sym d (p_lpt p)). lia.
  - intros d. rewrite Hb3, Hb2, Hb1.
    rewrite (moved_many_from COLL who) by congruence. rewrite (moved_many_to FARM COLL) by discriminate.
    rewrite (moved_other COLL who FARM) by (try discriminate; congruence). rewrite csum_collected, csum_positive by exact Hrw.
    destruct (owed_p_after _ _ _ _ _ _ d PI Hu) as [Hop _].
    rewrite owed_p_set.
    pose proof (cacl_owed _ _ _ _ _ _ d Hl (rules_ok_after _ _ _ _ _ _ PI Hu) Hc) as Hco.
    assert (match get who (p_farmers p1) with Some o => owed_f (p_rules p1) d o | None => 0 end
            = csum (owed_list (p_rules p1) (f_locked fi) (f_debt fi)) d) as Hold.
    { unfold fi, get_finfo, acct. dget; [reflexivity|]. simpl. rewrite owed_list_zero. reflexivity. }
    rewrite Hold. unfold owed_f at 1. simpl. lia.
Qed.

(** ** Harvest *)
Lemma harvest_inv s who pid s' rw : inv s -> actor who -> harvest s who pid = Done s' rw -> inv s'.
Proof.
  intros I (HwF & HwC & _) H. destruct (harvest_Done _ _ _ _ _ H) as (p & fi & p1 & b1 & rw0 & db & b2 & Hs).
  destruct Hs as (Hg & Hexp & Hfi & Hu & Hc & Hs2 & -> & ->).
  pose proof (get_pool_inv _ _ _ I Hg) as PI. unfold get_finfo in Hfi. unfold acct in *.
  destruct (end_after _ _ _ _ _ _ Hu) as (Hend & Hfs & Hlpt & Hlk & _).
  destruct (farmer_ok _ _ _ _ PI Hfi) as [Hl Hdebts].
  destruct (update_pool_true _ _ _ _ _ _ _ Hu) as (_ & _ & _ & _ & Hb2).
  destruct (send_many_bal _ _ _ _ _ Hs2) as [_ Hb3].
  pose proof (cacl_rw_nonneg _ _ _ _ _ _ Hc) as Hrw.
  unfold with_bank, with_pools. simpl.
  apply (inv_replace_same_queue s pid p _ b2 I Hg).
  - apply (pool_inv_after _ _ _ _ _ _ _ PI Hu).
    + intros HL. pose proof (pi_started _ _ PI ltac:(lia)). pose proof (pi_last _ _ PI). lia.
    + rewrite asum_set. rewrite Hfs, Hfi. change (asum f_locked (p_farmers p)) with (sum_locked p). rewrite (pi_sum _ _ PI). simpl. lia.
    + apply Forall_vals_set; [rewrite Hfs; exact (pi_farmers _ _ PI)|].
      split; [simpl; lia|simpl; exact (cacl_db_nonneg _ _ _ _ _ _ Hc)].
    + apply keys_set_NoDup. rewrite Hfs. exact (pi_nodup _ _ PI).
    + apply Forall_vals_set; [rewrite Hfs; exact (pi_pos _ _ PI)|]. simpl. exact (Forall_vals_get _ _ _ _ (pi_pos _ _ PI) Hfi).
  - simpl. exact Hend.
  - intros _ Hcov. exact (covered_after _ _ _ _ _ _ _ PI Hu Hcov).
  - intros d. rewrite (contrib_after _ _ _ _ _ _ _ d Hu). rewrite Hb3, Hb2.
    rewrite (moved_many_other FARM COLL who) by (try discriminate; congruence).
    rewrite (moved_many_from FARM COLL) by discriminate. rewrite csum_collected.
    destruct (p_lpt p =? d); lia.
  - intros d. rewrite Hb3, Hb2.
    rewrite (moved_many_from COLL who) by congruence. rewrite (moved_many_to FARM COLL) by discriminate.
    rewrite csum_collected, csum_positive by exact Hrw.
    destruct (owed_p_after _ _ _ _ _ _ d PI Hu) as [Hop _].
    rewrite owed_p_set. rewrite Hfs. unfold acct. rewrite Hfi.
    pose proof (cacl_owed _ _ _ _ _ _ d Hl (rules_ok_after _ _ _ _ _ _ PI Hu) Hc) as Hco.
    rewrite Z.add_0_r in Hco. unfold owed_f at 1 2. simpl. lia.
Qed.

Lemma sum_locked_eq p : sum_locked p = asum f_locked (p_farmers p).
Proof. reflexivity. Qed.

(** ** Unstake *)
Definition unstake_fs (who : acct) (l' : Z) (db : list Z) (fs : amap acct finfo) : amap acct finfo :=
  if l' =? 0 then del1 who fs else set who (mkF l' db) fs.

Lemma unstake_fs_sum who l' db fs fi : get who fs = Some fi ->
  asum f_locked (unstake_fs who l' db fs) = asum f_locked fs - f_locked fi + l'.
Proof.
  intros Hg. unfold unstake_fs. destruct (Z.eqb_spec l' 0) as [->|Hne].
  - rewrite (asum_del1 _ _ _ _ Hg). lia.
  - rewrite asum_set. unfold acct in *. rewrite Hg. simpl. lia.
Qed.

Lemma unstake_fs_ok who l' db fs : Forall finfo_ok (vals fs) -> 0 <= l' -> Forall (fun d => 0 <= d) db ->
  Forall finfo_ok (vals (unstake_fs who l' db fs)).
Proof.
  intros Hfs Hl Hdb. unfold unstake_fs. destruct (l' =? 0).
  - apply Forall_vals_del1. exact Hfs.
  - apply Forall_vals_set; [exact Hfs|]. split; assumption.
Qed.

Lemma unstake_fs_nodup who l' db fs : NoDup (keys fs) -> NoDup (keys (unstake_fs who l' db fs)).
Proof. intros H. unfold unstake_fs. destruct (l' =? 0); [apply keys_del1_NoDup|apply keys_set_NoDup]; exact H. Qed.

Lemma unstake_fs_pos who l' db fs : Forall (fun f => 0 < f_locked f) (vals fs) -> 0 <= l' ->
  Forall (fun f => 0 < f_locked f) (vals (unstake_fs who l' db fs)).
Proof.
  intros H Hl. unfold unstake_fs. destruct (Z.eqb_spec l' 0); [apply Forall_vals_del1; exact H|].
  apply Forall_vals_set; [exact H|simpl; lia].
Qed.

Lemma unstake_fs_owed rs d who l' db fs fi : get who fs = Some fi ->
  asum (owed_f rs d) (unstake_fs who l' db fs) <= asum (owed_f rs d) fs - owed_f rs d fi + owed_f rs d (mkF l' db).
Proof.
  intros Hg. unfold unstake_fs. pose proof (owed_f_nonneg rs d (mkF l' db)). destruct (l' =? 0).
  - rewrite (asum_del1 _ _ _ _ Hg). lia.
  - rewrite asum_set. unfold acct in *. rewrite Hg. lia.
Qed.

Lemma unstake_inv s who pid d amt s' rw : inv s -> actor who -> unstake s who pid d amt = Done s' rw -> inv s'.
Proof.
  intros I (HwF & HwC & _) H. destruct (unstake_Done _ _ _ _ _ _ _ H) as (p & fi & p1 & b1 & b2 & rw0 & db & b3 & Hs).
  destruct Hs as (Hpid & Hamt & Hg & -> & Hfi & Hle1 & Hle2 & Hu & Hs1 & Hc & Hs2 & -> & ->).
  pose proof (get_pool_inv _ _ _ I Hg) as PI. unfold get_finfo in Hfi.
  destruct (farmer_ok _ _ _ _ PI Hfi) as [Hl Hdebts].
  destruct (send_bal _ _ _ _ _ _ Hs1) as [_ Hb2].
  destruct (send_many_bal _ _ _ _ _ Hs2) as [_ Hb3].
  pose proof (cacl_rw_nonneg _ _ _ _ _ _ Hc) as Hrw.
  pose proof (cacl_db_nonneg _ _ _ _ _ _ Hc) as Hdb.
  fold (unstake_fs who (f_locked fi - amt) db (p_farmers p1)).
  unfold with_bank, with_pools. simpl.
  unfold unstake_upd in Hu. destruct (expired s pid p) eqn:Hexp.
  - (* the pool has ended: no update *)
    inversion Hu; subst p1 b1. clear Hu. simpl in *.
    apply (inv_replace_same_queue s pid p _ b3 I Hg).
    + constructor; [ | |exact (pi_rules _ _ PI)|exact (pi_rule _ _ PI)|exact (pi_denoms _ _ PI)|exact (pi_last _ _ PI)
                    | |exact (pi_fresh _ _ PI)|exact (pi_creator _ _ PI)|simpl; apply unstake_fs_nodup; exact (pi_nodup _ _ PI)
                    |simpl; apply unstake_fs_pos; [exact (pi_pos _ _ PI)|lia]].
      * rewrite sum_locked_eq. simpl.
        fold (unstake_fs who (f_locked fi - amt) db (p_farmers p)). rewrite (unstake_fs_sum _ _ _ _ _ Hfi). rewrite <- sum_locked_eq. rewrite (pi_sum _ _ PI). lia.
      * simpl. apply unstake_fs_ok; [exact (pi_farmers _ _ PI)|lia|exact Hdb].
      * simpl. intros HL. apply (pi_started _ _ PI). lia.
    + reflexivity.
    + intros _ Hcov. exact Hcov.
    + intros d. rewrite !pool_contrib_eq. simpl. rewrite Hb3, Hb2.
      rewrite (moved_many_other FARM COLL who) by (try discriminate; congruence).
      rewrite (moved_from FARM who) by congruence. rewrite (Z.eqb_sym d (p_lpt p)). destruct (p_lpt p =? d); lia.
    + intros d. rewrite Hb3, Hb2. rewrite (moved_many_from COLL who) by congruence.
      rewrite (moved_other COLL FARM who) by (try discriminate; congruence). rewrite csum_positive by exact Hrw.
      unfold owed_p. simpl. pose proof (unstake_fs_owed (p_rules p) d who (f_locked fi - amt) db _ _ Hfi) as Ho.
      pose proof (cacl_owed _ _ _ _ _ _ d Hl (pi_rule _ _ PI) Hc) as Hco.
      replace (f_locked fi + - amt) with (f_locked fi - amt) in Hco by lia.
      assert (owed_f (p_rules p) d fi = csum (owed_list (p_rules p) (f_locked fi) (f_debt fi)) d) as E1 by reflexivity.
      assert (owed_f (p_rules p) d (mkF (f_locked fi - amt) db) = csum (owed_list (p_rules p) (f_locked fi - amt) db) d) as E2 by reflexivity.
      lia.
  - destruct (end_after _ _ _ _ _ _ Hu) as (Hend & Hfs & Hlpt & Hlk & _).
    destruct (update_pool_true _ _ _ _ _ _ _ Hu) as (_ & _ & _ & _ & Hb1).
    rewrite Hfs in *.
    apply (inv_replace_same_queue s pid p _ b3 I Hg).
    + apply (pool_inv_after _ _ _ _ _ _ _ PI Hu).
      * intros HL. pose proof (pi_started _ _ PI ltac:(lia)). pose proof (pi_last _ _ PI). lia.
      * rewrite (unstake_fs_sum _ _ _ _ _ Hfi). change (asum f_locked (p_farmers p)) with (sum_locked p). rewrite (pi_sum _ _ PI). lia.
      * apply unstake_fs_ok; [exact (pi_farmers _ _ PI)|lia|exact Hdb].
      * apply unstake_fs_nodup. exact (pi_nodup _ _ PI).
      * apply unstake_fs_pos; [exact (pi_pos _ _ PI)|lia].
    + simpl. exact Hend.
    + intros _ Hcov. exact (covered_after _ _ _ _ _ _ _ PI Hu Hcov).
    + intros d. rewrite (contrib_after _ _ _ _ _ _ _ d Hu). rewrite Hb3, Hb2, Hb1.
      rewrite (moved_many_other FARM COLL who) by (try discriminate; congruence).
      rewrite (moved_many_from FARM COLL) by discriminate. rewrite csum_collected.
      rewrite (moved_from FARM who) by congruence. rewrite (Z.eqb_sym d (p_lpt p)). destruct (p_lpt p =? d); lia.
    + intros d. rewrite Hb3, Hb2, Hb1. rewrite (moved_many_from COLL who) by congruence.
      rewrite (moved_other COLL FARM who) by (try discriminate; congruence).
      rewrite (moved_many_to FARM COLL) by discriminate. rewrite csum_collected, csum_positive by exact Hrw.
      destruct (owed_p_after _ _ _ _ _ _ d PI Hu) as [Hop Hfs'].
      unfold owed_p at 1. simpl.
      pose proof (unstake_fs_owed (p_rules p1) d who (f_locked fi - amt) db _ _ Hfi) as Ho.
      pose proof (cacl_owed _ _ _ _ _ _ d Hl (rules_ok_after _ _ _ _ _ _ PI Hu) Hc) as Hco.
      replace (f_locked fi + - amt) with (f_locked fi - amt) in Hco by lia.
      unfold owed_p in Hop at 1. rewrite Hfs' in Hop.
      assert (owed_f (p_rules p1) d fi = csum (owed_list (p_rules p1) (f_locked fi) (f_debt fi)) d) as E1 by reflexivity.
      assert (owed_f (p_rules p1) d (mkF (f_locked fi - amt) db) = csum (owed_list (p_rules p1) (f_locked fi - amt) db) d) as E2 by reflexivity.
      lia.
Qed.
