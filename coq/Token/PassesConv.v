(** * Token: every model trace passes the C10 checker (stream erc20).

    For every history of ARBITRARY messages (all thirteen kinds of the model, incl. the
    swap-to-native hook, ERC20 deployment and upgrade, with the EVM double in any mode) from a
    well-formed state whose swap registry has positive ratios, [check_from (holds_C10 reg)] fed the
    model's own observations answers (-1, -1, 0). *)
From Irismod Require Import Token.Check Token.ProofsBank Token.ProofsLossLess Token.Proofs Token.ProofsConv Token.Passes.

Local Open Scope Z_scope.

(** ** two more invariants: scales are 0..18, the registry never changes *)
Definition ScaleOK (s : state) : Prop := forall sym t, get sym (tokens s) = Some t -> 0 <= t_scale t <= 18.
Definition RegPos (s : state) : Prop := forall d tr, get d (registry s) = Some tr -> 0 < snd tr.

Lemma step_ScaleOK s m : IdInv s -> ScaleOK s -> ScaleOK (step s m).
Proof.
  intros I S. destruct (step_cases s m) as [(s' & E & ->)|[_ ->]]; [|assumption].
  apply exec_inv in E. destruct E as [V E].
  destruct (handle_tok_step s m s' I E) as [Ht _ _ | sym0 t0 t' Hg0 Ht _ (_ & _ & Hsc & _) _ _ | t0 _ _ Ht _ _ Hnew].
  - intros sym t. rewrite Ht. apply S.
  - intros sym t. rewrite Ht, get_set. destruct (eqb sym sym0); [|apply S].
    intros H. inversion H; subst t. rewrite Hsc. apply (S _ _ Hg0).
  - intros sym t. rewrite Ht, get_set. destruct (eqb sym (t_symbol t0)); [|apply S].
    intros H. inversion H; subst t. destruct m; simpl in Hnew; try contradiction; simpl in V;
      repeat (apply Bool.andb_true_iff in V; destruct V as [V ?]);
      repeat match goal with Hb : (_ <=? _) = true |- _ => apply Z.leb_le in Hb end; lia.
Qed.

Lemma handle_registry s m s' : IdInv s -> handle s m = ROk s' -> registry s' = registry s.
Proof.
  intros I H.
  assert (Hbo : forall a b, bank_only a b -> registry b = registry a).
  { intros a b Hb. apply bank_only_fields in Hb. apply Hb. }
  destruct m; simpl in H.
  - apply do_issue_inv in H. destruct H as (fd & famt & s1 & s3 & _ & _ & Hf & _ & _ & Hmint & Hpay).
    pose proof (fee_handler_effect _ _ _ _ _ Hf) as (Hb1 & _).
    rewrite (Hbo _ _ (bank_pay_only _ _ _ _ _ Hpay)), (Hbo _ _ (bank_mint_only _ _ _ _ Hmint)).
    match goal with |- context [upsert_token ?a ?b] => destruct (upsert_fields a b) as (_ & _ & _ & _ & _ & _ & _ & Hr & _) end.
    rewrite Hr. apply Hbo. assumption.
  - apply do_edit_inv in H. destruct H as (t & _ & _ & _ & ->). reflexivity.
  - apply Hbo. eapply mint_shape; eassumption.
  - apply do_burn_inv in H. destruct H as (t & s1 & _ & Hs & Hb).
    rewrite (Hbo _ _ (bank_burn_only _ _ _ _ Hb)). simpl. apply Hbo. eapply bank_send_only; eassumption.
  - apply do_transfer_inv in H. destruct H as (t & _ & _ & _ & ->). reflexivity.
  - apply Hbo. eapply do_swapfee_only; eassumption.
  - unfold do_deploy in H. inv_if H. cbv zeta in H.
    destruct (has minu (minunits s)).
    + destruct (token_by_minunit s minu) as [t|]; cbn [bind] in H; [|discriminate].
      inv_if H. inv_if H. inv_if H. inv_if H. inversion H. simpl.
      match goal with |- context [upsert_token ?a ?b] => destruct (upsert_fields a b) as (_ & _ & _ & _ & _ & _ & _ & Hr & _) end.
      assumption.
    + destruct (has sym (tokens s)); cbn [bind] in H; [discriminate|].
      inv_if H. inv_if H. inv_if H. inv_if H. inversion H. simpl.
      match goal with |- context [upsert_token ?a ?b] => destruct (upsert_fields a b) as (_ & _ & _ & _ & _ & _ & _ & Hr & _) end.
      assumption.
  - apply do_to_erc20_inv in H. destruct H as (t & s1 & s2 & _ & _ & _ & Hs & Hb & ->). simpl.
    rewrite (Hbo _ _ (bank_burn_only _ _ _ _ Hb)). apply Hbo. eapply bank_send_only; eassumption.
  - apply do_from_erc20_inv in H. destruct H as (t & s2 & _ & _ & _ & _ & Hm & Hp).
    rewrite (Hbo _ _ (bank_pay_only _ _ _ _ _ Hp)), (Hbo _ _ (bank_mint_only _ _ _ _ Hm)). reflexivity.
  - unfold do_set_params in H. inv_if H. inv_if H. inversion H. reflexivity.
  - inversion H. reflexivity.
  - apply do_hook_inv in H. destruct H as (sym0 & t & s2 & _ & _ & _ & _ & _ & _ & Hm & Hp).
    rewrite (Hbo _ _ (bank_pay_only _ _ _ _ _ Hp)), (Hbo _ _ (bank_mint_only _ _ _ _ Hm)). reflexivity.
  - apply do_upgrade_inv in H. subst s'. reflexivity.
  - apply do_hook_multi_frame in H. apply H.
Qed.

Lemma step_registry s m : IdInv s -> registry (step s m) = registry s.
Proof.
  intros I. destruct (step_cases s m) as [(s' & E & ->)|[_ ->]]; [|reflexivity].
  apply exec_inv in E. destruct E as [_ E]. eapply handle_registry; eassumption.
Qed.

(** ** reading the rest of the model's observation *)
Lemma oerc20_of s c cc h : WF s -> oerc20 (obs_of s c) cc h = erc20_bal s cc h.
Proof. intros W. unfold oerc20, erc20_bal. simpl. apply getz_filter_nz. apply (wf_erc s W). Qed.

Lemma oerc20_total_of s c cc : oerc20_total (obs_of s c) cc = erc20_total s cc.
Proof. unfold oerc20_total, erc20_total. simpl. apply zsum_filter_nz. Qed.

Lemma o_sup_In s c d x : WF s -> In (d, x) (o_supply (obs_of s c)) -> x = supply_of s d.
Proof.
  intros W Hin. simpl in Hin. apply filter_In in Hin. destruct Hin as [Hin _].
  unfold supply_of, getz. rewrite (get_of_In _ _ _ (wf_sup s W) Hin). reflexivity.
Qed.

Lemma o_erc_In s c cc h x : WF s -> In ((cc, h), x) (o_erc20 (obs_of s c)) -> x = erc20_bal s cc h.
Proof.
  intros W Hin. simpl in Hin. apply filter_In in Hin. destruct Hin as [Hin _].
  unfold erc20_bal, getz. rewrite (get_of_In _ _ _ (wf_erc s W) Hin). reflexivity.
Qed.

Section Others.
  Variables (s s' : state) (cp c' : Z).
  Hypothesis W : WF s.
  Hypothesis W' : WF s'.

  Lemma others_bal_ok a d :
    (forall a' d', (a', d') <> (a, d) -> balance s' a' d' = balance s a' d') ->
    others_unchanged_bal (obs_of s cp) (obs_of s' c') a d = true.
  Proof.
    intros Hfr. unfold others_unchanged_bal. apply Bool.andb_true_iff. split; apply forallb_forall; intros [[a' d'] x] Hin;
      destruct (eqb (a', d') (a, d)) eqn:E; try reflexivity; simpl; apply eqb_neq in E; apply Z.eqb_eq.
    - rewrite (o_bal_In s' c' W' _ _ _ Hin), (obal_of s cp W). apply Hfr. assumption.
    - rewrite (o_bal_In s cp W _ _ _ Hin), (obal_of s' c' W'). symmetry. apply Hfr. assumption.
  Qed.

  Lemma others_sup_ok d :
    (forall d', d' <> d -> supply_of s' d' = supply_of s d') ->
    others_unchanged_supply (obs_of s cp) (obs_of s' c') d = true.
  Proof.
    intros Hfr. unfold others_unchanged_supply. apply Bool.andb_true_iff. split; apply forallb_forall; intros [d' x] Hin;
      destruct (eqb d' d) eqn:E; try reflexivity; simpl; apply eqb_neq in E; apply Z.eqb_eq.
    - rewrite (o_sup_In s' c' _ _ W' Hin), (osupply_of s cp W). apply Hfr. assumption.
    - rewrite (o_sup_In s cp _ _ W Hin), (osupply_of s' c' W'). symmetry. apply Hfr. assumption.
  Qed.

  Lemma others_erc_ok cc h :
    (forall c0 h0, (c0, h0) <> (cc, h) -> erc20_bal s' c0 h0 = erc20_bal s c0 h0) ->
    others_unchanged_erc20 (obs_of s cp) (obs_of s' c') cc h = true.
  Proof.
    intros Hfr. unfold others_unchanged_erc20. apply Bool.andb_true_iff. split; apply forallb_forall; intros [[c0 h0] x] Hin;
      destruct (eqb (c0, h0) (cc, h)) eqn:E; try reflexivity; simpl; apply eqb_neq in E; apply Z.eqb_eq.
    - rewrite (o_erc_In s' c' _ _ _ W' Hin), (oerc20_of s cp _ _ W). apply Hfr. assumption.
    - rewrite (o_erc_In s cp _ _ _ W Hin), (oerc20_of s' c' _ _ W'). symmetry. apply Hfr. assumption.
  Qed.
End Others.

Lemma ind_false_0 (b : bool) x : b = false -> ind b x = 0.
Proof. intros ->. reflexivity. Qed.

Lemma failed_or_same s cp m :
  (if (step_code s m =? 0) then false else true) = true ->
  same_state (obs_of s cp) (obs_of (step s m) (step_code s m)) = true.
Proof.
  destruct (step_code s m =? 0) eqn:E; [discriminate|]. intros _. apply Z.eqb_neq in E.
  rewrite (step_code_fail s m E). apply same_state_obs.
Qed.

(** ** the clauses of [holds_C10] on the model's observations *)
Lemma holds_C10_model s cp m : WF s -> RegInv s -> ScaleOK s -> RegPos s ->
  holds_C10 (registry s) (obs_of s cp) (obs_of (step s m) (step_code s m)) m = 0.
Proof.
  intros W R SO RP. pose proof (reg_id s R) as I. pose proof (step_WF s m I W) as W'.
  assert (Hdefault : (if (step_code s m =? 0) || same_state (obs_of s cp) (obs_of (step s m) (step_code s m)) then 0 else 3) = 0).
  { destruct (step_code s m =? 0) eqn:E; [reflexivity|]. simpl. rewrite failed_or_same; [reflexivity|rewrite E; reflexivity]. }
  assert (Hfail : step_code s m =? 0 = false -> (if same_state (obs_of s cp) (obs_of (step s m) (step_code s m)) then 0 else 3) = 0).
  { intros E. rewrite failed_or_same; [reflexivity|rewrite E; reflexivity]. }
  unfold holds_C10. change (o_code (obs_of (step s m) (step_code s m))) with (step_code s m).
  destruct m; try exact Hdefault.
  - (* SwapFee *)
    destruct (step_code s (SwapFee sender receiver denom amt) =? 0) eqn:E; [|apply Hfail; first [assumption|reflexivity]].
    apply Z.eqb_eq in E. destruct (step_code_ok _ _ E) as (s1 & Ex & Hst). rewrite Hst in *.
    destruct (swapfee_effect _ _ _ _ _ _ I Ex) as (tb & target & ratio & tm & b & mt & Htb & Hreg & Htm & Hl & Hb0 & Hm0 & Hamt & Hsup & Hbal).
    cbv zeta in Hbal.
    destruct (token_by_minunit_spec s denom tb I Htb) as (syb & _ & Hgb & _ & Hmub).
    destruct (token_by_minunit_spec s target tm I Htm) as (sym & _ & Hgm & _ & Hmum).
    rewrite (otoken_mu_of s cp W I), Htb, Hmub, Hreg, (otoken_mu_of s cp W I), Htm.
    destruct (eqb target denom) eqn:Etd; [reflexivity|].
    rewrite !(osupply_of s1 _ W'), !(osupply_of s cp W), !(obal_of s1 _ W'), !(obal_of s cp W).
    rewrite !Hsup, !Hbal, !eqb_refl.
    assert (Edt : eqb denom target = false) by (apply eqb_false_iff; apply eqb_neq in Etd; congruence).
    rewrite Edt, Etd.
    assert (E1 : eqb (sender, denom) ((if receiver =? -2 then sender else receiver), target) = false).
    { apply eqb_false_iff. intros Heq. inversion Heq. apply eqb_neq in Edt. contradiction. }
    assert (E2 : eqb ((if receiver =? -2 then sender else receiver), target) (sender, denom) = false).
    { apply eqb_false_iff. intros Heq. inversion Heq. apply eqb_neq in Etd. contradiction. }
    rewrite E1, E2. unfold ind.
    replace (supply_of s denom - (supply_of s denom - b + 0)) with b by lia.
    replace (supply_of s target - 0 + mt - supply_of s target) with mt by lia.
    assert (Hsb : 0 <= t_scale tb <= 18) by (eapply SO; eassumption).
    assert (Hsm : 0 <= t_scale tm <= 18) by (eapply SO; eassumption).
    assert (Hrp : 0 < ratio) by (apply (RP _ _ Hreg)).
    assert (Hok : scales_ok (t_scale tb) (t_scale tm)) by (split; assumption).
    pose proof (lossless_range amt ratio _ _ ltac:(lia) Hrp Hok) as H1.
    pose proof (lossless_worth amt ratio _ _ ltac:(lia) Hrp Hok) as H2.
    rewrite Hl in H1, H2. destruct H1 as [[Hb1 Hb2] Hm1].
    unfold swap_codes. simpl app. unfold first_code.
    replace ((0 <=? b) && (b <=? amt) && (0 <=? mt)) with true
      by (symmetry; rewrite !Bool.andb_true_iff; repeat split; apply Z.leb_le; assumption).
    replace (mint_le_worthb b mt ratio (t_scale tb) (t_scale tm)) with true by (symmetry; unfold mint_le_worthb; apply Z.leb_le; exact H2).
    assert (H6 : negb (ratio =? P18) || ((b * pow10 (t_scale tm) =? mt * pow10 (t_scale tb)) && (amt - b <? pow10 (Z.max 0 (t_scale tb - t_scale tm)))) = true).
    { destruct (ratio =? P18) eqn:ER; [|reflexivity]. simpl. apply Z.eqb_eq in ER. subst ratio.
      pose proof (lossless_exact amt _ _ ltac:(lia) Hok) as H3. rewrite Hl in H3. destruct H3 as [He Hd].
      apply Bool.andb_true_iff. split; [apply Z.eqb_eq; assumption|apply Z.ltb_lt; assumption]. }
    rewrite H6.
    replace (balance s sender denom - b + 0 =? balance s sender denom - b) with true by (symmetry; apply Z.eqb_eq; lia).
    replace (balance s (if receiver =? -2 then sender else receiver) target - 0 + mt =? balance s (if receiver =? -2 then sender else receiver) target + mt) with true
      by (symmetry; apply Z.eqb_eq; lia).
    reflexivity.
  - (* Deploy *)
    destruct (step_code s (Deploy auth nm sym minu scale) =? 0) eqn:E; [|apply Hfail; first [assumption|reflexivity]].
    apply Z.eqb_eq in E. destruct (step_code_ok _ _ E) as (s1 & Ex & Hst). rewrite Hst in *.
    apply exec_inv in Ex. destruct Ex as [_ Ex]. simpl in Ex. apply do_deploy_frame in Ex. destruct Ex as (Hs & He & Hb).
    simpl. rewrite Hs, He, Hb, !eqb_refl. reflexivity.
  - (* ToErc20 *)
    destruct (step_code s (ToErc20 sender receiver denom amt) =? 0) eqn:E; [|apply Hfail; first [assumption|reflexivity]].
    apply Z.eqb_eq in E. destruct (step_code_ok _ _ E) as (s1 & Ex & Hst). rewrite Hst in *.
    destruct (to_erc20_effect _ _ _ _ _ _ Ex (wf_erc s W)) as (t & Ht & Hc & Hamt & Hsup & Hbal & Herc & Htot).
    rewrite (otoken_mu_of s cp W I), Ht.
    rewrite (osupply_of s1 _ W'), (osupply_of s cp W), (obal_of s1 _ W'), (obal_of s cp W),
            (oerc20_of s1 _ _ _ W'), (oerc20_of s cp _ _ W), !oerc20_total_of.
    rewrite Hsup, Hbal, Herc, Htot, !eqb_refl, Z.eqb_refl. unfold ind.
    rewrite (others_bal_ok s s1 cp _ W W'), (others_sup_ok s s1 cp _ W W'), (others_erc_ok s s1 cp _ W W').
    + replace (t_contract t =? 0) with false by (symmetry; apply Z.eqb_neq; assumption).
      simpl. rewrite !Z.eqb_refl. reflexivity.
    + intros c0 h0 Hne. rewrite Herc. rewrite ind_false_0; [lia|]. apply eqb_false_iff. assumption.
    + intros d' Hne. rewrite Hsup. rewrite ind_false_0; [lia|]. apply eqb_false_iff. assumption.
    + intros a' d' Hne. rewrite Hbal. rewrite ind_false_0; [lia|]. apply eqb_false_iff. assumption.
  - (* FromErc20 *)
    destruct (step_code s (FromErc20 sender receiver denom amt) =? 0) eqn:E; [|apply Hfail; first [assumption|reflexivity]].
    apply Z.eqb_eq in E. destruct (step_code_ok _ _ E) as (s1 & Ex & Hst). rewrite Hst in *.
    destruct (from_erc20_effect _ _ _ _ _ _ Ex (wf_erc s W)) as (t & Ht & Hc & Hamt & Hle & Hsup & Hbal & Herc & Htot).
    rewrite (otoken_mu_of s cp W I), Ht.
    rewrite (osupply_of s1 _ W'), (osupply_of s cp W), (obal_of s1 _ W'), (obal_of s cp W),
            !(oerc20_of s1 _ _ _ W'), (oerc20_of s cp _ _ W), !oerc20_total_of.
    rewrite Hsup, Hbal, !Herc, Htot, !eqb_refl, Z.eqb_refl. unfold ind.
    rewrite (others_bal_ok s s1 cp _ W W'), (others_sup_ok s s1 cp _ W W'), (others_erc_ok s s1 cp _ W W').
    + replace (t_contract t =? 0) with false by (symmetry; apply Z.eqb_neq; assumption).
      replace (0 <=? erc20_bal s (t_contract t) sender - amt) with true by (symmetry; apply Z.leb_le; lia).
      simpl. rewrite !Z.eqb_refl. reflexivity.
    + intros c0 h0 Hne. rewrite Herc. rewrite ind_false_0; [lia|]. apply eqb_false_iff. assumption.
    + intros d' Hne. rewrite Hsup. rewrite ind_false_0; [lia|]. apply eqb_false_iff. assumption.
    + intros a' d' Hne. rewrite Hbal. rewrite ind_false_0; [lia|]. apply eqb_false_iff. assumption.
  - (* HookToNative *)
    destruct (step_code s (HookToNative c from to amt) =? 0) eqn:E; [|apply Hfail; first [assumption|reflexivity]].
    apply Z.eqb_eq in E. destruct (step_code_ok _ _ E) as (s1 & Ex & Hst). rewrite Hst in *.
    destruct (hook_to_native_effect _ _ _ _ _ _ Ex (wf_erc s W)) as (sym & t & Hci & Hg & Hamt & Hle & Hsup & Hbal & Herc & Htot).
    cbv zeta in Hsup, Hbal.
    destruct (ctr_idx s (reg_ctr s R) c sym Hci) as (Hcnz & t1 & Hg1 & Hc1). rewrite Hg in Hg1. inversion Hg1; subst t1.
    change (o_contracts (obs_of s cp)) with (contracts s). rewrite Hci, (otoken_of s cp W I), Hg.
    rewrite (osupply_of s1 _ W'), (osupply_of s cp W), (obal_of s1 _ W'), (obal_of s cp W),
            !(oerc20_of s1 _ _ _ W'), (oerc20_of s cp _ _ W), !oerc20_total_of.
    rewrite Hsup, Hbal, !Herc, Htot, !eqb_refl, Z.eqb_refl. unfold ind.
    rewrite (others_bal_ok s s1 cp _ W W'), (others_sup_ok s s1 cp _ W W'), (others_erc_ok s s1 cp _ W W').
    + replace (t_contract t =? c) with true by (symmetry; apply Z.eqb_eq; assumption).
      replace (0 <=? erc20_bal s c from - amt) with true by (symmetry; apply Z.leb_le; lia).
      simpl. rewrite !Z.eqb_refl. reflexivity.
    + intros c0 h0 Hne. rewrite Herc. rewrite ind_false_0; [lia|]. apply eqb_false_iff. assumption.
    + intros d' Hne. rewrite Hsup. rewrite ind_false_0; [lia|]. apply eqb_false_iff. assumption.
    + intros a' d' Hne. rewrite Hbal. rewrite ind_false_0; [lia|]. apply eqb_false_iff. assumption.
  - (* UpgradeErc20 *)
    destruct (step_code s (UpgradeErc20 auth impl) =? 0) eqn:E; [|apply Hfail; first [assumption|reflexivity]].
    apply Z.eqb_eq in E. destruct (step_code_ok _ _ E) as (s1 & Ex & Hst). rewrite Hst in *.
    apply exec_inv in Ex. destruct Ex as [_ Ex]. simpl in Ex. apply do_upgrade_inv in Ex. subst s1.
    simpl. rewrite !eqb_refl. reflexivity.
  - (* HookMulti *)
    destruct (step_code s (HookMulti evs) =? 0) eqn:E; [|apply Hfail; first [assumption|reflexivity]].
    replace (forallb _ (o_tokens (obs_of s cp))) with true; [reflexivity|]. symmetry.
    apply forallb_forall. intros t Hin. apply (o_tokens_In s cp W I) in Hin.
    destruct (t_contract t =? 0) eqn:Ec; [reflexivity|]. simpl. apply Z.eqb_neq in Ec.
    assert (Ht : token_by_minunit s (t_minunit t) = Some t).
    { unfold token_by_minunit, token_by_symbol. destruct (id_sym s I _ _ Hin) as [_ Hmu]. rewrite Hmu. assumption. }
    destruct (conversion_step s (HookMulti evs) (t_minunit t) t R eq_refl Ht Ec) as [_ Heq].
    rewrite (osupply_of _ _ W'), (osupply_of s cp W), !oerc20_total_of. apply Z.eqb_eq. exact Heq.
Qed.

(** ** the checker on the model's own trace *)
Record Good10 (s : state) : Prop := { g_wf : WF s; g_reg : RegInv s; g_scale : ScaleOK s; g_pos : RegPos s }.

Lemma step_Good10 s m : Good10 s -> Good10 (step s m).
Proof.
  intros [W R S P]. pose proof (reg_id s R) as I. constructor.
  - apply step_WF; assumption.
  - apply step_RegInv; assumption.
  - apply step_ScaleOK; assumption.
  - unfold RegPos. rewrite (step_registry s m I). assumption.
Qed.

Lemma check_from_model_C10 ms : forall s cp i reg, Good10 s -> reg = registry s ->
  check_from (holds_C10 reg) s (obs_of s cp) (model_trace s ms) i (-1) (-1) 0 = (-1, -1, 0).
Proof.
  induction ms as [|m ms IH]; intros s cp i reg G Hreg; simpl; [reflexivity|].
  destruct G as [W R S P]. pose proof (reg_id s R) as I.
  rewrite (corr_obs_self (step s m) (step_code s m) (step_WF s m I W) (step_IdInv s m I)).
  subst reg. rewrite (holds_C10_model s cp m W R S P). simpl.
  apply IH; [apply step_Good10; constructor; assumption|symmetry; apply step_registry; assumption].
Qed.

Lemma genesis_Good10 p balances ss reg :
  NoDup (keys balances) -> (forall d tr, get d reg = Some tr -> 0 < snd tr) -> Good10 (genesis p balances ss reg).
Proof.
  intros Hnd Hpos. constructor.
  - apply genesis_WF. assumption.
  - apply genesis_RegInv.
  - intros sym t. unfold genesis. simpl. destruct (eq_dec sym STAKE) as [->|]; [|discriminate].
    intros H. inversion H. simpl. lia.
  - exact Hpos.
Qed.

Lemma model_passes_check_C10_lemma p balances ss reg ms :
  NoDup (keys balances) -> (forall d tr, get d reg = Some tr -> 0 < snd tr) ->
  let s0 := genesis p balances ss reg in
  check_case_C10 (mkCase p balances ss reg (obs_of s0 0) (model_trace s0 ms)) = (-1, -1, 0).
Proof.
  intros Hnd Hpos. cbv zeta. unfold check_case_C10, check_with. simpl c_params. simpl c_balances.
  simpl c_stake_supply. simpl c_registry. simpl c_obs0. simpl c_steps.
  pose proof (genesis_Good10 p balances ss reg Hnd Hpos) as G.
  rewrite (corr_obs_self _ 0 (g_wf _ G) (reg_id _ (g_reg _ G))).
  apply check_from_model_C10; [assumption|reflexivity].
Qed.
