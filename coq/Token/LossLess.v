(** * Token: the fee-token conversion kernel [LossLessSwap] (modules/token/types/types.go)

    A chain of [LegacyDec] operations, restated with [Base/Dec.v].  Every operation was checked
    against cosmossdk.io/math v1.3.0 (dec.go):

    - [LegacyNewDecFromInt i]            = [i * 10^18]
    - [LegacyNewDecWithPrec 1 p]         = [10^(18-p)]               (0 <= p <= 18)
    - [Mul]         = [chopPrecisionAndRound (a*b)]   (half-to-even)     = [dec_mul]
    - [MulTruncate] = [(a*b) quo 10^18]                                  = [dec_mul_trunc]
    - [QuoTruncate] = [((a*10^36) quo b) quo 10^18]                      = [dec_quo_trunc]
    - [TruncateDec] = [(a quo 10^18) * 10^18];  [TruncateInt] = [a quo 10^18]
    - [Sub], [Equal] exact.

    [lossless_swap_v0] is the function as found at the pinned commit (two rounding [Mul]s, the
    "give back" term [outputFrac * 10^(scale difference)] ignoring the ratio, truncation of the
    difference).  [lossless_swap] is the function of the current tree (after the [fix:] commit):
    truncating multiplications, the give-back divided by the ratio and itself truncated.
    No proofs in this file. *)
From Irismod Require Export Base.Prelude Base.Dec.

Definition pow10 (n : Z) : Z := 10 ^ n.

(** (scaleMultipler, scaleReverseMultipler) as decimals *)
Definition scale_mults (scale_in scale_out : Z) : Z * Z :=
  let sf := scale_in - scale_out in
  if 0 <=? sf then (pow10 (18 - sf), dec_of_int (pow10 sf))
  else (dec_of_int (pow10 (- sf)), pow10 (18 - (- sf))).

Definition dec_trunc_dec (a : dec) : dec := dec_of_int (dec_truncate_int a).

(** the pinned commit's function *)
Definition lossless_swap_v0 (input ratio scale_in scale_out : Z) : Z * Z :=
  let inputDec := dec_of_int input in
  let '(mult, rev) := scale_mults scale_in scale_out in
  let outputDec := dec_mul (dec_mul inputDec mult) ratio in
  let outputInt := dec_trunc_dec outputDec in
  let input' :=
    if outputDec =? outputInt then input
    else dec_truncate_int (inputDec - dec_mul (outputDec - outputInt) rev) in
  (input', dec_truncate_int outputInt).

(** the current function *)
Definition lossless_swap (input ratio scale_in scale_out : Z) : Z * Z :=
  let inputDec := dec_of_int input in
  let '(mult, rev) := scale_mults scale_in scale_out in
  let outputDec := dec_mul_trunc (dec_mul_trunc inputDec mult) ratio in
  let outputInt := dec_trunc_dec outputDec in
  let input' :=
    if outputDec =? outputInt then input
    else input - dec_truncate_int (dec_quo_trunc (dec_mul_trunc (outputDec - outputInt) rev) ratio) in
  (input', dec_truncate_int outputInt).

(** [LegacyDec] results of more than 315 bits panic ("Int overflow", cosmossdk.io/math dec.go: every
    [MulTruncate] / [QuoTruncate] checks its chopped result against maxDecBitLen = 256 + 59).  In
    [LossLessSwap] only the two products of the output chain can get there (the give-back terms are
    below 10^54, the minted integer is below 2^315 / 10^18 < 2^256 once the output passed). *)
Definition dec_ok (x : Z) : bool := Z.abs x <? 2 ^ 315.

Definition lossless_overflows (input ratio scale_in scale_out : Z) : bool :=
  let '(mult, _) := scale_mults scale_in scale_out in
  let a := dec_mul_trunc (dec_of_int input) mult in
  negb (dec_ok a) || negb (dec_ok (dec_mul_trunc a ratio)).

(** what the burned amount [b] of the input token is worth in the output token, compared with a
    minted amount [m], in integers: [m / 10^scale_out <= (b / 10^scale_in) * (ratio / 10^18)] *)
Definition mint_le_worth (b m ratio scale_in scale_out : Z) : Prop :=
  m * pow10 scale_in * P18 <= b * ratio * pow10 scale_out.

Definition mint_le_worthb (b m ratio scale_in scale_out : Z) : bool :=
  m * pow10 scale_in * P18 <=? b * ratio * pow10 scale_out.
