(** * Token: the pure-function checker is quiet on the model.

    For every admissible input the triple computed by [check_lossless] (Token/Check.v) on the
    model's own result is (-1, -1, 0): the stream "lossless" can raise an alarm only when the
    implementation's result differs from [lossless_swap] or violates one of the three clauses. *)
From Irismod Require Import Token.Check Token.ProofsBank Token.ProofsLossLess.

Local Open Scope Z_scope.

Lemma check_lossless_quiet_on_model input ratio si so :
  0 <= input -> 0 < ratio -> scales_ok si so ->
  check_lossless (input, ratio, si, so, lossless_swap input ratio si so) = (-1, -1, 0).
Proof.
  intros Hin Hr Hok.
  pose proof (lossless_range input ratio si so Hin Hr Hok) as H1.
  pose proof (lossless_worth input ratio si so Hin Hr Hok) as H2.
  assert (H3 : ratio = P18 ->
               let '(b, m) := lossless_swap input ratio si so in
               b * pow10 so = m * pow10 si /\ input - b < pow10 (Z.max 0 (si - so))).
  { intros ->. apply lossless_exact; assumption. }
  unfold check_lossless. destruct (lossless_swap input ratio si so) as [b m].
  rewrite eqb_refl.
  assert (Hc : first_code (swap_codes input ratio si so b m) = 0).
  { unfold swap_codes, first_code.
    destruct H1 as [[Hb0 Hb1] Hm0].
    replace ((0 <=? b) && (b <=? input) && (0 <=? m)) with true
      by (symmetry; rewrite !Bool.andb_true_iff; repeat split; apply Z.leb_le; assumption).
    replace (mint_le_worthb b m ratio si so) with true by (symmetry; unfold mint_le_worthb; apply Z.leb_le; exact H2).
    destruct (ratio =? P18) eqn:ER; simpl; [|reflexivity].
    apply Z.eqb_eq in ER. destruct (H3 ER) as [He Hd].
    replace (b * pow10 so =? m * pow10 si) with true by (symmetry; apply Z.eqb_eq; assumption).
    replace (input - b <? pow10 (Z.max 0 (si - so))) with true by (symmetry; apply Z.ltb_lt; assumption).
    reflexivity. }
  rewrite Hc. reflexivity.
Qed.
