(** * Token: every model trace passes the C09 checker.

    [obs_of s c] is what the harness would observe of a chain whose state is the model state [s]
    after a step with outcome [c].  For every history of C09 messages (issue / edit / mint / burn /
    transfer-owner / update-params by ordinary accounts) from a well-formed state, the checker
    [check_from holds_C09] fed the model's own observations answers (-1, -1, 0): the
    correspondence clause and all seven property clauses pass.  Hence the C09 check can raise an
    alarm on an implementation trace only where that trace differs from the model. *)
From Irismod Require Import Token.Check Token.ProofsBank Token.ProofsLossLess Token.Proofs Token.ProofsConv.

Local Open Scope Z_scope.

(** ** lists *)
Definition nz {K} (kv : K * Z) : bool := negb (snd kv =? 0).

Section Lists.
  Context {K : Type} `{EqDec K}.

  Lemma get_notin {V} (m : amap K V) k : ~ In k (keys m) -> get k m = None.
  Proof.
    induction m as [|[k0 v0] m IH]; simpl; [reflexivity|]. intros Hn.
    destruct (eq_dec k k0) as [->|Hne]; [exfalso; apply Hn; left; reflexivity|]. apply IH. tauto.
  Qed.

  Lemma get_of_In {V} (m : amap K V) k v : NoDup (keys m) -> In (k, v) m -> get k m = Some v.
  Proof.
    induction m as [|[k0 v0] m IH]; simpl; [tauto|]. intros Hnd Hin. inversion Hnd as [|? ? Hnot Hnd']; subst.
    destruct Hin as [Heq|Hin].
    - inversion Heq; subst. destruct (eq_dec k k); congruence.
    - destruct (eq_dec k k0) as [->|Hne]; [|auto].
      exfalso. apply Hnot. unfold keys. apply in_map_iff. exists (k0, v). split; [reflexivity|assumption].
  Qed.

  Lemma getz_filter_nz (m : amap K Z) k : NoDup (keys m) -> getz k (filter nz m) = getz k m.
  Proof.
    induction m as [|[k0 v0] m IH]; simpl; [reflexivity|]. intros Hnd. inversion Hnd as [|? ? Hnot Hnd']; subst.
    unfold nz at 1. simpl. destruct (v0 =? 0) eqn:E0; simpl.
    - apply Z.eqb_eq in E0. subst v0. unfold getz at 2. simpl. destruct (eq_dec k k0) as [->|Hne].
      + rewrite IH by assumption. unfold getz. rewrite (get_notin m k0 Hnot). reflexivity.
      + rewrite IH by assumption. reflexivity.
    - unfold getz. simpl. destruct (eq_dec k k0); [reflexivity|]. apply IH. assumption.
  Qed.

  Lemma forallb_self {V} `{EqDec V} (m : amap K V) : NoDup (keys m) ->
    forallb (fun kv => eqb (get (fst kv) m) (Some (snd kv))) m = true.
  Proof.
    intros Hnd. apply forallb_forall. intros [k v] Hin. simpl. apply eqb_true_iff. apply get_of_In; assumption.
  Qed.

  Lemma nodupb_true (l : list K) : NoDup l -> nodupb l = true.
  Proof.
    induction l as [|x l IH]; simpl; [reflexivity|]. intros Hnd. inversion Hnd as [|? ? Hnot Hnd']; subst.
    rewrite IH by assumption. rewrite Bool.andb_true_r. apply Bool.negb_true_iff.
    destruct (existsb (eqb x) l) eqn:E; [|reflexivity].
    apply existsb_exists in E. destruct E as (y & Hy & Heq). apply eqb_eq in Heq. subst y. contradiction.
  Qed.
End Lists.

Lemma zsum_filter_nz (m : amap (Z * acct) Z) c :
  zsum (map (fun '((c', _), x) => if c' =? c then x else 0) (filter nz m)) = ledger_total m c.
Proof.
  unfold ledger_total. induction m as [|[[c0 h0] v0] m IH]; simpl; [reflexivity|].
  unfold nz at 1. simpl. destruct (v0 =? 0) eqn:E0; simpl.
  - apply Z.eqb_eq in E0. subst v0. rewrite IH. destruct (c0 =? c); lia.
  - rewrite IH. reflexivity.
Qed.

(** ** the model's own observation *)
Definition obs_of (s : state) (c : Z) : obs :=
  mkObs c (map snd (tokens s)) (minunits s) (owned s) (contracts s) (burned s)
        (filter nz (supply s)) (filter nz (bank s)) (filter nz (erc20 s)) (pars s).

Record WF (s : state) : Prop := {
  wf_tok : NoDup (keys (tokens s)); wf_mu : NoDup (keys (minunits s)); wf_ctr : NoDup (keys (contracts s));
  wf_burn : NoDup (keys (burned s)); wf_bank : NoDup (keys (bank s)); wf_sup : NoDup (keys (supply s));
  wf_erc : NoDup (keys (erc20 s)) }.

Lemma WF_bank_only s s' : bank_only s s' -> WF s -> WF s'.
Proof.
  intros Hb [A B C D E F G]. destruct (bank_only_nodup _ _ Hb) as [HB HS].
  apply bank_only_fields in Hb. destruct Hb as (Ht & Hm & _ & Hc & Hbu & He & _).
  constructor; rewrite ?Ht, ?Hm, ?Hc, ?Hbu, ?He; auto.
Qed.

Lemma WF_upsert s t : WF s -> WF (upsert_token s t).
Proof.
  intros [A B C D E F G]. unfold upsert_token. destruct (t_contract t =? 0); constructor; simpl;
    try apply keys_set_NoDup; assumption.
Qed.

Lemma handle_WF s m s' : IdInv s -> WF s -> handle s m = ROk s' -> WF s'.
Proof.
  intros I W H. destruct m; simpl in H.
  - apply do_issue_inv in H. destruct H as (fd & famt & s1 & s3 & _ & _ & Hf & _ & _ & Hmint & Hpay).
    pose proof (fee_handler_effect _ _ _ _ _ Hf) as (Hb1 & _).
    eapply WF_bank_only; [eapply bank_pay_only; eassumption|].
    eapply WF_bank_only; [eapply bank_mint_only; eassumption|].
    apply WF_upsert. eapply WF_bank_only; eassumption.
  - apply do_edit_inv in H. destruct H as (t & _ & _ & _ & ->). destruct W. constructor; simpl; try assumption.
    apply keys_set_NoDup. assumption.
  - apply do_mint_inv in H; [|assumption].
    destruct H as (sy & fd & famt & s1 & t & s2 & _ & _ & _ & _ & _ & _ & Hf & _ & _ & _ & Hmint & Hpay).
    pose proof (fee_handler_effect _ _ _ _ _ Hf) as (Hb1 & _).
    eapply WF_bank_only; [eapply bank_pay_only; eassumption|].
    eapply WF_bank_only; [eapply bank_mint_only; eassumption|].
    eapply WF_bank_only; eassumption.
  - apply do_burn_inv in H. destruct H as (t & s1 & _ & Hs & Hb).
    eapply WF_bank_only; [eapply bank_burn_only; eassumption|].
    assert (W1 : WF s1) by (eapply WF_bank_only; [eapply bank_send_only; eassumption|assumption]).
    destruct W1. constructor; simpl; try assumption. apply keys_set_NoDup. assumption.
  - apply do_transfer_inv in H. destruct H as (t & _ & _ & _ & ->). destruct W. constructor; simpl; try assumption.
    apply keys_set_NoDup. assumption.
  - eapply WF_bank_only; [eapply do_swapfee_only; eassumption|assumption].
  - unfold do_deploy in H. inv_if H. cbv zeta in H.
    destruct (has minu (minunits s)).
    + destruct (token_by_minunit s minu) as [t|]; cbn [bind] in H; [|discriminate].
      inv_if H. inv_if H. inv_if H. inv_if H. inversion H.
      match goal with |- WF (upd_next (upsert_token ?a ?b) ?c) => pose proof (WF_upsert a b W) as W2 end.
      destruct W2. constructor; simpl; assumption.
    + destruct (has sym (tokens s)); cbn [bind] in H; [discriminate|].
      inv_if H. inv_if H. inv_if H. inv_if H. inversion H.
      match goal with |- WF (upd_next (upsert_token ?a ?b) ?c) => pose proof (WF_upsert a b W) as W2 end.
      destruct W2. constructor; simpl; assumption.
  - apply do_to_erc20_inv in H. destruct H as (t & s1 & s2 & _ & _ & _ & Hs & Hb & ->).
    assert (W2 : WF s2).
    { eapply WF_bank_only; [eapply bank_burn_only; eassumption|]. eapply WF_bank_only; [eapply bank_send_only; eassumption|assumption]. }
    destruct W2. constructor; simpl; try assumption. apply keys_set_NoDup. assumption.
  - apply do_from_erc20_inv in H. destruct H as (t & s2 & _ & _ & _ & _ & Hm & Hp).
    eapply WF_bank_only; [eapply bank_pay_only; eassumption|].
    eapply WF_bank_only; [eapply bank_mint_only; eassumption|].
    destruct W. constructor; simpl; try assumption. apply keys_set_NoDup. assumption.
  - unfold do_set_params in H. inv_if H. inv_if H. inversion H. destruct W. constructor; simpl; assumption.
  - inversion H. destruct W. constructor; simpl; assumption.
  - apply do_hook_inv in H. destruct H as (sym0 & t & s2 & _ & _ & _ & _ & _ & _ & Hm & Hp).
    eapply WF_bank_only; [eapply bank_pay_only; eassumption|].
    eapply WF_bank_only; [eapply bank_mint_only; eassumption|].
    destruct W. constructor; simpl; try assumption. apply keys_set_NoDup. assumption.
  - apply do_upgrade_inv in H. subst s'. assumption.
  - clear I. revert s W H. induction evs as [|[[[c from] to] amt] r IH]; simpl; intros s W H.
    + inversion H. subst. assumption.
    + inv_bind H. apply (IH x); [|assumption].
      apply do_hook_inv in E. destruct E as (sym0 & t & s2 & _ & _ & _ & _ & _ & _ & Hm & Hp).
      eapply WF_bank_only; [eapply bank_pay_only; eassumption|].
      eapply WF_bank_only; [eapply bank_mint_only; eassumption|].
      destruct W. constructor; simpl; try assumption. apply keys_set_NoDup. assumption.
Qed.

Lemma step_WF s m : IdInv s -> WF s -> WF (step s m).
Proof.
  intros I W. destruct (step_cases s m) as [(s' & E & ->)|[_ ->]]; [|assumption].
  apply exec_inv in E. destruct E as [_ E]. eapply handle_WF; eassumption.
Qed.

Lemma genesis_WF p balances ss reg : NoDup (keys balances) -> WF (genesis p balances ss reg).
Proof.
  intros Hb. constructor; simpl; try assumption; try constructor; simpl; try tauto; constructor.
Qed.

(** ** reading the model's observation gives the model's state *)
Section Reading.
  Variables (s : state) (c : Z).
  Hypothesis W : WF s.
  Hypothesis I : IdInv s.

  Lemma tokens_entry k t : In (k, t) (tokens s) -> get k (tokens s) = Some t /\ t_symbol t = k.
  Proof.
    intros Hin. pose proof (get_of_In _ _ _ (wf_tok s W) Hin) as Hg. split; [assumption|]. apply (id_sym s I k t Hg).
  Qed.

  Lemma o_tokens_In t : In t (o_tokens (obs_of s c)) <-> get (t_symbol t) (tokens s) = Some t.
  Proof.
    simpl. split.
    - intros Hin. apply in_map_iff in Hin. destruct Hin as ([k t0] & Heq & Hin). simpl in Heq. subst t0.
      destruct (tokens_entry k t Hin) as [Hg Hs]. rewrite Hs. assumption.
    - intros Hg. apply get_In in Hg. apply in_map_iff. exists (t_symbol t, t). split; [reflexivity|assumption].
  Qed.

  Lemma otoken_of sym : otoken (obs_of s c) sym = get sym (tokens s).
  Proof.
    unfold otoken. simpl.
    assert (Hall : forall k t, In (k, t) (tokens s) -> t_symbol t = k) by (intros k t Hin; apply (tokens_entry k t Hin)).
    revert Hall. generalize (tokens s). intros l. induction l as [|[k0 t0] l IH]; intros Hall; simpl; [reflexivity|].
    assert (Hk : t_symbol t0 = k0) by (apply Hall; left; reflexivity). rewrite Hk.
    unfold eqb. destruct (eq_dec k0 sym) as [Heq|Hne]; destruct (eq_dec sym k0) as [Heq'|Hne']; try congruence.
    apply IH. intros k t Hin. apply Hall. right. assumption.
  Qed.

  Lemma otoken_mu_of mu : otoken_mu (obs_of s c) mu = token_by_minunit s mu.
  Proof. unfold otoken_mu, token_by_minunit, token_by_symbol. simpl. destruct (get mu (minunits s)); [apply otoken_of|reflexivity]. Qed.

  Lemma oget_token_of d : oget_token (obs_of s c) d = get_token s d.
  Proof. unfold oget_token, get_token, token_by_symbol. rewrite otoken_of, otoken_mu_of. reflexivity. Qed.

  Lemma osupply_of d : osupply (obs_of s c) d = supply_of s d.
  Proof. unfold osupply, supply_of. simpl. apply getz_filter_nz. apply (wf_sup s W). Qed.

  Lemma obal_of a d : obal (obs_of s c) a d = balance s a d.
  Proof. unfold obal, balance. simpl. apply getz_filter_nz. apply (wf_bank s W). Qed.

  Lemma oburned_of d : oburned (obs_of s c) d = burned_of s d.
  Proof. reflexivity. Qed.

  Lemma o_bal_In a d x : In ((a, d), x) (o_bal (obs_of s c)) -> x = balance s a d.
  Proof.
    simpl. intros Hin. apply filter_In in Hin. destruct Hin as [Hin _].
    unfold balance, getz. rewrite (get_of_In _ _ _ (wf_bank s W) Hin). reflexivity.
  Qed.

  (** the correspondence clause holds of the model's own observation *)
  Lemma corr_obs_self : corr_obs s c (obs_of s c) = true.
  Proof.
    unfold corr_obs. simpl.
    repeat (apply Bool.andb_true_iff; split); try (apply Z.eqb_eq; reflexivity).
    - apply forallb_forall. intros t Hin. apply eqb_true_iff. apply in_map_iff in Hin.
      destruct Hin as ([k t0] & Heq & Hin). simpl in Heq. subst t0. destruct (tokens_entry k t Hin) as [Hg Hs]. rewrite Hs. assumption.
    - unfold len. rewrite map_length. apply Z.eqb_refl.
    - apply forallb_forall. intros [mu sym] Hin. apply eqb_true_iff. apply get_of_In; [apply (wf_mu s W)|assumption].
    - apply forallb_forall. intros p Hin. apply existsb_exists. exists p. split; [assumption|apply eqb_refl].
    - apply forallb_forall. intros [c0 sym] Hin. apply eqb_true_iff. apply get_of_In; [apply (wf_ctr s W)|assumption].
    - apply forallb_forall. intros [d x] Hin. apply eqb_true_iff. apply get_of_In; [apply (wf_burn s W)|assumption].
    - apply forallb_forall. intros [d x] Hin. apply Z.eqb_eq. apply filter_In in Hin. destruct Hin as [Hin _].
      unfold supply_of, getz. rewrite (get_of_In _ _ _ (wf_sup s W) Hin). reflexivity.
    - apply forallb_forall. intros [[a d] x] Hin. apply Z.eqb_eq. symmetry. apply o_bal_In. assumption.
    - apply forallb_forall. intros [[c0 h] x] Hin. apply Z.eqb_eq. apply filter_In in Hin. destruct Hin as [Hin _].
      unfold erc20_bal, getz. rewrite (get_of_In _ _ _ (wf_erc s W) Hin). reflexivity.
    - apply eqb_refl.
  Qed.
End Reading.

Lemma same_state_refl o : same_state o o = true.
Proof. unfold same_state. rewrite !eqb_refl. reflexivity. Qed.

Lemma same_state_obs s c1 c2 : same_state (obs_of s c1) (obs_of s c2) = true.
Proof. unfold same_state. simpl. rewrite !eqb_refl. reflexivity. Qed.

(** ** the C09 vocabulary: messages of the C09 stream, signed by ordinary accounts *)
Definition ordinary (a : acct) : Prop := a <> MODULE /\ a <> FEECOL.

Definition c09_msg (m : msg) : Prop :=
  match m with
  | Issue owner _ _ _ _ _ _ _ => ordinary owner
  | Mint owner _ _ _ => ordinary owner
  | Edit _ _ _ _ _ | Burn _ _ _ | Transfer _ _ _ | SetParams _ _ _ _ _ _ _ => True
  | _ => False
  end.

Lemma c09_msg_cap_checked m : c09_msg m -> cap_checked m = true.
Proof. destruct m; simpl; tauto || reflexivity. Qed.

(** *** what a C09 message does to an existing token record *)
Definition governed_change (s : state) (m : msg) (t t' : token) : Prop :=
  step_code s m = 0 /\
  match m with
  | Edit owner sym _ _ _ => owner = t_owner t /\ sym = t_symbol t /\ t_owner t' = t_owner t
  | Transfer src dst sym => src = t_owner t /\ sym = t_symbol t /\ t_owner t' = dst
                            /\ t_max t' = t_max t /\ t_mintable t' = t_mintable t
  | _ => False
  end.

Lemma issue_shape s owner sym minu nm scale initial max mintable s' :
  do_issue s owner sym minu nm scale initial max mintable = ROk s' ->
  get sym (tokens s) = None /\ get minu (minunits s) = None
  /\ tokens s' = set sym (mkToken sym minu scale initial (effective_max max initial mintable) mintable owner 0 nm) (tokens s)
  /\ minunits s' = set minu sym (minunits s).
Proof.
  intros H. apply do_issue_inv in H. destruct H as (fd & famt & s1 & s3 & _ & _ & Hf & Hs & Hm & Hmint & Hpay).
  pose proof (fee_handler_effect _ _ _ _ _ Hf) as (Hb1 & _). apply bank_only_fields in Hb1. destruct Hb1 as (Ht1 & Hm1 & _).
  apply bank_mint_only, bank_only_fields in Hmint. destruct Hmint as (Ht3 & Hm3 & _).
  apply bank_pay_only, bank_only_fields in Hpay. destruct Hpay as (Ht' & Hm' & _).
  match type of Ht3 with context [upsert_token ?a ?b] => destruct (upsert_fields a b) as (Hut & Hum & _) end.
  repeat split; try assumption.
  - rewrite Ht', Ht3, Hut, Ht1. reflexivity.
  - rewrite Hm', Hm3, Hum, Hm1. reflexivity.
Qed.

Lemma mint_shape s owner receiver denom amt s' : IdInv s ->
  do_mint s owner receiver denom amt = ROk s' -> bank_only s s'.
Proof.
  intros I H. apply do_mint_inv in H; [|assumption].
  destruct H as (sy & fd & famt & s1 & t & s2 & _ & _ & _ & _ & _ & _ & Hf & _ & _ & _ & Hmint & Hpay).
  pose proof (fee_handler_effect _ _ _ _ _ Hf) as (Hb1 & _).
  eapply bank_only_trans; [eassumption|].
  eapply bank_only_trans; [eapply bank_mint_only; eassumption|eapply bank_pay_only; eassumption].
Qed.

Lemma burn_shape s sender denom amt s' :
  do_burn s sender denom amt = ROk s' -> tokens s' = tokens s /\ minunits s' = minunits s.
Proof.
  intros H. apply do_burn_inv in H. destruct H as (t & s1 & _ & Hs & Hb).
  apply bank_send_only, bank_only_fields in Hs. destruct Hs as (Ht1 & Hm1 & _).
  apply bank_burn_only, bank_only_fields in Hb. destruct Hb as (Ht2 & Hm2 & _). simpl in Ht2, Hm2.
  split; congruence.
Qed.

Lemma c09_step_record s m k t : IdInv s -> c09_msg m -> get k (tokens s) = Some t ->
  exists t', get k (tokens (step s m)) = Some t' /\ (t' = t \/ governed_change s m t t').
Proof.
  intros I Hm Hg.
  destruct (step_cases s m) as [(s' & E & ->)|[_ ->]]; [|exists t; split; [assumption|left; reflexivity]].
  assert (Hc : step_code s m = 0) by (unfold step_code; rewrite E; reflexivity).
  pose proof (proj1 (id_sym s I k t Hg)) as Hsym.
  apply exec_inv in E. destruct E as [_ E]. destruct m; simpl in Hm; try contradiction; simpl in E.
  - (* Issue *)
    apply issue_shape in E. destruct E as (Hfresh & _ & Ht & _).
    exists t. rewrite Ht, get_set_other; [split; [assumption|left; reflexivity]|]. intros Heq. subst k. congruence.
  - (* Edit *)
    apply do_edit_inv in E. destruct E as (t0 & Ht0 & Ho & _ & ->). simpl. rewrite get_set.
    destruct (eqb k sym) eqn:Ek.
    + apply eqb_eq in Ek. rewrite Ek in Hg. rewrite Hg in Ht0. inversion Ht0; subst t0.
      eexists. split; [reflexivity|]. right. split; [assumption|]. simpl. repeat split; congruence.
    + exists t. split; [assumption|left; reflexivity].
  - (* Mint *)
    apply mint_shape in E; [|assumption]. apply bank_only_fields in E. destruct E as (Ht & _).
    exists t. rewrite Ht. split; [assumption|left; reflexivity].
  - (* Burn *)
    apply burn_shape in E. destruct E as (Ht & _). exists t. rewrite Ht. split; [assumption|left; reflexivity].
  - (* Transfer *)
    apply do_transfer_inv in E. destruct E as (t0 & _ & Ht0 & Ho & ->). simpl. rewrite get_set.
    destruct (eqb k sym) eqn:Ek.
    + apply eqb_eq in Ek. rewrite Ek in Hg. rewrite Hg in Ht0. inversion Ht0; subst t0.
      eexists. split; [reflexivity|]. right. split; [assumption|]. simpl. repeat split; congruence.
    + exists t. split; [assumption|left; reflexivity].
  - (* SetParams *)
    unfold do_set_params in E. inv_if E. inv_if E. inversion E. exists t. split; [assumption|left; reflexivity].
Qed.

(** *** what a C09 message does to supplies *)
Lemma issue_supply s owner sym minu nm scale initial max mintable s' :
  do_issue s owner sym minu nm scale initial max mintable = ROk s' ->
  exists fd famt, issue_fee s sym = ROk (fd, famt) /\ 0 <= tax_of s famt <= famt /\ 0 <= initial * pow10 scale
    /\ forall d, supply_of s' d = supply_of s d - ind (eqb d fd) (famt - tax_of s famt) + ind (eqb d minu) (initial * pow10 scale).
Proof.
  intros H. apply do_issue_inv in H. destruct H as (fd & famt & s1 & s3 & _ & Hfee & Hf & _ & _ & Hmint & Hpay).
  pose proof (fee_handler_effect _ _ _ _ _ Hf) as (_ & Htax & _ & Hsup1 & _).
  pose proof (bank_mint_sup _ _ _ _ Hmint) as Hsup3. pose proof (bank_pay_sup _ _ _ _ _ Hpay) as Hsup'.
  pose proof (bank_mint_inv _ _ _ _ Hmint) as [Hx _].
  match type of Hmint with context [upsert_token ?a ?b] => destruct (upsert_fields a b) as (_ & _ & _ & Hus & _) end.
  exists fd, famt. repeat split; try assumption; try lia.
  intros d. rewrite Hsup', Hsup3. unfold supply_of at 1. rewrite Hus. fold (supply_of s1 d). rewrite Hsup1. reflexivity.
Qed.

Lemma mint_supply s owner receiver denom amt s' : IdInv s ->
  do_mint s owner receiver denom amt = ROk s' ->
  exists sym fd famt t, get denom (minunits s) = Some sym /\ mint_fee s sym = ROk (fd, famt)
    /\ get sym (tokens s) = Some t /\ t_minunit t = denom /\ owner = t_owner t /\ t_mintable t = true
    /\ 0 <= tax_of s famt <= famt /\ 0 <= amt
    /\ forall d, supply_of s' d = supply_of s d - ind (eqb d fd) (famt - tax_of s famt) + ind (eqb d denom) amt.
Proof.
  intros I H. apply do_mint_inv in H; [|assumption].
  destruct H as (sy & fd & famt & s1 & t & s2 & _ & Hmu & Ht & Htm & _ & Hfee & Hf & Ho & Hmt & _ & Hmint & Hpay).
  pose proof (fee_handler_effect _ _ _ _ _ Hf) as (_ & Htax & _ & Hsup1 & _).
  pose proof (bank_mint_sup _ _ _ _ Hmint) as Hsup2. pose proof (bank_pay_sup _ _ _ _ _ Hpay) as Hsup'.
  pose proof (bank_mint_inv _ _ _ _ Hmint) as [Hx _].
  exists sy, fd, famt, t. repeat split; try assumption; try lia.
  intros d. rewrite Hsup', Hsup2, Hsup1. reflexivity.
Qed.

Lemma burn_supply s sender denom amt s' :
  do_burn s sender denom amt = ROk s' -> 0 <= amt /\ forall d, supply_of s' d = supply_of s d - ind (eqb d denom) amt.
Proof.
  intros H. apply do_burn_inv in H. destruct H as (t & s1 & _ & Hs & Hb).
  pose proof (bank_send_sup _ _ _ _ _ _ Hs) as Hsup1. pose proof (bank_burn_sup _ _ _ _ Hb) as Hsup2.
  pose proof (bank_burn_inv _ _ _ _ Hb) as [Hx _]. split; [lia|].
  intros d. rewrite Hsup2. unfold supply_of at 1. simpl. fold (supply_of s1 d). rewrite Hsup1. reflexivity.
Qed.

Lemma step_code_ok s m : step_code s m = 0 -> exists s', exec s m = ROk s' /\ step s m = s'.
Proof. unfold step_code, step. destruct (exec s m); intros H; try discriminate. eauto. Qed.

Lemma step_code_fail s m : step_code s m <> 0 -> step s m = s.
Proof. apply failed_step_changes_nothing. Qed.

Definition minted_by_owner (s : state) (m : msg) (t : token) : Prop :=
  step_code s m = 0 /\ match m with Mint owner _ denom _ => owner = t_owner t /\ denom = t_minunit t | _ => False end.

Lemma c09_step_supply s m k t : IdInv s -> c09_msg m -> get k (tokens s) = Some t ->
  supply_of (step s m) (t_minunit t) <= supply_of s (t_minunit t) \/ minted_by_owner s m t.
Proof.
  intros I Hm Hg.
  destruct (step_cases s m) as [(s' & E & ->)|[_ ->]]; [|left; lia].
  assert (Hc : step_code s m = 0) by (unfold step_code; rewrite E; reflexivity).
  destruct (id_sym s I k t Hg) as [Hsym Hmu].
  apply exec_inv in E. destruct E as [_ E]. destruct m; simpl in Hm; try contradiction; simpl in E.
  - pose proof E as E'. apply issue_shape in E'. destruct E' as (_ & Hfresh & _).
    apply issue_supply in E. destruct E as (fd & famt & _ & Htax & Hx & HS). left. rewrite HS.
    assert (Hne : eqb (t_minunit t) minu = false) by (apply eqb_false_iff; intros Heq; rewrite Heq in Hmu; congruence).
    rewrite Hne. unfold ind at 2. pose proof (ind_nonneg (eqb (t_minunit t) fd) (famt - tax_of s famt) ltac:(lia)). lia.
  - apply do_edit_inv in E. destruct E as (t0 & _ & _ & _ & ->). left. unfold supply_of. simpl. lia.
  - apply mint_supply in E; [|assumption].
    destruct E as (sy & fd & famt & t1 & Hmu1 & _ & Ht1 & Htm1 & Ho & _ & Htax & Hamt & HS).
    destruct (eqb (t_minunit t) denom) eqn:Ed.
    + right. split; [assumption|]. apply eqb_eq in Ed.
      assert (k = sy) by (eapply minunit_injective; [exact I|exact Hg|exact Ht1|congruence]). subst sy.
      rewrite Hg in Ht1. inversion Ht1; subst t1. split; [assumption|symmetry; assumption].
    + left. rewrite HS, Ed. unfold ind at 2. pose proof (ind_nonneg (eqb (t_minunit t) fd) (famt - tax_of s famt) ltac:(lia)). lia.
  - apply burn_supply in E. destruct E as (Hamt & HS). left. rewrite HS.
    pose proof (ind_nonneg (eqb (t_minunit t) denom) amt Hamt). lia.
  - apply do_transfer_inv in E. destruct E as (t0 & _ & _ & _ & ->). left. unfold supply_of. simpl. lia.
  - unfold do_set_params in E. inv_if E. inv_if E. inversion E. left. unfold supply_of. simpl. lia.
Qed.

(** ** the clauses of [holds_C09] on the model's observations *)
Lemma map_symbol_keys (l : amap name token) :
  (forall k t, In (k, t) l -> t_symbol t = k) -> map t_symbol (map snd l) = keys l.
Proof.
  induction l as [|[k0 t0] l IH]; intros Hall; simpl; [reflexivity|].
  rewrite (Hall k0 t0) by (left; reflexivity). f_equal. apply IH. intros k t Hin. apply Hall. right. assumption.
Qed.

Lemma NoDup_map_inj_in {A B} (f : A -> B) (l : list A) :
  (forall x y, In x l -> In y l -> f x = f y -> x = y) -> NoDup l -> NoDup (map f l).
Proof.
  induction l as [|a l IH]; intros Hinj Hnd; simpl; [constructor|].
  inversion Hnd as [|? ? Hnot Hnd']; subst. constructor.
  - intros Hin. apply in_map_iff in Hin. destruct Hin as (y & Hfy & Hy).
    assert (y = a) by (apply Hinj; [right; assumption|left; reflexivity|assumption]). subst y. contradiction.
  - apply IH; [|assumption]. intros x y Hx Hy. apply Hinj; right; assumption.
Qed.

Section Clauses.
  Variables (s : state) (cp : Z) (m : msg).
  Hypothesis W : WF s.
  Hypothesis CI : CapInv s.
  Hypothesis Hm : c09_msg m.

  Let I : IdInv s := cap_id s CI.
  Let s' := step s m.
  Let c' := step_code s m.
  Let p := obs_of s cp.
  Let o := obs_of s' c'.

  Lemma clause_I' : IdInv s'. Proof. apply step_IdInv. exact I. Qed.
  Lemma clause_W' : WF s'. Proof. apply step_WF; [exact I|exact W]. Qed.
  Lemma clause_C' : CapInv s'. Proof. apply step_CapInv; [apply c09_msg_cap_checked; exact Hm|exact CI]. Qed.

  Lemma clause_cap : c09_cap o = true.
  Proof.
    unfold c09_cap. apply forallb_forall. intros t Hin.
    apply (o_tokens_In s' c' clause_W' clause_I') in Hin. apply Z.leb_le.
    unfold o. rewrite (osupply_of s' c' clause_W'). apply (cap_ok s' clause_C' _ _ Hin).
  Qed.

  Lemma clause_identity : c09_identity p o = true.
  Proof.
    pose proof clause_W' as W'. pose proof clause_I' as I'.
    assert (Hent : forall k t, In (k, t) (tokens s') -> t_symbol t = k) by (intros k t Hin; apply (tokens_entry s' W' I' k t Hin)).
    unfold c09_identity. repeat (apply Bool.andb_true_iff; split).
    - unfold o. simpl. apply nodupb_true. rewrite (map_symbol_keys _ Hent). apply (wf_tok s' W').
    - unfold o. simpl. apply nodupb_true. apply NoDup_map_inj_in.
      + intros x y Hx Hy Heq.
        apply (o_tokens_In s' c' W' I') in Hx. apply (o_tokens_In s' c' W' I') in Hy.
        assert (t_symbol x = t_symbol y) by (eapply minunit_injective; [exact I'|exact Hx|exact Hy|exact Heq]).
        rewrite H in Hx. congruence.
      + apply (NoDup_map_inv t_symbol). rewrite (map_symbol_keys _ Hent). apply (wf_tok s' W').
    - apply forallb_forall. intros t Hin. apply eqb_true_iff.
      apply (o_tokens_In s' c' W' I') in Hin. unfold o. simpl. apply (id_sym s' I' _ _ Hin).
    - apply forallb_forall. intros t Hin. apply (o_tokens_In s cp W I) in Hin.
      destruct (step_token s m _ _ I Hin) as (t' & Hg' & (_ & Hmu & Hsc & _) & _).
      unfold o, s', c'. rewrite (otoken_of (step s m) (step_code s m) W' I'). rewrite Hg'.
      apply Bool.andb_true_iff. split; [apply eqb_true_iff; assumption|apply Z.eqb_eq; assumption].
    - apply forallb_forall. intros [mu sym] Hin. apply eqb_true_iff. unfold o. simpl.
      apply step_minunit; [exact I|]. apply get_of_In; [apply (wf_mu s W)|exact Hin].
  Qed.

  Lemma clause_failed : (o_code o =? 0) || same_state p o = true.
  Proof.
    unfold o. simpl. destruct (c' =? 0) eqn:E; [reflexivity|]. simpl.
    apply Z.eqb_neq in E. unfold p, s'. rewrite (step_code_fail s m E). apply same_state_obs.
  Qed.
End Clauses.

Lemma clause_authority s cp m : WF s -> CapInv s -> c09_msg m ->
  c09_authority (obs_of s cp) (obs_of (step s m) (step_code s m)) m = true.
Proof.
  intros W CI Hm. pose proof (cap_id s CI) as I.
  pose proof (clause_W' s m W CI) as W'. pose proof (clause_I' s m CI) as I'.
  unfold c09_authority. apply forallb_forall. intros t Hin.
  apply (o_tokens_In s cp W I) in Hin.
  destruct (c09_step_record s m _ t I Hm Hin) as (t' & Hg' & Hrec).
  rewrite (otoken_of (step s m) (step_code s m) W' I'), Hg'.
  rewrite !(osupply_of (step s m) (step_code s m) W'), !(osupply_of s cp W).
  change (o_code (obs_of (step s m) (step_code s m))) with (step_code s m).
  apply Bool.andb_true_iff. split.
  - destruct Hrec as [->|[Hc0 Hgc]]; [rewrite eqb_refl; reflexivity|].
    apply Bool.orb_true_iff. right. rewrite Hc0. destruct m; try contradiction.
    + destruct Hgc as (Ho & Hs & Ho').
      repeat (apply Bool.andb_true_iff; split); try reflexivity;
        try (apply Z.eqb_eq; assumption); try (apply eqb_true_iff; assumption).
    + destruct Hgc as (Ho & Hs & Ho' & Hmx & Hmt).
      repeat (apply Bool.andb_true_iff; split); try reflexivity;
        try (apply Z.eqb_eq; assumption); try (apply eqb_true_iff; assumption).
      rewrite Hmt. destruct (t_mintable t); reflexivity.
  - destruct (c09_step_supply s m _ t I Hm Hin) as [Hle|[Hc0 Hmint]].
    + apply Bool.orb_true_iff. left. apply Z.leb_le. assumption.
    + apply Bool.orb_true_iff. right. rewrite Hc0. destruct m; try contradiction. destruct Hmint as [Ho Hd].
      repeat (apply Bool.andb_true_iff; split); try reflexivity;
        try (apply Z.eqb_eq; assumption); try (apply eqb_true_iff; assumption).
Qed.

Lemma clause_mintable s cp m : WF s -> IdInv s ->
  c09_mintable (obs_of s cp) (obs_of (step s m) (step_code s m)) m = true.
Proof.
  intros W I. unfold c09_mintable. destruct m; try reflexivity.
  rewrite (otoken_mu_of s cp W I).
  change (o_code (obs_of (step s (Mint owner receiver denom amt)) (step_code s (Mint owner receiver denom amt))))
    with (step_code s (Mint owner receiver denom amt)).
  destruct (step_code s (Mint owner receiver denom amt) =? 0) eqn:E.
  - apply Z.eqb_eq in E. destruct (step_code_ok _ _ E) as (s1 & Ex & _).
    destruct (mint_needs_owner_and_mintable _ _ _ _ _ _ I Ex) as (t & Ht & _ & Hmt). rewrite Ht, Hmt. reflexivity.
  - destruct (token_by_minunit s denom); simpl; [apply Bool.orb_true_r|reflexivity].
Qed.

Lemma clause_tally s cp m : WF s -> IdInv s ->
  c09_tally (obs_of s cp) (obs_of (step s m) (step_code s m)) m = true.
Proof.
  intros W I. pose proof (step_WF s m I W) as W'.
  unfold c09_tally.
  change (o_code (obs_of (step s m) (step_code s m))) with (step_code s m).
  set (delta := fun d => match m with Burn _ d' amt => if eqb d d' && (step_code s m =? 0) then amt else 0 | _ => 0 end).
  assert (Hdelta : forall d, delta d = burn_amount s m d).
  { intros d. unfold delta, burn_amount. destruct m; try reflexivity. rewrite Bool.andb_comm. reflexivity. }
  assert (Hok : forall d,
    (oburned (obs_of (step s m) (step_code s m)) d =? oburned (obs_of s cp) d + delta d)
    && ((delta d =? 0) || (osupply (obs_of (step s m) (step_code s m)) d =? osupply (obs_of s cp) d - delta d)) = true).
  { intros d. rewrite (osupply_of _ _ W'), (osupply_of _ _ W). rewrite !oburned_of.
    apply Bool.andb_true_iff. split.
    - apply Z.eqb_eq. rewrite Hdelta. apply step_burned. assumption.
    - destruct (delta d =? 0) eqn:E0; [reflexivity|]. simpl. apply Z.eqb_eq. apply Z.eqb_neq in E0.
      unfold delta in *. destruct m; try (exfalso; apply E0; reflexivity).
      destruct (eqb d denom) eqn:Ed; simpl in *; [|exfalso; apply E0; reflexivity].
      destruct (step_code s (Burn sender denom amt) =? 0) eqn:Ec; [|exfalso; apply E0; reflexivity].
      apply Z.eqb_eq in Ec. destruct (step_code_ok _ _ Ec) as (s1 & Ex & Hst). rewrite Hst.
      apply exec_inv in Ex. destruct Ex as [_ Ex]. simpl in Ex. apply burn_supply in Ex. destruct Ex as [_ HS].
      rewrite HS, Ed. reflexivity. }
  repeat (apply Bool.andb_true_iff; split).
  - apply forallb_forall. intros [d x] _. apply Hok.
  - apply forallb_forall. intros [d x] _. apply Hok.
  - destruct m; try reflexivity. apply Hok.
Qed.

Lemma issue_fee_token s sym fd famt : issue_fee s sym = ROk (fd, famt) ->
  exists ft, get_token s (p_fee_denom (pars s)) = Some ft /\ t_minunit ft = fd.
Proof.
  unfold issue_fee. destruct (calc_issue_fee (pars s) sym); [|discriminate]. unfold to_min_coin.
  destruct (get_token s (p_fee_denom (pars s))) as [t|]; [|discriminate].
  destruct (negb (eqb (t_symbol t) (p_fee_denom (pars s)))); [discriminate|]. intros H. inversion H. eauto.
Qed.

Lemma mint_fee_token s sym fd famt : mint_fee s sym = ROk (fd, famt) ->
  exists ft, get_token s (p_fee_denom (pars s)) = Some ft /\ t_minunit ft = fd.
Proof.
  unfold mint_fee. destruct (calc_issue_fee (pars s) sym); [|discriminate]. unfold to_min_coin.
  destruct (get_token s (p_fee_denom (pars s))) as [t|]; [|discriminate].
  destruct (negb (eqb (t_symbol t) (p_fee_denom (pars s)))); [discriminate|]. intros H. inversion H. eauto.
Qed.

(** the arithmetic part of the fee clause, from the split equations *)
Lemma fee_clause_core s cp s1 c1 payer fd famt :
  WF s -> WF s1 ->
  0 <= tax_of s famt <= famt ->
  (forall d, balance s1 MODULE d = balance s MODULE d) ->
  balance s1 payer fd = balance s payer fd - famt ->
  balance s1 FEECOL fd = balance s FEECOL fd + tax_of s famt ->
  supply_of s1 fd = supply_of s fd - (famt - tax_of s famt) ->
  let p := obs_of s cp in let o := obs_of s1 c1 in
  let paid := obal p payer fd - obal o payer fd in
  let tax := obal o FEECOL fd - obal p FEECOL fd in
  let burnt := osupply p fd - osupply o fd in
  (0 <=? paid) && (paid =? tax + burnt)
  && (tax =? dec_truncate_int (dec_mul (dec_of_int paid) (p_tax (o_params p))))
  && forallb (fun '((a, d'), x) => negb (a =? MODULE) || (x =? obal p MODULE d')) (o_bal o)
  && forallb (fun '((a, d'), x) => negb (a =? MODULE) || (x =? obal o MODULE d')) (o_bal p) = true.
Proof.
  intros W W1 Htax Hmod Hpay Hcol Hsup. cbv zeta.
  rewrite !(obal_of s cp W), !(obal_of s1 c1 W1), (osupply_of s cp W), (osupply_of s1 c1 W1).
  rewrite Hpay, Hcol, Hsup.
  replace (balance s payer fd - (balance s payer fd - famt)) with famt by lia.
  replace (balance s FEECOL fd + tax_of s famt - balance s FEECOL fd) with (tax_of s famt) by lia.
  replace (supply_of s fd - (supply_of s fd - (famt - tax_of s famt))) with (famt - tax_of s famt) by lia.
  repeat (apply Bool.andb_true_iff; split).
  - apply Z.leb_le. lia.
  - apply Z.eqb_eq. lia.
  - apply Z.eqb_eq. reflexivity.
  - apply forallb_forall. intros [[a d'] x] Hin. destruct (a =? MODULE) eqn:Ea; [|reflexivity]. simpl.
    apply Z.eqb_eq in Ea. subst a. apply Z.eqb_eq. rewrite (o_bal_In s1 c1 W1 _ _ _ Hin), (obal_of s cp W). apply Hmod.
  - apply forallb_forall. intros [[a d'] x] Hin. destruct (a =? MODULE) eqn:Ea; [|reflexivity]. simpl.
    apply Z.eqb_eq in Ea. subst a. apply Z.eqb_eq. rewrite (o_bal_In s cp W _ _ _ Hin), (obal_of s1 c1 W1). symmetry. apply Hmod.
Qed.

Lemma clause_fee s cp m : WF s -> IdInv s -> c09_msg m ->
  c09_fee (obs_of s cp) (obs_of (step s m) (step_code s m)) m = true.
Proof.
  intros W I Hm. pose proof (step_WF s m I W) as W'.
  unfold c09_fee. destruct m; simpl in Hm; try contradiction; try reflexivity; unfold fee_payer.
  - (* Issue *)
    change (o_code (obs_of (step s (Issue owner sym minu nm scale initial max mintable)) (step_code s (Issue owner sym minu nm scale initial max mintable))))
      with (step_code s (Issue owner sym minu nm scale initial max mintable)).
    destruct (step_code s (Issue owner sym minu nm scale initial max mintable) =? 0) eqn:E; [|reflexivity]. simpl negb. cbv iota.
    apply Z.eqb_eq in E. destruct (step_code_ok _ _ E) as (s1 & Ex & Hst). rewrite Hst in *.
    destruct Hm as [Hom Hof].
    destruct (issue_fee_split _ _ _ _ _ _ _ _ _ _ Ex Hom) as (fd & famt & Hfee & Htax & Hmod & Hrest).
    destruct (issue_fee_token _ _ _ _ Hfee) as (ft & Hft & Hfd).
    rewrite (oget_token_of s cp W I). change (o_params (obs_of s cp)) with (pars s). rewrite Hft, Hfd.
    destruct (eqb fd minu || (owner =? MODULE) || (owner =? FEECOL)) eqn:Esk; [reflexivity|].
    apply Bool.orb_false_iff in Esk. destruct Esk as [Esk _]. apply Bool.orb_false_iff in Esk. destruct Esk as [Esk _].
    apply eqb_neq in Esk. destruct (Hrest Esk) as (Hp & Hc & Hs).
    apply (fee_clause_core s cp s1 _ owner fd famt W W' Htax Hmod Hp Hc Hs).
  - (* Mint *)
    change (o_code (obs_of (step s (Mint owner receiver denom amt)) (step_code s (Mint owner receiver denom amt))))
      with (step_code s (Mint owner receiver denom amt)).
    destruct (step_code s (Mint owner receiver denom amt) =? 0) eqn:E; [|reflexivity]. simpl negb. cbv iota.
    apply Z.eqb_eq in E. destruct (step_code_ok _ _ E) as (s1 & Ex & Hst). rewrite Hst in *.
    destruct Hm as [Hom Hof].
    set (recv := if receiver =? -2 then owner else receiver).
    destruct (recv =? MODULE) eqn:Erm.
    + (* the clause is skipped; still the fee token must be found *)
      pose proof Ex as Ex'. apply exec_inv in Ex'. destruct Ex' as [_ Ex']. simpl in Ex'.
      apply mint_supply in Ex'; [|assumption]. destruct Ex' as (sy & fd & famt & t1 & _ & Hfee & _).
      destruct (mint_fee_token _ _ _ _ Hfee) as (ft & Hft & Hfd).
      rewrite (oget_token_of s cp W I). change (o_params (obs_of s cp)) with (pars s). rewrite Hft.
      rewrite Bool.orb_true_r. reflexivity.
    + apply Z.eqb_neq in Erm.
      destruct (mint_fee_split _ _ _ _ _ _ I Ex Hom Hof Erm) as (sy & fd & famt & _ & Hfee & Htax & Hmod & Hrest).
      destruct (mint_fee_token _ _ _ _ Hfee) as (ft & Hft & Hfd).
      rewrite (oget_token_of s cp W I). change (o_params (obs_of s cp)) with (pars s). rewrite Hft, Hfd.
      destruct (eqb fd denom || false || (recv =? FEECOL)) eqn:Esk; [reflexivity|].
      apply Bool.orb_false_iff in Esk. destruct Esk as [Esk _]. apply Bool.orb_false_iff in Esk. destruct Esk as [Esk _].
      apply eqb_neq in Esk. destruct (Hrest Esk) as (Hp & Hc & Hs).
      apply (fee_clause_core s cp s1 _ owner fd famt W W' Htax Hmod Hp Hc Hs).
Qed.

(** ** the checker on the model's own trace *)
Lemma holds_C09_model s cp m : WF s -> CapInv s -> c09_msg m ->
  holds_C09 (obs_of s cp) (obs_of (step s m) (step_code s m)) m = 0.
Proof.
  intros W CI Hm. pose proof (cap_id s CI) as I. unfold holds_C09.
  pose proof (clause_cap s m W CI Hm) as H1. pose proof (clause_identity s cp m W CI) as H2.
  pose proof (clause_authority s cp m W CI Hm) as H3. pose proof (clause_mintable s cp m W I) as H4.
  pose proof (clause_tally s cp m W I) as H5. pose proof (clause_fee s cp m W I Hm) as H6.
  pose proof (clause_failed s cp m) as H7.
  rewrite H1, H2, H3, H4, H5, H6, H7. reflexivity.
Qed.

Fixpoint model_trace (s : state) (ms : list msg) : list (msg * obs) :=
  match ms with
  | [] => []
  | m :: r => (m, obs_of (step s m) (step_code s m)) :: model_trace (step s m) r
  end.

Lemma check_from_model_C09 ms : forall s cp i, WF s -> CapInv s -> Forall c09_msg ms ->
  check_from holds_C09 s (obs_of s cp) (model_trace s ms) i (-1) (-1) 0 = (-1, -1, 0).
Proof.
  induction ms as [|m ms IH]; intros s cp i W CI Hall; simpl; [reflexivity|].
  inversion Hall as [|? ? Hm Hms]; subst. pose proof (cap_id s CI) as I.
  rewrite (corr_obs_self (step s m) (step_code s m) (step_WF s m I W) (step_IdInv s m I)).
  rewrite (holds_C09_model s cp m W CI Hm). simpl.
  apply IH; [apply step_WF; assumption|apply step_CapInv; [apply c09_msg_cap_checked|]; assumption|assumption].
Qed.

Lemma model_passes_check_C09_lemma p balances ss reg ms :
  NoDup (keys balances) -> ss <= MAXU64 -> Forall c09_msg ms ->
  let s0 := genesis p balances ss reg in
  check_case_C09 (mkCase p balances ss reg (obs_of s0 0) (model_trace s0 ms)) = (-1, -1, 0).
Proof.
  intros Hnd Hss Hall. cbv zeta. unfold check_case_C09, check_with. simpl c_params. simpl c_balances.
  simpl c_stake_supply. simpl c_registry. simpl c_obs0. simpl c_steps.
  pose proof (genesis_WF p balances ss reg Hnd) as W. pose proof (genesis_CapInv p balances ss reg Hss) as CI.
  rewrite (corr_obs_self _ 0 W (cap_id _ CI)).
  apply check_from_model_C09; assumption.
Qed.
