(** * Token: proofs about the fee-token conversion kernel [lossless_swap] (Token/LossLess.v)

    For ALL offered amounts [0 <= input], ALL positive ratios and ALL scale pairs 0..18:
    - the burned amount lies in [0, input] and the minted amount is non-negative;
    - the minted amount is never worth more than the burned amount ([mint_le_worth], exact
      rationals cleared of denominators);
    - at ratio 1 the conversion is exact and the dust left with the sender is below one unit of the
      coarser token.
    The function of the pinned commit ([lossless_swap_v0]) violates the second and the first. *)
From Irismod Require Import Token.LossLess.
From Coq Require Import ZifyBool.

Local Open Scope Z_scope.

(** ** powers of ten *)
Lemma pow10_pos n : 0 <= n -> 0 < pow10 n.
Proof. intros. unfold pow10. apply Z.pow_pos_nonneg; lia. Qed.

Lemma pow10_add a b : 0 <= a -> 0 <= b -> pow10 (a + b) = pow10 a * pow10 b.
Proof. intros. unfold pow10. apply Z.pow_add_r; assumption. Qed.

Lemma pow10_18 : pow10 18 = P18.
Proof. reflexivity. Qed.

Lemma P18_pos : 0 < P18.
Proof. reflexivity. Qed.

Lemma P36_pos : 0 < P36.
Proof. reflexivity. Qed.

Lemma P36_eq : P36 = P18 * P18.
Proof. reflexivity. Qed.

(** ** floor division facts *)
Lemma div_mul_le a b : 0 < b -> a / b * b <= a.
Proof. intros. rewrite Z.mul_comm. apply Z.mul_div_le. assumption. Qed.

Lemma div_nonneg a b : 0 <= a -> 0 < b -> 0 <= a / b.
Proof. intros. apply Z.div_pos; assumption. Qed.

Lemma mul_le_cancel_r a b c : 0 < c -> a * c <= b * c -> a <= b.
Proof. intros Hc H. apply Z.mul_le_mono_pos_r in H; assumption. Qed.

(** the give-back [floor (floor (floor (X * 10^36 / r) / 10^18) / 10^18)] never exceeds [X / r] *)
Lemma give_bound X r : 0 <= X -> 0 < r -> X * P36 / r / P18 / P18 * r <= X.
Proof.
  intros HX Hr.
  set (q1 := X * P36 / r). set (q2 := q1 / P18). set (q3 := q2 / P18).
  assert (H1 : q1 * r <= X * P36) by (apply div_mul_le; assumption).
  assert (H2 : q2 * P18 <= q1) by (apply div_mul_le; exact P18_pos).
  assert (H3 : q3 * P18 <= q2) by (apply div_mul_le; exact P18_pos).
  assert (Hq1 : 0 <= q1) by (apply div_nonneg; [apply Z.mul_nonneg_nonneg; [assumption|apply Z.lt_le_incl, P36_pos]|assumption]).
  assert (H4 : q3 * P36 <= q1).
  { rewrite P36_eq. apply Z.le_trans with (q2 * P18); [|assumption].
    rewrite Z.mul_assoc. apply Z.mul_le_mono_nonneg_r; [apply Z.lt_le_incl, P18_pos|assumption]. }
  apply mul_le_cancel_r with P36; [exact P36_pos|].
  apply Z.le_trans with (q1 * r); [|assumption].
  replace (q3 * r * P36) with (q3 * P36 * r) by ring.
  apply Z.mul_le_mono_nonneg_r; [lia|assumption].
Qed.

Lemma give_nonneg X r : 0 <= X -> 0 < r -> 0 <= X * P36 / r / P18 / P18.
Proof.
  intros. repeat apply div_nonneg; try exact P18_pos; try assumption.
  apply Z.mul_nonneg_nonneg; [assumption|apply Z.lt_le_incl, P36_pos].
Qed.

(** ** the value of [lossless_swap], by direction of the scale difference *)
Lemma quot_nonneg a b : 0 <= a -> 0 < b -> Z.quot a b = a / b.
Proof. intros. apply Z.quot_div_nonneg; lia. Qed.

(** scale_in >= scale_out: the output is [floor (input * 10^(18-sf) * ratio / 10^18)] eighteen-decimal
    units of the output token *)
Lemma lossless_swap_down input ratio si so :
  0 <= input -> 0 < ratio -> 0 <= so -> so <= si -> si <= 18 ->
  let T := pow10 (si - so) in
  let E := pow10 (18 - (si - so)) in
  let D := input * E * ratio / P18 in
  let F := D mod P18 in
  lossless_swap input ratio si so =
    (if F =? 0 then input else input - F * T * P36 / ratio / P18 / P18, D / P18).
Proof.
  intros Hin Hr Hso Hle Hsi T E D F.
  assert (HT : 0 < T) by (apply pow10_pos; lia).
  assert (HE : 0 < E) by (apply pow10_pos; lia).
  assert (HD : 0 <= D).
  { apply div_nonneg; [|exact P18_pos]. apply Z.mul_nonneg_nonneg; [apply Z.mul_nonneg_nonneg|]; lia. }
  assert (HF : 0 <= F < P18) by (apply Z.mod_pos_bound; exact P18_pos).
  assert (HDm : D = D / P18 * P18 + F).
  { unfold F. rewrite Z.mul_comm. apply Z.div_mod. discriminate. }
  assert (Hq : 0 <= D / P18) by (apply div_nonneg; [assumption|exact P18_pos]).
  unfold lossless_swap, scale_mults.
  replace (0 <=? si - so) with true by (symmetry; apply Z.leb_le; lia).
  fold T. fold E.
  assert (H1 : dec_mul_trunc (dec_of_int input) E = input * E).
  { unfold dec_mul_trunc, chop_trunc, dec_of_int.
    replace (input * P18 * E) with (input * E * P18) by ring.
    apply Z.quot_mul. discriminate. }
  rewrite H1.
  assert (H2 : dec_mul_trunc (input * E) ratio = D).
  { unfold dec_mul_trunc, chop_trunc. apply quot_nonneg; [|exact P18_pos].
    apply Z.mul_nonneg_nonneg; [apply Z.mul_nonneg_nonneg|]; lia. }
  rewrite H2.
  assert (H3 : dec_trunc_dec D = D / P18 * P18).
  { unfold dec_trunc_dec, dec_of_int, dec_truncate_int. rewrite quot_nonneg; [reflexivity|assumption|exact P18_pos]. }
  rewrite H3.
  assert (H4 : dec_truncate_int (D / P18 * P18) = D / P18).
  { unfold dec_truncate_int. apply Z.quot_mul. discriminate. }
  rewrite H4.
  f_equal.
  destruct (F =? 0) eqn:EF.
  - apply Z.eqb_eq in EF.
    replace (D =? D / P18 * P18) with true; [reflexivity|]. symmetry. apply Z.eqb_eq. lia.
  - apply Z.eqb_neq in EF.
    replace (D =? D / P18 * P18) with false by (symmetry; apply Z.eqb_neq; lia).
    replace (D - D / P18 * P18) with F by lia.
    assert (H5 : dec_mul_trunc F (dec_of_int T) = F * T).
    { unfold dec_mul_trunc, chop_trunc, dec_of_int.
      replace (F * (T * P18)) with (F * T * P18) by ring. apply Z.quot_mul. discriminate. }
    rewrite H5.
    assert (HFT : 0 <= F * T) by (apply Z.mul_nonneg_nonneg; lia).
    assert (H6 : dec_quo_trunc (F * T) ratio = F * T * P36 / ratio / P18).
    { unfold dec_quo_trunc, chop_trunc.
      assert (0 <= F * T * P36) by (apply Z.mul_nonneg_nonneg; [assumption|apply Z.lt_le_incl, P36_pos]).
      rewrite (quot_nonneg (F * T * P36) ratio) by assumption.
      apply quot_nonneg; [|exact P18_pos]. apply div_nonneg; assumption. }
    rewrite H6.
    unfold dec_truncate_int. rewrite quot_nonneg; [reflexivity| |exact P18_pos].
    apply div_nonneg; [|exact P18_pos]. apply div_nonneg; [|assumption].
    apply Z.mul_nonneg_nonneg; [assumption|apply Z.lt_le_incl, P36_pos].
Qed.

(** scale_in < scale_out: the output [input * 10^k * ratio] is exact *)
Lemma lossless_swap_up input ratio si so :
  0 <= input -> 0 < ratio -> 0 <= si -> si < so -> so <= 18 ->
  let K := pow10 (so - si) in
  let E := pow10 (18 - (so - si)) in
  let D := input * K * ratio in
  let F := D mod P18 in
  lossless_swap input ratio si so =
    (if F =? 0 then input else input - (F * E / P18) * P36 / ratio / P18 / P18, D / P18).
Proof.
  intros Hin Hr Hsi Hlt Hso K E D F.
  assert (HK : 0 < K) by (apply pow10_pos; lia).
  assert (HE : 0 < E) by (apply pow10_pos; lia).
  assert (HD : 0 <= D) by (apply Z.mul_nonneg_nonneg; [apply Z.mul_nonneg_nonneg|]; lia).
  assert (HF : 0 <= F < P18) by (apply Z.mod_pos_bound; exact P18_pos).
  assert (HDm : D = D / P18 * P18 + F).
  { unfold F. rewrite Z.mul_comm. apply Z.div_mod. discriminate. }
  assert (Hq : 0 <= D / P18) by (apply div_nonneg; [assumption|exact P18_pos]).
  unfold lossless_swap, scale_mults.
  replace (0 <=? si - so) with false by (symmetry; apply Z.leb_gt; lia).
  replace (- (si - so)) with (so - si) by ring.
  fold K. fold E.
  assert (H1 : dec_mul_trunc (dec_of_int input) (dec_of_int K) = input * K * P18).
  { unfold dec_mul_trunc, chop_trunc, dec_of_int.
    replace (input * P18 * (K * P18)) with (input * K * P18 * P18) by ring.
    apply Z.quot_mul. discriminate. }
  rewrite H1.
  assert (H2 : dec_mul_trunc (input * K * P18) ratio = D).
  { unfold dec_mul_trunc, chop_trunc, D.
    replace (input * K * P18 * ratio) with (input * K * ratio * P18) by ring.
    apply Z.quot_mul. discriminate. }
  rewrite H2.
  assert (H3 : dec_trunc_dec D = D / P18 * P18).
  { unfold dec_trunc_dec, dec_of_int, dec_truncate_int. rewrite quot_nonneg; [reflexivity|assumption|exact P18_pos]. }
  rewrite H3.
  assert (H4 : dec_truncate_int (D / P18 * P18) = D / P18).
  { unfold dec_truncate_int. apply Z.quot_mul. discriminate. }
  rewrite H4.
  f_equal.
  destruct (F =? 0) eqn:EF.
  - apply Z.eqb_eq in EF.
    replace (D =? D / P18 * P18) with true; [reflexivity|]. symmetry. apply Z.eqb_eq. lia.
  - apply Z.eqb_neq in EF.
    replace (D =? D / P18 * P18) with false by (symmetry; apply Z.eqb_neq; lia).
    replace (D - D / P18 * P18) with F by lia.
    assert (HFE : 0 <= F * E) by (apply Z.mul_nonneg_nonneg; lia).
    assert (H5 : dec_mul_trunc F E = F * E / P18).
    { unfold dec_mul_trunc, chop_trunc. apply quot_nonneg; [assumption|exact P18_pos]. }
    rewrite H5.
    assert (HX : 0 <= F * E / P18) by (apply div_nonneg; [assumption|exact P18_pos]).
    assert (H6 : dec_quo_trunc (F * E / P18) ratio = (F * E / P18) * P36 / ratio / P18).
    { unfold dec_quo_trunc, chop_trunc.
      assert (0 <= F * E / P18 * P36) by (apply Z.mul_nonneg_nonneg; [assumption|apply Z.lt_le_incl, P36_pos]).
      rewrite (quot_nonneg (F * E / P18 * P36) ratio) by assumption.
      apply quot_nonneg; [|exact P18_pos]. apply div_nonneg; assumption. }
    rewrite H6.
    unfold dec_truncate_int. rewrite quot_nonneg; [reflexivity| |exact P18_pos].
    apply div_nonneg; [|exact P18_pos]. apply div_nonneg; [|assumption].
    apply Z.mul_nonneg_nonneg; [assumption|apply Z.lt_le_incl, P36_pos].
Qed.

(** ** the three statements, scale_in >= scale_out *)
Section Down.
  Variables input ratio si so : Z.
  Hypothesis Hin : 0 <= input.
  Hypothesis Hr : 0 < ratio.
  Hypothesis Hso : 0 <= so.
  Hypothesis Hle : so <= si.
  Hypothesis Hsi : si <= 18.

  Let T := pow10 (si - so).
  Let E := pow10 (18 - (si - so)).
  Let D := input * E * ratio / P18.
  Let F := D mod P18.

  Lemma down_ET : E * T = P18.
  Proof.
    unfold E, T. rewrite <- pow10_add by lia.
    replace (18 - (si - so) + (si - so)) with 18 by ring. exact pow10_18.
  Qed.

  Lemma down_scales : pow10 si = pow10 so * T.
  Proof. unfold T. rewrite <- pow10_add by lia. f_equal. ring. Qed.

  Lemma down_D_le : D * T <= input * ratio.
  Proof.
    assert (H : D * P18 <= input * E * ratio) by (apply div_mul_le; exact P18_pos).
    apply mul_le_cancel_r with E; [apply pow10_pos; lia|].
    replace (D * T * E) with (D * (E * T)) by ring. rewrite down_ET.
    replace (input * ratio * E) with (input * E * ratio) by ring. exact H.
  Qed.

  Lemma down_facts :
    0 < T /\ 0 < E /\ 0 <= D /\ 0 <= F < P18 /\ D = D / P18 * P18 + F /\ 0 <= D / P18.
  Proof.
    assert (HT : 0 < T) by (apply pow10_pos; lia).
    assert (HE : 0 < E) by (apply pow10_pos; lia).
    assert (HD : 0 <= D).
    { apply div_nonneg; [|exact P18_pos]. apply Z.mul_nonneg_nonneg; [apply Z.mul_nonneg_nonneg|]; lia. }
    repeat split; try assumption.
    - apply Z.mod_pos_bound. exact P18_pos.
    - apply Z.mod_pos_bound. exact P18_pos.
    - unfold F. rewrite Z.mul_comm. apply Z.div_mod. discriminate.
    - apply div_nonneg; [assumption|exact P18_pos].
  Qed.

  Lemma down_range :
    let '(b, m) := lossless_swap input ratio si so in 0 <= b <= input /\ 0 <= m.
  Proof.
    rewrite lossless_swap_down by assumption. fold T E D F.
    destruct down_facts as (HT & HE & HD & HF & HDm & Hq).
    split; [|exact Hq].
    destruct (F =? 0) eqn:EF; [lia|].
    assert (HFT : 0 <= F * T) by (apply Z.mul_nonneg_nonneg; lia).
    pose proof (give_bound (F * T) ratio HFT Hr) as Hg.
    pose proof (give_nonneg (F * T) ratio HFT Hr) as Hg0.
    set (g := F * T * P36 / ratio / P18 / P18) in *.
    split; [|lia].
    (* g * ratio <= F*T <= D*T <= input*ratio *)
    assert (Hc : g * ratio <= input * ratio).
    { apply Z.le_trans with (F * T); [exact Hg|].
      apply Z.le_trans with (D * T); [|exact down_D_le].
      apply Z.mul_le_mono_nonneg_r; [lia|]. unfold F. apply Z.mod_le; [assumption|exact P18_pos]. }
    apply mul_le_cancel_r in Hc; [lia|assumption].
  Qed.

  Lemma down_worth :
    let '(b, m) := lossless_swap input ratio si so in mint_le_worth b m ratio si so.
  Proof.
    rewrite lossless_swap_down by assumption. fold T E D F.
    destruct down_facts as (HT & HE & HD & HF & HDm & Hq).
    unfold mint_le_worth. rewrite down_scales.
    assert (Hso' : 0 < pow10 so) by (apply pow10_pos; lia).
    set (m := D / P18) in *.
    (* goal: m * (pow10 so * T) * P18 <= b * ratio * pow10 so; enough: m * P18 * T <= b * ratio *)
    assert (Hkey : forall b, m * P18 * T <= b * ratio -> m * (pow10 so * T) * P18 <= b * ratio * pow10 so).
    { intros b Hb. replace (m * (pow10 so * T) * P18) with (m * P18 * T * pow10 so) by ring.
      apply Z.mul_le_mono_nonneg_r; lia. }
    apply Hkey.
    pose proof down_D_le as HDT.
    destruct (F =? 0) eqn:EF.
    - apply Z.eqb_eq in EF. replace (m * P18) with D by lia. exact HDT.
    - assert (HFT : 0 <= F * T) by (apply Z.mul_nonneg_nonneg; lia).
      pose proof (give_bound (F * T) ratio HFT Hr) as Hg.
      set (g := F * T * P36 / ratio / P18 / P18) in *.
      replace ((input - g) * ratio) with (input * ratio - g * ratio) by ring.
      assert (HDT' : m * P18 * T + F * T = D * T).
      { transitivity ((m * P18 + F) * T); [ring|]. f_equal. symmetry. exact HDm. }
      lia.
  Qed.

  Lemma down_exact : ratio = P18 ->
    let '(b, m) := lossless_swap input ratio si so in
    b * pow10 so = m * pow10 si /\ input - b < pow10 (Z.max 0 (si - so)).
  Proof.
    intros HR.
    rewrite lossless_swap_down by assumption. fold T E D F.
    destruct down_facts as (HT & HE & HD & HF & HDm & Hq).
    replace (Z.max 0 (si - so)) with (si - so) by lia. fold T.
    rewrite down_scales.
    assert (HDv : D = input * E).
    { unfold D. rewrite HR. apply Z.div_mul. discriminate. }
    (* input = q*T + r;  D = q*P18 + r*E *)
    pose proof (Z.div_mod input T ltac:(lia)) as Hdm.
    pose proof (Z.mod_pos_bound input T HT) as Hrm.
    set (q := input / T) in *. set (r := input mod T) in *.
    assert (HrE : 0 <= r * E < P18).
    { split; [apply Z.mul_nonneg_nonneg; lia|]. rewrite <- down_ET. rewrite (Z.mul_comm E T).
      apply Z.mul_lt_mono_pos_r; lia. }
    assert (HDq : D = q * P18 + r * E).
    { rewrite HDv, Hdm. rewrite <- down_ET. ring. }
    assert (Hm : D / P18 = q /\ F = r * E).
    { unfold F. symmetry in HDq. rewrite Z.mul_comm in HDq.
      pose proof (Z.div_mod_unique P18 q (D / P18) (r * E) (D mod P18)) as U.
      assert (HF' : 0 <= D mod P18 < P18) by (apply Z.mod_pos_bound; exact P18_pos).
      specialize (U (or_introl HrE) (or_introl HF')).
      assert (Heq : P18 * q + r * E = P18 * (D / P18) + D mod P18).
      { rewrite HDq. apply Z.div_mod. discriminate. }
      destruct (U Heq) as [U1 U2]. split; congruence. }
    destruct Hm as [Hm HFv]. rewrite Hm.
    destruct (F =? 0) eqn:EF.
    - apply Z.eqb_eq in EF. rewrite HFv in EF.
      assert (r = 0) by (apply Z.mul_eq_0 in EF; destruct EF; lia).
      split; [|lia]. rewrite Hdm. subst r. replace (input mod T) with 0 by lia. ring.
    - assert (Hg : F * T * P36 / ratio / P18 / P18 = r).
      { rewrite HFv, HR. replace (r * E * T * P36) with (r * (E * T) * P18 * P18) by (rewrite P36_eq; ring). rewrite down_ET.
        rewrite Z.div_mul by discriminate. rewrite Z.div_mul by discriminate. apply Z.div_mul. discriminate. }
      rewrite Hg. split; [|lia].
      replace (input - r) with (T * q) by lia. ring.
  Qed.
End Down.

(** ** the three statements, scale_in < scale_out *)
Section Up.
  Variables input ratio si so : Z.
  Hypothesis Hin : 0 <= input.
  Hypothesis Hr : 0 < ratio.
  Hypothesis Hsi : 0 <= si.
  Hypothesis Hlt : si < so.
  Hypothesis Hso : so <= 18.

  Let K := pow10 (so - si).
  Let E := pow10 (18 - (so - si)).
  Let D := input * K * ratio.
  Let F := D mod P18.

  Lemma up_EK : E * K = P18.
  Proof.
    unfold E, K. rewrite <- pow10_add by lia.
    replace (18 - (so - si) + (so - si)) with 18 by ring. exact pow10_18.
  Qed.

  Lemma up_scales : pow10 so = pow10 si * K.
  Proof. unfold K. rewrite <- pow10_add by lia. f_equal. ring. Qed.

  Lemma up_facts :
    0 < K /\ 0 < E /\ 0 <= D /\ 0 <= F < P18 /\ D = D / P18 * P18 + F /\ 0 <= D / P18.
  Proof.
    assert (HK : 0 < K) by (apply pow10_pos; lia).
    assert (HE : 0 < E) by (apply pow10_pos; lia).
    assert (HD : 0 <= D) by (apply Z.mul_nonneg_nonneg; [apply Z.mul_nonneg_nonneg|]; lia).
    repeat split; try assumption.
    - apply Z.mod_pos_bound. exact P18_pos.
    - apply Z.mod_pos_bound. exact P18_pos.
    - unfold F. rewrite Z.mul_comm. apply Z.div_mod. discriminate.
    - apply div_nonneg; [assumption|exact P18_pos].
  Qed.

  (** the give-back [g] satisfies [g * ratio * K <= F] *)
  Lemma up_give : let g := (F * E / P18) * P36 / ratio / P18 / P18 in 0 <= g /\ g * ratio * K <= F.
  Proof.
    destruct up_facts as (HK & HE & HD & HF & HDm & Hq).
    assert (HFE : 0 <= F * E) by (apply Z.mul_nonneg_nonneg; lia).
    assert (HX : 0 <= F * E / P18) by (apply div_nonneg; [assumption|exact P18_pos]).
    cbv zeta. split; [apply give_nonneg; assumption|].
    pose proof (give_bound (F * E / P18) ratio HX Hr) as Hg.
    set (g := F * E / P18 * P36 / ratio / P18 / P18) in *.
    assert (H1 : F * E / P18 * P18 <= F * E) by (apply div_mul_le; exact P18_pos).
    (* g*ratio <= X;  X * P18 <= F*E;  P18 = E*K  =>  X*K <= F *)
    assert (H2 : F * E / P18 * K <= F).
    { apply mul_le_cancel_r with E; [assumption|].
      replace (F * E / P18 * K * E) with (F * E / P18 * (E * K)) by ring. rewrite up_EK. exact H1. }
    apply Z.le_trans with (F * E / P18 * K); [|exact H2].
    apply Z.mul_le_mono_nonneg_r; lia.
  Qed.

  Lemma up_range :
    let '(b, m) := lossless_swap input ratio si so in 0 <= b <= input /\ 0 <= m.
  Proof.
    rewrite lossless_swap_up by assumption. fold K E D F.
    destruct up_facts as (HK & HE & HD & HF & HDm & Hq).
    split; [|exact Hq].
    destruct (F =? 0) eqn:EF; [lia|].
    destruct up_give as [Hg0 Hg].
    set (g := F * E / P18 * P36 / ratio / P18 / P18) in *.
    split; [|lia].
    (* g*ratio*K <= F <= D = input*K*ratio *)
    assert (Hc : g * (ratio * K) <= input * (ratio * K)).
    { replace (g * (ratio * K)) with (g * ratio * K) by ring.
      replace (input * (ratio * K)) with D by (unfold D; ring).
      assert (HFD : F <= D) by (unfold F; apply Z.mod_le; [assumption|exact P18_pos]). lia. }
    apply mul_le_cancel_r in Hc; [lia|]. apply Z.mul_pos_pos; assumption.
  Qed.

  Lemma up_worth :
    let '(b, m) := lossless_swap input ratio si so in mint_le_worth b m ratio si so.
  Proof.
    rewrite lossless_swap_up by assumption. fold K E D F.
    destruct up_facts as (HK & HE & HD & HF & HDm & Hq).
    unfold mint_le_worth. rewrite up_scales.
    assert (Hsi' : 0 < pow10 si) by (apply pow10_pos; lia).
    set (m := D / P18) in *.
    assert (Hkey : forall b, m * P18 <= b * ratio * K -> m * pow10 si * P18 <= b * ratio * (pow10 si * K)).
    { intros b Hb. replace (m * pow10 si * P18) with (m * P18 * pow10 si) by ring.
      replace (b * ratio * (pow10 si * K)) with (b * ratio * K * pow10 si) by ring.
      apply Z.mul_le_mono_nonneg_r; lia. }
    apply Hkey.
    destruct (F =? 0) eqn:EF.
    - replace (input * ratio * K) with D by (unfold D; ring). lia.
    - destruct up_give as [Hg0 Hg].
      set (g := F * E / P18 * P36 / ratio / P18 / P18) in *.
      replace ((input - g) * ratio * K) with (D - g * ratio * K) by (unfold D; ring). lia.
  Qed.

  Lemma up_exact : ratio = P18 ->
    let '(b, m) := lossless_swap input ratio si so in
    b * pow10 so = m * pow10 si /\ input - b < pow10 (Z.max 0 (si - so)).
  Proof.
    intros HR.
    rewrite lossless_swap_up by assumption. fold K E D F.
    replace (Z.max 0 (si - so)) with 0 by lia.
    assert (HDv : D = input * K * P18) by (unfold D; rewrite HR; reflexivity).
    assert (HF0 : F = 0) by (unfold F; rewrite HDv; apply Z.mod_mul; discriminate).
    rewrite HF0. simpl (0 =? 0).
    rewrite HDv, Z.div_mul by discriminate. rewrite up_scales.
    split; [ring|]. unfold pow10. simpl. lia.
  Qed.
End Up.

(** ** for all scale pairs *)
Definition scales_ok (si so : Z) : Prop := 0 <= si <= 18 /\ 0 <= so <= 18.

Lemma lossless_range input ratio si so :
  0 <= input -> 0 < ratio -> scales_ok si so ->
  let '(b, m) := lossless_swap input ratio si so in 0 <= b <= input /\ 0 <= m.
Proof.
  intros Hin Hr [Hsi Hso].
  destruct (Z_le_gt_dec so si); [apply down_range|apply up_range]; lia.
Qed.

Lemma lossless_worth input ratio si so :
  0 <= input -> 0 < ratio -> scales_ok si so ->
  let '(b, m) := lossless_swap input ratio si so in mint_le_worth b m ratio si so.
Proof.
  intros Hin Hr [Hsi Hso].
  destruct (Z_le_gt_dec so si); [apply down_worth|apply up_worth]; lia.
Qed.

Lemma lossless_exact input si so :
  0 <= input -> scales_ok si so ->
  let '(b, m) := lossless_swap input P18 si so in
  b * pow10 so = m * pow10 si /\ input - b < pow10 (Z.max 0 (si - so)).
Proof.
  intros Hin [Hsi Hso].
  destruct (Z_le_gt_dec so si); [apply down_exact|apply up_exact]; try lia; reflexivity.
Qed.

(** ** the function of the pinned commit *)
Lemma lossless_v0_mints_more_than_worth :
  exists input ratio si so,
    0 <= input /\ 0 < ratio /\ scales_ok si so /\
    let '(b, m) := lossless_swap_v0 input ratio si so in ~ mint_le_worth b m ratio si so.
Proof.
  exists 2499999999999999999, 400000000000000000, 18, 0.
  repeat split; try (unfold scales_ok; lia); try lia.
  vm_compute. intros H. apply H. reflexivity.
Qed.

Lemma lossless_v0_negative_burn :
  exists input ratio si so,
    0 <= input /\ 0 < ratio /\ scales_ok si so /\ fst (lossless_swap_v0 input ratio si so) < 0.
Proof.
  exists 3, (3 * P18), 1, 0.
  repeat split; try (unfold scales_ok; lia); try lia; vm_compute; reflexivity.
Qed.
