(** * Token: conversions to / from ERC20 and fee-token swaps conserve value (C10) — lemmas over
    [exec]/[step]/[run] of Token/Model.v *)
From Irismod Require Import Token.Model Token.ProofsBank Token.ProofsLossLess Token.Proofs.

Local Open Scope Z_scope.

(** ** the ERC20 ledger: total supply of a contract *)
Definition ledger_total (m : amap (Z * acct) Z) (c : Z) : Z :=
  zsum (map (fun kv => if fst (fst kv) =? c then snd kv else 0) m).

Definition erc20_total (s : state) (c : Z) : Z := ledger_total (erc20 s) c.

Lemma ledger_total_set (m : amap (Z * acct) Z) (c : Z) (h : acct) (v c' : Z) : NoDup (keys m) ->
  ledger_total (set (c, h) v m) c' = ledger_total m c' + ind (c =? c') (v - getz (c, h) m).
Proof.
  induction m as [|[[c0 h0] v0] m IH]; intros Hnd.
  - unfold ledger_total, getz, ind. simpl. destruct (c =? c'); lia.
  - inversion Hnd as [|? ? Hnotin Hnd']; subst. simpl.
    destruct (eq_dec (c, h) (c0, h0)) as [Heq|Hne].
    + inversion Heq; subst c0 h0. unfold ledger_total, getz, ind. simpl.
      destruct (eq_dec (c, h) (c, h)); [|congruence]. destruct (c =? c'); lia.
    + unfold ledger_total in *. simpl. rewrite IH by assumption. unfold getz. simpl.
      destruct (eq_dec (c, h) (c0, h0)); [contradiction|]. lia.
Qed.

(** ** decomposition of the handlers *)
Lemma do_to_erc20_inv s sender receiver denom amt s' :
  do_to_erc20 s sender receiver denom amt = ROk s' ->
  exists t s1 s2, p_erc20 (pars s) = true /\ token_by_minunit s denom = Some t /\ t_contract t <> 0
    /\ bank_send s sender MODULE denom amt = ROk s1 /\ bank_burn s1 denom amt = ROk s2
    /\ s' = upd_erc20 s2 (set (t_contract t, receiver) (erc20_bal s2 (t_contract t) receiver + amt) (erc20 s2)).
Proof.
  unfold do_to_erc20. intros H. inv_if H. destruct (token_by_minunit s denom) as [t|] eqn:Et; [|discriminate].
  inv_if H. inv_bind H. inv_bind H. inv_if H. inversion H.
  apply Bool.negb_false_iff in E. apply Z.eqb_neq in E0.
  exists t, x, x0. repeat split; assumption.
Qed.

Lemma do_from_erc20_inv s sender receiver denom amt s' :
  do_from_erc20 s sender receiver denom amt = ROk s' ->
  exists t s2, p_erc20 (pars s) = true /\ token_by_minunit s denom = Some t /\ t_contract t <> 0
    /\ amt <= erc20_bal s (t_contract t) sender
    /\ bank_mint (upd_erc20 s (set (t_contract t, sender) (erc20_bal s (t_contract t) sender - amt) (erc20 s))) denom amt = ROk s2
    /\ bank_pay s2 receiver denom amt = ROk s'.
Proof.
  unfold do_from_erc20. intros H. inv_if H. destruct (token_by_minunit s denom) as [t|] eqn:Et; [|discriminate].
  inv_if H. inv_if H. inv_if H. cbv zeta in H. inv_bind H.
  apply Bool.negb_false_iff in E. apply Z.eqb_neq in E0. apply Z.ltb_ge in E1.
  exists t, x. repeat split; assumption.
Qed.

Lemma do_swapfee_inv s sender receiver denom amt s' :
  do_swapfee s sender receiver denom amt = ROk s' ->
  exists tb target ratio tm b m s1 s2 s3,
    let recipient := if receiver =? -2 then sender else receiver in
    token_by_minunit s denom = Some tb /\ get (t_minunit tb) (registry s) = Some (target, ratio)
    /\ token_by_minunit s target = Some tm
    /\ lossless_swap amt ratio (t_scale tb) (t_scale tm) = (b, m)
    /\ bank_send s sender MODULE (t_minunit tb) b = ROk s1 /\ bank_burn s1 (t_minunit tb) b = ROk s2
    /\ bank_mint s2 target m = ROk s3 /\ bank_pay s3 recipient target m = ROk s'.
Proof.
  unfold do_swapfee. intros H. inv_if H.
  destruct (token_by_minunit s denom) as [tb|] eqn:Etb; [|discriminate].
  destruct (get (t_minunit tb) (registry s)) as [[target ratio]|] eqn:Er; [|discriminate].
  destruct (token_by_minunit s target) as [tm|] eqn:Etm; [|discriminate].
  inv_if H.
  destruct (lossless_swap amt ratio (t_scale tb) (t_scale tm)) as [b mt] eqn:El.
  inv_if H. inv_bind H. inv_bind H. inv_bind H.
  exists tb, target, ratio, tm, b, mt, x, x0, x1. repeat split; assumption.
Qed.

(** ** one conversion *)
Lemma erc20_bal_bank_only s s' c h : bank_only s s' -> erc20_bal s' c h = erc20_bal s c h.
Proof. intros H. apply bank_only_fields in H. destruct H as (_ & _ & _ & _ & _ & He & _). unfold erc20_bal. rewrite He. reflexivity. Qed.

Lemma erc20_total_bank_only s s' c : bank_only s s' -> erc20_total s' c = erc20_total s c.
Proof. intros H. apply bank_only_fields in H. destruct H as (_ & _ & _ & _ & _ & He & _). unfold erc20_total. rewrite He. reflexivity. Qed.

Lemma to_erc20_effect s sender receiver denom amt s' :
  exec s (ToErc20 sender receiver denom amt) = ROk s' -> NoDup (keys (erc20 s)) ->
  exists t, token_by_minunit s denom = Some t /\ t_contract t <> 0 /\ 0 < amt /\
    let c := t_contract t in
    (forall d, supply_of s' d = supply_of s d - ind (eqb d denom) amt)
    /\ (forall a d, balance s' a d = balance s a d - ind (eqb (a, d) (sender, denom)) amt)
    /\ (forall c' h, erc20_bal s' c' h = erc20_bal s c' h + ind (eqb (c', h) (c, receiver)) amt)
    /\ (forall c', erc20_total s' c' = erc20_total s c' + ind (c =? c') amt).
Proof.
  intros E Hnd. apply exec_inv in E. destruct E as [V E]. simpl in E.
  apply do_to_erc20_inv in E. destruct E as (t & s1 & s2 & _ & Ht & Hc & Hs & Hb & ->).
  exists t. split; [assumption|]. split; [assumption|]. split.
  { simpl in V. apply Bool.andb_true_iff in V. destruct V as [_ V]. apply Z.ltb_lt. assumption. }
  cbv zeta.
  pose proof (bank_send_sup _ _ _ _ _ _ Hs) as Hsup1. pose proof (bank_burn_sup _ _ _ _ Hb) as Hsup2.
  pose proof (bank_send_bal _ _ _ _ _ _ Hs) as Hbal1. pose proof (bank_burn_bal _ _ _ _ Hb) as Hbal2.
  assert (Hbo : bank_only s s2) by (eapply bank_only_trans; [eapply bank_send_only|eapply bank_burn_only]; eassumption).
  repeat split.
  - intros d. unfold supply_of at 1. simpl. fold (supply_of s2 d). rewrite Hsup2, Hsup1. reflexivity.
  - intros a d. unfold balance at 1. simpl. fold (balance s2 a d). rewrite Hbal2, Hbal1. unfold ind.
    destruct (eqb (a, d) (sender, denom)) eqn:E1; destruct (eqb (a, d) (MODULE, denom)) eqn:E2; lia.
  - intros c' h. unfold erc20_bal at 1. simpl. rewrite getz_set. unfold ind.
    destruct (eqb (c', h) (t_contract t, receiver)) eqn:E1.
    + apply eqb_eq in E1. inversion E1; subst. rewrite (erc20_bal_bank_only _ _ _ _ Hbo). reflexivity.
    + fold (erc20_bal s2 c' h). rewrite (erc20_bal_bank_only _ _ _ _ Hbo). lia.
  - intros c'. unfold erc20_total at 1. simpl.
    assert (He : erc20 s2 = erc20 s) by (apply bank_only_fields in Hbo; apply Hbo).
    rewrite ledger_total_set by (rewrite He; assumption). fold (erc20_bal s2 (t_contract t) receiver).
    unfold erc20_total, erc20_bal. rewrite He. unfold ind. destruct (t_contract t =? c'); lia.
Qed.

Lemma from_erc20_effect s sender receiver denom amt s' :
  exec s (FromErc20 sender receiver denom amt) = ROk s' -> NoDup (keys (erc20 s)) ->
  exists t, token_by_minunit s denom = Some t /\ t_contract t <> 0 /\ 0 < amt /\
    let c := t_contract t in
    amt <= erc20_bal s c sender
    /\ (forall d, supply_of s' d = supply_of s d + ind (eqb d denom) amt)
    /\ (forall a d, balance s' a d = balance s a d + ind (eqb (a, d) (receiver, denom)) amt)
    /\ (forall c' h, erc20_bal s' c' h = erc20_bal s c' h - ind (eqb (c', h) (c, sender)) amt)
    /\ (forall c', erc20_total s' c' = erc20_total s c' - ind (c =? c') amt).
Proof.
  intros E Hnd. apply exec_inv in E. destruct E as [V E]. simpl in E.
  apply do_from_erc20_inv in E. destruct E as (t & s2 & _ & Ht & Hc & Hle & Hm & Hp).
  exists t. split; [assumption|]. split; [assumption|]. split.
  { simpl in V. apply Bool.andb_true_iff in V. destruct V as [_ V]. apply Z.ltb_lt. assumption. }
  cbv zeta. split; [assumption|].
  set (s1 := upd_erc20 s (set (t_contract t, sender) (erc20_bal s (t_contract t) sender - amt) (erc20 s))) in *.
  pose proof (bank_mint_sup _ _ _ _ Hm) as Hsup1. pose proof (bank_pay_sup _ _ _ _ _ Hp) as Hsup2.
  pose proof (bank_mint_bal _ _ _ _ Hm) as Hbal1. pose proof (bank_pay_bal _ _ _ _ _ Hp) as Hbal2.
  assert (Hbo : bank_only s1 s') by (eapply bank_only_trans; [eapply bank_mint_only|eapply bank_pay_only]; eassumption).
  repeat split.
  - intros d. rewrite Hsup2, Hsup1. reflexivity.
  - intros a d. rewrite Hbal2, Hbal1. unfold balance at 1. simpl. fold (balance s a d). unfold ind.
    destruct (eqb (a, d) (receiver, denom)) eqn:E1; destruct (eqb (a, d) (MODULE, denom)) eqn:E2; lia.
  - intros c' h. rewrite (erc20_bal_bank_only _ _ _ _ Hbo). unfold erc20_bal at 1. simpl. rewrite getz_set. unfold ind.
    destruct (eqb (c', h) (t_contract t, sender)) eqn:E1.
    + apply eqb_eq in E1. inversion E1; subst. reflexivity.
    + fold (erc20_bal s c' h). lia.
  - intros c'. rewrite (erc20_total_bank_only _ _ _ Hbo). unfold erc20_total at 1. simpl.
    rewrite ledger_total_set by assumption. fold (erc20_bal s (t_contract t) sender). fold (erc20_total s c').
    unfold ind. destruct (t_contract t =? c'); lia.
Qed.

(** the swap-to-native hook: the contract burned [amt] of [from]'s ERC20 balance, the hook mints
    exactly [amt] of the bound token's min unit to [to] *)
Lemma hook_to_native_effect s c from to amt s' :
  exec s (HookToNative c from to amt) = ROk s' -> NoDup (keys (erc20 s)) ->
  exists sym t, get c (contracts s) = Some sym /\ get sym (tokens s) = Some t /\ 0 < amt /\ amt <= erc20_bal s c from /\
    let denom := t_minunit t in
    (forall d, supply_of s' d = supply_of s d + ind (eqb d denom) amt)
    /\ (forall a d, balance s' a d = balance s a d + ind (eqb (a, d) (to, denom)) amt)
    /\ (forall c' h, erc20_bal s' c' h = erc20_bal s c' h - ind (eqb (c', h) (c, from)) amt)
    /\ (forall c', erc20_total s' c' = erc20_total s c' - ind (c =? c') amt).
Proof.
  intros E Hnd. apply exec_inv in E. destruct E as [V E]. simpl in E.
  apply do_hook_inv in E. destruct E as (sym & t & s2 & Hle & Hc & Ht & _ & _ & Hnz & Hm & Hp).
  exists sym, t. split; [assumption|]. split; [assumption|]. split.
  { simpl in V. apply Bool.andb_true_iff in V. destruct V as [_ V]. apply Z.leb_le in V. lia. }
  split; [assumption|]. cbv zeta.
  set (s1 := upd_erc20 s (set (c, from) (erc20_bal s c from - amt) (erc20 s))) in *.
  pose proof (bank_mint_sup _ _ _ _ Hm) as Hsup1. pose proof (bank_pay_sup _ _ _ _ _ Hp) as Hsup2.
  pose proof (bank_mint_bal _ _ _ _ Hm) as Hbal1. pose proof (bank_pay_bal _ _ _ _ _ Hp) as Hbal2.
  assert (Hbo : bank_only s1 s') by (eapply bank_only_trans; [eapply bank_mint_only|eapply bank_pay_only]; eassumption).
  repeat split.
  - intros d. rewrite Hsup2, Hsup1. reflexivity.
  - intros a d. rewrite Hbal2, Hbal1. unfold balance at 1. simpl. fold (balance s a d). unfold ind.
    destruct (eqb (a, d) (to, t_minunit t)) eqn:E1; destruct (eqb (a, d) (MODULE, t_minunit t)) eqn:E2; lia.
  - intros c' h. rewrite (erc20_bal_bank_only _ _ _ _ Hbo). unfold erc20_bal at 1. simpl. rewrite getz_set. unfold ind.
    destruct (eqb (c', h) (c, from)) eqn:E1.
    + apply eqb_eq in E1. inversion E1; subst. reflexivity.
    + fold (erc20_bal s c' h). lia.
  - intros c'. rewrite (erc20_total_bank_only _ _ _ Hbo). unfold erc20_total at 1. simpl.
    rewrite ledger_total_set by assumption. fold (erc20_bal s c from). fold (erc20_total s c').
    unfold ind. destruct (c =? c'); lia.
Qed.

(** ** the ERC20 ledger keeps distinct keys *)
Lemma handle_erc20_nodup s m s' : NoDup (keys (erc20 s)) -> handle s m = ROk s' -> NoDup (keys (erc20 s')).
Proof.
  intros Hnd H.
  assert (Hbo : forall s0, bank_only s s0 -> NoDup (keys (erc20 s0))).
  { intros s0 Hb. apply bank_only_fields in Hb. destruct Hb as (_ & _ & _ & _ & _ & He & _). rewrite He. assumption. }
  destruct m; simpl in H.
  - apply do_issue_inv in H. destruct H as (fd & famt & s1 & s3 & _ & _ & Hf & _ & _ & Hmint & Hpay).
    pose proof (fee_handler_effect _ _ _ _ _ Hf) as (Hb1 & _).
    apply bank_only_fields in Hb1. destruct Hb1 as (_ & _ & _ & _ & _ & He1 & _).
    apply bank_mint_only, bank_only_fields in Hmint. destruct Hmint as (_ & _ & _ & _ & _ & He3 & _).
    apply bank_pay_only, bank_only_fields in Hpay. destruct Hpay as (_ & _ & _ & _ & _ & He' & _).
    match type of He3 with context [upsert_token ?a ?b] => destruct (upsert_fields a b) as (_ & _ & _ & _ & _ & Hue & _) end.
    rewrite He', He3, Hue, He1. assumption.
  - apply do_edit_inv in H. destruct H as (t & _ & _ & _ & ->). assumption.
  - unfold do_mint in H. cbv zeta in H. inv_if H. destruct (get denom (minunits s)); [|discriminate].
    inv_bind H. destruct x as [fd famt]. inv_bind H. destruct (token_by_minunit x denom); [|discriminate].
    inv_if H. inv_if H. inv_if H. inv_bind H.
    pose proof (fee_handler_effect _ _ _ _ _ E1) as (Hb1 & _).
    apply Hbo. eapply bank_only_trans; [eassumption|].
    eapply bank_only_trans; [eapply bank_mint_only; eassumption|eapply bank_pay_only; eassumption].
  - apply do_burn_inv in H. destruct H as (t & s1 & _ & Hs & Hb).
    apply bank_send_only, bank_only_fields in Hs. destruct Hs as (_ & _ & _ & _ & _ & He1 & _).
    apply bank_burn_only, bank_only_fields in Hb. destruct Hb as (_ & _ & _ & _ & _ & He2 & _). simpl in He2.
    rewrite He2, He1. assumption.
  - apply do_transfer_inv in H. destruct H as (t & _ & _ & _ & ->). assumption.
  - apply Hbo. eapply do_swapfee_only; eassumption.
  - unfold do_deploy in H. inv_if H. cbv zeta in H.
    destruct (has minu (minunits s)).
    + destruct (token_by_minunit s minu) as [t|]; cbn [bind] in H; [|discriminate].
      inv_if H. inv_if H. inv_if H. inv_if H. inversion H. simpl.
      match goal with |- context [upsert_token ?a ?b] => destruct (upsert_fields a b) as (_ & _ & _ & _ & _ & Hue & _) end.
      rewrite Hue. assumption.
    + destruct (has sym (tokens s)); cbn [bind] in H; [discriminate|].
      inv_if H. inv_if H. inv_if H. inv_if H. inversion H. simpl.
      match goal with |- context [upsert_token ?a ?b] => destruct (upsert_fields a b) as (_ & _ & _ & _ & _ & Hue & _) end.
      rewrite Hue. assumption.
  - apply do_to_erc20_inv in H. destruct H as (t & s1 & s2 & _ & _ & _ & Hs & Hb & ->). simpl.
    apply keys_set_NoDup. apply Hbo.
    eapply bank_only_trans; [eapply bank_send_only; eassumption|eapply bank_burn_only; eassumption].
  - apply do_from_erc20_inv in H. destruct H as (t & s2 & _ & _ & _ & _ & Hm & Hp).
    apply bank_mint_only, bank_only_fields in Hm. destruct Hm as (_ & _ & _ & _ & _ & He1 & _).
    apply bank_pay_only, bank_only_fields in Hp. destruct Hp as (_ & _ & _ & _ & _ & He2 & _).
    rewrite He2, He1. simpl. apply keys_set_NoDup. assumption.
  - unfold do_set_params in H. inv_if H. inv_if H. inversion H. assumption.
  - inversion H. assumption.
  - apply do_hook_inv in H. destruct H as (sym0 & t & s2 & _ & _ & _ & _ & _ & _ & Hm & Hp).
    apply bank_mint_only, bank_only_fields in Hm. destruct Hm as (_ & _ & _ & _ & _ & He1 & _).
    apply bank_pay_only, bank_only_fields in Hp. destruct Hp as (_ & _ & _ & _ & _ & He2 & _).
    rewrite He2, He1. simpl. apply keys_set_NoDup. assumption.
  - apply do_upgrade_inv in H. subst s'. assumption.
  - revert s Hnd H Hbo. induction evs as [|[[[c from] to] amt] r IH]; simpl; intros s Hnd H Hbo.
    + inversion H. subst. assumption.
    + inv_bind H. apply (IH x); [|assumption|].
      * apply do_hook_inv in E. destruct E as (sym0 & t & s2 & _ & _ & _ & _ & _ & _ & Hm & Hp).
        apply bank_mint_only, bank_only_fields in Hm. destruct Hm as (_ & _ & _ & _ & _ & He1 & _).
        apply bank_pay_only, bank_only_fields in Hp. destruct Hp as (_ & _ & _ & _ & _ & He2 & _).
        rewrite He2, He1. simpl. apply keys_set_NoDup. assumption.
      * intros s0 Hb. apply bank_only_fields in Hb. destruct Hb as (_ & _ & _ & _ & _ & He & _). rewrite He.
        apply do_hook_inv in E. destruct E as (sym0 & t & s2 & _ & _ & _ & _ & _ & _ & Hm & Hp).
        apply bank_mint_only, bank_only_fields in Hm. destruct Hm as (_ & _ & _ & _ & _ & He1 & _).
        apply bank_pay_only, bank_only_fields in Hp. destruct Hp as (_ & _ & _ & _ & _ & He2 & _).
        rewrite He2, He1. simpl. apply keys_set_NoDup. assumption.
Qed.

Lemma step_erc20_nodup s m : NoDup (keys (erc20 s)) -> NoDup (keys (erc20 (step s m))).
Proof.
  intros Hnd. destruct (step_cases s m) as [(s' & E & ->)|[_ ->]]; [|assumption].
  apply exec_inv in E. destruct E as [_ E]. eapply handle_erc20_nodup; eassumption.
Qed.

(** ** a failed message changes neither side (transactional semantics: [step] discards the
    partial effects of a failing handler, as the cached multistore and the journalled EVM do) *)
Lemma failed_step_changes_nothing s m : step_code s m <> 0 -> step s m = s.
Proof. unfold step_code, step. destruct (exec s m); [intros H; exfalso; apply H; reflexivity|reflexivity|reflexivity]. Qed.

(** ** the fee-token swap message *)
Lemma swapfee_effect s sender receiver denom amt s' : IdInv s ->
  exec s (SwapFee sender receiver denom amt) = ROk s' ->
  exists tb target ratio tm b m,
    let recipient := if receiver =? -2 then sender else receiver in
    token_by_minunit s denom = Some tb /\ get denom (registry s) = Some (target, ratio) /\ token_by_minunit s target = Some tm
    /\ lossless_swap amt ratio (t_scale tb) (t_scale tm) = (b, m) /\ 0 <= b /\ 0 <= m /\ 0 < amt
    /\ (forall d, supply_of s' d = supply_of s d - ind (eqb d denom) b + ind (eqb d target) m)
    /\ (forall a d, balance s' a d = balance s a d - ind (eqb (a, d) (sender, denom)) b + ind (eqb (a, d) (recipient, target)) m).
Proof.
  intros I E. apply exec_inv in E. destruct E as [V E]. simpl in E.
  apply do_swapfee_inv in E. destruct E as (tb & target & ratio & tm & b & m & s1 & s2 & s3 & Htb & Hreg & Htm & Hl & Hs & Hb & Hm & Hp).
  cbv zeta in Hp.
  destruct (token_by_minunit_spec s denom tb I Htb) as (sy & _ & _ & _ & Hmu). rewrite Hmu in *.
  exists tb, target, ratio, tm, b, m. cbv zeta.
  pose proof (bank_send_inv _ _ _ _ _ _ Hs) as [Hb0 _]. pose proof (bank_mint_inv _ _ _ _ Hm) as [Hm0 _].
  pose proof (bank_send_sup _ _ _ _ _ _ Hs) as Hsup1. pose proof (bank_burn_sup _ _ _ _ Hb) as Hsup2.
  pose proof (bank_mint_sup _ _ _ _ Hm) as Hsup3. pose proof (bank_pay_sup _ _ _ _ _ Hp) as Hsup4.
  pose proof (bank_send_bal _ _ _ _ _ _ Hs) as Hbal1. pose proof (bank_burn_bal _ _ _ _ Hb) as Hbal2.
  pose proof (bank_mint_bal _ _ _ _ Hm) as Hbal3. pose proof (bank_pay_bal _ _ _ _ _ Hp) as Hbal4.
  repeat split; try assumption; try lia.
  - simpl in V. repeat (apply Bool.andb_true_iff in V; destruct V as [V ?]).
    match goal with Hpos : (0 <? amt) = true |- _ => apply Z.ltb_lt in Hpos; exact Hpos end.
  - intros d. rewrite Hsup4, Hsup3, Hsup2, Hsup1. reflexivity.
  - intros a d. rewrite Hbal4, Hbal3, Hbal2, Hbal1. unfold ind.
    destruct (eqb (a, d) (sender, denom)); destruct (eqb (a, d) (MODULE, denom)); destruct (eqb (a, d) (MODULE, target));
      destruct (eqb (a, d) (_, target)); lia.
Qed.

(** the amounts of a successful swap obey the kernel's guarantees whenever the registry entry is
    well-formed (positive ratio) and the two tokens have scales 0..18 *)
Lemma swapfee_value s sender receiver denom amt s' : IdInv s ->
  exec s (SwapFee sender receiver denom amt) = ROk s' ->
  (forall sym t, get sym (tokens s) = Some t -> 0 <= t_scale t <= 18) ->
  (forall d tr, get d (registry s) = Some tr -> 0 < snd tr) ->
  exists target ratio tb tm b m,
    let si := t_scale tb in let so := t_scale tm in
    get denom (registry s) = Some (target, ratio)
    /\ token_by_minunit s denom = Some tb /\ token_by_minunit s target = Some tm
    /\ t_minunit tb = denom /\ t_minunit tm = target
    /\ supply_of s' denom = supply_of s denom - b + ind (eqb denom target) m
    /\ supply_of s' target = supply_of s target - ind (eqb target denom) b + m
    /\ 0 <= b <= amt /\ 0 <= m /\ mint_le_worth b m ratio si so
    /\ (ratio = P18 -> b * pow10 so = m * pow10 si /\ amt - b < pow10 (Z.max 0 (si - so))).
Proof.
  intros I E Hsc Hreg.
  destruct (swapfee_effect _ _ _ _ _ _ I E) as (tb & target & ratio & tm & b & m & Htb & Hr & Htm & Hl & Hb0 & Hm0 & Hamt & Hsup & _).
  exists target, ratio, tb, tm, b, m. cbv zeta.
  destruct (token_by_minunit_spec s denom tb I Htb) as (syb & _ & Hgb & _ & Hmub).
  destruct (token_by_minunit_spec s target tm I Htm) as (sym & _ & Hgm & _ & Hmum).
  assert (Hsb : 0 <= t_scale tb <= 18) by (eapply Hsc; eassumption).
  assert (Hsm : 0 <= t_scale tm <= 18) by (eapply Hsc; eassumption).
  assert (Hrp : 0 < ratio) by (apply (Hreg _ _ Hr)).
  assert (Hok : scales_ok (t_scale tb) (t_scale tm)) by (split; assumption).
  pose proof (lossless_range amt ratio _ _ ltac:(lia) Hrp Hok) as H1.
  pose proof (lossless_worth amt ratio _ _ ltac:(lia) Hrp Hok) as H2.
  rewrite Hl in H1, H2.
  split; [assumption|]. split; [assumption|]. split; [assumption|]. split; [assumption|]. split; [assumption|].
  split; [rewrite Hsup, eqb_refl; unfold ind at 1; reflexivity|].
  split; [rewrite Hsup, eqb_refl; unfold ind at 2; reflexivity|].
  split; [apply H1|]. split; [apply H1|]. split; [assumption|].
  intros ->. pose proof (lossless_exact amt _ _ ltac:(lia) Hok) as H3. rewrite Hl in H3. exact H3.
Qed.

(** ** the invariant that makes [ContractInj] available in every reachable state *)
Record RegInv (s : state) : Prop := { reg_id : IdInv s; reg_ctr : CtrInv s; reg_nodup : NoDup (keys (erc20 s)) }.

Lemma step_RegInv s m : RegInv s -> RegInv (step s m).
Proof.
  intros [I C N]. constructor; [apply step_IdInv|apply step_CtrInv|apply step_erc20_nodup]; assumption.
Qed.

Lemma run_RegInv ms : forall s, RegInv s -> RegInv (run s ms).
Proof. induction ms as [|m ms IH]; intros s R; simpl; [assumption|]. apply IH, step_RegInv. assumption. Qed.

Lemma genesis_RegInv p balances stake_supply reg : RegInv (genesis p balances stake_supply reg).
Proof.
  constructor.
  - constructor.
    + intros sym t. unfold genesis. simpl. destruct (eq_dec sym STAKE) as [->|]; [|discriminate].
      intros H. inversion H. split; reflexivity.
    + intros mu sym. unfold genesis. simpl. destruct (eq_dec mu STAKE) as [->|]; [|discriminate].
      intros H. inversion H. exists native_token. split; reflexivity.
  - constructor.
    + simpl. lia.
    + intros sym t. unfold genesis. simpl. destruct (eq_dec sym STAKE) as [->|]; [|discriminate].
      intros H. inversion H. simpl. lia.
    + intros sym1 sym2 t1 t2. unfold genesis. simpl.
      destruct (eq_dec sym1 STAKE) as [->|]; [|discriminate]. destruct (eq_dec sym2 STAKE) as [->|]; [|discriminate]. reflexivity.
    + intros c sym. unfold genesis. simpl. discriminate.
  - simpl. constructor.
Qed.

(** ** sequences of conversions: native supply + ERC20 supply of a bound token is constant *)
Definition conversion0 (m : msg) : bool :=
  match m with
  | ToErc20 _ _ _ _ | FromErc20 _ _ _ _ | HookToNative _ _ _ _ | EvmMode _
  | Deploy _ _ _ _ _ | UpgradeErc20 _ _ => true
  | _ => false
  end.

(** no two tokens share an ERC20 contract *)
Lemma RegInv_contract_inj s d1 d2 t1 t2 : RegInv s ->
  token_by_minunit s d1 = Some t1 -> token_by_minunit s d2 = Some t2 ->
  t_contract t1 = t_contract t2 -> t_contract t1 <> 0 -> d1 = d2.
Proof.
  intros [I C _] H1 H2 Heq Hnz.
  destruct (token_by_minunit_spec s d1 t1 I H1) as (sy1 & _ & G1 & _ & M1).
  destruct (token_by_minunit_spec s d2 t2 I H2) as (sy2 & _ & G2 & _ & M2).
  assert (sy1 = sy2) by (eapply (ctr_inj s C); eassumption). subst sy2.
  rewrite G1 in G2. inversion G2; subst t2. congruence.
Qed.

Lemma token_by_minunit_same s s' d : tokens s' = tokens s -> minunits s' = minunits s ->
  token_by_minunit s' d = token_by_minunit s d.
Proof. intros Ht Hm. unfold token_by_minunit, token_by_symbol. rewrite Ht, Hm. reflexivity. Qed.

Lemma token_eq t t' : same_identity t t' -> same_gov t t' -> t_contract t' = t_contract t -> t' = t.
Proof.
  destruct t, t'. unfold same_identity, same_gov. simpl. intros (A & B & C & D) (E & F & G & H) I. subst. reflexivity.
Qed.

(** a token bound to a contract is left exactly as it is by every message that is not an edit /
    transfer signed by its owner *)
Lemma tracked_token_kept m s s' d t : IdInv s -> tok_step m s s' -> ~ authorised m t -> t_contract t <> 0 ->
  token_by_minunit s d = Some t -> token_by_minunit s' d = Some t.
Proof.
  intros I TS Hna Hc0 Ht.
  destruct (token_by_minunit_spec s d t I Ht) as (sy & Hm & Hg & Hsy & Hmu).
  destruct TS as [Htk Hmn _ | sym0 t0 t0' Hg0 Htk Hmn Hid Hgov Hcs | t0 Hs0 Hm0 Htk Hmn _ _].
  - rewrite (token_by_minunit_same _ _ _ Htk Hmn). assumption.
  - unfold token_by_minunit, token_by_symbol. rewrite Hmn, Hm, Htk, get_set.
    destruct (eqb sy sym0) eqn:E; [|assumption].
    apply eqb_eq in E. subst sym0. rewrite Hg in Hg0. inversion Hg0; subst t0.
    f_equal. apply token_eq; [assumption| |].
    + destruct Hgov as [G|A]; [assumption|contradiction].
    + destruct Hcs as [[Hc _]|(Hz & _)]; [assumption|contradiction].
  - unfold token_by_minunit, token_by_symbol. rewrite Hmn, get_set.
    destruct (eqb d (t_minunit t0)) eqn:E; [apply eqb_eq in E; subst d; congruence|].
    rewrite Hm, Htk, get_set. destruct (eqb sy (t_symbol t0)) eqn:E2; [apply eqb_eq in E2; subst sy; congruence|assumption].
Qed.

Lemma do_deploy_frame s auth nm sym minu scale s' :
  do_deploy s auth nm sym minu scale = ROk s' -> supply s' = supply s /\ erc20 s' = erc20 s /\ bank s' = bank s.
Proof.
  unfold do_deploy. intros H. inv_if H. cbv zeta in H.
  destruct (has minu (minunits s)).
  - destruct (token_by_minunit s minu) as [t|]; cbn [bind] in H; [|discriminate].
    inv_if H. inv_if H. inv_if H. inv_if H. inversion H. simpl.
    match goal with |- context [upsert_token ?a ?b] => destruct (upsert_fields a b) as (_ & _ & Hb & Hs & _ & He & _) end.
    repeat split; assumption.
  - destruct (has sym (tokens s)); cbn [bind] in H; [discriminate|].
    inv_if H. inv_if H. inv_if H. inv_if H. inversion H. simpl.
    match goal with |- context [upsert_token ?a ?b] => destruct (upsert_fields a b) as (_ & _ & Hb & Hs & _ & He & _) end.
    repeat split; assumption.
Qed.

Lemma conversion_step0 s m d t :
  RegInv s -> conversion0 m = true -> token_by_minunit s d = Some t -> t_contract t <> 0 ->
  token_by_minunit (step s m) d = Some t
  /\ supply_of (step s m) d + erc20_total (step s m) (t_contract t) = supply_of s d + erc20_total s (t_contract t).
Proof.
  intros R Hc Ht Hc0. pose proof (reg_nodup s R) as Hnd. pose proof (reg_id s R) as I. pose proof (reg_ctr s R) as C.
  destruct (step_cases s m) as [(s' & E & ->)|[_ ->]]; [|split; [assumption|reflexivity]].
  split.
  { pose proof E as E'. apply exec_inv in E'. destruct E' as [_ E'].
    apply (tracked_token_kept m s s' d t I (handle_tok_step s m s' I E')); try assumption.
    destruct m; try discriminate Hc; simpl; tauto. }
  destruct m; try discriminate Hc; simpl in Hc.
  - (* Deploy *)
    apply exec_inv in E. destruct E as [_ E]. simpl in E. apply do_deploy_frame in E. destruct E as (Hs & He & _).
    unfold supply_of, erc20_total. rewrite Hs, He. reflexivity.
  - (* ToErc20 *)
    destruct (to_erc20_effect _ _ _ _ _ _ E Hnd) as (t0 & Ht0 & Hc00 & _ & Hsup & _ & _ & Htot).
    rewrite Hsup, Htot. unfold ind.
    destruct (eqb d denom) eqn:E1.
    + apply eqb_eq in E1. subst denom. rewrite Ht in Ht0. inversion Ht0; subst t0. rewrite Z.eqb_refl. lia.
    + destruct (t_contract t0 =? t_contract t) eqn:E2; [|lia].
      apply Z.eqb_eq in E2. exfalso. apply eqb_neq in E1. apply E1. symmetry.
      apply (RegInv_contract_inj s denom d t0 t R Ht0 Ht E2 Hc00).
  - (* FromErc20 *)
    destruct (from_erc20_effect _ _ _ _ _ _ E Hnd) as (t0 & Ht0 & Hc00 & _ & _ & Hsup & _ & _ & Htot).
    rewrite Hsup, Htot. unfold ind.
    destruct (eqb d denom) eqn:E1.
    + apply eqb_eq in E1. subst denom. rewrite Ht in Ht0. inversion Ht0; subst t0. rewrite Z.eqb_refl. lia.
    + destruct (t_contract t0 =? t_contract t) eqn:E2; [|lia].
      apply Z.eqb_eq in E2. exfalso. apply eqb_neq in E1. apply E1. symmetry.
      apply (RegInv_contract_inj s denom d t0 t R Ht0 Ht E2 Hc00).
  - (* EvmMode *)
    apply exec_inv in E. destruct E as [_ E]. simpl in E. inversion E. reflexivity.
  - (* HookToNative *)
    destruct (hook_to_native_effect _ _ _ _ _ _ E Hnd) as (sym & t0 & Hci & Hg0 & _ & _ & Hsup & _ & _ & Htot).
    cbv zeta in Hsup. rewrite Hsup, Htot. unfold ind.
    destruct (token_by_minunit_spec s d t I Ht) as (sy & _ & G & _ & M).
    destruct (ctr_idx s C c sym Hci) as (Hcnz & t1 & Hg1 & Hc1). rewrite Hg0 in Hg1. inversion Hg1; subst t1.
    destruct (eqb d (t_minunit t0)) eqn:E1.
    + apply eqb_eq in E1.
      assert (sym = sy) by (eapply minunit_injective; [exact I|exact Hg0|exact G|congruence]). subst sy.
      assert (Hct : t_contract t = c) by congruence. rewrite Hct, Z.eqb_refl. lia.
    + destruct (c =? t_contract t) eqn:E2; [|lia].
      apply Z.eqb_eq in E2. exfalso. apply eqb_neq in E1. apply E1.
      assert (sym = sy).
      { apply (ctr_inj s C sym sy t0 t Hg0 G); congruence. }
      subst sy. rewrite Hg0 in G. inversion G; subst t0. symmetry. exact M.
  - (* UpgradeErc20 *)
    apply exec_inv in E. destruct E as [_ E]. simpl in E. apply do_upgrade_inv in E. subst s'. reflexivity.
Qed.

Lemma conversions_conserve0 ms : forall s d t,
  RegInv s -> forallb conversion0 ms = true -> token_by_minunit s d = Some t -> t_contract t <> 0 ->
  token_by_minunit (run s ms) d = Some t
  /\ supply_of (run s ms) d + erc20_total (run s ms) (t_contract t) = supply_of s d + erc20_total s (t_contract t).
Proof.
  induction ms as [|m ms IH]; intros s d t R Hc Ht Hc0; simpl; [split; [assumption|reflexivity]|].
  simpl in Hc. apply Bool.andb_true_iff in Hc. destruct Hc as [Hm Hms].
  destruct (conversion_step0 s m d t R Hm Ht Hc0) as (Ht' & Heq).
  destruct (IH (step s m) d t (step_RegInv s m R) Hms Ht' Hc0) as [H1 H2].
  split; [assumption|]. rewrite H2. assumption.
Qed.

(** ** symbols and min units are separate name spaces: after a history in which a token is issued
    whose SYMBOL is another token's MIN UNIT, the symbol-first lookup [get_token] (keeper GetToken)
    of that coin denom answers a different token, with a different scale, than the min-unit lookup.
    The fee-token swap resolved its target with [get_token] before the [fix:]. *)
Lemma symbol_first_lookup_differs :
  exists p ms d ta tb,
    let s := run (genesis p [((0, STAKE), 1000000); ((1, STAKE), 1000000)] 2000000 []) ms in
    RegInv s /\ get_token s d = Some ta /\ token_by_minunit s d = Some tb
    /\ t_scale ta <> t_scale tb /\ t_contract ta <> 0 /\ t_contract tb <> 0 /\ t_contract ta <> t_contract tb.
Proof.
  exists (mkParams 0 0 1 STAKE true true).
  exists [Issue 0 (0, 3) (7, 4) 1 6 100 0 true; Issue 1 (7, 4) (8, 4) 1 18 100 0 true;
          Deploy GOV 1 (0, 3) (7, 4) 6; Deploy GOV 1 (7, 4) (8, 4) 18].
  exists (7, 4).
  eexists. eexists. cbv zeta.
  split; [apply run_RegInv, genesis_RegInv|].
  split; [vm_compute; reflexivity|]. split; [vm_compute; reflexivity|].
  simpl. repeat split; discriminate.
Qed.

(** ** one EVM transaction with several SwapToNative events = the run of its events, when it succeeds *)
Definition ev_msg (e : hook_ev) : msg := let '(c, from, to, amt) := e in HookToNative c from to amt.

Lemma hook_multi_run evs : forall s s',
  validate_basic (HookMulti evs) = true -> do_hook_multi s evs = ROk s' -> run s (map ev_msg evs) = s'.
Proof.
  induction evs as [|[[[c from] to] amt] r IH]; simpl; intros s s' V H.
  - inversion H. reflexivity.
  - apply Bool.andb_true_iff in V. destruct V as [V1 V2]. inv_bind H.
    assert (Hst : step s (HookToNative c from to amt) = x).
    { unfold step, exec. simpl validate_basic. rewrite V1. simpl. rewrite E. reflexivity. }
    rewrite Hst. apply IH; assumption.
Qed.

Lemma ev_msgs_conversion0 evs : forallb conversion0 (map ev_msg evs) = true.
Proof. induction evs as [|[[[c from] to] amt] r IH]; simpl; [reflexivity|assumption]. Qed.

Definition conversion (m : msg) : bool := match m with HookMulti _ => true | _ => conversion0 m end.

Lemma conversion_step s m d t :
  RegInv s -> conversion m = true -> token_by_minunit s d = Some t -> t_contract t <> 0 ->
  token_by_minunit (step s m) d = Some t
  /\ supply_of (step s m) d + erc20_total (step s m) (t_contract t) = supply_of s d + erc20_total s (t_contract t).
Proof.
  intros R Hc Ht Hc0.
  destruct m; try (apply conversion_step0; assumption).
  destruct (step_cases s (HookMulti evs)) as [(s' & E & ->)|[_ ->]]; [|split; [assumption|reflexivity]].
  apply exec_inv in E. destruct E as [V E]. simpl in E.
  rewrite <- (hook_multi_run evs s s' V E).
  apply conversions_conserve0; try assumption. apply ev_msgs_conversion0.
Qed.

Lemma conversions_conserve_reachable ms : forall s d t,
  RegInv s -> forallb conversion ms = true -> token_by_minunit s d = Some t -> t_contract t <> 0 ->
  token_by_minunit (run s ms) d = Some t
  /\ supply_of (run s ms) d + erc20_total (run s ms) (t_contract t) = supply_of s d + erc20_total s (t_contract t).
Proof.
  induction ms as [|m ms IH]; intros s d t R Hc Ht Hc0; simpl; [split; [assumption|reflexivity]|].
  simpl in Hc. apply Bool.andb_true_iff in Hc. destruct Hc as [Hm Hms].
  destruct (conversion_step s m d t R Hm Ht Hc0) as (Ht' & Heq).
  destruct (IH (step s m) d t (step_RegInv s m R) Hms Ht' Hc0) as [H1 H2].
  split; [assumption|]. rewrite H2. assumption.
Qed.

Lemma hook_multi_exec_run s evs s' : exec s (HookMulti evs) = ROk s' -> run s (map ev_msg evs) = s'.
Proof. intros E. apply exec_inv in E. destruct E as [V E]. apply hook_multi_run; assumption. Qed.

Lemma hook_multi_conserve s evs s' d t :
  RegInv s -> exec s (HookMulti evs) = ROk s' -> token_by_minunit s d = Some t -> t_contract t <> 0 ->
  token_by_minunit s' d = Some t
  /\ supply_of s' d + erc20_total s' (t_contract t) = supply_of s d + erc20_total s (t_contract t).
Proof.
  intros R E Ht Hc. pose proof (conversion_step s (HookMulti evs) d t R eq_refl Ht Hc) as H.
  unfold step in H. rewrite E in H. exact H.
Qed.
