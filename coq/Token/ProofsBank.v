(** * Token: lemmas about the modelled bank primitives and the fee handler (Token/Model.v) *)
From Irismod Require Import Token.Model.

Local Open Scope Z_scope.

Lemma eqb_eq {A} `{EqDec A} (x y : A) : eqb x y = true -> x = y.
Proof. apply eqb_true_iff. Qed.
Lemma eqb_neq {A} `{EqDec A} (x y : A) : eqb x y = false -> x <> y.
Proof. apply eqb_false_iff. Qed.

(** ** association lists *)
Section Maps.
  Context {K : Type} `{EqDec K}.

  Lemma getz_set_same (k : K) v (m : amap K Z) : getz k (set k v m) = v.
  Proof. unfold getz. rewrite get_set_same. reflexivity. Qed.

  Lemma getz_set_other (k k' : K) v (m : amap K Z) : k' <> k -> getz k' (set k v m) = getz k' m.
  Proof. intros. unfold getz. rewrite get_set_other by assumption. reflexivity. Qed.

  Lemma getz_set (k k' : K) v (m : amap K Z) : getz k' (set k v m) = if eqb k' k then v else getz k' m.
  Proof.
    unfold eqb. destruct (eq_dec k' k) as [->|Hne]; [apply getz_set_same|apply getz_set_other; assumption].
  Qed.

  Lemma get_set {V} (k k' : K) (v : V) m : get k' (set k v m) = if eqb k' k then Some v else get k' m.
  Proof.
    unfold eqb. destruct (eq_dec k' k) as [->|Hne]; [apply get_set_same|apply get_set_other; assumption].
  Qed.

  Lemma set_same_id {V} (k : K) (v : V) m : get k m = Some v -> set k v m = m.
  Proof.
    induction m as [|[k0 v0] m IH]; simpl; [discriminate|].
    destruct (eq_dec k k0) as [->|Hne]; intros Hg; [congruence|]. rewrite IH by assumption. reflexivity.
  Qed.

  Lemma has_true {V} (k : K) (m : amap K V) : has k m = true <-> exists v, get k m = Some v.
  Proof. unfold has. destruct (get k m); split; intros; eauto; try discriminate. destruct H0; discriminate. Qed.

  Lemma has_false {V} (k : K) (m : amap K V) : has k m = false <-> get k m = None.
  Proof. unfold has. destruct (get k m); split; intros; congruence. Qed.

  Lemma has_set {V} (k k' : K) (v : V) m : has k' (set k v m) = eqb k' k || has k' m.
  Proof. unfold has. rewrite get_set. destruct (eqb k' k); reflexivity. Qed.
End Maps.

(** ** inversion of [bind] chains *)
Ltac inv_bind H :=
  match type of H with
  | bind ?r _ = ROk _ =>
      let E := fresh "E" in let x := fresh "x" in
      destruct r as [x| |] eqn:E; cbn [bind] in H; [|discriminate H|discriminate H]
  end.

Ltac inv_if H :=
  match type of H with
  | (if ?c then _ else _) = ROk _ => let E := fresh "E" in destruct c eqn:E; [try discriminate H|try discriminate H]
  end.

(** ** bank primitives: every one returns the state with only ledger and supply replaced *)
Definition bank_only (s s' : state) : Prop :=
  exists B S, s' = upd_bank s B S
    /\ (NoDup (keys (bank s)) -> NoDup (keys B)) /\ (NoDup (keys (supply s)) -> NoDup (keys S)).

Lemma bank_only_refl s : bank_only s s.
Proof. exists (bank s), (supply s). split; [destruct s; reflexivity|auto]. Qed.

Lemma bank_only_trans s1 s2 s3 : bank_only s1 s2 -> bank_only s2 s3 -> bank_only s1 s3.
Proof.
  intros (B & S & -> & HB & HS) (B' & S' & -> & HB' & HS'). exists B', S'.
  split; [reflexivity|]. simpl in HB', HS'. auto.
Qed.

Lemma bank_mint_inv s d x s' : bank_mint s d x = ROk s' ->
  0 <= x /\ s' = upd_bank s (set (MODULE, d) (balance s MODULE d + x) (bank s)) (set d (supply_of s d + x) (supply s)).
Proof.
  unfold bank_mint, coin_ok. destruct (0 <=? x) eqn:E; simpl; [|discriminate].
  intros H. inversion H. split; [apply Z.leb_le; assumption|reflexivity].
Qed.

Lemma bank_burn_inv s d x s' : bank_burn s d x = ROk s' ->
  0 <= x <= balance s MODULE d /\
  s' = upd_bank s (set (MODULE, d) (balance s MODULE d - x) (bank s)) (set d (supply_of s d - x) (supply s)).
Proof.
  unfold bank_burn, coin_ok. destruct (0 <=? x) eqn:E; simpl; [|discriminate].
  destruct (balance s MODULE d <? x) eqn:E2; [discriminate|].
  intros H. inversion H. apply Z.leb_le in E. apply Z.ltb_ge in E2. split; [lia|reflexivity].
Qed.

Lemma bank_send_inv s from to d x s' : bank_send s from to d x = ROk s' ->
  0 <= x <= balance s from d /\
  s' = upd_bank s (let b1 := set (from, d) (balance s from d - x) (bank s) in set (to, d) (getz (to, d) b1 + x) b1) (supply s).
Proof.
  unfold bank_send, coin_ok. destruct (0 <=? x) eqn:E; simpl; [|discriminate].
  destruct (balance s from d <? x) eqn:E2; [discriminate|].
  intros H. inversion H. apply Z.leb_le in E. apply Z.ltb_ge in E2. split; [lia|reflexivity].
Qed.

Lemma bank_pay_inv s to d x s' : bank_pay s to d x = ROk s' -> blocked to = false /\ bank_send s MODULE to d x = ROk s'.
Proof. unfold bank_pay. destruct (blocked to); [discriminate|]. auto. Qed.

Lemma bank_mint_only s d x s' : bank_mint s d x = ROk s' -> bank_only s s'.
Proof.
  intros H. apply bank_mint_inv in H. destruct H as [_ ->]. eexists _, _.
  split; [reflexivity|]. split; intros; apply keys_set_NoDup; assumption.
Qed.
Lemma bank_burn_only s d x s' : bank_burn s d x = ROk s' -> bank_only s s'.
Proof.
  intros H. apply bank_burn_inv in H. destruct H as [_ ->]. eexists _, _.
  split; [reflexivity|]. split; intros; apply keys_set_NoDup; assumption.
Qed.
Lemma bank_send_only s f t d x s' : bank_send s f t d x = ROk s' -> bank_only s s'.
Proof.
  intros H. apply bank_send_inv in H. destruct H as [_ ->]. eexists _, _.
  split; [reflexivity|]. split; [|auto]. intros. cbv zeta. apply keys_set_NoDup, keys_set_NoDup. assumption.
Qed.
Lemma bank_pay_only s t d x s' : bank_pay s t d x = ROk s' -> bank_only s s'.
Proof. intros H. apply bank_pay_inv in H. destruct H as [_ H]. eapply bank_send_only; eassumption. Qed.

(** *** effects on supplies *)
Definition ind (b : bool) (x : Z) : Z := if b then x else 0.

Lemma bank_mint_sup s d x s' : bank_mint s d x = ROk s' ->
  forall d', supply_of s' d' = supply_of s d' + ind (eqb d' d) x.
Proof.
  intros H d'. apply bank_mint_inv in H. destruct H as [_ ->]. unfold supply_of at 1. simpl.
  rewrite getz_set. unfold ind. destruct (eqb d' d) eqn:E; [apply eqb_eq in E; subst|]; unfold supply_of; lia.
Qed.

Lemma bank_burn_sup s d x s' : bank_burn s d x = ROk s' ->
  forall d', supply_of s' d' = supply_of s d' - ind (eqb d' d) x.
Proof.
  intros H d'. apply bank_burn_inv in H. destruct H as [_ ->]. unfold supply_of at 1. simpl.
  rewrite getz_set. unfold ind. destruct (eqb d' d) eqn:E; [apply eqb_eq in E; subst|]; unfold supply_of; lia.
Qed.

Lemma bank_send_sup s f t d x s' : bank_send s f t d x = ROk s' -> forall d', supply_of s' d' = supply_of s d'.
Proof. intros H d'. apply bank_send_inv in H. destruct H as [_ ->]. reflexivity. Qed.

Lemma bank_pay_sup s t d x s' : bank_pay s t d x = ROk s' -> forall d', supply_of s' d' = supply_of s d'.
Proof. intros H. apply bank_pay_inv in H. destruct H as [_ H]. eapply bank_send_sup; eassumption. Qed.

(** *** effects on balances *)
Lemma bank_mint_bal s d x s' : bank_mint s d x = ROk s' ->
  forall a d', balance s' a d' = balance s a d' + ind (eqb (a, d') (MODULE, d)) x.
Proof.
  intros H a d'. apply bank_mint_inv in H. destruct H as [_ ->]. unfold balance at 1. simpl.
  rewrite getz_set. unfold ind. destruct (eqb (a, d') (MODULE, d)) eqn:E; [apply eqb_eq in E; inversion E; subst|]; unfold balance; lia.
Qed.

Lemma bank_burn_bal s d x s' : bank_burn s d x = ROk s' ->
  forall a d', balance s' a d' = balance s a d' - ind (eqb (a, d') (MODULE, d)) x.
Proof.
  intros H a d'. apply bank_burn_inv in H. destruct H as [_ ->]. unfold balance at 1. simpl.
  rewrite getz_set. unfold ind. destruct (eqb (a, d') (MODULE, d)) eqn:E; [apply eqb_eq in E; inversion E; subst|]; unfold balance; lia.
Qed.

Lemma bank_send_bal s f t d x s' : bank_send s f t d x = ROk s' ->
  forall a d', balance s' a d' = balance s a d' - ind (eqb (a, d') (f, d)) x + ind (eqb (a, d') (t, d)) x.
Proof.
  intros H a d'. apply bank_send_inv in H. destruct H as [_ ->]. unfold balance at 1. cbv zeta. simpl.
  rewrite getz_set. unfold ind.
  destruct (eqb (a, d') (t, d)) eqn:E1.
  - apply eqb_eq in E1. inversion E1; subst. rewrite getz_set.
    destruct (eqb (t, d) (f, d)) eqn:E2; [apply eqb_eq in E2; inversion E2; subst|]; unfold balance; lia.
  - rewrite getz_set. destruct (eqb (a, d') (f, d)) eqn:E2; [apply eqb_eq in E2; inversion E2; subst|]; unfold balance; lia.
Qed.

Lemma bank_pay_bal s t d x s' : bank_pay s t d x = ROk s' ->
  forall a d', balance s' a d' = balance s a d' - ind (eqb (a, d') (MODULE, d)) x + ind (eqb (a, d') (t, d)) x.
Proof. intros H. apply bank_pay_inv in H. destruct H as [_ H]. eapply bank_send_bal; eassumption. Qed.

(** ** the fee handler *)
Definition tax_of (s : state) (amt : Z) : Z := dec_truncate_int (dec_mul (dec_of_int amt) (p_tax (pars s))).

Lemma fee_handler_effect s payer d amt s' :
  fee_handler s payer (d, amt) = ROk s' ->
  let tax := tax_of s amt in
  bank_only s s' /\ 0 <= tax <= amt /\ amt <= balance s payer d
  /\ (forall d', supply_of s' d' = supply_of s d' - ind (eqb d' d) (amt - tax))
  /\ (forall a d', balance s' a d' = balance s a d' - ind (eqb (a, d') (payer, d)) amt + ind (eqb (a, d') (FEECOL, d)) tax).
Proof.
  intros H. cbv zeta. unfold fee_handler in H. fold (tax_of s amt) in H.
  set (tax := tax_of s amt) in *.
  inv_if H. apply Z.ltb_ge in E.
  inv_bind H. inv_bind H.
  pose proof (bank_send_inv _ _ _ _ _ _ E0) as [Hr0 _].
  pose proof (bank_send_inv _ _ _ _ _ _ E1) as [Hr1 _].
  split; [|split; [|split; [|split]]].
  - eapply bank_only_trans; [eapply bank_send_only; eassumption|].
    eapply bank_only_trans; [eapply bank_send_only; eassumption|eapply bank_burn_only; eassumption].
  - lia.
  - lia.
  - intros d'. rewrite (bank_burn_sup _ _ _ _ H), (bank_send_sup _ _ _ _ _ _ E1), (bank_send_sup _ _ _ _ _ _ E0). reflexivity.
  - intros a d'. rewrite (bank_burn_bal _ _ _ _ H), (bank_send_bal _ _ _ _ _ _ E1), (bank_send_bal _ _ _ _ _ _ E0).
    unfold ind.
    destruct (eqb (a, d') (payer, d)); destruct (eqb (a, d') (MODULE, d)); destruct (eqb (a, d') (FEECOL, d)); lia.
Qed.

(** the non-ledger part of the state, for framing *)
Lemma bank_only_fields s s' : bank_only s s' ->
  tokens s' = tokens s /\ minunits s' = minunits s /\ owned s' = owned s /\ contracts s' = contracts s
  /\ burned s' = burned s /\ erc20 s' = erc20 s /\ pars s' = pars s /\ registry s' = registry s
  /\ next_contract s' = next_contract s /\ evm_mode s' = evm_mode s.
Proof. intros (B & S & -> & _ & _). repeat split. Qed.

Lemma bank_only_nodup s s' : bank_only s s' ->
  (NoDup (keys (bank s)) -> NoDup (keys (bank s'))) /\ (NoDup (keys (supply s)) -> NoDup (keys (supply s'))).
Proof. intros (B & S & -> & HB & HS). split; assumption. Qed.
