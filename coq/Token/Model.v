(** * Token module: executable model
    (modules/token/keeper/{keeper,token,fees,erc20,msg_server,params}.go,
     types/v1/{token,msgs,params}.go, types/validation.go, types/types.go)

    Conventions shared with the harness (harness/cmd/token):

    - a *name* (symbol, min unit, bank denom) is a pair [(id, len)]: the harness maps it
      injectively to a string of length [len]; [id >= 0] is the well-formed family
      ("t" ++ letter ++ zeros; "stake" is [(100, 5)]), [id = -1] starts with an upper-case letter
      (rejected by every validator), [id = -2] starts with the reserved keyword "ibc".
      Symbols, min units and denoms live in ONE string space, as in the Go code
      ([GetToken] looks a string up as a symbol first and as a min unit second).
    - an *account* is a number: [0..] the actors, [-1] not a bech32 address, [-2] the empty
      string (optional receivers), [100] the token module account, [101] the fee collector (a
      blocked address), [102] the gov module (the authority).  ERC20 holders: the same numbers
      (an actor's 20 bytes read as an Ethereum address), [200..] Ethereum-only addresses.
    - descriptive token names are interned strings: [0] is "[do-not-modify]", negative is the
      empty / over-long name.
    - the SDK bank keeper is modelled (ledger + supply per denom), not verified; the EVM is the
      harness's journalled ERC20 double: [contract -> holder -> Z], calls behaving as
      configured by [evm_mode].

    No proofs in this file. *)
From Irismod Require Export Base.Prelude Base.Dec Token.LossLess Gen.TokenFeeFactor.

Definition name := (Z * Z)%type.
Definition acct := Z.

Definition MODULE : acct := 100.
Definition FEECOL : acct := 101.
Definition GOV : acct := 102.
Definition MAXU64 : Z := 18446744073709551615.
Definition MAXINIT : Z := 100000000000.

(** ** validators (types/validation.go, types/v1/msgs.go) *)
Definition valid_addr (a : acct) : bool := 0 <=? a.
Definition valid_sym (n : name) : bool := (0 <=? fst n) && (3 <=? snd n) && (snd n <=? 64).
Definition valid_erc20_name (n : name) : bool :=
  ((0 <=? fst n) || (fst n =? -2)) && (3 <=? snd n) && (snd n <=? 101).
Definition valid_sdk_denom (n : name) : bool := (3 <=? snd n) && (snd n <=? 128).
Definition valid_tname (nm : Z) : bool := 0 <=? nm.
(** bank.BlockedAddr / keeper.blockedAddrs restricted to the universe of the harness *)
Definition blocked (a : acct) : bool := a =? FEECOL.

(** ** state *)
Record token := mkToken {
  t_symbol : name; t_minunit : name; t_scale : Z; t_initial : Z; t_max : Z;
  t_mintable : bool; t_owner : acct; t_contract : Z (* 0: none *); t_name : Z }.

Record params := mkParams {
  p_tax : Z;          (* TokenTaxRate, LegacyDec *)
  p_mint_ratio : Z;   (* MintTokenFeeRatio, LegacyDec *)
  p_base_fee : Z;     (* IssueTokenBaseFee.Amount *)
  p_fee_denom : name; (* IssueTokenBaseFee.Denom (a symbol) *)
  p_erc20 : bool;     (* EnableErc20 *)
  p_beacon : bool     (* Beacon set *) }.

Record state := mkState {
  tokens : amap name token;          (* 0x01 symbol -> token *)
  minunits : amap name name;         (* 0x02 min unit -> symbol *)
  owned : list (acct * name);        (* 0x03 (owner, symbol) *)
  contracts : amap Z name;           (* 0x06 contract -> symbol *)
  burned : amap name Z;              (* 0x04 min unit -> burned tally *)
  bank : amap (acct * name) Z;       (* bank balances *)
  supply : amap name Z;              (* bank supply *)
  erc20 : amap (Z * acct) Z;         (* ERC20 double: (contract, holder) -> balance *)
  pars : params;
  registry : amap name (name * Z);   (* swap registry: fee token min unit -> (target, ratio) *)
  next_contract : Z;                 (* the module account's nonce + 1 = id of the next contract *)
  evm_mode : Z                       (* behaviour of the EVM double, see [ToErc20] *) }.

Definition upd_tokens s x := mkState x (minunits s) (owned s) (contracts s) (burned s) (bank s) (supply s) (erc20 s) (pars s) (registry s) (next_contract s) (evm_mode s).
Definition upd_minunits s x := mkState (tokens s) x (owned s) (contracts s) (burned s) (bank s) (supply s) (erc20 s) (pars s) (registry s) (next_contract s) (evm_mode s).
Definition upd_owned s x := mkState (tokens s) (minunits s) x (contracts s) (burned s) (bank s) (supply s) (erc20 s) (pars s) (registry s) (next_contract s) (evm_mode s).
Definition upd_contracts s x := mkState (tokens s) (minunits s) (owned s) x (burned s) (bank s) (supply s) (erc20 s) (pars s) (registry s) (next_contract s) (evm_mode s).
Definition upd_burned s x := mkState (tokens s) (minunits s) (owned s) (contracts s) x (bank s) (supply s) (erc20 s) (pars s) (registry s) (next_contract s) (evm_mode s).
Definition upd_bank s x y := mkState (tokens s) (minunits s) (owned s) (contracts s) (burned s) x y (erc20 s) (pars s) (registry s) (next_contract s) (evm_mode s).
Definition upd_erc20 s x := mkState (tokens s) (minunits s) (owned s) (contracts s) (burned s) (bank s) (supply s) x (pars s) (registry s) (next_contract s) (evm_mode s).
Definition upd_pars s x := mkState (tokens s) (minunits s) (owned s) (contracts s) (burned s) (bank s) (supply s) (erc20 s) x (registry s) (next_contract s) (evm_mode s).
Definition upd_next s x := mkState (tokens s) (minunits s) (owned s) (contracts s) (burned s) (bank s) (supply s) (erc20 s) (pars s) (registry s) x (evm_mode s).
Definition upd_mode s x := mkState (tokens s) (minunits s) (owned s) (contracts s) (burned s) (bank s) (supply s) (erc20 s) (pars s) (registry s) (next_contract s) x.

(** ** outcomes *)
Inductive res (A : Type) := ROk (a : A) | RRej | RAbort.
Arguments ROk {A} a. Arguments RRej {A}. Arguments RAbort {A}.
Definition bind {A B} (r : res A) (f : A -> res B) : res B :=
  match r with ROk a => f a | RRej => RRej | RAbort => RAbort end.
Notation "'do' x <- r ; k" := (bind r (fun x => k)) (at level 200, x name, r at level 100, k at level 200).

(** ** bank (modelled) *)
Definition getz {K} `{EqDec K} (k : K) (m : amap K Z) : Z := match get k m with Some x => x | None => 0 end.
Definition balance (s : state) (a : acct) (d : name) : Z := getz (a, d) (bank s).
Definition supply_of (s : state) (d : name) : Z := getz d (supply s).
Definition burned_of (s : state) (d : name) : Z := getz d (burned s).
Definition erc20_bal (s : state) (c : Z) (h : acct) : Z := getz (c, h) (erc20 s).

(** [sdk.NewCoin] panics on a negative amount *)
Definition coin_ok (x : Z) : bool := 0 <=? x.

(** MintCoins into the module account *)
Definition bank_mint (s : state) (d : name) (x : Z) : res state :=
  if negb (coin_ok x) then RAbort
  else ROk (upd_bank s (set (MODULE, d) (balance s MODULE d + x) (bank s)) (set d (supply_of s d + x) (supply s))).

(** BurnCoins from the module account *)
Definition bank_burn (s : state) (d : name) (x : Z) : res state :=
  if negb (coin_ok x) then RAbort
  else if balance s MODULE d <? x then RRej
  else ROk (upd_bank s (set (MODULE, d) (balance s MODULE d - x) (bank s)) (set d (supply_of s d - x) (supply s))).

(** SendCoins (no blocked-address check: account -> module, module -> module) *)
Definition bank_send (s : state) (from to : acct) (d : name) (x : Z) : res state :=
  if negb (coin_ok x) then RAbort
  else if balance s from d <? x then RRej
  else
    let b1 := set (from, d) (balance s from d - x) (bank s) in
    ROk (upd_bank s (set (to, d) (getz (to, d) b1 + x) b1) (supply s)).

(** SendCoinsFromModuleToAccount: blocked recipients are refused *)
Definition bank_pay (s : state) (to : acct) (d : name) (x : Z) : res state :=
  if blocked to then RRej else bank_send s MODULE to d x.

(** ** lookups (keeper/token.go) *)
Definition token_by_symbol (s : state) (sym : name) : option token := get sym (tokens s).
Definition token_by_minunit (s : state) (mu : name) : option token :=
  match get mu (minunits s) with Some sym => token_by_symbol s sym | None => None end.
(** GetToken: symbol first, min unit second *)
Definition get_token (s : state) (d : name) : option token :=
  match token_by_symbol s d with Some t => Some t | None => token_by_minunit s d end.

Definition add_owned (o : acct) (sym : name) (l : list (acct * name)) : list (acct * name) :=
  if existsb (eqb (o, sym)) l then l else l ++ [(o, sym)].
Definition del_owned (o : acct) (sym : name) (l : list (acct * name)) : list (acct * name) :=
  filter (fun p => negb (eqb (o, sym) p)) l.

(** upsertToken *)
Definition upsert_token (s : state) (t : token) : state :=
  let s1 := upd_tokens s (set (t_symbol t) t (tokens s)) in
  let s2 := upd_minunits s1 (set (t_minunit t) (t_symbol t) (minunits s1)) in
  let s3 := upd_owned s2 (add_owned (t_owner t) (t_symbol t) (owned s2)) in
  if t_contract t =? 0 then s3 else upd_contracts s3 (set (t_contract t) (t_symbol t) (contracts s3)).

(** ** fees (keeper/fees.go) *)
Definition fee_factor (len : Z) : Z := getz len fee_factor_table.

(** calcTokenIssueFee: base / factor(len symbol), at least 1; [None] = division by zero (panic) *)
Definition calc_issue_fee (p : params) (sym : name) : option Z :=
  let f := fee_factor (snd sym) in
  if f =? 0 then None
  else
    let feeAmt := dec_quo (dec_of_int (p_base_fee p)) f in
    Some (if P18 <? feeAmt then dec_truncate_int feeAmt else 1).

(** Token.ToMinCoin for a whole amount of the fee token *)
Definition to_min_coin (s : state) (p : params) (amount : Z) : res (name * Z) :=
  match get_token s (p_fee_denom p) with
  | None => RRej
  | Some t =>
      if negb (eqb (t_symbol t) (p_fee_denom p)) then RRej
      else ROk (t_minunit t, dec_truncate_int (dec_mul (dec_of_int amount) (dec_of_int (pow10 (t_scale t)))))
  end.

(** GetTokenIssueFee / GetTokenMintFee *)
Definition issue_fee (s : state) (sym : name) : res (name * Z) :=
  match calc_issue_fee (pars s) sym with
  | None => RAbort
  | Some fee => to_min_coin s (pars s) fee
  end.

Definition mint_fee (s : state) (sym : name) : res (name * Z) :=
  match calc_issue_fee (pars s) sym with
  | None => RAbort
  | Some fee =>
      let mf := dec_truncate_int (dec_mul (dec_of_int fee) (p_mint_ratio (pars s))) in
      to_min_coin s (pars s) mf
  end.

(** feeHandler: the payer sends the fee to the module account; [floor(fee * tax)] goes to the fee
    collector; the rest is burned *)
Definition fee_handler (s : state) (payer : acct) (fee : name * Z) : res state :=
  let '(d, amt) := fee in
  let tax := dec_truncate_int (dec_mul (dec_of_int amt) (p_tax (pars s))) in
  if amt - tax <? 0 then RAbort
  else
    do s1 <- bank_send s payer MODULE d amt;
    do s2 <- bank_send s1 MODULE FEECOL d tax;
    bank_burn s2 d (amt - tax).

(** one SwapToNative event of an EVM receipt: (contract, holder whose ERC20 the contract burned, receiver, amount) *)
Definition hook_ev := (Z * acct * acct * Z)%type.

(** ** messages *)
Inductive msg :=
| Issue (owner : acct) (sym minu : name) (nm scale initial max : Z) (mintable : bool)
| Edit (owner : acct) (sym : name) (nm max : Z) (mintable : Z)        (* mintable: 0 nil, 1 true, 2 false *)
| Mint (owner receiver : acct) (denom : name) (amt : Z)
| Burn (sender : acct) (denom : name) (amt : Z)
| Transfer (src dst : acct) (sym : name)
| SwapFee (sender receiver : acct) (denom : name) (amt : Z)
| Deploy (auth : acct) (nm : Z) (sym minu : name) (scale : Z)
| ToErc20 (sender receiver : acct) (denom : name) (amt : Z)
| FromErc20 (sender receiver : acct) (denom : name) (amt : Z)
| SetParams (auth : acct) (tax ratio base : Z) (denom : name) (enable beacon : bool)
| EvmMode (m : Z)
| HookToNative (c : Z) (from to : acct) (amt : Z)
| UpgradeErc20 (auth : acct) (impl : Z)           (* impl < 0: not a hex address *)
| HookMulti (evs : list hook_ev).                 (* ONE EVM transaction whose receipt carries several SwapToNative events *)

(** ValidateBasic of each message *)
Definition effective_max (max initial : Z) (mintable : bool) : Z :=
  if max =? 0 then (if mintable then MAXU64 else initial) else max.

Definition validate_basic (m : msg) : bool :=
  match m with
  | Issue owner sym minu nm scale initial max mintable =>
      valid_addr owner && valid_tname nm && valid_sym sym && valid_sym minu
      && (initial <=? MAXINIT) && negb (effective_max max initial mintable <? initial) && (0 <=? scale) && (scale <=? 18)
  | Edit owner sym nm _ _ => valid_addr owner && valid_tname nm && valid_sym sym
  | Mint owner receiver denom amt =>
      valid_addr owner && ((receiver =? -2) || valid_addr receiver) && (0 <? amt) && valid_sym denom
  | Burn sender denom amt => valid_addr sender && (0 <? amt) && valid_sym denom
  | Transfer src dst sym => valid_addr src && valid_addr dst && negb (src =? dst) && valid_sym sym
  | SwapFee sender receiver denom amt =>
      valid_addr sender && ((receiver =? -2) || valid_addr receiver) && (0 <? amt) && valid_sym denom
  | Deploy auth nm sym minu scale =>
      valid_addr auth && valid_tname nm && (0 <=? scale) && (scale <=? 18) && valid_erc20_name minu && valid_erc20_name sym
  | ToErc20 sender receiver denom amt => valid_addr sender && valid_addr receiver && valid_sdk_denom denom && (0 <? amt)
  | FromErc20 sender receiver denom amt => valid_addr sender && valid_addr receiver && valid_sdk_denom denom && (0 <? amt)
  | SetParams auth tax ratio base denom _ _ =>
      valid_addr auth && valid_sdk_denom denom && (0 <=? tax) && (tax <=? P18) && (0 <=? ratio) && (ratio <=? P18) && (0 <=? base)
      && (base <? 2 ^ 195)   (* [fix:] of the params group: at most 195 bits *)
  | EvmMode _ => true
  | HookToNative _ from _ amt => valid_addr from && (0 <=? amt)
  | UpgradeErc20 auth impl => valid_addr auth && (0 <=? impl)
  | HookMulti evs => forallb (fun e : hook_ev => let '(_, from, _, amt) := e in valid_addr from && (0 <=? amt)) evs
  end.

(** msgServer.IssueToken + Keeper.IssueToken + AddToken/assertTokenValid *)
Definition do_issue (s : state) owner sym minu nm scale initial max mintable : res state :=
  if blocked owner then RRej
  else
    do fee <- issue_fee s sym;
    do s1 <- fee_handler s owner fee;
    if has sym (tokens s1) then RRej
    else if has minu (minunits s1) then RRej
    else
      let t := mkToken sym minu scale initial (effective_max max initial mintable) mintable owner 0 nm in
      let s2 := upsert_token s1 t in
      do s3 <- bank_mint s2 minu (initial * pow10 scale);
      bank_pay s3 owner minu (initial * pow10 scale).

(** Keeper.EditToken.  The new maximum is compared with the circulating supply in minimum units
    (after the [fix:] commit; before it the comparison was [max < supply / 10^scale]). *)
Definition edit_max_ok (max scale issued : Z) : bool := negb (max * pow10 scale <? issued).

Definition do_edit (s : state) owner sym nm max mintable : res state :=
  match token_by_symbol s sym with
  | None => RRej
  | Some t =>
      if negb (owner =? t_owner t) then RRej
      else if (0 <? max) && negb (edit_max_ok max (t_scale t) (supply_of s (t_minunit t))) then RRej
      else if (0 <? max) && (max <? t_initial t) then RRej   (* [fix:] of the genesis group: the stored token must keep passing Token.Validate *)
      else
        let max' := if 0 <? max then max else t_max t in
        let nm' := if nm =? 0 then t_name t else nm in
        let mt' := if mintable =? 0 then t_mintable t else (mintable =? 1) in
        ROk (upd_tokens s (set sym (mkToken (t_symbol t) (t_minunit t) (t_scale t) (t_initial t) max' mt' (t_owner t) (t_contract t) nm') (tokens s)))
  end.

(** msgServer.MintToken + Keeper.MintToken *)
Definition do_mint (s : state) owner receiver denom amt : res state :=
  let recipient := if receiver =? -2 then owner else receiver in
  if blocked recipient then RRej
  else
    match get denom (minunits s) with
    | None => RRej
    | Some sym =>
        do fee <- mint_fee s sym;
        do s1 <- fee_handler s owner fee;
        match token_by_minunit s1 denom with
        | None => RRej
        | Some t =>
            if negb (owner =? t_owner t) then RRej
            else if negb (t_mintable t) then RRej
            else if t_max t * pow10 (t_scale t) - supply_of s1 (t_minunit t) <? amt then RRej
            else
              do s2 <- bank_mint s1 denom amt;
              bank_pay s2 recipient denom amt
        end
    end.

(** Keeper.BurnToken *)
Definition do_burn (s : state) sender denom amt : res state :=
  match token_by_minunit s denom with
  | None => RRej
  | Some _ =>
      do s1 <- bank_send s sender MODULE denom amt;
      let s2 := upd_burned s1 (set denom (burned_of s1 denom + amt) (burned s1)) in
      bank_burn s2 denom amt
  end.

(** msgServer.TransferTokenOwner + Keeper.TransferTokenOwner + changeTokenOwner *)
Definition do_transfer (s : state) src dst sym : res state :=
  if blocked dst then RRej
  else
    match token_by_symbol s sym with
    | None => RRej
    | Some t =>
        if negb (src =? t_owner t) then RRej
        else
          let t' := mkToken (t_symbol t) (t_minunit t) (t_scale t) (t_initial t) (t_max t) (t_mintable t) dst (t_contract t) (t_name t) in
          let s1 := upd_tokens s (set sym t' (tokens s)) in
          ROk (upd_owned s1 (add_owned dst sym (del_owned src sym (owned s1))))
    end.

(** msgServer.SwapFeeToken + Keeper.SwapFeeToken + calcFeeTokenMinted *)
Definition do_swapfee (s : state) sender receiver denom amt : res state :=
  if negb (receiver =? -2) && blocked receiver then RRej
  else
    match token_by_minunit s denom with
    | None => RRej
    | Some tb =>
        match get (t_minunit tb) (registry s) with
        | None => RRej
        | Some (target, ratio) =>
            (* the target is resolved as a MIN UNIT (after the [fix:] commit; before it [get_token],
               symbol first, picked a token whose symbol is that string and used its scale) *)
            match token_by_minunit s target with
            | None => RRej
            | Some tm =>
                if lossless_overflows amt ratio (t_scale tb) (t_scale tm) then RAbort   (* LegacyDec "Int overflow" panic *)
                else
                let '(b, m) := lossless_swap amt ratio (t_scale tb) (t_scale tm) in
                if negb (coin_ok b) || negb (coin_ok m) then RAbort
                else
                  do s1 <- bank_send s sender MODULE (t_minunit tb) b;
                  do s2 <- bank_burn s1 (t_minunit tb) b;
                  do s3 <- bank_mint s2 target m;
                  bank_pay s3 (if receiver =? -2 then sender else receiver) target m
            end
        end
    end.

(** msgServer.DeployERC20 + Keeper.DeployERC20 + buildERC20Token (ICS20 double: every denom has a trace) *)
Definition do_deploy (s : state) auth nm sym minu scale : res state :=
  if negb (auth =? GOV) then RRej
  else
    let tok :=
      if has minu (minunits s) then
        match token_by_minunit s minu with Some t => ROk t | None => RRej end
      else if has sym (tokens s) then RRej
      else ROk (mkToken sym minu scale 0 0 true MODULE 0 nm) in
    do t <- tok;
    if negb (t_contract t =? 0) then RRej
    else if negb (p_erc20 (pars s)) then RRej
    else if negb (p_beacon (pars s)) then RRej
    else if evm_mode s =? 7 then RRej
    else
      let c := next_contract s in
      let t' := mkToken (t_symbol t) (t_minunit t) (t_scale t) (t_initial t) (t_max t) (t_mintable t) (t_owner t) c (t_name t) in
      ROk (upd_next (upsert_token s t') (c + 1)).

(** Keeper.SwapToERC20 + MintERC20.  EVM double: mode 1 = mint reverts, 2 = mint credits nothing
    but reports success, 5 = mint credits one unit too many: each is detected (VM error or the
    balance re-check) and the conversion is refused. *)
Definition do_to_erc20 (s : state) sender receiver denom amt : res state :=
  if negb (p_erc20 (pars s)) then RRej
  else
    match token_by_minunit s denom with
    | None => RRej
    | Some t =>
        if t_contract t =? 0 then RRej
        else
          do s1 <- bank_send s sender MODULE denom amt;
          do s2 <- bank_burn s1 denom amt;
          if (evm_mode s =? 1) || (evm_mode s =? 2) || (evm_mode s =? 5) then RRej
          else ROk (upd_erc20 s2 (set (t_contract t, receiver) (erc20_bal s2 (t_contract t) receiver + amt) (erc20 s2)))
    end.

(** Keeper.SwapFromERC20 + BurnERC20.  EVM double: mode 3 = burn reverts, 4 = burn debits nothing
    but reports success, 6 = burn debits one unit too few. *)
Definition do_from_erc20 (s : state) sender receiver denom amt : res state :=
  if negb (p_erc20 (pars s)) then RRej
  else
    match token_by_minunit s denom with
    | None => RRej
    | Some t =>
        if t_contract t =? 0 then RRej
        else if erc20_bal s (t_contract t) sender <? amt then RRej
        else if (evm_mode s =? 3) || (evm_mode s =? 4) || (evm_mode s =? 6) then RRej
        else
          let s1 := upd_erc20 s (set (t_contract t, sender) (erc20_bal s (t_contract t) sender - amt) (erc20 s)) in
          do s2 <- bank_mint s1 denom amt;
          bank_pay s2 receiver denom amt
    end.

(** msgServer.UpdateParams: the issue fee must be denominated in a registered SYMBOL (a min unit does not
    count) — [fix:] of the genesis group *)
Definition do_set_params (s : state) auth tax ratio base denom enable beacon : res state :=
  if negb (auth =? GOV) then RRej
  else if negb (has denom (tokens s)) then RRej
  else ROk (upd_pars s (mkParams tax ratio base denom enable beacon)).

(** An EVM transaction in which the bound contract [c] burns [amt] of [from]'s ERC20 balance and
    emits SwapToNative(from, to, amt) — the contract's own behaviour, simulated by the harness —
    followed by erc20Hook.PostTxProcessing (keeper/evm_hook.go) on its receipt: the token is found
    through the contract index, and exactly [amt] of its min unit is minted to [to]. *)
Definition do_hook (s : state) c from to amt : res state :=
  if erc20_bal s c from <? amt then RRej                    (* the contract reverts *)
  else
    match get c (contracts s) with
    | None => RRej                                           (* no such contract in the double *)
    | Some sym =>
        match token_by_symbol s sym with
        | None => RRej
        | Some t =>
            if negb (p_erc20 (pars s)) then RRej
            else if negb (valid_addr to) then RRej
            else if amt =? 0 then RRej
            else
              let s1 := upd_erc20 s (set (c, from) (erc20_bal s c from - amt) (erc20 s)) in
              do s2 <- bank_mint s1 (t_minunit t) amt;
              bank_pay s2 to (t_minunit t) amt
        end
    end.

(** erc20Hook.PostTxProcessing over a receipt with several SwapToNative events: the loop over the logs
    processes every one of them, in order; any failing event fails the whole EVM transaction *)
Fixpoint do_hook_multi (s : state) (evs : list hook_ev) : res state :=
  match evs with
  | [] => ROk s
  | (c, from, to, amt) :: r => do s1 <- do_hook s c from to amt; do_hook_multi s1 r
  end.

(** msgServer.UpgradeERC20 + Keeper.UpgradeERC20: the beacon's upgradeTo is called; balances held by
    the proxies are not touched (EVM double: mode 8 = the call reverts) *)
Definition do_upgrade (s : state) auth : res state :=
  if negb (auth =? GOV) then RRej
  else if negb (p_erc20 (pars s)) then RRej
  else if negb (p_beacon (pars s)) then RRej
  else if evm_mode s =? 8 then RRej
  else ROk s.

Definition handle (s : state) (m : msg) : res state :=
  match m with
  | Issue owner sym minu nm scale initial max mintable => do_issue s owner sym minu nm scale initial max mintable
  | Edit owner sym nm max mintable => do_edit s owner sym nm max mintable
  | Mint owner receiver denom amt => do_mint s owner receiver denom amt
  | Burn sender denom amt => do_burn s sender denom amt
  | Transfer src dst sym => do_transfer s src dst sym
  | SwapFee sender receiver denom amt => do_swapfee s sender receiver denom amt
  | Deploy auth nm sym minu scale => do_deploy s auth nm sym minu scale
  | ToErc20 sender receiver denom amt => do_to_erc20 s sender receiver denom amt
  | FromErc20 sender receiver denom amt => do_from_erc20 s sender receiver denom amt
  | SetParams auth tax ratio base denom enable beacon => do_set_params s auth tax ratio base denom enable beacon
  | EvmMode m => ROk (upd_mode s m)
  | HookToNative c from to amt => do_hook s c from to amt
  | UpgradeErc20 auth _ => do_upgrade s auth
  | HookMulti evs => do_hook_multi s evs
  end.

(** one message = one transaction: ValidateBasic, then the handler; a failure changes nothing *)
Definition exec (s : state) (m : msg) : res state :=
  if validate_basic m then handle s m else RRej.

Definition step (s : state) (m : msg) : state :=
  match exec s m with ROk s' => s' | _ => s end.

Definition step_code (s : state) (m : msg) : Z :=
  match exec s m with ROk _ => 0 | RRej => 1 | RAbort => 2 end.

Definition run (s : state) (ms : list msg) : state := fold_left step ms s.

(** ** genesis of the harness: the native token "stake" (symbol = min unit, scale 0, owned by the
    address of the token module account, maximum raised to 2^64-1 by the harness genesis), the configured parameters, balances and registry *)
Definition STAKE : name := (100, 5).
Definition native_token : token := mkToken STAKE STAKE 0 2000000000 MAXU64 true MODULE 0 1.

Definition genesis (p : params) (balances : amap (acct * name) Z) (stake_supply : Z)
    (reg : amap name (name * Z)) : state :=
  mkState [(STAKE, native_token)] [(STAKE, STAKE)] [(MODULE, STAKE)] [] [] balances [(STAKE, stake_supply)] []
          p reg 1 0.
